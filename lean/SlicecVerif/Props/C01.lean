/-
  C01 — every input yields a verdict: no crash, abort or hang.

  The property is about the whole program, so its proof is assembled from three kinds of obligations:

  (1) the *ledger theorem*: every panic-capable construct the translator finds in the current non-test source of
      slicec (macros `panic! todo! unimplemented! unreachable! assert*!`, `unwrap`/`expect`, range slicing, plain
      indexing, `replace_range`, `split_at`, `drain`, `remove`) has a disposition in translator/ledger/panic_sites.json
      and none is classified as reachable by an input; slice-codec has no such construct at all.  A new `unwrap` in the
      source, or a site that loses its ledger entry, makes `ledger_complete` fail to build.
  (2) the *component theorems*: for the components whose panics and loops are modelled — alias resolution, the
      containment cycle detector, doc-comment stripping and attachment, the generator option parser, the reply
      decoder's skip loop, the snippet arithmetic, the driver's exit status — the model never takes a panic branch and
      never runs out of the fuel that stands for "the recursion returns".  They are proved in the files of the
      properties that own the models (C03, C05, C07, C11, C14, C16, C19) and re-exported here in the form C01 needs, so
      that a change which re-opens one of them breaks C01 as well.
  (3) what no model can show — that the glue between the components neither crashes nor hangs, and the time bound —
      is checked on the real binary and in isolated worker processes (streams `C01` and `proc C01`).

  Not modelled (trusted / tested only): the LALRPOP-generated parser tables, clap, std, the recursion *depth* of the
  recursive descent over type trees, preprocessor expressions and nested `#if` blocks (stack overflows on inputs far
  beyond 8 KiB are recorded as known findings D-01d..h), and the behaviour when stdout / stderr cannot be written
  (`environment` rows of the ledger).
-/
import SlicecVerif.Gen.PanicSites
import SlicecVerif.Props.C03
import SlicecVerif.Props.C05
import SlicecVerif.Props.C07
import SlicecVerif.Props.C11
import SlicecVerif.Props.C14
import SlicecVerif.Props.C16
import SlicecVerif.Props.C19

namespace Slicec.C01

open Slicec

/-! ## (1) the ledger -/

/-- a site is *discharged* when it is modelled, shown unreachable, guards an internal invariant, or needs a failing
    output stream (outside the property's quantifiers) -/
def discharged : Gen.SiteClass → Bool
  | .model | .unreachable | .internal | .environment => true
  | .reachable | .unmapped => false

/-- **Ledger completeness.** Every panic-capable site of the current source has a ledger entry, and no entry says that an
    input reaches the site. -/
theorem ledger_complete : ∀ s ∈ Gen.panicSites, discharged s.2.1 = true := by decide

/-- the ledger has no entry for a site that no longer exists and that could be taken for a remaining site with another
    disposition (same text in the same fn, told apart only by their number). An entry whose construct was simply removed from
    the code is *retired* (`Gen.retiredLedgerKeys`, named in the check's output): removing a `[..]` or an `unwrap` cannot add
    a panic, and a new site never inherits silently — it is unmapped until the ledger names it (`ledger_complete`). -/
theorem ledger_not_stale : Gen.staleLedgerKeys = [] := rfl

/-- only the two writes of `main` to stderr / stdout are classified as environment-dependent -/
theorem environment_sites_are_the_two_writes :
    ((Gen.panicSites.filter fun s => s.2.1 == .environment).map (·.1)).length = 2 := by decide

/-- slice-codec (the decoder that reads the generators' replies) has no panic-capable construct in non-test code -/
theorem codec_has_no_panic_site : Gen.codecPanicSites = [] := C11.no_panic_sites

/-! ## (2) component theorems, in the form C01 needs -/

/-- alias resolution returns for every table, wanted kind, identifier and scope: the recursion bound of the model
    (number of aliases + 1) is never reached, i.e. `resolve_type_alias` cannot recurse forever -/
theorem alias_resolution_returns (t : Table) (w : Want) (id scope : String) :
    resolveNamed t w id scope ≠ .error .fuel := C03.resolve_never_out_of_fuel t w id scope

/-- the containment cycle detector returns on every graph (cyclic or not) within `#types` nested calls -/
theorem cycle_detector_returns (g : Cyc.Graph) : (Cyc.detectE (Cyc.edges g) g.length).exhausted = false :=
  C05.fuel_suffices g

/-- no doc comment — whatever its lines contain — makes `parse_doc_comment` panic; in particular the stripping of the common
    indentation never cuts inside a character -/
theorem doc_comment_never_panics (raw : List Str) : ∃ a, attach raw = .ok a := C16.attach_total raw

/-- … and `sanitize_message_lines` itself has neither a panic nor an error outcome -/
theorem sanitize_never_panics (ls : List MLine) : ∀ s, sanitizeMessageLines ls ≠ .panic s :=
  (C16.sanitize_no_panic ls).2.1

/-- the `--generator` value parser is a total function into accept / reject for EVERY string, including the empty one
    (which used to hit an `assert!`, D-19a) -/
theorem generator_option_total (s : List Char) :
    (∃ e, PluginSpec.pluginParser s = .error e) ∨ (∃ v, PluginSpec.pluginParser s = .ok v) := by
  cases h : PluginSpec.pluginParser s with
  | error e => exact Or.inl ⟨e, rfl⟩
  | ok v => exact Or.inr ⟨v, rfl⟩

theorem generator_option_empty_rejected : PluginSpec.pluginParser [] = .error .missingPath := C19.rejects_empty

/-- the tagged-field skip loop of the reply decoder terminates on every byte string -/
theorem reply_skip_terminates (fuel : Nat) (bs : Bytes) (h : bs.length < fuel) :
    skipTagged fuel bs = skipTaggedFields bs := C11.skip_fuel_sufficient fuel bs h

/-- a reply cannot make the decoder reserve more entries than it has bytes left (no allocation abort from an announced size) -/
theorem reply_reservation_bounded (announced : Nat) (rest : Bytes) :
    Gen.hashMapReserve announced rest.length ≤ rest.length := C11.hash_reservation_bounded announced rest

/-- the snippet arithmetic of the diagnostic emitter cannot underflow for a well-formed span in a known file -/
theorem snippet_returns (files : List Emit.SrcFile) (sp : Emit.Span) (f : Emit.SrcFile)
    (hf : files.find? (fun f => f.path == sp.file) = some f) (hok : Emit.SpanOk f.text.toList sp.start sp.stop) :
    ∃ out, Emit.emitSnippet files sp = .ok out := C14.snippet_no_underflow files sp f hf hok

/-- **The verdict.** Whatever the compilation phases reported, whatever the generators did and whatever the file system
    holds, the driver ends with exit status 0 or 1 — or 79 exactly when the request could not be encoded in front of an
    open guard. -/
theorem exit_status_is_a_verdict (opts : Driver.Options) (c : List Driver.Diag) (request : Option Bytes)
    (gens : List Driver.GenRun) (fs : Driver.FileSystem) :
    (Driver.mainFlow opts c request gens fs).status = 0 ∨ (Driver.mainFlow opts c request gens fs).status = 1 ∨
    (Driver.mainFlow opts c request gens fs).status = 79 := by
  by_cases h : Driver.guardOpen opts c = true ∧ request = none
  · exact Or.inr (Or.inr ((C07.exit_79_iff opts c request gens fs).mpr h))
  · have h79 : Driver.guardOpen opts c = true → request ≠ none := fun hg hr => h ⟨hg, hr⟩
    rcases (C07.exit_iff_error opts c request gens fs h79).2.1 with h0 | h1
    · exact Or.inl h0
    · exact Or.inr (Or.inl h1)

/-! ## non-vacuity -/

example : Gen.panicSites.length > 60 := by decide
example : (Gen.panicSites.filter fun s => s.2.1 == .internal).length ≥ 1 := by decide
example : discharged .reachable = false ∧ discharged .unmapped = false := by decide

end Slicec.C01

#print axioms Slicec.C01.ledger_complete
#print axioms Slicec.C01.ledger_not_stale
#print axioms Slicec.C01.environment_sites_are_the_two_writes
#print axioms Slicec.C01.codec_has_no_panic_site
#print axioms Slicec.C01.alias_resolution_returns
#print axioms Slicec.C01.cycle_detector_returns
#print axioms Slicec.C01.doc_comment_never_panics
#print axioms Slicec.C01.sanitize_never_panics
#print axioms Slicec.C01.generator_option_total
#print axioms Slicec.C01.generator_option_empty_rejected
#print axioms Slicec.C01.reply_skip_terminates
#print axioms Slicec.C01.reply_reservation_bounded
#print axioms Slicec.C01.snippet_returns
#print axioms Slicec.C01.exit_status_is_a_verdict
