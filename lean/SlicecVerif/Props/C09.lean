/-
  C09 — Reported locations point at the right source text.
  The printer (Model/Print.lean) lays a program out and records, for every element, the location of the
  first character of its first own token and the location right after its last own token. The theorems
  below show, for EVERY item list and EVERY layout, that these recorded spans are what the property
  demands (1-based, counted in characters, start ≤ end, inside the text, exactly at token boundaries);
  the correspondence (projection `spans`) then compares them with the spans of the real AST.

  Second part (lexical half, proved): the model of the Slice lexer WITH locations (Model/SliceLexerLoc.lean — `advance_buffer`,
  `self.cursor`, the `(start, token, end)` every arm of `lex_next_slice_token` returns; tied to the real lexer by
  stream `C09lex`) assigns to the rendered text, for every `fileOk` file, every layout and every seed, exactly the
  token locations the printer recorded, and every span the printer reports runs from the start of a token of that
  stream to the end of a token of that stream — the first token after the element's `op` marker and the last token
  before its `cl` marker, i.e. what `@L` / `@R` around the element's production deliver.  What remains by
  correspondence is the parser (LALRPOP tables, grammar actions, `create_doc_comment`): projection `spans`.
-/
import SlicecVerif.Lemmas.Layout
import SlicecVerif.Lemmas.SliceLexerLocLayout
import SlicecVerif.Lemmas.SliceLexerLocItems
import SlicecVerif.Lemmas.CommentLoc
import SlicecVerif.Lemmas.CommentDocLoc

namespace Slicec.C09

open Slicec

/-- the single fact behind all location arithmetic: advancing over `a ++ b` is advancing over `a`, then `b`. -/
theorem advance_fold (l : Loc) (a b : List Char) : (a ++ b).foldl advance l = b.foldl advance (a.foldl advance l) :=
  List.foldl_append

/-- columns count characters — tabs, carriage returns and non-ASCII characters are one column each — and
    a text without line break stays on its row. -/
theorem columns_in_characters (l : Loc) (cs : List Char) (h : '\n' ∉ cs) :
    cs.foldl advance l = ⟨l.row, l.col + cs.length⟩ := by
  induction cs generalizing l with
  | nil => rfl
  | cons c cs ih =>
    have hc : c ≠ '\n' := fun e => h (by simp [e])
    have hcs : '\n' ∉ cs := fun e => h (by simp [e])
    simp only [List.foldl_cons, List.length_cons]
    rw [ih _ hcs]
    simp [advance, hc]; omega

/-- a line break starts the next row at column 1. -/
theorem newline_resets (l : Loc) : advance l '\n' = ⟨l.row + 1, 1⟩ := by simp [advance]

/-- a token's recorded location is exact: when a token `s` is emitted after the text `t`, every span opening
    at it starts at the location of `t`'s end (= the token's first character), the token occupies exactly the
    text `s` right after `t`, and the end recorded for anything closing on it is the location after `t ++ s`. -/
theorem token_loc_exact (st : LState) (s : String) (d : Bool) (h : LInv st) :
    textOf (emitTok st s d) = textOf st ++ s ∧
    (∀ p ∈ st.pendingOpen, (p, advanceStr ⟨1, 1⟩ (textOf st)) ∈ (emitTok st s d).opened) ∧
    (emitTok st s d).lastEnd = advanceStr ⟨1, 1⟩ (textOf st ++ s) := by
  refine ⟨by simp [textOf, emitTok, join_snoc], ?_, ?_⟩
  · intro p hp
    simp only [emitTok, List.mem_append, List.mem_map]
    left; exact ⟨p, hp, by rw [h.loc]⟩
  · simp only [emitTok]; rw [advanceStr_append, ← h.loc]

/-- closing an element records exactly (start of its first own token, end of its last own token):
    never white space, comments or neighbouring elements. -/
theorem span_tight (st : LState) (p : String) (start : Loc) (h : st.opened.find? (fun x => x.1 == p) = some (p, start)) :
    (closeSpan st p).spans = ⟨p, start, st.lastEnd⟩ :: st.spans := by
  simp [closeSpan, h]

/-- every span recorded by `render`, for every item list, layout style and seed: start ≤ end, rows and
    columns count from 1, and the span ends inside the rendered text. -/
theorem spans_wellformed (style seed : Nat) (items : List Item) (s : SpanRec)
    (hs : s ∈ (render style seed items).2) :
    s.start.le s.stop ∧ 1 ≤ s.start.row ∧ 1 ≤ s.start.col ∧
    s.stop.le (advanceStr ⟨1, 1⟩ (render style seed items).1) := by
  unfold render at hs ⊢
  simp only at hs ⊢
  have base : LInv { out := [], loc := ⟨1, 1⟩, lastEnd := ⟨1, 1⟩, pendingOpen := [], opened := [], spans := [],
                     rng := Rng.mk' seed, afterDoc := false } :=
    ⟨by simp [textOf, String.join, advanceStr], Loc.le_refl _, ⟨Nat.le_refl _, Nat.le_refl _⟩, by simp, by simp⟩
  have hinv := foldl_renderItem_inv style items _ base
  generalize (items.foldl (renderItem style) _) = st at hs hinv
  split at hs <;> rename_i hd
  · simp only [List.mem_reverse] at hs
    obtain ⟨a, b, c⟩ := hinv.spans_ok s hs
    refine ⟨a, b.1, b.2, ?_⟩
    simp only [hd, if_true, List.reverse_cons, join_snoc]
    rw [advanceStr_append]
    have : st.loc = advanceStr ⟨1, 1⟩ (String.join st.out.reverse) := hinv.loc
    rw [← this]
    exact Loc.le_trans c (Loc.le_trans hinv.lastEnd_le (advanceStr_le _ _))
  · simp only [List.mem_reverse] at hs
    obtain ⟨a, b, c⟩ := hinv.spans_ok s hs
    refine ⟨a, b.1, b.2, ?_⟩
    simp only [hd]
    have : st.loc = advanceStr ⟨1, 1⟩ (String.join st.out.reverse) := hinv.loc
    simp only [Bool.false_eq_true, if_false]
    rw [← this]
    exact Loc.le_trans c hinv.lastEnd_le

/-! non-vacuity: a concrete layout with a tab, a CR and a non-ASCII character before the token -/
example : advanceStr ⟨1, 1⟩ "\t\r é/* */\nab" = ⟨2, 3⟩ := by decide
example : ((render 0 0 [.op "x", .tok "struct", .sp, .tok "S", .cl "x"]).2.map fun s => (s.path, s.start, s.stop)) =
    [("x", ⟨1, 1⟩, ⟨1, 9⟩)] := by decide

/-! ## the lexer's locations (Model/SliceLexerLoc.lean) -/

open Slicec.SLex

/-- one call of `lex_next_slice_token`, for EVERY buffer, cursor and attribute mode: without the locations it is the call of
    the C02 model; the cursor after the call is the cursor before it advanced (`advance_buffer`) over exactly the characters
    the call consumed; what it returns is tagged with the cursor on entry as its start — so an escaped identifier starts at
    its backslash, a string at its opening quote, `::` `->` `[[` `]]` at their first character — except a doc comment, which
    starts three columns further (after `///`); the end it is tagged with is the cursor after the call (`LStep.items`). -/
theorem lexer_call_located (a : Bool) (cur : Loc) (c : Char) (cs : List Char) :
    (lexNextLoc a cur c cs).step = lexNext a c cs ∧
    (∃ pre, c :: cs = pre ++ (lexNext a c cs).rest ∧ (lexNextLoc a cur c cs).cur = pre.foldl advance cur) ∧
    ((∀ d, (lexNext a c cs).res ≠ .tok (.doc d)) → (lexNextLoc a cur c cs).start = cur) ∧
    (∀ d, (lexNext a c cs).res = .tok (.doc d) → (lexNextLoc a cur c cs).start = ⟨cur.row, cur.col + 3⟩) := by
  obtain ⟨h1, h2, h3⟩ := lexNextLoc_good a cur c cs
  refine ⟨h1, h2, ?_, ?_⟩
  · intro hnd
    rw [h3]
    cases hres : (lexNext a c cs).res with
    | skip w => rfl
    | err e => rfl
    | tok t => cases t <;> first | rfl | exact absurd hres (hnd _)
  · intro d hd
    rw [h3, hd]
    simp only [tokStart, advance_slash]

/-- **Erasure.** Dropping the locations from the located lexer gives the lexer of C02 — the iterator's whole output
    (`lexRun`), and what the parser sees (`lexSlice`), whatever the start location of the block. -/
theorem lexer_locations_erase (a : Bool) (cur : Loc) (cs : List Char) :
    (lexRunLoc a cur cs).erase = lexRun a cs ∧ (lexSliceLocAt cur cs).erase = lexSlice cs ∧ (lexSliceLoc cs).erase = lexSlice cs :=
  ⟨lexRunLoc_erase a cur cs, lexSliceLocAt_erase cur cs, lexSliceLoc_erase cs⟩

/-- when a block is exhausted, the cursor has been advanced over every character of it (comments, strings, white space,
    unknown symbols included): rows and columns never drift. -/
theorem lexer_cursor_at_end (a : Bool) (cur : Loc) (cs : List Char) : (lexRunLoc a cur cs).cur = cs.foldl advance cur :=
  lexRunLoc_cur a cur cs

/-- **Every token lies exactly over its spelling — for EVERY text** (not only printed programs), every block start and
    attribute mode: each token / error the lexer returns cuts the text as `pre ++ mid ++ post` with its end = the location
    after `pre ++ mid` and its start = the location after `pre` (a doc comment: three columns later, after its `///`), both
    counted from the block start by `advance`; and for a token, `mid` is the token's spelling (`spells`: the identifier with
    or without its backslash, the string with its quotes, the literal, the keyword's table entry, the punctuation,
    `///` + the doc text + a possibly stripped CR).  So locations are 1-based when the block start is, counted in
    characters, start ≤ end, inside the text, never off by white space or a comment. -/
theorem token_extent_exact (a : Bool) (cur : Loc) (cs : List Char) :
    ∀ it ∈ (lexRunLoc a cur cs).items, ∃ pre mid post, cs = pre ++ mid ++ post ∧
      it.stop = (pre ++ mid).foldl advance cur ∧
      (match it.item with
       | .tok t => spells t mid ∧ it.start = t.startAt (pre.foldl advance cur)
       | .err _ => it.start = pre.foldl advance cur) :=
  lexRunLoc_extent a cur cs

/-- the separation lemma of C02 with locations: if the text `s` ends in a way that `r` cannot change (`compat`), the located
    output on `s ++ r` is the located output on `s` followed by the located output on `r` read as a block that starts at
    the location where `s` ends. -/
theorem lex_is_local_located (a : Bool) (cur : Loc) (s r : List Char) (h : compat (lexRun a s).last r = true) :
    (lexRunLoc a cur (s ++ r)).items =
      (lexRunLoc a cur s).items ++ (lexRunLoc (lexRun a s).attr (s.foldl advance cur) r).items :=
  lexRunLoc_append a cur s r h

/-- a spelling consumed by ONE call of the lexer (every punctuation and two-character token, keyword, identifier, escaped
    identifier, integer literal, string literal with its quotes, doc line): its located output is that one token from the
    location where the spelling starts to the location where it ends; a doc comment starts three columns later. -/
theorem one_call_extent (a : Bool) (cur : Loc) (c : Char) (cs : List Char) (t : SliceTok)
    (hrest : (lexNext a c cs).rest = []) (hres : (lexNext a c cs).res = .tok t) :
    (lexRunLoc a cur (c :: cs)).items = [⟨.tok t, t.startAt cur, (c :: cs).foldl advance cur⟩] := by
  rw [lexRunLoc_oneCall a cur c cs hrest, hres]
  cases t <;> simp [StepRes.items, tokStart, advance_slash, SliceTok.startAt]

/-- an identifier as the printer writes it — `w`, or `\w` (always `\w` when `w` is a keyword): ONE identifier token from
    the first character of the spelling, the BACKSLASH included, to the end of the spelling. -/
theorem escaped_identifier_extent (a : Bool) (cur : Loc) (s : String) (esc : Bool)
    (hesc : keywords.contains s = true → esc = true) (hid : isIdentText s.toList = true) :
    (lexRunLoc a cur (if esc then "\\" ++ s else s).toList).items =
      [⟨.tok (.ident s.toList), cur, advanceStr cur (if esc then "\\" ++ s else s)⟩] :=
  lexRunLoc_identSpelling a cur s esc hesc hid

/-- a doc line `///` + text (text on one line, not starting with a fourth slash): ONE doc-comment token that starts after
    the three slashes and ends at the end of the line (a CR in front of the line break is stripped from the token's text
    but lies inside its extent). -/
theorem doc_line_extent (a : Bool) (cur : Loc) (s : String) (h1 : s.toList.head? ≠ some '/') (h2 : s.toList.contains '\n' = false) :
    (lexRunLoc a cur ("///" ++ s).toList).items =
      [⟨.tok (.doc (stripCr s.toList)), ⟨cur.row, cur.col + 3⟩, advanceStr cur ("///" ++ s)⟩] :=
  lexRunLoc_docSpelling a cur s h1 h2

/-- a text that starts and ends with a character that is neither white space nor a slash and does not end inside a line
    comment (a scoped name `A::\B::C`, any single token): the first element of its located output starts where the text
    starts, the last one ends where the text ends. -/
theorem tight_text_extent (a : Bool) (cur : Loc) (cs : List Char) (h : tightText cs = true) (hline : (lexRun a cs).last ≠ .line) :
    (∃ i tl, (lexRunLoc a cur cs).items = i :: tl ∧ i.start = cur) ∧
    (∃ it, (lexRunLoc a cur cs).items.getLast? = some it ∧ it.stop = cs.foldl advance cur) := by
  obtain ⟨c, r, d, hcs, hd, hw1, hs1, hw2, hs2⟩ := tightText_ends h
  refine ⟨?_, lexRunLoc_getLast a cur cs d hd hw2 hs2 hline⟩
  obtain ⟨i, tl, h1, h2, _⟩ := lexRunLoc_head a cur c r hw1 hs1
  exact ⟨i, tl, by rw [hcs]; exact h1, h2⟩

/-! ## printer and lexer agree on every token location -/

/-- what `tokenLocs` (the printer's notes, `trace`) adds for one item — only locations `emitTok` itself recorded:
    * an identifier item: one identifier token `(start, stop)` of `emitTok`, backslash included if written;
    * an optional comma: nothing if the layout did not write it (never in layout 0), else one `Comma` token `(start, stop)`;
    * separators and span markers: nothing;
    * a `tok s` item whose spelling one call of the lexer consumes as the token `t` (not a doc comment): `t` at `(start, stop)`;
    * a doc line (one line, no fourth slash): the doc comment at `(start + 3 columns, stop)`. -/
theorem printer_notes (style : Nat) (T : Trace) :
    (∀ s, (traceStep style T (.ident s)).toks =
        T.toks ++ [⟨.ident s.toList, T.st.loc, (renderItem style T.st (.ident s)).lastEnd⟩]) ∧
    ((traceStep style T .optComma).toks = T.toks ∨
      (style ≠ 0 ∧ (traceStep style T .optComma).toks = T.toks ++ [⟨.comma, T.st.loc, (renderItem style T.st .optComma).lastEnd⟩])) ∧
    (∀ n p, (traceStep style T (.nl n)).toks = T.toks ∧ (traceStep style T .sp).toks = T.toks ∧
      (traceStep style T .glue).toks = T.toks ∧ (traceStep style T (.op p)).toks = T.toks ∧ (traceStep style T (.cl p)).toks = T.toks) ∧
    (∀ s c cs t, s.toList = c :: cs → (lexNext T.attr c cs).rest = [] → (lexNext T.attr c cs).res = .tok t → (∀ d, t ≠ .doc d) →
      (traceStep style T (.tok s)).toks = T.toks ++ [⟨t, T.st.loc, (renderItem style T.st (.tok s)).lastEnd⟩]) ∧
    (∀ s, s.toList.head? ≠ some '/' → s.toList.contains '\n' = false →
      (traceStep style T (.docLine s)).toks =
        T.toks ++ [⟨.doc (stripCr s.toList), ⟨T.st.loc.row, T.st.loc.col + 3⟩, (renderItem style T.st (.docLine s)).lastEnd⟩]) := by
  refine ⟨fun s => rfl, ?_, ?_, ?_, ?_⟩
  · obtain ⟨rng, hren | ⟨hs, hren⟩⟩ := renderItem_optComma style T.st
    · left
      simp only [traceStep, hren]
      simp
    · right
      refine ⟨hs, ?_⟩
      have hne : ((emitTok { T.st with rng := rng } "," false).loc == T.st.loc) = false := by
        have : (emitTok { T.st with rng := rng } "," false).loc = advance T.st.loc ',' := rfl
        rw [this]
        exact beq_eq_false_iff_ne.mpr (advance_ne_self _ _)
      simp only [traceStep, hren, hne]
      simp [Trace.emit]
  · intro n p
    refine ⟨rfl, rfl, rfl, rfl, ?_⟩
    simp only [traceStep]
    split <;> rfl
  · intro s c cs t hs hrest hres hnd
    simp only [traceStep, Trace.emit, hs]
    rw [one_call_extent T.attr T.st.loc c cs t hrest hres]
    have : t.startAt T.st.loc = T.st.loc := by
      cases t <;> first | rfl | exact absurd rfl (hnd _)
    rw [this]
    simp only [toksLocOf, renderItem, emitTok, advanceStr, hs]
  · intro s h1 h2
    simp only [traceStep, Trace.emit, lexRunLoc_docSpelling T.attr T.st.loc s h1 h2, toksLocOf]
    rfl

/-- **Located layout theorem, item lists.** For every item list that passes the separation check of C02 (`itemsOk`), every
    layout and every seed: the located lexer reads the rendered text (one block starting at 1:1) without error as exactly
    the located token list the printer noted (`tokenLocs`): the k-th token has the start and end `render` recorded when
    it wrote that token. -/
theorem layout_locations_items (layout seed : Nat) (items : List Item) (h : itemsOk items = true) :
    lexSliceLoc (render layout seed items).1.toList = .ok (tokenLocs layout seed items) :=
  lex_render_loc layout seed items h

/-- **Located layout theorem.** For EVERY abstract file that satisfies the decidable leaf conditions `fileOk` of C02, every
    layout (tabs, CR LF, lone CR, multi-byte characters, comments in every gap, optional commas, escaped identifiers) and
    every seed: the lexer's located token list of the rendered text is exactly the printer's `tokenLocs` — token for token
    the (start, end) recorded by `emitTok` (see `printer_notes`) — and, locations dropped, it is the token list
    `tokensWith false cs (fileItems f)` of C02's `layout_independence` (`cs` = the layout's optional commas). -/
theorem layout_locations (f : SFile) (hf : fileOk f = true) (layout seed : Nat) :
    lexSliceLoc (render layout seed (fileItems f)).1.toList = .ok (tokenLocs layout seed (fileItems f)) ∧
    ∃ cs : List Bool, (layout = 0 → cs = []) ∧
      (tokenLocs layout seed (fileItems f)).map (·.tok) = tokensWith false cs (fileItems f) := by
  have hok := itemsOk_fileItems f hf
  have h1 := lex_render_loc layout seed (fileItems f) hok
  refine ⟨h1, ?_⟩
  obtain ⟨cs, hcs, h2⟩ := lex_render layout seed (fileItems f) hok
  refine ⟨cs, hcs, ?_⟩
  have h3 := lexSliceLoc_erase (render layout seed (fileItems f)).1.toList
  rw [h1, h2] at h3
  simpa [LexResultLoc.erase] using h3

/-! ## reported spans are token extents -/

/-- **Spans are token extents, item lists.** For every item list that passes the separation check and writes only tight
    texts, every layout and seed: the spans `render` reports are, one for one and in order, the spans
    `(path, spelling start of token i, end of token j)` of the located token list, where `spanTokens` names `i` = the first
    token written after the element's `op path` marker and `j` = the last token written before its `cl path` marker
    (`i ≤ j`, both in range).  `spellStart` is the token's start, except that a doc comment's `///` is counted in. -/
theorem spans_are_token_extents_items (layout seed : Nat) (items : List Item) (hok : itemsOk items = true)
    (ht : itemsTight items = true) :
    (render layout seed items).2 = (spanTokens layout seed items).map (spanOfTokens (tokenLocs layout seed items)) ∧
    ∀ e ∈ spanTokens layout seed items, e.2.1 ≤ e.2.2 ∧ e.2.2 < (tokenLocs layout seed items).length :=
  spans_render layout seed items hok ht

/-- everything the printer writes for a `fileOk` file whose directives / scoped names / module path start and end with a
    non-blank, non-slash character and whose doc lines do not start with a slash (`fileTight`) is a tight text. -/
theorem printer_writes_tight_texts (f : SFile) (hf : fileOk f = true) (ht : fileTight f = true) :
    itemsTight (fileItems f) = true :=
  itemsTight_fileItems f hf ht

/-- the name conditions of `fileTight` follow from the syntactic criterion of C02 (`names_with_identifier_segments`): a
    scoped name whose `::`-separated segments are identifiers (first may be empty) is printed as a tight text, and so is
    a directive made of identifiers joined by `::`. -/
theorem tight_names_with_identifier_segments (id : String) (h : nameSegsOk (id.splitOn "::") = true) :
    tightText (escapeScoped id).toList = true :=
  tightText_of_segments id h

/-- the directive half of the criterion: identifiers joined by `::` (keywords allowed inside attributes) are tight. -/
theorem tight_directives_with_identifier_segments (segs : List String) (hne : segs ≠ [])
    (h : ∀ s ∈ segs, isIdentText s.toList = true) (args : List String) :
    attrTight ⟨"::".intercalate segs, args⟩ = true :=
  tightText_directive segs hne h

/-- **Spans are token extents.** For EVERY abstract file with `fileOk f` and `fileTight f`, every layout and every seed:
    the lexer reads the rendered text as `toks = tokenLocs …` (previous theorem) and the spans the printer reports —
    the ones the correspondence compares with the compiler's — are exactly `(path, start of token i, end of token j)`
    for the `(path, i, j)` of `spanTokens`: first token after `op path`, last token before `cl path`. -/
theorem spans_are_token_extents (f : SFile) (hf : fileOk f = true) (ht : fileTight f = true) (layout seed : Nat) :
    lexSliceLoc (render layout seed (fileItems f)).1.toList = .ok (tokenLocs layout seed (fileItems f)) ∧
    (render layout seed (fileItems f)).2 =
      (spanTokens layout seed (fileItems f)).map (spanOfTokens (tokenLocs layout seed (fileItems f))) ∧
    ∀ e ∈ spanTokens layout seed (fileItems f), e.2.1 ≤ e.2.2 ∧ e.2.2 < (tokenLocs layout seed (fileItems f)).length := by
  have hok := itemsOk_fileItems f hf
  have h := spans_render layout seed (fileItems f) hok (itemsTight_fileItems f hf ht)
  exact ⟨lex_render_loc layout seed (fileItems f) hok, h.1, h.2⟩

/-- **Corollary.** Every span `⟨p, a, b⟩` that `render` reports for such a file starts at the (spelling) start of a token of
    the lexed stream and ends at the end of a token of the lexed stream, the first not after the second: never inside a
    token, in white space, in a comment, or at a neighbouring element. -/
theorem span_starts_and_ends_at_tokens (f : SFile) (hf : fileOk f = true) (ht : fileTight f = true) (layout seed : Nat)
    (sp : SpanRec) (hsp : sp ∈ (render layout seed (fileItems f)).2) :
    ∃ toks, lexSliceLoc (render layout seed (fileItems f)).1.toList = .ok toks ∧
      ∃ (i j : Nat) (ti tj : LTok), i ≤ j ∧ toks[i]? = some ti ∧ toks[j]? = some tj ∧ sp.start = ti.spellStart ∧ sp.stop = tj.stop := by
  obtain ⟨h1, h2, h3⟩ := spans_are_token_extents f hf ht layout seed
  refine ⟨_, h1, ?_⟩
  rw [h2] at hsp
  obtain ⟨e, he, rfl⟩ := List.mem_map.mp hsp
  obtain ⟨hle, hlt⟩ := h3 e he
  have hi : e.2.1 < (tokenLocs layout seed (fileItems f)).length := Nat.lt_of_le_of_lt hle hlt
  refine ⟨e.2.1, e.2.2, _, _, hle, List.getElem?_eq_getElem hi, List.getElem?_eq_getElem hlt, ?_, ?_⟩
  · simp [spanOfTokens, List.getD_eq_getElem?_getD, List.getElem?_eq_getElem hi]
  · simp [spanOfTokens, List.getD_eq_getElem?_getD, List.getElem?_eq_getElem hlt]

/-! non-vacuity of the lexical half: a text with a tab, an escaped identifier, a multi-byte line comment ended by CR LF,
    a doc comment, a two-character token, a string with its quotes -/
example : lexSliceLoc "\t\\struct // é✓\r\n/// d\r\nx::y \"é\"".toList =
    .ok [⟨.ident "struct".toList, ⟨1, 2⟩, ⟨1, 9⟩⟩, ⟨.doc [' ', 'd'], ⟨2, 4⟩, ⟨2, 7⟩⟩, ⟨.ident ['x'], ⟨3, 1⟩, ⟨3, 2⟩⟩,
         ⟨.dcolon, ⟨3, 2⟩, ⟨3, 4⟩⟩, ⟨.ident ['y'], ⟨3, 4⟩, ⟨3, 5⟩⟩, ⟨.strLit ['é'], ⟨3, 6⟩, ⟨3, 9⟩⟩] := by decide
/-- `spells` is not vacuous: the escaped identifier's extent `\\struct` (columns 2–8) is spelled with the backslash -/
example : spells (.ident "struct".toList) "\\struct".toList ∧ spells (.doc [' ', 'd']) "/// d\r".toList ∧
    spells (.strLit ['é']) "\"é\"".toList ∧ spells (.kw "StructKeyword") "struct".toList ∧ spells .dcolon "::".toList := by
  refine ⟨Or.inr (by decide), ⟨" d\r".toList, by decide, by decide⟩, ?_, ?_, ?_⟩
  · show "\"é\"".toList = _; decide
  · show Gen.sliceKeywords.lookup _ = _; decide
  · show "::".toList = _; decide
/-- an error carries its locations too: an unterminated string ends in front of the line break -/
example : lexSliceLoc "a \"bc\nd".toList = .error .unterminatedString ⟨1, 3⟩ ⟨1, 6⟩ := by decide
/-- a file with a doc comment, an attribute, a keyword used as a name (always escaped), an optional type satisfies the
    hypotheses of `spans_are_token_extents` -/
def exFileLoc : SFile := ⟨[⟨"cs::attr", ["a b"]⟩], none,
  [.struct [" doc é"] [⟨"deprecated", []⟩] true "struct"
     [⟨[], [], some ⟨false, 10, 7, false⟩, "x", .mk [] (.seq (.mk [] (.prim .string) true)) false⟩]]⟩
example : fileOk exFileLoc = true ∧ fileTight exFileLoc = true := by decide
/-- the items of `/// d é` / `compact struct \struct` with the element `d0` and its identifier `d0.id`: the struct's span
    runs from `compact` (after the doc line) to the end of the escaped name; its tokens are number 1 and 3 of the stream -/
def exItems : List Item :=
  [.docLine " d é", .nl 0, .op "d0", .tok "compact", .sp, .tok "struct", .sp, .op "d0.id", .ident "struct", .cl "d0.id", .cl "d0"]
example : itemsOk exItems = true ∧ itemsTight exItems = true := by decide
example : spanTokens 0 0 exItems = [("d0.id", 3, 3), ("d0", 1, 3)] := by decide
/-- the same without the doc line (`decide` cannot run `String.startsWith`, which `emitGap` calls after a doc line): the
    located tokens the printer notes, the token indices of the spans, the spans `render` reports -/
def exItems2 : List Item :=
  [.op "d0", .tok "compact", .sp, .tok "struct", .sp, .op "d0.id", .ident "struct", .cl "d0.id", .cl "d0"]
example : tokenLocs 0 0 exItems2 =
    [⟨.kw "CompactKeyword", ⟨1, 1⟩, ⟨1, 8⟩⟩, ⟨.kw "StructKeyword", ⟨1, 9⟩, ⟨1, 15⟩⟩, ⟨.ident "struct".toList, ⟨1, 16⟩, ⟨1, 23⟩⟩] := by
  decide
example : spanTokens 0 0 exItems2 = [("d0.id", 2, 2), ("d0", 0, 2)] := by decide
example : (render 0 0 exItems2).2.map (fun s => (s.path, s.start, s.stop)) =
    [("d0.id", ⟨1, 16⟩, ⟨1, 23⟩), ("d0", ⟨1, 1⟩, ⟨1, 23⟩)] := by decide
/-- a pseudo-random layout (layout 1, seed 45) of a struct with one field: a line comment containing a lone CR, block
    comments with multi-byte characters, tabs, an escaped identifier `\\S`, a CR LF gap, a written optional comma; the scoped
    name `A::B` is one item and three tokens.  The located tokens the printer notes, the token indices of the spans and the
    spans `render` reports (the field `f` runs from token 4 `x` to token 8 `B`). -/
def exItems3 : List Item :=
  [.op "d0", .tok "compact", .sp, .tok "struct", .sp, .op "d0.id", .ident "S", .cl "d0.id", .cl "d0", .sp, .tok "{", .nl 1,
   .op "f", .ident "x", .glue, .tok ":", .sp, .tok "A::B", .cl "f", .glue, .optComma, .nl 0, .tok "}"]
example : itemsOk exItems3 = true ∧ itemsTight exItems3 = true := by decide
set_option maxRecDepth 8000 in
example : (render 1 45 exItems3).1 =
    "compact // old:\r x: bool\nstruct/* * / */\\S/*é✓ü*/{\t\t x/* \r */:\t\t A::B\r\n,//\r\n}" := by decide
set_option maxRecDepth 8000 in
example : tokenLocs 1 45 exItems3 =
    [⟨.kw "CompactKeyword", ⟨1, 1⟩, ⟨1, 8⟩⟩, ⟨.kw "StructKeyword", ⟨2, 1⟩, ⟨2, 7⟩⟩, ⟨.ident ['S'], ⟨2, 16⟩, ⟨2, 18⟩⟩,
     ⟨.lbrace, ⟨2, 25⟩, ⟨2, 26⟩⟩, ⟨.ident ['x'], ⟨2, 29⟩, ⟨2, 30⟩⟩, ⟨.colon, ⟨2, 37⟩, ⟨2, 38⟩⟩, ⟨.ident ['A'], ⟨2, 41⟩, ⟨2, 42⟩⟩,
     ⟨.dcolon, ⟨2, 42⟩, ⟨2, 44⟩⟩, ⟨.ident ['B'], ⟨2, 44⟩, ⟨2, 45⟩⟩, ⟨.comma, ⟨3, 1⟩, ⟨3, 2⟩⟩, ⟨.rbrace, ⟨4, 1⟩, ⟨4, 2⟩⟩] := by decide
/-- the theorem's instance for this layout -/
example : lexSliceLoc (render 1 45 exItems3).1.toList = .ok (tokenLocs 1 45 exItems3) :=
  layout_locations_items 1 45 exItems3 (by decide)
set_option maxRecDepth 8000 in
example : spanTokens 1 45 exItems3 = [("d0.id", 2, 2), ("d0", 0, 2), ("f", 4, 8)] := by decide
set_option maxRecDepth 8000 in
example : (render 1 45 exItems3).2.map (fun s => (s.path, s.start, s.stop)) =
    [("d0.id", ⟨2, 16⟩, ⟨2, 18⟩), ("d0", ⟨1, 1⟩, ⟨2, 18⟩), ("f", ⟨2, 29⟩, ⟨2, 45⟩)] := by decide
/-- `fileOk` alone does not make spans start at tokens: a directive may carry a blank (`fileTight` excludes it) -/
example : attrOk ⟨" a", []⟩ = true ∧ attrTight ⟨" a", []⟩ = false := by decide

/-! ## Third part: the COMMENT lexer with locations (slicec/src/parsers/comments/lexer.rs)

  Model/CommentLoc.lean: `switch_to_next_line` (cursor := the start of the span the line came with, i.e. the position
  right after `///`), `advance_buffer` (one column per consumed character, whatever it is), the `(start, kind, end)` of
  every arm of `lex_message` / `lex_tag_component` / `read_tag_keyword` / `Iterator::next`. Tied to the real lexer by
  stream `C09clex`. The theorems quantify over EVERY list of lines: any texts, any rows (consecutive or not), any start
  columns; the only place where rows matter is the order of tokens of different lines (`comment_stream_ordered`). -/

open Slicec.CLoc

/-- **Erasure.** Forgetting the locations of the located comment lexer gives exactly the comment-lexer model of C16
    (`Model/Comment.lean lexComment`: same tokens, same error), for every list of lines and whatever their spans:
    the two models cannot drift apart. -/
theorem comment_lexer_locations_erase (ls : List CLine) :
    (lexCommentLoc ls).erase = lexComment (ls.map (·.text)) :=
  lexCommentLoc_erase ls

/-- **Cursor accounting, scanning loops.** `skip_whitespace`, `read_identifier` and the text loop move the cursor by one
    column per consumed character — tabs, CR, multi-byte and astral characters alike — and never touch the row. -/
theorem comment_cursor_counts_characters (p : Char → Bool) (cur : Loc) (cs : Str) :
    cadvWhile p cur cs = ⟨cur.row, cur.col + (cs.takeWhile p).length⟩ :=
  cadvWhile_eq p cur cs

/-- **Cursor accounting, one call in `Message` mode.** On a non-empty buffer `lex_message` consumes a non-empty prefix
    `mid` of the buffer; the token it returns starts at the cursor on entry, ends `mid.length` columns further, which is
    also the cursor after the call, and `mid` is what the token spells (the `Text`'s payload, or `{` + the blanks in front
    of the `@` of an inline tag). -/
theorem comment_message_call_located (cur : Loc) (c : Char) (cs : Str) :
    ∃ mid, c :: cs = mid ++ (lexMessageLoc cur (c :: cs)).2.2.1 ∧ mid ≠ [] ∧
      (lexMessageLoc cur (c :: cs)).1.start = cur ∧
      (lexMessageLoc cur (c :: cs)).1.stop = ⟨cur.row, cur.col + mid.length⟩ ∧
      (lexMessageLoc cur (c :: cs)).2.2.2 = (lexMessageLoc cur (c :: cs)).1.stop ∧
      cspells (lexMessageLoc cur (c :: cs)).1.tok mid (lexMessageLoc cur (c :: cs)).2.2.1 := by
  obtain ⟨mid, h1, h2, h3, h4, h5, _, h7⟩ := lexMessageLoc_spec cur c cs
  exact ⟨mid, h1, h7, h2, h3, by rw [h4, h3], h5⟩

/-- **Cursor accounting, one call in `BlockTag` / `InlineTag` mode** (`lex_tag_component`), for every buffer:
    * nothing but whitespace left: the cursor ends behind all of it;
    * a token: the buffer is `ws ++ mid ++ rest` with `ws` the skipped whitespace; the token starts `ws.length` columns
      behind the cursor on entry, ends `mid.length` columns further — the cursor after the call —, and `mid` (non-empty)
      is its spelling: `@` + keyword, the identifier, `::`, `:`, `}`;
    * an error: likewise located over `@` + the unknown / missing / misplaced tag, or over the one unknown symbol. -/
theorem comment_tag_call_located (mode : LMode) (cur : Loc) (cs : Str) :
    match lexTagComponentLoc mode cur cs with
    | .eol cur' => cs.all isWsC = true ∧ cur' = ⟨cur.row, cur.col + cs.length⟩
    | .tok t _ rest cur' => ∃ ws mid, cs = ws ++ (mid ++ rest) ∧ ws.all isWsC = true ∧ mid ≠ [] ∧
        t.start = ⟨cur.row, cur.col + ws.length⟩ ∧ t.stop = ⟨cur.row, cur.col + (ws.length + mid.length)⟩ ∧
        cur' = t.stop ∧ cspells t.tok mid rest
    | .err e => ∃ ws mid post, cs = ws ++ (mid ++ post) ∧ ws.all isWsC = true ∧
        e.start = ⟨cur.row, cur.col + ws.length⟩ ∧ e.stop = ⟨cur.row, cur.col + (ws.length + mid.length)⟩ ∧
        cerrSpells e.err mid post := by
  have h := lexTagComponentLoc_spec mode cur cs
  cases hL : lexTagComponentLoc mode cur cs with
  | eol cur' => rw [hL] at h; exact h
  | tok t m rest cur' =>
    rw [hL] at h
    obtain ⟨ws, mid, h1, h2, h3, h4, h5, h6, _, h8⟩ := h
    exact ⟨ws, mid, h1, h2, h8, h3, h4, h5, h6⟩
  | err e => rw [hL] at h; exact h

/-- **The tokens of a line tile the line.** For every line (any text, any span): the tokens, and the error that ends them
    if there is one, lie one behind the other on the line; between the end of one and the start of the next there is
    nothing but whitespace; each covers exactly the characters it spells, one column per character, counted from the
    start of the line's span (`Tiled`: recursively, the next element is sought in what the previous one left). -/
theorem comment_line_tiled (l : CLine) :
    Tiled l.start l.text (lexOneLineLoc l).toks (lexOneLineLoc l).err :=
  lexOneLineLoc_tiled l

/-- **In order, without overlap** (one line): every token is on the row of its line, starts at or behind the line's start
    column, ends at or behind its own start, and every later token of the line starts at or behind its end. -/
theorem comment_line_tokens_ordered (l : CLine) :
    (∀ t ∈ (lexOneLineLoc l).toks, t.start.row = l.start.row ∧ t.stop.row = l.start.row ∧
        l.start.col ≤ t.start.col ∧ t.start.col ≤ t.stop.col) ∧
    (lexOneLineLoc l).toks.Pairwise (fun a b => a.stop.row = b.start.row ∧ a.stop.col ≤ b.start.col) :=
  ⟨(lexOneLineLoc_tiled l).ordered.all, (lexOneLineLoc_tiled l).ordered.pairwise⟩

/-- **Every token lies within the line it was lexed from, over its spelling.** For every list of lines and every token
    `t` of the stream there is a line `l` of the comment with `l.text = pre ++ mid ++ post` such that `t` starts at
    character offset `pre.length` of `l` and ends at offset `pre.length + mid.length` (on `l`'s row, columns counted in
    characters from the start of `l`'s span), and `mid` is what `t` spells: an identifier or a text its payload, a keyword
    `@` + the row of the table extracted from `read_tag_keyword`, `{` (with the blanks in front of `@link`), `}`, `:`,
    `::`, and a `Newline` the empty text with nothing behind it. -/
theorem comment_token_in_its_line (ls : List CLine) (t : LCTok) (ht : t ∈ (lexCommentLoc ls).toks) :
    ∃ l ∈ ls, ∃ pre mid post, l.text = pre ++ (mid ++ post) ∧
      t.start = l.at pre.length ∧ t.stop = l.at (pre.length + mid.length) ∧ cspells t.tok mid post := by
  obtain ⟨l, hl, ht'⟩ := lexCommentLoc_tok_line ls t ht
  obtain ⟨pre, mid, post, h1, h2, h3, h4⟩ := (lexOneLineLoc_tiled l).mem ht'
  exact ⟨l, hl, pre, mid, post, h1, h2, h3, h4⟩

/-- **The same in numbers**: row = the line's row, line start column ≤ start column ≤ end column ≤ line start column +
    number of characters of the line; 1-based whenever the line's span is. -/
theorem comment_token_within_line (ls : List CLine) (t : LCTok) (ht : t ∈ (lexCommentLoc ls).toks) :
    ∃ l ∈ ls, t.start.row = l.start.row ∧ t.stop.row = l.start.row ∧
      l.start.col ≤ t.start.col ∧ t.start.col ≤ t.stop.col ∧ t.stop.col ≤ l.start.col + l.text.length ∧
      (1 ≤ l.start.row ∧ 1 ≤ l.start.col → 1 ≤ t.start.row ∧ 1 ≤ t.start.col) := by
  obtain ⟨l, hl, pre, mid, post, h1, h2, h3, _⟩ := comment_token_in_its_line ls t ht
  have hlen : l.text.length = pre.length + (mid.length + post.length) := by rw [h1]; simp
  refine ⟨l, hl, by rw [h2]; rfl, by rw [h3]; rfl, by rw [h2]; simp [CLine.at], by rw [h2, h3]; simp [CLine.at],
    by rw [h3]; simp only [CLine.at]; omega, ?_⟩
  intro hp
  rw [h2]
  simp only [CLine.at]
  omega

/-- **A lexer error is located in the line that has it, over the offending characters**: the unknown symbol (one
    character, however many bytes), `@` + the unknown / misplaced tag, the lone `@`, or — `UnterminatedInlineTag` — the
    empty text at the end of the line. -/
theorem comment_error_in_its_line (ls : List CLine) (e : LCErr) (he : (lexCommentLoc ls).err = some e) :
    ∃ l ∈ ls, ∃ pre mid post, l.text = pre ++ (mid ++ post) ∧
      e.start = l.at pre.length ∧ e.stop = l.at (pre.length + mid.length) ∧ cerrSpells e.err mid post := by
  obtain ⟨l, hl, he'⟩ := lexCommentLoc_err_line ls e he
  have h := lexOneLineLoc_tiled l
  rw [he'] at h
  obtain ⟨pre, mid, post, h1, h2, h3, h4⟩ := h.err_mem
  exact ⟨l, hl, pre, mid, post, h1, h2, h3, h4⟩

/-- **The `Newline` of a line is the zero-width position at that line's end.** A line that lexes without error yields
    tokens none of which is a `Newline`, followed by exactly one `Newline` whose start and end are the location behind
    the last character of THAT line (`l.endLoc`: the line's row, start column + number of characters) — not the start of
    the following line. A line with a lexer error yields no `Newline`. -/
theorem comment_newline_at_line_end (l : CLine) :
    match (lexOneLineLoc l).err with
    | none => ∃ init, (lexOneLineLoc l).toks = init ++ [⟨l.endLoc, .newline, l.endLoc⟩] ∧ ∀ t ∈ init, t.tok ≠ .newline
    | some _ => ∀ t ∈ (lexOneLineLoc l).toks, t.tok ≠ .newline :=
  lexOneLineLoc_shape l

/-- **All `Newline`s of a comment**: they are, in order, the ends of the comment's lines — of all of them when the comment
    lexes without error, otherwise of the lines in front of the one with the error (`cleanLines`). -/
theorem comment_newlines_are_line_ends (ls : List CLine) :
    (lexCommentLoc ls).toks.filter isNl = (ls.take (cleanLines ls)).map (fun l => ⟨l.endLoc, .newline, l.endLoc⟩) ∧
    ((lexCommentLoc ls).err = none ↔ cleanLines ls = ls.length) ∧
    ((lexCommentLoc ls).err = none →
      (lexCommentLoc ls).toks.filter isNl = ls.map (fun l => ⟨l.endLoc, .newline, l.endLoc⟩)) := by
  refine ⟨lexCommentLoc_newlines ls, lexCommentLoc_err_none_iff ls, ?_⟩
  intro h
  rw [lexCommentLoc_newlines, (lexCommentLoc_err_none_iff ls).mp h, List.take_length]
  rfl

/-- **The whole stream is in order.** When the lines sit on increasing rows (consecutive or not; any columns), every token
    ends at or before the start of every later token, and the error, if there is one, lies behind all tokens. -/
theorem comment_stream_ordered (ls : List CLine) (hrows : ls.Pairwise (fun a b => a.start.row < b.start.row)) :
    (lexCommentLoc ls).toks.Pairwise (fun a b => a.stop.le b.start) ∧
    ∀ e, (lexCommentLoc ls).err = some e → ∀ t ∈ (lexCommentLoc ls).toks, t.stop.le e.start :=
  lexCommentLoc_ordered ls hrows

/-! non-vacuity: a three-line comment on non-consecutive rows with different start columns — an overview with a
    multi-byte and an astral character and an inline link written with blanks, a `@param` line indented with a tab and
    U+3000, a `@see` line with a scoped identifier and trailing blanks. Every `Newline` sits at the end of ITS line. -/
def exComment : List CLine :=
  [⟨" é😀 {  @link A::B} x".toList, ⟨3, 8⟩, ⟨3, 28⟩⟩,
   ⟨"\t　@param p :\tm✓".toList, ⟨4, 8⟩, ⟨4, 23⟩⟩,
   ⟨"@see ::X  ".toList, ⟨7, 4⟩, ⟨7, 14⟩⟩]
example : lexCommentLoc exComment =
    ⟨[⟨⟨3, 8⟩, .text " é😀 ".toList, ⟨3, 12⟩⟩, ⟨⟨3, 12⟩, .lbrace, ⟨3, 15⟩⟩, ⟨⟨3, 15⟩, .kw .LinkKeyword, ⟨3, 20⟩⟩,
      ⟨⟨3, 21⟩, .ident ['A'], ⟨3, 22⟩⟩, ⟨⟨3, 22⟩, .dcolon, ⟨3, 24⟩⟩, ⟨⟨3, 24⟩, .ident ['B'], ⟨3, 25⟩⟩, ⟨⟨3, 25⟩, .rbrace, ⟨3, 26⟩⟩,
      ⟨⟨3, 26⟩, .text " x".toList, ⟨3, 28⟩⟩, ⟨⟨3, 28⟩, .newline, ⟨3, 28⟩⟩,
      ⟨⟨4, 10⟩, .kw .ParamKeyword, ⟨4, 16⟩⟩, ⟨⟨4, 17⟩, .ident ['p'], ⟨4, 18⟩⟩, ⟨⟨4, 19⟩, .colon, ⟨4, 20⟩⟩,
      ⟨⟨4, 20⟩, .text "\tm✓".toList, ⟨4, 23⟩⟩, ⟨⟨4, 23⟩, .newline, ⟨4, 23⟩⟩,
      ⟨⟨7, 4⟩, .kw .SeeKeyword, ⟨7, 8⟩⟩, ⟨⟨7, 9⟩, .dcolon, ⟨7, 11⟩⟩, ⟨⟨7, 11⟩, .ident ['X'], ⟨7, 12⟩⟩,
      ⟨⟨7, 14⟩, .newline, ⟨7, 14⟩⟩], none⟩ := by decide
example : exComment.map (·.endLoc) = [⟨3, 28⟩, ⟨4, 23⟩, ⟨7, 14⟩] := by decide
example : exComment.Pairwise (fun a b => a.start.row < b.start.row) := by decide
/-- located errors: an unknown astral symbol is one column wide; an unknown tag runs from its `@` to the end of the tag; an
    inline tag left open is reported at the end of its line (behind the trailing blanks), zero-width; the lines in front
    of the error have their `Newline`s, the line with the error has none -/
example : lexCommentLoc [⟨" ok".toList, ⟨1, 4⟩, ⟨1, 7⟩⟩, ⟨"@param x 😀 y".toList, ⟨2, 4⟩, ⟨2, 16⟩⟩] =
    ⟨[⟨⟨1, 4⟩, .text " ok".toList, ⟨1, 7⟩⟩, ⟨⟨1, 7⟩, .newline, ⟨1, 7⟩⟩, ⟨⟨2, 4⟩, .kw .ParamKeyword, ⟨2, 10⟩⟩, ⟨⟨2, 11⟩, .ident ['x'], ⟨2, 12⟩⟩],
     some ⟨⟨2, 13⟩, .unknownSymbol '😀', ⟨2, 14⟩⟩⟩ := by decide
example : (lexCommentLoc [⟨"  @foo_1 x".toList, ⟨9, 30⟩, ⟨9, 40⟩⟩]).err = some ⟨⟨9, 32⟩, .unknownTag "foo_1".toList, ⟨9, 38⟩⟩ := by decide
example : (lexCommentLoc [⟨"a {@link X  ".toList, ⟨2, 6⟩, ⟨2, 18⟩⟩]).err = some ⟨⟨2, 18⟩, .unterminatedInlineTag, ⟨2, 18⟩⟩ := by decide
example : cleanLines [⟨" ok".toList, ⟨1, 4⟩, ⟨1, 7⟩⟩, ⟨"@param x 😀 y".toList, ⟨2, 4⟩, ⟨2, 16⟩⟩, ⟨"z".toList, ⟨3, 4⟩, ⟨3, 5⟩⟩] = 1 := by decide
/-- `cspells` / `cerrSpells` are not vacuous -/
example : cspells (.kw .ParamKeyword) "@param".toList " p".toList ∧ cspells .lbrace "{  ".toList "@link A}".toList ∧
    cspells .newline [] [] ∧ ¬ cspells .newline [] ['x'] ∧ cerrSpells (.unknownTag "foo".toList) "@foo".toList [] := by
  refine ⟨⟨"param".toList, false, by decide, by decide⟩, ⟨"  ".toList, by decide, by decide, by decide⟩, ⟨rfl, rfl⟩, ?_, by show "@foo".toList = _; decide⟩
  intro h; exact absurd h.2 (by decide)

/-! ## Fourth part: the spans of the parts of a doc comment and of the comment lints

  Model/CommentDocLoc.lean: the comment parser on the located token stream (`@L` / `@R` of every production of
  comments/grammar.lalrpop, `create_doc_comment`, `append_tag_to_comment!`, the three outcomes of `construct_lint_from`) and
  the spans the validators / the link patcher report (`elemLintsLoc`). Tied to the real parser and to whole compilations
  by streams `C09doc` / `C09docp`; what is PROVED here, for every list of lines: all these spans are made of token
  boundaries of the comment's own token stream, hence (third part) lie within the comment's lines. -/

/-- `l` lies within a line of the comment: on the line's row, between the start of its span and the position behind its
    last character (columns counted in characters) -/
def InLines (lines : List CLine) (l : Loc) : Prop :=
  ∃ L ∈ lines, l.row = L.start.row ∧ L.start.col ≤ l.col ∧ l.col ≤ L.start.col + L.text.length

/-- a token boundary of the comment's stream lies within a line of the comment -/
theorem token_boundary_in_lines (lines : List CLine) (l : Loc) (h : Bnd (lexCommentLoc lines).toks l) : InLines lines l := by
  obtain ⟨t, ht, hl⟩ := h
  obtain ⟨L, hL, a, b, c, d, e, _⟩ := comment_token_within_line lines t ht
  refine ⟨L, hL, ?_⟩
  cases hl with
  | inl h => rw [h]; exact ⟨a, c, by omega⟩
  | inr h => rw [h]; exact ⟨b, by omega, e⟩

/-- **The parts of a parsed comment are made of token boundaries.** For every comment the parser model accepts: the token
    stream is not empty, the comment's span starts three columns left of the START OF ITS FIRST TOKEN (whatever that token
    is: the text of the first line from the column behind `///` on, or — first line a tag — the `@` behind the blanks), and
    the comment's end and both ends of the span of every part (overview, every tag, tag identifier, message, inline link,
    link identifier, see tag) are the start or the end of a token of the comment's located token stream. -/
theorem doc_parts_are_token_boundaries (lines : List CLine) (d : LDoc) (h : parseCommentLoc lines = .ok d) :
    ∃ t0 ts, (lexCommentLoc lines).toks = t0 :: ts ∧ 3 ≤ t0.start.col ∧
      d.span.start = ⟨t0.start.row, t0.start.col - 3⟩ ∧ DocPartsOk (lexCommentLoc lines).toks d :=
  parseCommentLocG_ok _ lines d h

/-- **The parts of a doc comment lie within that comment's lines.** For every list of lines (any texts, rows, columns) and
    every comment `d` the parser model builds from them: both ends of the span of every part, and the comment's own end,
    lie within a line of the comment; the comment's own start lies three columns left of such a position (it is the
    position of the `///` exactly when the first token starts right behind the `///`). -/
theorem doc_parts_within_lines (lines : List CLine) (d : LDoc) (h : parseCommentLoc lines = .ok d) :
    (∀ s ∈ d.partSpans, InLines lines s.start ∧ InLines lines s.stop) ∧ InLines lines d.span.stop ∧
    InLines lines ⟨d.span.start.row, d.span.start.col + 3⟩ := by
  obtain ⟨t0, ts, h1, h2, h3, h4⟩ := doc_parts_are_token_boundaries lines d h
  obtain ⟨k0, k1, k2, k3, k4⟩ := h4
  have hall : ∀ s ∈ d.partSpans, SpOk (lexCommentLoc lines).toks s := by
    intro s hs
    simp only [LDoc.partSpans, List.mem_append, List.mem_flatMap] at hs
    rcases hs with ((hs | hs) | hs) | hs
    · cases ho : d.overview with
      | none => rw [ho] at hs; cases hs
      | some m => rw [ho] at hs; exact msgOk_spans (k1 m ho) s hs
    · obtain ⟨t, ht, hs⟩ := hs; exact tagOk_spans (k2 t ht) s hs
    · obtain ⟨t, ht, hs⟩ := hs; exact tagOk_spans (k3 t ht) s hs
    · obtain ⟨l, hl, hs⟩ := hs
      simp only [List.mem_cons, List.not_mem_nil, or_false] at hs
      cases hs with
      | inl h2 => rw [h2]; exact (k4 l hl).1
      | inr h2 => rw [h2]; exact (k4 l hl).2
  refine ⟨fun s hs => ⟨token_boundary_in_lines lines _ (hall s hs).1, token_boundary_in_lines lines _ (hall s hs).2⟩,
    token_boundary_in_lines lines _ k0, ?_⟩
  have : (⟨d.span.start.row, d.span.start.col + 3⟩ : Loc) = t0.start := by
    have hc : t0.start.col - 3 + 3 = t0.start.col := by omega
    rw [h3]; simp only [hc]
  rw [this]
  exact token_boundary_in_lines lines _ ⟨t0, by rw [h1]; simp, Or.inl rfl⟩

/-- **A rejected comment is reported inside the comment.** When the parser model rejects a comment at a span `s` (the span
    the `MalformedDocComment` lint carries), `s` is the extent of a token of the comment's stream — the first token no
    production can take — or the extent of the lexer's error; in both cases it lies on one row, start ≤ end, within a line
    of the comment. -/
theorem malformed_lint_points_into_comment (lines : List CLine) (s : Sp) (h : parseCommentLoc lines = .fail (.at s)) :
    ((∃ t ∈ (lexCommentLoc lines).toks, s = ⟨t.start, t.stop⟩) ∨ (∃ e, (lexCommentLoc lines).err = some e ∧ s = ⟨e.start, e.stop⟩)) ∧
    InLines lines s.start ∧ InLines lines s.stop ∧ s.start.row = s.stop.row ∧ s.start.col ≤ s.stop.col := by
  have hf := parseCommentLocG_fail _ lines _ h
  refine ⟨hf, ?_⟩
  cases hf with
  | inl x =>
    obtain ⟨t, ht, hs⟩ := x
    obtain ⟨L, hL, a, b, c, d, e, _⟩ := comment_token_within_line lines t ht
    subst hs
    exact ⟨⟨L, hL, a, c, by simp only; omega⟩, ⟨L, hL, b, by simp only; omega, e⟩, by simp only; omega, d⟩
  | inr x =>
    obtain ⟨e, he, hs⟩ := x
    obtain ⟨L, hL, pre, mid, post, h1, h2, h3, _⟩ := comment_error_in_its_line lines e he
    have hlen : L.text.length = pre.length + (mid.length + post.length) := by rw [h1]; simp
    subst hs
    refine ⟨⟨L, hL, ?_, ?_, ?_⟩, ⟨L, hL, ?_, ?_, ?_⟩, ?_, ?_⟩ <;> simp only [h2, h3, CLine.at] <;> omega

/-- **The parser never runs out of tokens.** For every list of lines the parser model either accepts, or rejects AT A SPAN
    (`UnrecognizedEof`, the one outcome of `construct_lint_from` that has only a position, cannot occur): without lexer error
    the stream ends in the `Newline` of its last line, behind which every production can be completed, and what the
    sub-parsers for identifiers and message components consume contains no `Newline`. -/
theorem parser_never_at_eof (lines : List CLine) : parseCommentLoc lines ≠ .fail .eof :=
  parseCommentLocG_not_eof _ lines

/-- **Every comment lint points into the comment.** For every element, name table and list of lines: each lint the model
    reports for the element's comment — `MalformedDocComment`, `BrokenDocLink` (the identifier of the link that does not
    resolve), `IncorrectDocComment` (the tag, or tag + message) — has a span both ends of which lie within a line of THAT
    comment. -/
theorem doc_lint_spans_within_lines (t : Table) (e : DocElem) (lines : List CLine)
    (l : LLint) (hl : l ∈ elemLintsLoc t e (parseCommentLoc lines)) :
    InLines lines l.span.start ∧ InLines lines l.span.stop := by
  unfold elemLintsLoc at hl
  cases hr : parseCommentLoc lines with
  | panic s => rw [hr] at hl; cases hl
  | fail f =>
    rw [hr] at hl
    cases f with
    | eof => exact absurd hr (parser_never_at_eof lines)
    | «at» s =>
      simp only [List.mem_cons, List.not_mem_nil, or_false] at hl
      obtain ⟨_, a, b, _, _⟩ := malformed_lint_points_into_comment lines s hr
      rw [hl]; exact ⟨a, b⟩
  | ok c =>
    rw [hr] at hl
    obtain ⟨hparts, _, _⟩ := doc_parts_within_lines lines c hr
    simp only [List.mem_append, List.mem_map, List.mem_filter] at hl
    cases hl with
    | inl h1 =>
      obtain ⟨lk, ⟨hlk, _⟩, hs⟩ := h1
      rw [← hs]
      -- a link of the comment: its identifier span is a part span
      have : lk.idSpan ∈ c.partSpans := by
        simp only [LDoc.allLinks, List.mem_append, List.mem_flatMap] at hlk
        simp only [LDoc.partSpans, List.mem_append, List.mem_flatMap]
        rcases hlk with ((hk | hk) | hk) | hk
        · left; left; left
          cases ho : c.overview with
          | none => rw [ho] at hk; cases hk
          | some m => rw [ho] at hk; exact link_id_mem_msg_spans hk
        · left; left; right
          obtain ⟨tg, ht, hk⟩ := hk
          exact ⟨tg, ht, msg_spans_sub_tag (link_id_mem_msg_spans hk)⟩
        · left; right
          obtain ⟨tg, ht, hk⟩ := hk
          exact ⟨tg, ht, msg_spans_sub_tag (link_id_mem_msg_spans hk)⟩
        · right
          exact ⟨lk, hk, by simp⟩
      exact hparts _ this
    | inr h1 =>
      obtain ⟨s, hs, hl⟩ := h1
      rw [← hl]
      -- an ill-fitting tag: its span, or its span + its message's span
      have htag : ∀ tg, (tg ∈ c.params ∨ tg ∈ c.returns) → (InLines lines tg.span.start ∧ InLines lines tg.span.stop) ∧
          (InLines lines tg.withMessage.start ∧ InLines lines tg.withMessage.stop) := by
        intro tg htg
        have h1 : tg.span ∈ c.partSpans := by
          simp only [LDoc.partSpans, List.mem_append, List.mem_flatMap]
          cases htg with
          | inl h => exact Or.inl (Or.inl (Or.inr ⟨tg, h, tag_span_mem tg⟩))
          | inr h => exact Or.inl (Or.inr ⟨tg, h, tag_span_mem tg⟩)
        have h2 : tg.message.span ∈ c.partSpans := by
          simp only [LDoc.partSpans, List.mem_append, List.mem_flatMap]
          cases htg with
          | inl h => exact Or.inl (Or.inl (Or.inr ⟨tg, h, tag_msg_span_mem tg⟩))
          | inr h => exact Or.inl (Or.inr ⟨tg, h, tag_msg_span_mem tg⟩)
        refine ⟨hparts _ h1, ?_⟩
        obtain ⟨e1, e2⟩ := Sp.add_ends tg.span tg.message.span
        unfold LTag.withMessage
        constructor
        · cases e1 with
          | inl h => rw [h]; exact (hparts _ h1).1
          | inr h => rw [h]; exact (hparts _ h2).1
        · cases e2 with
          | inl h => rw [h]; exact (hparts _ h1).2
          | inr h => rw [h]; exact (hparts _ h2).2
      unfold illFittingSpans at hs
      split at hs
      · simp only [List.mem_append, List.mem_map] at hs
        rcases hs with ⟨tg, ht, rfl⟩ | ⟨tg, ht, rfl⟩
        · exact (htag tg (Or.inl ht)).2
        · exact (htag tg (Or.inr ht)).2
      · simp only [List.mem_map] at hs
        obtain ⟨tg, ht, rfl⟩ := hs
        exact (htag tg (Or.inr ht)).2
      · simp only [List.mem_append, List.mem_map, List.mem_filter] at hs
        rcases hs with ⟨tg, ⟨ht, _⟩, rfl⟩ | hs
        · exact (htag tg (Or.inl ht)).1
        · split at hs
          · simp only [List.mem_map] at hs
            obtain ⟨tg, ht, rfl⟩ := hs
            exact (htag tg (Or.inr ht)).2
          · simp only [List.mem_map, List.mem_filter] at hs
            obtain ⟨tg, ⟨ht, _⟩, rfl⟩ := hs
            exact (htag tg (Or.inr ht)).1
          · simp only [List.mem_map, List.mem_filter] at hs
            obtain ⟨tg, ⟨ht, _⟩, rfl⟩ := hs
            exact (htag tg (Or.inr ht)).1

/-! non-vacuity: a six-line comment behind other tokens (text from column 8, the last line from column 4, a row skipped) with
    an overview over two lines containing a multi-byte and an astral character and an inline link, a `@param` with blanks
    in front of its colon and a continuation line, a `@returns` without identifier and with blanks in front of its colon
    (its span 7:9–7:19 includes them), a `@see` with a global scoped identifier. The comment's span and the spans of all
    its parts, in the order of `partSpans`. -/
def exDoc : List CLine :=
  [⟨" Overview é😀 {@link A::B}.".toList, ⟨3, 8⟩, ⟨3, 32⟩⟩,
   ⟨"   more".toList, ⟨4, 8⟩, ⟨4, 15⟩⟩,
   ⟨" @param p : the p".toList, ⟨5, 8⟩, ⟨5, 25⟩⟩,
   ⟨"    continued".toList, ⟨6, 8⟩, ⟨6, 21⟩⟩,
   ⟨" @returns  : r".toList, ⟨7, 8⟩, ⟨7, 22⟩⟩,
   ⟨" @see ::X::Y".toList, ⟨9, 4⟩, ⟨9, 16⟩⟩]
def spansOf (r : LRes LDoc) : Option (Sp × List Sp) := match r with | .ok d => some (d.span, d.partSpans) | _ => none
set_option maxRecDepth 20000 in
example : spansOf (parseCommentLoc exDoc) = some (⟨⟨3, 5⟩, ⟨9, 16⟩⟩,
  [⟨⟨3, 8⟩, ⟨4, 15⟩⟩, ⟨⟨3, 22⟩, ⟨3, 32⟩⟩, ⟨⟨3, 28⟩, ⟨3, 32⟩⟩, ⟨⟨5, 9⟩, ⟨5, 17⟩⟩, ⟨⟨5, 16⟩, ⟨5, 17⟩⟩, ⟨⟨5, 18⟩, ⟨6, 21⟩⟩,
   ⟨⟨7, 9⟩, ⟨7, 19⟩⟩, ⟨⟨7, 19⟩, ⟨7, 22⟩⟩, ⟨⟨9, 5⟩, ⟨9, 16⟩⟩, ⟨⟨9, 10⟩, ⟨9, 16⟩⟩]) := by decide
/-! the first line is a tag behind three blanks (`///   @param a: x`, `///` at 2:1): the comment's span starts at column 4 —
    three columns left of the `@` (column 7), not at the `///` (column 1); the message of the tag ends at the end of the
    LAST line of the comment (3:6), the comment itself at the end of the tag's identifier (2:15) -/
set_option maxRecDepth 20000 in
example : spansOf (parseCommentLoc [⟨"   @param a: x".toList, ⟨2, 4⟩, ⟨2, 18⟩⟩, ⟨" y".toList, ⟨3, 4⟩, ⟨3, 6⟩⟩]) =
    some (⟨⟨2, 4⟩, ⟨2, 15⟩⟩, [⟨⟨2, 7⟩, ⟨2, 15⟩⟩, ⟨⟨2, 14⟩, ⟨2, 15⟩⟩, ⟨⟨2, 15⟩, ⟨3, 6⟩⟩]) := by decide
/-! rejected comments: `@param` without a name is reported at the zero-width `Newline` at the end of ITS line (3:10), not on
    the following line; text behind a `@see` line at that text; an inline tag left open at the end of its line -/
set_option maxRecDepth 20000 in
example : parseCommentLoc [⟨" ov".toList, ⟨2, 4⟩, ⟨2, 7⟩⟩, ⟨"@param".toList, ⟨3, 4⟩, ⟨3, 10⟩⟩, ⟨"@returns: x".toList, ⟨4, 4⟩, ⟨4, 15⟩⟩] =
    .fail (.at ⟨⟨3, 10⟩, ⟨3, 10⟩⟩) := by decide
set_option maxRecDepth 20000 in
example : parseCommentLoc [⟨" ov".toList, ⟨2, 4⟩, ⟨2, 7⟩⟩, ⟨"@see X".toList, ⟨3, 4⟩, ⟨3, 10⟩⟩, ⟨" text".toList, ⟨4, 4⟩, ⟨4, 9⟩⟩] =
    .fail (.at ⟨⟨4, 4⟩, ⟨4, 9⟩⟩) := by decide
set_option maxRecDepth 20000 in
example : parseCommentLoc [⟨" a {@link X".toList, ⟨2, 4⟩, ⟨2, 15⟩⟩] = .fail (.at ⟨⟨2, 15⟩, ⟨2, 15⟩⟩) := by decide
/-! lints on a struct: the identifiers of the links (where `BrokenDocLink` is reported when a link does not resolve) and
    the `IncorrectDocComment` of the `@returns` tag, tag + message = 4:5–4:29 — ending on the tag's own line although
    another line follows -/
set_option maxRecDepth 20000 in
example : (match parseCommentLoc [⟨" {@link Nope}".toList, ⟨3, 4⟩, ⟨3, 17⟩⟩, ⟨" @returns: nothing at all".toList, ⟨4, 4⟩, ⟨4, 29⟩⟩,
                                  ⟨" @see Other".toList, ⟨5, 4⟩, ⟨5, 15⟩⟩] with
           | .ok c => some (c.allLinks.map (·.idSpan), illFittingSpans .other c)
           | _ => none) =
    some ([⟨⟨3, 12⟩, ⟨3, 16⟩⟩, ⟨⟨5, 10⟩, ⟨5, 15⟩⟩], [⟨⟨4, 5⟩, ⟨4, 29⟩⟩]) := by decide

end Slicec.C09

#print axioms Slicec.C09.advance_fold
#print axioms Slicec.C09.columns_in_characters
#print axioms Slicec.C09.newline_resets
#print axioms Slicec.C09.token_loc_exact
#print axioms Slicec.C09.span_tight
#print axioms Slicec.C09.spans_wellformed
#print axioms Slicec.C09.lexer_call_located
#print axioms Slicec.C09.lexer_locations_erase
#print axioms Slicec.C09.lexer_cursor_at_end
#print axioms Slicec.C09.token_extent_exact
#print axioms Slicec.C09.lex_is_local_located
#print axioms Slicec.C09.one_call_extent
#print axioms Slicec.C09.escaped_identifier_extent
#print axioms Slicec.C09.doc_line_extent
#print axioms Slicec.C09.tight_text_extent
#print axioms Slicec.C09.printer_notes
#print axioms Slicec.C09.layout_locations_items
#print axioms Slicec.C09.layout_locations
#print axioms Slicec.C09.spans_are_token_extents_items
#print axioms Slicec.C09.printer_writes_tight_texts
#print axioms Slicec.C09.tight_names_with_identifier_segments
#print axioms Slicec.C09.tight_directives_with_identifier_segments
#print axioms Slicec.C09.spans_are_token_extents
#print axioms Slicec.C09.span_starts_and_ends_at_tokens
#print axioms Slicec.C09.comment_lexer_locations_erase
#print axioms Slicec.C09.comment_cursor_counts_characters
#print axioms Slicec.C09.comment_message_call_located
#print axioms Slicec.C09.comment_tag_call_located
#print axioms Slicec.C09.comment_line_tiled
#print axioms Slicec.C09.comment_line_tokens_ordered
#print axioms Slicec.C09.comment_token_in_its_line
#print axioms Slicec.C09.comment_token_within_line
#print axioms Slicec.C09.comment_error_in_its_line
#print axioms Slicec.C09.comment_newline_at_line_end
#print axioms Slicec.C09.comment_newlines_are_line_ends
#print axioms Slicec.C09.comment_stream_ordered
#print axioms Slicec.C09.token_boundary_in_lines
#print axioms Slicec.C09.doc_parts_are_token_boundaries
#print axioms Slicec.C09.doc_parts_within_lines
#print axioms Slicec.C09.malformed_lint_points_into_comment
#print axioms Slicec.C09.parser_never_at_eof
#print axioms Slicec.C09.doc_lint_spans_within_lines
