/-
  C09 — Reported locations point at the right source text.
  The printer (Model/Print.lean) lays a program out and records, for every element, the location of the
  first character of its first own token and the location right after its last own token. The theorems
  below show, for EVERY item list and EVERY layout, that these recorded spans are what the property
  demands (1-based, counted in characters, start ≤ end, inside the text, exactly at token boundaries);
  the correspondence (projection `spans`) then compares them with the spans of the real AST.
-/
import SlicecVerif.Lemmas.Layout

namespace Slicec.C09

open Slicec

/-- the single fact behind all location arithmetic: advancing over `a ++ b` is advancing over `a`, then `b`. -/
theorem advance_fold (l : Loc) (a b : List Char) : (a ++ b).foldl advance l = b.foldl advance (a.foldl advance l) :=
  List.foldl_append

/-- columns count characters — tabs, carriage returns and non-ASCII characters are one column each — and
    a text without line break stays on its row. -/
theorem columns_in_characters (l : Loc) (cs : List Char) (h : '\n' ∉ cs) :
    cs.foldl advance l = ⟨l.row, l.col + cs.length⟩ := by
  induction cs generalizing l with
  | nil => rfl
  | cons c cs ih =>
    have hc : c ≠ '\n' := fun e => h (by simp [e])
    have hcs : '\n' ∉ cs := fun e => h (by simp [e])
    simp only [List.foldl_cons, List.length_cons]
    rw [ih _ hcs]
    simp [advance, hc]; omega

/-- a line break starts the next row at column 1. -/
theorem newline_resets (l : Loc) : advance l '\n' = ⟨l.row + 1, 1⟩ := by simp [advance]

/-- a token's recorded location is exact: when a token `s` is emitted after the text `t`, every span opening
    at it starts at the location of `t`'s end (= the token's first character), the token occupies exactly the
    text `s` right after `t`, and the end recorded for anything closing on it is the location after `t ++ s`. -/
theorem token_loc_exact (st : LState) (s : String) (d : Bool) (h : LInv st) :
    textOf (emitTok st s d) = textOf st ++ s ∧
    (∀ p ∈ st.pendingOpen, (p, advanceStr ⟨1, 1⟩ (textOf st)) ∈ (emitTok st s d).opened) ∧
    (emitTok st s d).lastEnd = advanceStr ⟨1, 1⟩ (textOf st ++ s) := by
  refine ⟨by simp [textOf, emitTok, join_snoc], ?_, ?_⟩
  · intro p hp
    simp only [emitTok, List.mem_append, List.mem_map]
    left; exact ⟨p, hp, by rw [h.loc]⟩
  · simp only [emitTok]; rw [advanceStr_append, ← h.loc]

/-- closing an element records exactly (start of its first own token, end of its last own token):
    never white space, comments or neighbouring elements. -/
theorem span_tight (st : LState) (p : String) (start : Loc) (h : st.opened.find? (fun x => x.1 == p) = some (p, start)) :
    (closeSpan st p).spans = ⟨p, start, st.lastEnd⟩ :: st.spans := by
  simp [closeSpan, h]

/-- every span recorded by `render`, for every item list, layout style and seed: start ≤ end, rows and
    columns count from 1, and the span ends inside the rendered text. -/
theorem spans_wellformed (style seed : Nat) (items : List Item) (s : SpanRec)
    (hs : s ∈ (render style seed items).2) :
    s.start.le s.stop ∧ 1 ≤ s.start.row ∧ 1 ≤ s.start.col ∧
    s.stop.le (advanceStr ⟨1, 1⟩ (render style seed items).1) := by
  unfold render at hs ⊢
  simp only at hs ⊢
  have base : LInv { out := [], loc := ⟨1, 1⟩, lastEnd := ⟨1, 1⟩, pendingOpen := [], opened := [], spans := [],
                     rng := Rng.mk' seed, afterDoc := false } :=
    ⟨by simp [textOf, String.join, advanceStr], Loc.le_refl _, ⟨Nat.le_refl _, Nat.le_refl _⟩, by simp, by simp⟩
  have hinv := foldl_renderItem_inv style items _ base
  generalize (items.foldl (renderItem style) _) = st at hs hinv
  split at hs <;> rename_i hd
  · simp only [List.mem_reverse] at hs
    obtain ⟨a, b, c⟩ := hinv.spans_ok s hs
    refine ⟨a, b.1, b.2, ?_⟩
    simp only [hd, if_true, List.reverse_cons, join_snoc]
    rw [advanceStr_append]
    have : st.loc = advanceStr ⟨1, 1⟩ (String.join st.out.reverse) := hinv.loc
    rw [← this]
    exact Loc.le_trans c (Loc.le_trans hinv.lastEnd_le (advanceStr_le _ _))
  · simp only [List.mem_reverse] at hs
    obtain ⟨a, b, c⟩ := hinv.spans_ok s hs
    refine ⟨a, b.1, b.2, ?_⟩
    simp only [hd]
    have : st.loc = advanceStr ⟨1, 1⟩ (String.join st.out.reverse) := hinv.loc
    simp only [Bool.false_eq_true, if_false]
    rw [← this]
    exact Loc.le_trans c hinv.lastEnd_le

/-! non-vacuity: a concrete layout with a tab, a CR and a non-ASCII character before the token -/
example : advanceStr ⟨1, 1⟩ "\t\r é/* */\nab" = ⟨2, 3⟩ := by decide
example : ((render 0 0 [.op "x", .tok "struct", .sp, .tok "S", .cl "x"]).2.map fun s => (s.path, s.start, s.stop)) =
    [("x", ⟨1, 1⟩, ⟨1, 9⟩)] := by decide

end Slicec.C09

#print axioms Slicec.C09.advance_fold
#print axioms Slicec.C09.columns_in_characters
#print axioms Slicec.C09.newline_resets
#print axioms Slicec.C09.token_loc_exact
#print axioms Slicec.C09.span_tight
#print axioms Slicec.C09.spans_wellformed
