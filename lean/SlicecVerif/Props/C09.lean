/-
  C09 — Reported locations point at the right source text.
  The printer (Model/Print.lean) lays a program out and records, for every element, the location of the
  first character of its first own token and the location right after its last own token. The theorems
  below show, for EVERY item list and EVERY layout, that these recorded spans are what the property
  demands (1-based, counted in characters, start ≤ end, inside the text, exactly at token boundaries);
  the correspondence (projection `spans`) then compares them with the spans of the real AST.

  Second part (lexical half, proved): the model of the Slice lexer WITH locations (Model/SliceLexerLoc.lean — `advance_buffer`,
  `self.cursor`, the `(start, token, end)` every arm of `lex_next_slice_token` returns; tied to the real lexer by
  stream `C09lex`) assigns to the rendered text, for every `fileOk` file, every layout and every seed, exactly the
  token locations the printer recorded, and every span the printer reports runs from the start of a token of that
  stream to the end of a token of that stream — the first token after the element's `op` marker and the last token
  before its `cl` marker, i.e. what `@L` / `@R` around the element's production deliver.  What remains by
  correspondence is the parser (LALRPOP tables, grammar actions, `create_doc_comment`): projection `spans`.
-/
import SlicecVerif.Lemmas.Layout
import SlicecVerif.Lemmas.SliceLexerLocLayout
import SlicecVerif.Lemmas.SliceLexerLocItems

namespace Slicec.C09

open Slicec

/-- the single fact behind all location arithmetic: advancing over `a ++ b` is advancing over `a`, then `b`. -/
theorem advance_fold (l : Loc) (a b : List Char) : (a ++ b).foldl advance l = b.foldl advance (a.foldl advance l) :=
  List.foldl_append

/-- columns count characters — tabs, carriage returns and non-ASCII characters are one column each — and
    a text without line break stays on its row. -/
theorem columns_in_characters (l : Loc) (cs : List Char) (h : '\n' ∉ cs) :
    cs.foldl advance l = ⟨l.row, l.col + cs.length⟩ := by
  induction cs generalizing l with
  | nil => rfl
  | cons c cs ih =>
    have hc : c ≠ '\n' := fun e => h (by simp [e])
    have hcs : '\n' ∉ cs := fun e => h (by simp [e])
    simp only [List.foldl_cons, List.length_cons]
    rw [ih _ hcs]
    simp [advance, hc]; omega

/-- a line break starts the next row at column 1. -/
theorem newline_resets (l : Loc) : advance l '\n' = ⟨l.row + 1, 1⟩ := by simp [advance]

/-- a token's recorded location is exact: when a token `s` is emitted after the text `t`, every span opening
    at it starts at the location of `t`'s end (= the token's first character), the token occupies exactly the
    text `s` right after `t`, and the end recorded for anything closing on it is the location after `t ++ s`. -/
theorem token_loc_exact (st : LState) (s : String) (d : Bool) (h : LInv st) :
    textOf (emitTok st s d) = textOf st ++ s ∧
    (∀ p ∈ st.pendingOpen, (p, advanceStr ⟨1, 1⟩ (textOf st)) ∈ (emitTok st s d).opened) ∧
    (emitTok st s d).lastEnd = advanceStr ⟨1, 1⟩ (textOf st ++ s) := by
  refine ⟨by simp [textOf, emitTok, join_snoc], ?_, ?_⟩
  · intro p hp
    simp only [emitTok, List.mem_append, List.mem_map]
    left; exact ⟨p, hp, by rw [h.loc]⟩
  · simp only [emitTok]; rw [advanceStr_append, ← h.loc]

/-- closing an element records exactly (start of its first own token, end of its last own token):
    never white space, comments or neighbouring elements. -/
theorem span_tight (st : LState) (p : String) (start : Loc) (h : st.opened.find? (fun x => x.1 == p) = some (p, start)) :
    (closeSpan st p).spans = ⟨p, start, st.lastEnd⟩ :: st.spans := by
  simp [closeSpan, h]

/-- every span recorded by `render`, for every item list, layout style and seed: start ≤ end, rows and
    columns count from 1, and the span ends inside the rendered text. -/
theorem spans_wellformed (style seed : Nat) (items : List Item) (s : SpanRec)
    (hs : s ∈ (render style seed items).2) :
    s.start.le s.stop ∧ 1 ≤ s.start.row ∧ 1 ≤ s.start.col ∧
    s.stop.le (advanceStr ⟨1, 1⟩ (render style seed items).1) := by
  unfold render at hs ⊢
  simp only at hs ⊢
  have base : LInv { out := [], loc := ⟨1, 1⟩, lastEnd := ⟨1, 1⟩, pendingOpen := [], opened := [], spans := [],
                     rng := Rng.mk' seed, afterDoc := false } :=
    ⟨by simp [textOf, String.join, advanceStr], Loc.le_refl _, ⟨Nat.le_refl _, Nat.le_refl _⟩, by simp, by simp⟩
  have hinv := foldl_renderItem_inv style items _ base
  generalize (items.foldl (renderItem style) _) = st at hs hinv
  split at hs <;> rename_i hd
  · simp only [List.mem_reverse] at hs
    obtain ⟨a, b, c⟩ := hinv.spans_ok s hs
    refine ⟨a, b.1, b.2, ?_⟩
    simp only [hd, if_true, List.reverse_cons, join_snoc]
    rw [advanceStr_append]
    have : st.loc = advanceStr ⟨1, 1⟩ (String.join st.out.reverse) := hinv.loc
    rw [← this]
    exact Loc.le_trans c (Loc.le_trans hinv.lastEnd_le (advanceStr_le _ _))
  · simp only [List.mem_reverse] at hs
    obtain ⟨a, b, c⟩ := hinv.spans_ok s hs
    refine ⟨a, b.1, b.2, ?_⟩
    simp only [hd]
    have : st.loc = advanceStr ⟨1, 1⟩ (String.join st.out.reverse) := hinv.loc
    simp only [Bool.false_eq_true, if_false]
    rw [← this]
    exact Loc.le_trans c hinv.lastEnd_le

/-! non-vacuity: a concrete layout with a tab, a CR and a non-ASCII character before the token -/
example : advanceStr ⟨1, 1⟩ "\t\r é/* */\nab" = ⟨2, 3⟩ := by decide
example : ((render 0 0 [.op "x", .tok "struct", .sp, .tok "S", .cl "x"]).2.map fun s => (s.path, s.start, s.stop)) =
    [("x", ⟨1, 1⟩, ⟨1, 9⟩)] := by decide

/-! ## the lexer's locations (Model/SliceLexerLoc.lean) -/

open Slicec.SLex

/-- one call of `lex_next_slice_token`, for EVERY buffer, cursor and attribute mode: without the locations it is the call of
    the C02 model; the cursor after the call is the cursor before it advanced (`advance_buffer`) over exactly the characters
    the call consumed; what it returns is tagged with the cursor on entry as its start — so an escaped identifier starts at
    its backslash, a string at its opening quote, `::` `->` `[[` `]]` at their first character — except a doc comment, which
    starts three columns further (after `///`); the end it is tagged with is the cursor after the call (`LStep.items`). -/
theorem lexer_call_located (a : Bool) (cur : Loc) (c : Char) (cs : List Char) :
    (lexNextLoc a cur c cs).step = lexNext a c cs ∧
    (∃ pre, c :: cs = pre ++ (lexNext a c cs).rest ∧ (lexNextLoc a cur c cs).cur = pre.foldl advance cur) ∧
    ((∀ d, (lexNext a c cs).res ≠ .tok (.doc d)) → (lexNextLoc a cur c cs).start = cur) ∧
    (∀ d, (lexNext a c cs).res = .tok (.doc d) → (lexNextLoc a cur c cs).start = ⟨cur.row, cur.col + 3⟩) := by
  obtain ⟨h1, h2, h3⟩ := lexNextLoc_good a cur c cs
  refine ⟨h1, h2, ?_, ?_⟩
  · intro hnd
    rw [h3]
    cases hres : (lexNext a c cs).res with
    | skip w => rfl
    | err e => rfl
    | tok t => cases t <;> first | rfl | exact absurd hres (hnd _)
  · intro d hd
    rw [h3, hd]
    simp only [tokStart, advance_slash]

/-- **Erasure.** Dropping the locations from the located lexer gives the lexer of C02 — the iterator's whole output
    (`lexRun`), and what the parser sees (`lexSlice`), whatever the start location of the block. -/
theorem lexer_locations_erase (a : Bool) (cur : Loc) (cs : List Char) :
    (lexRunLoc a cur cs).erase = lexRun a cs ∧ (lexSliceLocAt cur cs).erase = lexSlice cs ∧ (lexSliceLoc cs).erase = lexSlice cs :=
  ⟨lexRunLoc_erase a cur cs, lexSliceLocAt_erase cur cs, lexSliceLoc_erase cs⟩

/-- when a block is exhausted, the cursor has been advanced over every character of it (comments, strings, white space,
    unknown symbols included): rows and columns never drift. -/
theorem lexer_cursor_at_end (a : Bool) (cur : Loc) (cs : List Char) : (lexRunLoc a cur cs).cur = cs.foldl advance cur :=
  lexRunLoc_cur a cur cs

/-- **Every token lies exactly over its spelling — for EVERY text** (not only printed programs), every block start and
    attribute mode: each token / error the lexer returns cuts the text as `pre ++ mid ++ post` with its end = the location
    after `pre ++ mid` and its start = the location after `pre` (a doc comment: three columns later, after its `///`), both
    counted from the block start by `advance`; and for a token, `mid` is the token's spelling (`spells`: the identifier with
    or without its backslash, the string with its quotes, the literal, the keyword's table entry, the punctuation,
    `///` + the doc text + a possibly stripped CR).  So locations are 1-based when the block start is, counted in
    characters, start ≤ end, inside the text, never off by white space or a comment. -/
theorem token_extent_exact (a : Bool) (cur : Loc) (cs : List Char) :
    ∀ it ∈ (lexRunLoc a cur cs).items, ∃ pre mid post, cs = pre ++ mid ++ post ∧
      it.stop = (pre ++ mid).foldl advance cur ∧
      (match it.item with
       | .tok t => spells t mid ∧ it.start = t.startAt (pre.foldl advance cur)
       | .err _ => it.start = pre.foldl advance cur) :=
  lexRunLoc_extent a cur cs

/-- the separation lemma of C02 with locations: if the text `s` ends in a way that `r` cannot change (`compat`), the located
    output on `s ++ r` is the located output on `s` followed by the located output on `r` read as a block that starts at
    the location where `s` ends. -/
theorem lex_is_local_located (a : Bool) (cur : Loc) (s r : List Char) (h : compat (lexRun a s).last r = true) :
    (lexRunLoc a cur (s ++ r)).items =
      (lexRunLoc a cur s).items ++ (lexRunLoc (lexRun a s).attr (s.foldl advance cur) r).items :=
  lexRunLoc_append a cur s r h

/-- a spelling consumed by ONE call of the lexer (every punctuation and two-character token, keyword, identifier, escaped
    identifier, integer literal, string literal with its quotes, doc line): its located output is that one token from the
    location where the spelling starts to the location where it ends; a doc comment starts three columns later. -/
theorem one_call_extent (a : Bool) (cur : Loc) (c : Char) (cs : List Char) (t : SliceTok)
    (hrest : (lexNext a c cs).rest = []) (hres : (lexNext a c cs).res = .tok t) :
    (lexRunLoc a cur (c :: cs)).items = [⟨.tok t, t.startAt cur, (c :: cs).foldl advance cur⟩] := by
  rw [lexRunLoc_oneCall a cur c cs hrest, hres]
  cases t <;> simp [StepRes.items, tokStart, advance_slash, SliceTok.startAt]

/-- an identifier as the printer writes it — `w`, or `\w` (always `\w` when `w` is a keyword): ONE identifier token from
    the first character of the spelling, the BACKSLASH included, to the end of the spelling. -/
theorem escaped_identifier_extent (a : Bool) (cur : Loc) (s : String) (esc : Bool)
    (hesc : keywords.contains s = true → esc = true) (hid : isIdentText s.toList = true) :
    (lexRunLoc a cur (if esc then "\\" ++ s else s).toList).items =
      [⟨.tok (.ident s.toList), cur, advanceStr cur (if esc then "\\" ++ s else s)⟩] :=
  lexRunLoc_identSpelling a cur s esc hesc hid

/-- a doc line `///` + text (text on one line, not starting with a fourth slash): ONE doc-comment token that starts after
    the three slashes and ends at the end of the line (a CR in front of the line break is stripped from the token's text
    but lies inside its extent). -/
theorem doc_line_extent (a : Bool) (cur : Loc) (s : String) (h1 : s.toList.head? ≠ some '/') (h2 : s.toList.contains '\n' = false) :
    (lexRunLoc a cur ("///" ++ s).toList).items =
      [⟨.tok (.doc (stripCr s.toList)), ⟨cur.row, cur.col + 3⟩, advanceStr cur ("///" ++ s)⟩] :=
  lexRunLoc_docSpelling a cur s h1 h2

/-- a text that starts and ends with a character that is neither white space nor a slash and does not end inside a line
    comment (a scoped name `A::\B::C`, any single token): the first element of its located output starts where the text
    starts, the last one ends where the text ends. -/
theorem tight_text_extent (a : Bool) (cur : Loc) (cs : List Char) (h : tightText cs = true) (hline : (lexRun a cs).last ≠ .line) :
    (∃ i tl, (lexRunLoc a cur cs).items = i :: tl ∧ i.start = cur) ∧
    (∃ it, (lexRunLoc a cur cs).items.getLast? = some it ∧ it.stop = cs.foldl advance cur) := by
  obtain ⟨c, r, d, hcs, hd, hw1, hs1, hw2, hs2⟩ := tightText_ends h
  refine ⟨?_, lexRunLoc_getLast a cur cs d hd hw2 hs2 hline⟩
  obtain ⟨i, tl, h1, h2, _⟩ := lexRunLoc_head a cur c r hw1 hs1
  exact ⟨i, tl, by rw [hcs]; exact h1, h2⟩

/-! ## printer and lexer agree on every token location -/

/-- what `tokenLocs` (the printer's notes, `trace`) adds for one item — only locations `emitTok` itself recorded:
    * an identifier item: one identifier token `(start, stop)` of `emitTok`, backslash included if written;
    * an optional comma: nothing if the layout did not write it (never in layout 0), else one `Comma` token `(start, stop)`;
    * separators and span markers: nothing;
    * a `tok s` item whose spelling one call of the lexer consumes as the token `t` (not a doc comment): `t` at `(start, stop)`;
    * a doc line (one line, no fourth slash): the doc comment at `(start + 3 columns, stop)`. -/
theorem printer_notes (style : Nat) (T : Trace) :
    (∀ s, (traceStep style T (.ident s)).toks =
        T.toks ++ [⟨.ident s.toList, T.st.loc, (renderItem style T.st (.ident s)).lastEnd⟩]) ∧
    ((traceStep style T .optComma).toks = T.toks ∨
      (style ≠ 0 ∧ (traceStep style T .optComma).toks = T.toks ++ [⟨.comma, T.st.loc, (renderItem style T.st .optComma).lastEnd⟩])) ∧
    (∀ n p, (traceStep style T (.nl n)).toks = T.toks ∧ (traceStep style T .sp).toks = T.toks ∧
      (traceStep style T .glue).toks = T.toks ∧ (traceStep style T (.op p)).toks = T.toks ∧ (traceStep style T (.cl p)).toks = T.toks) ∧
    (∀ s c cs t, s.toList = c :: cs → (lexNext T.attr c cs).rest = [] → (lexNext T.attr c cs).res = .tok t → (∀ d, t ≠ .doc d) →
      (traceStep style T (.tok s)).toks = T.toks ++ [⟨t, T.st.loc, (renderItem style T.st (.tok s)).lastEnd⟩]) ∧
    (∀ s, s.toList.head? ≠ some '/' → s.toList.contains '\n' = false →
      (traceStep style T (.docLine s)).toks =
        T.toks ++ [⟨.doc (stripCr s.toList), ⟨T.st.loc.row, T.st.loc.col + 3⟩, (renderItem style T.st (.docLine s)).lastEnd⟩]) := by
  refine ⟨fun s => rfl, ?_, ?_, ?_, ?_⟩
  · obtain ⟨rng, hren | ⟨hs, hren⟩⟩ := renderItem_optComma style T.st
    · left
      simp only [traceStep, hren]
      simp
    · right
      refine ⟨hs, ?_⟩
      have hne : ((emitTok { T.st with rng := rng } "," false).loc == T.st.loc) = false := by
        have : (emitTok { T.st with rng := rng } "," false).loc = advance T.st.loc ',' := rfl
        rw [this]
        exact beq_eq_false_iff_ne.mpr (advance_ne_self _ _)
      simp only [traceStep, hren, hne]
      simp [Trace.emit]
  · intro n p
    refine ⟨rfl, rfl, rfl, rfl, ?_⟩
    simp only [traceStep]
    split <;> rfl
  · intro s c cs t hs hrest hres hnd
    simp only [traceStep, Trace.emit, hs]
    rw [one_call_extent T.attr T.st.loc c cs t hrest hres]
    have : t.startAt T.st.loc = T.st.loc := by
      cases t <;> first | rfl | exact absurd rfl (hnd _)
    rw [this]
    simp only [toksLocOf, renderItem, emitTok, advanceStr, hs]
  · intro s h1 h2
    simp only [traceStep, Trace.emit, lexRunLoc_docSpelling T.attr T.st.loc s h1 h2, toksLocOf]
    rfl

/-- **Located layout theorem, item lists.** For every item list that passes the separation check of C02 (`itemsOk`), every
    layout and every seed: the located lexer reads the rendered text (one block starting at 1:1) without error as exactly
    the located token list the printer noted (`tokenLocs`): the k-th token has the start and end `render` recorded when
    it wrote that token. -/
theorem layout_locations_items (layout seed : Nat) (items : List Item) (h : itemsOk items = true) :
    lexSliceLoc (render layout seed items).1.toList = .ok (tokenLocs layout seed items) :=
  lex_render_loc layout seed items h

/-- **Located layout theorem.** For EVERY abstract file that satisfies the decidable leaf conditions `fileOk` of C02, every
    layout (tabs, CR LF, lone CR, multi-byte characters, comments in every gap, optional commas, escaped identifiers) and
    every seed: the lexer's located token list of the rendered text is exactly the printer's `tokenLocs` — token for token
    the (start, end) recorded by `emitTok` (see `printer_notes`) — and, locations dropped, it is the token list
    `tokensWith false cs (fileItems f)` of C02's `layout_independence` (`cs` = the layout's optional commas). -/
theorem layout_locations (f : SFile) (hf : fileOk f = true) (layout seed : Nat) :
    lexSliceLoc (render layout seed (fileItems f)).1.toList = .ok (tokenLocs layout seed (fileItems f)) ∧
    ∃ cs : List Bool, (layout = 0 → cs = []) ∧
      (tokenLocs layout seed (fileItems f)).map (·.tok) = tokensWith false cs (fileItems f) := by
  have hok := itemsOk_fileItems f hf
  have h1 := lex_render_loc layout seed (fileItems f) hok
  refine ⟨h1, ?_⟩
  obtain ⟨cs, hcs, h2⟩ := lex_render layout seed (fileItems f) hok
  refine ⟨cs, hcs, ?_⟩
  have h3 := lexSliceLoc_erase (render layout seed (fileItems f)).1.toList
  rw [h1, h2] at h3
  simpa [LexResultLoc.erase] using h3

/-! ## reported spans are token extents -/

/-- **Spans are token extents, item lists.** For every item list that passes the separation check and writes only tight
    texts, every layout and seed: the spans `render` reports are, one for one and in order, the spans
    `(path, spelling start of token i, end of token j)` of the located token list, where `spanTokens` names `i` = the first
    token written after the element's `op path` marker and `j` = the last token written before its `cl path` marker
    (`i ≤ j`, both in range).  `spellStart` is the token's start, except that a doc comment's `///` is counted in. -/
theorem spans_are_token_extents_items (layout seed : Nat) (items : List Item) (hok : itemsOk items = true)
    (ht : itemsTight items = true) :
    (render layout seed items).2 = (spanTokens layout seed items).map (spanOfTokens (tokenLocs layout seed items)) ∧
    ∀ e ∈ spanTokens layout seed items, e.2.1 ≤ e.2.2 ∧ e.2.2 < (tokenLocs layout seed items).length :=
  spans_render layout seed items hok ht

/-- everything the printer writes for a `fileOk` file whose directives / scoped names / module path start and end with a
    non-blank, non-slash character and whose doc lines do not start with a slash (`fileTight`) is a tight text. -/
theorem printer_writes_tight_texts (f : SFile) (hf : fileOk f = true) (ht : fileTight f = true) :
    itemsTight (fileItems f) = true :=
  itemsTight_fileItems f hf ht

/-- the name conditions of `fileTight` follow from the syntactic criterion of C02 (`names_with_identifier_segments`): a
    scoped name whose `::`-separated segments are identifiers (first may be empty) is printed as a tight text, and so is
    a directive made of identifiers joined by `::`. -/
theorem tight_names_with_identifier_segments (id : String) (h : nameSegsOk (id.splitOn "::") = true) :
    tightText (escapeScoped id).toList = true :=
  tightText_of_segments id h

/-- the directive half of the criterion: identifiers joined by `::` (keywords allowed inside attributes) are tight. -/
theorem tight_directives_with_identifier_segments (segs : List String) (hne : segs ≠ [])
    (h : ∀ s ∈ segs, isIdentText s.toList = true) (args : List String) :
    attrTight ⟨"::".intercalate segs, args⟩ = true :=
  tightText_directive segs hne h

/-- **Spans are token extents.** For EVERY abstract file with `fileOk f` and `fileTight f`, every layout and every seed:
    the lexer reads the rendered text as `toks = tokenLocs …` (previous theorem) and the spans the printer reports —
    the ones the correspondence compares with the compiler's — are exactly `(path, start of token i, end of token j)`
    for the `(path, i, j)` of `spanTokens`: first token after `op path`, last token before `cl path`. -/
theorem spans_are_token_extents (f : SFile) (hf : fileOk f = true) (ht : fileTight f = true) (layout seed : Nat) :
    lexSliceLoc (render layout seed (fileItems f)).1.toList = .ok (tokenLocs layout seed (fileItems f)) ∧
    (render layout seed (fileItems f)).2 =
      (spanTokens layout seed (fileItems f)).map (spanOfTokens (tokenLocs layout seed (fileItems f))) ∧
    ∀ e ∈ spanTokens layout seed (fileItems f), e.2.1 ≤ e.2.2 ∧ e.2.2 < (tokenLocs layout seed (fileItems f)).length := by
  have hok := itemsOk_fileItems f hf
  have h := spans_render layout seed (fileItems f) hok (itemsTight_fileItems f hf ht)
  exact ⟨lex_render_loc layout seed (fileItems f) hok, h.1, h.2⟩

/-- **Corollary.** Every span `⟨p, a, b⟩` that `render` reports for such a file starts at the (spelling) start of a token of
    the lexed stream and ends at the end of a token of the lexed stream, the first not after the second: never inside a
    token, in white space, in a comment, or at a neighbouring element. -/
theorem span_starts_and_ends_at_tokens (f : SFile) (hf : fileOk f = true) (ht : fileTight f = true) (layout seed : Nat)
    (sp : SpanRec) (hsp : sp ∈ (render layout seed (fileItems f)).2) :
    ∃ toks, lexSliceLoc (render layout seed (fileItems f)).1.toList = .ok toks ∧
      ∃ (i j : Nat) (ti tj : LTok), i ≤ j ∧ toks[i]? = some ti ∧ toks[j]? = some tj ∧ sp.start = ti.spellStart ∧ sp.stop = tj.stop := by
  obtain ⟨h1, h2, h3⟩ := spans_are_token_extents f hf ht layout seed
  refine ⟨_, h1, ?_⟩
  rw [h2] at hsp
  obtain ⟨e, he, rfl⟩ := List.mem_map.mp hsp
  obtain ⟨hle, hlt⟩ := h3 e he
  have hi : e.2.1 < (tokenLocs layout seed (fileItems f)).length := Nat.lt_of_le_of_lt hle hlt
  refine ⟨e.2.1, e.2.2, _, _, hle, List.getElem?_eq_getElem hi, List.getElem?_eq_getElem hlt, ?_, ?_⟩
  · simp [spanOfTokens, List.getD_eq_getElem?_getD, List.getElem?_eq_getElem hi]
  · simp [spanOfTokens, List.getD_eq_getElem?_getD, List.getElem?_eq_getElem hlt]

/-! non-vacuity of the lexical half: a text with a tab, an escaped identifier, a multi-byte line comment ended by CR LF,
    a doc comment, a two-character token, a string with its quotes -/
example : lexSliceLoc "\t\\struct // é✓\r\n/// d\r\nx::y \"é\"".toList =
    .ok [⟨.ident "struct".toList, ⟨1, 2⟩, ⟨1, 9⟩⟩, ⟨.doc [' ', 'd'], ⟨2, 4⟩, ⟨2, 7⟩⟩, ⟨.ident ['x'], ⟨3, 1⟩, ⟨3, 2⟩⟩,
         ⟨.dcolon, ⟨3, 2⟩, ⟨3, 4⟩⟩, ⟨.ident ['y'], ⟨3, 4⟩, ⟨3, 5⟩⟩, ⟨.strLit ['é'], ⟨3, 6⟩, ⟨3, 9⟩⟩] := by decide
/-- `spells` is not vacuous: the escaped identifier's extent `\\struct` (columns 2–8) is spelled with the backslash -/
example : spells (.ident "struct".toList) "\\struct".toList ∧ spells (.doc [' ', 'd']) "/// d\r".toList ∧
    spells (.strLit ['é']) "\"é\"".toList ∧ spells (.kw "StructKeyword") "struct".toList ∧ spells .dcolon "::".toList := by
  refine ⟨Or.inr (by decide), ⟨" d\r".toList, by decide, by decide⟩, ?_, ?_, ?_⟩
  · show "\"é\"".toList = _; decide
  · show Gen.sliceKeywords.lookup _ = _; decide
  · show "::".toList = _; decide
/-- an error carries its locations too: an unterminated string ends in front of the line break -/
example : lexSliceLoc "a \"bc\nd".toList = .error .unterminatedString ⟨1, 3⟩ ⟨1, 6⟩ := by decide
/-- a file with a doc comment, an attribute, a keyword used as a name (always escaped), an optional type satisfies the
    hypotheses of `spans_are_token_extents` -/
def exFileLoc : SFile := ⟨[⟨"cs::attr", ["a b"]⟩], none,
  [.struct [" doc é"] [⟨"deprecated", []⟩] true "struct"
     [⟨[], [], some ⟨false, 10, 7, false⟩, "x", .mk [] (.seq (.mk [] (.prim .string) true)) false⟩]]⟩
example : fileOk exFileLoc = true ∧ fileTight exFileLoc = true := by decide
/-- the items of `/// d é` / `compact struct \struct` with the element `d0` and its identifier `d0.id`: the struct's span
    runs from `compact` (after the doc line) to the end of the escaped name; its tokens are number 1 and 3 of the stream -/
def exItems : List Item :=
  [.docLine " d é", .nl 0, .op "d0", .tok "compact", .sp, .tok "struct", .sp, .op "d0.id", .ident "struct", .cl "d0.id", .cl "d0"]
example : itemsOk exItems = true ∧ itemsTight exItems = true := by decide
example : spanTokens 0 0 exItems = [("d0.id", 3, 3), ("d0", 1, 3)] := by decide
/-- the same without the doc line (`decide` cannot run `String.startsWith`, which `emitGap` calls after a doc line): the
    located tokens the printer notes, the token indices of the spans, the spans `render` reports -/
def exItems2 : List Item :=
  [.op "d0", .tok "compact", .sp, .tok "struct", .sp, .op "d0.id", .ident "struct", .cl "d0.id", .cl "d0"]
example : tokenLocs 0 0 exItems2 =
    [⟨.kw "CompactKeyword", ⟨1, 1⟩, ⟨1, 8⟩⟩, ⟨.kw "StructKeyword", ⟨1, 9⟩, ⟨1, 15⟩⟩, ⟨.ident "struct".toList, ⟨1, 16⟩, ⟨1, 23⟩⟩] := by
  decide
example : spanTokens 0 0 exItems2 = [("d0.id", 2, 2), ("d0", 0, 2)] := by decide
example : (render 0 0 exItems2).2.map (fun s => (s.path, s.start, s.stop)) =
    [("d0.id", ⟨1, 16⟩, ⟨1, 23⟩), ("d0", ⟨1, 1⟩, ⟨1, 23⟩)] := by decide
/-- a pseudo-random layout (layout 1, seed 45) of a struct with one field: a line comment containing a lone CR, block
    comments with multi-byte characters, tabs, an escaped identifier `\\S`, a CR LF gap, a written optional comma; the scoped
    name `A::B` is one item and three tokens.  The located tokens the printer notes, the token indices of the spans and the
    spans `render` reports (the field `f` runs from token 4 `x` to token 8 `B`). -/
def exItems3 : List Item :=
  [.op "d0", .tok "compact", .sp, .tok "struct", .sp, .op "d0.id", .ident "S", .cl "d0.id", .cl "d0", .sp, .tok "{", .nl 1,
   .op "f", .ident "x", .glue, .tok ":", .sp, .tok "A::B", .cl "f", .glue, .optComma, .nl 0, .tok "}"]
example : itemsOk exItems3 = true ∧ itemsTight exItems3 = true := by decide
set_option maxRecDepth 8000 in
example : (render 1 45 exItems3).1 =
    "compact // old:\r x: bool\nstruct/* * / */\\S/*é✓ü*/{\t\t x/* \r */:\t\t A::B\r\n,//\r\n}" := by decide
set_option maxRecDepth 8000 in
example : tokenLocs 1 45 exItems3 =
    [⟨.kw "CompactKeyword", ⟨1, 1⟩, ⟨1, 8⟩⟩, ⟨.kw "StructKeyword", ⟨2, 1⟩, ⟨2, 7⟩⟩, ⟨.ident ['S'], ⟨2, 16⟩, ⟨2, 18⟩⟩,
     ⟨.lbrace, ⟨2, 25⟩, ⟨2, 26⟩⟩, ⟨.ident ['x'], ⟨2, 29⟩, ⟨2, 30⟩⟩, ⟨.colon, ⟨2, 37⟩, ⟨2, 38⟩⟩, ⟨.ident ['A'], ⟨2, 41⟩, ⟨2, 42⟩⟩,
     ⟨.dcolon, ⟨2, 42⟩, ⟨2, 44⟩⟩, ⟨.ident ['B'], ⟨2, 44⟩, ⟨2, 45⟩⟩, ⟨.comma, ⟨3, 1⟩, ⟨3, 2⟩⟩, ⟨.rbrace, ⟨4, 1⟩, ⟨4, 2⟩⟩] := by decide
/-- the theorem's instance for this layout -/
example : lexSliceLoc (render 1 45 exItems3).1.toList = .ok (tokenLocs 1 45 exItems3) :=
  layout_locations_items 1 45 exItems3 (by decide)
set_option maxRecDepth 8000 in
example : spanTokens 1 45 exItems3 = [("d0.id", 2, 2), ("d0", 0, 2), ("f", 4, 8)] := by decide
set_option maxRecDepth 8000 in
example : (render 1 45 exItems3).2.map (fun s => (s.path, s.start, s.stop)) =
    [("d0.id", ⟨2, 16⟩, ⟨2, 18⟩), ("d0", ⟨1, 1⟩, ⟨2, 18⟩), ("f", ⟨2, 29⟩, ⟨2, 45⟩)] := by decide
/-- `fileOk` alone does not make spans start at tokens: a directive may carry a blank (`fileTight` excludes it) -/
example : attrOk ⟨" a", []⟩ = true ∧ attrTight ⟨" a", []⟩ = false := by decide

end Slicec.C09

#print axioms Slicec.C09.advance_fold
#print axioms Slicec.C09.columns_in_characters
#print axioms Slicec.C09.newline_resets
#print axioms Slicec.C09.token_loc_exact
#print axioms Slicec.C09.span_tight
#print axioms Slicec.C09.spans_wellformed
#print axioms Slicec.C09.lexer_call_located
#print axioms Slicec.C09.lexer_locations_erase
#print axioms Slicec.C09.lexer_cursor_at_end
#print axioms Slicec.C09.token_extent_exact
#print axioms Slicec.C09.lex_is_local_located
#print axioms Slicec.C09.one_call_extent
#print axioms Slicec.C09.escaped_identifier_extent
#print axioms Slicec.C09.doc_line_extent
#print axioms Slicec.C09.tight_text_extent
#print axioms Slicec.C09.printer_notes
#print axioms Slicec.C09.layout_locations_items
#print axioms Slicec.C09.layout_locations
#print axioms Slicec.C09.spans_are_token_extents_items
#print axioms Slicec.C09.printer_writes_tight_texts
#print axioms Slicec.C09.tight_names_with_identifier_segments
#print axioms Slicec.C09.tight_directives_with_identifier_segments
#print axioms Slicec.C09.spans_are_token_extents
#print axioms Slicec.C09.span_starts_and_ends_at_tokens
