/-
  Doc comments (C16): the comment lexer (`parsers/comments/lexer.rs`), the comment grammar
  (`grammar.lalrpop`) as a recursive-descent parser, and the two helper functions of `grammar.rs`
  (`sanitize_message_lines`, `construct_section_message`), exactly as the Rust.

  Strings are `List Char` (`Str`); the UTF-8 width of a character is `Char.utf8Size`, so that
  `char_indices` (byte offsets) and `String::replace_range(..n, "")` (panics when `n` is not on a
  character boundary) are modelled faithfully without leaving `List Char`.
  Token *locations* are not modelled here (C09 talks about spans, C16 does not).
-/
import SlicecVerif.Model.Basic
import SlicecVerif.Gen.CommentKeywords
import SlicecVerif.Gen.CommentSanitize

namespace Slicec

open Gen (TagKw)

abbrev Str := List Char

/-! ## character classes (Rust `char::is_whitespace`: exactly 25 code points, DESIGN Appendix E) -/

def wsCodes : List Nat :=
  [0x09, 0x0A, 0x0B, 0x0C, 0x0D, 0x20, 0x85, 0xA0, 0x1680,
   0x2000, 0x2001, 0x2002, 0x2003, 0x2004, 0x2005, 0x2006, 0x2007, 0x2008, 0x2009, 0x200A,
   0x2028, 0x2029, 0x202F, 0x205F, 0x3000]

def isWsC (c : Char) : Bool := wsCodes.contains c.toNat

/-- `is_ascii_alphanumeric() || c == '_'` (Lean's `Char.isAlphanum` is ASCII-only) -/
def isIdCharC (c : Char) : Bool := c.isAlphanum || c == '_'

/-- `str::trim_start` -/
def trimStart (s : Str) : Str := s.dropWhile isWsC

/-! ## lexer -/

inductive CTok where
  | ident (s : Str)
  | text (s : Str)
  | newline
  | kw (k : TagKw)
  | lbrace | rbrace | colon | dcolon
  deriving DecidableEq, Repr, Inhabited

inductive CLexErr where
  | unknownSymbol (c : Char)
  | unknownTag (t : Str)
  | missingTag
  | unterminatedInlineTag
  | incorrectContext (tag : Str) (isInline : Bool)
  deriving DecidableEq, Repr, Inhabited

inductive LMode where
  | message | blockTag | inlineTag
  deriving DecidableEq, Repr, Inhabited

/-- `switch_to_next_line`: `BlockTag` iff `trim_start()` begins with `@` -/
def startMode (line : Str) : LMode :=
  match trimStart line with
  | '@' :: _ => .blockTag
  | _ => .message

/-- `read_tag_keyword`, given the buffer *after* the `@`: keyword (from the extracted table), `""` → MissingTag,
    other → UnknownTag; then the inline/block validity check. Returns the rest of the buffer. -/
def readTagKeyword (mode : LMode) (afterAt : Str) : Except CLexErr CTok × Str :=
  let ident := afterAt.takeWhile isIdCharC
  let rest := afterAt.dropWhile isIdCharC
  let isInline := mode == .inlineTag
  match Gen.commentTagKeywords.find? (fun r => r.1 == ident) with
  | some (_, k, onlyInline) =>
    if onlyInline == isInline then (.ok (.kw k), rest) else (.error (.incorrectContext ident isInline), rest)
  | none => if ident.isEmpty then (.error .missingTag, rest) else (.error (.unknownTag ident), rest)

/-- `lex_message` on a non-empty buffer: at `{` consume it and the following whitespace; `@` next → `{` token and
    `InlineTag` mode; otherwise (and for any other first character) everything up to the next `{` is one `Text`. -/
def lexMessage (cs : Str) : CTok × LMode × Str :=
  match cs with
  | '{' :: rest =>
    let ws := rest.takeWhile isWsC
    let rest' := rest.dropWhile isWsC
    match rest' with
    | '@' :: _ => (.lbrace, .inlineTag, rest')
    | _ => (.text ('{' :: ws ++ rest'.takeWhile (· != '{')), .message, rest'.dropWhile (· != '{'))
  | _ => (.text (cs.takeWhile (· != '{')), .message, cs.dropWhile (· != '{'))

inductive TagStep where
  | eol                                          -- only whitespace was left
  | tok (t : CTok) (m : LMode) (rest : Str)
  | err (e : CLexErr)

/-- `lex_tag_component` (modes `BlockTag` and `InlineTag`) -/
def lexTagComponent (mode : LMode) (cs : Str) : TagStep :=
  match cs.dropWhile isWsC with
  | [] => .eol
  | '@' :: rest =>
    match readTagKeyword mode rest with
    | (.ok t, r) => .tok t mode r
    | (.error e, _) => .err e
  | ':' :: ':' :: rest => .tok .dcolon mode rest
  | ':' :: rest => .tok .colon (if mode == .blockTag then .message else mode) rest
  | '}' :: rest => .tok .rbrace (if mode == .inlineTag then .message else mode) rest
  | c :: rest =>
    if c.isAlpha then .tok (.ident ((c :: rest).takeWhile isIdCharC)) mode ((c :: rest).dropWhile isIdCharC)
    else .err (.unknownSymbol c)

/-- tokens up to the first lexer error, and that error -/
structure LexOut where
  toks : List CTok
  err : Option CLexErr
  deriving DecidableEq, Repr, Inhabited

def LexOut.cons (t : CTok) (o : LexOut) : LexOut := ⟨t :: o.toks, o.err⟩

/-- one line; every step consumes at least one character, so `fuel = length + 2` is enough.
    End of line: `InlineTag` → UnterminatedInlineTag, otherwise the zero-width `Newline`. -/
def lexLine : Nat → LMode → Str → LexOut
  | 0, _, _ => ⟨[], none⟩
  | fuel + 1, mode, cs =>
    match cs with
    | [] =>
      match mode with
      | .inlineTag => ⟨[], some .unterminatedInlineTag⟩
      | _ => ⟨[.newline], none⟩
    | _ :: _ =>
      match mode with
      | .message =>
        match lexMessage cs with
        | (t, m, rest) => (lexLine fuel m rest).cons t
      | _ =>
        match lexTagComponent mode cs with
        | .eol => lexLine fuel mode []
        | .tok t m rest => (lexLine fuel m rest).cons t
        | .err e => ⟨[], some e⟩

def lexOneLine (l : Str) : LexOut := lexLine (l.length + 2) (startMode l) l

/-- the whole comment: lines are lexed one after the other, the mode restarts on every line -/
def lexComment : List Str → LexOut
  | [] => ⟨[], none⟩
  | l :: ls =>
    let o := lexOneLine l
    match o.err with
    | some _ => o
    | none => let r := lexComment ls; ⟨o.toks ++ r.toks, r.err⟩

/-! ## structured comments -/

inductive Comp where
  | text (s : Str)
  | link (id : Str)
  deriving DecidableEq, Repr, Inhabited

abbrev Msg := List Comp

structure DocC where
  overview : Option Msg
  params : List (Str × Msg)
  returns : List (Option Str × Msg)
  see : List Str
  deriving DecidableEq, Repr, Inhabited

/-- one line of a message as the grammar hands it to `sanitize_message_lines`:
    `none` = the line was empty, `some (first, rest)` = `MessageComponent+` -/
abbrev MLine := Option (Comp × List Comp)

def toMLine : List Comp → MLine
  | [] => none
  | c :: cs => some (c, cs)

/-- `lexerError` = the lexer error that stopped the token stream, if any (whether the lint's *message* is the
    lexer's or a grammar one is not modelled: both are one `MalformedDocComment`) -/
inductive CErr where
  | malformed (lexerError : Option CLexErr)
  deriving DecidableEq, Repr, Inhabited

abbrev nl : Comp := .text ['\n']

/-! ## `sanitize_message_lines` / `construct_section_message`

  Since the repair of D-16a / D-16b the common indentation is *counted* in characters; the only byte offset left is the
  end index handed to `String::replace_range(..end, "")`, which panics when `end` is not on a character boundary. That
  index is modelled (`endIndex`) and so is `replace_range` (`dropBytes`, `none` = panic); `Props/C16.sanitize_no_panic`
  proves that the panic cannot happen any more: `char_indices().nth(n).unwrap_or(len)` is the offset of a character or the
  length of the text. -/

/-- `text.chars().take_while(|c| c.is_whitespace()).count()` -/
def leadWs (t : Str) : Nat := (t.takeWhile isWsC).length

/-- first loop of `sanitize_message_lines`; `none` = `usize::MAX` (a count never reaches it, so `min(count, MAX) = count`).
    * `None` line: not looked at;
    * first component a text: counted in characters; `continue` when `message.len() == 1 && whitespace_count == text.chars().count()`
      (the line consists of whitespace only), otherwise `common = min(whitespace_count, common)` — in particular an
      all-whitespace text that is followed by further components (a link, a `{`) counts with its full length;
    * first component a link: `common = 0; break`. -/
def commonWs : Option Nat → List MLine → Option Nat
  | acc, [] => acc
  | acc, none :: rest => commonWs acc rest
  | acc, some (.text t, more) :: rest =>
    let whitespaceCount := leadWs t
    if more.isEmpty && whitespaceCount == t.length then commonWs acc rest
    else commonWs (some (match acc with | none => whitespaceCount | some a => min whitespaceCount a)) rest
  | _, some (.link _, _) :: _ => some 0

/-- `if common_leading_whitespace == usize::MAX { common_leading_whitespace = 0; }` (no line had any content) -/
def normaliseCommon (c : Option Nat) : Nat := c.getD 0

/-- `text.char_indices().map(|(index, _)| index).nth(n).unwrap_or(text.len())`: the byte offset of character number `n`,
    or the byte length of the text when it has at most `n` characters -/
def endIndex : Str → Nat → Nat
  | [], _ => 0
  | _ :: _, 0 => 0
  | c :: cs, n + 1 => c.utf8Size + endIndex cs n

/-- `replace_range(..n, "")` on UTF-8: `none` = panic (`n` is inside a character, or beyond the end) -/
def dropBytes : Str → Nat → Option Str
  | cs, 0 => some cs
  | [], _ + 1 => none
  | c :: cs, n + 1 => if c.utf8Size ≤ n + 1 then dropBytes cs (n + 1 - c.utf8Size) else none

/-- second loop, one line: the first component, if it is a text, loses the bytes before `cut text`; a `"\n"` text is appended;
    a `None` line becomes `["\n"]` -/
def stripLine (cut : Str → Nat) : MLine → Option (List Comp)
  | none => some [nl]
  | some (.text t, rest) =>
    match dropBytes t (cut t) with
    | some t' => some (.text t' :: rest ++ [nl])
    | none => none
  | some (.link id, rest) => some (.link id :: rest ++ [nl])

/-- second loop (`flat_map`); `none` = some `replace_range` panicked -/
def stripLines (cut : Str → Nat) : List MLine → Option Msg
  | [] => some []
  | l :: ls =>
    match stripLine cut l, stripLines cut ls with
    | some a, some b => some (a ++ b)
    | _, _ => none

/-! ### the shape before the repair of D-16a / D-16b (byte offsets): the other reading of the extracted flag

  `Gen.sanitizeCountsChars` is read off grammar.rs on every run. It is `true` on a tree that contains the repair, and then
  nothing in this subsection is used. Should the source go back to `find(..).unwrap_or_default()` and
  `replace_range(..index, "")`, the flag becomes `false`, `sanitizeMessageLines` follows the code again (this reading agreed
  with the pre-repair grammar.rs on every comment of the thorough stream), `Props/C16.sanitize_eq_spec` and what rests on it
  stop compiling, and the driver reports every comment on which the code's rule and the property's rule differ as a model
  counterexample. Any other shape of the function is an extraction failure. -/

def wsIndexAux : Str → Option Nat
  | [] => none
  | c :: cs => if isWsC c then (wsIndexAux cs).map (· + c.utf8Size) else some 0

/-- `text.find(|c| !c.is_whitespace()).unwrap_or_default()`: a byte index; 0 for an all-whitespace text -/
def wsIndex (t : Str) : Nat := (wsIndexAux t).getD 0

def commonWsBytes : Option Nat → List MLine → Option Nat
  | acc, [] => acc
  | acc, none :: rest => commonWsBytes acc rest
  | acc, some (.text t, _) :: rest =>
    commonWsBytes (some (match acc with | none => wsIndex t | some a => min (wsIndex t) a)) rest
  | _, some (.link _, _) :: _ => some 0

/-! ### `sanitize_message_lines` -/

def sanitizeMessageLines (lines : List MLine) : Outcome CErr Msg :=
  let stripped :=
    if Gen.sanitizeCountsChars then
      let common := normaliseCommon (commonWs none lines)
      stripLines (fun text => endIndex text common) lines
    else
      let common := (commonWsBytes none lines).getD 0
      stripLines (fun _ => common) lines
  match stripped with
  | some m => .ok m
  | none => .panic "replace_range"

/-- `inline_message.flatten()` is `none` both for a missing `:` and for `:` followed by nothing -/
def constructSectionMessage (inl : Option (List Comp)) (lines : Option Msg) : Msg :=
  let value := lines.getD []
  match inl with
  | none => value
  | some m =>
    let m := match m with
      | .text t :: r => Comp.text (trimStart t) :: r
      | m => m
    m ++ [nl] ++ value

/-! ## what the property demands of indentation stripping (declarative)

  The indentation of a line is its number of leading whitespace *characters*; a line without content (empty, or whitespace
  only) has none and is ignored; a line that starts with a link has indentation 0; whitespace in front of a link (or of a
  `{`, which the lexer makes a text of its own) is indentation in full. The common indentation is the minimum over the lines
  that have one (0 if there is none) and is removed from the front of every line's first text. -/

def lineIndent : MLine → Option Nat
  | none => none
  | some (.link _, _) => some 0
  | some (.text t, rest) =>
    if t.all isWsC then (match rest with | [] => none | _ => some t.length) else some (leadWs t)

def minOpt : List (Option Nat) → Option Nat
  | [] => none
  | none :: r => minOpt r
  | some a :: r => match minOpt r with | none => some a | some b => some (min a b)

/-- the property's common indentation -/
def commonIndent (lines : List MLine) : Nat := (minOpt (lines.map lineIndent)).getD 0

/-- a line with `n` characters removed from the front of its first text, closed by the `"\n"` text -/
def lineWithout (n : Nat) : MLine → List Comp
  | none => [nl]
  | some (.text t, rest) => .text (t.drop n) :: rest ++ [nl]
  | some (.link id, rest) => .link id :: rest ++ [nl]

def sanitizeSpec (lines : List MLine) : Msg := lines.flatMap (lineWithout (commonIndent lines))

/-- canonical form used when two results are compared up to text segmentation: adjacent texts merged, empty dropped -/
def mergeMsg : Msg → Msg
  | [] => []
  | .link id :: r => .link id :: mergeMsg r
  | .text s :: r =>
    match mergeMsg r with
    | .text s' :: r' => .text (s ++ s') :: r'
    | r' => if s.isEmpty then r' else .text s :: r'

def DocC.merged (c : DocC) : DocC :=
  { overview := c.overview.map mergeMsg, params := c.params.map fun (i, m) => (i, mergeMsg m),
    returns := c.returns.map fun (i, m) => (i, mergeMsg m), see := c.see }

/-! ## parser (recursive descent for `grammar.lalrpop`; LR(1) without default reductions, so a helper is
       only *called* when its production is reduced: the look-ahead must be a valid follower) -/

def sepChars : Str := [':', ':']

/-- `get_scoped_identifier_string` -/
def joinScoped (global : Bool) (first : Str) (others : List Str) : Str :=
  (if global then sepChars else []) ++ first ++ others.flatMap (fun o => sepChars ++ o)

/-- `("::" identifier)*` -/
def parseIdTail : List CTok → Option (List Str × List CTok)
  | .dcolon :: .ident s :: rest =>
    match parseIdTail rest with
    | some (v, r) => some (s :: v, r)
    | none => none
  | .dcolon :: _ => none
  | rest => some ([], rest)

/-- `ScopedIdentifier = "::"? identifier ("::" identifier)*` -/
def parseScopedId : List CTok → Option (Str × List CTok)
  | .dcolon :: .ident s :: rest =>
    match parseIdTail rest with
    | some (v, r) => some (joinScoped true s v, r)
    | none => none
  | .ident s :: rest =>
    match parseIdTail rest with
    | some (v, r) => some (joinScoped false s v, r)
    | none => none
  | _ => none

/-- `MessageComponent*` (the caller decides whether zero components are acceptable) -/
def parseComps : Nat → List CTok → Option (List Comp × List CTok)
  | 0, _ => none
  | fuel + 1, .text s :: rest =>
    match parseComps fuel rest with
    | some (cs, r) => some (.text s :: cs, r)
    | none => none
  | fuel + 1, .lbrace :: .kw .LinkKeyword :: rest =>
    match parseScopedId rest with
    | some (id, .rbrace :: rest') =>
      match parseComps fuel rest' with
      | some (cs, r) => some (.link id :: cs, r)
      | none => none
    | _ => none
  | _ + 1, .lbrace :: _ => none
  | _ + 1, rest => some ([], rest)

def startsLine : List CTok → Bool
  | .text _ :: _ => true
  | .lbrace :: _ => true
  | .newline :: _ => true
  | _ => false

/-- `(Message? newline)*`, greedy (a line starts with text, `{` or newline; what may follow does not) -/
def parseLines : Nat → List CTok → Option (List MLine × List CTok)
  | 0, _ => none
  | fuel + 1, toks =>
    if startsLine toks then
      match parseComps (toks.length + 1) toks with
      | some (cs, .newline :: rest) =>
        match parseLines fuel rest with
        | some (ls, r) => some (toMLine cs :: ls, r)
        | none => none
      | _ => none
    else some ([], toks)

def isBlockStart : List CTok → Bool
  | .kw .ParamKeyword :: _ => true
  | .kw .ReturnsKeyword :: _ => true
  | .kw .SeeKeyword :: _ => true
  | _ => false

/-- the look-ahead after a `MessageLines?` / `Section` / block: a block keyword or the real end of input -/
def validFollower (pend : Option CLexErr) (rest : List CTok) : Bool :=
  (rest.isEmpty && pend.isNone) || isBlockStart rest

abbrev Sanitizer := List MLine → Outcome CErr Msg

/-- reduce `MessageLines?` (calling the sanitizer) if the look-ahead allows it -/
def reduceLines (san : Sanitizer) (pend : Option CLexErr) (ls : List MLine) (rest : List CTok) : Outcome CErr (Option Msg) :=
  if validFollower pend rest then
    match ls with
    | [] => .ok none
    | _ :: _ => (san ls).bind fun m => .ok (some m)
  else .err (.malformed pend)

/-- `Section = (":" Message?)? newline MessageLines?` -/
def parseSectionG (san : Sanitizer) (pend : Option CLexErr) (toks : List CTok) : Outcome CErr (Msg × List CTok) :=
  let hdr : Option (Option (List Comp) × List CTok) :=
    match toks with
    | .colon :: rest =>
      match parseComps (rest.length + 1) rest with
      | some (cs, .newline :: r) => some ((match cs with | [] => none | _ => some cs), r)
      | _ => none
    | .newline :: r => some (none, r)
    | _ => none
  match hdr with
  | none => .err (.malformed pend)
  | some (inl, r) =>
    match parseLines (r.length + 1) r with
    | none => .err (.malformed pend)
    | some (ls, rest) =>
      (reduceLines san pend ls rest).bind fun ml => .ok (constructSectionMessage inl ml, rest)

/-- `(ParamBlock | ReturnsBlock | SeeBlock)*` then end of input -/
def parseBlocksG (san : Sanitizer) (pend : Option CLexErr) : Nat → DocC → List CTok → Outcome CErr DocC
  | 0, _, _ => .err (.malformed pend)
  | fuel + 1, c, toks =>
    match toks with
    | [] => match pend with
      | none => .ok c
      | some _ => .err (.malformed pend)
    | .kw .ParamKeyword :: .ident id :: rest =>
      (parseSectionG san pend rest).bind fun (m, r) => parseBlocksG san pend fuel { c with params := c.params ++ [(id, m)] } r
    | .kw .ReturnsKeyword :: .ident id :: rest =>
      (parseSectionG san pend rest).bind fun (m, r) => parseBlocksG san pend fuel { c with returns := c.returns ++ [(some id, m)] } r
    | .kw .ReturnsKeyword :: rest =>
      (parseSectionG san pend rest).bind fun (m, r) => parseBlocksG san pend fuel { c with returns := c.returns ++ [(none, m)] } r
    | .kw .SeeKeyword :: rest =>
      match parseScopedId rest with
      | some (id, .newline :: r) =>
        if validFollower pend r then parseBlocksG san pend fuel { c with see := c.see ++ [id] } r
        else .err (.malformed pend)
      | _ => .err (.malformed pend)
    | _ => .err (.malformed pend)

/-- `DocComment = MessageLines? (ParamBlock | ReturnsBlock | SeeBlock)*` over the lexer's token stream.
    `Lexer::new` panics on an empty comment (the Slice parser never calls it with one). -/
def parseCommentG (san : Sanitizer) (lines : List Str) : Outcome CErr DocC :=
  match lines with
  | [] => .panic "created lexer over an empty comment"
  | _ :: _ =>
    let lx := lexComment lines
    match parseLines (lx.toks.length + 1) lx.toks with
    | none => .err (.malformed lx.err)
    | some (ls, rest) =>
      (reduceLines san lx.err ls rest).bind fun ov =>
        parseBlocksG san lx.err (rest.length + 1) { overview := ov, params := [], returns := [], see := [] } rest

/-- the comment parser as it is -/
def parseComment (lines : List Str) : Outcome CErr DocC := parseCommentG sanitizeMessageLines lines

/-- the comment parser with the indentation rule the property states (`Props/C16.parse_eq_spec`: the same function) -/
def parseCommentSpec (lines : List Str) : Outcome CErr DocC := parseCommentG (fun ls => .ok (sanitizeSpec ls)) lines

/-! ## what the Slice parser does with the result (`parse_doc_comment` in parsers/slice/grammar.rs) -/

inductive LintCode where
  | malformedDocComment | brokenDocLink | incorrectDocComment
  deriving DecidableEq, Repr, Inhabited

def LintCode.str : LintCode → String
  | .malformedDocComment => "MalformedDocComment"
  | .brokenDocLink => "BrokenDocLink"
  | .incorrectDocComment => "IncorrectDocComment"

/-- every lint has default level Warning (`Diagnostic::level` for `DiagnosticKind::Lint`) -/
def lintLevel (_ : LintCode) : String := "W"

/-- the interface between an element and its comment: the element receives `comment` and the diagnostics
    receive `lints`; nothing else of the element (or of any other element) depends on the raw lines -/
structure Attached where
  comment : Option DocC
  lints : List LintCode
  deriving DecidableEq, Repr, Inhabited

/-- `parse_doc_comment`: no lines → no comment; failure → one lint and no comment. A panic would not be caught
    (`Props/C16.attach_total`: with the code's sanitizer there is none). -/
def attachG (san : Sanitizer) (raw : List Str) : Outcome CErr Attached :=
  match raw with
  | [] => .ok ⟨none, []⟩
  | _ :: _ =>
    match parseCommentG san raw with
    | .ok c => .ok ⟨some c, []⟩
    | .err _ => .ok ⟨none, [.malformedDocComment]⟩
    | .panic s => .panic s

def attach (raw : List Str) : Outcome CErr Attached := attachG sanitizeMessageLines raw

/-! ## rendering a structured comment back to `///` line texts -/

/-- split a message into lines at the `"\n"` texts; a trailing unterminated part is kept as a last line -/
def splitLinesAux : List Comp → Msg → List (List Comp)
  | cur, [] => if cur.isEmpty then [] else [cur.reverse]
  | cur, c :: r => if c = nl then cur.reverse :: splitLinesAux [] r else splitLinesAux (c :: cur) r

def splitLines (m : Msg) : List (List Comp) := splitLinesAux [] m

def linkOpen : Str := ['{', '@', 'l', 'i', 'n', 'k', ' ']

def compSrc : Comp → Str
  | .text s => s
  | .link id => linkOpen ++ id ++ ['}']

def lineSrc (ind : Str) (l : List Comp) : Str :=
  match l with
  | [] => []
  | _ :: _ => ind ++ l.flatMap compSrc

def renderMsgLines (ind : Str) (m : Msg) : List Str := (splitLines m).map (lineSrc ind)

/-- a tag's message: a non-empty first line is written after `:` on the tag's own line, the rest as continuation lines -/
def renderSection (ind : Str) (head : Str) (m : Msg) : List Str :=
  match splitLines m with
  | [] => [head]
  | [] :: ls => head :: ([] :: ls).map (lineSrc ind)
  | (c :: cs) :: ls => (head ++ [':'] ++ (c :: cs).flatMap compSrc) :: ls.map (lineSrc ind)

def paramHead : Str := ['@', 'p', 'a', 'r', 'a', 'm', ' ']
def returnsHead : Str := ['@', 'r', 'e', 't', 'u', 'r', 'n', 's']
def seeHead : Str := ['@', 's', 'e', 'e', ' ']

/-- `ind` is put in front of every non-empty overview / continuation line -/
def renderComment (c : DocC) (ind : Str) : List Str :=
  (match c.overview with | none => [] | some m => renderMsgLines ind m) ++
  c.params.flatMap (fun (id, m) => renderSection ind (paramHead ++ id) m) ++
  c.returns.flatMap (fun (id, m) => renderSection ind (returnsHead ++ (match id with | none => [] | some i => ' ' :: i)) m) ++
  c.see.map (fun id => seeHead ++ id)

/-! ## canonical text of a result (what the `comments` engine of the harness prints) -/

def hsStr (s : Str) : String := hexOfString (String.ofList s)

def compS : Comp → String
  | .text s => "t:" ++ hsStr s
  | .link id => "l:" ++ hsStr id

def msgS (m : Msg) : String := "[" ++ ",".intercalate (m.map compS) ++ "]"

def docS (c : DocC) : String :=
  "doc(ov=" ++ (match c.overview with | none => "none" | some m => msgS m) ++
  ";p=[" ++ ",".intercalate (c.params.map fun (i, m) => hsStr i ++ "=" ++ msgS m) ++
  "];r=[" ++ ",".intercalate (c.returns.map fun (i, m) => (match i with | none => "none" | some i => hsStr i) ++ "=" ++ msgS m) ++
  "];s=[" ++ ",".intercalate (c.see.map hsStr) ++ "])"

def outcomeS (o : Outcome CErr DocC) : String :=
  match o with
  | .ok c => docS c
  | .err _ => "malformed"
  | .panic _ => "panic"

def tokS : CTok → String
  | .ident s => "I:" ++ hsStr s
  | .text s => "T:" ++ hsStr s
  | .newline => "NL"
  | .kw .ParamKeyword => "ParamKeyword"
  | .kw .ReturnsKeyword => "ReturnsKeyword"
  | .kw .SeeKeyword => "SeeKeyword"
  | .kw .LinkKeyword => "LinkKeyword"
  | .lbrace => "LB" | .rbrace => "RB" | .colon => "C" | .dcolon => "DC"

def lexErrS : CLexErr → String
  | .unknownSymbol c => "E:UnknownSymbol:" ++ hsStr [c]
  | .unknownTag t => "E:UnknownTag:" ++ hsStr t
  | .missingTag => "E:MissingTag"
  | .unterminatedInlineTag => "E:UnterminatedInlineTag"
  | .incorrectContext t i => "E:IncorrectContextForTag:" ++ hsStr t ++ ":" ++ (if i then "1" else "0")

def lexOutS (o : LexOut) : String :=
  let ts := o.toks.map tokS ++ (match o.err with | some e => [lexErrS e] | none => [])
  if ts.isEmpty then "-" else ",".intercalate ts

end Slicec
