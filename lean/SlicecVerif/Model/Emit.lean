/-
  Model of the diagnostic emitter (C14, snippet geometry also used by C09).
  Mirrors slicec/src/diagnostic_emitter.rs (emit_diagnostics_in_human / _in_json / emit_snippet),
  slicec/src/slice_file.rs (get_snippet, get_highlight; `Span`/`Location` serde derives),
  slicec/src/diagnostics/{mod,diagnostic}.rs (`Note`, `get_totals`, `DiagnosticLevel`).
  Colours are OFF in this model (`console::style(x)` renders as `x`).
  All text is computed as `List Char`; the `String` wrappers at the end are what the driver prints.
  Arithmetic that panics in a build with overflow checks / debug assertions (the harness and the
  `cargo build` binary are such builds) is modelled as `Outcome.panic "<site>"`.
-/
import SlicecVerif.Model.Basic
import SlicecVerif.Gen.EmitFormat

namespace Slicec.Emit

open Slicec

/-! ## data -/

inductive Level where
  | error | warning | allowed
  deriving DecidableEq, Repr, Inhabited

/-- `slice_file::Location` (1-based row / column, columns count characters) -/
structure Loc where
  row : Nat
  col : Nat
  deriving DecidableEq, Repr, Inhabited

/-- `slice_file::Span`; `stop` is the Rust field `end` -/
structure Span where
  start : Loc
  stop : Loc
  file : String
  deriving DecidableEq, Repr, Inhabited

structure Note where
  message : String
  span : Option Span
  deriving DecidableEq, Repr, Inhabited

structure Diag where
  code : String
  message : String
  level : Level
  span : Option Span
  notes : List Note
  deriving DecidableEq, Repr, Inhabited

/-- `SliceFile { relative_path, raw_text }` -/
structure SrcFile where
  path : String
  text : String
  deriving Repr, Inhabited

abbrev Res := Outcome Unit (List Char)

/-- `Diagnostic.level() != Allowed` -/
def notAllowed (d : Diag) : Bool := d.level != .allowed

/-! ## decimal numbers (`usize::to_string`) -/

def digitChar (n : Nat) : Char := Char.ofNat (48 + n)

def decChars (n : Nat) : List Char :=
  if n < 10 then [digitChar n] else decChars (n / 10) ++ [digitChar (n % 10)]
termination_by n
decreasing_by omega

/-! ## serde_json string escaping (`format_escaped_str_contents`, table `ESCAPE`) -/

def escChar (c : Char) : List Char :=
  if c = '"' then ['\\', '"']
  else if c = '\\' then ['\\', '\\']
  else if c = '\x08' then ['\\', 'b']
  else if c = '\x0c' then ['\\', 'f']
  else if c = '\n' then ['\\', 'n']
  else if c = '\r' then ['\\', 'r']
  else if c = '\t' then ['\\', 't']
  else if c.toNat < 0x20 then ['\\', 'u', '0', '0', hexDigit (c.toNat / 16), hexDigit (c.toNat % 16)]
  else [c]

def escChars (cs : List Char) : List Char := cs.flatMap escChar

/-- a JSON string literal -/
def jsonStr (s : String) : List Char := '"' :: (escChars s.toList ++ ['"'])

/-! ## JSON objects: `#[derive(Serialize)]` on Location / Span / Note and the hand-written
    `serialize_struct("Diagnostic", 5)` (key names and their order come from `Gen.EmitFormat`,
    extracted from the Rust source) -/

def key (k : String) : List Char := '"' :: (k.toList ++ ['"', ':'])

def jsonLoc (l : Loc) : List Char :=
  ['{'] ++ key (Gen.locKeys.getD 0 "") ++ decChars l.row ++ [','] ++ key (Gen.locKeys.getD 1 "") ++ decChars l.col ++ ['}']

def jsonSpan (s : Span) : List Char :=
  ['{'] ++ key (Gen.spanKeys.getD 0 "") ++ jsonLoc s.start ++ [','] ++ key (Gen.spanKeys.getD 1 "") ++ jsonLoc s.stop ++ [','] ++
    key (Gen.spanKeys.getD 2 "") ++ jsonStr s.file ++ ['}']

def jsonOptSpan : Option Span → List Char
  | none => ['n', 'u', 'l', 'l']
  | some s => jsonSpan s

def jsonNote (n : Note) : List Char :=
  ['{'] ++ key (Gen.noteKeys.getD 0 "") ++ jsonStr n.message ++ [','] ++ key (Gen.noteKeys.getD 1 "") ++ jsonOptSpan n.span ++ ['}']

/-- elements separated by commas (serde_json's compact formatter) -/
def jsonNotesBody : List Note → List Char
  | [] => []
  | [n] => jsonNote n
  | n :: ns => jsonNote n ++ [','] ++ jsonNotesBody ns

def severity : Level → String
  | .error => Gen.severityError
  | .warning => Gen.severityWarning
  | .allowed => ""

/-- the object written for one non-allowed diagnostic, without the line terminator -/
def jsonObj (d : Diag) : List Char :=
  ['{'] ++ key (Gen.diagKeys.getD 0 "") ++ jsonStr d.message ++ [','] ++
    key (Gen.diagKeys.getD 1 "") ++ jsonStr (severity d.level) ++ [','] ++
    key (Gen.diagKeys.getD 2 "") ++ jsonOptSpan d.span ++ [','] ++
    key (Gen.diagKeys.getD 3 "") ++ (['['] ++ jsonNotesBody d.notes ++ [']']) ++ [','] ++
    key (Gen.diagKeys.getD 4 "") ++ jsonStr d.code ++ ['}']

/-- what `emit_diagnostics_in_json` writes for one diagnostic that is not `Allowed` -/
def jsonLine (d : Diag) : List Char := jsonObj d ++ ['\n']

/-- `emit_diagnostics_in_json`: the loop with `Allowed => continue` -/
def emitJsonChars : List Diag → List Char
  | [] => []
  | d :: ds =>
    match d.level with
    | .allowed => emitJsonChars ds
    | _ => jsonLine d ++ emitJsonChars ds

/-! ## `str::lines()` : split at '\n', strip one '\r' before a stripped '\n', keep an unterminated
    last line (with its '\r' if any); the empty string has no lines -/

/-- `acc` holds the current line reversed -/
def linesAux : List Char → List Char → List (List Char)
  | [], acc => if acc.isEmpty then [] else [acc.reverse]
  | c :: rest, acc =>
    if c = '\n' then
      (match acc with
       | '\r' :: acc' => acc'.reverse
       | _ => acc.reverse) :: linesAux rest []
    else linesAux rest (c :: acc)

def lines (text : List Char) : List (List Char) := linesAux text []

/-! ## snippets (`SliceFile::get_snippet`, `get_highlight`) -/

/-- `format!("{number_string:<line_number_prefix_length$}|")` -/
def gutter (plen : Nat) (num : List Char) : List Char :=
  num ++ List.replicate (plen - num.length) ' ' ++ ['|']

def expandTab (c : Char) : List Char := if c = '\t' then Gen.expandedTab.toList else [c]

/-- `line.replace('\t', EXPANDED_TAB)` -/
def expandTabs (line : List Char) : List Char := line.flatMap expandTab

/-- displayed width of a character: `EXPANDED_TAB.len()` for a tab, 1 otherwise -/
def cw (c : Char) : Nat := if c = '\t' then Gen.expandedTab.length else 1

def widthOf (cs : List Char) : Nat := (cs.map cw).sum

/-- `get_highlight` (colour off). `hs`/`he` are 0-based character offsets in `line`. -/
def getHighlight (line : List Char) (hs he : Nat) : Res :=
  -- `for c in line.chars().take(highlight_start)` starting from 1
  let ws := 1 + widthOf (line.take hs)
  if hs = he then
    .ok (List.replicate (ws - 1) ' ' ++ Gen.pointer.toList)
  else if he < hs then
    .ok (List.replicate ws ' ')   -- `highlight_end.saturating_sub(highlight_start)` = 0: nothing is highlighted (repair of D-14a)
  else
    let tabs := (((line.drop hs).take (he - hs)).filter (· = '\t')).length
    .ok (List.replicate ws ' ' ++ List.replicate ((he - hs) + tabs * (Gen.expandedTab.length - 1)) '-')

/-- the body of the `for (i, line) in lines` loop, over the enumerated lines from index `i` on;
    the `filter` closure is evaluated lazily, line by line, so `start.row - 1` underflows at the first
    line that is looked at. -/
def snippetLines (plen : Nat) (s e : Loc) : Nat → List (List Char) → Res
  | _, [] => .ok []
  | i, line :: rest =>
    if s.row = 0 then .panic "sub:start.row"
    else if s.row - 1 ≤ i ∧ i < e.row then
      let ln := i + 1
      if ln = s.row ∧ s.col = 0 then .panic "sub:start.col"
      else
        let hs := if ln = s.row then s.col - 1 else 0
        if ln = e.row ∧ e.col = 0 then .panic "sub:end.col"
        else
          let he := if ln = e.row then e.col - 1 else line.length
          (getHighlight line hs he).bind fun h =>
          (snippetLines plen s e (i + 1) rest).bind fun r =>
          .ok (gutter plen (decChars ln) ++ [' '] ++ expandTabs line ++ ['\n'] ++ gutter plen [] ++ h ++ ['\n'] ++ r)
    else snippetLines plen s e (i + 1) rest

/-- derived `Ord` of `Location`: by row, then by column -/
def locLe (a b : Loc) : Bool := a.row < b.row || (a.row == b.row && a.col ≤ b.col)

def getSnippet (text : List Char) (s e : Loc) : Res :=
  if !locLe s e then .panic "assert:start<=end"   -- `debug_assert!(start <= end)`
  else
    let plen := (decChars e.row).length + 1
    (snippetLines plen s e 0 (lines text)).bind fun body =>
    .ok (gutter plen [] ++ ['\n'] ++ body ++ gutter plen [])

/-- `emit_snippet`: the ` --> file:row:col` line, then the snippet of the first file whose
    `relative_path` equals the span's file (`.unwrap()`), then a newline. -/
def emitSnippet (files : List SrcFile) (sp : Span) : Res :=
  let header := [' '] ++ Gen.arrow.toList ++ [' '] ++ sp.file.toList ++ [':'] ++ decChars sp.start.row ++ [':'] ++
    decChars sp.start.col ++ ['\n']
  match files.find? (fun f => f.path == sp.file) with
  | none => .panic "unwrap:file"
  | some f => (getSnippet f.text.toList sp.start sp.stop).bind fun sn => .ok (header ++ sn ++ ['\n'])

def emitOptSnippet (files : List SrcFile) : Option Span → Res
  | none => .ok []
  | some sp => emitSnippet files sp

def emitNotes (files : List SrcFile) : List Note → Res
  | [] => .ok []
  | n :: ns =>
    (emitOptSnippet files n.span).bind fun sn =>
    (emitNotes files ns).bind fun r =>
    .ok (Gen.notePrefix.toList ++ [':', ' '] ++ n.message.toList ++ ['\n'] ++ sn ++ r)

def humanPrefix : Level → String
  | .error => Gen.errorPrefix
  | .warning => Gen.warningPrefix
  | .allowed => ""

/-- everything `emit_diagnostics_in_human` writes for one diagnostic that is not `Allowed` -/
def humanBlock (files : List SrcFile) (d : Diag) : Res :=
  (emitOptSnippet files d.span).bind fun sn =>
  (emitNotes files d.notes).bind fun ns =>
  .ok ((humanPrefix d.level).toList ++ [' ', '['] ++ d.code.toList ++ [']', ':', ' '] ++ d.message.toList ++ ['\n'] ++ sn ++ ns)

/-- `emit_diagnostics_in_human`: the loop with `Allowed => continue`; a panic ends everything -/
def emitHumanChars (files : List SrcFile) : List Diag → Res
  | [] => .ok []
  | d :: ds =>
    match d.level with
    | .allowed => emitHumanChars files ds
    | _ =>
      (humanBlock files d).bind fun b =>
      (emitHumanChars files ds).bind fun r => .ok (b ++ r)

/-! ## totals (`get_totals`) and the exit status of `CompilationState::emit_diagnostics` -/

/-- `(total_warnings, total_errors)` -/
def totals : List Diag → Nat × Nat
  | [] => (0, 0)
  | d :: ds =>
    let (w, e) := totals ds
    match d.level with
    | .error => (w, e + 1)
    | .warning => (w + 1, e)
    | .allowed => (w, e)

/-- `total_errors != 0` is what `main` turns into exit status 1 -/
def exitFailure (ds : List Diag) : Bool := (totals ds).2 != 0

/-- `emit_totals` (colour off), written to stdout in human format only -/
def totalsText (w e : Nat) : List Char :=
  (if w > 0 then "Warnings: Compilation generated ".toList ++ decChars w ++ " warning(s)\n".toList else []) ++
  (if e > 0 then "Failed: Compilation failed with ".toList ++ decChars e ++ " error(s)\n".toList else [])

/-! ## String wrappers -/

def jsonEscape (s : String) : String := String.ofList (escChars s.toList)
def emitJsonOne (d : Diag) : String := String.ofList (jsonLine d)
def emitJson (ds : List Diag) : String := String.ofList (emitJsonChars ds)

def emitHuman (files : List SrcFile) (ds : List Diag) : Outcome Unit String :=
  match emitHumanChars files ds with
  | .ok cs => .ok (String.ofList cs)
  | .err e => .err e
  | .panic s => .panic s

/-! ## a reader for the emitted JSON shape -/

def unescSimple (c : Char) : Option Char :=
  if c = '"' then some '"'
  else if c = '\\' then some '\\'
  else if c = '/' then some '/'
  else if c = 'b' then some '\x08'
  else if c = 'f' then some '\x0c'
  else if c = 'n' then some '\n'
  else if c = 'r' then some '\r'
  else if c = 't' then some '\t'
  else none

def hex4 (a b c d : Char) : Option Char :=
  match hexVal a, hexVal b, hexVal c, hexVal d with
  | some x, some y, some z, some w => some (Char.ofNat (((x * 16 + y) * 16 + z) * 16 + w))
  | _, _, _, _ => none

/-- reads the body of a string literal up to its closing quote: (decoded text, rest after the quote).
    Raw control characters are rejected, as JSON requires. (`\u` escapes of surrogate pairs are not
    combined: serde_json never writes them.) -/
def readBody : List Char → Option (List Char × List Char)
  | [] => none
  | c :: rest =>
    if c = '"' then some ([], rest)
    else if c = '\\' then
      match rest with
      | [] => none
      | e :: rest2 =>
        if e = 'u' then
          match rest2 with
          | a :: b :: c2 :: d :: rest3 =>
            match hex4 a b c2 d with
            | some ch => (readBody rest3).map fun p => (ch :: p.1, p.2)
            | none => none
          | _ => none
        else
          match unescSimple e with
          | some ch => (readBody rest2).map fun p => (ch :: p.1, p.2)
          | none => none
    else if c.toNat < 0x20 then none
    else (readBody rest).map fun p => (c :: p.1, p.2)

/-- inverse of `jsonEscape` on its image (the text between the quotes of a JSON string) -/
def readJsonString (t : String) : Option String :=
  match readBody (t.toList ++ ['"']) with
  | some (s, []) => some (String.ofList s)
  | _ => none

abbrev P (α : Type) := List Char → Option (α × List Char)

def expect (lit : List Char) : P Unit := fun cs =>
  if lit.isPrefixOf cs then some ((), cs.drop lit.length) else none

def readStr : P String := fun cs =>
  match cs with
  | '"' :: rest => (readBody rest).map fun p => (String.ofList p.1, p.2)
  | _ => none

def isDigit (c : Char) : Bool := 48 ≤ c.toNat && c.toNat ≤ 57

def readNatAux : Nat → List Char → Nat × List Char
  | acc, [] => (acc, [])
  | acc, c :: rest => if isDigit c then readNatAux (acc * 10 + (c.toNat - 48)) rest else (acc, c :: rest)

/-- one or more digits -/
def readNat : P Nat := fun cs =>
  match cs with
  | c :: _ => if isDigit c then some (readNatAux 0 cs) else none
  | [] => none

def readKey (k : String) : P Unit := expect (key k)

def readLoc : P Loc := fun cs => do
  let (_, cs) ← expect ['{'] cs
  let (_, cs) ← readKey "row" cs
  let (r, cs) ← readNat cs
  let (_, cs) ← expect [','] cs
  let (_, cs) ← readKey "col" cs
  let (c, cs) ← readNat cs
  let (_, cs) ← expect ['}'] cs
  some (⟨r, c⟩, cs)

def readSpan : P Span := fun cs => do
  let (_, cs) ← expect ['{'] cs
  let (_, cs) ← readKey "start" cs
  let (s, cs) ← readLoc cs
  let (_, cs) ← expect [','] cs
  let (_, cs) ← readKey "end" cs
  let (e, cs) ← readLoc cs
  let (_, cs) ← expect [','] cs
  let (_, cs) ← readKey "file" cs
  let (f, cs) ← readStr cs
  let (_, cs) ← expect ['}'] cs
  some (⟨s, e, f⟩, cs)

def readOptSpan : P (Option Span) := fun cs =>
  match cs with
  | 'n' :: 'u' :: 'l' :: 'l' :: rest => some (none, rest)
  | _ => (readSpan cs).map fun p => (some p.1, p.2)

def readNote : P Note := fun cs => do
  let (_, cs) ← expect ['{'] cs
  let (_, cs) ← readKey "message" cs
  let (m, cs) ← readStr cs
  let (_, cs) ← expect [','] cs
  let (_, cs) ← readKey "span" cs
  let (s, cs) ← readOptSpan cs
  let (_, cs) ← expect ['}'] cs
  some (⟨m, s⟩, cs)

/-- the notes after the opening bracket, up to and including the closing one; `fuel` bounds the
    number of elements (the input length is always enough) -/
def readNotesTail : Nat → P (List Note)
  | 0 => fun _ => none
  | fuel + 1 => fun cs => do
    let (n, cs) ← readNote cs
    match cs with
    | ']' :: rest => some ([n], rest)
    | ',' :: rest => (readNotesTail fuel rest).map fun p => (n :: p.1, p.2)
    | _ => none

def readNotes : P (List Note) := fun cs =>
  match cs with
  | '[' :: ']' :: rest => some ([], rest)
  | '[' :: rest => readNotesTail rest.length rest
  | _ => none

/-- what a consumer of the JSON stream gets from one line -/
structure JsonDiag where
  message : String
  severity : String
  span : Option Span
  notes : List Note
  errorCode : String
  deriving DecidableEq, Repr

def readDiagChars : P JsonDiag := fun cs => do
  let (_, cs) ← expect ['{'] cs
  let (_, cs) ← readKey "message" cs
  let (m, cs) ← readStr cs
  let (_, cs) ← expect [','] cs
  let (_, cs) ← readKey "severity" cs
  let (sv, cs) ← readStr cs
  let (_, cs) ← expect [','] cs
  let (_, cs) ← readKey "span" cs
  let (sp, cs) ← readOptSpan cs
  let (_, cs) ← expect [','] cs
  let (_, cs) ← readKey "notes" cs
  let (ns, cs) ← readNotes cs
  let (_, cs) ← expect [','] cs
  let (_, cs) ← readKey "error_code" cs
  let (code, cs) ← readStr cs
  let (_, cs) ← expect ['}'] cs
  some (⟨m, sv, sp, ns, code⟩, cs)

/-- parses one emitted line (with its terminating newline): exactly the five keys, in order, and
    nothing else on the line -/
def readDiagLine (line : String) : Option JsonDiag :=
  match readDiagChars line.toList with
  | some (d, ['\n']) => some d
  | _ => none

end Slicec.Emit
