/-
  Model of input-file resolution (C17): `slicec/src/utils/file_util.rs` (`find_slice_files`,
  `find_slice_files_in_path`, `find_slice_files_in_directory`, `remove_duplicate_file_paths`,
  `resolve_files_from`, `FilePath`) and the gate of `compile_from_options` in `slicec/src/lib.rs`.

  Two layers.

  * The functions of `file_util.rs` are written over an ABSTRACT environment `FsEnv P C`
    (`P` = paths as the user / the directory walk spells them, `C` = canonical paths, i.e. what
    `Path::canonicalize` returns) that offers exactly the operating-system queries the Rust code makes:
    `exists`, `is_file`, `is_dir`, `read_dir`, `canonicalize`, `read_to_string` succeeds, plus the pure
    `Path::extension() == "slice"` test.  The theorems of `Props/C17.lean` hold for EVERY such
    environment (no law about the file system is needed for them), so they quantify over all file systems,
    including ones with symlink cycles or with files that change kind between two queries.
  * A concrete file system as a finite tree value `FsNode` (files with readable / unreadable content,
    directories, symbolic links with relative or absolute targets) from which an `FsEnv` is derived by a
    kernel-style path walk (`fsResolve`: `.`, `..`, empty components, symlink expansion, ENOENT, ENOTDIR).
    The driver uses it to compute the expected observation of each generated scenario.

  Fuel.  `fsResolve` and the directory walk are not structurally recursive (a link re-expands the path, a
  link to a directory re-enters the tree), so both take a fuel argument.  Running out of fuel in `fsResolve`
  is the model's `ELOOP` (the path "does not exist"); running out of fuel in the walk yields no files for
  that subtree.  Well-foundedness assumption of the correspondence: generated trees contain no symlink
  cycle (a link to a directory never points to a directory whose subtree contains, or will contain, a link
  to a directory) and stay below depth 10, so neither bound is ever reached (`resolveFuel`, `walkFuel`);
  if the assumption were broken the model would list FEWER files than the code and a DIFF would appear.

  Not modelled: `read_dir` failing on a path that `is_dir` accepted and per-entry `read_dir` errors (both
  need permission bits, which do not bind root, or a race); special files (FIFOs, devices).  The abstract
  layer does cover a failing `read_dir` (`readDir = none` → E001).
-/
import SlicecVerif.Model.Basic

namespace Slicec

/-! ## abstract layer: what `file_util.rs` does, over any file system -/

/-- diagnostic codes this component can produce: `Error::IO` (E001) and the lint `DuplicateFile` -/
inductive FCode where
  | io
  | duplicateFile
  deriving DecidableEq, Repr

def FCode.code : FCode → String
  | .io => "E001"
  | .duplicateFile => "DuplicateFile"

/-- a reported diagnostic: its code and the path it names (`path:` field of the Rust diagnostic) -/
structure FDiag (P : Type) where
  code : FCode
  path : P
  deriving Repr

/-- `Diagnostics::has_errors`: only `Error::IO` is an error, `DuplicateFile` is a lint (warning) -/
def FDiag.isError {P} (d : FDiag P) : Bool := d.code == .io

/-- the operating-system queries made by `file_util.rs` -/
structure FsEnv (P C : Type) where
  /-- `Path::exists` (follows symbolic links; any error is `false`) -/
  pathExists : P → Bool
  /-- `Path::is_file` (follows symbolic links) -/
  isFile : P → Bool
  /-- `Path::is_dir` (follows symbolic links) -/
  isDir : P → Bool
  /-- `is_slice_file`: `Path::extension()` of the SPELLED path is `slice` -/
  isSlice : P → Bool
  /-- `Path::read_dir` then `child.path()` of every entry; `none` = the call failed -/
  readDir : P → Option (List P)
  /-- `Path::canonicalize`; `none` = it failed -/
  canon : P → Option C
  /-- `fs::read_to_string` succeeds (exists, readable, valid UTF-8) -/
  readOk : P → Bool

/-- Rust `FilePath`: spelled path, canonical path, source flag.  Rust's `PartialEq` compares `canon` only. -/
structure FilePath (P C : Type) where
  path : P
  canon : C
  isSource : Bool
  deriving Repr

section
variable {P C : Type}

def ioErr (p : P) : FDiag P := ⟨.io, p⟩
def dupWarn (p : P) : FDiag P := ⟨.duplicateFile, p⟩

/-- `find_slice_files_in_path` / `find_slice_files_in_directory` (mutually recursive in Rust):
    a directory is listed and every child visited; a file with the `slice` extension is kept; everything
    else (other files, dangling links, special files) is ignored.  A failing `read_dir` is one E001 on
    the directory. -/
def walkFiles (env : FsEnv P C) : Nat → P → List P × List (FDiag P)
  | 0, _ => ([], [])
  | fuel + 1, p =>
    if env.isDir p then
      match env.readDir p with
      | some children =>
        let rs := children.map (walkFiles env fuel)
        (rs.flatMap (·.1), rs.flatMap (·.2))
      | none => ([], [ioErr p])
    else if env.isFile p && env.isSlice p then ([p], [])
    else ([], [])

/-- one iteration of the `for path in paths` loop of `find_slice_files` (guards in the Rust order) -/
def findStep (env : FsEnv P C) (fuel : Nat) (allowDirectories : Bool) (p : P) : List P × List (FDiag P) :=
  if !env.pathExists p then ([], [ioErr p])
  else if env.isFile p && !env.isSlice p then ([], [ioErr p])
  else if env.isDir p && !allowDirectories then ([], [ioErr p])
  else walkFiles env fuel p

/-- `FilePath::try_create` applied to every discovered path: kept with its canonical path, or E001 -/
def createAll (env : FsEnv P C) (isSource : Bool) (found : List P) : List (FilePath P C) × List (FDiag P) :=
  (found.filterMap (fun p => (env.canon p).map (fun c => ⟨p, c, isSource⟩)),
   found.filterMap (fun p => if (env.canon p).isNone then some (ioErr p) else none))

/-- the paths discovered for one argument list, before canonicalisation -/
def discovered (env : FsEnv P C) (fuel : Nat) (paths : List P) (areSourceFiles : Bool) : List P :=
  paths.flatMap (fun p => (findStep env fuel (!areSourceFiles) p).1)

/-- `find_slice_files(paths, are_source_files, diagnostics)` -/
def findSliceFiles (env : FsEnv P C) (fuel : Nat) (paths : List P) (areSourceFiles : Bool) :
    List (FilePath P C) × List (FDiag P) :=
  let d1 := paths.flatMap (fun p => (findStep env fuel (!areSourceFiles) p).2)
  let cr := createAll env areSourceFiles (discovered env fuel paths areSourceFiles)
  (cr.1, d1 ++ cr.2)

variable [DecidableEq C]

/-- the loop of `remove_duplicate_file_paths`: `deduped.contains(&file_path)` compares canonical paths;
    a repeat is dropped with one `DuplicateFile` lint naming the repeated spelling -/
def removeDupLoop : List (FilePath P C) → List (FilePath P C) → List (FDiag P) → List (FilePath P C) × List (FDiag P)
  | [], deduped, diags => (deduped, diags)
  | f :: fs, deduped, diags =>
    if f.canon ∈ deduped.map (·.canon) then removeDupLoop fs deduped (diags ++ [dupWarn f.path])
    else removeDupLoop fs (deduped ++ [f]) diags

def removeDuplicates (l : List (FilePath P C)) : List (FilePath P C) × List (FDiag P) := removeDupLoop l [] []

/-- the `for reference_file in …` loop of `resolve_files_from`: a reference whose canonical path is already in
    `file_paths` (sources, then the references pushed so far) is silently omitted -/
def mergeReferences (filePaths : List (FilePath P C)) (refs : List (FilePath P C)) : List (FilePath P C) :=
  refs.foldl (fun acc r => if r.canon ∈ acc.map (·.canon) then acc else acc ++ [r]) filePaths

/-- outcome of `resolve_files_from` -/
structure ResolvedFiles (P C : Type) where
  /-- `file_paths` before the files are read: de-duplicated sources, then the remaining references -/
  filePaths : List (FilePath P C)
  /-- the returned `Vec<SliceFile>`: the entries of `filePaths` whose content could be read -/
  files : List (FilePath P C)
  /-- everything pushed into `diagnostics` -/
  diags : List (FDiag P)

/-- `resolve_files_from(options, diagnostics)` -/
def resolveFilesFrom (env : FsEnv P C) (fuel : Nat) (sources references : List P) : ResolvedFiles P C :=
  let sf := findSliceFiles env fuel sources true
  let sd := removeDuplicates sf.1
  let rf := findSliceFiles env fuel references false
  let rd := removeDuplicates rf.1
  let filePaths := mergeReferences sd.1 rd.1
  { filePaths := filePaths
    files := filePaths.filter (fun f => env.readOk f.path)
    diags := sf.2 ++ sd.2 ++ rf.2 ++ rd.2 ++
      (filePaths.filter (fun f => !env.readOk f.path)).map (fun f => ioErr f.path) }

/-- observable outcome of `compile_from_options` as far as this property goes -/
structure CompiledFiles (P C : Type) where
  /-- `state.files` -/
  files : List (FilePath P C)
  /-- `state.diagnostics` after file resolution -/
  diags : List (FDiag P)
  /-- the files handed to `parsers::parse_files` (none when `has_errors()`) -/
  parsed : List (FilePath P C)

/-- `compile_from_options`: resolve, then parse only `if !state.diagnostics.has_errors()` -/
def compileFromOptions (env : FsEnv P C) (fuel : Nat) (sources references : List P) : CompiledFiles P C :=
  let r := resolveFilesFrom env fuel sources references
  { files := r.files, diags := r.diags, parsed := if r.diags.any FDiag.isError then [] else r.files }

end

/-! ## concrete layer: a file system as a finite tree -/

/-- a file-system object.  `file ok`: regular file, `ok = false` when its content is not valid UTF-8
    (so `read_to_string` fails); `dir`: entries in `read_dir` order; `link`: symbolic link whose target is
    the given component list, absolute (from the scenario root) or relative to the link's directory. -/
inductive FsNode where
  | file (ok : Bool)
  | dir (entries : List (String × FsNode))
  | link (abs : Bool) (target : List String)

instance : Inhabited FsNode := ⟨.file true⟩

/-- a path as spelled: the components between `/` (kept verbatim, including `.`, `..` and empty ones);
    `abs`: spelled absolutely, i.e. `<scenario root>/<components>` -/
structure SPath where
  abs : Bool
  comps : List String
  deriving DecidableEq, Repr, Inhabited

/-- canonical path: real names from the scenario root, no `.`, `..`, links -/
abbrev CPath := List String

def lookupEntry (es : List (String × FsNode)) (n : String) : Option FsNode :=
  (es.find? (fun e => e.1 == n)).map (·.2)

def FsNode.child : FsNode → String → Option FsNode
  | .dir es, n => lookupEntry es n
  | _, _ => none

/-- the object at a canonical path (links are NOT followed) -/
def FsNode.get (root : FsNode) : CPath → Option FsNode
  | [] => some root
  | c :: cs =>
    match root.child c with
    | some n => n.get cs
    | none => none

/-- kernel path walk from directory `cur` over the remaining components.  Every step needs `cur` to be a
    directory (else ENOTDIR), `.`/empty stay, `..` goes to the parent (above the scenario root = outside the
    model = not found), a name is looked up (ENOENT), a link is replaced by its target (relative to `cur`, or
    from the root) followed by the rest.  `none` = the path cannot be resolved. -/
def fsResolve (root : FsNode) : Nat → CPath → List String → Option CPath
  | 0, _, _ => none
  | _ + 1, cur, [] => some cur
  | fuel + 1, cur, c :: rest =>
    match root.get cur with
    | some (.dir es) =>
      if c == "" || c == "." then fsResolve root fuel cur rest
      else if c == ".." then
        (if cur.isEmpty then none else fsResolve root fuel cur.dropLast rest)
      else
        match lookupEntry es c with
        | none => none
        | some (.link abs tgt) => fsResolve root fuel (if abs then [] else cur) (tgt ++ rest)
        | some _ => fsResolve root fuel (cur ++ [c]) rest
    | _ => none

def resolveFuel : Nat := 400
def walkFuel : Nat := 40

/-- `canonicalize` of a spelled path; the empty relative path does not exist (ENOENT) -/
def FsNode.canon (root : FsNode) (p : SPath) : Option CPath :=
  if !p.abs && p.comps.all (· == "") then none else fsResolve root resolveFuel [] p.comps

def FsNode.stat (root : FsNode) (p : SPath) : Option FsNode := (root.canon p).bind root.get

/-- split a file name at its last dot: `(before, after)` -/
def splitLastDot (cs : List Char) : Option (List Char × List Char) :=
  match cs.reverse.span (· != '.') with
  | (revAfter, _ :: revBefore) => some (revBefore.reverse, revAfter.reverse)
  | (_, []) => none

/-- `Path::extension` on a file name: none for `..`, for names without a dot and for names whose only dot
    is the first character -/
def extensionOf (name : String) : Option String :=
  if name == ".." then none
  else match splitLastDot name.toList with
    | some (before, after) => if before.isEmpty then none else some (String.ofList after)
    | none => none

/-- `Path::file_name`: the last component after dropping empty and `.` components, unless it is `..` -/
def SPath.fileName (p : SPath) : Option String :=
  match (p.comps.filter (fun c => c != "" && c != ".")).getLast? with
  | some n => if n == ".." then none else some n
  | none => none

def SPath.isSlice (p : SPath) : Bool :=
  match p.fileName with
  | some n => extensionOf n == some "slice"
  | none => false

/-- `PathBuf::join` with one more component (`child.path()` of a directory entry) -/
def SPath.join (p : SPath) (n : String) : SPath := { p with comps := p.comps ++ [n] }

def FsNode.entryNames : FsNode → List String
  | .dir es => es.map (·.1)
  | _ => []

/-- the environment a tree presents to `file_util.rs` (current directory = scenario root) -/
def FsNode.toEnv (root : FsNode) : FsEnv SPath CPath where
  pathExists p := (root.stat p).isSome
  isFile p := match root.stat p with | some (.file _) => true | _ => false
  isDir p := match root.stat p with | some (.dir _) => true | _ => false
  isSlice p := p.isSlice
  readDir p := match root.stat p with
    | some (.dir es) => some (es.map (fun e => p.join e.1))
    | _ => none
  canon p := root.canon p
  readOk p := match root.stat p with | some (.file ok) => ok | _ => false

/-- insert an object at a canonical path whose parent directory exists -/
def FsNode.insert : FsNode → CPath → FsNode → FsNode
  | .dir es, [n], x => .dir (es ++ [(n, x)])
  | .dir es, n :: rest, x => .dir (es.map (fun e => if e.1 == n then (e.1, e.2.insert rest x) else e))
  | t, _, _ => t

def SPath.toString (p : SPath) : String := (if p.abs then "/" else "") ++ "/".intercalate p.comps

end Slicec
