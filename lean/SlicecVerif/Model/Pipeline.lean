/-
  The complete verdict of the compiler front end on the abstract syntax: `validateFull : Program → List String`.

  `validate` (Model/Validate.lean, property C04) is the phase pipeline of the compiler WITHOUT three checks that its
  generated families never exercised; each of them rejects programs `validate` accepts:

    1. parse time, `construct_interface` / `construct_enum` (parsers/slice/grammar.rs, `report_type_mismatch`): a base
       interface that is not written as a name (`interface I : bool {}`, `interface I : Sequence<bool> {}`) and an enum
       underlying type that is an anonymous type (`enum E : Sequence<bool> { A }`) are reported with E017 by the PARSER
       ACTION. Like every diagnostic of a parser action it makes `parse_slice_file` return `Err` (`implement_parse_function!`:
       `Ok(value)` only if `!diagnostics.has_errors()`), so the file's "module declaration is required" check is not reached.
       (`enum E : string` passes the parser: E009 comes from the visitor; `enum E : uint8?`: E007 from the visitor;
       `interface I : J?` is accepted.)
    2. the alias gate, first loop of `validators/cycle_detection.rs::detect_cycles`: `typealias A = Sequence<A>` → E019, one per
       alias from which a cycle of anonymous types is reached; `if diagnostics.has_errors() { return; }` — a phase of its own
       AFTER type-reference patching (a program with a resolution error only gets that error: `CompilationState::apply`) and
       BEFORE the inheritance / containment checks. Model: `Cyc.aliasGateErrors` (property C05).
    3. `check_interface_for_inheritance_cycles` (same function, second loop): `interface I : I {}` → E032 `InfiniteSizeCycle`,
       one per interface that reaches itself through base references. It does NOT return: the containment detector runs in the
       same phase and both sets of E032 are reported together. Model: `Cyc.ifaceLoopErrors (Cyc.igraphOfProgram P)` (C05).

  Phases, in the compiler's order (`lib.rs::compile_files`, `parsers::parse_files`, `patchers::patch_ast`,
  `validators::validate_ast`; each later phase only if nothing was reported so far):

    parse (per file; actions incl. E017 of 1; module check only for a file whose actions reported nothing)
    → attribute patching → type-reference patching → alias gate (2) → inheritance + containment cycles (3 + C04's gate)
    → redefinitions → validating visitor.

  Everything else is `validate`'s: the phase functions are reused, nothing is redefined. C05's model reports chains and
  positions; here they are projected to codes (one code per diagnostic).

  `WellFormedFull` is the specification: `WellFormed` plus the three rules stated declaratively (`ShapeOK`, `NoAliasLoop`,
  `NoInheritanceLoop` — reachability in the graphs, not "the check returns nothing"). Props/C04.lean proves
  `validateFull P = [] ↔ WellFormedFull P`.
-/
import SlicecVerif.Model.Validate
import SlicecVerif.Model.Cycles

namespace Slicec.Validate

open Slicec

/-! ## phase 1: the parser actions that look at bases and underlying types -/

/-- written as a name (`A`, `A::B`, `::A`): the parser leaves the reference unpatched and `downcast` always succeeds -/
def tyIsName : TyExpr → Bool
  | .named _ => true
  | _ => false

/-- a sequence, dictionary or result type: the parser binds the reference to the anonymous type at once -/
def tyIsAnonymous : TyExpr → Bool
  | .seq _ | .dict _ _ | .result _ _ => true
  | _ => false

/-- `construct_interface`: one E017 (expected 'interface') for every base that is a primitive or an anonymous type —
    `base.downcast::<Interface>()` fails exactly on a reference the parser already patched;
    `construct_enum`: E017 (expected 'primitive') for an underlying type that is an anonymous type —
    `type_ref.downcast::<Primitive>()` succeeds on names (unpatched) and on primitives. The `?` is not looked at. -/
def defShapeCodes : Def → List String
  | .iface _ _ _ bases _ => (bases.filter fun b => !tyIsName b.ty).map fun _ => code "TypeMismatch"
  | .enum _ _ _ _ _ (some u) _ => if tyIsAnonymous u.ty then [code "TypeMismatch"] else []
  | _ => []

def fileShapeCodes (f : SFile) : List String := f.defs.flatMap defShapeCodes

/-- all diagnostics of the parser actions of one file -/
def fileActionCodesFull (f : SFile) : List String := fileActionCodes f ++ fileShapeCodes f

/-- `parse_file`: the module check is only reached when the parser returned `Ok` (no action reported an error) -/
def fileParseCodesFull (f : SFile) : List String :=
  let e := fileActionCodesFull f
  if e.isEmpty then moduleCheck f else e

def parseCodesFull (P : Program) : List String := P.flatMap fileParseCodesFull

/-- the rule, declaratively: every base of an interface is written as a name, no underlying type of an enum is written as a
    sequence, dictionary or result type -/
def DefShapeOK : Def → Prop
  | .iface _ _ _ bases _ => ∀ b ∈ bases, ∃ id, b.ty = .named id
  | .enum _ _ _ _ _ (some u) _ => (∀ e, u.ty ≠ .seq e) ∧ (∀ k v, u.ty ≠ .dict k v) ∧ (∀ s f, u.ty ≠ .result s f)
  | _ => True

def ShapeOK (P : Program) : Prop := ∀ f ∈ P, ∀ d ∈ f.defs, DefShapeOK d

/-- the same rule as a Boolean (used by the driver's oracle and to decide `ShapeOK`) -/
def defShapeB : Def → Bool
  | .iface _ _ _ bases _ => bases.all fun b => tyIsName b.ty
  | .enum _ _ _ _ _ (some u) _ => !tyIsAnonymous u.ty
  | _ => true

def shapeB (P : Program) : Bool := P.all fun f => f.defs.all defShapeB

/-! ## phase 4a: the alias gate; phase 4b: inheritance and containment cycles -/

/-- first loop of `detect_cycles`: one E019 per alias `revisits_anonymous_type` answers true for -/
def aliasGateCodes (P : Program) : List String :=
  (Cyc.aliasGateErrors P).map fun _ => code "SelfReferentialTypeAliasNeedsConcreteType"

/-- second loop of `detect_cycles`: one E032 per interface that inherits from itself -/
def inheritCodes (P : Program) : List String :=
  (Cyc.ifaceLoopErrors (Cyc.igraphOfProgram P)).map fun _ => code "InfiniteSizeCycle"

/-- the rest of `detect_cycles` is one phase: the interface check does not return, the containment detector runs after it and
    `validate_ast` looks at `has_errors()` only when `detect_cycles` is back -/
def cyclePhaseCodes (P : Program) : List String := inheritCodes P ++ cycleRule.codes P

/-- the alias rule, declaratively: no alias definition leads into a cycle of anonymous types — in the graph of the anonymous
    types written in alias definitions (`Cyc.anonGraph`: the children of a sequence / dictionary / result are the anonymous
    types its element / key, value / success, failure references denote, aliases being transparent), no node that lies on a
    cycle is the type an alias denotes or can be reached from it -/
def NoAliasLoop (P : Program) : Prop :=
  ∀ a x, (Cyc.anonGraph P).2.getD a none = some x →
    ∀ y, (y = x ∨ Cyc.EReach (Cyc.igEdges (Cyc.anonGraph P).1) x y) → ¬ Cyc.EReach (Cyc.igEdges (Cyc.anonGraph P).1) y y

/-- the inheritance rule, declaratively: no interface reaches itself through one or more base references -/
def NoInheritanceLoop (P : Program) : Prop := ∀ i, ¬ Cyc.EReach (Cyc.igEdges (Cyc.igraphOfProgram P)) i i

/-! ## the whole pipeline -/

def phasesFull (P : Program) : List (List String) :=
  [parseCodesFull P, attrPatchRule.codes P, resolveRule.codes P, aliasGateCodes P, cyclePhaseCodes P, namesRule.codes P,
   (visitorRules Gen.unvisitedTypeRefAttrsValidated).flatMap (·.codes P)]

end Slicec.Validate

namespace Slicec

open Slicec.Validate

/-- the error codes the compiler reports for `P` — every phase of the front end (as a list; compared as a set) -/
def validateFull (P : Program) : List String := firstNonEmpty (phasesFull P)

/-- the specification of the whole front end: every language rule of C04's `WellFormed`, bases and underlying types written
    in a form that can denote an interface resp. a primitive, no alias that contains itself through an anonymous type, no
    interface that inherits from itself -/
def WellFormedFull (P : Program) : Prop := WellFormed P ∧ ShapeOK P ∧ NoAliasLoop P ∧ NoInheritanceLoop P

/-- `code` is the diagnostic of a rule of the full specification that `P` actually violates -/
def ViolatesFull (c : String) (P : Program) : Prop :=
  Violates c P ∨ (c = code "TypeMismatch" ∧ ¬ ShapeOK P) ∨
  (c = code "SelfReferentialTypeAliasNeedsConcreteType" ∧ ¬ NoAliasLoop P) ∨ (c = code "InfiniteSizeCycle" ∧ ¬ NoInheritanceLoop P)

end Slicec
