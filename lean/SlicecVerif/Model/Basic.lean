/-
  Shared basics for every model: bytes, hex transport encoding, outcomes, PRNG.
  Core Lean only (no Mathlib, no Std) so that the driver links as a native executable.
-/
namespace Slicec

abbrev Bytes := List UInt8

/-- Result of a modelled operation: a value, a reported error, or a crash at a named site. -/
inductive Outcome (ε α : Type) where
  | ok (a : α)
  | err (e : ε)
  | panic (site : String)
  deriving Repr, DecidableEq

namespace Outcome
def isPanic {ε α} : Outcome ε α → Bool
  | .panic _ => true
  | _ => false
def bind {ε α β} (x : Outcome ε α) (f : α → Outcome ε β) : Outcome ε β :=
  match x with
  | .ok a => f a
  | .err e => .err e
  | .panic s => .panic s
end Outcome

/-! ## Hex transport -/

def hexDigit (n : Nat) : Char :=
  if n < 10 then Char.ofNat (48 + n) else Char.ofNat (87 + n)

def hexByte (b : UInt8) : List Char := [hexDigit (b.toNat / 16), hexDigit (b.toNat % 16)]

def hexOfBytes (bs : Bytes) : String := String.ofList (bs.flatMap hexByte)

def hexVal (c : Char) : Option Nat :=
  if '0' ≤ c ∧ c ≤ '9' then some (c.toNat - 48)
  else if 'a' ≤ c ∧ c ≤ 'f' then some (c.toNat - 87)
  else if 'A' ≤ c ∧ c ≤ 'F' then some (c.toNat - 55)
  else none

def bytesOfHexAux : List Char → Option Bytes
  | [] => some []
  | a :: b :: rest =>
    match hexVal a, hexVal b, bytesOfHexAux rest with
    | some x, some y, some r => some (UInt8.ofNat (16 * x + y) :: r)
    | _, _, _ => none
  | [_] => none

/-- `-` stands for the empty byte string so that a field is never empty. -/
def bytesOfHex (s : String) : Option Bytes :=
  if s == "-" then some [] else bytesOfHexAux s.toList

def hexField (bs : Bytes) : String := if bs.isEmpty then "-" else hexOfBytes bs

def hexOfString (s : String) : String := hexField s.toUTF8.toList

def stringOfHex (s : String) : Option String := do
  let bs ← bytesOfHex s
  String.fromUTF8? ⟨bs.toArray⟩

/-! ## PRNG (xorshift64*) : every random choice of a run derives from one state -/

structure Rng where
  s : UInt64

namespace Rng
def mk' (seed : Nat) : Rng :=
  let z : UInt64 := UInt64.ofNat (seed * 0x9E3779B97F4A7C15 + 0x2545F4914F6CDD1D)
  ⟨if z == 0 then 88172645463325252 else z⟩

def next (r : Rng) : UInt64 × Rng :=
  let x := r.s
  let x := x ^^^ (x >>> 12)
  let x := x ^^^ (x <<< 25)
  let x := x ^^^ (x >>> 27)
  (x * 0x2545F4914F6CDD1D, ⟨x⟩)

/-- uniform-ish value in `[0, n)`; `0` when `n = 0`. -/
def below (r : Rng) (n : Nat) : Nat × Rng :=
  let (v, r) := r.next
  (if n == 0 then 0 else v.toNat % n, r)

def pick {α} [Inhabited α] (r : Rng) (xs : List α) : α × Rng :=
  let (i, r) := r.below xs.length
  (xs.getD i default, r)
end Rng

/-! ## small utilities -/

def natField (s : String) : Option Nat := s.toNat?
def intField (s : String) : Option Int := s.toInt?

end Slicec
