/-
  Model of `fn plugin_parser` (slicec/src/slice_options.rs): the value parser of the `--generator` option (short `-G`).

  * `scan` mirrors the `while let Some(c) = char_iter.next()` loop, arm by arm and in the same order:
    escape arm with its one-character look-ahead, argument-separator arm with its "more characters
    follow" test, key/value-separator arm matched against the state, default arm.
    The Rust keeps `state` and a `string_buffer` reference that always points at the path (state `Path`),
    at the key of the last pair (`Key`) or at the value of the last pair (`Value`); `PSt` carries the
    state together with the buffer it designates: the finished pairs `done` and the open pair `k`/`v`
    (so `plugin_args = done ++ [(k, v)]`), which is why `last_mut().unwrap()` has no failing case here.
    `String::push` / `Vec::push` are appends at the end.
  * `pluginParser` = `scan` from the empty path, then the three `trim()`s and the two emptiness checks
    in the order of the Rust code.
  * the lexical table (escape character, escapable set, the two separators) is `Gen.PluginSpec`,
    regenerated from the source on every check.
  * `escape`/`render` are the *writer* the property talks about; `specParser` is an independent
    multi-pass reference parser with the syntax written out (no table): tokenise (un-escape), drop
    one trailing comma, split at commas, split each argument at its first `=`.
  Everything lives in `namespace Slicec.PluginSpec` (generic names such as `render`, `trim`, `Tok`).
  Core Lean only.
-/
import SlicecVerif.Model.Basic
import SlicecVerif.Gen.PluginSpec

namespace Slicec.PluginSpec

/-- one `(key, value)` argument -/
abbrev Arg := List Char × List Char

/-- the three `return Err(..)` sites of `plugin_parser` -/
inductive PErr where
  | secondEq      -- "'=' can only appear once per argument"
  | missingPath   -- "missing plugin path"
  | missingKey    -- "missing argument key"
  deriving Repr, DecidableEq

/-! ## Unicode `White_Space` and `str::trim` -/

/-- `char::is_whitespace`: the 25 code points with the `White_Space` property -/
def isWs (c : Char) : Bool :=
  let n := c.toNat
  (0x09 ≤ n && n ≤ 0x0D) || n == 0x20 || n == 0x85 || n == 0xA0 || n == 0x1680 ||
  (0x2000 ≤ n && n ≤ 0x200A) || n == 0x2028 || n == 0x2029 || n == 0x202F || n == 0x205F || n == 0x3000

def trimStart (l : List Char) : List Char := l.dropWhile isWs

def trimEnd (l : List Char) : List Char := (l.reverse.dropWhile isWs).reverse

/-- `str::trim` -/
def trim (l : List Char) : List Char := trimEnd (trimStart l)

def trimArg (a : Arg) : Arg := (trim a.1, trim a.2)

/-! ## the parser -/

/-- `matches!(char_iter.peek(), Some(',' | '='))`, alternatives from the source -/
def isEscapable (c : Char) : Bool := Gen.pluginEscapable.contains c

/-- `state` + the buffer `string_buffer` points at -/
inductive PSt where
  | path (p : List Char)
  | key (p : List Char) (done : List Arg) (k : List Char)
  | value (p : List Char) (done : List Arg) (k v : List Char)
  deriving Repr, DecidableEq

namespace PSt

/-- `string_buffer.push(c)` -/
def push : PSt → Char → PSt
  | .path p, c => .path (p ++ [c])
  | .key p d k, c => .key p d (k ++ [c])
  | .value p d k v, c => .value p d k (v ++ [c])

/-- `plugin_args.push(Default::default()); string_buffer = &mut last.0; state = State::Key` -/
def newArg : PSt → PSt
  | .path p => .key p [] []
  | .key p d k => .key p (d ++ [(k, [])]) []
  | .value p d k v => .key p (d ++ [(k, v)]) []

/-- `(plugin_path, plugin_args)` when the loop ends -/
def fin : PSt → List Char × List Arg
  | .path p => (p, [])
  | .key p d k => (p, d ++ [(k, [])])
  | .value p d k v => (p, d ++ [(k, v)])

end PSt

/-- the `while let Some(c) = char_iter.next() { match c { … } }` loop -/
def scan (st : PSt) : List Char → Except PErr PSt
  | [] => .ok st
  | c :: rest =>
    if c = Gen.pluginEscapeChar then
      -- `'\\' if matches!(char_iter.peek(), Some(',' | '='))`; otherwise falls through to `_`
      match rest with
      | n :: rest' => if isEscapable n then scan (st.push n) rest' else scan (st.push c) (n :: rest')
      | [] => .ok (st.push c)
    else if c = Gen.pluginArgSep then
      -- `if char_iter.peek().is_some() { … }`: a separator that is the last character is ignored
      if rest.isEmpty then scan st rest else scan st.newArg rest
    else if c = Gen.pluginKvSep then
      match st with
      | .path _ => scan (st.push Gen.pluginKvSep) rest
      | .key p d k => scan (.value p d k []) rest
      | .value _ _ _ _ => .error .secondEq
    else scan (st.push c) rest

/-- trims and emptiness checks after the loop, in the order of the Rust code -/
def finish (raw : List Char × List Arg) : Except PErr (List Char × List Arg) :=
  let path := trim raw.1
  let args := raw.2.map trimArg
  if path.isEmpty then .error .missingPath
  else if args.any (fun a => a.1.isEmpty) then .error .missingKey
  else .ok (path, args)

/-- `plugin_parser` -/
def pluginParser (s : List Char) : Except PErr (List Char × List Arg) :=
  match scan (.path []) s with
  | .error e => .error e
  | .ok st => finish st.fin

/-! ## the writer: `PATH,KEY=VALUE,…` with a backslash before every `,` and `=` of a component -/

def escape : List Char → List Char
  | [] => []
  | c :: cs => if c = ',' ∨ c = '=' then '\\' :: c :: escape cs else c :: escape cs

/-- one argument; `bare = true` writes an argument whose value is empty as `KEY` (no `=`),
    `bare = false` always writes `KEY=VALUE` (so an empty value is `KEY=`) -/
def renderArg (bare : Bool) (a : Arg) : List Char :=
  if bare ∧ a.2 = [] then escape a.1 else escape a.1 ++ '=' :: escape a.2

def renderArgs (bare : Bool) : List Arg → List Char
  | [] => []
  | a :: as => ',' :: renderArg bare a ++ renderArgs bare as

/-- `PATH,KEY=VALUE,…`; an empty value is written `KEY=` -/
def render (path : List Char) (args : List Arg) : List Char := escape path ++ renderArgs false args

/-- `PATH,KEY=VALUE,…` where arguments with an empty value are written `KEY` -/
def renderBare (path : List Char) (args : List Arg) : List Char := escape path ++ renderArgs true args

/-- the components in the order they are written -/
def components (path : List Char) (args : List Arg) : List (List Char) :=
  path :: args.flatMap (fun a => [a.1, a.2])

def endsBs (l : List Char) : Bool := l.getLast? = some '\\'

/-! ## reference parser (the specification) -/

/-- a character of a specification after un-escaping: a literal character, an unescaped `,`, an unescaped `=` -/
inductive Tok where
  | lit (c : Char)
  | comma
  | eq
  deriving Repr, DecidableEq

/-- un-escape: `\,` and `\=` are the literal characters, any other backslash is itself -/
def tokenize : List Char → List Tok
  | [] => []
  | c :: rest =>
    if c = '\\' then
      match rest with
      | n :: rest' =>
        if n = ',' ∨ n = '=' then .lit n :: tokenize rest' else .lit c :: tokenize (n :: rest')
      | [] => [.lit c]
    else if c = ',' then .comma :: tokenize rest
    else if c = '=' then .eq :: tokenize rest
    else .lit c :: tokenize rest

/-- a single trailing (unescaped) comma is ignored -/
def dropTrailingComma (ts : List Tok) : List Tok :=
  if ts.getLast? = some .comma then ts.dropLast else ts

/-- split at the unescaped commas: the first piece and the other pieces (`n` commas give `n + 1` pieces) -/
def splitCommas : List Tok → List Tok × List (List Tok)
  | [] => ([], [])
  | .comma :: ts => ([], (splitCommas ts).1 :: (splitCommas ts).2)
  | .lit c :: ts => (.lit c :: (splitCommas ts).1, (splitCommas ts).2)
  | .eq :: ts => (.eq :: (splitCommas ts).1, (splitCommas ts).2)

/-- the text of a piece (an `=` inside the path is an ordinary character) -/
def Tok.char : Tok → Char
  | .lit c => c
  | .comma => ','
  | .eq => '='

def isEq (t : Tok) : Bool := t == .eq

/-- one argument: key = text before the first unescaped `=`, value = text after it (empty without `=`);
    a second unescaped `=` is an error -/
def specArg (seg : List Tok) : Except PErr Arg :=
  let key := seg.takeWhile (fun t => !isEq t)
  let value := (seg.dropWhile (fun t => !isEq t)).drop 1
  if value.any isEq then .error .secondEq
  else .ok (key.map Tok.char, value.map Tok.char)

def specArgs : List (List Tok) → Except PErr (List Arg)
  | [] => .ok []
  | seg :: segs =>
    match specArg seg with
    | .error e => .error e
    | .ok a =>
      match specArgs segs with
      | .error e => .error e
      | .ok as => .ok (a :: as)

/-- the first piece is the path, every other piece an argument; then trim and check -/
def specParser (s : List Char) : Except PErr (List Char × List Arg) :=
  let pieces := splitCommas (dropTrailingComma (tokenize s))
  match specArgs pieces.2 with
  | .error e => .error e
  | .ok args =>
    let path := trim (pieces.1.map Tok.char)
    let args := args.map trimArg
    if path = [] then .error .missingPath
    else if ∃ a ∈ args, a.1 = [] then .error .missingKey
    else .ok (path, args)

end Slicec.PluginSpec
