/-
  Lint suppression (C13): mirror of `Diagnostics::into_updated` (slicec/src/diagnostics/diagnostic.rs), of clap's
  acceptance of `--allow` values (slice_options.rs), of `all_attributes` (grammar/traits.rs) and of the scope string
  every lint records when it is created (patchers/type_ref_patcher.rs, patchers/comment_link_patcher.rs,
  validators/{comments,operations}.rs, parsers/comments/parser.rs, utils/file_util.rs) — for the `Deprecated` lint that is
  the parser scope the type reference was written in, which the grammar decides (parsers/slice/grammar.lalrpop).
  The tables (lint kinds, allowable identifiers, default levels, comparison, inheritance, scope expressions, the parser
  scope of every `TypeRef` position of the grammar) come from `Gen/Lints.lean`.
-/
import SlicecVerif.Gen.Lints
import SlicecVerif.Model.Syntax
import SlicecVerif.Model.Resolve

namespace Slicec

/-! ## abstract diagnostics and the level rewrite -/

inductive Level where
  | error | warning | allowed
  deriving DecidableEq, Repr, Inhabited

def Level.str : Level → String
  | .error => "E" | .warning => "W" | .allowed => "A"

def Level.ofName (s : String) : Level :=
  if s == "Error" then .error else if s == "Allowed" then .allowed else .warning

/-- what `into_updated` looks at: the kind (error or lint + code), the current level, the file of the span, the scope -/
structure Diag where
  code : String
  isError : Bool
  level : Level
  spanFile : Option Nat
  scope : Option String
  deriving DecidableEq, Repr, Inhabited

/-- `Lint::get_default_level` -/
def lintDefaultLevel (code : String) : Level :=
  match Gen.lintDefaultLevels.find? (fun r => r.1 == code) with
  | some r => Level.ofName r.2
  | none => .warning

/-- `Diagnostic::new(Lint::…)` followed by the optional `set_span` / `set_scope` -/
def Diag.lint (code : String) (spanFile : Option Nat) (scope : Option String) : Diag :=
  ⟨code, false, lintDefaultLevel code, spanFile, scope⟩

/-- `Diagnostic::new(Error::…)`; errors never carry a scope -/
def Diag.err (code : String) (spanFile : Option Nat) : Diag := ⟨code, true, .error, spanFile, none⟩

/-- everything `into_updated` consults besides the diagnostic itself -/
structure AllowEnv where
  /-- `options.allowed_lints`: the `--allow` values exactly as spelled on the command line -/
  cli : List String
  /-- argument lists of the `allow` attributes of file `i` (`files.iter().find(|f| f.relative_path == span.file)`) -/
  fileAllows : Nat → List (List String)
  /-- `ast.find_element::<dyn Entity>(scope)` then `all_attributes()` (own ++ parents'), reduced to the argument lists of
      the `allow` attributes; `none` when the lookup fails (no such key, or the key names a module / primitive) -/
  scopeAllows : String → Option (List (List String))

def lowerChar (c : Char) : Char := if 65 ≤ c.toNat ∧ c.toNat ≤ 90 then Char.ofNat (c.toNat + 32) else c

/-- `str::eq_ignore_ascii_case` -/
def eqIgnoreAsciiCase (a b : String) : Bool := a.toList.map lowerChar == b.toList.map lowerChar

/-- the comparison used by `is_lint_allowed_by`: `eq_ignore_ascii_case` or `==`, whichever the source has (extracted) -/
def lintIdEq (a b : String) : Bool := if Gen.allowCompareIgnoresCase then eqIgnoreAsciiCase a b else a == b

/-- `is_lint_allowed_by(identifiers, lint)` -/
def isLintAllowedBy (ids : List String) (code : String) : Bool :=
  ids.any fun id => lintIdEq id Gen.allowAllIdentifier || lintIdEq id code

/-- `is_lint_allowed_by_attributes(attributable, lint)` on the argument lists of the `allow` attributes -/
def isLintAllowedByAttributes (allows : List (List String)) (code : String) : Bool :=
  allows.any fun a => isLintAllowedBy a code

/-- the three checks of the loop body, in the order of the source; each can only set `Allowed` -/
def updateLevel (env : AllowEnv) (d : Diag) : Level :=
  let l1 := if isLintAllowedBy env.cli d.code then Level.allowed else d.level
  let l2 := match d.spanFile with
    | some f => if isLintAllowedByAttributes (env.fileAllows f) d.code then Level.allowed else l1
    | none => l1
  match d.scope with
  | some s =>
    match env.scopeAllows s with
    | some as => if isLintAllowedByAttributes as d.code then Level.allowed else l2
    | none => l2
  | none => l2

/-- one iteration of `for diagnostic in &mut self.0`: only lints are touched -/
def updateOne (env : AllowEnv) (d : Diag) : Diag :=
  if d.isError then d else { d with level := updateLevel env d }

/-- `Diagnostics::into_updated` -/
def intoUpdated (env : AllowEnv) (ds : List Diag) : List Diag := ds.map (updateOne env)

/-- `get_totals`: (warnings, errors) -/
def totals (ds : List Diag) : Nat × Nat :=
  ((ds.filter fun d => d.level == .warning).length, (ds.filter fun d => d.level == .error).length)

/-- `emit_diagnostics` returns `total_errors != 0`; `main` exits with 1 exactly then -/
def exitFails (ds : List Diag) : Bool := (totals ds).2 != 0

/-! ## the command line -/

/-- clap: `value_parser = ALLOWABLE_LINT_IDENTIFIERS` with `ignore_case = true` (ASCII case folding; clap is built without
    its `unicode` feature) -/
def cliAccepts (v : String) : Bool := Gen.allowableLintIdentifiers.any fun id => eqIgnoreAsciiCase id v

/-- the values end up in `allowed_lints` exactly as the user spelled them; one rejected value is a usage error (exit 2) -/
def cliParse (vs : List String) : Option (List String) := if vs.all cliAccepts then some vs else none

/-! ## `allow` attributes of a program -/

def allowArgs (as : List Attr) : List (List String) := (as.filter fun a => a.directive == "allow").map (·.args)

/-- `Allow::parse_from` reports an error for this argument (the attribute still keeps it) -/
def allowArgInvalid (arg : String) : Bool :=
  !(Gen.allowableLintIdentifiers.contains arg) || Gen.allowAttrRejected.contains arg

/-- `all_attributes()`: own attributes, then the parent's for the `@Contained` kinds of grammar/elements -/
def withInherited (kind : String) (own parentAll : List (List String)) : List (List String) :=
  own ++ (if Gen.attributeInheritance.any (fun r => r.1 == kind) then parentAll else [])

abbrev AllowTable := List (String × Option (List (List String)))

def memberAllows (kind : String) (scope : String) (parentAll : List (List String)) (ms : List (String × List Attr)) : AllowTable :=
  ms.map fun m => (scopedId m.1 scope, some (withInherited kind (allowArgs m.2) parentAll))

/-- entries in the order of `defEntries` (Resolve.lean), so that "the last writer wins" picks the same node -/
def defAllowEntries (modScope : String) : Def → AllowTable
  | .struct _ attrs _ name fields =>
    let key := scopedId name modScope
    let all := withInherited "Struct" (allowArgs attrs) []
    memberAllows "Field" key all (fields.map fun f => (f.name, f.attrs)) ++ [(key, some all)]
  | .iface _ attrs name _ ops =>
    let key := scopedId name modScope
    let all := withInherited "Interface" (allowArgs attrs) []
    (ops.flatMap fun o =>
      let okey := scopedId o.name key
      let oall := withInherited "Operation" (allowArgs o.attrs) all
      memberAllows "Parameter" okey oall ((o.params ++ retParams o.ret).map fun q => (q.name, q.attrs)) ++ [(okey, some oall)]) ++
    [(key, some all)]
  | .enum _ attrs _ _ name _ es =>
    let key := scopedId name modScope
    let all := withInherited "Enum" (allowArgs attrs) []
    (es.flatMap fun e =>
      let ekey := scopedId e.name key
      let eall := withInherited "Enumerator" (allowArgs e.attrs) all
      memberAllows "Field" ekey eall ((e.fields.getD []).map fun f => (f.name, f.attrs)) ++ [(ekey, some eall)]) ++
    [(key, some all)]
  | .custom _ attrs name => [(scopedId name modScope, some (withInherited "CustomType" (allowArgs attrs) []))]
  | .alias _ attrs name _ => [(scopedId name modScope, some (withInherited "TypeAlias" (allowArgs attrs) []))]

def fileModScope (f : SFile) : String := match f.module with | some m => m.path | none => ""

def fileAllowEntries (f : SFile) : AllowTable :=
  f.defs.flatMap (defAllowEntries (fileModScope f)) ++
  (match f.module with | some m => [(m.path, none)] | none => [])   -- a module is a node but not an entity

def allowTable (p : Program) : AllowTable :=
  (Prim.all.map fun q => (q.kw, none)) ++ p.flatMap fileAllowEntries

/-- `find_element::<dyn Entity>(scope)` + `all_attributes()`; `HashMap::insert`: the last entry with the key wins -/
def scopeAllowsOf (p : Program) (scope : String) : Option (List (List String)) :=
  match (allowTable p).reverse.find? (fun e => e.1 == scope) with
  | some e => e.2
  | none => none

def fileAllowsOf (p : Program) (i : Nat) : List (List String) :=
  match p[i]? with
  | some f => allowArgs f.fileAttrs
  | none => []

def envOf (cli : List String) (p : Program) : AllowEnv := ⟨cli, fileAllowsOf p, scopeAllowsOf p⟩

/-! ## doc comments: which tags and links a comment contains (enough for the shapes the drivers generate) -/

def isWs (c : Char) : Bool := c == ' ' || c == '\t'
def isIdChar (c : Char) : Bool := c.isAlphanum || c == '_'
def isScopedChar (c : Char) : Bool := isIdChar c || c == ':'

/-- links `{@link X}` of a message; `none` = the lexer / grammar rejects it (unknown inline tag, missing identifier or `}`) -/
def scanMessage : Nat → List Char → Option (List String)
  | 0, _ => some []
  | fuel + 1, cs =>
    match cs.dropWhile (fun c => c != '{') with
    | [] => some []
    | _ :: rest =>
      let r := rest.dropWhile isWs
      match r with
      | '@' :: r1 =>
        let kw := String.ofList (r1.takeWhile isIdChar)
        let r3 := (r1.dropWhile isIdChar).dropWhile isWs
        let id := r3.takeWhile isScopedChar
        let r4 := (r3.dropWhile isScopedChar).dropWhile isWs
        if kw != "link" || id.isEmpty then none
        else
          match r4 with
          | '}' :: r5 => (scanMessage fuel r5).map fun ls => String.ofList id :: ls
          | _ => none
      | _ => scanMessage fuel r

inductive LineScan where
  | bad
  | msg (links : List String)
  | param (id : String) (links : List String)
  | returns (id : Option String) (links : List String)
  | see (id : String)
  deriving Repr, Inhabited

/-- the rest of a block-tag line after its identifier: end of line, or `:` + message -/
def scanSection (r : List Char) : Option (List String) :=
  match r.dropWhile isWs with
  | [] => some []
  | ':' :: r4 => if r4.head? == some ':' then none else scanMessage (r4.length + 1) r4
  | _ => none

def scanLine (s : String) : LineScan :=
  let cs := s.toList.dropWhile isWs
  match cs with
  | '@' :: r =>
    let kw := String.ofList (r.takeWhile isIdChar)
    let r2 := (r.dropWhile isIdChar).dropWhile isWs
    let id := r2.takeWhile isIdChar
    let r3 := r2.dropWhile isIdChar
    let idOk := match id with | c :: _ => c.isAlpha | [] => false
    if kw == "param" then
      if !idOk then .bad else match scanSection r3 with | some ls => .param (String.ofList id) ls | none => .bad
    else if kw == "returns" then
      if id.isEmpty then (match scanSection r2 with | some ls => .returns none ls | none => .bad)
      else if !idOk then .bad else match scanSection r3 with | some ls => .returns (some (String.ofList id)) ls | none => .bad
    else if kw == "see" then
      let sid := r2.takeWhile isScopedChar
      let rest := (r2.dropWhile isScopedChar).dropWhile isWs
      let sidOk := match sid with | c :: _ => c.isAlpha || c == ':' | [] => false
      if sidOk && rest.isEmpty then .see (String.ofList sid) else .bad
    else .bad
  | _ => match scanMessage (cs.length + 1) cs with | some ls => .msg ls | none => .bad

structure DocScan where
  malformed : Bool := false
  links : List String := []                  -- overview, tag messages and `@see`
  params : List String := []
  returns : List (Option String) := []
  deriving Repr, Inhabited

/-- `DocComment = MessageLines? (ParamBlock | ReturnsBlock | SeeBlock)*`: a plain line may follow anything but `@see` -/
def scanDocAux : Bool → List String → DocScan → DocScan
  | _, [], acc => acc
  | afterSee, l :: ls, acc =>
    match scanLine l with
    | .bad => { acc with malformed := true }
    | .msg links => if afterSee then { acc with malformed := true } else scanDocAux false ls { acc with links := acc.links ++ links }
    | .param id links => scanDocAux false ls { acc with params := acc.params ++ [id], links := acc.links ++ links }
    | .returns id links => scanDocAux false ls { acc with returns := acc.returns ++ [id], links := acc.links ++ links }
    | .see id => scanDocAux true ls { acc with links := acc.links ++ [id] }

def scanDoc (doc : List String) : DocScan := scanDocAux false doc {}

/-! ## lint sites: which lints the compiler records for a program, with which scope -/

/-- how a creation site fills `scope`, recognised from the argument text of `.set_scope(…)` (Gen.lintScopeSites) -/
inductive ScopeRule where
  | writtenScope      -- `type_ref.parser_scope()`: the parser scope the type reference was written in
  | ownScopedId       -- `x.parser_scoped_identifier()` / the identifier handed to the comment parser
  | noScope
  | unknown
  deriving DecidableEq, Repr

def scopeRuleOfExpr (e : String) : ScopeRule :=
  if e == "type_ref.parser_scope()" then .writtenScope
  else if e == "commentable.parser_scoped_identifier()" || e == "entity.parser_scoped_identifier()" ||
          e == "operation.parser_scoped_identifier()" || e == "self.identifier" then .ownScopedId
  else if e == "-" then .noScope
  else .unknown

/-- the rule of a lint kind: all its creation sites must agree -/
def scopeRule (kind : String) : ScopeRule :=
  match (Gen.lintScopeSites.filter fun r => r.1 == kind).map fun r => scopeRuleOfExpr r.2.2 with
  | [] => .unknown
  | r :: rs => if rs.all (· == r) then r else .unknown

structure LintSite where
  kind : String
  file : Nat
  /-- the scope string the code records -/
  scope : Option String
  /-- key of the element the lint is about (the member whose type is deprecated, the commented element) -/
  concerns : Option String
  /-- the property's "element it concerns or a definition enclosing that element", read off the syntax without any
      lookup: argument lists of the `allow` attributes written on the element the lint concerns, followed by those written
      on the definitions that enclose it, innermost first (modules are not definitions; `allow` is rejected on them) -/
  chain : List (List String)
  /-- printer path of the type reference (Deprecated) / of the commented element (doc lints) -/
  path : String
  deriving Repr, Inhabited, DecidableEq

/-- the scope a site records, by the rule extracted for its kind -/
def recordedScope (kind : String) (writtenScope ownKey : String) : Option String :=
  match scopeRule kind with
  | .writtenScope => some writtenScope
  | .ownScopedId => some ownKey
  | .noScope => none
  | .unknown => none

/-- the parser scope in which the type of the member `member` of `container` is written (grammar.lalrpop): `Field`,
    `Parameter` (also the members of a return tuple) and `TypeAlias` either read their identifier with
    `ContainerIdentifier` and close with `ContainerEnd` after the `TypeRef` — then every reference written inside the
    type, however deeply nested in `Sequence` / `Dictionary` / `Result`, carries the member's own scoped identifier —
    or they do not, and the references carry the scope of the enclosing container (for an alias: the module).
    Which of the two is extracted from the grammar (`Gen.memberTypesParsedInMemberScope`). -/
def memberTypeScope (container member : String) : String :=
  if Gen.memberTypesParsedInMemberScope then scopedId member container else container

/-- what the model assumes about the remaining `TypeRef` positions of the grammar (checked against the extracted table
    by `Lemmas.typeRef_scopes_known`): bases and an enum's underlying type are written after the `ContainerIdentifier`
    of the interface / enum; a single return type and the arguments of `Sequence` / `Dictionary` / `Result` are written
    in whatever scope is current (the operation; the scope of the reference they are nested in) -/
def typeRefScopesExpected : List (String × String × String) :=
  let m := if Gen.memberTypesParsedInMemberScope then "own" else "enclosing"
  [("Dictionary", "0", "enclosing"), ("Enum", "0", "own"), ("Field", "0", m), ("Interface", "0", "own"), ("Parameter", "0", m),
   ("Result", "0", "enclosing"), ("ReturnType", "0", "enclosing"), ("Sequence", "0", "enclosing"), ("TypeAlias", "0", m)]

/-- a written type reference together with what the lint about it needs: the parser scope it is written in, the key of
    the element it belongs to, that element's `allow` chain, its printer path -/
structure MemberRef where
  writtenScope : String
  owner : String
  chain : List (List String)
  path : String
  ty : TRef
  deriving Inhabited

/-- `check_for_deprecated_type`: the looked-up node is an entity carrying `deprecated` itself -/
def isDeprecatedTarget (t : Table) (id modScope : String) : Bool :=
  match findNodeWithScope t id modScope with
  | some n => n.kind != .module && n.kind != .primitive && n.attrs.any fun a => a.directive == "deprecated"
  | none => false

def depSite (file : Nat) (m : MemberRef) (path : String) : LintSite :=
  { kind := "Deprecated", file := file, scope := recordedScope "Deprecated" m.writtenScope m.owner, concerns := some m.owner,
    chain := m.chain, path := path }

/-- printer path of the reference itself if it names a deprecated entity (only the first lookup is checked) -/
def directHit (t : Table) (modScope path : String) (r : TRef) : List String :=
  match r.ty with
  | .named id => if isDeprecatedTarget t id modScope then [path] else []
  | _ => []

mutual
/-- references written inside the anonymous type nodes of a reference that name a deprecated entity, in the order the
    parser adds those nodes (inner first) -/
def anonHits (t : Table) (modScope path : String) : TRef → List String
  | .mk _ ty _ => anonHitsTy t modScope path ty
def anonHitsTy (t : Table) (modScope path : String) : TyExpr → List String
  | .prim _ => []
  | .named _ => []
  | .seq e => anonHits t modScope (path ++ ".e") e ++ directHit t modScope (path ++ ".e") e
  | .dict k v => anonHits t modScope (path ++ ".k") k ++ anonHits t modScope (path ++ ".v") v ++
                 directHit t modScope (path ++ ".k") k ++ directHit t modScope (path ++ ".v") v
  | .result s f => anonHits t modScope (path ++ ".s") s ++ anonHits t modScope (path ++ ".f") f ++
                   directHit t modScope (path ++ ".s") s ++ directHit t modScope (path ++ ".f") f
end

/-- members of one container: first every anonymous node of every member, then the member nodes themselves; all lints
    about references written inside the type of a member carry that member's `writtenScope` -/
def memberRefSites (t : Table) (file : Nat) (modScope : String) (ms : List MemberRef) : List LintSite :=
  (ms.flatMap fun m => (anonHits t modScope m.path m.ty).map (depSite file m)) ++
  (ms.flatMap fun m => (directHit t modScope m.path m.ty).map (depSite file m))

/-- a named member (field, parameter, member of a return tuple) of the container `ckey` whose `allow` chain is `cchain` -/
def namedMemberRef (ckey : String) (cchain : List (List String)) (name : String) (attrs : List Attr) (path : String) (ty : TRef) : MemberRef :=
  { writtenScope := memberTypeScope ckey name, owner := scopedId name ckey, chain := allowArgs attrs ++ cchain, path := path, ty := ty }

def fieldRefs (ckey : String) (cchain : List (List String)) (path : String) (fs : List Field) : List MemberRef :=
  fs.zipIdx.map fun (f, i) => namedMemberRef ckey cchain f.name f.attrs (path ++ ".f" ++ toString i ++ ".t") f.ty

/-- parameters, then return members. A single unnamed return type `-> T` is written in the operation's scope (the
    `ReturnType` production opens none); the dummy `returnValue` parameter built for it has no attributes, so the
    definitions enclosing it are the operation and the interface. -/
def opRefs (okey : String) (ochain : List (List String)) (path : String) (o : Op) : List MemberRef :=
  (o.params.zipIdx.map fun (q, i) => namedMemberRef okey ochain q.name q.attrs (path ++ ".p" ++ toString i ++ ".t") q.ty) ++
  (match o.ret with
   | .none => []
   | .single _ _ ty => [{ writtenScope := okey, owner := scopedId "returnValue" okey, chain := ochain, path := path ++ ".r0.t", ty := ty }]
   | .tuple ps => ps.zipIdx.map fun (q, i) => namedMemberRef okey ochain q.name q.attrs (path ++ ".r" ++ toString i ++ ".t") q.ty)

/-- a reference written directly in a definition's own scope, after its `ContainerIdentifier` (base interface, underlying type) -/
def ownRef (key : String) (chain : List (List String)) (path : String) (ty : TRef) : MemberRef :=
  { writtenScope := key, owner := key, chain := chain, path := path, ty := ty }

/-- the written type references of one definition, grouped per container in the order `TypeRefPatcher::compute_patches`
    meets the AST nodes (members before their container, bases and underlying type with the container itself) -/
def defRefGroups (modScope : String) (path : String) : Def → List (List MemberRef)
  | .struct _ attrs _ name fields =>
    let key := scopedId name modScope
    [fieldRefs key (allowArgs attrs) path fields]
  | .iface _ attrs name bases ops =>
    let key := scopedId name modScope
    let chain := allowArgs attrs
    (ops.zipIdx.map fun (o, i) => opRefs (scopedId o.name key) (allowArgs o.attrs ++ chain) (path ++ ".o" ++ toString i) o) ++
    [bases.zipIdx.map fun (b, i) => ownRef key chain (path ++ ".b" ++ toString i) b]
  | .enum _ attrs _ _ name underlying es =>
    let key := scopedId name modScope
    let chain := allowArgs attrs
    (es.zipIdx.map fun (e, i) =>
      fieldRefs (scopedId e.name key) (allowArgs e.attrs ++ chain) (path ++ ".e" ++ toString i) (e.fields.getD [])) ++
    [match underlying with | some u => [ownRef key chain (path ++ ".u") u] | none => []]
  | .custom .. => []
  | .alias _ attrs name ty =>
    [[{ writtenScope := memberTypeScope modScope name, owner := scopedId name modScope, chain := allowArgs attrs, path := path ++ ".t", ty := ty }]]

/-- Deprecated lints of one definition in the order `TypeRefPatcher::compute_patches` walks the AST nodes -/
def defDeprecatedSites (t : Table) (file : Nat) (modScope : String) (path : String) (d : Def) : List LintSite :=
  (defRefGroups modScope path d).flatMap (memberRefSites t file modScope)

/-- a commented element: key, printer path, kind, doc, its `allow` chain (own attributes, then the enclosing definitions'),
    parameter names, return member names (`none` = not an operation) -/
structure Commented where
  key : String
  path : String
  kind : NodeKind
  doc : List String
  chain : List (List String)
  params : List String := []
  rets : Option (List String) := none
  deriving Inhabited

def fieldsCommented (scope path : String) (cchain : List (List String)) (fs : List Field) : List Commented :=
  fs.zipIdx.map fun (f, i) =>
    { key := scopedId f.name scope, path := path ++ ".f" ++ toString i, kind := .field, doc := f.doc, chain := allowArgs f.attrs ++ cchain }

def opCommented (scope path : String) (cchain : List (List String)) (o : Op) : Commented :=
  { key := scopedId o.name scope, path := path, kind := .operation, doc := o.doc, chain := allowArgs o.attrs ++ cchain,
    params := o.params.map (·.name), rets := some ((retParams o.ret).map (·.name)) }

/-- the commented elements of a definition: the definition itself and its members, each with its own members
    (only enumerators have commented members of their own: their fields) -/
structure DefParts where
  self : Commented
  members : List (Commented × List Commented)
  deriving Inhabited

def defParts (modScope path : String) : Def → DefParts
  | .struct doc attrs _ name fields =>
    let key := scopedId name modScope
    let chain := allowArgs attrs
    ⟨{ key := key, path := path, kind := .struct, doc := doc, chain := chain }, (fieldsCommented key path chain fields).map fun c => (c, [])⟩
  | .iface doc attrs name _ ops =>
    let key := scopedId name modScope
    let chain := allowArgs attrs
    ⟨{ key := key, path := path, kind := .interface, doc := doc, chain := chain },
     ops.zipIdx.map fun (o, i) => (opCommented key (path ++ ".o" ++ toString i) chain o, [])⟩
  | .enum doc attrs _ _ name _ es =>
    let key := scopedId name modScope
    let chain := allowArgs attrs
    ⟨{ key := key, path := path, kind := .enum, doc := doc, chain := chain },
     es.zipIdx.map fun (e, i) =>
       ({ key := scopedId e.name key, path := path ++ ".e" ++ toString i, kind := .enumerator, doc := e.doc, chain := allowArgs e.attrs ++ chain },
        fieldsCommented (scopedId e.name key) (path ++ ".e" ++ toString i) (allowArgs e.attrs ++ chain) (e.fields.getD []))⟩
  | .custom doc attrs name => ⟨{ key := scopedId name modScope, path := path, kind := .custom, doc := doc, chain := allowArgs attrs }, []⟩
  | .alias doc attrs name _ => ⟨{ key := scopedId name modScope, path := path, kind := .alias, doc := doc, chain := allowArgs attrs }, []⟩

/-- the order in which the constructors run in the parser = the order in which the elements are added to the AST per
    container: members before their container -/
def DefParts.parseOrder (q : DefParts) : List Commented := (q.members.flatMap fun m => m.2 ++ [m.1]) ++ [q.self]

/-- AST node order (`comment_link_patcher` walks `ast.as_slice()`): enumerators are added by `construct_enum`, after the
    fields of all of them -/
def DefParts.astOrder (q : DefParts) : List Commented := (q.members.flatMap fun m => m.2) ++ q.members.map (·.1) ++ [q.self]

/-- visitor order (validators): container first, then its members -/
def DefParts.visitOrder (q : DefParts) : List Commented := [q.self] ++ q.members.flatMap fun m => m.1 :: m.2

def defCommentedParseOrder (modScope path : String) (d : Def) : List Commented := (defParts modScope path d).parseOrder
def defCommentedAstOrder (modScope path : String) (d : Def) : List Commented := (defParts modScope path d).astOrder
def defCommentedVisitOrder (modScope path : String) (d : Def) : List Commented := (defParts modScope path d).visitOrder

def docSite (kind : String) (file : Nat) (c : Commented) : LintSite :=
  { kind := kind, file := file, scope := recordedScope kind "" c.key, concerns := some c.key, chain := c.chain, path := c.path }

/-- a comment that does not parse yields one MalformedDocComment and is dropped -/
def malformedSites (file : Nat) (c : Commented) : List LintSite :=
  if !c.doc.isEmpty && (scanDoc c.doc).malformed then [docSite "MalformedDocComment" file c] else []

/-- `resolve_link`: looked up from the commented element's own scoped identifier; modules, parameters and primitives
    cannot be linked to -/
def linkBroken (t : Table) (c : Commented) (id : String) : Bool :=
  match findNodeWithScope t id c.key with
  | some n => n.kind == .module || n.kind == .parameter || n.kind == .primitive
  | none => true

def brokenLinkSites (t : Table) (file : Nat) (c : Commented) : List LintSite :=
  let s := scanDoc c.doc
  if s.malformed then [] else (s.links.filter (linkBroken t c)).map fun _ => docSite "BrokenDocLink" file c

/-- validators/comments.rs (`@param` only on operations and enumerators, `@returns` only on operations) and
    validators/operations.rs (tags must match the signature) -/
def incorrectTagSites (file : Nat) (c : Commented) : List LintSite :=
  let s := scanDoc c.doc
  if s.malformed then [] else
  let site := docSite "IncorrectDocComment" file c
  match c.rets with
  | none =>
    (if c.kind == .enumerator then [] else s.params.map fun _ => site) ++ s.returns.map fun _ => site
  | some rets =>
    ((s.params.filter fun q => !c.params.contains q).map fun _ => site) ++
    (match rets with
     | [] => s.returns.map fun _ => site
     | [_] => (s.returns.filter fun r => r.isSome).map fun _ => site
     | _ => (s.returns.filter fun r => match r with | some id => !rets.contains id | none => false).map fun _ => site)

def perDef {α} (p : Program) (g : Nat → String → String → Def → List α) : List α :=
  p.zipIdx.flatMap fun (f, i) => f.defs.zipIdx.flatMap fun (d, j) => g i (fileModScope f) ("d" ++ toString j) d

/-- every lint the compiler records for a program that compiles without errors, phase by phase in recording order:
    parsing (MalformedDocComment), type-reference patching (Deprecated), comment-link patching (BrokenDocLink),
    validation (IncorrectDocComment). `DuplicateFile` arises from the command line only (`duplicateFileDiag`). -/
def lintSites (p : Program) : List LintSite :=
  let t := buildTable p
  perDef p (fun i ms path d => (defCommentedParseOrder ms path d).flatMap (malformedSites i)) ++
  perDef p (fun i ms path d => defDeprecatedSites t i ms path d) ++
  perDef p (fun i ms path d => (defCommentedAstOrder ms path d).flatMap (brokenLinkSites t i)) ++
  perDef p (fun i ms path d => (defCommentedVisitOrder ms path d).flatMap (incorrectTagSites i))

def LintSite.diag (s : LintSite) : Diag := Diag.lint s.kind (some s.file) s.scope

/-- `remove_duplicate_file_paths`: neither span nor scope -/
def duplicateFileDiag : Diag := Diag.lint "DuplicateFile" none none

/-- the diagnostics of an error-free compilation, after `into_updated` -/
def lintDiags (cli : List String) (p : Program) : List Diag :=
  intoUpdated (envOf cli p) ((lintSites p).map LintSite.diag)

/-! ## what the property demands -/

/-- "named (or `All`) by an `--allow` value the command line accepts": accepted values name lints regardless of case -/
def namedByCli (cli : List String) (code : String) : Bool :=
  cli.any fun v => cliAccepts v && (eqIgnoreAsciiCase v Gen.allowAllIdentifier || eqIgnoreAsciiCase v code)

/-- exact naming by the arguments of `allow` attributes -/
def namedByAttrs (allows : List (List String)) (code : String) : Bool :=
  allows.any fun a => a.any fun id => id == Gen.allowAllIdentifier || id == code

/-- the level the property text demands for a lint site: silenced exactly when named by an accepted `--allow` value, by
    an `allow` attribute of the file it occurs in, or by an `allow` attribute on the element it concerns or on a definition
    enclosing that element (`chain`, read off the syntax — no table lookup, no scope string) -/
def demandedLevel (cli : List String) (p : Program) (s : LintSite) : Level :=
  if namedByCli cli s.kind || namedByAttrs (fileAllowsOf p s.file) s.kind || namedByAttrs s.chain s.kind
  then .allowed else lintDefaultLevel s.kind

/-! ## side conditions of the full theorem (decidable) -/

/-- number of elements registered under the key `k` (primitives, modules and every named element of every file) -/
def keyCount (p : Program) (k : String) : Nat := ((allowTable p).filter fun e => e.1 == k).length

/-- the D-13c exclusion: the scope string the lint records names ONE element. It fails exactly when two elements share
    a parser-scoped identifier; apart from programs that are rejected anyway (redefinitions, a definition named like a
    module) this is a parameter and a return member of the same operation with the same name — which includes a
    parameter called `returnValue` next to a single unnamed return type. -/
def scopeKeyUnique (p : Program) (s : LintSite) : Bool :=
  match s.scope with
  | some k => decide (keyCount p k ≤ 1)
  | none => true

/-- `Allow::parse_from` accepted every argument of the `allow` attributes in play for this site (file, element,
    enclosing definitions); any other argument is error E027 and the compilation has failed -/
def siteArgsOk (p : Program) (s : LintSite) : Bool :=
  (fileAllowsOf p s.file ++ s.chain).all fun a => a.all fun v => !allowArgInvalid v

/-! ## witness programs (used by Props/C13.lean and by the driver) -/

def depStructDef : Def :=
  .struct [] [⟨"deprecated", []⟩] false "Dep" [{ doc := [], attrs := [], tag := none, name := "x", ty := .mk [] (.prim .bool) false }]

/-- `module M  [deprecated] struct Dep { x: bool }  struct S { [allow(Deprecated)] f: Dep }` — the former D-13a witness -/
def d13aProgram : Program :=
  [{ fileAttrs := [], module := some ⟨[], "M"⟩,
     defs := [depStructDef,
              .struct [] [] false "S" [{ doc := [], attrs := [⟨"allow", ["Deprecated"]⟩], tag := none, name := "f", ty := .mk [] (.named "Dep") false }]] }]

/-- the lint the compiler records for `f: Dep` (checked against `lintSites d13aProgram` by the driver, and against the
    real compiler by the correspondence): since 7283de9 the scope is the field itself -/
def d13aSite : LintSite :=
  { kind := "Deprecated", file := 0, scope := some "M::S::f", concerns := some "M::S::f", chain := [["Deprecated"]], path := "d1.f0.t" }

/-- what the same site looked like before 7283de9 (scope = the struct) -/
def d13aSiteOld : LintSite := { d13aSite with scope := some "M::S" }

/-- `module M  /// {@link  struct S {}` -/
def d13bProgram : Program :=
  [{ fileAttrs := [], module := some ⟨[], "M"⟩, defs := [.struct [" {@link"] [] false "S" []] }]

def d13bSite : LintSite := { kind := "MalformedDocComment", file := 0, scope := some "M::S", concerns := some "M::S", chain := [], path := "d0" }

def d13cParam (attrs : List Attr) (name : String) (ty : TyExpr) : Param := { attrs := attrs, tag := none, name := name, stream := false, ty := .mk [] ty false }

/-- D-13c, the suppression is ignored:
    `module M  [deprecated] struct Dep { x: bool }  interface I { op([allow(Deprecated)] a: Dep) -> (a: Dep, b: bool) }` -/
def d13cProgram : Program :=
  [{ fileAttrs := [], module := some ⟨[], "M"⟩,
     defs := [depStructDef,
              .iface [] [] "I" [] [{ doc := [], attrs := [], idempotent := false, name := "op",
                                      params := [d13cParam [⟨"allow", ["Deprecated"]⟩] "a" (.named "Dep")],
                                      ret := .tuple [d13cParam [] "a" (.named "Dep"), d13cParam [] "b" (.prim .bool)] }]] }]

/-- the lint about the PARAMETER `a` of `d13cProgram`: scope string `M::I::op::a`, which the AST's table maps to the return member -/
def d13cSite : LintSite :=
  { kind := "Deprecated", file := 0, scope := some "M::I::op::a", concerns := some "M::I::op::a", chain := [["Deprecated"]], path := "d1.o0.p0.t" }

/-- D-13c, a foreign suppression is honoured: `… interface I { op(a: Dep) -> ([allow(Deprecated)] a: Dep, b: bool) }` -/
def d13cProgram2 : Program :=
  [{ fileAttrs := [], module := some ⟨[], "M"⟩,
     defs := [depStructDef,
              .iface [] [] "I" [] [{ doc := [], attrs := [], idempotent := false, name := "op",
                                      params := [d13cParam [] "a" (.named "Dep")],
                                      ret := .tuple [d13cParam [⟨"allow", ["Deprecated"]⟩] "a" (.named "Dep"), d13cParam [] "b" (.prim .bool)] }]] }]

/-- the lint about the PARAMETER `a` of `d13cProgram2` (no `allow` on it nor on anything enclosing it) -/
def d13cSite2 : LintSite :=
  { kind := "Deprecated", file := 0, scope := some "M::I::op::a", concerns := some "M::I::op::a", chain := [], path := "d1.o0.p0.t" }

end Slicec
