/-
  C04 — semantic validation. `validate : Program → List String` is the list of error codes the compiler
  reports for a program (compared as a *set* with the real compiler), phase by phase with the same gating:

    parse-time checks (`parse_tag_value`, `check_return_tuple`, literal overflow, "module declaration is required";
                       per file: the module check is only reached by a file without other parse errors)
    → attribute patching (`patch_attributes!`: argument counts, argument literals, unknown un-prefixed directive)
    → type-reference resolution (`TypeRefPatcher`, via Model/Resolve.lean)
    → `validate_ast`: cycle gate → redefinition scan (`check_for_redefinitions`, enumerator fields included) → `ValidatorVisitor`.

  Every check is a `Rule`: the contexts it is applied to (extracted from the program), the check *as written in the
  Rust code* (sort-and-window, hash-map scan, split_last, early returns …) producing codes, the kinds of error it may
  produce, and its declarative specification `Spec`. `WellFormed` is the conjunction of the specifications;
  Props/C04.lean proves check = [] ↔ Spec for every rule and for all contexts.

  Numeric bounds, integrality, error codes, lint names and the attribute table come from Gen/*.lean (regenerated
  from the Rust source on every run).
-/
import SlicecVerif.Gen.VisitorReach
import SlicecVerif.Model.Elab
import SlicecVerif.Gen.Primitives
import SlicecVerif.Gen.ErrorCodes
import SlicecVerif.Gen.Attributes

namespace Slicec.Validate

open Slicec

/-! ## tables -/

/-- the code of an error kind, looked up in the extracted `implement_diagnostic_functions!(Error, …)` table -/
def code (kind : String) : String :=
  match Gen.errorCodes.find? (fun r => r.2 == kind) with
  | some r => r.1
  | none => "E?" ++ kind

def primRow (p : Prim) : Option Gen.PrimRow := Gen.primitives.find? (fun r => r.keyword == p.kw)

/-- `Primitive::is_integral` -/
def primIntegral (p : Prim) : Bool := match primRow p with | some r => r.integral | none => false

/-- `Primitive::numeric_bounds` -/
def primBounds (p : Prim) : Option (Int × Int) := match primRow p with | some r => r.bounds | none => none

def i128Max : Nat := 2 ^ 127 - 1

/-- `try_parse_integer`: a magnitude beyond `i128::MAX` is an error and the value becomes 0 -/
def litValue (l : IntLit) : Int := if l.mag > i128Max then 0 else l.value

/-- `parse_tag_value`: `i.value as u32` -/
def tagU32 (l : IntLit) : Nat := (litValue l % 2 ^ 32).toNat

/-! ## the shape of a rule -/

structure Rule where
  /-- what the rule is called in the property text -/
  name : String
  κ : Type
  /-- the places of a program the check is applied to -/
  ctxs : Program → List κ
  /-- the check as written in the compiler: the codes it reports for one context -/
  check : κ → List String
  /-- error kinds the check may report -/
  kinds : List String
  /-- the language rule, stated declaratively -/
  Spec : κ → Prop
  dec : DecidablePred Spec

def Rule.codes (r : Rule) (P : Program) : List String := (r.ctxs P).flatMap r.check

def Rule.Holds (r : Rule) (P : Program) : Prop := ∀ x ∈ r.ctxs P, r.Spec x

instance (r : Rule) (P : Program) : Decidable (r.Holds P) :=
  haveI : DecidablePred r.Spec := r.dec
  inferInstanceAs (Decidable (∀ x ∈ r.ctxs P, r.Spec x))

/-- elements reported by a hash-map scan: every element that was already seen (`check_if_redefined`,
    `enumerator_values_are_unique`, `validate_repeated_attributes`) -/
def repeats {α} [BEq α] : List α → List α → List α
  | _, [] => []
  | seen, x :: xs => if seen.contains x then x :: repeats seen xs else repeats (x :: seen) xs

/-! ## walking the abstract syntax -/

def fileScope (f : SFile) : String := match f.module with | some m => m.path | none => ""

def allDefs (P : Program) : List (String × Def) := P.flatMap fun f => f.defs.map fun d => (fileScope f, d)

def defKey (sd : String × Def) : String := scopedId sd.2.name sd.1

/-- the definition a key denotes (the name table keeps the last writer) -/
def findDef (P : Program) (key : String) : Option (String × Def) := (allDefs P).reverse.find? (fun sd => defKey sd == key)

/-- field lists that are validated as members: struct fields, the fields of every enumerator -/
def defFieldLists : Def → List (List Field)
  | .struct _ _ _ _ fields => [fields]
  | .enum _ _ _ _ _ _ es => es.map fun e => e.fields.getD []
  | _ => []

/-- parameter lists: parameters and return members of every operation -/
def defParamLists : Def → List (List Param)
  | .iface _ _ _ _ ops => ops.flatMap fun o => [o.params, retParams o.ret]
  | _ => []

mutual
/-- a type reference and every type reference written inside it -/
def subRefsT : TRef → List TRef
  | .mk a ty o => .mk a ty o :: subRefsE ty
def subRefsE : TyExpr → List TRef
  | .prim _ => []
  | .named _ => []
  | .seq e => subRefsT e
  | .dict k v => subRefsT k ++ subRefsT v
  | .result s f => subRefsT s ++ subRefsT f
end

/-- type references the visitor reaches: field types, parameter and return types, alias underlying types -/
def defVisitedTRefs (d : Def) : List TRef :=
  (defFieldLists d).flatMap (·.map (·.ty)) ++ (defParamLists d).flatMap (·.map (·.ty)) ++
  (match d with | .alias _ _ _ ty => [ty] | _ => [])

/-- type references the visitor does not reach: interface bases, enum underlying types -/
def defOtherTRefs : Def → List TRef
  | .iface _ _ _ bases _ => bases
  | .enum _ _ _ _ _ (some u) _ => [u]
  | _ => []

def defTagLits (d : Def) : List IntLit :=
  (defFieldLists d).flatMap (·.filterMap (·.tag)) ++ (defParamLists d).flatMap (·.filterMap (·.tag))

def defValueLits : Def → List IntLit
  | .enum _ _ _ _ _ _ es => es.filterMap (·.value)
  | _ => []

def defTupleSizes : Def → List Nat
  | .iface _ _ _ _ ops => ops.filterMap fun o => match o.ret with | .tuple ps => some ps.length | _ => none
  | _ => []

def defAttrs : Def → List Attr
  | .struct _ a _ _ _ => a | .iface _ a _ _ _ => a | .enum _ a _ _ _ _ _ => a | .custom _ a _ => a | .alias _ a _ _ => a

/-- attributes of the members of a definition (fields, operations, parameters, enumerators) -/
def defMemberAttrs (d : Def) : List Attr :=
  (defFieldLists d).flatMap (·.flatMap (·.attrs)) ++ (defParamLists d).flatMap (·.flatMap (·.attrs)) ++
  (match d with
   | .iface _ _ _ _ ops => ops.flatMap (·.attrs)
   | .enum _ _ _ _ _ _ es => es.flatMap (·.attrs)
   | _ => [])

/-- every attribute node of a file (what `patch_attributes!` iterates over) -/
def fileAllAttrs (f : SFile) : List Attr :=
  f.fileAttrs ++ (match f.module with | some m => m.attrs | none => []) ++
  f.defs.flatMap fun d =>
    defAttrs d ++ defMemberAttrs d ++ ((defVisitedTRefs d ++ defOtherTRefs d).flatMap subRefsT).flatMap (·.attrs)

/-! ## phase 1: parse-time checks -/

/-- `parse_tag_value`: outside `RangeInclusive(lo, hi)` -/
def tagRangeCheck (v : Int) : List String :=
  if Gen.tagBounds.1 ≤ v ∧ v ≤ Gen.tagBounds.2 then [] else [code "TagValueOutOfBounds"]

/-- `check_return_tuple` -/
def tupleCheck (n : Nat) : List String := if n < 2 then [code "ReturnTuplesMustContainAtLeastTwoElements"] else []

/-- `try_parse_integer`: `i128::from_str_radix` overflow -/
def literalCheck (l : IntLit) : List String := if l.mag > i128Max then [code "IntegerLiteralOverflows"] else []

def fileLits (f : SFile) : List IntLit := f.defs.flatMap fun d => defTagLits d ++ defValueLits d

/-- diagnostics of the parser actions of one file -/
def fileActionCodes (f : SFile) : List String :=
  (fileLits f).flatMap literalCheck ++
  (f.defs.flatMap defTagLits).flatMap (fun l => tagRangeCheck (litValue l)) ++
  (f.defs.flatMap defTupleSizes).flatMap tupleCheck

/-- `parse_file`: definitions without a module declaration -/
def moduleCheck (f : SFile) : List String :=
  if !f.defs.isEmpty && f.module.isNone then [code "Syntax"] else []

/-- `parse_file`: the module check is only reached when the parser returned `Ok` (no error in this file) -/
def fileParseCodes (f : SFile) : List String :=
  let e := fileActionCodes f
  if e.isEmpty then moduleCheck f else e

def parseCodes (P : Program) : List String := P.flatMap fileParseCodes

/-- the parse-time rules, declaratively: literals fit `i128`, tags within `0..2^31-1`, return tuples have at
    least two members, definitions are preceded by a module declaration -/
def ParseOK (P : Program) : Prop :=
  ∀ f ∈ P,
    (∀ l ∈ fileLits f, l.mag ≤ i128Max) ∧
    (∀ l ∈ f.defs.flatMap defTagLits, 0 ≤ litValue l ∧ litValue l < 2 ^ 31) ∧
    (∀ n ∈ f.defs.flatMap defTupleSizes, 2 ≤ n) ∧
    (f.defs ≠ [] → f.module.isSome = true)

instance (P : Program) : Decidable (ParseOK P) := by unfold ParseOK; infer_instance

/-! ## phase 2: attribute patching -/

def attrRow (directive : String) : Option Gen.AttrRow := Gen.attributes.find? (fun r => r.directive == directive)

/-- `directive.split_once("::").map_or("", |(p, _)| p)` -/
def directivePrefix (d : String) : String :=
  match d.splitOn "::" with
  | [_] => ""
  | p :: _ => p
  | [] => ""

def countOK (r : Gen.AttrRow) (n : Nat) : Bool :=
  decide (r.minArgs ≤ n) && (match r.maxArgs with | some m => decide (n < m) | none => true)

def argOK (r : Gen.AttrRow) (x : String) : Bool :=
  if r.lintArgs then Gen.allowableLintIds.contains x && !Gen.allowExcluded.contains x
  else r.argLiterals.isEmpty || r.argLiterals.contains x

/-- `parse_from` of the built-in attributes and the unknown-directive arm of `patch_attributes!` -/
def patchAttrCheck (a : Attr) : List String :=
  match attrRow a.directive with
  | some r =>
    (if countOK r a.args.length then [] else [code "IncorrectAttributeArgumentCount"]) ++
    (a.args.filter (fun x => !argOK r x)).map (fun _ => code "InvalidAttributeArgument")
  | none => if directivePrefix a.directive == Gen.attributePrefix then [code "UnknownAttribute"] else []

/-- an attribute is well-formed: a built-in directive with a legal number of legal arguments, or a directive
    with a foreign prefix (`cs::…`) -/
def AttrWellFormed (a : Attr) : Prop :=
  match attrRow a.directive with
  | some r => countOK r a.args.length = true ∧ ∀ x ∈ a.args, argOK r x = true
  | none => directivePrefix a.directive ≠ Gen.attributePrefix

instance (a : Attr) : Decidable (AttrWellFormed a) := by unfold AttrWellFormed; split <;> infer_instance

def attrPatchRule : Rule where
  name := "attributes well-formed"
  κ := Attr
  ctxs := fun P => P.flatMap fileAllAttrs
  check := patchAttrCheck
  kinds := ["IncorrectAttributeArgumentCount", "InvalidAttributeArgument", "UnknownAttribute"]
  Spec := AttrWellFormed
  dec := inferInstance

/-! ## phase 3: resolution of type references (C03's model) -/

structure RefSite where
  want : Want
  id : String
  scope : String

def namedSites (w : Want) (scope : String) (rs : List TRef) : List RefSite :=
  rs.filterMap fun r => match r.ty with | .named id => some ⟨w, id, scope⟩ | _ => none

def resErrCodes : ResErr → List String
  | .doesNotExist _ => [code "DoesNotExist"]
  | .typeMismatch _ _ => [code "TypeMismatch"]
  | .aliasCycle true _ => [code "SelfReferentialTypeAliasNeedsConcreteType", code "DoesNotExist"]
  | .aliasCycle false _ => [code "DoesNotExist"]
  | .fuel => []   -- never produced: `resolve_never_out_of_fuel` (Props/C03)

def siteCodes (t : Table) (s : RefSite) : List String :=
  match resolveNamed t s.want s.id s.scope with
  | .ok _ => []
  | .error e => resErrCodes e

/-- bases are resolved left to right and the first failure ends the interface's patch
    (`collect::<Option<Vec<_>>>()`) -/
def basesCodes (t : Table) : List RefSite → List String
  | [] => []
  | s :: rest => match siteCodes t s with | [] => basesCodes t rest | e => e

def defResolveCodes (t : Table) (scope : String) (d : Def) : List String :=
  (namedSites .type scope ((defVisitedTRefs d).flatMap subRefsT)).flatMap (siteCodes t) ++
  (match d with
   | .iface _ _ _ bases _ => basesCodes t (namedSites .interface scope bases)
   | .enum _ _ _ _ _ (some u) _ => (namedSites .primitive scope [u]).flatMap (siteCodes t)
   | _ => [])

def resolveCodes (P : Program) : List String :=
  let t := buildTable P
  (allDefs P).flatMap fun sd => defResolveCodes t sd.1 sd.2

def resolveRule : Rule where
  name := "every type reference resolves (C03)"
  κ := Program
  ctxs := fun P => [P]
  check := resolveCodes
  kinds := ["DoesNotExist", "TypeMismatch", "SelfReferentialTypeAliasNeedsConcreteType"]
  Spec := fun P => resolveCodes P = []
  dec := fun _ => inferInstance

/-! ## resolved view of types -/

/-- what a type reference denotes once aliases are looked through -/
inductive RTy where
  | prim (p : Prim)
  | struct (key : String)
  | enum (key : String)
  | custom
  | anon          -- sequence, dictionary, result
  | other         -- unresolved, or not a type
  deriving Repr, DecidableEq, Inhabited

/-- the denotation of a type expression written in module scope `scope`, and the attributes inherited from aliases -/
def resolveTy (t : Table) (scope : String) : TyExpr → RTy × List Attr
  | .prim p => (.prim p, [])
  | .seq _ => (.anon, [])
  | .dict _ _ => (.anon, [])
  | .result _ _ => (.anon, [])
  | .named id =>
    match resolveNamed t .type id scope with
    | .ok (.node n, extra) =>
      ((match n.kind with
        | .struct => .struct n.key
        | .enum => .enum n.key
        | .custom => .custom
        | .primitive => (match n.prim with | some p => .prim p | none => .other)
        | _ => .other), extra)
    | .ok (.expr (.prim p) _, extra) => (.prim p, extra)
    | .ok (.expr _ _, extra) => (.anon, extra)
    | .error _ => (.other, [])

/-! ## phase 4a: the cycle gate (reachability; the detector itself is C05's) -/

def depFuel : Nat := 64

mutual
/-- struct / enum keys a type reference contains (through sequences, dictionaries, results, optionals, aliases) -/
def depsT (t : Table) (scope : String) : Nat → TRef → List String
  | 0, _ => []
  | fuel + 1, .mk _ ty _ => depsE t scope fuel ty
def depsE (t : Table) (scope : String) : Nat → TyExpr → List String
  | 0, _ => []
  | _ + 1, .prim _ => []
  | fuel + 1, .seq e => depsT t scope fuel e
  | fuel + 1, .dict k v => depsT t scope fuel k ++ depsT t scope fuel v
  | fuel + 1, .result s f => depsT t scope fuel s ++ depsT t scope fuel f
  | fuel + 1, .named id =>
    match resolveNamed t .type id scope with
    | .ok (.node n, _) => if n.kind == .struct || n.kind == .enum then [n.key] else []
    | .ok (.expr e s, _) => depsE t s fuel e
    | .error _ => []
end

def defDeps (t : Table) (sd : String × Def) : List String :=
  match sd.2 with
  | .struct .. | .enum .. => (defFieldLists sd.2).flatMap (·.flatMap fun f => depsT t sd.1 depFuel f.ty)
  | _ => []

def reachLoop (deps : String → List String) : Nat → List String → List String → List String
  | 0, _, vis => vis
  | _ + 1, [], vis => vis
  | fuel + 1, k :: rest, vis =>
    if vis.contains k then reachLoop deps fuel rest vis else reachLoop deps fuel (deps k ++ rest) (k :: vis)

/-- some struct or enum (identified by its scoped name) contains itself -/
def hasCycle (P : Program) : Bool :=
  let t := buildTable P
  let nodes := (allDefs P).filter fun sd => match sd.2 with | .struct .. | .enum .. => true | _ => false
  let depsOf := fun k => match findDef P k with | some sd => defDeps t sd | none => []
  let fuel := 2 * ((nodes.map fun sd => (defDeps t sd).length).sum + nodes.length) + 2
  nodes.any fun sd => (reachLoop depsOf fuel (defDeps t sd) []).contains (defKey sd)

def cycleRule : Rule where
  name := "no type contains itself (C05)"
  κ := Program
  ctxs := fun P => [P]
  check := fun P => if hasCycle P then [code "InfiniteSizeCycle"] else []
  kinds := ["InfiniteSizeCycle"]
  Spec := fun P => hasCycle P = false
  dec := fun _ => inferInstance

/-! ## phase 4b: the redefinition scan -/

/-- every module a program declares, with the enclosing modules a nested declaration declares as well (`module A::B::C` declares
    `A`, `A::B` and `A::B::C`): `check_for_redefinitions` enters them into its map before it looks at any definition -/
def pathPrefixes : List Char → List Char → List (List Char)
  | acc, [] => [acc.reverse]
  | acc, ':' :: ':' :: r => acc.reverse :: pathPrefixes (':' :: ':' :: acc) r
  | acc, c :: r => pathPrefixes (c :: acc) r

def modulePrefixes (P : Program) : List String :=
  P.flatMap fun f =>
    match f.module with
    | none => []
    | some m => (pathPrefixes [] m.path.toList).map String.ofList

/-- scopes scanned by `check_for_redefinitions`, each with the names that are taken before the scan starts: all definitions (by
    scoped name; the module names are taken — a definition may not share its fully-scoped name with a module), the fields of each
    struct, the operations of each interface, the parameters and the return members of each operation, the enumerators of each enum,
    the fields of each enumerator -/
def nameScopes (P : Program) : List (List String × List String) :=
  [(modulePrefixes P, (allDefs P).map defKey)] ++
  ((allDefs P).flatMap fun sd =>
    match sd.2 with
    | .struct _ _ _ _ fields => [fields.map (·.name)]
    | .iface _ _ _ _ ops => [ops.map (·.name)] ++ ops.flatMap fun o => [o.params.map (·.name), (retParams o.ret).map (·.name)]
    | .enum _ _ _ _ _ _ es => [es.map (·.name)] ++ es.map (fun e => (e.fields.getD []).map (·.name))
    | _ => []).map fun names => ([], names)

def namesRule : Rule where
  name := "names unique within their scope"
  κ := List String × List String
  ctxs := nameScopes
  check := fun c => (repeats c.1 c.2).map fun _ => code "Redefinition"
  kinds := ["Redefinition"]
  Spec := fun c => c.2.Nodup ∧ ∀ x ∈ c.2, x ∉ c.1
  dec := fun _ => inferInstance

/-! ## phase 4c: the visitor rules -/

/-- a tagged / optional / streamed member: field, parameter or return member -/
structure Member where
  name : String
  tag : Option Nat
  opt : Bool
  deriving Repr, DecidableEq, Inhabited

def memberOfField (f : Field) : Member := ⟨f.name, f.tag.map tagU32, f.ty.opt⟩
def memberOfParam (p : Param) : Member := ⟨p.name, p.tag.map tagU32, p.ty.opt⟩

def memberLists (P : Program) : List (List Member) :=
  (allDefs P).flatMap fun sd =>
    (defFieldLists sd.2).map (·.map memberOfField) ++ (defParamLists sd.2).map (·.map memberOfParam)

/-- `tags_have_optional_types` -/
def taggedOptionalCheck (ms : List Member) : List String :=
  ((ms.filter fun m => m.tag.isSome).filter fun m => !m.opt).map fun _ => code "TaggedMemberMustBeOptional"

def taggedOptionalRule : Rule where
  name := "tags only on optional members"
  κ := List Member
  ctxs := memberLists
  check := taggedOptionalCheck
  kinds := ["TaggedMemberMustBeOptional"]
  Spec := fun ms => ∀ m ∈ ms, m.tag.isSome = true → m.opt = true
  dec := fun _ => inferInstance

def insertSorted (x : Nat) : List Nat → List Nat
  | [] => [x]
  | y :: ys => if x < y then x :: y :: ys else y :: insertSorted x ys

/-- stable sort by key (`sort_by_key`) -/
def sortNat (l : List Nat) : List Nat := l.foldr insertSorted []

/-- `windows(2)`: one report per adjacent equal pair -/
def windowDups : List Nat → List String
  | a :: b :: rest => (if a == b then [code "CannotHaveDuplicateTag"] else []) ++ windowDups (b :: rest)
  | _ => []

/-- `tags_are_unique`: sort the tagged members by tag, compare neighbours -/
def dupTagCheck (ms : List Member) : List String := windowDups (sortNat (ms.filterMap (·.tag)))

def dupTagRule : Rule where
  name := "tags unique"
  κ := List Member
  ctxs := memberLists
  check := dupTagCheck
  kinds := ["CannotHaveDuplicateTag"]
  Spec := fun ms => (ms.filterMap (·.tag)).Nodup
  dec := fun _ => inferInstance

/-- a struct as the struct rules see it: `compact`, and for each field whether it is tagged -/
structure StructCtx where
  compact : Bool
  tagged : List Bool
  deriving Repr, DecidableEq, Inhabited

def structCtxs (P : Program) : List StructCtx :=
  (allDefs P).filterMap fun sd =>
    match sd.2 with
    | .struct _ _ compact _ fields => some ⟨compact, fields.map (·.tag.isSome)⟩
    | _ => none

/-- `validate_compact_struct_not_empty` -/
def compactEmptyCheck (s : StructCtx) : List String :=
  if s.compact && s.tagged.isEmpty then [code "CompactStructCannotBeEmpty"] else []

def compactEmptyRule : Rule where
  name := "compact structs non-empty"
  κ := StructCtx
  ctxs := structCtxs
  check := compactEmptyCheck
  kinds := ["CompactStructCannotBeEmpty"]
  Spec := fun s => s.compact = true → s.tagged ≠ []
  dec := fun _ => inferInstance

/-- an enum as the enum rules see it -/
structure EnumCtx where
  compact : Bool
  unchecked : Bool
  /-- underlying type: written optional?, the primitive it denotes -/
  underlying : Option (Bool × Option Prim)
  values : List Int
  /-- per enumerator: does it declare a field list (`fields.is_some()`) -/
  hasFields : List Bool
  /-- per enumerator field: is it tagged -/
  fieldTagged : List Bool
  deriving Repr, DecidableEq, Inhabited

def underlyingPrim (t : Table) (scope : String) (u : TRef) : Option Prim :=
  match u.ty with
  | .prim p => some p
  | .named id =>
    match resolveNamed t .primitive id scope with
    | .ok (.node n, _) => n.prim
    | .ok (.expr (.prim p) _, _) => some p
    | _ => none
  | _ => none

/-- explicit literal (through `try_parse_integer`), else previous value + 1 (wrapping), starting from 0 -/
def enumValuesV : Option Int → List Enumerator → List Int
  | _, [] => []
  | prev, e :: es =>
    let v := match e.value with
      | some l => litValue l
      | none => match prev with | some p => wrapI128 p | none => 0
    v :: enumValuesV (some v) es

def enumCtxs (P : Program) : List EnumCtx :=
  let t := buildTable P
  (allDefs P).filterMap fun sd =>
    match sd.2 with
    | .enum _ _ compact unchecked _ u es =>
      some { compact := compact, unchecked := unchecked,
             underlying := u.map fun r => (r.opt, underlyingPrim t sd.1 r),
             values := enumValuesV none es,
             hasFields := es.map (·.fields.isSome),
             fieldTagged := es.flatMap fun e => (e.fields.getD []).map (·.tag.isSome) }
    | _ => none

/-- a compact type as `compact_structs_cannot_contain_tags` / `compact_enums_cannot_contain_tags` see it -/
def compactTagCtxs (P : Program) : List (Bool × List Bool) :=
  (structCtxs P).map (fun s => (s.compact, s.tagged)) ++ (enumCtxs P).map (fun e => (e.compact, e.fieldTagged))

def compactTagCheck (c : Bool × List Bool) : List String :=
  if c.1 then (c.2.filter id).map fun _ => code "CompactTypeCannotContainTaggedFields" else []

def compactTagRule : Rule where
  name := "compact types untagged"
  κ := Bool × List Bool
  ctxs := compactTagCtxs
  check := compactTagCheck
  kinds := ["CompactTypeCannotContainTaggedFields"]
  Spec := fun c => c.1 = true → ∀ b ∈ c.2, b = false
  dec := fun _ => inferInstance

/-- bounds enumerator values are checked against: those of the underlying primitive (none when it has no numeric
    bounds), `0..i32::MAX` without an underlying type -/
def enumBounds (e : EnumCtx) : Option (Int × Int) :=
  match e.underlying with
  | some (_, some p) => primBounds p
  | some (_, none) => none
  | none => some Gen.plainEnumBounds

/-- `backing_type_bounds` -/
def enumRangeCheck (e : EnumCtx) : List String :=
  match enumBounds e with
  | some (lo, hi) => (e.values.filter fun v => v < lo || v > hi).map fun _ => code "EnumeratorValueOutOfBounds"
  | none => []

/-- every enumerator value lies within the bounds that apply to the enum -/
def EnumRangeOK (e : EnumCtx) : Prop :=
  match enumBounds e with
  | some b => ∀ v ∈ e.values, b.1 ≤ v ∧ v ≤ b.2
  | none => True

instance : DecidablePred EnumRangeOK := fun e => by unfold EnumRangeOK; split <;> infer_instance

def enumRangeRule : Rule where
  name := "enumerator values within the underlying type's range"
  κ := EnumCtx
  ctxs := enumCtxs
  check := enumRangeCheck
  kinds := ["EnumeratorValueOutOfBounds"]
  Spec := EnumRangeOK
  dec := inferInstance

/-- `allowed_underlying_types` -/
def enumIntegralCheck (e : EnumCtx) : List String :=
  match e.underlying with
  | some (_, p) => if (match p with | some p => primIntegral p | none => false) then [] else [code "EnumUnderlyingTypeNotSupported"]
  | none => []

/-- an underlying type, when present, denotes an integral primitive -/
def EnumIntegralOK (e : EnumCtx) : Prop :=
  match e.underlying with
  | some (_, some p) => primIntegral p = true
  | some (_, none) => False
  | none => True

instance : DecidablePred EnumIntegralOK := fun e => by unfold EnumIntegralOK; split <;> infer_instance

def enumIntegralRule : Rule where
  name := "underlying types integral"
  κ := EnumCtx
  ctxs := enumCtxs
  check := enumIntegralCheck
  kinds := ["EnumUnderlyingTypeNotSupported"]
  Spec := EnumIntegralOK
  dec := inferInstance

/-- `enumerator_values_are_unique` -/
def enumUniqueCheck (e : EnumCtx) : List String := (repeats [] e.values).map fun _ => code "DuplicateEnumeratorValue"

def enumUniqueRule : Rule where
  name := "enumerator values unique"
  κ := EnumCtx
  ctxs := enumCtxs
  check := enumUniqueCheck
  kinds := ["DuplicateEnumeratorValue"]
  Spec := fun e => e.values.Nodup
  dec := fun _ => inferInstance

/-- `underlying_type_cannot_be_optional` -/
def enumOptionalCheck (e : EnumCtx) : List String :=
  match e.underlying with
  | some (true, _) => [code "CannotUseOptionalUnderlyingType"]
  | _ => []

/-- an underlying type, when present, is not written optional -/
def EnumNonOptionalOK (e : EnumCtx) : Prop :=
  match e.underlying with
  | some (o, _) => o = false
  | none => True

instance : DecidablePred EnumNonOptionalOK := fun e => by unfold EnumNonOptionalOK; split <;> infer_instance

def enumOptionalRule : Rule where
  name := "underlying types non-optional"
  κ := EnumCtx
  ctxs := enumCtxs
  check := enumOptionalCheck
  kinds := ["CannotUseOptionalUnderlyingType"]
  Spec := EnumNonOptionalOK
  dec := inferInstance

/-- `nonempty_if_checked` -/
def enumNonEmptyCheck (e : EnumCtx) : List String :=
  if !e.unchecked && e.values.isEmpty then [code "MustContainEnumerators"] else []

def enumNonEmptyRule : Rule where
  name := "checked enums non-empty"
  κ := EnumCtx
  ctxs := enumCtxs
  check := enumNonEmptyCheck
  kinds := ["MustContainEnumerators"]
  Spec := fun e => e.unchecked = false → e.values ≠ []
  dec := fun _ => inferInstance

/-- `check_compact_modifier` -/
def enumCompactCheck (e : EnumCtx) : List String :=
  if e.compact then
    (if e.underlying.isSome then [code "CannotBeCompact"] else []) ++ (if e.unchecked then [code "CannotBeCompact"] else [])
  else []

def enumCompactRule : Rule where
  name := "compact enums neither unchecked nor backed"
  κ := EnumCtx
  ctxs := enumCtxs
  check := enumCompactCheck
  kinds := ["CannotBeCompact"]
  Spec := fun e => e.compact = true → e.underlying = none ∧ e.unchecked = false
  dec := fun _ => inferInstance

/-- `cannot_contain_fields` (only called with an underlying type) -/
def enumFieldsCheck (e : EnumCtx) : List String :=
  if e.underlying.isSome then (e.hasFields.filter id).map fun _ => code "EnumeratorCannotContainFields" else []

def enumFieldsRule : Rule where
  name := "no fields under an underlying type"
  κ := EnumCtx
  ctxs := enumCtxs
  check := enumFieldsCheck
  kinds := ["EnumeratorCannotContainFields"]
  Spec := fun e => e.underlying ≠ none → ∀ b ∈ e.hasFields, b = false
  dec := fun _ => inferInstance

/-- stream flags of a parameter list (parameters, or return members, of one operation) -/
def streamLists (P : Program) : List (List Bool) :=
  (allDefs P).flatMap fun sd => (defParamLists sd.2).map (·.map (·.stream))

/-- `stream_parameter_is_last`: every streamed member before the last (`split_last`) -/
def streamLastCheck (ss : List Bool) : List String :=
  (ss.dropLast.filter id).map fun _ => code "StreamedMembersMustBeLast"

/-- `at_most_one_stream_parameter`: with more than one streamed member, all but the last of them -/
def multiStreamCheck (ss : List Bool) : List String :=
  let st := ss.filter id
  if st.length > 1 then st.dropLast.map fun _ => code "MultipleStreamedMembers" else []

def streamRule : Rule where
  name := "'stream' only on the single last parameter"
  κ := List Bool
  ctxs := streamLists
  check := fun ss => streamLastCheck ss ++ multiStreamCheck ss
  kinds := ["StreamedMembersMustBeLast", "MultipleStreamedMembers"]
  Spec := fun ss => ∀ i, ss[i]? = some true → i + 1 = ss.length
  dec := fun ss => decidable_of_iff (∀ i, i < ss.length → ss[i]? = some true → i + 1 = ss.length)
    ⟨fun h i hi => h i (by
        rcases Nat.lt_or_ge i ss.length with hl | hl
        · exact hl
        · rw [List.getElem?_eq_none hl] at hi; cases hi) hi,
     fun h i _ hi => h i hi⟩

/-- own and inherited operation names of an interface -/
structure ShadowCtx where
  own : List String
  inherited : List String
  deriving Repr, DecidableEq, Inhabited

def directBases (P : Program) (t : Table) (key : String) : List String :=
  match findDef P key with
  | some (scope, .iface _ _ _ bases _) =>
    bases.filterMap fun b =>
      match b.ty with
      | .named id => (match resolveNamed t .interface id scope with | .ok (.node n, _) => some n.key | _ => none)
      | _ => none
  | _ => []

/-- `all_base_interfaces`: the transitive closure of the bases (each interface once) -/
def baseClosure (P : Program) (t : Table) : Nat → List String → List String → List String
  | 0, _, acc => acc
  | _ + 1, [], acc => acc
  | fuel + 1, k :: rest, acc =>
    if acc.contains k then baseClosure P t fuel rest acc else baseClosure P t fuel (rest ++ directBases P t k) (acc ++ [k])

def opNames (P : Program) (key : String) : List String :=
  match findDef P key with
  | some (_, .iface _ _ _ _ ops) => ops.map (·.name)
  | _ => []

def shadowCtxs (P : Program) : List ShadowCtx :=
  let t := buildTable P
  let nBases := ((allDefs P).map fun sd => match sd.2 with | .iface _ _ _ bases _ => bases.length | _ => 0).sum
  (allDefs P).filterMap fun sd =>
    match sd.2 with
    | .iface _ _ _ _ ops =>
      let closure := baseClosure P t (2 * nBases + 2) (directBases P t (defKey sd)) []
      some ⟨ops.map (·.name), closure.flatMap (opNames P)⟩
    | _ => none

/-- `check_for_shadowing`: one report per (own, inherited) pair with the same identifier -/
def shadowCheck (c : ShadowCtx) : List String :=
  c.own.flatMap fun o => (c.inherited.filter fun i => o == i).map fun _ => code "Shadows"

def shadowRule : Rule where
  name := "no redeclaration of an inherited operation"
  κ := ShadowCtx
  ctxs := shadowCtxs
  check := shadowCheck
  kinds := ["Shadows"]
  Spec := fun c => ∀ o ∈ c.own, o ∉ c.inherited
  dec := fun _ => inferInstance

def aliasOpts (P : Program) : List Bool :=
  (allDefs P).filterMap fun sd => match sd.2 with | .alias _ _ _ ty => some ty.opt | _ => none

def aliasRule : Rule where
  name := "no alias of an optional type"
  κ := Bool
  ctxs := aliasOpts
  check := fun o => if o then [code "TypeAliasOfOptional"] else []
  kinds := ["TypeAliasOfOptional"]
  Spec := fun o => o = false
  dec := fun _ => inferInstance

/-! ### dictionary keys -/

/-- a key type reference: written optional?, what it denotes -/
structure KRef where
  opt : Bool
  ty : RTy
  deriving Repr, DecidableEq, Inhabited

/-- what the key check needs to know about the definitions: for a struct key its `compact` flag and the types of
    its fields; for an enum key whether it has an underlying type -/
structure KEnv where
  structOf : String → Option (Bool × List KRef)
  enumBacked : String → Bool

def legalKeyPrim (p : Prim) : Bool := primIntegral p || p == .bool || p == .string

/-- `check_dictionary_key_type`, returning the error kind (`none` = valid). `fuel` bounds the descent through
    compact structs; it is never exhausted on a program that passed the cycle gate (Props/C04 `keyFuel_enough`). -/
def keyCheck (env : KEnv) : Nat → KRef → Option String
  | 0, _ => some "KeyTypeNotSupported"
  | fuel + 1, k =>
    if k.opt then some "KeyMustBeNonOptional"
    else match k.ty with
      | .struct key =>
        match env.structOf key with
        | some (compact, fields) =>
          if !compact then some "StructKeyMustBeCompact"
          else if (fields.filterMap (keyCheck env fuel)).isEmpty then none
          else some "StructKeyContainsDisallowedType"
        | none => some "KeyTypeNotSupported"
      | .enum key => if env.enumBacked key then none else some "KeyTypeNotSupported"
      | .custom => none
      | .anon => some "KeyTypeNotSupported"
      | .other => some "KeyTypeNotSupported"
      | .prim p => if legalKeyPrim p then none else some "KeyTypeNotSupported"

/-- the key rule written as a specification: a legal key is not optional and is a bool, a string, an integral
    primitive, a custom type, an enum with an underlying type, or a compact struct all of whose fields are legal keys -/
def legalKeyB (env : KEnv) : Nat → KRef → Bool
  | 0, _ => false
  | fuel + 1, k =>
    !k.opt &&
    (match k.ty with
     | .prim p => legalKeyPrim p
     | .custom => true
     | .enum key => env.enumBacked key
     | .struct key =>
       (match env.structOf key with
        | some (compact, fields) => compact && fields.all (legalKeyB env fuel)
        | none => false)
     | .anon => false
     | .other => false)

/-- the same rule as an inductive predicate (no fuel) -/
inductive LegalKey (env : KEnv) : KRef → Prop where
  | prim (p : Prim) (h : legalKeyPrim p = true) : LegalKey env ⟨false, .prim p⟩
  | custom : LegalKey env ⟨false, .custom⟩
  | enum (key : String) (h : env.enumBacked key = true) : LegalKey env ⟨false, .enum key⟩
  | struct (key : String) (fields : List KRef) (h : env.structOf key = some (true, fields))
      (hf : ∀ f ∈ fields, LegalKey env f) : LegalKey env ⟨false, .struct key⟩

def kref (t : Table) (scope : String) (r : TRef) : KRef := ⟨r.opt, (resolveTy t scope r.ty).1⟩

def kenv (P : Program) : KEnv :=
  let t := buildTable P
  { structOf := fun key =>
      match findDef P key with
      | some (scope, .struct _ _ compact _ fields) => some (compact, fields.map fun f => kref t scope f.ty)
      | _ => none,
    enumBacked := fun key =>
      match findDef P key with
      | some (_, .enum _ _ _ _ _ u _) => u.isSome
      | _ => false }

def keyFuel (P : Program) : Nat := (allDefs P).length + 1

/-- every written dictionary the visitor reaches (at any depth), as its key reference -/
def dictKeys (P : Program) : List KRef :=
  let t := buildTable P
  (allDefs P).flatMap fun sd =>
    ((defVisitedTRefs sd.2).flatMap subRefsT).filterMap fun r =>
      match r.ty with
      | .dict k _ => some (kref t sd.1 k)
      | _ => none

structure KeyCtx where
  env : KEnv
  fuel : Nat
  key : KRef

def keyRule : Rule where
  name := "dictionary keys of a legal type"
  κ := KeyCtx
  ctxs := fun P => (dictKeys P).map fun k => ⟨kenv P, keyFuel P, k⟩
  check := fun c => match keyCheck c.env c.fuel c.key with | some kind => [code kind] | none => []
  kinds := ["KeyMustBeNonOptional", "StructKeyMustBeCompact", "KeyTypeNotSupported", "StructKeyContainsDisallowedType"]
  Spec := fun c => legalKeyB c.env c.fuel c.key = true
  dec := fun _ => inferInstance

/-! ### attribute placement and repetition -/

inductive Target where
  | file | module | struct | field | interface | operation (returnsData : Bool) | parameter
  | enum | enumerator | custom | alias | typeRef
  deriving Repr, DecidableEq, Inhabited

/-- `validate_on` of the five built-in attributes -/
def invalidOn (directive : String) (t : Target) : Bool :=
  if directive == "allow" then t == .module || t == .typeRef
  else if directive == "compress" || directive == "slicedFormat" then
    (match t with | .operation _ => false | _ => true)
  else if directive == "deprecated" then t == .module || t == .typeRef || t == .file || t == .parameter
  else if directive == "oneway" then
    (match t with | .operation returnsData => returnsData | _ => true)
  else false

def nonRepeatable (a : Attr) : Bool := match attrRow a.directive with | some r => !r.repeatable | none => false

/-- elements whose attributes are validated, with their attributes. With `unvisited` also the type references the
    visitor never reaches — enum underlying types and interface bases — whose attributes the compiler does *not*
    validate (D-04b). A type reference also carries the attributes of the aliases it was resolved through. -/
def attrSites (unvisited : Bool) (P : Program) : List (Target × List Attr) :=
  let t := buildTable P
  P.flatMap fun f =>
    [(Target.file, f.fileAttrs)] ++ (match f.module with | some m => [(Target.module, m.attrs)] | none => []) ++
    f.defs.flatMap fun d =>
      let scope := fileScope f
      [((match d with
         | .struct .. => Target.struct | .iface .. => .interface | .enum .. => .enum | .custom .. => .custom
         | .alias .. => .alias), defAttrs d)] ++
      (defFieldLists d).flatMap (·.map fun fl => (Target.field, fl.attrs)) ++
      (defParamLists d).flatMap (·.map fun p => (Target.parameter, p.attrs)) ++
      (match d with
       | .iface _ _ _ _ ops => ops.map fun o => (Target.operation (!(retParams o.ret).isEmpty), o.attrs)
       | .enum _ _ _ _ _ _ es => es.map fun e => (Target.enumerator, e.attrs)
       | _ => []) ++
      ((defVisitedTRefs d ++ (if unvisited then defOtherTRefs d else [])).flatMap subRefsT).map fun r =>
        (Target.typeRef, r.attrs ++ (resolveTy t scope r.ty).2)

/-- `validate_on` for every attribute of an element -/
def placementCheck (s : Target × List Attr) : List String :=
  (s.2.filter fun a => invalidOn a.directive s.1).map fun _ => code "InvalidAttribute"

def placementRule (unvisited : Bool) : Rule where
  name := "attributes only where legal"
  κ := Target × List Attr
  ctxs := attrSites unvisited
  check := placementCheck
  kinds := ["InvalidAttribute"]
  Spec := fun s => ∀ a ∈ s.2, invalidOn a.directive s.1 = false
  dec := fun _ => inferInstance

/-- `validate_repeated_attributes` -/
def repeatCheck (s : Target × List Attr) : List String :=
  (repeats [] ((s.2.filter nonRepeatable).map (·.directive))).map fun _ => code "AttributeIsNotRepeatable"

def repeatRule (unvisited : Bool) : Rule where
  name := "attributes not repeated"
  κ := Target × List Attr
  ctxs := attrSites unvisited
  check := repeatCheck
  kinds := ["AttributeIsNotRepeatable"]
  Spec := fun s => ((s.2.filter nonRepeatable).map (·.directive)).Nodup
  dec := fun _ => inferInstance

/-- the rules of the `ValidatorVisitor` -/
def visitorRules (unvisited : Bool) : List Rule :=
  [placementRule unvisited, repeatRule unvisited, enumRangeRule, enumIntegralRule, enumUniqueRule, enumOptionalRule, enumNonEmptyRule,
   enumCompactRule, compactTagRule, enumFieldsRule, compactEmptyRule, taggedOptionalRule, dupTagRule, streamRule,
   shadowRule, aliasRule, keyRule]

/-! ## the whole pipeline -/

/-- `CompilationState::apply` / the early returns of `validate_ast`: the first phase that reports an error ends
    the compilation -/
def firstNonEmpty : List (List String) → List String
  | [] => []
  | l :: rest => if l.isEmpty then firstNonEmpty rest else l

def phases (P : Program) : List (List String) :=
  [parseCodes P, attrPatchRule.codes P, resolveRule.codes P, cycleRule.codes P, namesRule.codes P,
   (visitorRules Gen.unvisitedTypeRefAttrsValidated).flatMap (·.codes P)]

end Slicec.Validate

namespace Slicec

open Slicec.Validate

/-- the error codes the compiler reports for `P` (as a list; compared as a set) -/
def validate (P : Program) : List String := firstNonEmpty (phases P)

/-- rules after parsing, in phase order. `unvisited`: the attribute rules also cover enum underlying types and
    interface bases (not enforced by the compiler, D-04b). -/
def gatedRules (unvisited : Bool) : List Rule :=
  [attrPatchRule, resolveRule, cycleRule, namesRule] ++ visitorRules unvisited

/-- the specification: the program satisfies every language rule of the property -/
def WellFormed (P : Program) : Prop := ParseOK P ∧ ∀ r ∈ gatedRules true, r.Holds P

/-- what the compiler actually enforces. Whether the attribute rules also range over enum underlying types and interface
    bases is read off the source (`Gen.unvisitedTypeRefAttrsValidated`: true since the repair of D-04b). -/
def WellFormedAsEnforced (P : Program) : Prop := ParseOK P ∧ ∀ r ∈ gatedRules Gen.unvisitedTypeRefAttrsValidated, r.Holds P

/-- the weaker rule set in which attributes on enum underlying types and interface bases are not looked at -/
def WellFormedVisitedOnly (P : Program) : Prop := ParseOK P ∧ ∀ r ∈ gatedRules false, r.Holds P

instance (P : Program) : Decidable (WellFormed P) := by unfold WellFormed; infer_instance
instance (P : Program) : Decidable (WellFormedAsEnforced P) := by unfold WellFormedAsEnforced; infer_instance
instance (P : Program) : Decidable (WellFormedVisitedOnly P) := by unfold WellFormedVisitedOnly; infer_instance

/-- kinds of error a parse-time violation is reported with -/
def parseKinds : List String := ["IntegerLiteralOverflows", "TagValueOutOfBounds", "ReturnTuplesMustContainAtLeastTwoElements", "Syntax"]

/-- `code` is the diagnostic of a rule that `P` actually violates -/
def Violates (c : String) (P : Program) : Prop :=
  ((∃ k ∈ parseKinds, c = code k) ∧ ¬ ParseOK P) ∨
  ∃ r ∈ gatedRules Gen.unvisitedTypeRefAttrsValidated, (∃ k ∈ r.kinds, c = code k) ∧ ¬ r.Holds P

instance (c : String) (P : Program) : Decidable (Violates c P) := by unfold Violates; infer_instance

/-- sorted set of codes, `-` when empty: the projection `codes` of the `compile` engine -/
def codesProjection (cs : List String) : String :=
  let s := (sortStrings cs).eraseDups
  if s.isEmpty then "-" else ",".intercalate s

end Slicec
