/-
  Literal handling of the Slice parser (C02): `try_parse_integer`, `unescape_string_literal`, the string
  scanning of the lexer. Mirrors parsers/slice/grammar.rs and lexer.rs.
-/
import SlicecVerif.Model.Print

namespace Slicec

/-- `char::to_digit(radix)` as used by `i128::from_str_radix` (upper and lower case letters) -/
def digitVal (c : Char) : Option Nat :=
  if '0' ≤ c ∧ c ≤ '9' then some (c.toNat - 48)
  else if 'a' ≤ c ∧ c ≤ 'z' then some (c.toNat - 87)
  else if 'A' ≤ c ∧ c ≤ 'Z' then some (c.toNat - 55)
  else none

/-- digits → number, `none` on an invalid digit (`IntErrorKind::InvalidDigit`); empty input is an error too -/
def fromDigits (base : Nat) : List Char → Nat → Option Nat
  | [], acc => some acc
  | c :: cs, acc =>
    match digitVal c with
    | some d => if d < base then fromDigits base cs (acc * base + d) else none
    | none => none

/-- `try_parse_integer` on the magnitude text: strip `_`, base prefix `0b` / `0x`, then parse -/
def parseIntMag (s : List Char) : Option Nat :=
  let sanitized := s.filter (· ≠ '_')
  match sanitized with
  | '0' :: 'b' :: rest => if rest.isEmpty then none else fromDigits 2 rest 0
  | '0' :: 'x' :: rest => if rest.isEmpty then none else fromDigits 16 rest 0
  | [] => none
  | ds => fromDigits 10 ds 0

/-- `unescape_string_literal`: a backslash that is not itself escaped is dropped -/
def unescapeLit : List Char → Bool → List Char
  | [], _ => []
  | c :: cs, esc => if c == '\\' && !esc then unescapeLit cs true else c :: unescapeLit cs false

def escChar (c : Char) : List Char := if c == '"' || c == '\\' then ['\\', c] else [c]

def escapeChars : List Char → List Char
  | [] => []
  | c :: cs => escChar c ++ escapeChars cs

/-- the lexer's string scanning after the opening quote: raw content up to the first unescaped `"`;
    a backslash escapes any next character; a line break or the end of input is an error -/
def scanString : List Char → Option (List Char × List Char)
  | [] => none
  | '"' :: rest => some ([], rest)
  | '\n' :: _ => none
  | '\\' :: c :: rest =>
    if c == '\n' then none else
    match scanString rest with
    | some (s, r) => some ('\\' :: c :: s, r)
    | none => none
  | c :: rest =>
    match scanString rest with
    | some (s, r) => some (c :: s, r)
    | none => none

end Slicec
