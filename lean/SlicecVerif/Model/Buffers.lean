/-
  Model of slice-codec/src/buffer/{slice,vec}.rs (C12): fixed-slice and growable output targets with
  reservations, and the slice input source. Each operation mirrors the guard of the Rust code and the
  order "check, copy, then advance"; an error leaves the state untouched (the Rust code returns before
  any mutation).
-/
import SlicecVerif.Model.Basic

namespace Slicec

inductive BErr where
  | eob (requested remaining : Nat)
  | invalidReservation
  deriving Repr, DecidableEq

/-- `Reservation(Range<usize>)` -/
structure Res where
  start : Nat
  stop : Nat
  deriving Repr, DecidableEq

/-- overwrite `bs.length` bytes of `buf` starting at `at` (`copy_nonoverlapping` into a sub-slice) -/
def splice (buf : Bytes) (i : Nat) (bs : Bytes) : Bytes :=
  buf.take i ++ bs ++ buf.drop (i + bs.length)

/-! ## SliceOutputTarget -/

structure SliceOut where
  buf : Bytes
  pos : Nat
  deriving Repr, DecidableEq

namespace SliceOut

def remaining (s : SliceOut) : Nat := s.buf.length - s.pos

/-- `write_bytes_exact` (and `write_byte` with a one-byte slice) -/
def write (s : SliceOut) (bs : Bytes) : Except BErr SliceOut :=
  if s.remaining < bs.length then .error (.eob bs.length s.remaining)
  else .ok ⟨splice s.buf s.pos bs, s.pos + bs.length⟩

/-- `reserve_space`: only advances; the old bytes stay -/
def reserve (s : SliceOut) (k : Nat) : Except BErr (SliceOut × Res) :=
  if s.remaining < k then .error (.eob k s.remaining)
  else .ok (⟨s.buf, s.pos + k⟩, ⟨s.pos, s.pos + k⟩)

/-- `write_bytes_into_reserved_exact`: `buffer.get_mut(range)` is `None` when `start > end` or
    `end > len`; the bytes go to the front of the range, which then shrinks from the front -/
def writeRes (s : SliceOut) (r : Res) (bs : Bytes) : Except BErr (SliceOut × Res) :=
  if r.stop < r.start ∨ s.buf.length < r.stop then .error .invalidReservation
  else if r.stop - r.start < bs.length then .error (.eob bs.length (r.stop - r.start))
  else .ok (⟨splice s.buf r.start bs, s.pos⟩, ⟨r.start + bs.length, r.stop⟩)

end SliceOut

/-! ## VecOutputTarget (allocation below `isize::MAX` never fails in the model) -/

structure VecOut where
  buf : Bytes
  deriving Repr, DecidableEq

namespace VecOut

def write (s : VecOut) (bs : Bytes) : VecOut := ⟨s.buf ++ bs⟩

/-- `reserve_space` zero-fills -/
def reserve (s : VecOut) (k : Nat) : VecOut × Res :=
  (⟨s.buf ++ List.replicate k 0⟩, ⟨s.buf.length, s.buf.length + k⟩)

def writeRes (s : VecOut) (r : Res) (bs : Bytes) : Except BErr (VecOut × Res) :=
  if r.stop < r.start ∨ s.buf.length < r.stop then .error .invalidReservation
  else if r.stop - r.start < bs.length then .error (.eob bs.length (r.stop - r.start))
  else .ok (⟨splice s.buf r.start bs⟩, ⟨r.start + bs.length, r.stop⟩)

end VecOut

/-! ## SliceInputSource -/

structure SliceIn where
  buf : Bytes
  pos : Nat
  deriving Repr, DecidableEq

namespace SliceIn

def remaining (s : SliceIn) : Nat := s.buf.length - s.pos

/-- `peek_byte_slice_exact` / `peek_bytes_exact::<N>` / `peek_byte` -/
def peek (s : SliceIn) (k : Nat) : Except BErr Bytes :=
  if s.remaining < k then .error (.eob k s.remaining) else .ok ((s.buf.drop s.pos).take k)

/-- `read_*` = peek, then advance -/
def read (s : SliceIn) (k : Nat) : Except BErr (Bytes × SliceIn) :=
  match s.peek k with
  | .error e => .error e
  | .ok bs => .ok (bs, ⟨s.buf, s.pos + k⟩)

end SliceIn

/-! ## histories -/

/-- one operation of a history; reservations are referred to by their index in the list of
    reservations issued so far (`resv i`) or given as an arbitrary, possibly foreign, range -/
inductive OutOp where
  | write (bs : Bytes)
  | reserve (k : Nat)
  | resv (i : Nat) (bs : Bytes)
  | foreign (start stop : Nat) (bs : Bytes)
  deriving Repr, DecidableEq

inductive Obs where
  | ok
  | okRes (start stop : Nat)
  | err (e : BErr)
  | noSuchReservation
  deriving Repr, DecidableEq

structure SliceSt where
  tgt : SliceOut
  res : List Res
  deriving Repr, DecidableEq

def SliceSt.step (st : SliceSt) : OutOp → SliceSt × Obs
  | .write bs =>
    match st.tgt.write bs with
    | .ok t => (⟨t, st.res⟩, .ok)
    | .error e => (st, .err e)
  | .reserve k =>
    match st.tgt.reserve k with
    | .ok (t, r) => (⟨t, st.res ++ [r]⟩, .okRes r.start r.stop)
    | .error e => (st, .err e)
  | .resv i bs =>
    match st.res[i]? with
    | none => (st, .noSuchReservation)
    | some r =>
      match st.tgt.writeRes r bs with
      | .ok (t, r') => (⟨t, st.res.set i r'⟩, .okRes r'.start r'.stop)
      | .error e => (st, .err e)
  | .foreign a b bs =>
    match st.tgt.writeRes ⟨a, b⟩ bs with
    | .ok (t, r') => (⟨t, st.res⟩, .okRes r'.start r'.stop)
    | .error e => (st, .err e)

def SliceSt.run (st : SliceSt) (ops : List OutOp) : SliceSt := ops.foldl (fun s o => (s.step o).1) st

structure VecSt where
  tgt : VecOut
  res : List Res
  deriving Repr, DecidableEq

def VecSt.step (st : VecSt) : OutOp → VecSt × Obs
  | .write bs => (⟨st.tgt.write bs, st.res⟩, .ok)
  | .reserve k =>
    let (t, r) := st.tgt.reserve k
    (⟨t, st.res ++ [r]⟩, .okRes r.start r.stop)
  | .resv i bs =>
    match st.res[i]? with
    | none => (st, .noSuchReservation)
    | some r =>
      match st.tgt.writeRes r bs with
      | .ok (t, r') => (⟨t, st.res.set i r'⟩, .okRes r'.start r'.stop)
      | .error e => (st, .err e)
  | .foreign a b bs =>
    match st.tgt.writeRes ⟨a, b⟩ bs with
    | .ok (t, r') => (⟨t, st.res⟩, .okRes r'.start r'.stop)
    | .error e => (st, .err e)

def VecSt.run (st : VecSt) (ops : List OutOp) : VecSt := ops.foldl (fun s o => (s.step o).1) st

end Slicec
