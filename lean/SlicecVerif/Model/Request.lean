/-
  C08 — the encoded generator request.

  * value-level universe of the request (`SliceFileV`, `SymbolV`, `EntityInfoV`, `DocCommentV`, `TypeRefV`, `AttributeV` …):
    the Rust structs of `definition_types.rs` as Lean structures (strings as UTF-8 `Bytes`);
  * the doc-comment reading the converter consumes (`parseDoc`: comment lexer + grammar actions on the `///` lines);
  * `convertFile` / `convert` mirroring `slice_file_converter.rs` (anonymous types pushed before their users, numeric
    ids = index in the growing vector, module-scoped ids for named types, aliases flattened by the compiler,
    parameter documentation from `@param`);
  * `encodeRequest` mirroring the encoders byte for byte: macro encoders in the field order of `Gen.macroEncoders`
    (regenerated from `definition_types.rs`), the five hand-written ones by hand, discriminants from `Gen.rustEnums`,
    the request shape (`"generateCode"`, sources, references, module-less files skipped) from `Gen.request*` (main.rs);
  * `toVal*`: the request as the untyped value a schema-driven reader must get back (Model/SchemaCodec.lean).
-/
import SlicecVerif.Model.SchemaCodec
import SlicecVerif.Model.Elab
import SlicecVerif.Gen.EncoderShapes
import SlicecVerif.Gen.ParamDocs

namespace Slicec

/-- a string as the UTF-8 bytes that travel -/
def sb (s : String) : Bytes := s.toUTF8.toList

/-! ## the universe -/

structure AttributeV where
  directive : Bytes
  args : List Bytes
  deriving Repr, DecidableEq, Inhabited

/-- a `TypeId`: the index of an anonymous-type symbol of the same file (written in decimal), or a name -/
inductive TypeIdV where
  | anon (index : Nat)
  | named (id : Bytes)
  deriving Repr, DecidableEq, Inhabited

def TypeIdV.render : TypeIdV → Bytes
  | .anon j => sb (toString j)
  | .named s => s

structure TypeRefV where
  typeId : TypeIdV
  isOptional : Bool
  typeAttributes : List AttributeV
  deriving Repr, DecidableEq, Inhabited

inductive MsgCompV where
  | text (s : Bytes)
  | link (id : Bytes)
  deriving Repr, DecidableEq, Inhabited

structure DocCommentV where
  overview : List MsgCompV
  seeTags : List Bytes
  deriving Repr, DecidableEq, Inhabited

structure EntityInfoV where
  identifier : Bytes
  attributes : List AttributeV
  comment : Option DocCommentV
  deriving Repr, DecidableEq, Inhabited

structure ModuleV where
  identifier : Bytes
  attributes : List AttributeV
  deriving Repr, DecidableEq, Inhabited

structure FieldV where
  entityInfo : EntityInfoV
  tag : Option Int
  dataType : TypeRefV
  deriving Repr, DecidableEq, Inhabited

structure StructV where
  entityInfo : EntityInfoV
  isCompact : Bool
  fields : List FieldV
  deriving Repr, DecidableEq, Inhabited

structure OperationV where
  entityInfo : EntityInfoV
  isIdempotent : Bool
  parameters : List FieldV
  hasStreamedParameter : Bool
  returnType : List FieldV
  hasStreamedReturn : Bool
  deriving Repr, DecidableEq, Inhabited

structure InterfaceV where
  entityInfo : EntityInfoV
  bases : List Bytes
  operations : List OperationV
  deriving Repr, DecidableEq, Inhabited

structure EnumeratorV where
  entityInfo : EntityInfoV
  absoluteValue : Int
  hasNegativeValue : Bool
  deriving Repr, DecidableEq, Inhabited

structure BasicEnumV where
  entityInfo : EntityInfoV
  isUnchecked : Bool
  underlying : Bytes
  enumerators : List EnumeratorV
  deriving Repr, DecidableEq, Inhabited

structure VariantV where
  entityInfo : EntityInfoV
  discriminant : Int
  fields : List FieldV
  deriving Repr, DecidableEq, Inhabited

structure VariantEnumV where
  entityInfo : EntityInfoV
  isCompact : Bool
  isUnchecked : Bool
  variants : List VariantV
  deriving Repr, DecidableEq, Inhabited

structure CustomTypeV where
  entityInfo : EntityInfoV
  deriving Repr, DecidableEq, Inhabited

structure TypeAliasV where
  entityInfo : EntityInfoV
  underlyingType : TypeRefV
  deriving Repr, DecidableEq, Inhabited

structure SequenceTypeV where
  elementType : TypeRefV
  deriving Repr, DecidableEq, Inhabited

structure DictionaryTypeV where
  keyType : TypeRefV
  valueType : TypeRefV
  deriving Repr, DecidableEq, Inhabited

structure ResultTypeV where
  successType : TypeRefV
  failureType : TypeRefV
  deriving Repr, DecidableEq, Inhabited

inductive SymbolV where
  | interface (v : InterfaceV)
  | basicEnum (v : BasicEnumV)
  | variantEnum (v : VariantEnumV)
  | struct (v : StructV)
  | customType (v : CustomTypeV)
  | sequenceType (v : SequenceTypeV)
  | dictionaryType (v : DictionaryTypeV)
  | resultType (v : ResultTypeV)
  | typeAlias (v : TypeAliasV)
  deriving Repr, DecidableEq, Inhabited

structure SliceFileV where
  path : Bytes
  moduleDeclaration : ModuleV
  attributes : List AttributeV
  contents : List SymbolV
  deriving Repr, DecidableEq, Inhabited

/-- the symbol is one of the three anonymous-type kinds -/
def SymbolV.isAnon : SymbolV → Bool
  | .sequenceType _ | .dictionaryType _ | .resultType _ => true
  | _ => false

/-! ## doc comments as the comment parser reads them (parsers/comments/{lexer,grammar}.rs) -/

/- own namespace: other properties (C16) model the comment parser in full under the same names -/
namespace ReqDoc

/-- a message component before link resolution -/
inductive MComp where
  | text (s : String)
  | link (id : String)
  deriving Repr, DecidableEq, Inhabited

structure ParsedDoc where
  overview : Option (List MComp)
  params : List (String × List MComp)
  returns : List (Option String × List MComp)
  sees : List String
  deriving Repr, DecidableEq, Inhabited

def isIdChar (c : Char) : Bool := c.isAlphanum || c == '_'

/-- tokens of tag mode (block or inline) -/
inductive TagTok where
  | kw (s : String)       -- `@word`
  | ident (s : String)
  | colon
  | dcolon
  | rbrace
  deriving Repr, DecidableEq, Inhabited

/-- (`::` identifier)* -/
def scopedMore : Nat → String → List TagTok → String × List TagTok
  | 0, acc, ts => (acc, ts)
  | n + 1, acc, .dcolon :: .ident j :: ts => scopedMore n (acc ++ "::" ++ j) ts
  | _, acc, ts => (acc, ts)

/-- `ScopedIdentifier`: `::`? identifier (`::` identifier)*; returns the joined text and the remaining tokens -/
def scopedIdent : List TagTok → Option (String × List TagTok)
  | .dcolon :: .ident i :: rest => some (scopedMore rest.length ("::" ++ i) rest)
  | .ident i :: rest => some (scopedMore rest.length i rest)
  | _ => none

/-- `lex_tag_component` until the mode changes: in inline mode up to and including `}`, in block mode up to and
    including a single `:`; returns the tokens and the unread characters (`none` = lexer error) -/
def lexTag (inline : Bool) : Nat → List Char → Option (List TagTok × List Char)
  | 0, _ => none
  | fuel + 1, cs =>
    match cs.dropWhile Char.isWhitespace with
    | [] => some ([], [])
    | '@' :: rest =>
      let w := rest.takeWhile isIdChar
      match lexTag inline fuel (rest.dropWhile isIdChar) with
      | some (ts, r) => some (.kw (String.ofList w) :: ts, r)
      | none => none
    | ':' :: ':' :: rest =>
      match lexTag inline fuel rest with
      | some (ts, r) => some (.dcolon :: ts, r)
      | none => none
    | ':' :: rest =>
      if inline then
        match lexTag inline fuel rest with
        | some (ts, r) => some (.colon :: ts, r)
        | none => none
      else some ([.colon], rest)
    | '}' :: rest =>
      if inline then some ([.rbrace], rest)
      else
        match lexTag inline fuel rest with
        | some (ts, r) => some (.rbrace :: ts, r)
        | none => none
    | c :: rest =>
      if c.isAlpha then
        let w := (c :: rest).takeWhile isIdChar
        match lexTag inline fuel ((c :: rest).dropWhile isIdChar) with
        | some (ts, r) => some (.ident (String.ofList w) :: ts, r)
        | none => none
      else none

/-- `lex_message` + the `MessageComponent+` rule on one line (or the rest of a line); `none` = malformed -/
def lexMessage : Nat → List Char → Option (List MComp)
  | 0, _ => none
  | _ + 1, [] => some []
  | fuel + 1, '{' :: rest =>
    let r1 := rest.dropWhile Char.isWhitespace
    match r1 with
    | '@' :: _ =>
      -- inline tag: `{` `@link` ScopedIdentifier `}`; end of line before `}` = UnterminatedInlineTag
      match lexTag true (r1.length + 1) r1 with
      | some (.kw "link" :: ts, after) =>
        match scopedIdent ts with
        | some (id, [.rbrace]) =>
          match lexMessage fuel after with
          | some ms => some (.link id :: ms)
          | none => none
        | _ => none
      | _ => none
    | _ =>
      let txt := '{' :: (rest.takeWhile Char.isWhitespace ++ r1.takeWhile (· != '{'))
      match lexMessage fuel (r1.dropWhile (· != '{')) with
      | some ms => some (.text (String.ofList txt) :: ms)
      | none => none
  | fuel + 1, cs =>
    match lexMessage fuel (cs.dropWhile (· != '{')) with
    | some ms => some (.text (String.ofList (cs.takeWhile (· != '{'))) :: ms)
    | none => none

inductive DocLine where
  | msg (m : Option (List MComp))                      -- `None` = empty line
  | param (id : String) (inl : Option (List MComp))
  | returns (id : Option String) (inl : Option (List MComp))
  | see (id : String)
  deriving Repr, Inhabited

def nonEmpty (m : List MComp) : Option (List MComp) := if m.isEmpty then none else some m

/-- one `///` line (the text after the slashes) -/
def lexDocLine (line : String) : Option DocLine :=
  let cs := line.toList
  if (cs.dropWhile Char.isWhitespace).head? == some '@' then
    match lexTag false (cs.length + 1) cs with
    | some (.kw "param" :: .ident p :: rest, after) =>
      match rest with
      | [] => some (.param p none)
      | [.colon] => match lexMessage (after.length + 1) after with | some m => some (.param p (nonEmpty m)) | none => none
      | _ => none
    | some (.kw "returns" :: rest, after) =>
      match rest with
      | [] => some (.returns none none)
      | [.colon] => match lexMessage (after.length + 1) after with | some m => some (.returns none (nonEmpty m)) | none => none
      | [.ident r] => some (.returns (some r) none)
      | [.ident r, .colon] => match lexMessage (after.length + 1) after with | some m => some (.returns (some r) (nonEmpty m)) | none => none
      | _ => none
    | some (.kw "see" :: rest, _) =>
      match scopedIdent rest with
      | some (id, []) => some (.see id)
      | _ => none
    | _ => none
  else
    match lexMessage (cs.length + 1) cs with
    | some m => some (.msg (nonEmpty m))
    | none => none

/-- number of leading whitespace characters (`chars().take_while(|c| c.is_whitespace()).count()`; since the repair of D-16a / D-16b) -/
def leadingWs (s : String) : Nat := (s.toList.takeWhile Char.isWhitespace).length

/-- `sanitize_message_lines`, first pass: common leading whitespace -/
def commonWs : Option Nat → List (Option (List MComp)) → Option Nat
  | acc, [] => acc
  | acc, none :: ls => commonWs acc ls
  | acc, some m :: ls =>
    match m.head? with
    | some (.text t) =>
      -- a line that consists of whitespace only is skipped; an all-whitespace text followed by a link counts in full
      if m.length == 1 && leadingWs t == t.length then commonWs acc ls
      else commonWs (some (match acc with | some a => min a (leadingWs t) | none => leadingWs t)) ls
    | some (.link _) => some 0
    | none => commonWs acc ls

/-- drop the first `n` characters (all of the text when it is shorter) -/
def dropBytes (n : Nat) (s : String) : String := String.ofList (s.toList.drop n)

def sanitizeLines (ls : List (Option (List MComp))) : List MComp :=
  let c := (commonWs none ls).getD 0
  ls.flatMap fun l =>
    match l with
    | none => [.text "\n"]
    | some (.text t :: rest) => (.text (dropBytes c t) :: rest) ++ [.text "\n"]
    | some m => m ++ [.text "\n"]

def trimStartS (s : String) : String := String.ofList (s.toList.dropWhile Char.isWhitespace)

/-- `construct_section_message` -/
def sectionMessage (inl : Option (List MComp)) (ls : List (Option (List MComp))) : List MComp :=
  let value := if ls.isEmpty then [] else sanitizeLines ls
  match inl with
  | none => value
  | some (.text t :: rest) => (.text (trimStartS t) :: rest) ++ [.text "\n"] ++ value
  | some m => m ++ [.text "\n"] ++ value

def takeMsgs : List DocLine → List (Option (List MComp)) × List DocLine
  | .msg m :: ls => let (a, b) := takeMsgs ls; (m :: a, b)
  | ls => ([], ls)

/-- the block tags after the overview; a message line directly after `@see` is a syntax error -/
def parseBlocks : Nat → List DocLine → ParsedDoc → Option ParsedDoc
  | 0, _, _ => none
  | _ + 1, [], d => some d
  | fuel + 1, .param p inl :: ls, d =>
    let (ms, rest) := takeMsgs ls
    parseBlocks fuel rest { d with params := d.params ++ [(p, sectionMessage inl ms)] }
  | fuel + 1, .returns r inl :: ls, d =>
    let (ms, rest) := takeMsgs ls
    parseBlocks fuel rest { d with returns := d.returns ++ [(r, sectionMessage inl ms)] }
  | fuel + 1, .see id :: ls, d =>
    match ls with
    | .msg _ :: _ => none
    | _ => parseBlocks fuel ls { d with sees := d.sees ++ [id] }
  | _ + 1, .msg _ :: _, _ => none

def allSome {α} : List (Option α) → Option (List α)
  | [] => some []
  | none :: _ => none
  | some x :: xs => match allSome xs with | some ys => some (x :: ys) | none => none

/-- the `DocComment` of a prelude of `///` lines; `none` = no comment, or a malformed one (which the compiler drops
    with a lint) -/
def parseDoc (lines : List String) : Option ParsedDoc :=
  if lines.isEmpty then none
  else
    match allSome (lines.map lexDocLine) with
    | none => none
    | some dls =>
      let (ov, rest) := takeMsgs dls
      parseBlocks (rest.length + 1) rest
        { overview := if ov.isEmpty then none else some (sanitizeLines ov), params := [], returns := [], sees := [] }

end ReqDoc
open ReqDoc

/-! ## conversion (slice_file_converter.rs) -/

def convAttr (a : Attr) : AttributeV := let (d, args) := canonAttr a; ⟨sb d, args.map sb⟩
def convAttrs (as : List Attr) : List AttributeV := as.map convAttr

/-- `convert_doc_comment_link`: the linked entity's parser-scoped identifier, or the text as written when the link
    was not resolved (missing, or a module / parameter / primitive) -/
def convLink (t : Table) (selfKey : String) (id : String) : Bytes :=
  match findNodeWithScope t id selfKey with
  | some n => if n.kind == .module || n.kind == .parameter || n.kind == .primitive then sb id else sb n.key
  | none => sb id

def convMsg (t : Table) (selfKey : String) (m : List MComp) : List MsgCompV :=
  m.map fun c => match c with
    | .text s => .text (sb s)
    | .link id => .link (convLink t selfKey id)

def convDoc (t : Table) (selfKey : String) (d : ParsedDoc) : DocCommentV :=
  { overview := match d.overview with | some m => convMsg t selfKey m | none => []
    seeTags := d.sees.map (convLink t selfKey) }

/-- `get_entity_info_for` -/
def entityInfoOf (t : Table) (selfKey name : String) (attrs : List Attr) (doc : List String) : EntityInfoV :=
  { identifier := sb name, attributes := convAttrs attrs, comment := (parseDoc doc).map (convDoc t selfKey) }

/-- how the documentation of parameters and return members is looked up:
    `asImplemented` = `get_doc_comment_for_parameter` before the repair of D-08a (the `@param` tags for both lists);
    `asDemanded` = what the property demands (`@param` for parameters, `@returns` for return members). -/
inductive DocMode where
  | asImplemented
  | asDemanded
  deriving DecidableEq, Repr

/-- the mode the current source implements, read off `get_doc_comment_for_parameter` by the translator
    (`Gen.returnDocsFromReturnsTags`: true since the repair of D-08a) -/
def DocMode.current : DocMode := if Gen.returnDocsFromReturnsTags then .asDemanded else .asImplemented

/-- `get_doc_comment_for_parameter` -/
def paramDoc (mode : DocMode) (t : Table) (opKey : String) (opDoc : Option ParsedDoc) (isReturn : Bool) (single : Bool)
    (name : String) : Option DocCommentV :=
  match opDoc with
  | none => none
  | some d =>
    let found : Option (List MComp) :=
      if mode == .asDemanded && isReturn then
        match d.returns.find? (fun r => r.1 == some name || (single && r.1 == none)) with
        | some r => some r.2
        | none => none
      else
        match d.params.find? (fun p => p.1 == name) with
        | some p => some p.2
        | none => none
    found.map fun m => { overview := convMsg t opKey m, seeTags := [] }

abbrev Syms := List SymbolV

/-- `integer.value as i32` of a tag stored `as u32` -/
def tagI32 (l : IntLit) : Int := toSigned 32 (l.value % 2 ^ 32).toNat

mutual
/-- `convert_type_ref`: the type id first (which may push anonymous-type symbols), then the flags -/
def convTRef (t : Table) (scope : String) : Nat → TRef → Syms → TypeRefV × Syms
  | 0, _, syms => (⟨.named [], false, []⟩, syms)   -- descent bound exhausted: never with `elabFuel` on a compiled program
  | fuel + 1, .mk attrs ty opt, syms =>
    match ty with
    | .named id =>
      match resolveNamed t .type id scope with
      | .ok (.node n, extra) =>
        (⟨.named (sb (if n.kind == .primitive then n.ident else n.key)), opt, convAttrs (attrs ++ extra)⟩, syms)
      | .ok (.expr e s, extra) =>
        let (tid, syms') := convTy t s fuel e syms
        (⟨tid, opt, convAttrs (attrs ++ extra)⟩, syms')
      | .error _ => (⟨.named (sb id), opt, convAttrs attrs⟩, syms)   -- never for a program that compiled
    | e =>
      let (tid, syms') := convTy t scope fuel e syms
      (⟨tid, opt, convAttrs attrs⟩, syms')
/-- `get_type_id_for` on a written type expression -/
def convTy (t : Table) (scope : String) : Nat → TyExpr → Syms → TypeIdV × Syms
  | 0, _, syms => (.named [], syms)
  | _ + 1, .prim p, syms => (.named (sb p.kw), syms)
  | _ + 1, .named id, syms => (.named (sb id), syms)   -- unreachable: named expressions are handled by `convTRef`
  | fuel + 1, .seq e, syms =>
    let (tr, s1) := convTRef t scope fuel e syms
    (.anon s1.length, s1 ++ [.sequenceType ⟨tr⟩])
  | fuel + 1, .dict k v, syms =>
    let (kr, s1) := convTRef t scope fuel k syms
    let (vr, s2) := convTRef t scope fuel v s1
    (.anon s2.length, s2 ++ [.dictionaryType ⟨kr, vr⟩])
  | fuel + 1, .result s f, syms =>
    let (sr, s1) := convTRef t scope fuel s syms
    let (fr, s2) := convTRef t scope fuel f s1
    (.anon s2.length, s2 ++ [.resultType ⟨sr, fr⟩])
end

/-- `convert_field` -/
def convField (t : Table) (scope ckey : String) (f : Field) (syms : Syms) : FieldV × Syms :=
  let (tr, s1) := convTRef t scope elabFuel f.ty syms
  (⟨entityInfoOf t (scopedId f.name ckey) f.name f.attrs f.doc, f.tag.map tagI32, tr⟩, s1)

def convFields (t : Table) (scope ckey : String) : List Field → Syms → List FieldV × Syms
  | [], s => ([], s)
  | f :: fs, s =>
    let (x, s1) := convField t scope ckey f s
    let (xs, s2) := convFields t scope ckey fs s1
    (x :: xs, s2)

/-- `convert_parameter` -/
def convParam (mode : DocMode) (t : Table) (scope opKey : String) (opDoc : Option ParsedDoc) (isReturn single : Bool)
    (p : Param) (syms : Syms) : FieldV × Syms :=
  let (tr, s1) := convTRef t scope elabFuel p.ty syms
  (⟨{ identifier := sb p.name, attributes := convAttrs p.attrs, comment := paramDoc mode t opKey opDoc isReturn single p.name },
    p.tag.map tagI32, tr⟩, s1)

def convParams (mode : DocMode) (t : Table) (scope opKey : String) (opDoc : Option ParsedDoc) (isReturn single : Bool) :
    List Param → Syms → List FieldV × Syms
  | [], s => ([], s)
  | p :: ps, s =>
    let (x, s1) := convParam mode t scope opKey opDoc isReturn single p s
    let (xs, s2) := convParams mode t scope opKey opDoc isReturn single ps s1
    (x :: xs, s2)

def lastStream (ps : List Param) : Bool := match ps.getLast? with | some p => p.stream | none => false

def isSingleRet : Ret → Bool
  | .single .. => true
  | _ => false

/-- `convert_operation`: entity info, parameters, then return members -/
def convOp (mode : DocMode) (t : Table) (scope ikey : String) (o : Op) (syms : Syms) : OperationV × Syms :=
  let okey := scopedId o.name ikey
  let d := parseDoc o.doc
  let (ps, s1) := convParams mode t scope okey d false false o.params syms
  let (rs, s2) := convParams mode t scope okey d true (isSingleRet o.ret) (retParams o.ret) s1
  (⟨entityInfoOf t okey o.name o.attrs o.doc, o.idempotent, ps, lastStream o.params, rs, lastStream (retParams o.ret)⟩, s2)

def convOps (mode : DocMode) (t : Table) (scope ikey : String) : List Op → Syms → List OperationV × Syms
  | [], s => ([], s)
  | o :: os, s =>
    let (x, s1) := convOp mode t scope ikey o s
    let (xs, s2) := convOps mode t scope ikey os s1
    (x :: xs, s2)

/-- `convert_variant` -/
def convVariant (t : Table) (scope ekey : String) (e : Enumerator) (value : Int) (syms : Syms) : VariantV × Syms :=
  let key := scopedId e.name ekey
  let (fs, s1) := convFields t scope key (e.fields.getD []) syms
  (⟨entityInfoOf t key e.name e.attrs e.doc, value, fs⟩, s1)

def convVariants (t : Table) (scope ekey : String) : List (Enumerator × Int) → Syms → List VariantV × Syms
  | [], s => ([], s)
  | (e, v) :: es, s =>
    let (x, s1) := convVariant t scope ekey e v s
    let (xs, s2) := convVariants t scope ekey es s1
    (x :: xs, s2)

/-- `underlying_type.type_string()` of an enum's underlying type -/
def underlyingString (t : Table) (scope : String) : TRef → String
  | .mk _ ty opt =>
    (match ty with
     | .prim p => p.kw
     | .named id =>
       match resolveNamed t .primitive id scope with
       | .ok (.node n, _) => n.ident
       | .ok (.expr (.prim p) _, _) => p.kw
       | _ => id
     | _ => "?") ++ (if opt then "?" else "")

/-- one top-level definition → its symbol (anonymous types it needs are pushed first) -/
def convDef (mode : DocMode) (t : Table) (scope : String) (d : Def) (syms : Syms) : SymbolV × Syms :=
  match d with
  | .struct doc attrs compact name fields =>
    let key := scopedId name scope
    let (fs, s1) := convFields t scope key fields syms
    (.struct ⟨entityInfoOf t key name attrs doc, compact, fs⟩, s1)
  | .iface doc attrs name bases ops =>
    let key := scopedId name scope
    let bs := bases.map fun b =>
      match b.ty with
      | .named id =>
        match resolveNamed t .interface id scope with
        | .ok (.node n, _) => sb n.key
        | _ => sb id
      | _ => sb "?"
    let (os, s1) := convOps mode t scope key ops syms
    (.interface ⟨entityInfoOf t key name attrs doc, bs, os⟩, s1)
  | .enum doc attrs compact unchecked name underlying es =>
    let key := scopedId name scope
    let vals := enumValues none es
    match underlying with
    | some u =>
      (.basicEnum ⟨entityInfoOf t key name attrs doc, unchecked, sb (underlyingString t scope u),
        (es.zip vals).map fun (e, v) =>
          ⟨entityInfoOf t (scopedId e.name key) e.name e.attrs e.doc, (v.natAbs % 2 ^ 64 : Nat), decide (v < 0)⟩⟩, syms)
    | none =>
      let (vs, s1) := convVariants t scope key (es.zip vals) syms
      (.variantEnum ⟨entityInfoOf t key name attrs doc, compact, unchecked, vs⟩, s1)
  | .custom doc attrs name =>
    (.customType ⟨entityInfoOf t (scopedId name scope) name attrs doc⟩, syms)
  | .alias doc attrs name ty =>
    let (tr, s1) := convTRef t scope elabFuel ty syms
    (.typeAlias ⟨entityInfoOf t (scopedId name scope) name attrs doc, tr⟩, s1)

/-- `SliceFileContentsConverter::convert`: every definition in order, pushed after the anonymous types it uses -/
def convDefs (mode : DocMode) (t : Table) (scope : String) : List Def → Syms → Syms
  | [], s => s
  | d :: ds, s =>
    let (sym, s1) := convDef mode t scope d s
    convDefs mode t scope ds (s1 ++ [sym])

/-- `SliceFile::from`; `none` = the `unwrap()` of a missing module declaration -/
def convertFile (mode : DocMode) (t : Table) (path : String) (f : SFile) : Option SliceFileV :=
  match f.module with
  | none => none
  | some m =>
    some { path := sb path
           moduleDeclaration := ⟨sb m.path, convAttrs m.attrs⟩
           attributes := convAttrs f.fileAttrs
           contents := convDefs mode t m.path f.defs [] }

/-- one compiled file as the driver sees it -/
structure ReqFile where
  path : String
  isSource : Bool
  file : SFile

/-- the converted files that are transmitted, with their source flag, in compilation order
    (`encode_generate_code_request`: module-less files are skipped when `Gen.requestSkipsModuleless`);
    `none` = a module-less file reached `SliceFile::from` (panic) -/
def convertAll (mode : DocMode) (t : Table) : List ReqFile → Option (List (Bool × SliceFileV))
  | [] => some []
  | rf :: rest =>
    if rf.file.module.isNone && Gen.requestSkipsModuleless then convertAll mode t rest
    else
      match convertFile mode t rf.path rf.file, convertAll mode t rest with
      | some v, some vs => some ((rf.isSource, v) :: vs)
      | _, _ => none

def programOf (fs : List ReqFile) : Program := fs.map (·.file)

/-- the request content: (source files, reference files), each in compilation order -/
def convert (mode : DocMode) (fs : List ReqFile) : Option (List SliceFileV × List SliceFileV) :=
  match convertAll mode (buildTable (programOf fs)) fs with
  | none => none
  | some vs => some ((vs.filter (·.1)).map (·.2), (vs.filter (fun x => !x.1)).map (·.2))

/-! ## encoders (definition_types.rs) -/

def encSeqOf {α} (enc : α → Option Bytes) (xs : List α) : Option Bytes := withSize xs.length (encList enc xs)

/-- `implement_encode_into_for_struct!(name, f1, f2, …)`: the listed fields in the listed order, then the tag end
    marker; the list comes from `Gen.macroEncoders` -/
def encMacro (name : String) (field : String → Option Bytes) : Option Bytes :=
  match Gen.macroEncoders.lookup name with
  | some fl => catOpt (fl.map field ++ [tagEndB])
  | none => none

/-- the `repr(u8)` discriminant of a variant, written with `encode_varint` -/
def encDisc (enumName variant : String) : Option Bytes :=
  match Gen.rustEnums.find? (fun e => e.name == enumName) with
  | none => none
  | some e =>
    match e.variants.find? (fun v => v.name == variant) with
    | none => none
    | some v => encVarintI 0 256 v.disc

def encU64 (v : Int) : Option Bytes := encFixedU 8 v
def encI32 (v : Int) : Option Bytes := encFixedS 4 v
def encTagValue (v : Int) : Option Bytes := encVarintI (-(2 ^ 31)) (2 ^ 31) v

def encodeAttribute (a : AttributeV) : Option Bytes :=
  encMacro "Attribute" fun
    | "directive" => encStr a.directive
    | "args" => encSeqOf encStr a.args
    | _ => none

def encodeTypeRef (r : TypeRefV) : Option Bytes :=
  encMacro "TypeRef" fun
    | "type_id" => encStr r.typeId.render
    | "is_optional" => encBool r.isOptional
    | "type_attributes" => encSeqOf encodeAttribute r.typeAttributes
    | _ => none

/-- hand-written: discriminant, payload, tag end marker -/
def encodeMsgComp : MsgCompV → Option Bytes
  | .text s => catOpt [encDisc "MessageComponent" "Text", encStr s, tagEndB]
  | .link s => catOpt [encDisc "MessageComponent" "Link", encStr s, tagEndB]

def encodeDocComment (d : DocCommentV) : Option Bytes :=
  encMacro "DocComment" fun
    | "overview" => encSeqOf encodeMsgComp d.overview
    | "see_tags" => encSeqOf encStr d.seeTags
    | _ => none

/-- hand-written: bit sequence (one bool), identifier, attributes, the comment when present, tag end marker -/
def encodeEntityInfo (e : EntityInfoV) : Option Bytes :=
  catOpt [encBool e.comment.isSome, encStr e.identifier, encSeqOf encodeAttribute e.attributes,
          (match e.comment with | some c => encodeDocComment c | none => some []), tagEndB]

def encodeModule (m : ModuleV) : Option Bytes :=
  encMacro "Module" fun
    | "identifier" => encStr m.identifier
    | "attributes" => encSeqOf encodeAttribute m.attributes
    | _ => none

/-- hand-written: bit sequence (one bool), entity info, the tag (varint32) when present, data type, tag end marker -/
def encodeField (f : FieldV) : Option Bytes :=
  catOpt [encBool f.tag.isSome, encodeEntityInfo f.entityInfo,
          (match f.tag with | some v => encTagValue v | none => some []), encodeTypeRef f.dataType, tagEndB]

def encodeStruct (s : StructV) : Option Bytes :=
  encMacro "Struct" fun
    | "entity_info" => encodeEntityInfo s.entityInfo
    | "is_compact" => encBool s.isCompact
    | "fields" => encSeqOf encodeField s.fields
    | _ => none

def encodeOperation (o : OperationV) : Option Bytes :=
  encMacro "Operation" fun
    | "entity_info" => encodeEntityInfo o.entityInfo
    | "is_idempotent" => encBool o.isIdempotent
    | "parameters" => encSeqOf encodeField o.parameters
    | "has_streamed_parameter" => encBool o.hasStreamedParameter
    | "return_type" => encSeqOf encodeField o.returnType
    | "has_streamed_return" => encBool o.hasStreamedReturn
    | _ => none

def encodeInterface (i : InterfaceV) : Option Bytes :=
  encMacro "Interface" fun
    | "entity_info" => encodeEntityInfo i.entityInfo
    | "bases" => encSeqOf encStr i.bases
    | "operations" => encSeqOf encodeOperation i.operations
    | _ => none

def encodeEnumerator (e : EnumeratorV) : Option Bytes :=
  encMacro "Enumerator" fun
    | "entity_info" => encodeEntityInfo e.entityInfo
    | "absolute_value" => encU64 e.absoluteValue
    | "has_negative_value" => encBool e.hasNegativeValue
    | _ => none

def encodeBasicEnum (e : BasicEnumV) : Option Bytes :=
  encMacro "BasicEnum" fun
    | "entity_info" => encodeEntityInfo e.entityInfo
    | "is_unchecked" => encBool e.isUnchecked
    | "underlying" => encStr e.underlying
    | "enumerators" => encSeqOf encodeEnumerator e.enumerators
    | _ => none

def encodeVariant (v : VariantV) : Option Bytes :=
  encMacro "Variant" fun
    | "entity_info" => encodeEntityInfo v.entityInfo
    | "discriminant" => encI32 v.discriminant
    | "fields" => encSeqOf encodeField v.fields
    | _ => none

def encodeVariantEnum (e : VariantEnumV) : Option Bytes :=
  encMacro "VariantEnum" fun
    | "entity_info" => encodeEntityInfo e.entityInfo
    | "is_compact" => encBool e.isCompact
    | "is_unchecked" => encBool e.isUnchecked
    | "variants" => encSeqOf encodeVariant e.variants
    | _ => none

def encodeCustomType (c : CustomTypeV) : Option Bytes :=
  encMacro "CustomType" fun
    | "entity_info" => encodeEntityInfo c.entityInfo
    | _ => none

def encodeTypeAlias (a : TypeAliasV) : Option Bytes :=
  encMacro "TypeAlias" fun
    | "entity_info" => encodeEntityInfo a.entityInfo
    | "underlying_type" => encodeTypeRef a.underlyingType
    | _ => none

def encodeSequenceType (s : SequenceTypeV) : Option Bytes :=
  encMacro "SequenceType" fun
    | "element_type" => encodeTypeRef s.elementType
    | _ => none

def encodeDictionaryType (d : DictionaryTypeV) : Option Bytes :=
  encMacro "DictionaryType" fun
    | "key_type" => encodeTypeRef d.keyType
    | "value_type" => encodeTypeRef d.valueType
    | _ => none

def encodeResultType (r : ResultTypeV) : Option Bytes :=
  encMacro "ResultType" fun
    | "success_type" => encodeTypeRef r.successType
    | "failure_type" => encodeTypeRef r.failureType
    | _ => none

/-- hand-written: discriminant, payload, tag end marker -/
def encodeSymbol : SymbolV → Option Bytes
  | .interface v => catOpt [encDisc "Symbol" "Interface", encodeInterface v, tagEndB]
  | .basicEnum v => catOpt [encDisc "Symbol" "BasicEnum", encodeBasicEnum v, tagEndB]
  | .variantEnum v => catOpt [encDisc "Symbol" "VariantEnum", encodeVariantEnum v, tagEndB]
  | .struct v => catOpt [encDisc "Symbol" "Struct", encodeStruct v, tagEndB]
  | .customType v => catOpt [encDisc "Symbol" "CustomType", encodeCustomType v, tagEndB]
  | .sequenceType v => catOpt [encDisc "Symbol" "SequenceType", encodeSequenceType v, tagEndB]
  | .dictionaryType v => catOpt [encDisc "Symbol" "DictionaryType", encodeDictionaryType v, tagEndB]
  | .resultType v => catOpt [encDisc "Symbol" "ResultType", encodeResultType v, tagEndB]
  | .typeAlias v => catOpt [encDisc "Symbol" "TypeAlias", encodeTypeAlias v, tagEndB]

def encodeSliceFile (f : SliceFileV) : Option Bytes :=
  encMacro "SliceFile" fun
    | "path" => encStr f.path
    | "module_declaration" => encodeModule f.moduleDeclaration
    | "attributes" => encSeqOf encodeAttribute f.attributes
    | "contents" => encSeqOf encodeSymbol f.contents
    | _ => none

/-- `encode_generate_code_request`: the operation name, then the vectors in the order of `Gen.requestVectors` -/
def encodeRequest (sources references : List SliceFileV) : Option Bytes :=
  catOpt (encStr (sb Gen.requestOpName) ::
    Gen.requestVectors.map fun
      | "sources" => encSeqOf encodeSliceFile sources
      | "references" => encSeqOf encodeSliceFile references
      | _ => none)

/-- `Arguments`: size, then each (key, value) -/
def encodeArguments (args : List (Bytes × Bytes)) : Option Bytes :=
  withSize args.length (encList (encPair encStr encStr) args)

/-- what the driver prints: the request bytes of a compiled program in hex, `panic` when the converter would
    `unwrap()` a missing module, `refused` when the encoder would return an error -/
def requestObservation (mode : DocMode) (fs : List ReqFile) (args : Option (List (String × String))) : String :=
  match convert mode fs with
  | none => "panic"
  | some (srcs, refs) =>
    match encodeRequest srcs refs, (match args with | some a => encodeArguments (a.map fun (k, v) => (sb k, sb v)) | none => some []) with
    | some bs, some ab => hexField (bs ++ ab)
    | _, _ => "refused"

/-! ## the request as the untyped value of the schema-driven reader -/

def toValAttribute (a : AttributeV) : SVal := .struct [.str a.directive, .list (a.args.map .str)]
def toValTypeRef (r : TypeRefV) : SVal :=
  .struct [.str r.typeId.render, .bool r.isOptional, .list (r.typeAttributes.map toValAttribute)]
def toValMsgComp : MsgCompV → SVal
  | .text s => .variant 0 [.str s]
  | .link s => .variant 1 [.str s]
def toValDocComment (d : DocCommentV) : SVal := .struct [.list (d.overview.map toValMsgComp), .list (d.seeTags.map .str)]
def toValEntityInfo (e : EntityInfoV) : SVal :=
  .struct [.str e.identifier, .list (e.attributes.map toValAttribute),
           match e.comment with | some c => .present (toValDocComment c) | none => .absent]
def toValModule (m : ModuleV) : SVal := .struct [.str m.identifier, .list (m.attributes.map toValAttribute)]
def toValField (f : FieldV) : SVal :=
  .struct [toValEntityInfo f.entityInfo, (match f.tag with | some v => .present (.int v) | none => .absent), toValTypeRef f.dataType]
def toValStruct (s : StructV) : SVal := .struct [toValEntityInfo s.entityInfo, .bool s.isCompact, .list (s.fields.map toValField)]
def toValOperation (o : OperationV) : SVal :=
  .struct [toValEntityInfo o.entityInfo, .bool o.isIdempotent, .list (o.parameters.map toValField), .bool o.hasStreamedParameter,
           .list (o.returnType.map toValField), .bool o.hasStreamedReturn]
def toValInterface (i : InterfaceV) : SVal :=
  .struct [toValEntityInfo i.entityInfo, .list (i.bases.map .str), .list (i.operations.map toValOperation)]
def toValEnumerator (e : EnumeratorV) : SVal := .struct [toValEntityInfo e.entityInfo, .int e.absoluteValue, .bool e.hasNegativeValue]
def toValBasicEnum (e : BasicEnumV) : SVal :=
  .struct [toValEntityInfo e.entityInfo, .bool e.isUnchecked, .str e.underlying, .list (e.enumerators.map toValEnumerator)]
def toValVariant (v : VariantV) : SVal := .struct [toValEntityInfo v.entityInfo, .int v.discriminant, .list (v.fields.map toValField)]
def toValVariantEnum (e : VariantEnumV) : SVal :=
  .struct [toValEntityInfo e.entityInfo, .bool e.isCompact, .bool e.isUnchecked, .list (e.variants.map toValVariant)]
def toValCustomType (c : CustomTypeV) : SVal := .struct [toValEntityInfo c.entityInfo]
def toValTypeAlias (a : TypeAliasV) : SVal := .struct [toValEntityInfo a.entityInfo, toValTypeRef a.underlyingType]
def toValSequenceType (s : SequenceTypeV) : SVal := .struct [toValTypeRef s.elementType]
def toValDictionaryType (d : DictionaryTypeV) : SVal := .struct [toValTypeRef d.keyType, toValTypeRef d.valueType]
def toValResultType (r : ResultTypeV) : SVal := .struct [toValTypeRef r.successType, toValTypeRef r.failureType]
def toValSymbol : SymbolV → SVal
  | .interface v => .variant 0 [toValInterface v]
  | .basicEnum v => .variant 1 [toValBasicEnum v]
  | .variantEnum v => .variant 2 [toValVariantEnum v]
  | .struct v => .variant 3 [toValStruct v]
  | .customType v => .variant 4 [toValCustomType v]
  | .sequenceType v => .variant 5 [toValSequenceType v]
  | .dictionaryType v => .variant 6 [toValDictionaryType v]
  | .resultType v => .variant 7 [toValResultType v]
  | .typeAlias v => .variant 8 [toValTypeAlias v]
def toValSliceFile (f : SliceFileV) : SVal :=
  .struct [.str f.path, toValModule f.moduleDeclaration, .list (f.attributes.map toValAttribute), .list (f.contents.map toValSymbol)]

/-- the decoded call: `[sourceFiles, referenceFiles]` -/
def toValRequest (sources references : List SliceFileV) : List SVal :=
  [.list (sources.map toValSliceFile), .list (references.map toValSliceFile)]

end Slicec
