/-
  Locations of the comment lexer's tokens (slicec/src/parsers/comments/lexer.rs), C09.

  `Model/Comment.lean` models WHAT the comment lexer returns (C16); this file adds WHERE: the lexer's `cursor`
  (`switch_to_next_line` sets it to the START of the span the line came with — the position right after `///`, as the
  Slice lexer delivers it (`content_start_loc`) —, `advance_buffer` does `self.cursor.col += 1` for every consumed
  character, whatever it is: tab, CR, multi-byte, astral; the row is never touched) and the two locations every token /
  error is returned with (`(start_location, kind, self.cursor)`).  The token and error *kinds* are those of
  `Model/Comment.lean` (`CTok`, `CLexErr`, `LMode`, `startMode`, `readTagKeyword` with the extracted keyword table);
  forgetting the locations gives back that model exactly (`lexCommentLoc_erase` in Lemmas/CommentLoc.lean).

  What the Rust code does, arm by arm:
  * `switch_to_next_line(line, span)`: `cursor = span.start` (`span.end` is never read by the lexer), mode from the line;
  * `lex_message`: `start_location = self.cursor` before anything is consumed; at `{` the brace and the following
    whitespace are consumed, and if `@` comes next the `LeftBrace` token is returned with `end = self.cursor`, i.e. the
    token extends over `{` AND the whitespace behind it; otherwise (and for any other first character) everything up to
    the next `{` is one `Text` from `start_location` to the cursor;
  * `lex_tag_component`: `skip_whitespace` first (the cursor moves), then `start_location = self.cursor`:
    a tag keyword / `UnknownTag` / `MissingTag` / `IncorrectContextForTag` runs from the `@` to the end of the
    alphanumeric run behind it, `::` two columns, `:` and `}` one, an identifier its alphanumeric run, an unknown symbol
    one column;
  * end of line: `UnterminatedInlineTag` and `Newline` are zero-width at the cursor, which has passed every character of
    the line (`while self.buffer.peek().is_some()`); the `Newline` is built BEFORE `switch_to_next_line` moves the cursor
    to the next line.
-/
import SlicecVerif.Model.Comment
import SlicecVerif.Model.Print

namespace Slicec

/-- one line of a raw doc comment as the Slice parser hands it to `CommentParser::parse_doc_comment`
    (`Prelude` in slice/grammar.lalrpop: `(comment, Span::new(l, r, file))` of a `doc_comment` token):
    the text after `///` (a `'\r'` in front of the line break stripped) and the token's span —
    `start` = the location right after `///`, `stop` = the end of the line (behind a stripped `'\r'`). -/
structure CLine where
  text : Str
  start : Loc
  stop : Loc
  deriving DecidableEq, Repr, Inhabited

/-- the location of character offset `k` of the line (columns count characters) -/
def CLine.at (l : CLine) (k : Nat) : Loc := ⟨l.start.row, l.start.col + k⟩

/-- the position behind the last character of the line's text -/
def CLine.endLoc (l : CLine) : Loc := l.at l.text.length

/-- `advance_buffer`: `self.cursor.col += 1` (the consumed character is not looked at) -/
def cadv (l : Loc) : Loc := ⟨l.row, l.col + 1⟩

/-- the loops `while matches!(self.buffer.peek(), Some(c) if p(c)) { self.advance_buffer() }`
    (`skip_whitespace`, `read_identifier`, the text loop of `lex_message`): the cursor when the loop ends -/
def cadvWhile (p : Char → Bool) : Loc → Str → Loc
  | cur, [] => cur
  | cur, c :: cs => if p c then cadvWhile p (cadv cur) cs else cur

/-- `Token = (Location, TokenKind, Location)` -/
structure LCTok where
  start : Loc
  tok : CTok
  stop : Loc
  deriving DecidableEq, Repr, Inhabited

/-- `Error = (Location, ErrorKind, Location)` -/
structure LCErr where
  start : Loc
  err : CLexErr
  stop : Loc
  deriving DecidableEq, Repr, Inhabited

/-- `read_tag_keyword` with the cursor: `start` = the cursor AT the `@` (`start_location`), `afterAt` = the buffer behind
    it. The `@` is consumed, then `read_identifier`; every arm (keyword, `MissingTag`, `UnknownTag`, and the
    `IncorrectContextForTag` built from `(*start, error, *end)`) is returned with `(start_location, _, self.cursor)`.
    Result: token or error, rest of the buffer, cursor. -/
def readTagKeywordLoc (mode : LMode) (start : Loc) (afterAt : Str) : Except LCErr LCTok × Str × Loc :=
  let cur1 := cadv start                          -- `self.advance_buffer()` over the `@`
  let cur2 := cadvWhile isIdCharC cur1 afterAt    -- `read_identifier`
  match readTagKeyword mode afterAt with
  | (.ok t, rest) => (.ok ⟨start, t, cur2⟩, rest, cur2)
  | (.error e, rest) => (.error ⟨start, e, cur2⟩, rest, cur2)

/-- `lex_message` on a non-empty buffer, with the cursor. Result: token, next mode, rest of the buffer, cursor. -/
def lexMessageLoc (cur : Loc) (cs : Str) : LCTok × LMode × Str × Loc :=
  match cs with
  | '{' :: rest =>
    let cur1 := cadv cur                          -- consume the `{`
    let cur2 := cadvWhile isWsC cur1 rest         -- `skip_whitespace`
    let ws := rest.takeWhile isWsC
    let rest' := rest.dropWhile isWsC
    match rest' with
    | '@' :: _ => (⟨cur, .lbrace, cur2⟩, .inlineTag, rest', cur2)
    | _ =>
      let cur3 := cadvWhile (· != '{') cur2 rest'
      (⟨cur, .text ('{' :: ws ++ rest'.takeWhile (· != '{')), cur3⟩, .message, rest'.dropWhile (· != '{'), cur3)
  | _ =>
    let cur1 := cadvWhile (· != '{') cur cs
    (⟨cur, .text (cs.takeWhile (· != '{')), cur1⟩, .message, cs.dropWhile (· != '{'), cur1)

inductive LTagStep where
  | eol (cur : Loc)                                              -- only whitespace was left; the cursor has passed it
  | tok (t : LCTok) (m : LMode) (rest : Str) (cur : Loc)
  | err (e : LCErr)

/-- forgetting the locations -/
def LTagStep.erase : LTagStep → TagStep
  | .eol _ => .eol
  | .tok t m rest _ => .tok t.tok m rest
  | .err e => .err e.err

/-- `lex_tag_component` (modes `BlockTag` and `InlineTag`), with the cursor -/
def lexTagComponentLoc (mode : LMode) (cur : Loc) (cs : Str) : LTagStep :=
  let cur0 := cadvWhile isWsC cur cs              -- `skip_whitespace`; every arm: `start_location = self.cursor`
  match cs.dropWhile isWsC with
  | [] => .eol cur0
  | '@' :: rest =>
    match readTagKeywordLoc mode cur0 rest with
    | (.ok t, r, c) => .tok t mode r c
    | (.error e, _, _) => .err e
  | ':' :: ':' :: rest => .tok ⟨cur0, .dcolon, cadv (cadv cur0)⟩ mode rest (cadv (cadv cur0))
  | ':' :: rest => .tok ⟨cur0, .colon, cadv cur0⟩ (if mode == .blockTag then .message else mode) rest (cadv cur0)
  | '}' :: rest => .tok ⟨cur0, .rbrace, cadv cur0⟩ (if mode == .inlineTag then .message else mode) rest (cadv cur0)
  | c :: rest =>
    if c.isAlpha then
      let cur1 := cadvWhile isIdCharC cur0 (c :: rest)
      .tok ⟨cur0, .ident ((c :: rest).takeWhile isIdCharC), cur1⟩ mode ((c :: rest).dropWhile isIdCharC) cur1
    else .err ⟨cur0, .unknownSymbol c, cadv cur0⟩

/-- located tokens up to the first lexer error, and that error -/
structure LLexOut where
  toks : List LCTok
  err : Option LCErr
  deriving DecidableEq, Repr, Inhabited

def LLexOut.cons (t : LCTok) (o : LLexOut) : LLexOut := ⟨t :: o.toks, o.err⟩

/-- forgetting the locations -/
def LLexOut.erase (o : LLexOut) : LexOut := ⟨o.toks.map (·.tok), o.err.map (·.err)⟩

/-- one line from cursor `cur` on (`Iterator::next` until the line is used up; fuel as in `lexLine`).
    End of line: `InlineTag` → `(self.cursor, UnterminatedInlineTag, self.cursor)`, otherwise
    `newline_token = (self.cursor, Newline, self.cursor)` — taken before the lexer switches to the next line. -/
def lexLineLoc : Nat → LMode → Loc → Str → LLexOut
  | 0, _, _, _ => ⟨[], none⟩
  | fuel + 1, mode, cur, cs =>
    match cs with
    | [] =>
      match mode with
      | .inlineTag => ⟨[], some ⟨cur, .unterminatedInlineTag, cur⟩⟩
      | _ => ⟨[⟨cur, .newline, cur⟩], none⟩
    | _ :: _ =>
      match mode with
      | .message =>
        match lexMessageLoc cur cs with
        | (t, m, rest, cur') => (lexLineLoc fuel m cur' rest).cons t
      | _ =>
        match lexTagComponentLoc mode cur cs with
        | .eol cur' => lexLineLoc fuel mode cur' []
        | .tok t m rest cur' => (lexLineLoc fuel m cur' rest).cons t
        | .err e => ⟨[], some e⟩

/-- `switch_to_next_line(line, span)`: position 0, `cursor = span.start`, mode from the line's text -/
def lexOneLineLoc (l : CLine) : LLexOut := lexLineLoc (l.text.length + 2) (startMode l.text) l.start l.text

/-- the whole comment: the lines one after the other, each from its own span's start -/
def lexCommentLoc : List CLine → LLexOut
  | [] => ⟨[], none⟩
  | l :: ls =>
    let o := lexOneLineLoc l
    match o.err with
    | some _ => o
    | none => let r := lexCommentLoc ls; ⟨o.toks ++ r.toks, r.err⟩

/-! ## spellings: which characters a token / an error is made of -/

/-- `mid` is the text a token of kind `t` covers, `post` what follows it on the line.
    A keyword is `@` + a row of the extracted table; a `LeftBrace` is the `{` and the whitespace the lexer skipped behind
    it (the `@` of the inline tag follows); a `Text` runs to the next `{` or to the end of the line unless it begins with
    a `{` that opens no inline tag; a `Newline` is the empty text at the end of the line. -/
def cspells : CTok → Str → Str → Prop
  | .ident s, mid, _ => mid = s ∧ mid ≠ []
  | .text s, mid, _ => mid = s ∧ mid ≠ []
  | .newline, mid, post => mid = [] ∧ post = []
  | .kw k, mid, _ => ∃ name inl, (name, k, inl) ∈ Gen.commentTagKeywords ∧ mid = '@' :: name
  | .lbrace, mid, post => ∃ ws, mid = '{' :: ws ∧ ws.all isWsC = true ∧ post.head? = some '@'
  | .rbrace, mid, _ => mid = ['}']
  | .colon, mid, _ => mid = [':']
  | .dcolon, mid, _ => mid = [':', ':']

/-- the text an error covers: an unknown symbol is that character, a tag error the `@` and the alphanumeric run behind
    it, `UnterminatedInlineTag` the empty text at the end of the line -/
def cerrSpells : CLexErr → Str → Str → Prop
  | .unknownSymbol c, mid, _ => mid = [c]
  | .unknownTag t, mid, _ => mid = '@' :: t
  | .missingTag, mid, _ => mid = ['@']
  | .unterminatedInlineTag, mid, post => mid = [] ∧ post = []
  | .incorrectContext tag _, mid, _ => mid = '@' :: tag

/-! ## canonical text (what the `comments` engine of the harness prints for op `lexloc`) -/

def locS (a b : Loc) : String := s!"{a.row}.{a.col}-{b.row}.{b.col}"

def ltokS (t : LCTok) : String := tokS t.tok ++ "@" ++ locS t.start t.stop

def lerrS (e : LCErr) : String := lexErrS e.err ++ "@" ++ locS e.start e.stop

def llexOutS (o : LLexOut) : String :=
  let ts := o.toks.map ltokS ++ (match o.err with | some e => [lerrS e] | none => [])
  if ts.isEmpty then "-" else ",".intercalate ts

end Slicec
