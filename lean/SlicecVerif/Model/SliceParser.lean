/-
  Executable model of the Slice parser (slicec/src/parsers/slice/grammar.lalrpop + the actions of grammar.rs), C02:
  a recursive-descent parser over the token list of Model/SliceLexer.lean that produces the abstract syntax of
  Model/Syntax.lean.  One function per nonterminal of the grammar (`productions` below lists them with their
  right-hand sides; `Gen/SliceGrammar.lean` is the list extracted from grammar.lalrpop, Props/C02 proves them equal).

  The grammar is LR(1); after left-factoring the common `Prelude` prefix every choice is decided by the next token,
  so the descent is deterministic and accepts exactly the language of the grammar:
    * `Prelude` = any interleaving of doc comments and `[attribute]`s (the AST keeps the two lists separately);
    * `UndelimitedList<T>` = `(T ","?)*`, `T*`, `FileAttribute*`, `LocalAttribute*`, `Definition*` are all `manyF`
      over a *step* (`none` = syntax error, `some none` = no element starts here, `some (some (x, rest))` = element);
      an element starts where its first token after the prelude says so; a non-empty prelude that is not followed by
      an element is an error (the LR automaton has already reduced `Prelude`);
    * `NonEmptyCommaList<T>` = `T ("," T)* ","?`, `CommaList<T>` = that or nothing.
  Recursion: only type expressions nest (`parseTypeRefF`, fuel = nesting depth ≤ number of tokens); lists use `manyF`
  (fuel = number of elements ≤ number of tokens). Every entry point supplies `length + 1`, and
  Lemmas/SliceParserFuel.lean proves that more fuel never changes a result (the fuel is never exhausted).

  What the *actions* add to the grammar is modelled too where it is about syntax: a doc comment on a module or on a
  parameter is accepted by the grammar and reported as a syntax error (E002) by the action — the `Bool` next to the
  results ("an action reported a syntax error"); `moduleRequired` is the check `parse_file` makes after the parser.
  Integer literals: `try_parse_integer` (an invalid literal is a non-syntax error and yields the dummy value 0).
-/
import SlicecVerif.Model.SliceLexer
import SlicecVerif.Model.Literals

namespace Slicec.SPar

open Slicec Slicec.SLex

abbrev Toks := List SliceTok

/-- a parser: the value and the unread tokens, `none` = syntax error -/
abbrev P (α : Type) := Toks → Option (α × Toks)

/-! ## lists -/

/-- one step of a list: `none` = syntax error, `some none` = no (further) element starts here -/
abbrev Step (α : Type) := Toks → Option (Option (α × Toks))

/-- `X*`: elements as long as one starts -/
def manyF {α : Type} (step : Step α) : Nat → Toks → Option (List α × Toks)
  | 0, _ => none
  | n + 1, ts =>
    match step ts with
    | none => none
    | some none => some ([], ts)
    | some (some (a, r)) =>
      match manyF step n r with
      | some (as, r') => some (a :: as, r')
      | none => none

/-- `X*` with enough fuel: every element consumes at least one token -/
def many {α : Type} (step : Step α) (ts : Toks) : Option (List α × Toks) := manyF step (ts.length + 1) ts

/-- `","?` -/
def skipComma : Toks → Toks
  | .comma :: r => r
  | r => r

/-! ## identifiers -/

def joinScoped (segs : List (List Char)) : String := "::".intercalate (segs.map String.ofList)

/-- `("::" <identifier>)*`; a `::` that is not followed by an identifier is an error (nothing else can follow `::`) -/
def parseScopedTail : Toks → Option (List (List Char) × Toks)
  | .dcolon :: .ident s :: r =>
    match parseScopedTail r with
    | some (v, r') => some (s :: v, r')
    | none => none
  | .dcolon :: _ => none
  | r => some ([], r)

/-- `RelativeIdentifier`: `identifier ("::" identifier)*`, joined with `::` -/
def parseRelIdent : P String
  | .ident s :: r =>
    match parseScopedTail r with
    | some (v, r') => some (joinScoped (s :: v), r')
    | none => none
  | _ => none

/-- `GlobalIdentifier`: `("::" identifier)+`, joined with a leading `::` -/
def parseGlobalIdent : P String
  | .dcolon :: .ident s :: r =>
    match parseScopedTail r with
    | some (v, r') => some (joinScoped ([] :: s :: v), r')
    | none => none
  | _ => none

/-! ## attributes -/

/-- `AttributeArgument` -/
def argOf : SliceTok → Option String
  | .strLit s => some (String.ofList (unescapeLit s false))
  | .ident s => some (String.ofList s)
  | _ => none

/-- after an argument: `("," arg)* ","? ")"` -/
def parseArgsTail : Toks → Option (List String × Toks)
  | .rparen :: r => some ([], r)
  | .comma :: .rparen :: r => some ([], r)
  | .comma :: t :: r =>
    match argOf t with
    | some x =>
      match parseArgsTail r with
      | some (xs, r') => some (x :: xs, r')
      | none => none
    | none => none
  | _ => none

/-- after `(`: `CommaList<AttributeArgument> ")"` -/
def parseArgs : Toks → Option (List String × Toks)
  | .rparen :: r => some ([], r)
  | t :: r =>
    match argOf t with
    | some x =>
      match parseArgsTail r with
      | some (xs, r') => some (x :: xs, r')
      | none => none
    | none => none
  | [] => none

/-- `Attribute`: `RelativeIdentifier ("(" CommaList<AttributeArgument> ")")?` -/
def parseAttribute : P Attr := fun ts =>
  match parseRelIdent ts with
  | none => none
  | some (d, r) =>
    match r with
    | .lparen :: r1 =>
      match parseArgs r1 with
      | some (args, r2) => some (⟨d, args⟩, r2)
      | none => none
    | _ => some (⟨d, []⟩, r)

/-- `LocalAttribute*` -/
def localAttrStep : Step Attr
  | .lbracket :: r =>
    match parseAttribute r with
    | some (a, .rbracket :: r') => some (some (a, r'))
    | _ => none
  | _ => some none

/-- `FileAttribute*` -/
def fileAttrStep : Step Attr
  | .dlbracket :: r =>
    match parseAttribute r with
    | some (a, .drbracket :: r') => some (some (a, r'))
    | _ => none
  | _ => some none

/-- one element of a `Prelude` -/
inductive PreItem where
  | doc (s : String)
  | attr (a : Attr)
  deriving Inhabited

def preludeStep : Step PreItem
  | .doc s :: r => some (some (.doc (String.ofList s), r))
  | .lbracket :: r =>
    match parseAttribute r with
    | some (a, .rbracket :: r') => some (some (.attr a, r'))
    | _ => none
  | _ => some none

def preDocs : List PreItem → List String
  | [] => []
  | .doc s :: r => s :: preDocs r
  | .attr _ :: r => preDocs r

def preAttrs : List PreItem → List Attr
  | [] => []
  | .doc _ :: r => preAttrs r
  | .attr a :: r => a :: preAttrs r

/-- `Prelude`: doc comment lines and local attributes in any order -/
def parsePrelude : P (List String × List Attr) := fun ts =>
  match many preludeStep ts with
  | some (items, r) => some ((preDocs items, preAttrs items), r)
  | none => none

/-- the common frame of the lists whose elements start with a `Prelude` (fields, parameters, enumerators, operations,
    definitions): read a prelude; if an element starts after it (`starts`), its `body` must follow, then `","?` where the
    list allows one; a prelude that is not empty and not followed by an element is an error; otherwise the list ends -/
def preStep {α : Type} (starts : Toks → Bool) (body : List String → List Attr → P α) (comma : Bool) : Step α := fun ts =>
  match parsePrelude ts with
  | none => none
  | some ((docs, attrs), r) =>
    if starts r then
      match body docs attrs r with
      | some (x, r') => some (some (x, if comma then skipComma r' else r'))
      | none => none
    else if docs.isEmpty && attrs.isEmpty then some none
    else none

/-! ## integers -/

/-- `try_parse_integer`: underscores removed, base from the prefix, an unparsable literal gives the dummy value 0
    (and a non-syntax error); the `IntLit` also remembers the base and whether underscores were written -/
def intOfText (s : List Char) : IntLit :=
  let sanitized := s.filter (· ≠ '_')
  let base := match sanitized with
    | '0' :: 'b' :: _ => 2
    | '0' :: 'x' :: _ => 16
    | _ => 10
  ⟨false, base, (parseIntMag s).getD 0, s.contains '_'⟩

/-- `SignedInteger`: `Integer | "-" Integer` -/
def parseSignedInt : P IntLit
  | .intLit s :: r => some (intOfText s, r)
  | .minus :: .intLit s :: r => some ({ intOfText s with neg := true }, r)
  | _ => none

/-- `Tag?`: `tag "(" SignedInteger ")"` -/
def parseTagOpt : P (Option IntLit)
  | .kw "TagKeyword" :: .lparen :: r =>
    match parseSignedInt r with
    | some (l, .rparen :: r') => some (some l, r')
    | _ => none
  | .kw "TagKeyword" :: _ => none
  | r => some (none, r)

/-! ## types -/

/-- `Primitive` -/
def primOfKind (k : String) : Option Prim :=
  Prim.all.find? fun p => Gen.sliceKeywords.lookup p.kw == some k

/-- the end of a `TypeRef`: `"?"?` -/
def finTy (attrs : List Attr) (ty : TyExpr) : Toks → Option (TRef × Toks)
  | .qmark :: r => some (.mk attrs ty true, r)
  | r => some (.mk attrs ty false, r)

/-- `TypeRefDefinition "?"?` after the local attributes; `rec` parses the nested type references -/
def tyBody (rec : P TRef) (attrs : List Attr) : P TRef
  | .kw k :: r1 =>
    if k == "SequenceKeyword" then
      match r1 with
      | .lchevron :: r2 =>
        match rec r2 with
        | some (e, .rchevron :: r3) => finTy attrs (.seq e) r3
        | _ => none
      | _ => none
    else if k == "DictionaryKeyword" then
      match r1 with
      | .lchevron :: r2 =>
        match rec r2 with
        | some (k', .comma :: r3) =>
          match rec r3 with
          | some (v, .rchevron :: r4) => finTy attrs (.dict k' v) r4
          | _ => none
        | _ => none
      | _ => none
    else if k == "ResultKeyword" then
      match r1 with
      | .lchevron :: r2 =>
        match rec r2 with
        | some (s, .comma :: r3) =>
          match rec r3 with
          | some (f, .rchevron :: r4) => finTy attrs (.result s f) r4
          | _ => none
        | _ => none
      | _ => none
    else
      match primOfKind k with
      | some p => finTy attrs (.prim p) r1
      | none => none
  | .ident s :: r =>
    match parseRelIdent (.ident s :: r) with
    | some (id, r1) => finTy attrs (.named id) r1
    | none => none
  | .dcolon :: r =>
    match parseGlobalIdent (.dcolon :: r) with
    | some (id, r1) => finTy attrs (.named id) r1
    | none => none
  | _ => none

/-- `TypeRef`: `LocalAttribute* TypeRefDefinition "?"?`, fuel = nesting depth -/
def parseTypeRefF : Nat → P TRef
  | 0, _ => none
  | n + 1, ts =>
    match many localAttrStep ts with
    | none => none
    | some (attrs, r) => tyBody (parseTypeRefF n) attrs r

def parseTypeRef : P TRef := fun ts => parseTypeRefF (ts.length + 1) ts

/-- the tokens a `TypeRef` can start with (decides `("," T)*` against the trailing `","?` of `NonEmptyCommaList`) -/
def startsTypeRef : Toks → Bool
  | .lbracket :: _ => true
  | .ident _ :: _ => true
  | .dcolon :: _ => true
  | .kw k :: _ => k == "SequenceKeyword" || k == "DictionaryKeyword" || k == "ResultKeyword" || (primOfKind k).isSome
  | _ => false

/-! ## members -/

def parseIdent : P String
  | .ident s :: r => some (String.ofList s, r)
  | _ => none

/-- does a field / parameter start here (after its prelude)? `Tag? Identifier` -/
def startsMember : Toks → Bool
  | .kw "TagKeyword" :: _ => true
  | .ident _ :: _ => true
  | _ => false

/-- `Field` after its prelude: `Tag? Identifier ":" TypeRef` -/
def parseFieldBody (docs : List String) (attrs : List Attr) : P Field := fun ts =>
  match parseTagOpt ts with
  | none => none
  | some (tag, r1) =>
    match r1 with
    | .ident name :: .colon :: r2 =>
      match parseTypeRef r2 with
      | some (ty, r3) => some (⟨docs, attrs, tag, String.ofList name, ty⟩, r3)
      | none => none
    | _ => none

/-- one element of `UndelimitedList<Field>`: `Field ","?` -/
def fieldStep : Step Field := preStep startsMember parseFieldBody true

/-- an optional keyword: `stream?`, `idempotent?` -/
def takeKw (kind : String) : Toks → Bool × Toks
  | .kw k :: r => if k == kind then (true, r) else (false, .kw k :: r)
  | r => (false, r)

/-- `Parameter` after its prelude: `Tag? Identifier ":" stream? TypeRef`; the `Bool`: the prelude had doc comments,
    which the action reports as a syntax error -/
def parseParamBody (docs : List String) (attrs : List Attr) : P (Param × Bool) := fun ts =>
  match parseTagOpt ts with
  | none => none
  | some (tag, r1) =>
    match r1 with
    | .ident name :: .colon :: r2 =>
      match parseTypeRef (takeKw "StreamKeyword" r2).2 with
      | some (ty, r4) => some ((⟨attrs, tag, String.ofList name, (takeKw "StreamKeyword" r2).1, ty⟩, !docs.isEmpty), r4)
      | none => none
    | _ => none

/-- one element of `UndelimitedList<Parameter>` -/
def paramStep : Step (Param × Bool) := preStep startsMember parseParamBody true

/-- `"(" UndelimitedList<Parameter> ")"` after the `(` -/
def parseParams : P (List Param × Bool) := fun ts =>
  match many paramStep ts with
  | some (ps, .rparen :: r) => some ((ps.map (·.1), ps.any (·.2)), r)
  | _ => none

/-- `ReturnType?` -/
def parseRet : P (Ret × Bool)
  | .arrow :: .lparen :: r =>
    match parseParams r with
    | some ((ps, bad), r') => some ((.tuple ps, bad), r')
    | none => none
  | .arrow :: r =>
    match parseTagOpt r with
    | none => none
    | some (tag, r1) =>
      match parseTypeRef (takeKw "StreamKeyword" r1).2 with
      | some (ty, r3) => some ((.single tag (takeKw "StreamKeyword" r1).1 ty, false), r3)
      | none => none
  | r => some ((.none, false), r)

/-- does an operation start here (after its prelude)? `idempotent? Identifier` -/
def startsOp : Toks → Bool
  | .kw "IdempotentKeyword" :: _ => true
  | .ident _ :: _ => true
  | _ => false

/-- `Operation` after its prelude: `idempotent? Identifier "(" UndelimitedList<Parameter> ")" ReturnType?` -/
def parseOpBody (docs : List String) (attrs : List Attr) : P (Op × Bool) := fun ts =>
  match (takeKw "IdempotentKeyword" ts).2 with
  | .ident name :: .lparen :: r1 =>
    match parseParams r1 with
    | none => none
    | some ((ps, bad1), r2) =>
      match parseRet r2 with
      | some ((ret, bad2), r3) =>
        some ((⟨docs, attrs, (takeKw "IdempotentKeyword" ts).1, String.ofList name, ps, ret⟩, bad1 || bad2), r3)
      | none => none
  | _ => none

/-- one element of `Operation*` -/
def opStep : Step (Op × Bool) := preStep startsOp parseOpBody false

/-- `("(" UndelimitedList<Field> ")")?` -/
def parseEnumFields : P (Option (List Field))
  | .lparen :: r1 =>
    match many fieldStep r1 with
    | some (fs, .rparen :: r2) => some (some fs, r2)
    | _ => none
  | r => some (none, r)

/-- `("=" SignedInteger)?` -/
def parseEnumValue : P (Option IntLit)
  | .equals :: r =>
    match parseSignedInt r with
    | some (l, r') => some (some l, r')
    | none => none
  | r => some (none, r)

/-- `Enumerator` after its prelude: `Identifier ("(" UndelimitedList<Field> ")")? ("=" SignedInteger)?` -/
def parseEnumeratorBody (docs : List String) (attrs : List Attr) : P Enumerator
  | .ident name :: r =>
    match parseEnumFields r with
    | none => none
    | some (fields, r1) =>
      match parseEnumValue r1 with
      | none => none
      | some (v, r2) => some (⟨docs, attrs, String.ofList name, fields, v⟩, r2)
  | _ => none

def startsEnumerator : Toks → Bool
  | .ident _ :: _ => true
  | _ => false

/-- one element of `UndelimitedList<Enumerator>` -/
def enumeratorStep : Step Enumerator := preStep startsEnumerator parseEnumeratorBody true

/-! ## definitions -/

/-- after the first base: `("," TypeRef)*`; a comma that is not followed by the start of a type is the trailing one -/
def baseStep : Step TRef
  | .comma :: r =>
    if startsTypeRef r then
      match parseTypeRef r with
      | some (t, r') => some (some (t, r'))
      | none => none
    else some none
  | _ => some none

/-- `NonEmptyCommaList<TypeRef>` -/
def parseBases : P (List TRef) := fun ts =>
  match parseTypeRef ts with
  | none => none
  | some (b, r) =>
    match many baseStep r with
    | some (bs, r') => some (b :: bs, skipComma r')
    | none => none

/-- `"{" UndelimitedList<Field> "}"` -/
def parseFieldBlock : P (List Field)
  | .lbrace :: r =>
    match many fieldStep r with
    | some (fs, .rbrace :: r') => some (fs, r')
    | _ => none
  | _ => none

/-- does a definition start here (after its prelude)? -/
def startsDef : Toks → Bool
  | .kw k :: _ => k == "CompactKeyword" || k == "UncheckedKeyword" || k == "StructKeyword" || k == "InterfaceKeyword" ||
      k == "EnumKeyword" || k == "CustomKeyword" || k == "TypeAliasKeyword"
  | _ => false

/-- `Identifier "{" UndelimitedList<Field> "}"` after `compact? struct` -/
def parseStructRest (docs : List String) (attrs : List Attr) (compact : Bool) : P (Def × Bool)
  | .ident name :: r1 =>
    match parseFieldBlock r1 with
    | some (fs, r2) => some ((.struct docs attrs compact (String.ofList name) fs, false), r2)
    | none => none
  | _ => none

/-- `(":" TypeRef)?` -/
def parseUnderlying : P (Option TRef)
  | .colon :: r1 =>
    match parseTypeRef r1 with
    | some (u, r2) => some (some u, r2)
    | none => none
  | r => some (none, r)

/-- `"{" UndelimitedList<Enumerator> "}"` -/
def parseEnumeratorBlock : P (List Enumerator)
  | .lbrace :: r =>
    match many enumeratorStep r with
    | some (es, .rbrace :: r') => some (es, r')
    | _ => none
  | _ => none

/-- `Identifier (":" TypeRef)? "{" UndelimitedList<Enumerator> "}"` after `compact? unchecked? enum` -/
def parseEnumRest (docs : List String) (attrs : List Attr) (compact unchecked : Bool) : P (Def × Bool)
  | .ident name :: r =>
    match parseUnderlying r with
    | none => none
    | some (u, r1) =>
      match parseEnumeratorBlock r1 with
      | some (es, r2) => some ((.enum docs attrs compact unchecked (String.ofList name) u es, false), r2)
      | none => none
  | _ => none

/-- `(":" NonEmptyCommaList<TypeRef>)?` -/
def parseBasesOpt : P (List TRef)
  | .colon :: r => parseBases r
  | r => some ([], r)

/-- `"{" Operation* "}"` -/
def parseOpBlock : P (List (Op × Bool))
  | .lbrace :: r =>
    match many opStep r with
    | some (os, .rbrace :: r') => some (os, r')
    | _ => none
  | _ => none

/-- `Identifier (":" NonEmptyCommaList<TypeRef>)? "{" Operation* "}"` after `interface` -/
def parseIfaceRest (docs : List String) (attrs : List Attr) : P (Def × Bool)
  | .ident name :: r =>
    match parseBasesOpt r with
    | none => none
    | some (bs, r1) =>
      match parseOpBlock r1 with
      | some (os, r2) => some ((.iface docs attrs (String.ofList name) bs (os.map (·.1)), os.any (·.2)), r2)
      | none => none
  | _ => none

/-- `Definition` after its prelude; the keyword(s) decide the production -/
def parseDefBody (docs : List String) (attrs : List Attr) : P (Def × Bool)
  | .kw "CompactKeyword" :: .kw "StructKeyword" :: r => parseStructRest docs attrs true r
  | .kw "StructKeyword" :: r => parseStructRest docs attrs false r
  | .kw "CompactKeyword" :: .kw "UncheckedKeyword" :: .kw "EnumKeyword" :: r => parseEnumRest docs attrs true true r
  | .kw "CompactKeyword" :: .kw "EnumKeyword" :: r => parseEnumRest docs attrs true false r
  | .kw "UncheckedKeyword" :: .kw "EnumKeyword" :: r => parseEnumRest docs attrs false true r
  | .kw "EnumKeyword" :: r => parseEnumRest docs attrs false false r
  | .kw "InterfaceKeyword" :: r => parseIfaceRest docs attrs r
  | .kw "CustomKeyword" :: .ident name :: r => some ((.custom docs attrs (String.ofList name), false), r)
  | .kw "TypeAliasKeyword" :: .ident name :: .equals :: r =>
    match parseTypeRef r with
    | some (ty, r2) => some ((.alias docs attrs (String.ofList name) ty, false), r2)
    | none => none
  | _ => none

/-- one element of `Definition*` -/
def defStep : Step (Def × Bool) := preStep startsDef parseDefBody false

/-! ## the file -/

/-- `Definition*` up to the end of the input -/
def parseDefs (ts : Toks) : Option (List Def × Bool) :=
  match many defStep ts with
  | some (ds, []) => some (ds.map (·.1), ds.any (·.2))
  | _ => none

/-- is the next token the `module` keyword? -/
def afterModuleKw : Toks → Option Toks
  | .kw "ModuleKeyword" :: r => some r
  | _ => none

/-- `SliceFile`: `FileAttribute* Module? Definition*`; `Module` = `Prelude module RelativeIdentifier`.
    After the file attributes a prelude is read; the `module` keyword after it makes it the module's, otherwise it
    belongs to the first definition (which is then parsed from where the prelude started).
    The `Bool`: an action reported a syntax error (doc comment on the module or on a parameter). -/
def parseFileRaw (ts : Toks) : Option (SFile × Bool) :=
  match many fileAttrStep ts with
  | none => none
  | some (fas, r) =>
    match parsePrelude r with
    | none => none
    | some ((docs, attrs), r1) =>
      match afterModuleKw r1 with
      | some r2 =>
        match parseRelIdent r2 with
        | none => none
        | some (path, r3) =>
          match parseDefs r3 with
          | some (ds, bad) => some (⟨fas, some ⟨attrs, path⟩, ds⟩, bad || !docs.isEmpty)
          | none => none
      | none =>
        match parseDefs r with
        | some (ds, bad) => some (⟨fas, none, ds⟩, bad)
        | none => none

/-- the parser's verdict: the file, unless the grammar rejects the tokens or an action reports a syntax error -/
def parseFile (ts : Toks) : Option SFile :=
  match parseFileRaw ts with
  | some (f, false) => some f
  | _ => none

/-- `parse_file` after the parser: "module declaration is required" (a syntax error, E002) -/
def moduleRequired (f : SFile) : Bool := !f.defs.isEmpty && f.module.isNone

/-- lexer and parser in sequence: the file a source text denotes (`none`: lexer error, grammar, or an action's syntax error) -/
def parseText (text : List Char) : Option SFile :=
  match lexSlice text with
  | .ok ts => parseFile ts
  | .error _ => none

/-- text → is a syntax error (E002) reported for this source block? (lexer error, grammar, actions, missing module) -/
def syntaxError (text : List Char) : Bool :=
  match lexSlice text with
  | .error _ => true
  | .ok ts =>
    match parseFile ts with
    | none => true
    | some f => moduleRequired f

/-! ## the token sequence of an abstract file, structurally

  `…Toks` give, for the comma-free parts of the syntax, the tokens that `tokensWith _ _ (…Items …)` denotes
  (Lemmas/SliceParserItems.lean proves it); lists with optional commas are described by the shapes of
  Lemmas/SliceParser.lean.  Scoped names and directives keep the tokens of their printed spelling (`nameToks`,
  `dirToks`): the printer's escaping goes through `String.splitOn`, about which core proves nothing, so the
  condition that these tokens read back as the name is a decidable leaf condition (`nameRT`, `pathRT`, `dirRT`). -/

/-- the printer's escaping of a string argument, on characters (= `escapeStrLit`) -/
def escArg (x : List Char) : List Char := x.flatMap fun c => if c == '"' || c == '\\' then ['\\', c] else [c]

/-- an attribute argument: bare when it looks like an identifier and is not a keyword, quoted otherwise -/
def argTok (x : String) : SliceTok :=
  if isIdentLike x && !(keywords.contains x) then .ident x.toList else .strLit (escArg x.toList)

def argsToks : List String → Toks
  | [] => []
  | [x] => [argTok x]
  | x :: y :: r => argTok x :: .comma :: argsToks (y :: r)

/-- a directive as the lexer reads its spelling inside `[ ]` -/
def dirToks (d : String) : Toks := toksOf (lexRun true d.toList).items

def attrToks (a : Attr) : Toks :=
  dirToks a.directive ++ (if a.args.isEmpty then [] else .lparen :: argsToks a.args ++ [.rparen])

def localAttrsToks (as : List Attr) : Toks := as.flatMap fun a => .lbracket :: attrToks a ++ [.rbracket]

def fileAttrsToks (as : List Attr) : Toks := as.flatMap fun a => .dlbracket :: attrToks a ++ [.drbracket]

/-- a scoped name as the lexer reads its printed (keyword-escaped) spelling outside attributes -/
def nameToks (id : String) : Toks := toksOf (lexRun false (escapeScoped id).toList).items

mutual
def tyToks : TyExpr → Toks
  | .prim p => [checkKeyword p.kw.toList]
  | .named id => nameToks id
  | .seq e => .kw "SequenceKeyword" :: .lchevron :: trefToks e ++ [.rchevron]
  | .dict k v => .kw "DictionaryKeyword" :: .lchevron :: trefToks k ++ .comma :: trefToks v ++ [.rchevron]
  | .result s f => .kw "ResultKeyword" :: .lchevron :: trefToks s ++ .comma :: trefToks f ++ [.rchevron]
def trefToks : TRef → Toks
  | .mk attrs ty opt => localAttrsToks attrs ++ tyToks ty ++ (if opt then [.qmark] else [])
end

def intToks (l : IntLit) : Toks := (if l.neg then [.minus] else []) ++ [.intLit l.magText.toList]

def tagToks : Option IntLit → Toks
  | none => []
  | some l => .kw "TagKeyword" :: .lparen :: intToks l ++ [.rparen]

def docToks (doc : List String) : Toks := doc.map fun l => .doc l.toList

def streamToks (b : Bool) : Toks := if b then [.kw "StreamKeyword"] else []

def fieldToks (f : Field) : Toks :=
  docToks f.doc ++ localAttrsToks f.attrs ++ tagToks f.tag ++ .ident f.name.toList :: .colon :: trefToks f.ty

def paramToks (p : Param) : Toks :=
  localAttrsToks p.attrs ++ tagToks p.tag ++ .ident p.name.toList :: .colon :: (streamToks p.stream ++ trefToks p.ty)

/-! ### leaf conditions of the inverse theorem (decidable; each is necessary, see the examples in Props/C02) -/

/-- the whole token list is one `RelativeIdentifier` -/
def relOf (ts : Toks) : Option String :=
  match parseRelIdent ts with
  | some (id, []) => some id
  | _ => none

/-- the whole token list is one `RelativeIdentifier` or `GlobalIdentifier` -/
def scopedOf (ts : Toks) : Option String :=
  match ts with
  | .dcolon :: _ =>
    match parseGlobalIdent ts with
    | some (id, []) => some id
    | _ => none
  | _ => relOf ts

/-- a type name reads back as itself -/
def nameRT (id : String) : Bool := scopedOf (nameToks id) == some id
/-- a module path reads back as itself -/
def pathRT (id : String) : Bool := relOf (nameToks id) == some id
/-- an attribute directive reads back as itself -/
def dirRT (d : String) : Bool := relOf (dirToks d) == some d

/-- an integer literal reads back as itself: the digits are the value in the base, `underscores` says whether any
    were written (three digits or more), the value needs no more than the 200 digits the printer writes -/
def intRT (l : IntLit) : Bool := intOfText l.magText.toList == { l with neg := false }

/-- a doc line reads back as itself: a fourth slash would make the line a plain comment, a final carriage return
    belongs to the line ending -/
def docLineRT (l : String) : Bool := l.toList.head? != some '/' && l.toList.getLast? != some '\r'

def attrRT (a : Attr) : Bool := dirRT a.directive
def docRT (doc : List String) : Bool := doc.all docLineRT
def tagRT : Option IntLit → Bool
  | none => true
  | some l => intRT l

mutual
def tyRT : TyExpr → Bool
  | .prim _ => true
  | .named id => nameRT id
  | .seq e => trefRT e
  | .dict k v => trefRT k && trefRT v
  | .result s f => trefRT s && trefRT f
def trefRT : TRef → Bool
  | .mk attrs ty _ => attrs.all attrRT && tyRT ty
end

def fieldRT (f : Field) : Bool := docRT f.doc && f.attrs.all attrRT && tagRT f.tag && trefRT f.ty
def paramRT (p : Param) : Bool := p.attrs.all attrRT && tagRT p.tag && trefRT p.ty
def retRT : Ret → Bool
  | .none => true
  | .single tag _ ty => tagRT tag && trefRT ty
  | .tuple ps => ps.all paramRT
def opRT (o : Op) : Bool := docRT o.doc && o.attrs.all attrRT && o.params.all paramRT && retRT o.ret
def enumeratorRT (e : Enumerator) : Bool :=
  docRT e.doc && e.attrs.all attrRT &&
  (match e.fields with | none => true | some fs => fs.all fieldRT) &&
  (match e.value with | none => true | some l => intRT l)
def defRT : Def → Bool
  | .struct doc attrs _ _ fields => docRT doc && attrs.all attrRT && fields.all fieldRT
  | .iface doc attrs _ bases ops => docRT doc && attrs.all attrRT && bases.all trefRT && ops.all opRT
  | .enum doc attrs _ _ _ underlying es =>
    docRT doc && attrs.all attrRT && (match underlying with | none => true | some u => trefRT u) && es.all enumeratorRT
  | .custom doc attrs _ => docRT doc && attrs.all attrRT
  | .alias doc attrs _ ty => docRT doc && attrs.all attrRT && trefRT ty

/-- the leaf conditions of `parse_print` on a whole file (the shape of the file is unconstrained) -/
def fileRT (f : SFile) : Bool :=
  f.fileAttrs.all attrRT &&
  (match f.module with | none => true | some m => m.attrs.all attrRT && pathRT m.path) &&
  f.defs.all defRT

/-! ## the productions this parser implements

  The list of productions of grammar.lalrpop as this model understands them, in the normal form of the translator
  (`Gen/SliceGrammar.lean`: location markers and bindings removed; the action reduced to the helper it calls), each with
  the function above that implements it.  Props/C02.lean proves `productions = Gen.sliceGrammar` and
  `tokenKinds = Gen.sliceTerminals.map (·.2)`: a production or terminal that is added, removed, reordered or
  re-shaped in the source re-opens that proof, and with it the claim that the descent above is the grammar. -/

/-- the token kinds the parser distinguishes (`SliceTok`: `ident`, `strLit`, `intLit`, `doc`, `kw <kind>`, punctuation) -/
def tokenKinds : List String :=
  ["Identifier", "StringLiteral", "IntegerLiteral", "DocComment", "ModuleKeyword", "StructKeyword", "InterfaceKeyword", "EnumKeyword", "CustomKeyword", "TypeAliasKeyword", "ResultKeyword", "SequenceKeyword", "DictionaryKeyword", "BoolKeyword", "Int8Keyword", "UInt8Keyword", "Int16Keyword", "UInt16Keyword", "Int32Keyword", "UInt32Keyword", "VarInt32Keyword", "VarUInt32Keyword", "Int64Keyword", "UInt64Keyword", "VarInt62Keyword", "VarUInt62Keyword", "Float32Keyword", "Float64Keyword", "StringKeyword", "CompactKeyword", "IdempotentKeyword", "StreamKeyword", "TagKeyword", "UncheckedKeyword", "LeftParenthesis", "RightParenthesis", "LeftBracket", "RightBracket", "DoubleLeftBracket", "DoubleRightBracket", "LeftBrace", "RightBrace", "LeftChevron", "RightChevron", "Comma", "Colon", "DoubleColon", "Equals", "QuestionMark", "Arrow", "Minus"]

def productions : List (String × List (List String × String)) := [
  -- parseFileRaw
  ("SliceFile", [(["SliceFilePrelude", "Module?", "Definition*"], "")]),
  -- many fileAttrStep
  ("SliceFilePrelude", [(["FileAttribute*"], "")]),
  -- parseFileRaw (afterModuleKw, parseRelIdent; doc comments → syntax error)
  ("Module", [(["Prelude", "module_keyword", "RelativeIdentifier"], "construct_module")]),
  -- defStep / parseDefBody
  ("Definition", [(["Struct"], "Definition::Struct"), (["Interface"], "Definition::Interface"), (["Enum"], "Definition::Enum"), (["CustomType"], "Definition::CustomType"), (["TypeAlias"], "Definition::TypeAlias")]),
  -- parseDefBody → parseStructRest, parseFieldBlock
  ("Struct", [(["Prelude", "compact_keyword?", "struct_keyword", "ContainerIdentifier", "\"{\"", "UndelimitedList<Field>", "\"}\"", "ContainerEnd"], "construct_struct")]),
  -- fieldStep / parseFieldBody
  ("Field", [(["Prelude", "Tag?", "ContainerIdentifier", "\":\"", "TypeRef", "ContainerEnd"], "construct_field")]),
  -- parseDefBody → parseIfaceRest, parseBasesOpt, parseOpBlock
  ("Interface", [(["Prelude", "interface_keyword", "ContainerIdentifier", "(\":\" NonEmptyCommaList<TypeRef>)?", "\"{\"", "Operation*", "\"}\"", "ContainerEnd"], "construct_interface")]),
  -- opStep / parseOpBody
  ("Operation", [(["Prelude", "idempotent_keyword?", "ContainerIdentifier", "\"(\"", "UndelimitedList<Parameter>", "\")\"", "ReturnType?", "ContainerEnd"], "construct_operation")]),
  -- paramStep / parseParamBody (doc comments → syntax error)
  ("Parameter", [(["Prelude", "Tag?", "ContainerIdentifier", "\":\"", "stream_keyword?", "TypeRef", "ContainerEnd"], "construct_parameter")]),
  -- parseRet
  ("ReturnType", [(["\"->\"", "(Tag)?", "stream_keyword?", "TypeRef"], "construct_single_return_type"), (["\"->\"", "\"(\"", "UndelimitedList<Parameter>", "\")\""], "check_return_tuple")]),
  -- parseDefBody → parseEnumRest, parseUnderlying, parseEnumeratorBlock
  ("Enum", [(["Prelude", "compact_keyword?", "unchecked_keyword?", "enum_keyword", "ContainerIdentifier", "(\":\" TypeRef)?", "\"{\"", "UndelimitedList<Enumerator>", "\"}\"", "ContainerEnd"], "construct_enum")]),
  -- enumeratorStep / parseEnumeratorBody, parseEnumFields, parseEnumValue
  ("Enumerator", [(["Prelude", "ContainerIdentifier", "(\"(\" UndelimitedList<Field> \")\")?", "(\"=\" SignedInteger)?", "ContainerEnd"], "construct_enumerator")]),
  -- parseDefBody
  ("CustomType", [(["Prelude", "custom_keyword", "Identifier"], "construct_custom_type")]),
  -- parseDefBody
  ("TypeAlias", [(["Prelude", "type_alias_keyword", "ContainerIdentifier", "\"=\"", "TypeRef", "ContainerEnd"], "construct_type_alias")]),
  -- tyBody
  ("Result", [(["result_keyword", "\"<\"", "TypeRef", "\",\"", "TypeRef", "\">\""], "")]),
  -- tyBody
  ("Sequence", [(["sequence_keyword", "\"<\"", "TypeRef", "\">\""], "")]),
  -- tyBody
  ("Dictionary", [(["dictionary_keyword", "\"<\"", "TypeRef", "\",\"", "TypeRef", "\">\""], "")]),
  -- primOfKind (over Gen.sliceKeywords)
  ("Primitive", [(["bool_keyword"], "Primitive::Bool"), (["int8_keyword"], "Primitive::Int8"), (["uint8_keyword"], "Primitive::UInt8"), (["int16_keyword"], "Primitive::Int16"), (["uint16_keyword"], "Primitive::UInt16"), (["int32_keyword"], "Primitive::Int32"), (["uint32_keyword"], "Primitive::UInt32"), (["varint32_keyword"], "Primitive::VarInt32"), (["varuint32_keyword"], "Primitive::VarUInt32"), (["int64_keyword"], "Primitive::Int64"), (["uint64_keyword"], "Primitive::UInt64"), (["varint62_keyword"], "Primitive::VarInt62"), (["varuint62_keyword"], "Primitive::VarUInt62"), (["float32_keyword"], "Primitive::Float32"), (["float64_keyword"], "Primitive::Float64"), (["string_keyword"], "Primitive::String")]),
  -- parseTypeRefF / parseTypeRef, finTy
  ("TypeRef", [(["LocalAttribute*", "TypeRefDefinition", "\"?\"?"], "construct_type_ref")]),
  -- tyBody
  ("TypeRefDefinition", [(["Primitive"], "primitive_to_type_ref_definition"), (["Result"], "anonymous_type_to_type_ref_definition"), (["Sequence"], "anonymous_type_to_type_ref_definition"), (["Dictionary"], "anonymous_type_to_type_ref_definition"), (["RelativeIdentifier"], "construct_unpatched_type_ref_definition"), (["GlobalIdentifier"], "construct_unpatched_type_ref_definition")]),
  -- fileAttrStep
  ("FileAttribute", [(["\"[[\"", "Attribute", "\"]]\""], "")]),
  -- localAttrStep / preludeStep
  ("LocalAttribute", [(["\"[\"", "Attribute", "\"]\""], "")]),
  -- parseAttribute
  ("Attribute", [(["RelativeIdentifier", "(\"(\" CommaList<AttributeArgument> \")\")?"], "construct_attribute")]),
  -- argOf
  ("AttributeArgument", [(["string_literal"], "unescape_string_literal"), (["identifier"], "")]),
  -- the `.ident name` patterns
  ("Identifier", [(["identifier"], "")]),
  -- parseRelIdent
  ("RelativeIdentifier", [(["identifier", "(\"::\" identifier)*"], "")]),
  -- parseGlobalIdent
  ("GlobalIdentifier", [(["(\"::\" identifier)+"], "")]),
  -- intOfText
  ("Integer", [(["integer_literal"], "try_parse_integer")]),
  -- parseSignedInt
  ("SignedInteger", [(["Integer"], ""), (["\"-\"", "Integer"], "")]),
  -- parseTagOpt
  ("Tag", [(["tag_keyword", "\"(\"", "SignedInteger", "\")\""], "parse_tag_value")]),
  -- parsePrelude = many preludeStep
  ("Prelude", [([], ""), (["Prelude", "doc_comment"], ""), (["Prelude", "LocalAttribute"], "")]),
  -- parseBases / baseStep; parseArgs / parseArgsTail
  ("NonEmptyCommaList<T>", [(["T", "(\",\" T)*", "\",\"?"], "")]),
  -- parseArgs
  ("CommaList<T>", [(["NonEmptyCommaList<T>"], ""), ([], "")]),
  -- many (preStep … true): element, then skipComma
  ("UndelimitedList<T>", [(["(T \",\"?)*"], "")]),
  -- the `.ident name` patterns (scopes are not syntax)
  ("ContainerIdentifier", [(["Identifier"], "")]),
  -- — (scopes are not syntax)
  ("ContainerEnd", [([], "")])
]

end Slicec.SPar
