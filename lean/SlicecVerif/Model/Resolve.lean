/-
  Name table and type-reference resolution (C03), mirroring `Ast::lookup_table`,
  `find_node_with_scope` and `TypeRefPatcher::resolve_definition / resolve_type_alias`.
  Keys are scoped identifier *strings*, exactly as in the Rust code; the last writer wins.

  String handling is done on `String.toList` with three small structural functions
  (`splitSegs` = `str::split("::")`, `joinSegs` = `[..].join("::")`, `stripGlobal` =
  `strip_prefix("::")`) so that the theorems of Props/C03 are about the very strings the driver
  compares with the compiler, without trusting lemmas about `String.splitOn`.
-/
import SlicecVerif.Model.Syntax
import SlicecVerif.Gen.ResolveKinds

namespace Slicec

inductive NodeKind where
  | module | struct | field | interface | operation | parameter | enum | enumerator | custom | alias | primitive
  deriving Repr, DecidableEq, Inhabited

def NodeKind.str : NodeKind → String
  | .module => "module" | .struct => "struct" | .field => "field" | .interface => "interface"
  | .operation => "operation" | .parameter => "parameter" | .enum => "enum" | .enumerator => "enumerator"
  | .custom => "custom" | .alias => "alias" | .primitive => "primitive"

/-- the `Node` variant holding an element of this kind (ast/node.rs) -/
def NodeKind.variant : NodeKind → String
  | .module => "Module" | .struct => "Struct" | .field => "Field" | .interface => "Interface"
  | .operation => "Operation" | .parameter => "Parameter" | .enum => "Enum" | .enumerator => "Enumerator"
  | .custom => "CustomType" | .alias => "TypeAlias" | .primitive => "Primitive"

/-- what the table stores for a key -/
structure NodeInfo where
  kind : NodeKind
  /-- parser-scoped identifier (= the key) -/
  key : String
  /-- module path of the defining file (scope in which the node's own type references are resolved) -/
  modScope : String
  /-- identifier without scope -/
  ident : String
  /-- for aliases (`Node::TypeAlias`): the underlying type reference; `none` for every other node -/
  aliasOf : Option TRef := none
  /-- for primitives -/
  prim : Option Prim := none
  attrs : List Attr := []
  file : Nat := 0
  deriving Inhabited

/-- `if let Node::TypeAlias(..) = node` -/
def NodeInfo.isAlias (n : NodeInfo) : Bool := n.aliasOf.isSome

abbrev Table := List (String × NodeInfo)

/-- `HashMap::insert` / `HashMap::get`: a later entry with the same key replaces the earlier one -/
def Table.find : Table → String → Option NodeInfo
  | [], _ => none
  | e :: rest, k =>
    match Table.find rest k with
    | some n => some n
    | none => if e.1 == k then some e.2 else none

/-! ### scoped identifier strings -/

/-- `str::split("::")` on the characters: left to right, non-overlapping -/
def splitAux : List Char → List Char → List (List Char)
  | acc, [] => [acc]
  | acc, ':' :: ':' :: rest => acc :: splitAux [] rest
  | acc, c :: rest => splitAux (acc ++ [c]) rest

def splitSegs (s : String) : List String := (splitAux [] s.toList).map String.ofList

/-- `[..].join("::")` -/
def joinSegs : List String → String
  | [] => ""
  | [a] => a
  | a :: b :: rest => a ++ "::" ++ joinSegs (b :: rest)

/-- `identifier.strip_prefix("::")` -/
def stripGlobal (id : String) : Option String :=
  match id.toList with
  | ':' :: ':' :: rest => some (String.ofList rest)
  | _ => none

/-- `get_scoped_identifier` (grammar/util.rs) -/
def scopedId (ident scope : String) : String := if scope.isEmpty then ident else scope ++ "::" ++ ident

def primTable : Table := Prim.all.map fun p => (p.kw, { kind := .primitive, key := p.kw, modScope := "", ident := p.kw, prim := some p })

def fieldEntries (fileIdx : Nat) (modScope scope : String) (fs : List Field) : Table :=
  fs.map fun f => (scopedId f.name scope, { kind := .field, key := scopedId f.name scope, modScope := modScope, ident := f.name, attrs := f.attrs, file := fileIdx })

def paramEntries (fileIdx : Nat) (modScope scope : String) (ps : List Param) : Table :=
  ps.map fun p => (scopedId p.name scope, { kind := .parameter, key := scopedId p.name scope, modScope := modScope, ident := p.name, attrs := p.attrs, file := fileIdx })

def retParams : Ret → List Param
  | .none => []
  | .single tag stream ty => [{ attrs := [], tag := tag, name := "returnValue", stream := stream, ty := ty }]
  | .tuple ps => ps

def opEntries (fileIdx : Nat) (modScope key : String) (o : Op) : Table :=
  let okey := scopedId o.name key
  paramEntries fileIdx modScope okey o.params ++ paramEntries fileIdx modScope okey (retParams o.ret) ++
  [(okey, { kind := .operation, key := okey, modScope := modScope, ident := o.name, attrs := o.attrs, file := fileIdx })]

def enumeratorEntries (fileIdx : Nat) (modScope key : String) (e : Enumerator) : Table :=
  let ekey := scopedId e.name key
  fieldEntries fileIdx modScope ekey (e.fields.getD []) ++
  [(ekey, { kind := .enumerator, key := ekey, modScope := modScope, ident := e.name, attrs := e.attrs, file := fileIdx })]

/-- entries of one definition in the order the parser adds them: members before their container -/
def defEntries (fileIdx : Nat) (modScope : String) : Def → Table
  | .struct _ attrs _ name fields =>
    let key := scopedId name modScope
    fieldEntries fileIdx modScope key fields ++
    [(key, { kind := .struct, key := key, modScope := modScope, ident := name, attrs := attrs, file := fileIdx })]
  | .iface _ attrs name _ ops =>
    let key := scopedId name modScope
    (ops.flatMap (opEntries fileIdx modScope key)) ++
    [(key, { kind := .interface, key := key, modScope := modScope, ident := name, attrs := attrs, file := fileIdx })]
  | .enum _ attrs _ _ name _ es =>
    let key := scopedId name modScope
    (es.flatMap (enumeratorEntries fileIdx modScope key)) ++
    [(key, { kind := .enum, key := key, modScope := modScope, ident := name, attrs := attrs, file := fileIdx })]
  | .custom _ attrs name =>
    let key := scopedId name modScope
    [(key, { kind := .custom, key := key, modScope := modScope, ident := name, attrs := attrs, file := fileIdx })]
  | .alias _ attrs name ty =>
    let key := scopedId name modScope
    [(key, { kind := .alias, key := key, modScope := modScope, ident := name, aliasOf := some ty, attrs := attrs, file := fileIdx })]

def SFile.modPath (f : SFile) : String := match f.module with | some m => m.path | none => ""

/-- `parse_file`: the definitions (in reduction order), then the module itself -/
def fileEntries (fileIdx : Nat) (f : SFile) : Table :=
  (f.defs.flatMap (defEntries fileIdx f.modPath)) ++
  (match f.module with
   | some m => [(m.path, { kind := .module, key := m.path, modScope := m.path, ident := m.path, attrs := m.attrs, file := fileIdx })]
   | none => [])

def buildTable (p : Program) : Table :=
  primTable ++ (p.zipIdx.flatMap fun (f, i) => fileEntries i f)

/-- prefixes of a list, longest first, without the empty one -/
def prefixesDesc {α} (l : List α) : List (List α) :=
  (List.range l.length).map fun i => l.take (l.length - i)

def firstSome {α β} (f : α → Option β) : List α → Option β
  | [] => none
  | x :: xs => match f x with | some y => some y | none => firstSome f xs

/-- the `while !scopes.is_empty() { candidate = scopes.join("::") + "::" + id; …; scopes.pop(); }` loop -/
def scopeLoop (t : Table) (id : String) : List String → Option NodeInfo
  | [] => none
  | a :: m =>
    match t.find (joinSegs (a :: m) ++ "::" ++ id) with
    | some n => some n
    | none => scopeLoop t id (a :: m).dropLast
termination_by l => l.length
decreasing_by simp

/-- `Ast::find_node_with_scope`: `::id` is looked up as is; otherwise `scope.split("::")`, then for the whole
    vector and each shorter prefix the candidate `prefix.join("::") + "::" + id`, finally `id` alone -/
def findNodeWithScope (t : Table) (id scope : String) : Option NodeInfo :=
  match stripGlobal id with
  | some rest => t.find rest
  | none =>
    match scopeLoop t id (splitSegs scope) with
    | some n => some n
    | none => t.find id

inductive ResErr where
  | doesNotExist (id : String)
  | typeMismatch (expected actual : String)
  | aliasCycle (reported : Bool) (id : String)   -- E019 is reported only when the walk is back at its first alias
  | fuel                                         -- the model's recursion bound; never produced (Props/C03 `walkAlias_fuel`)
  deriving Repr, DecidableEq, Inhabited

/-- the non-alias node an alias chain ends in (`resolve_type_alias`); `expr` = the chain ended in a type
    expression written in an alias (primitive keyword or anonymous type, patched by the parser), given with
    the module scope it was written in -/
inductive Target where
  | node (n : NodeInfo)
  | expr (ty : TyExpr) (modScope : String)
  deriving Inhabited

/-- `resolve_type_alias` started at the alias `cur`: `chain` = identifiers of the aliases seen so far,
    `attrs` = attributes accumulated so far -/
def walkAlias (t : Table) : Nat → List String → List Attr → NodeInfo → Except ResErr (Target × List Attr)
  | 0, _, _, _ => .error .fuel
  | fuel + 1, chain, attrs, cur =>
    if chain.contains cur.key then
      .error (.aliasCycle (chain.head? == some cur.key) cur.key)
    else
      match cur.aliasOf with
      | none => .ok (.node cur, attrs)     -- `cur` is not an alias: not reached from `resolveNamed`
      | some u =>
        let attrs := attrs ++ u.attrs
        match u.ty with
        | .named id =>
          match findNodeWithScope t id cur.modScope with
          | none => .error (.doesNotExist id)
          | some n => if n.isAlias then walkAlias t fuel (chain ++ [cur.key]) attrs n else .ok (.node n, attrs)
        | e => .ok (.expr e cur.modScope, attrs)

/-- identifiers of the aliases stored in the table -/
def aliasKeys (t : Table) : List String := (t.filter fun e => e.2.isAlias).map fun e => e.2.key

def numAliases (t : Table) : Nat := (aliasKeys t).length

/-- positions a reference can stand in decide which node kinds are acceptable (`TryInto<WeakPtr<T>>`):
    `dyn Type` for fields, parameters, alias targets, element types; `Interface` for bases; `Primitive` for
    underlying types of enums -/
inductive Want where
  | type | interface | primitive
  deriving Repr, DecidableEq

def acceptable (w : Want) (k : NodeKind) : Bool :=
  match w with
  | .type => Gen.typeNodeVariants.contains k.variant      -- `TryFrom<&Node> for WeakPtr<dyn Type>`, extracted from the source
  | .interface => k == .interface
  | .primitive => k == .primitive

def wantName : Want → String
  | .type => "type" | .interface => "interface" | .primitive => "primitive"

/-- the `Node` variant of a type expression the parser patched itself -/
def TyExpr.variant : TyExpr → String
  | .prim _ => "Primitive" | .seq _ => "Sequence" | .dict _ _ => "Dictionary" | .result _ _ => "ResultType" | .named _ => "TypeRef"

/-- a type expression written in an alias (primitive keyword or anonymous type), reached through the alias
    from a position that wants `w` -/
def acceptableExpr (w : Want) (e : TyExpr) : Bool :=
  match w, e with
  | .type, e => Gen.typeNodeVariants.contains e.variant
  | .primitive, .prim _ => true
  | _, _ => false

/-- `resolve_definition` for a named reference written in module scope `scope` -/
def resolveNamed (t : Table) (w : Want) (id scope : String) : Except ResErr (Target × List Attr) :=
  match findNodeWithScope t id scope with
  | none => .error (.doesNotExist id)
  | some n =>
    if n.isAlias then
      match walkAlias t (numAliases t + 1) [] [] n with
      | .error e => .error e
      | .ok (.node m, attrs) => if acceptable w m.kind then .ok (.node m, attrs) else .error (.typeMismatch (wantName w) m.kind.str)
      | .ok (.expr e s, attrs) =>
        -- the chain ended in a written type expression: a primitive or an anonymous type
        if acceptableExpr w e then .ok (.expr e s, attrs) else .error (.typeMismatch (wantName w) "type")
    else if acceptable w n.kind then .ok (.node n, [])
    else .error (.typeMismatch (wantName w) n.kind.str)

/-! ### the specification on segment lists -/

/-- a table keyed by segment lists -/
abbrev SegTable := List (List String × NodeInfo)

def SegTable.find : SegTable → List String → Option NodeInfo
  | [], _ => none
  | e :: rest, k =>
    match SegTable.find rest k with
    | some n => some n
    | none => if e.1 = k then some e.2 else none

/-- the string table the compiler holds for a segment-keyed table -/
def SegTable.toTable (st : SegTable) : Table := st.map fun e => (joinSegs e.1, e.2)

/-- the enclosing scopes of a module path, innermost first, ending with the global scope `[]` -/
def scopesOutward : List String → List (List String)
  | [] => [[]]
  | a :: m => (a :: m) :: scopesOutward (a :: m).dropLast
termination_by l => l.length
decreasing_by simp

/-- `[m₁…mₙ·id, m₁…mₙ₋₁·id, …, m₁·id, id]`; a `::`-global name is looked up as `[id]` only -/
def specCandidates (modulePath id : List String) (global : Bool) : List (List String) :=
  if global then [id] else (scopesOutward modulePath).map (· ++ id)

/-- the scoping rule: the first candidate that names something -/
def specLookup (st : SegTable) (modulePath id : List String) (global : Bool) : Option NodeInfo :=
  firstSome st.find (specCandidates modulePath id global)

/-- how a reference is spelled in the source -/
def spell (id : List String) (global : Bool) : String := if global then "::" ++ joinSegs id else joinSegs id

end Slicec
