/-
  Name table and type-reference resolution (C03), mirroring `Ast::lookup_table`,
  `find_node_with_scope` and `TypeRefPatcher::resolve_definition / resolve_type_alias`.
  Keys are scopedId identifier *strings*, exactly as in the Rust code; the last writer wins.
-/
import SlicecVerif.Model.Syntax

namespace Slicec

inductive NodeKind where
  | module | struct | field | interface | operation | parameter | enum | enumerator | custom | alias | primitive
  deriving Repr, DecidableEq, Inhabited

def NodeKind.str : NodeKind → String
  | .module => "module" | .struct => "struct" | .field => "field" | .interface => "interface"
  | .operation => "operation" | .parameter => "parameter" | .enum => "enum" | .enumerator => "enumerator"
  | .custom => "custom" | .alias => "alias" | .primitive => "primitive"

/-- what the table stores for a key -/
structure NodeInfo where
  kind : NodeKind
  /-- parser-scopedId identifier (= the key) -/
  key : String
  /-- module path of the defining file (scope in which the node's own type references are resolved) -/
  modScope : String
  /-- identifier without scope -/
  ident : String
  /-- for aliases: the underlying type reference -/
  aliasOf : Option TRef := none
  /-- for primitives -/
  prim : Option Prim := none
  attrs : List Attr := []
  file : Nat := 0
  deriving Inhabited

abbrev Table := List (String × NodeInfo)

/-- `HashMap::insert`: a later entry with the same key replaces the earlier one -/
def Table.find (t : Table) (k : String) : Option NodeInfo :=
  match t.reverse.find? (fun e => e.1 == k) with
  | some e => some e.2
  | none => none

def scopedId (ident scope : String) : String := if scope.isEmpty then ident else scope ++ "::" ++ ident

def primTable : Table := Prim.all.map fun p => (p.kw, { kind := .primitive, key := p.kw, modScope := "", ident := p.kw, prim := some p })

def fieldEntries (fileIdx : Nat) (modScope scope : String) (fs : List Field) : Table :=
  fs.map fun f => (scopedId f.name scope, { kind := .field, key := scopedId f.name scope, modScope := modScope, ident := f.name, attrs := f.attrs, file := fileIdx })

def paramEntries (fileIdx : Nat) (modScope scope : String) (ps : List Param) : Table :=
  ps.map fun p => (scopedId p.name scope, { kind := .parameter, key := scopedId p.name scope, modScope := modScope, ident := p.name, attrs := p.attrs, file := fileIdx })

def retParams : Ret → List Param
  | .none => []
  | .single tag stream ty => [{ attrs := [], tag := tag, name := "returnValue", stream := stream, ty := ty }]
  | .tuple ps => ps

/-- entries of one definition in the order the parser adds them: members before their container -/
def defEntries (fileIdx : Nat) (modScope : String) : Def → Table
  | .struct _ attrs _ name fields =>
    let key := scopedId name modScope
    fieldEntries fileIdx modScope key fields ++
    [(key, { kind := .struct, key := key, modScope := modScope, ident := name, attrs := attrs, file := fileIdx })]
  | .iface _ attrs name _ ops =>
    let key := scopedId name modScope
    (ops.flatMap fun o =>
      let okey := scopedId o.name key
      paramEntries fileIdx modScope okey o.params ++ paramEntries fileIdx modScope okey (retParams o.ret) ++
      [(okey, { kind := .operation, key := okey, modScope := modScope, ident := o.name, attrs := o.attrs, file := fileIdx })]) ++
    [(key, { kind := .interface, key := key, modScope := modScope, ident := name, attrs := attrs, file := fileIdx })]
  | .enum _ attrs _ _ name _ es =>
    let key := scopedId name modScope
    (es.flatMap fun e =>
      let ekey := scopedId e.name key
      fieldEntries fileIdx modScope ekey (e.fields.getD []) ++
      [(ekey, { kind := .enumerator, key := ekey, modScope := modScope, ident := e.name, attrs := e.attrs, file := fileIdx })]) ++
    [(key, { kind := .enum, key := key, modScope := modScope, ident := name, attrs := attrs, file := fileIdx })]
  | .custom _ attrs name =>
    let key := scopedId name modScope
    [(key, { kind := .custom, key := key, modScope := modScope, ident := name, attrs := attrs, file := fileIdx })]
  | .alias _ attrs name ty =>
    let key := scopedId name modScope
    [(key, { kind := .alias, key := key, modScope := modScope, ident := name, aliasOf := some ty, attrs := attrs, file := fileIdx })]

def fileEntries (fileIdx : Nat) (f : SFile) : Table :=
  let modScope := match f.module with | some m => m.path | none => ""
  (f.defs.flatMap (defEntries fileIdx modScope)) ++
  (match f.module with
   | some m => [(m.path, { kind := .module, key := m.path, modScope := m.path, ident := m.path, attrs := m.attrs, file := fileIdx })]
   | none => [])

def buildTable (p : Program) : Table :=
  primTable ++ (p.zipIdx.flatMap fun (f, i) => fileEntries i f)

/-- prefixes of a list, longest first, without the empty one -/
def prefixesDesc {α} (l : List α) : List (List α) :=
  (List.range l.length).map fun i => l.take (l.length - i)

def firstSome {α β} (f : α → Option β) : List α → Option β
  | [] => none
  | x :: xs => match f x with | some y => some y | none => firstSome f xs

/-- `Ast::find_node_with_scope` -/
def findNodeWithScope (t : Table) (id scope : String) : Option NodeInfo :=
  if id.startsWith "::" then t.find (id.drop 2).toString
  else
    match firstSome (fun p => t.find ("::".intercalate p ++ "::" ++ id)) (prefixesDesc (scope.splitOn "::")) with
    | some n => some n
    | none => t.find id

inductive ResErr where
  | doesNotExist (id : String)
  | typeMismatch (expected actual : String)
  | aliasCycle (reported : Bool) (id : String)   -- E019 is reported only when the walk is back at its first alias
  deriving Repr, DecidableEq, Inhabited

/-- the non-alias node an alias chain ends in, with the attributes accumulated along the chain
    (`resolve_type_alias`); `anonOf` = the chain ended in a type expression written in an alias
    (primitive or anonymous type), given with the module scope it was written in -/
inductive Target where
  | node (n : NodeInfo)
  | expr (ty : TyExpr) (modScope : String)
  deriving Inhabited

def walkAlias (t : Table) : Nat → List String → List Attr → NodeInfo → Except ResErr (Target × List Attr)
  | 0, chain, _, cur => .error (.aliasCycle false (chain.headD cur.key))   -- unreachable: fuel = #aliases + 1 (proved in Props/C05)
  | fuel + 1, chain, attrs, cur =>
    if chain.contains cur.key then
      .error (.aliasCycle (chain.head? == some cur.key) cur.key)
    else
      match cur.aliasOf with
      | none => .ok (.node cur, attrs)
      | some u =>
        let attrs := attrs ++ u.attrs
        match u.ty with
        | .named id =>
          match findNodeWithScope t id cur.modScope with
          | none => .error (.doesNotExist id)
          | some n => if n.kind == .alias then walkAlias t fuel (chain ++ [cur.key]) attrs n else .ok (.node n, attrs)
        | e => .ok (.expr e cur.modScope, attrs)

def numAliases (t : Table) : Nat := (t.filter fun e => e.2.kind == .alias).length

/-- positions a reference can stand in decide which node kinds are acceptable (`TryInto<WeakPtr<T>>`) -/
inductive Want where
  | type | interface | primitive
  deriving Repr, DecidableEq

def acceptable (w : Want) (k : NodeKind) : Bool :=
  match w with
  | .type => k == .struct || k == .enum || k == .custom || k == .alias || k == .primitive
  | .interface => k == .interface
  | .primitive => k == .primitive

def wantName : Want → String
  | .type => "type" | .interface => "interface" | .primitive => "primitive"

/-- `resolve_definition` for a named reference written in module scope `scope` -/
def resolveNamed (t : Table) (w : Want) (id scope : String) : Except ResErr (Target × List Attr) :=
  match findNodeWithScope t id scope with
  | none => .error (.doesNotExist id)
  | some n =>
    if n.kind == .alias then
      match walkAlias t (numAliases t + 1) [] [] n with
      | .error e => .error e
      | .ok (.node m, attrs) => if acceptable w m.kind then .ok (.node m, attrs) else .error (.typeMismatch (wantName w) m.kind.str)
      | .ok (.expr e s, attrs) =>
        -- the chain ended in a written type expression: a primitive or an anonymous type
        match w, e with
        | .interface, _ => .error (.typeMismatch "interface" "type")
        | .primitive, .prim _ => .ok (.expr e s, attrs)
        | .primitive, _ => .error (.typeMismatch "primitive" "type")
        | .type, _ => .ok (.expr e s, attrs)
    else if acceptable w n.kind then .ok (.node n, [])
    else .error (.typeMismatch (wantName w) n.kind.str)

end Slicec
