/-
  Doc comments in whole programs (C16): which elements carry comments, how links are bound
  (`patchers/comment_link_patcher.rs`), which lints the validators report for tags that do not fit
  (`validators/comments.rs`, `validators/operations.rs`), and the canonical text of projection `c16:docs`
  of the `compile` engine (harness/src/proj_c16.rs).
-/
import SlicecVerif.Model.Comment
import SlicecVerif.Model.Elab

namespace Slicec

/-- `convert_node_to_entity_ptr`: modules, parameters (and return members) and primitives cannot be linked to -/
def linkable (k : NodeKind) : Bool := !(k == .module || k == .parameter || k == .primitive)

/-- `CommentLinkPatcher::resolve_link`: the identifier is looked up with `find_node_with_scope`, the scope being the
    *documented element's own* parser-scoped identifier; an unlinkable or missing target leaves the link unpatched -/
def resolveLink (t : Table) (elemKey : String) (id : String) : Option NodeInfo :=
  match findNodeWithScope t id elemKey with
  | some n => if linkable n.kind then some n else none
  | none => none

/-- what the validators need to know about the documented element -/
inductive ElemShape where
  | operation (params : List String) (returns : List String)   -- names; a single unnamed return is `["returnValue"]`
  | enumerator
  | other
  deriving Repr, Inhabited

structure DocElem where
  path : String          -- the printer's element path
  key : String           -- parser-scoped identifier
  shape : ElemShape
  doc : List String      -- raw lines (text after `///`)
  deriving Repr, Inhabited

def fieldElems (path scope : String) (fs : List Field) : List DocElem :=
  fs.zipIdx.map fun (f, i) => ⟨path ++ ".f" ++ toString i, scopedId f.name scope, .other, f.doc⟩

def defElems (path modScope : String) : Def → List DocElem
  | .struct doc _ _ name fields =>
    let key := scopedId name modScope
    ⟨path, key, .other, doc⟩ :: fieldElems path key fields
  | .iface doc _ name _ ops =>
    let key := scopedId name modScope
    ⟨path, key, .other, doc⟩ :: ops.zipIdx.map fun (o, i) =>
      ⟨path ++ ".o" ++ toString i, scopedId o.name key, .operation (o.params.map (·.name)) ((retParams o.ret).map (·.name)), o.doc⟩
  | .enum doc _ _ _ name _ es =>
    let key := scopedId name modScope
    ⟨path, key, .other, doc⟩ :: es.zipIdx.flatMap fun (e, i) =>
      let ekey := scopedId e.name key
      ⟨path ++ ".e" ++ toString i, ekey, .enumerator, e.doc⟩ :: fieldElems (path ++ ".e" ++ toString i) ekey (e.fields.getD [])
  | .custom doc _ name => [⟨path, scopedId name modScope, .other, doc⟩]
  | .alias doc _ name _ => [⟨path, scopedId name modScope, .other, doc⟩]

def fileElems (f : SFile) : List DocElem :=
  let modScope := match f.module with | some m => m.path | none => ""
  f.defs.zipIdx.flatMap fun (d, i) => defElems ("d" ++ toString i) modScope d

/-- replace the doc lines of a definition itself / of fields (used to state that doc lines influence nothing but comments) -/
def Def.withDoc : Def → List String → Def
  | .struct _ a c n fs, d => .struct d a c n fs
  | .iface _ a n b os, d => .iface d a n b os
  | .enum _ a c u n ut es, d => .enum d a c u n ut es
  | .custom _ a n, d => .custom d a n
  | .alias _ a n t, d => .alias d a n t

def reDocFields (g : Field → List String) (fs : List Field) : List Field := fs.map fun f => { f with doc := g f }

/-! ### lints -/

def msgLinks (m : Msg) : List Str := m.filterMap fun c => match c with | .link id => some id | .text _ => none

/-- all links of a comment in the patcher's order: overview, param messages, returns messages, see tags -/
def docLinks (c : DocC) : List Str :=
  (match c.overview with | some m => msgLinks m | none => []) ++
  c.params.flatMap (fun x => msgLinks x.2) ++ c.returns.flatMap (fun x => msgLinks x.2) ++ c.see

/-- number of `IncorrectDocComment` lints (`validate_common_doc_comments` + `validate_operation`) -/
def illFitting (shape : ElemShape) (c : DocC) : Nat :=
  match shape with
  | .other => c.params.length + c.returns.length
  | .enumerator => c.returns.length
  | .operation ps rs =>
    (c.params.filter fun x => !(ps.contains (String.ofList x.1))).length +
    (match rs with
     | [] => c.returns.length
     | [_] => (c.returns.filter fun x => x.1.isSome).length
     | _ => (c.returns.filter fun x => match x.1 with | some i => !(rs.contains (String.ofList i)) | none => false).length)

/-- the lints one element's comment causes, given the parser's result for it -/
def elemLints (t : Table) (e : DocElem) (a : Attached) : List LintCode :=
  a.lints ++
  (match a.comment with
   | none => []
   | some c =>
     ((docLinks c).filter fun id => (resolveLink t e.key (String.ofList id)).isNone).map (fun _ => LintCode.brokenDocLink) ++
     List.replicate (illFitting e.shape c) LintCode.incorrectDocComment)

/-! ### projection `c16:docs` -/

def linkDocS (t : Table) (key : String) (id : Str) : String :=
  match resolveLink t key (String.ofList id) with
  | some n => "resolved:" ++ n.kind.str ++ ":" ++ hs n.key
  | none => "unresolved:" ++ hsStr id

def msgDocS (t : Table) (key : String) (m : Msg) : String :=
  "[" ++ ",".intercalate ((mergeMsg m).map fun c => match c with | .text s => "t:" ++ hsStr s | .link id => linkDocS t key id) ++ "]"

def docDocS (t : Table) (key : String) (c : Option DocC) : String :=
  match c with
  | none => "none"
  | some c =>
    "doc(ov=" ++ (match c.overview with | none => "none" | some m => msgDocS t key m) ++
    ";p=[" ++ ",".intercalate (c.params.map fun (i, m) => hsStr i ++ "=" ++ msgDocS t key m) ++
    "];r=[" ++ ",".intercalate (c.returns.map fun (i, m) => (match i with | none => "none" | some i => hsStr i) ++ "=" ++ msgDocS t key m) ++
    "];s=[" ++ ",".intercalate (c.see.map (linkDocS t key)) ++ "])"

/-- `none` = some comment makes the parser panic (the whole compilation would die; with the code's sanitizer this cannot
    happen, `Props/C16.attach_total`) -/
def docsDumpG (san : Sanitizer) (p : Program) : Option String :=
  let t := buildTable p
  let perFile : List (Option (String × List LintCode)) := p.map fun f =>
    let es := fileElems f
    let rs := es.map fun e => (e, attachG san (e.doc.map String.toList))
    if rs.any (fun x => x.2.isPanic) then none
    else
      let parts := rs.map fun (e, a) =>
        match a with
        | .ok a => (e.path ++ "=" ++ docDocS t e.key a.comment, elemLints t e a)
        | _ => ("", [])
      some (";".intercalate (parts.map (·.1)), parts.flatMap (·.2))
  if perFile.any Option.isNone then none
  else
    let fs := perFile.filterMap id
    let lints := sortStrings ((fs.flatMap (·.2)).map fun l => l.str ++ "/" ++ lintLevel l)
    some ("|".intercalate (fs.map (·.1)) ++ " diags=" ++ (if lints.isEmpty then "-" else ",".intercalate lints) ++ " oracle=ok")

def docsDump (p : Program) : Option String := docsDumpG sanitizeMessageLines p
def docsDumpSpec (p : Program) : Option String := docsDumpG (fun ls => .ok (sanitizeSpec ls)) p

end Slicec
