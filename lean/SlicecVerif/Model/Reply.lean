/-
  Model of the generator reply decoding (definition_types.rs: GeneratedFile, Diagnostic,
  DiagnosticLevel; main.rs handle_generator_response: two sequences) — C11, C18.
-/
import SlicecVerif.Model.Codec

namespace Slicec

structure GenFile where
  path : Bytes
  contents : Bytes
  deriving DecidableEq, Repr

structure GDiag where
  level : Nat
  message : Bytes
  source : Option Bytes
  deriving DecidableEq, Repr

/-- `GeneratedFile::decode_from`: path, contents, skip_tagged_fields -/
def decGenFile (bs : Bytes) : Dec GenFile :=
  match decStr bs with
  | .error e => .error e
  | .ok (p, r1) =>
    match decStr r1 with
    | .error e => .error e
    | .ok (c, r2) =>
      match skipTaggedFields r2 with
      | .error e => .error e
      | .ok (_, r3) => .ok (⟨p, c⟩, r3)

/-- `DiagnosticLevel::decode_from`: a `u8` in 0..=2 -/
def decLevel (bs : Bytes) : Dec Nat :=
  match bs with
  | [] => .error (.eob 1 0)
  | b :: rest => if b.toNat ≤ 2 then .ok (b.toNat, rest) else .error .illegalLevel

/-- `Diagnostic::decode_from`: bit-sequence bool, level, message, optional source, skip_tagged_fields -/
def decDiag (bs : Bytes) : Dec GDiag :=
  match decBool bs with
  | .error e => .error e
  | .ok (hasSource, r1) =>
    match decLevel r1 with
    | .error e => .error e
    | .ok (lvl, r2) =>
      match decStr r2 with
      | .error e => .error e
      | .ok (msg, r3) =>
        if hasSource then
          match decStr r3 with
          | .error e => .error e
          | .ok (src, r4) =>
            match skipTaggedFields r4 with
            | .error e => .error e
            | .ok (_, r5) => .ok (⟨lvl, msg, some src⟩, r5)
        else
          match skipTaggedFields r3 with
          | .error e => .error e
          | .ok (_, r5) => .ok (⟨lvl, msg, none⟩, r5)

def decSeqOf {α} (dec : Bytes → Dec α) (bs : Bytes) : Dec (List α) :=
  match decVaruintRaw bs with
  | .error e => .error e
  | .ok (n, rest) => decList dec n rest

/-- `handle_generator_response`: `Vec<GeneratedFile>` then `Vec<Diagnostic>`; trailing bytes are ignored -/
def decReply (bs : Bytes) : Dec (List GenFile × List GDiag) :=
  match decSeqOf decGenFile bs with
  | .error e => .error e
  | .ok (fs, r1) =>
    match decSeqOf decDiag r1 with
    | .error e => .error e
    | .ok (ds, r2) => .ok ((fs, ds), r2)

/-! encoders (what a well-behaved generator writes); `0xFC` = varint `-1` = tag end marker -/

def tagEnd : Bytes := [0xFC]

def encGenFile (f : GenFile) : Option Bytes :=
  match encStr f.path, encStr f.contents with
  | some a, some b => some (a ++ b ++ tagEnd)
  | _, _ => none

def encDiag (d : GDiag) : Option Bytes :=
  if d.level ≤ 2 then
    match encStr d.message, d.source with
    | some m, none => some ([0, UInt8.ofNat d.level] ++ m ++ tagEnd)
    | some m, some s =>
      match encStr s with
      | some sb => some ([1, UInt8.ofNat d.level] ++ m ++ sb ++ tagEnd)
      | none => none
    | none, _ => none
  else none

def encReply (fs : List GenFile) (ds : List GDiag) : Option Bytes :=
  match withSize fs.length (encList encGenFile fs), withSize ds.length (encList encDiag ds) with
  | some a, some b => some (a ++ b)
  | _, _ => none

end Slicec
