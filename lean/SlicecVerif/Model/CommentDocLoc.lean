/-
  Spans of the parts of a doc comment and of the comment lints (C09).

  `Model/Comment.lean` (C16) models WHAT the comment parser builds; this file adds WHERE: the spans the productions of
  `parsers/comments/grammar.lalrpop` compute with `@L` / `@R` from the located token stream of `Model/CommentLoc.lean`,
  the span arithmetic of `grammar.rs` (`create_doc_comment`: start column − 3, end = end of the overview;
  `append_tag_to_comment!`: end = end of the tag's span), the span of the `MalformedDocComment` lint
  (`construct_lint_from`: the lexer error's span, or the span of the first token no production can take), and the spans
  of `IncorrectDocComment` (`validators/comments.rs`, `validators/operations.rs`) and `BrokenDocLink`
  (`patchers/comment_link_patcher.rs`).  The parser has the structure of `parseCommentG` (same decisions, same
  sanitizer); dropping the spans gives its result (`LDoc.erase`; re-checked by the driver on every generated comment).

  What the generated parser does with `@L` / `@R` (read off the generated `grammar.rs`, tied by stream `C09doc`):
  * `@L` in front of a symbol that is present is the start of that symbol's first token; in front of an absent
    `MessageLines?` (`DocComment = <l: @L> <overview: MessageLines?>` reduced on the empty input) it is the start of the
    look-ahead token — the first block keyword; so a comment whose first line is a tag starts at that tag's `@` minus 3
    columns, which is NOT the column of the `///` unless the `@` directly follows it;
  * `@R` behind a symbol that is present is the end of that symbol's last token; behind the absent `Identifier?` of
    `ReturnsBlock` it is the START of the following `Section` (the `:` or the `Newline`), so the span of `@returns  : x`
    includes the blanks in front of the colon; behind the absent `MessageLines?` of `Section` it is the end of the
    `Newline` in front;
  * a `Section`'s span starts at its `:` (or, without one, at the zero-width `Newline`) and ends at the end of its last
    `Newline`; a `MessageLines` runs from the start of its first token to the end of its last `Newline`;
  * an inline link's tag span runs from `@link` (not from the `{`) to the end of the scoped identifier.
-/
import SlicecVerif.Model.CommentLoc
import SlicecVerif.Model.CommentDocs
import SlicecVerif.Model.SliceLexerLoc

namespace Slicec

/-- `Span` without the file -/
structure Sp where
  start : Loc
  stop : Loc
  deriving DecidableEq, Repr, Inhabited

def Loc.ltLex (a b : Loc) : Bool := a.row < b.row || (a.row == b.row && a.col < b.col)

/-- `impl Add for &Span`: `min` of the starts, `max` of the ends (`Location` is ordered by row, then column) -/
def Sp.add (a b : Sp) : Sp :=
  ⟨if b.start.ltLex a.start then b.start else a.start, if a.stop.ltLex b.stop then b.stop else a.stop⟩

/-- `LinkTag` / `SeeTag`: the tag's span and the identifier (`TypeRefDefinition::Unpatched(identifier)`) with its span -/
structure LLink where
  span : Sp
  id : Str
  idSpan : Sp
  deriving DecidableEq, Repr, Inhabited

/-- `Message { value, span }` with the links it contains (in order) -/
structure LMsg where
  span : Sp
  value : Msg
  links : List LLink
  deriving DecidableEq, Repr, Inhabited

structure LTag where
  span : Sp
  ident : Option (Str × Sp)
  message : LMsg
  deriving DecidableEq, Repr, Inhabited

structure LDoc where
  span : Sp
  overview : Option LMsg
  params : List LTag        -- `ident` is always `some`
  returns : List LTag
  see : List LLink
  deriving DecidableEq, Repr, Inhabited

def LDoc.erase (d : LDoc) : DocC :=
  { overview := d.overview.map (·.value),
    params := d.params.map fun t => ((t.ident.map (·.1)).getD [], t.message.value),
    returns := d.returns.map fun t => (t.ident.map (·.1), t.message.value),
    see := d.see.map (·.id) }

/-- every span a message carries: its own, and tag + identifier of each inline link -/
def LMsg.spans (m : LMsg) : List Sp := m.span :: m.links.flatMap fun l => [l.span, l.idSpan]

def LTag.spans (t : LTag) : List Sp :=
  t.span :: (match t.ident with | some (_, s) => [s] | none => []) ++ t.message.spans

/-- the spans of all parts of a comment (everything but the comment's own span) -/
def LDoc.partSpans (d : LDoc) : List Sp :=
  (match d.overview with | some m => m.spans | none => []) ++ d.params.flatMap (·.spans) ++ d.returns.flatMap (·.spans) ++
  d.see.flatMap fun l => [l.span, l.idSpan]

/-- why a comment did not parse: the span the `MalformedDocComment` lint is reported with -/
inductive LFail where
  | at (s : Sp)          -- `ParseError::User` (the lexer's error) or `UnrecognizedToken`
  | eof                  -- `ParseError::UnrecognizedEof` (not reachable: every stream without lexer error ends in `Newline`)
  deriving DecidableEq, Repr, Inhabited

inductive LRes (α : Type) where
  | ok (a : α)
  | fail (f : LFail)
  | panic (site : String)
  deriving Repr, DecidableEq

def LRes.bind {α β} (x : LRes α) (f : α → LRes β) : LRes β :=
  match x with
  | .ok a => f a
  | .fail e => .fail e
  | .panic s => .panic s

/-- the parser stops at the head of `toks`; when the tokens are used up, at the lexer error behind them -/
def failHere (pend : Option LCErr) (toks : List LCTok) : LFail :=
  match toks with
  | t :: _ => .at ⟨t.start, t.stop⟩
  | [] => match pend with
    | some e => .at ⟨e.start, e.stop⟩
    | none => .eof

/-- `("::" identifier)*`: the identifiers and the end of the last one -/
def parseIdTailLoc (pend : Option LCErr) (last : Loc) : List LCTok → LRes (List Str × Loc × List LCTok)
  | ⟨_, .dcolon, _⟩ :: ⟨_, .ident s, e⟩ :: rest =>
    (parseIdTailLoc pend e rest).bind fun (v, r, rest') => .ok (s :: v, r, rest')
  | ⟨_, .dcolon, _⟩ :: rest => .fail (failHere pend rest)
  | rest => .ok ([], last, rest)

/-- `ScopedIdentifier = <l: @L> "::"? identifier ("::" identifier)* <r: @R>` -/
def parseScopedIdLoc (pend : Option LCErr) : List LCTok → LRes (Str × Sp × List LCTok)
  | ⟨l, .dcolon, _⟩ :: ⟨_, .ident s, e⟩ :: rest =>
    (parseIdTailLoc pend e rest).bind fun (v, r, rest') => .ok (joinScoped true s v, ⟨l, r⟩, rest')
  | ⟨_, .dcolon, _⟩ :: rest => .fail (failHere pend rest)
  | ⟨l, .ident s, e⟩ :: rest =>
    (parseIdTailLoc pend e rest).bind fun (v, r, rest') => .ok (joinScoped false s v, ⟨l, r⟩, rest')
  | toks => .fail (failHere pend toks)

/-- `MessageComponent*`; `InlineLink = <l: @L> link_keyword ScopedIdentifier <r: @R>` between `{` and `}` -/
def parseCompsLoc (pend : Option LCErr) : Nat → List LCTok → LRes (List Comp × List LLink × List LCTok)
  | 0, toks => .fail (failHere pend toks)
  | fuel + 1, ⟨_, .text s, _⟩ :: rest =>
    (parseCompsLoc pend fuel rest).bind fun (cs, ls, r) => .ok (.text s :: cs, ls, r)
  | fuel + 1, ⟨_, .lbrace, _⟩ :: ⟨l, .kw .LinkKeyword, _⟩ :: rest =>
    (parseScopedIdLoc pend rest).bind fun (id, sp, rest') =>
      match rest' with
      | ⟨_, .rbrace, _⟩ :: rest'' =>
        (parseCompsLoc pend fuel rest'').bind fun (cs, ls, r) => .ok (.link id :: cs, ⟨⟨l, sp.stop⟩, id, sp⟩ :: ls, r)
      | _ => .fail (failHere pend rest')
  | _ + 1, ⟨_, .lbrace, _⟩ :: rest => .fail (failHere pend rest)
  | _ + 1, rest => .ok ([], [], rest)

def startsLineL (toks : List LCTok) : Bool := startsLine (toks.map (·.tok))

/-- `(Message? newline)*`, greedy: the lines, their links, the end of the last `Newline` (`last` when there is no line) -/
def parseLinesLoc (pend : Option LCErr) : Nat → Loc → List LCTok → LRes (List MLine × List LLink × Loc × List LCTok)
  | 0, _, toks => .fail (failHere pend toks)
  | fuel + 1, last, toks =>
    if startsLineL toks then
      (parseCompsLoc pend (toks.length + 1) toks).bind fun (cs, lk, rest) =>
        match rest with
        | ⟨_, .newline, e⟩ :: rest' =>
          (parseLinesLoc pend fuel e rest').bind fun (ls, lk', r, rest'') => .ok (toMLine cs :: ls, lk ++ lk', r, rest'')
        | _ => .fail (failHere pend rest)
    else .ok ([], [], last, toks)

def validFollowerL (pend : Option LCErr) (rest : List LCTok) : Bool :=
  validFollower (pend.map (·.err)) (rest.map (·.tok))

def sanitizeL (san : Sanitizer) (ls : List MLine) : LRes Msg :=
  match san ls with
  | .ok m => .ok m
  | .err _ => .panic "sanitizer"
  | .panic s => .panic s

/-- reduce `MessageLines?` if the look-ahead allows it: `MessageLines = <l: @L> (Message? newline)+ <r: @R>` -/
def reduceLinesLoc (san : Sanitizer) (pend : Option LCErr) (start stop : Loc) (ls : List MLine) (links : List LLink)
    (rest : List LCTok) : LRes (Option LMsg) :=
  if validFollowerL pend rest then
    match ls with
    | [] => .ok none
    | _ :: _ => (sanitizeL san ls).bind fun m => .ok (some ⟨⟨start, stop⟩, m, links⟩)
  else .fail (failHere pend rest)

/-- the start of the first token (`@L` in front of a symbol that is present) -/
def headStart (dflt : Loc) : List LCTok → Loc
  | t :: _ => t.start
  | [] => dflt

/-- `Section = <l: @L> (":" Message?)? newline MessageLines? <r: @R>` -/
def parseSectionLoc (san : Sanitizer) (pend : Option LCErr) (toks : List LCTok) : LRes (LMsg × List LCTok) :=
  let hdr : LRes (Option (List Comp) × List LLink × Loc × Loc × List LCTok) :=
    match toks with
    | ⟨l, .colon, _⟩ :: rest =>
      (parseCompsLoc pend (rest.length + 1) rest).bind fun (cs, lk, rest') =>
        match rest' with
        | ⟨_, .newline, e⟩ :: r => .ok ((match cs with | [] => none | _ => some cs), lk, l, e, r)
        | _ => .fail (failHere pend rest')
    | ⟨l, .newline, e⟩ :: r => .ok (none, [], l, e, r)
    | _ => .fail (failHere pend toks)
  hdr.bind fun (inl, lk, l, e, r) =>
    (parseLinesLoc pend (r.length + 1) e r).bind fun (ls, lk', stop, rest) =>
      (reduceLinesLoc san pend (headStart e r) stop ls lk' rest).bind fun ml =>
        .ok (⟨⟨l, stop⟩, constructSectionMessage inl (ml.map (·.value)), lk ++ lk'⟩, rest)

/-- `(ParamBlock | ReturnsBlock | SeeBlock)*` then end of input; `append_tag_to_comment!` moves the comment's end to the
    end of the tag's span (which is the tag's header, not its message) -/
def parseBlocksLoc (san : Sanitizer) (pend : Option LCErr) : Nat → LDoc → List LCTok → LRes LDoc
  | 0, _, toks => .fail (failHere pend toks)
  | fuel + 1, c, toks =>
    match toks with
    | [] => match pend with
      | none => .ok c
      | some _ => .fail (failHere pend [])
    | ⟨l, .kw .ParamKeyword, _⟩ :: ⟨il, .ident id, ie⟩ :: rest =>
      (parseSectionLoc san pend rest).bind fun (m, r) =>
        parseBlocksLoc san pend fuel { c with span := ⟨c.span.start, ie⟩, params := c.params ++ [⟨⟨l, ie⟩, some (id, ⟨il, ie⟩), m⟩] } r
    | ⟨_, .kw .ParamKeyword, _⟩ :: rest => .fail (failHere pend rest)
    | ⟨l, .kw .ReturnsKeyword, _⟩ :: ⟨il, .ident id, ie⟩ :: rest =>
      (parseSectionLoc san pend rest).bind fun (m, r) =>
        parseBlocksLoc san pend fuel { c with span := ⟨c.span.start, ie⟩, returns := c.returns ++ [⟨⟨l, ie⟩, some (id, ⟨il, ie⟩), m⟩] } r
    | ⟨l, .kw .ReturnsKeyword, _⟩ :: rest =>
      -- `@R` behind the absent `Identifier?` is the start of the `Section` that follows
      (parseSectionLoc san pend rest).bind fun (m, r) =>
        parseBlocksLoc san pend fuel { c with span := ⟨c.span.start, m.span.start⟩, returns := c.returns ++ [⟨⟨l, m.span.start⟩, none, m⟩] } r
    | ⟨l, .kw .SeeKeyword, _⟩ :: rest =>
      (parseScopedIdLoc pend rest).bind fun (id, sp, rest') =>
        match rest' with
        | ⟨_, .newline, _⟩ :: r =>
          if validFollowerL pend r then
            parseBlocksLoc san pend fuel { c with span := ⟨c.span.start, sp.stop⟩, see := c.see ++ [⟨⟨l, sp.stop⟩, id, sp⟩] } r
          else .fail (failHere pend r)
        | _ => .fail (failHere pend rest')
    | _ => .fail (failHere pend toks)

/-- `create_doc_comment(overview, l, file)`: `span.start.col -= 3` (an underflow panics in the harness' build), the end is
    the overview's end, or `l` itself when there is none -/
def createDocComment (overview : Option LMsg) (l : Loc) : LRes LDoc :=
  if l.col < 3 then .panic "create_doc_comment: column - 3"
  else .ok { span := ⟨⟨l.row, l.col - 3⟩, match overview with | some m => m.span.stop | none => l⟩,
             overview := overview, params := [], returns := [], see := [] }

/-- `DocComment = <l: @L> MessageLines? (ParamBlock | ReturnsBlock | SeeBlock)*` over the located token stream -/
def parseCommentLocG (san : Sanitizer) (lines : List CLine) : LRes LDoc :=
  match lines with
  | [] => .panic "created lexer over an empty comment"
  | l0 :: _ =>
    let lx := lexCommentLoc lines
    (parseLinesLoc lx.err (lx.toks.length + 1) l0.start lx.toks).bind fun (ls, lk, stop, rest) =>
      (reduceLinesLoc san lx.err (headStart l0.start lx.toks) stop ls lk rest).bind fun ov =>
        -- `@L`: the start of the overview's first token, or of the look-ahead (the first block keyword) without overview
        let l := match ov with | some m => m.span.start | none => headStart l0.start rest
        (createDocComment ov l).bind fun c => parseBlocksLoc san lx.err (rest.length + 1) c rest

def parseCommentLoc (lines : List CLine) : LRes LDoc := parseCommentLocG sanitizeMessageLines lines

/-- what `parseCommentLoc` says once the spans are dropped; to be compared with `parseComment` -/
def LRes.eraseDoc : LRes LDoc → Outcome CErr DocC
  | .ok d => .ok d.erase
  | .fail _ => .err (.malformed none)
  | .panic s => .panic s

/-! ## lints with spans -/

structure LLint where
  code : LintCode
  span : Sp
  deriving DecidableEq, Repr, Inhabited

def LMsg.linkList (m : LMsg) : List LLink := m.links

/-- all links of a comment in the patcher's order: overview, param messages, returns messages, see tags -/
def LDoc.allLinks (c : LDoc) : List LLink :=
  (match c.overview with | some m => m.links | none => []) ++
  c.params.flatMap (·.message.links) ++ c.returns.flatMap (·.message.links) ++ c.see

/-- `report_only_operation_error` and `validate_returns_tags_for_operation_with_no_return_type`: `tag.span() + message.span()` -/
def LTag.withMessage (t : LTag) : Sp := t.span.add t.message.span

def tagName (t : LTag) : Option String := t.ident.map fun x => String.ofList x.1

/-- the spans of the `IncorrectDocComment` lints (`validate_common_doc_comments` + `validate_operation`), in reporting order -/
def illFittingSpans (shape : ElemShape) (c : LDoc) : List Sp :=
  match shape with
  | .other => c.params.map (·.withMessage) ++ c.returns.map (·.withMessage)
  | .enumerator => c.returns.map (·.withMessage)
  | .operation ps rs =>
    ((c.params.filter fun t => match tagName t with | some n => !(ps.contains n) | none => false).map (·.span)) ++
    (match rs with
     | [] => c.returns.map (·.withMessage)
     | [_] => (c.returns.filter fun t => t.ident.isSome).map (·.span)
     | _ => (c.returns.filter fun t => match tagName t with | some n => !(rs.contains n) | none => false).map (·.span))

/-- the doc lints one element causes, with spans: `MalformedDocComment` at the parser's failure, `BrokenDocLink` at the
    identifier of every link that does not resolve, `IncorrectDocComment` per ill-fitting tag -/
def elemLintsLoc (t : Table) (e : DocElem) (r : LRes LDoc) : List LLint :=
  match r with
  | .ok c =>
    ((c.allLinks.filter fun l => (resolveLink t e.key (String.ofList l.id)).isNone).map fun l => ⟨.brokenDocLink, l.idSpan⟩) ++
    (illFittingSpans e.shape c).map fun s => ⟨.incorrectDocComment, s⟩
  | .fail (.at s) => [⟨.malformedDocComment, s⟩]
  | .fail .eof => [⟨.malformedDocComment, ⟨⟨0, 0⟩, ⟨0, 0⟩⟩⟩]
  | .panic _ => []

/-! ## canonical text (engine `comments` op `docloc`, engine `compile` projection `c09:docspans`) -/

def spS (s : Sp) : String := s!"{s.start.row}:{s.start.col}:{s.stop.row}:{s.stop.col}"

def linkS (l : LLink) : String := "link(" ++ spS l.span ++ ";" ++ hsStr l.id ++ "@" ++ spS l.idSpan ++ ")"

def lmsgS (m : LMsg) : String := "msg(" ++ spS m.span ++ ";[" ++ ",".intercalate (m.links.map linkS) ++ "])"

def ltagS (t : LTag) : String :=
  "tag(" ++ spS t.span ++ ";" ++ (match t.ident with | some (i, s) => hsStr i ++ "@" ++ spS s | none => "none") ++ ";" ++ lmsgS t.message ++ ")"

def ldocS (c : LDoc) : String :=
  "doc(" ++ spS c.span ++ ";ov=" ++ (match c.overview with | none => "none" | some m => lmsgS m) ++
  ";p=[" ++ ",".intercalate (c.params.map ltagS) ++ "];r=[" ++ ",".intercalate (c.returns.map ltagS) ++
  "];s=[" ++ ",".intercalate (c.see.map linkS) ++ "])"

/-- engine `comments`, op `docloc`: the hook returns the lint's code but not its span -/
def lresHookS : LRes LDoc → String
  | .ok c => ldocS c
  | .fail _ => "malformed"
  | .panic _ => "panic"

/-- the located comment, or where the `MalformedDocComment` lint points -/
def lresS : LRes LDoc → String
  | .ok c => ldocS c
  | .fail (.at s) => "malformed@" ++ spS s
  | .fail .eof => "malformed@eof"
  | .panic _ => "panic"

/-! ## whole programs: projection `c09:docspans` -/

/-- the doc-comment lines of a source text as the Slice parser's `Prelude` collects them: text and span of every
    `DocComment` token of the located Slice lexer model (one source block starting at 1:1) -/
def docLinesOfText (text : String) : List CLine :=
  (SLex.lexRunLoc false ⟨1, 1⟩ text.toList).items.filterMap fun i =>
    match i.item with
    | .tok (.doc d) => some ⟨d, i.start, i.stop⟩
    | _ => none

/-- the lines of each element: the elements are met in source order and an element with `n` doc lines takes the next `n`
    `DocComment` tokens; `none` when the texts do not agree with the element's lines (never for rendered programs) -/
def assignDocLines : List DocElem → List CLine → Option (List (DocElem × List CLine))
  | [], [] => some []
  | [], _ :: _ => none
  | e :: es, ls =>
    let n := e.doc.length
    let mine := ls.take n
    if mine.length == n && mine.map (·.text) == e.doc.map String.toList then
      (assignDocLines es (ls.drop n)).map fun r => (e, mine) :: r
    else none

/-- a link of a whole program: after `CommentLinkPatcher` a resolved link has lost its identifier -/
def linkProgS (t : Table) (key : String) (l : LLink) : String :=
  match resolveLink t key (String.ofList l.id) with
  | some _ => "link(" ++ spS l.span ++ ";resolved)"
  | none => linkS l

def lmsgProgS (t : Table) (key : String) (m : LMsg) : String :=
  "msg(" ++ spS m.span ++ ";[" ++ ",".intercalate (m.links.map (linkProgS t key)) ++ "])"

def ltagProgS (t : Table) (key : String) (x : LTag) : String :=
  "tag(" ++ spS x.span ++ ";" ++ (match x.ident with | some (i, s) => hsStr i ++ "@" ++ spS s | none => "none") ++ ";" ++ lmsgProgS t key x.message ++ ")"

def ldocProgS (t : Table) (key : String) (c : LDoc) : String :=
  "doc(" ++ spS c.span ++ ";ov=" ++ (match c.overview with | none => "none" | some m => lmsgProgS t key m) ++
  ";p=[" ++ ",".intercalate (c.params.map (ltagProgS t key)) ++ "];r=[" ++ ",".intercalate (c.returns.map (ltagProgS t key)) ++
  "];s=[" ++ ",".intercalate (c.see.map (linkProgS t key)) ++ "])"

/-- projection `c09:docspans` of a program whose files have the given texts; `none` = the texts' doc lines are not the
    elements' doc lines, or a comment makes the parser panic -/
def docSpansDump (p : Program) (texts : List String) : Option String :=
  let t := buildTable p
  let perFile : List (Option (String × List String)) := (p.zip texts).zipIdx.map fun ((f, text), fi) =>
    match assignDocLines (fileElems f) (docLinesOfText text) with
    | none => none
    | some groups =>
      let rs := (groups.filter fun g => !g.2.isEmpty).map fun (e, ls) => (e, parseCommentLoc ls)
      if rs.any (fun x => match x.2 with | .panic _ => true | _ => false) then none
      else
        let parts := rs.filterMap fun (e, r) => match r with | .ok c => some (e.path ++ "=" ++ ldocProgS t e.key c) | _ => none
        let lints := rs.flatMap fun (e, r) => (elemLintsLoc t e r).map fun l => l.code.str ++ "@" ++ spS l.span ++ "@" ++ toString fi
        some (";".intercalate parts, lints)
  if perFile.any Option.isNone then none
  else
    let fs := perFile.filterMap id
    let lints := sortStrings (fs.flatMap (·.2))
    some ("|".intercalate (fs.map (·.1)) ++ " diags=" ++ (if lints.isEmpty then "-" else ",".intercalate lints) ++ " oracle=ok")

end Slicec
