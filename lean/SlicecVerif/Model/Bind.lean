/-
  C03: what every written type reference of a program is bound to after `TypeRefPatcher` ran, which
  error codes the patcher records, and which entities can be retrieved from the table by their scoped
  identifier. `bindDump` is the text of projection `c03:bind` (harness/src/proj_c03.rs).
  Element paths are the ones of Model/Print.lean.
-/
import SlicecVerif.Model.Resolve

namespace Slicec

/-- what a reference points at after patching -/
inductive Bound where
  | prim (p : Prim)               -- a primitive (written as a keyword, reached by name, or through aliases)
  | defn (n : NodeInfo)           -- a named definition
  | anon (e : TyExpr)             -- an anonymous type: written here, or written in an alias
  | unpatched (id : String)       -- resolution failed: the reference still holds the identifier
  deriving Inhabited

def Bound.isBound : Bound → Bool
  | .unpatched _ => false
  | _ => true

structure BindRes where
  bound : Bound
  /-- attributes picked up from the types of the aliases walked through -/
  inherited : List Attr
  /-- error codes recorded for this reference -/
  codes : List String
  deriving Inhabited

/-- `resolve_definition`'s error mapping plus the E019 recorded inside `resolve_type_alias` -/
def errCodes : ResErr → List String
  | .doesNotExist _ => [Gen.codeDoesNotExist]
  | .typeMismatch _ _ => [Gen.codeTypeMismatch]
  | .aliasCycle true _ => [Gen.codeSelfReferentialAlias, Gen.codeDoesNotExist]
  | .aliasCycle false _ => [Gen.codeDoesNotExist]
  | .fuel => ["FUEL"]

def boundOfTarget : Target → Bound
  | .node n => match n.prim with | some p => .prim p | none => .defn n
  | .expr (.prim p) _ => .prim p
  | .expr e _ => .anon e

/-- one reference in a position that wants `w`, written in a file of module `scope`.
    Primitive keywords and anonymous types are bound by the parser; names go through `resolve_definition`. -/
def bindRef (t : Table) (w : Want) (scope : String) (r : TRef) : BindRes :=
  match r.ty with
  | .prim p => ⟨.prim p, [], []⟩
  | .named id =>
    match resolveNamed t w id scope with
    | .ok (tgt, extra) => ⟨boundOfTarget tgt, extra, []⟩
    | .error e => ⟨.unpatched id, [], errCodes e⟩
  | e => ⟨.anon e, [], []⟩

/-- the bases of one interface: resolved left to right, stopping at the first failure
    (`collect::<Option<Vec<_>>>()`); one failure leaves *all* of them unpatched -/
def bindBasesGo (t : Table) (scope : String) : List TRef → Option (List BindRes) × List String
  | [] => (some [], [])
  | b :: bs =>
    let r := bindRef t .interface scope b
    if r.bound.isBound then
      match bindBasesGo t scope bs with
      | (some rs, c) => (some (r :: rs), c)
      | (none, c) => (none, c)
    else (none, r.codes)

def unpatchedOf (r : TRef) : BindRes :=
  match r.ty with
  | .named id => ⟨.unpatched id, [], []⟩
  | .prim p => ⟨.prim p, [], []⟩
  | e => ⟨.anon e, [], []⟩

def bindBases (t : Table) (scope : String) (bs : List TRef) : List BindRes × List String :=
  match bindBasesGo t scope bs with
  | (some rs, c) => (rs, c)
  | (none, c) => (bs.map unpatchedOf, c)

/-- a place where references are written -/
inductive Site where
  | ref (path : String) (w : Want) (scope : String) (r : TRef)
  | bases (path : String) (scope : String) (bs : List TRef)

mutual
def tySites (path scope : String) : TyExpr → List Site
  | .prim _ => []
  | .named _ => []
  | .seq e => trefSites (path ++ ".e") .type scope e
  | .dict k v => trefSites (path ++ ".k") .type scope k ++ trefSites (path ++ ".v") .type scope v
  | .result s f => trefSites (path ++ ".s") .type scope s ++ trefSites (path ++ ".f") .type scope f
def trefSites (path : String) (w : Want) (scope : String) : TRef → List Site
  | .mk attrs ty opt => .ref path w scope (.mk attrs ty opt) :: tySites path scope ty
end

def fieldSites (path scope : String) (fs : List Field) : List Site :=
  fs.zipIdx.flatMap fun (f, i) => trefSites (path ++ ".f" ++ toString i ++ ".t") .type scope f.ty

def paramSites (path pfx scope : String) (ps : List Param) : List Site :=
  ps.zipIdx.flatMap fun (p, i) => trefSites (path ++ pfx ++ toString i ++ ".t") .type scope p.ty

def defSites (path scope : String) : Def → List Site
  | .struct _ _ _ _ fields => fieldSites path scope fields
  | .iface _ _ _ bases ops =>
    (if bases.isEmpty then [] else [.bases path scope bases]) ++
    (ops.zipIdx.flatMap fun (o, i) =>
      let op := path ++ ".o" ++ toString i
      paramSites op ".p" scope o.params ++ paramSites op ".r" scope (retParams o.ret))
  | .enum _ _ _ _ _ underlying es =>
    (match underlying with | none => [] | some u => trefSites (path ++ ".u") .primitive scope u) ++
    (es.zipIdx.flatMap fun (e, i) => fieldSites (path ++ ".e" ++ toString i) scope (e.fields.getD []))
  | .custom _ _ _ => []
  | .alias _ _ _ ty => trefSites (path ++ ".t") .type scope ty

def fileSites (f : SFile) : List Site :=
  f.defs.zipIdx.flatMap fun (d, i) => defSites ("d" ++ toString i) f.modPath d

/-- one observed reference: path, what was written, what it is bound to -/
structure BindLine where
  path : String
  written : List Attr
  res : BindRes

def siteLines (t : Table) : Site → List BindLine
  | .ref path w scope r => [⟨path, r.attrs, bindRef t w scope r⟩]
  | .bases path scope bs =>
    ((bindBases t scope bs).1.zip bs).zipIdx.map fun ((res, b), i) => ⟨path ++ ".b" ++ toString i, b.attrs, res⟩

def siteCodes (t : Table) : Site → List String
  | .ref _ w scope r => (bindRef t w scope r).codes
  | .bases _ scope bs => (bindBases t scope bs).2

def progLines (p : Program) : List BindLine := p.flatMap fun f => (fileSites f).flatMap (siteLines (buildTable p))

/-- every error code the patcher records for the program -/
def progCodes (p : Program) : List String := p.flatMap fun f => (fileSites f).flatMap (siteCodes (buildTable p))

/-! ### rendering -/

def hx (s : String) : String := hexOfString s

def TyExpr.anonName : TyExpr → String
  | .seq _ => "seq" | .dict _ _ => "dict" | .result _ _ => "result" | .prim _ => "prim" | .named _ => "named"

def Bound.str : Bound → String
  | .prim p => "prim(" ++ p.kw ++ ")"
  | .defn n => "def(" ++ n.kind.str ++ "," ++ hx n.key ++ ")"
  | .anon e => "anon(" ++ e.anonName ++ ")"
  | .unpatched id => "unpatched(" ++ hx id ++ ")"

def BindLine.str (l : BindLine) : String :=
  l.path ++ "=" ++ l.res.bound.str ++ "[" ++ ",".intercalate ((l.written ++ l.res.inherited).map (·.directive)) ++ "]"

def insertSortedStr (x : String) : List String → List String
  | [] => [x]
  | y :: ys => if x ≤ y then x :: y :: ys else y :: insertSortedStr x ys

def sortStr (xs : List String) : List String := xs.foldl (fun acc x => insertSortedStr x acc) []

def codesS (cs : List String) : String := if cs.isEmpty then "-" else ",".intercalate (sortStr cs)

/-- entities (definitions, fields, enumerators, operations) whose identifier no longer retrieves them:
    a later entry took the key -/
def retrieveFailures : Table → List String
  | [] => []
  | e :: rest =>
    (if (e.2.kind != .module && e.2.kind != .parameter && e.2.kind != .primitive) && rest.any (fun x => x.1 == e.1)
     then [e.1] else []) ++ retrieveFailures rest

def retrieveS (t : Table) : String :=
  match retrieveFailures t with
  | [] => "retrieve=ok"
  | ks => "retrieve=fail(" ++ ",".intercalate (sortStr (ks.map hx)) ++ ")"

/-- projection `c03:find`: bindings and retrieval only (used where later phases add diagnostics of their own) -/
def findDump (p : Program) : String :=
  let t := buildTable p
  "|".intercalate (p.map fun f => ";".intercalate (((fileSites f).flatMap (siteLines t)).map BindLine.str)) ++
  ";find:" ++ retrieveS t

/-- projection `c03:bind` -/
def bindDump (p : Program) : String := findDump p ++ " diags=" ++ codesS (progCodes p)

end Slicec
