/-
  A generic Slice decoder / encoder driven by a *schema* (the data of `Gen.CompilerSchema`, parsed from
  slice/Compiler/*.slice by an independent mini-parser) — C08 (and the reply side of C18).

  * `SVal` — untyped values: what a reader that only knows the schema gets out of a byte stream.
  * `decTy S fuel ty bytes` — read one value of schema type `ty`: primitives with the codec's primitives
    (Model/Codec.lean), sequences = size + elements, dictionaries = size + (key, value) pairs, structs = bit sequence
    for the optional fields (one bit per optional field, LSB first, ⌈n/8⌉ bytes) + fields in schema order + (unless
    compact) tagged fields up to the tag end marker, enumerators with fields = varint32 discriminant + fields as a
    struct body, enumerations with an underlying type = that type's encoding, type aliases = their target.
  * `encTy` — the matching schema-driven encoder; `Lemmas/SchemaCodec.lean` proves `decTy (encTy v ++ rest) = (v, rest)`
    for every schema.
  `fuel` bounds the nesting of *type names* (not the size of the data: element loops recurse on the announced count).
  The wire form of an enumerator with fields has no independent description in the repository; it is taken from the
  implementation (`definition_types.rs`, `impl EncodeInto for &Symbol`) — stated in the trusted base.
-/
import SlicecVerif.Model.Codec
import SlicecVerif.Gen.CompilerSchema

namespace Slicec

open Gen (STy SField SStruct SVariant SEnum SAlias SOp)

/-- what a schema-driven reader produces -/
inductive SVal where
  | bool (b : Bool)
  | int (i : Int)               -- every numeric primitive (floats: their bit pattern)
  | str (s : Bytes)             -- UTF-8 bytes
  | list (xs : List SVal)       -- a sequence; a dictionary is a list of `pair`s
  | pair (k v : SVal)
  | absent                      -- an optional field that is not set
  | present (v : SVal)          -- an optional field that is set
  | struct (fields : List SVal) -- one value per schema field, in schema order
  | variant (index : Nat) (fields : List SVal)  -- enumerator number `index` (position in the schema) with its fields
  deriving Repr, Inhabited

structure Schema where
  structs : List SStruct
  enums : List SEnum
  aliases : List SAlias
  ops : List SOp

/-- the schema shipped in slice/Compiler -/
def compilerSchema : Schema := ⟨Gen.schemaStructs, Gen.schemaEnums, Gen.schemaAliases, Gen.schemaOps⟩

inductive SDef where
  | struct (s : SStruct)
  | enum (e : SEnum)
  | alias (a : SAlias)

def Schema.find (S : Schema) (n : String) : Option SDef :=
  match S.structs.find? (fun s => s.name == n) with
  | some s => some (.struct s)
  | none =>
    match S.enums.find? (fun e => e.name == n) with
    | some e => some (.enum e)
    | none =>
      match S.aliases.find? (fun a => a.name == n) with
      | some a => some (.alias a)
      | none => none

inductive SErr where
  | codec (e : DErr)
  | unknownType (n : String)
  | fuel
  | badDiscriminant (v : Int)
  | unsupported (what : String)
  | wrongOperation
  deriving Repr, DecidableEq

abbrev SDec (α : Type) := Except SErr (α × Bytes)

def liftDec {α β} (f : α → β) (r : Dec α) : SDec β :=
  match r with
  | .ok (a, rest) => .ok (f a, rest)
  | .error e => .error (.codec e)

def natI (r : Dec Nat) : Dec Int :=
  match r with
  | .ok (a, rest) => .ok ((a : Int), rest)
  | .error e => .error e

/-- the 16 primitive types of Slice, decoded with the codec's primitives -/
def decPrim (p : String) (bs : Bytes) : SDec SVal :=
  match p with
  | "bool" => liftDec .bool (decBool bs)
  | "string" => liftDec .str (decStr bs)
  | "uint8" => liftDec .int (decFixedU 1 bs)
  | "uint16" => liftDec .int (decFixedU 2 bs)
  | "uint32" => liftDec .int (decFixedU 4 bs)
  | "uint64" => liftDec .int (decFixedU 8 bs)
  | "int8" => liftDec .int (decFixedS 1 bs)
  | "int16" => liftDec .int (decFixedS 2 bs)
  | "int32" => liftDec .int (decFixedS 4 bs)
  | "int64" => liftDec .int (decFixedS 8 bs)
  | "varint32" => liftDec .int (narrow (-(2 ^ 31)) (2 ^ 31 - 1) (decVarintRaw bs))
  | "varuint32" => liftDec .int (narrow 0 (2 ^ 32 - 1) (decVaruintRawI bs))
  | "varint62" => liftDec .int (decVarintRaw bs)
  | "varuint62" => liftDec .int (decVaruintRawI bs)
  | "float32" => liftDec .int (natI (decBits 4 bs))
  | "float64" => liftDec .int (natI (decBits 8 bs))
  | _ => .error (.unknownType p)

def encPrim (p : String) (v : SVal) : Option Bytes :=
  match p, v with
  | "bool", .bool b => encBool b
  | "string", .str s => encStr s
  | "uint8", .int i => encFixedU 1 i
  | "uint16", .int i => encFixedU 2 i
  | "uint32", .int i => encFixedU 4 i
  | "uint64", .int i => encFixedU 8 i
  | "int8", .int i => encFixedS 1 i
  | "int16", .int i => encFixedS 2 i
  | "int32", .int i => encFixedS 4 i
  | "int64", .int i => encFixedS 8 i
  | "varint32", .int i => encVarintI (-(2 ^ 31)) (2 ^ 31) i
  | "varuint32", .int i => encVaruintI (2 ^ 32) i
  | "varint62", .int i => encVarintI (-(2 ^ 63)) (2 ^ 63) i
  | "varuint62", .int i => encVaruintI (2 ^ 64) i
  | "float32", .int i => if 0 ≤ i then encBits 4 i.toNat else none
  | "float64", .int i => if 0 ≤ i then encBits 8 i.toNat else none
  | _, _ => none

/-- `for _ in 0..n { decode()? }` -/
def decListS (dec : Bytes → SDec SVal) : Nat → Bytes → SDec (List SVal)
  | 0, bs => .ok ([], bs)
  | n + 1, bs =>
    match dec bs with
    | .error e => .error e
    | .ok (x, rest) =>
      match decListS dec n rest with
      | .error e => .error e
      | .ok (xs, rest') => .ok (x :: xs, rest')

/-- equality of dictionary keys (keys are primitives) -/
def SVal.keyEq : SVal → SVal → Bool
  | .bool a, .bool b => a == b
  | .int a, .int b => a == b
  | .str a, .str b => a == b
  | _, _ => false

def decPairsS (dk dv : Bytes → SDec SVal) : Nat → List SVal → Bytes → SDec (List SVal)
  | 0, _, bs => .ok ([], bs)
  | n + 1, seen, bs =>
    match dk bs with
    | .error e => .error e
    | .ok (k, r1) =>
      match dv r1 with
      | .error e => .error e
      | .ok (v, r2) =>
        if seen.any (fun s => s.keyEq k) then .error (.codec .dupKey)
        else
          match decPairsS dk dv n (k :: seen) r2 with
          | .error e => .error e
          | .ok (es, r3) => .ok (.pair k v :: es, r3)

/-- bit `i` of a bit sequence (bit 0 = least significant bit of the first byte) -/
def bitAt (bits : Bytes) (i : Nat) : Bool := ((bits.getD (i / 8) 0).toNat / 2 ^ (i % 8)) % 2 == 1

/-- number of bits of the bit sequence: one per optional, untagged field -/
def optCount (fs : List SField) : Nat := (fs.filter fun f => f.optional && f.tag.isNone).length

/-- the fields of a struct body after its bit sequence: schema order; `k` = index of the next bit -/
def decFields (dec : STy → Bytes → SDec SVal) (bits : Bytes) : Nat → List SField → Bytes → SDec (List SVal)
  | _, [], bs => .ok ([], bs)
  | k, f :: fs, bs =>
    if f.tag.isSome then .error (.unsupported "tagged field in schema")
    else if f.stream then .error (.unsupported "stream")
    else if f.optional then
      if bitAt bits k then
        match dec f.ty bs with
        | .error e => .error e
        | .ok (v, r) =>
          match decFields dec bits (k + 1) fs r with
          | .error e => .error e
          | .ok (vs, r') => .ok (.present v :: vs, r')
      else
        match decFields dec bits (k + 1) fs bs with
        | .error e => .error e
        | .ok (vs, r') => .ok (.absent :: vs, r')
    else
      match dec f.ty bs with
      | .error e => .error e
      | .ok (v, r) =>
        match decFields dec bits k fs r with
        | .error e => .error e
        | .ok (vs, r') => .ok (v :: vs, r')

/-- struct body: bit sequence, fields, and for a non-compact type the tagged fields up to the tag end marker -/
def decBody (dec : STy → Bytes → SDec SVal) (compact : Bool) (fs : List SField) (bs : Bytes) : SDec (List SVal) :=
  match readN ((optCount fs + 7) / 8) bs with
  | .error e => .error (.codec e)
  | .ok (bits, r0) =>
    match decFields dec bits 0 fs r0 with
    | .error e => .error e
    | .ok (vs, r1) =>
      if compact then .ok (vs, r1)
      else
        match skipTaggedFields r1 with
        | .error e => .error (.codec e)
        | .ok (_, r2) => .ok (vs, r2)

/-- enumerator values: the written one, else previous + 1, starting from 0 -/
def variantValues : Int → List SVariant → List Int
  | _, [] => []
  | next, v :: vs =>
    let x := match v.value with | some x => x | none => next
    x :: variantValues (x + 1) vs

def findIdx (p : Int → Bool) : List Int → Nat → Option Nat
  | [], _ => none
  | x :: xs, i => if p x then some i else findIdx p xs (i + 1)

def decEnum (dec : STy → Bytes → SDec SVal) (e : SEnum) (bs : Bytes) : SDec SVal :=
  match e.underlying with
  | some u =>
    -- an enumeration with an underlying type travels as a value of that type
    match decPrim u bs with
    | .error er => .error er
    | .ok (.int d, rest) =>
      match findIdx (fun x => x == d) (variantValues 0 e.variants) 0 with
      | some i => .ok (.variant i [], rest)
      | none => if e.unchecked then .ok (.int d, rest) else .error (.badDiscriminant d)
    | .ok (_, _) => .error (.unsupported "non-integral underlying type")
  | none =>
    match narrow (-(2 ^ 31)) (2 ^ 31 - 1) (decVarintRaw bs) with
    | .error er => .error (.codec er)
    | .ok (d, rest) =>
      match findIdx (fun x => x == d) (variantValues 0 e.variants) 0 with
      | none => .error (.badDiscriminant d)
      | some i =>
        match e.variants[i]? with
        | none => .error (.badDiscriminant d)
        | some v =>
          match decBody dec e.compact (v.fields.getD []) rest with
          | .error er => .error er
          | .ok (vs, r) => .ok (.variant i vs, r)

/-- read one value of type `ty` -/
def decTy (S : Schema) : Nat → STy → Bytes → SDec SVal
  | 0, _, _ => .error .fuel
  | _ + 1, .prim p, bs => decPrim p bs
  | f + 1, .seq t opt, bs =>
    if opt then .error (.unsupported "sequence of optionals")
    else
      match decVaruintRaw bs with
      | .error e => .error (.codec e)
      | .ok (n, rest) =>
        match decListS (decTy S f t) n rest with
        | .error e => .error e
        | .ok (xs, r) => .ok (.list xs, r)
  | f + 1, .dict k v opt, bs =>
    if opt then .error (.unsupported "dictionary of optionals")
    else
      match decVaruintRaw bs with
      | .error e => .error (.codec e)
      | .ok (n, rest) =>
        match decPairsS (decTy S f k) (decTy S f v) n [] rest with
        | .error e => .error e
        | .ok (xs, r) => .ok (.list xs, r)
  | f + 1, .named n, bs =>
    match S.find n with
    | none => .error (.unknownType n)
    | some (.alias a) => if a.optional then .error (.unsupported "optional alias") else decTy S f a.ty bs
    | some (.struct s) =>
      match decBody (decTy S f) s.compact s.fields bs with
      | .error e => .error e
      | .ok (vs, r) => .ok (.struct vs, r)
    | some (.enum e) => decEnum (decTy S f) e bs

/-- ample for any schema whose type names nest less than 64 deep (slice/Compiler needs 16) -/
def schemaFuel : Nat := 64

/-- `decodeBySchema S "SliceFile" bytes` -/
def decodeBySchema (S : Schema) (typeName : String) (bs : Bytes) : SDec SVal := decTy S schemaFuel (.named typeName) bs

/-- the first `nParams` parameters of an operation call: the operation name, then each parameter in schema order.
    (The request of `generateCode` is written without bit sequence / tag end marker: no parameter is optional.) -/
def decodeCall (S : Schema) (op : String) (nParams : Nat) (bs : Bytes) : SDec (List SVal) :=
  match decStr bs with
  | .error e => .error (.codec e)
  | .ok (name, rest) =>
    if name ≠ op.toUTF8.toList then .error .wrongOperation
    else
      match S.ops.find? (fun o => o.name == op) with
      | none => .error (.unknownType op)
      | some o =>
        if o.params.any (fun p => p.optional || p.tag.isSome || p.stream) then .error (.unsupported "optional / tagged / streamed parameter")
        else decFields (decTy S schemaFuel) [] 0 (o.params.take nParams) rest

/-! ## the matching encoder -/

/-- concatenate; refused as soon as one part is refused -/
def catOpt : List (Option Bytes) → Option Bytes
  | [] => some []
  | x :: xs =>
    match x, catOpt xs with
    | some a, some b => some (a ++ b)
    | _, _ => none

/-- the tag end marker as the encoders write it: `encode_varint(TAG_END_MARKER)` -/
def tagEndB : Option Bytes := encVarintI (-(2 ^ 31)) (2 ^ 31) Gen.tagEndMarker

def encPairS (ek ev : SVal → Option Bytes) : SVal → Option Bytes
  | .pair k v => catOpt [ek k, ev v]
  | _ => none

/-- fields of a body: a set optional field is written, an unset one is not; returns (bits, bytes) -/
def encFields (enc : STy → SVal → Option Bytes) : List SField → List SVal → Option (List Bool × Bytes)
  | [], [] => some ([], [])
  | f :: fs, v :: vs =>
    if f.tag.isSome || f.stream then none
    else if f.optional then
      match v with
      | .present x =>
        match enc f.ty x, encFields enc fs vs with
        | some a, some (bits, b) => some (true :: bits, a ++ b)
        | _, _ => none
      | .absent =>
        match encFields enc fs vs with
        | some (bits, b) => some (false :: bits, b)
        | none => none
      | _ => none
    else
      match enc f.ty v, encFields enc fs vs with
      | some a, some (bits, b) => some (bits, a ++ b)
      | _, _ => none
  | _, _ => none

/-- the number whose binary digits are the bits, least significant first -/
def bitsVal : List Bool → Nat
  | [] => 0
  | b :: bs => (if b then 1 else 0) + 2 * bitsVal bs

/-- pack bits LSB first, 8 per byte; `n` = number of bytes -/
def packBits : Nat → List Bool → Bytes
  | 0, _ => []
  | n + 1, bits => UInt8.ofNat (bitsVal (bits.take 8)) :: packBits n (bits.drop 8)

/-- the decoder's duplicate-key test, on the encoder's side: a dictionary value with a repeated key is not a value -/
def noDupKeys : List SVal → List SVal → Bool
  | _, [] => true
  | seen, .pair k _ :: es => !(seen.any fun s => s.keyEq k) && noDupKeys (k :: seen) es
  | _, _ => false

def encBody (enc : STy → SVal → Option Bytes) (compact : Bool) (fs : List SField) (vs : List SVal) : Option Bytes :=
  match encFields enc fs vs with
  | none => none
  | some (bits, body) =>
    catOpt [some (packBits ((optCount fs + 7) / 8) bits), some body, if compact then some [] else tagEndB]

def encEnum (enc : STy → SVal → Option Bytes) (e : SEnum) (v : SVal) : Option Bytes :=
  match e.underlying, v with
  | some _, _ => none   -- not needed on the request side
  | none, .variant i vs =>
    match e.variants[i]?, (variantValues 0 e.variants)[i]? with
    | some var, some d =>
      -- the discriminant must identify the enumerator (no earlier enumerator has the same value)
      if findIdx (fun x => x == d) (variantValues 0 e.variants) 0 == some i then
        catOpt [encVarintI (-(2 ^ 31)) (2 ^ 31) d, encBody enc e.compact (var.fields.getD []) vs]
      else none
    | _, _ => none
  | none, _ => none

def encTy (S : Schema) : Nat → STy → SVal → Option Bytes
  | 0, _, _ => none
  | _ + 1, .prim p, v => encPrim p v
  | f + 1, .seq t opt, v =>
    if opt then none
    else match v with
      | .list xs => withSize xs.length (encList (encTy S f t) xs)
      | _ => none
  | f + 1, .dict k v opt, x =>
    if opt then none
    else match x with
      | .list es => if noDupKeys [] es then withSize es.length (encList (encPairS (encTy S f k) (encTy S f v)) es) else none
      | _ => none
  | f + 1, .named n, v =>
    match S.find n with
    | none => none
    | some (.alias a) => if a.optional then none else encTy S f a.ty v
    | some (.struct s) =>
      match v with
      | .struct vs => encBody (encTy S f) s.compact s.fields vs
      | _ => none
    | some (.enum e) => encEnum (encTy S f) e v

end Slicec
