/-
  Printer: abstract program → source text, recording where every element starts and ends.
  `items` flattens a file into tokens, separator hints and span markers; `render` lays the tokens out
  (canonical layout, or a pseudo-random one: arbitrary whitespace, line breaks, `//` and `/* */`
  comments in every gap, optional commas, backslash-escaped identifiers) and computes the
  row/column of every marker. Rows and columns count characters from 1.
-/
import SlicecVerif.Model.Syntax

namespace Slicec

inductive Item where
  | tok (s : String)
  | ident (s : String)          -- may be written with a leading backslash (must be, if it is a keyword)
  | optComma                    -- a comma that the grammar treats as optional
  | nl (indent : Nat)           -- canonical: new line + indentation
  | sp                          -- canonical: one space
  | glue                        -- canonical: nothing
  | docLine (s : String)        -- `///` + text; must be followed by a line break
  | op (path : String)          -- span start marker: start of the next token
  | cl (path : String)          -- span end marker: end of the previous token
  deriving Repr, Inhabited

def keywords : List String :=
  ["module", "struct", "exception", "class", "interface", "enum", "custom", "typealias", "Result", "Sequence", "Dictionary",
   "bool", "int8", "uint8", "int16", "uint16", "int32", "uint32", "varint32", "varuint32", "int64", "uint64",
   "varint62", "varuint62", "float32", "float64", "string", "AnyClass", "compact", "idempotent", "mode", "stream", "tag",
   "throws", "unchecked"]

def digitChar (d : Nat) : Char := if d < 10 then Char.ofNat (48 + d) else Char.ofNat (87 + d)

def natDigits (base : Nat) : Nat → Nat → List Char
  | 0, _ => []
  | fuel + 1, n => if n < base then [digitChar n] else natDigits base fuel (n / base) ++ [digitChar (n % base)]

def withUnderscores : List Char → List Char
  | a :: b :: c :: rest => a :: b :: '_' :: c :: withUnderscores rest
  | l => l

def IntLit.magText (l : IntLit) : String :=
  let ds := natDigits (if l.base < 2 then 10 else l.base) 200 l.mag
  let ds := if l.underscores then withUnderscores ds else ds
  (if l.base == 16 then "0x" else if l.base == 2 then "0b" else "") ++ String.ofList ds

def escapeStrLit (s : String) : String :=
  String.ofList (s.toList.flatMap fun c => if c == '"' || c == '\\' then ['\\', c] else [c])

def isIdentLike (s : String) : Bool :=
  match s.toList with
  | [] => false
  | c :: cs => c.isAlpha && cs.all (fun d => d.isAlphanum || d == '_')

/-- a scoped identifier with every keyword segment escaped by a backslash -/
def escapeScoped (id : String) : String :=
  "::".intercalate ((id.splitOn "::").map fun seg => if keywords.contains seg then "\\" ++ seg else seg)

def attrItems (path : String) (a : Attr) : List Item :=
  [.op path, .tok a.directive] ++
  (if a.args.isEmpty then [] else
    [.glue, .tok "("] ++
    (a.args.zipIdx.flatMap fun (x, i) =>
      (if i == 0 then [.glue] else [.glue, .tok ",", .sp]) ++
      [if isIdentLike x && !(keywords.contains x) then Item.tok x else Item.tok ("\"" ++ escapeStrLit x ++ "\"")]) ++
    [.glue, .tok ")"]) ++
  [.cl path]

def localAttrsWith (suffix : String) (path : String) (as : List Attr) (sepAfter : Item) : List Item :=
  as.zipIdx.flatMap fun (a, i) => [.tok "[", .glue] ++ attrItems (path ++ suffix ++ toString i) a ++ [.glue, .tok "]", sepAfter]

def localAttrs (path : String) (as : List Attr) (sepAfter : Item) : List Item := localAttrsWith ".a" path as sepAfter

mutual
def tyItems (path : String) : TyExpr → List Item
  | .prim p => [.tok p.kw]
  | .named id => [.tok (escapeScoped id)]
  | .seq e => [.tok "Sequence", .glue, .tok "<", .glue] ++ trefItems (path ++ ".e") e ++ [.glue, .tok ">"]
  | .dict k v => [.tok "Dictionary", .glue, .tok "<", .glue] ++ trefItems (path ++ ".k") k ++ [.glue, .tok ",", .sp] ++
      trefItems (path ++ ".v") v ++ [.glue, .tok ">"]
  | .result s f => [.tok "Result", .glue, .tok "<", .glue] ++ trefItems (path ++ ".s") s ++ [.glue, .tok ",", .sp] ++
      trefItems (path ++ ".f") f ++ [.glue, .tok ">"]
def trefItems (path : String) : TRef → List Item
  | .mk attrs ty opt =>
    [.op path] ++ localAttrsWith ".@a" path attrs .sp ++ tyItems path ty ++ (if opt then [.glue, .tok "?"] else []) ++ [.cl path]
end

def tagItems (path : String) (t : Option IntLit) : List Item :=
  match t with
  | none => []
  | some l => [.tok "tag", .glue, .tok "(", .glue, .op (path ++ ".tag")] ++ (if l.neg then [.tok "-", .glue] else []) ++
      [.tok l.magText, .cl (path ++ ".tag"), .glue, .tok ")", .sp]

def docItems (doc : List String) (indent : Nat) : List Item :=
  doc.flatMap fun l => [.docLine l, .nl indent]

def identItems (path : String) (name : String) : List Item := [.op (path ++ ".id"), .ident name, .cl (path ++ ".id")]

def fieldItems (path : String) (indent : Nat) (inl : Bool) (f : Field) : List Item :=
  docItems f.doc indent ++ localAttrs path f.attrs (if inl then .sp else .nl indent) ++
  [.op path] ++ tagItems path f.tag ++ identItems path f.name ++ [.glue, .tok ":", .sp] ++ trefItems (path ++ ".t") f.ty ++ [.cl path]

def paramItems (path : String) (p : Param) : List Item :=
  localAttrs path p.attrs .sp ++
  [.op path] ++ tagItems path p.tag ++ identItems path p.name ++ [.glue, .tok ":", .sp] ++
  (if p.stream then [.tok "stream", .sp] else []) ++ trefItems (path ++ ".t") p.ty ++ [.cl path]

def commaSep (xs : List (List Item)) : List Item :=
  xs.zipIdx.flatMap fun (x, i) => (if i == 0 then [] else [.glue, .optComma, .sp]) ++ x

def retItems (path : String) : Ret → List Item
  | .none => []
  | .single tag stream ty =>
    [.sp, .tok "->", .sp, .op (path ++ ".r0")] ++ tagItems (path ++ ".r0") tag ++
    (if stream then [.tok "stream", .sp] else []) ++ trefItems (path ++ ".r0.t") ty ++ [.cl (path ++ ".r0")]
  | .tuple ps =>
    [.sp, .tok "->", .sp, .tok "(", .glue] ++
    commaSep (ps.zipIdx.map fun (p, i) => paramItems (path ++ ".r" ++ toString i) p) ++ [.glue, .tok ")"]

def opItems (path : String) (o : Op) : List Item :=
  docItems o.doc 1 ++ localAttrs path o.attrs (.nl 1) ++
  [.op path] ++ (if o.idempotent then [.tok "idempotent", .sp] else []) ++ identItems path o.name ++
  [.glue, .tok "(", .glue] ++ commaSep (o.params.zipIdx.map fun (p, i) => paramItems (path ++ ".p" ++ toString i) p) ++
  [.glue, .tok ")"] ++ retItems path o.ret ++ [.cl path]

def enumeratorItems (path : String) (e : Enumerator) : List Item :=
  docItems e.doc 1 ++ localAttrs path e.attrs (.nl 1) ++
  [.op path] ++ identItems path e.name ++
  (match e.fields with
   | none => []
   | some fs => [.glue, .tok "(", .glue] ++
      commaSep (fs.zipIdx.map fun (f, i) => fieldItems (path ++ ".f" ++ toString i) 1 true f) ++ [.glue, .tok ")"]) ++
  (match e.value with
   | none => []
   | some l => [.sp, .tok "=", .sp, .op (path ++ ".val")] ++ (if l.neg then [.tok "-", .glue] else []) ++
      [.tok l.magText, .cl (path ++ ".val")]) ++
  [.cl path]

def membersBlock (ms : List (List Item)) : List Item :=
  [.sp, .tok "{"] ++ (ms.flatMap fun m => [.nl 1] ++ m ++ [.glue, .optComma]) ++ [.nl 0, .tok "}"]

def defItems (path : String) : Def → List Item
  | .struct doc attrs compact name fields =>
    docItems doc 0 ++ localAttrs path attrs (.nl 0) ++
    [.op path] ++ (if compact then [.tok "compact", .sp] else []) ++ [.tok "struct", .sp] ++ identItems path name ++ [.cl path] ++
    membersBlock (fields.zipIdx.map fun (f, i) => fieldItems (path ++ ".f" ++ toString i) 1 false f)
  | .iface doc attrs name bases ops =>
    docItems doc 0 ++ localAttrs path attrs (.nl 0) ++
    [.op path, .tok "interface", .sp] ++ identItems path name ++ [.cl path] ++
    (if bases.isEmpty then [] else [.sp, .tok ":", .sp] ++
      (bases.zipIdx.flatMap fun (b, i) => (if i == 0 then [] else [.glue, .tok ",", .sp]) ++ trefItems (path ++ ".b" ++ toString i) b)) ++
    [.sp, .tok "{"] ++ (ops.zipIdx.flatMap fun (o, i) => [.nl 1] ++ opItems (path ++ ".o" ++ toString i) o) ++ [.nl 0, .tok "}"]
  | .enum doc attrs compact unchecked name underlying es =>
    docItems doc 0 ++ localAttrs path attrs (.nl 0) ++
    [.op path] ++ (if compact then [.tok "compact", .sp] else []) ++ (if unchecked then [.tok "unchecked", .sp] else []) ++
    [.tok "enum", .sp] ++ identItems path name ++ [.cl path] ++
    (match underlying with | none => [] | some u => [.sp, .tok ":", .sp] ++ trefItems (path ++ ".u") u) ++
    membersBlock (es.zipIdx.map fun (e, i) => enumeratorItems (path ++ ".e" ++ toString i) e)
  | .custom doc attrs name =>
    docItems doc 0 ++ localAttrs path attrs (.nl 0) ++ [.op path, .tok "custom", .sp] ++ identItems path name ++ [.cl path]
  | .alias doc attrs name ty =>
    docItems doc 0 ++ localAttrs path attrs (.nl 0) ++ [.op path, .tok "typealias", .sp] ++ identItems path name ++ [.cl path] ++
    [.sp, .tok "=", .sp] ++ trefItems (path ++ ".t") ty

def fileItems (f : SFile) : List Item :=
  (f.fileAttrs.zipIdx.flatMap fun (a, i) => [.tok "[[", .glue] ++ attrItems ("fa" ++ toString i) a ++ [.glue, .tok "]]", .nl 0]) ++
  (match f.module with
   | none => []
   | some m => localAttrs "mod" m.attrs (.nl 0) ++ [.op "mod", .tok "module", .sp, .op "mod.id", .tok (escapeScoped m.path), .cl "mod.id", .cl "mod", .nl 0]) ++
  (f.defs.zipIdx.flatMap fun (d, i) => [.nl 0] ++ defItems ("d" ++ toString i) d ++ [.nl 0])

/-! ## layout -/

structure Loc where
  row : Nat
  col : Nat
  deriving Repr, DecidableEq, Inhabited

/-- the cursor rule of every lexer: `'\n'` starts a new row, any other character is one column -/
def advance (l : Loc) (c : Char) : Loc := if c == '\n' then ⟨l.row + 1, 1⟩ else ⟨l.row, l.col + 1⟩

def advanceStr (l : Loc) (s : String) : Loc := s.toList.foldl advance l

structure SpanRec where
  path : String
  start : Loc
  stop : Loc
  deriving Repr, Inhabited

structure LState where
  out : List String          -- reversed chunks
  loc : Loc
  lastEnd : Loc              -- end of the previous token
  pendingOpen : List String  -- markers waiting for the next token
  opened : List (String × Loc)
  spans : List SpanRec       -- reversed
  rng : Rng
  afterDoc : Bool            -- the previous token was a doc line: the gap must start with a line break

def gapCatalogue : List String :=
  [" ", "  ", "\n", "\t", " \n  ", "\r\n", " /* c */ ", " // c\n", "\n\n    ", " /* é\n x */\n", "\t\t ",
   "/*é✓ü*/", "/* peut être → ✓ */", "/**/", "/***/", "//é✓\n", "/* * / */",
   -- a lone carriage return does not end a line comment; CR LF does
   " // old:\r x: bool\n", "//\r\n", "/* \r */", "// a\r\r\n"]

/-- style 0 = canonical; otherwise pseudo-random layout driven by the state's generator -/
def emitGap (style : Nat) (st : LState) (canon : String) (mandatory : Bool) : LState :=
  let (txt, rng) :=
    if style == 0 then (canon, st.rng)
    else
      let (c, rng) := st.rng.below 4
      if c == 0 && !mandatory && !st.afterDoc then ("", rng)
      else
        let (g, rng) := rng.pick gapCatalogue
        (if st.afterDoc then "\n" ++ g else g, rng)
  let txt := if st.afterDoc && !(txt.startsWith "\n") && !(txt.startsWith "\r\n") then "\n" ++ txt else txt
  { st with out := txt :: st.out, loc := advanceStr st.loc txt, rng := rng }

def emitTok (st : LState) (s : String) (isDoc : Bool) : LState :=
  let start := st.loc
  let stop := advanceStr st.loc s
  let opened := st.pendingOpen.map (fun p => (p, start)) ++ st.opened
  { st with out := s :: st.out, loc := stop, lastEnd := stop, pendingOpen := [], opened := opened, afterDoc := isDoc }

def closeSpan (st : LState) (p : String) : LState :=
  match st.opened.find? (fun x => x.1 == p) with
  | some (_, s) => { st with spans := ⟨p, s, st.lastEnd⟩ :: st.spans, opened := st.opened.filter (fun x => x.1 != p) }
  | none => st

/-- identifiers and keywords need a separator between them; `glue` gaps between two such tokens never occur
    in `fileItems`, so a `glue` gap may always be rendered as nothing. -/
def renderItem (style : Nat) (st : LState) : Item → LState
  | .tok s => emitTok st s false
  | .ident s =>
    if keywords.contains s then emitTok st ("\\" ++ s) false
    else if style == 0 then emitTok st s false
    else
      let (c, rng) := st.rng.below 5
      emitTok { st with rng := rng } (if c == 0 then "\\" ++ s else s) false
  | .optComma =>
    if style == 0 then st
    else
      let (c, rng) := st.rng.below 2
      let st := { st with rng := rng }
      if c == 0 then st else emitTok st "," false
  | .nl n => emitGap style st ("\n" ++ String.ofList (List.replicate (4 * n) ' ')) true
  | .sp => emitGap style st " " true
  | .glue => emitGap style st "" false
  | .docLine s => emitTok st ("///" ++ s) true
  | .op p => { st with pendingOpen := p :: st.pendingOpen }
  | .cl p => closeSpan st p

def render (style : Nat) (seed : Nat) (items : List Item) : String × List SpanRec :=
  let st0 : LState := { out := [], loc := ⟨1, 1⟩, lastEnd := ⟨1, 1⟩, pendingOpen := [], opened := [], spans := [],
                        rng := Rng.mk' seed, afterDoc := false }
  let st := items.foldl (renderItem style) st0
  let st := if st.afterDoc then { st with out := "\n" :: st.out } else st
  (String.join st.out.reverse, st.spans.reverse)

def printFile (f : SFile) : String := (render 0 0 (fileItems f)).1

end Slicec
