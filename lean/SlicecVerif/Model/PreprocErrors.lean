/-
  Model of WHICH syntax errors the slicec preprocessor reports and WHERE (property C06, third sentence).

  The LALRPOP grammar has one recovery production `Node → <!> directive_end` (grammar.lalrpop); `recover_from_error`
  pushes one E002 located at the token of the `ParseError`.  What the generated LR driver (lalrpop-util 0.22
  `state_machine.rs`) does with it, as observed through `verif_hooks::preprocess` and mirrored here:

  * every directive line is `keyword token* DirectiveEnd`.  The first token T of a line that cannot extend a viable
    prefix is the error token (span = start..end of T; for `DirectiveEnd` the zero-width position at the '\n' / EOF).
    Recovery drops the rest of the line, pops the states of the line back to the state in front of the innermost open
    `BlockContent` (the state after `#if`/`#elif`/`#else`/the start state all have the error shift), shifts
    `<!> directive_end` and goes on AS IF THE LINE WERE NOT THERE: the open conditionals and their phase (before / after
    `#else`) are unchanged.  So a malformed `#if` makes its `#endif` a stray one (reported too), a malformed `#elif` /
    `#else` / `#endif` leaves the conditional open in the phase it was in.
  * the recovery action (which pushes the diagnostic) runs when `Node → <!> directive_end` is REDUCED, and the driver
    reduces only after it has fetched the next token.  If fetching the next token fails (lexical error: the lexer
    returns `Err`, LALRPOP stops with `ParseError::User`), the error of the line just recovered is never pushed.  In the
    same way an error whose line is cut short by a lexical error (the lexical error is met while the rest of the line is
    dropped) is lost: only the lexical error is reported then.  Errors of earlier lines stay reported.
  * end of input inside an open conditional: ONE `UnrecognizedEof`, however many conditionals are open; its location is
    `last_location` of the driver = the END of the last token fetched (the `DirectiveEnd` of the last directive line, or
    the end of the last source block = end of input); the parse stops.
  * a lexical error stops the parse at once.

  Core Lean only.
-/
import SlicecVerif.Model.Preproc

namespace Slicec.Pp

/-! ## the located token stream up to the first lexical error -/

/-- `lexAll` keeping the tokens read before the first lexical error -/
def lexAllE (input : List Char) : Nat → LexSt → List LTok × Option LexErr
  | 0, _ => ([], none)
  | fuel + 1, st =>
    match lexNext input st with
    | (none, _) => ([], none)
    | (some (.error e), _) => ([], some e)
    | (some (.ok t), st') =>
      let r := lexAllE input fuel st'
      (t :: r.1, r.2)

/-- the located tokens of a file and the lexical error that ended the stream, if any -/
def lexPreLE (input : List Char) : List LTok × Option LexErr :=
  lexAllE input (2 * input.length + 3) (lexInit input)

/-! ## one directive line -/

/-- the directive a complete token list of one line spells (same `match` as `classify`) -/
def dirOf (toks : List PTok) : Option ALine :=
  match toks with
  | [.kw .define, .ident s, .dend] => some (.define s)
  | [.kw .undef, .ident s, .dend] => some (.undef s)
  | [.kw .else_, .dend] => some .else_
  | [.kw .endif, .dend] => some .endif
  | .kw .if_ :: r =>
    match parseExpr (parseFuel r) r with
    | some (e, [.dend]) => some (.if_ e)
    | _ => none
  | .kw .elif :: r =>
    match parseExpr (parseFuel r) r with
    | some (e, [.dend]) => some (.elif e)
    | _ => none
  | _ => none

/-- the open conditionals, innermost first: has `#else` been seen -/
def frameStep (s : List Bool) : ALine → Option (List Bool)
  | .src _ => some s
  | .define _ => some s
  | .undef _ => some s
  | .if_ _ => some (false :: s)
  | .elif _ =>
    match s with
    | [] => none
    | b :: r => if b then none else some (false :: r)
  | .else_ =>
    match s with
    | [] => none
    | b :: r => if b then none else some (true :: r)
  | .endif =>
    match s with
    | [] => none
    | _ :: r => some r

/-! ### the first unacceptable token of a line (located recursive descent; `d` is the line's `DirectiveEnd`) -/

mutual
  def termE : Nat → List LTok → LTok → Except LTok (List LTok)
    | 0, ts, d => .error (ts.headD d)
    | fuel + 1, ts, d =>
      match ts with
      | [] => .error d
      | t :: r =>
        match t.tok with
        | .ident _ => .ok r
        | .lpar =>
          match exprE fuel r d with
          | .error b => .error b
          | .ok r' =>
            match r' with
            | [] => .error d
            | t' :: r'' => if t'.tok = .rpar then .ok r'' else .error t'
        | _ => .error t
  def exprE : Nat → List LTok → LTok → Except LTok (List LTok)
    | 0, ts, d => .error (ts.headD d)
    | fuel + 1, ts, d =>
      match ts with
      | [] => .error d
      | t :: r =>
        if t.tok = .not then
          match termE fuel r d with
          | .ok r' => loopE fuel r' d
          | .error b => .error b
        else
          match termE fuel ts d with
          | .ok r' => loopE fuel r' d
          | .error b => .error b
  /-- after an `Expression`: `&&`/`||` and a `Term`, or stop in front of anything else -/
  def loopE : Nat → List LTok → LTok → Except LTok (List LTok)
    | 0, ts, d => .error (ts.headD d)
    | fuel + 1, ts, d =>
      match ts with
      | [] => .ok []
      | t :: r =>
        if t.tok = .and ∨ t.tok = .or then
          match termE fuel r d with
          | .ok r' => loopE fuel r' d
          | .error b => .error b
        else .ok ts
end

/-- `Expression directive_end`: the token the parser stops at -/
def exprLineBad (ts : List LTok) (d : LTok) : LTok :=
  match exprE (4 * ts.length + 8) ts d with
  | .error b => b
  | .ok r => r.headD d

/-- `identifier directive_end` -/
def identLineBad (ts : List LTok) (d : LTok) : LTok :=
  match ts with
  | [] => d
  | t :: r =>
    match t.tok with
    | .ident _ => r.headD d
    | _ => t

/-- the error token of the line `K ts d` that is not acceptable where it stands; `top` = innermost open conditional
    (`none`: top level, `some seenElse`).  A closer that cannot be shifted at all is itself the error token. -/
def badTok (top : Option Bool) (K : LTok) (ts : List LTok) (d : LTok) : LTok :=
  match K.tok with
  | .kw .define => identLineBad ts d
  | .kw .undef => identLineBad ts d
  | .kw .if_ => exprLineBad ts d
  | .kw .elif =>
    match top with
    | some false => exprLineBad ts d
    | _ => K
  | .kw .else_ =>
    match top with
    | some false => ts.headD d
    | _ => K
  | .kw .endif =>
    match top with
    | some _ => ts.headD d
    | none => K
  | _ => K

/-- `badTok`, syntactically a token of its line (the guard never fires: the driver reports a model counterexample on every
    generated file where it would; it makes "the error token is a token of the line" hold by construction) -/
def badTokG (top : Option Bool) (K : LTok) (ts : List LTok) (d : LTok) : LTok :=
  let b := badTok top K ts d
  if b ∈ K :: ts ++ [d] then b else K

/-- a line is fine where it stands: it spells a directive and the directive fits the open conditionals -/
def lineStep (stk : List Bool) (K : LTok) (ts : List LTok) : Option (List Bool) :=
  (dirOf (K.tok :: ts.map (·.tok) ++ [.dend])).bind (frameStep stk)

/-! ## the token stream as lines -/

inductive TLine where
  | block (t : LTok)
  | dir (K : LTok) (ts : List LTok) (d : LTok)
  deriving Repr

/-- the tokens in front of the next `DirectiveEnd`, that token, and what follows it -/
def takeLine : List LTok → List LTok × Option LTok × List LTok
  | [] => ([], none, [])
  | t :: r =>
    if t.tok = .dend then ([], some t, r)
    else
      let x := takeLine r
      (t :: x.1, x.2.1, x.2.2)

/-- the complete lines of a token list, and the tokens of a last line without `DirectiveEnd` (cut by a lexical error) -/
def tokLines : Nat → List LTok → List TLine × List LTok
  | 0, ts => ([], ts)
  | _ + 1, [] => ([], [])
  | n + 1, t :: r =>
    match t.tok with
    | .block _ =>
      let x := tokLines n r
      (.block t :: x.1, x.2)
    | .dend =>
      let x := tokLines n r
      (.dir t [] t :: x.1, x.2)
    | _ =>
      match takeLine r with
      | (ts, some d, rest) =>
        let x := tokLines n rest
        (.dir t ts d :: x.1, x.2)
      | (_, none, _) => ([], t :: r)

/-! ## the reports -/

abbrev Span := Loc × Loc

def LTok.span (t : LTok) : Span := (t.s, t.e)

/-- commit the pending diagnostic in front of what follows -/
def commit (p : Option Span) (r : List Span × Bool) : List Span × Bool := (p.toList ++ r.1, r.2)

/-- the diagnostics in report order and whether the parse was stopped (unrecoverable error).
    `pend` = the error of the line just recovered, not yet pushed; `last` = end of the last token fetched;
    `left` = tokens of a cut last line; `lexErr` = the lexical error that ended the token stream. -/
def runLines : List TLine → List Bool → Option Span → Loc → List LTok → Option LexErr → List Span × Bool
  | [], stk, pend, last, left, lexErr =>
    match lexErr with
    | some e => ((if left.isEmpty then [] else pend.toList) ++ [(e.s, e.e)], true)
    | none =>
      match left.getLast? with
      | none => commit pend (if stk.isEmpty then ([], false) else ([(last, last)], true))
      | some t => commit pend ([(t.e, t.e)], true)
  | .block t :: ls, stk, pend, _, left, lexErr => commit pend (runLines ls stk none t.e left lexErr)
  | .dir K ts d :: ls, stk, pend, _, left, lexErr =>
    commit pend
      (match lineStep stk K ts with
       | some stk' => runLines ls stk' none d.e left lexErr
       | none => runLines ls stk (some (badTokG stk.head? K ts d).span) d.e left lexErr)

/-- diagnostics (start, end) in report order, and whether the parse was stopped -/
def reportedFull (f : List Char) : List Span × Bool :=
  let x := lexPreLE f
  let y := tokLines (x.1.length + 1) x.1
  runLines y.1 [] none Loc.init y.2 x.2

/-- the located syntax errors the compiler reports for the file `f`, in report order -/
def reportedErrors (f : List Char) : List (Loc × Loc) := (reportedFull f).1

/-- the parse was stopped by an unrecoverable error (lexical error, end of input inside a conditional) -/
def parseStopped (f : List Char) : Bool := (reportedFull f).2

/-- driver-side checks of the mirror on one file: the guard of `badTokG` never fires, and every recoverable error lies on
    the row on which its directive line starts -/
def mirrorChecks : List TLine → List Bool → Bool
  | [], _ => true
  | .block _ :: ls, stk => mirrorChecks ls stk
  | .dir K ts d :: ls, stk =>
    match lineStep stk K ts with
    | some stk' => mirrorChecks ls stk'
    | none =>
      let b := badTok stk.head? K ts d
      decide (b ∈ K :: ts ++ [d]) && b.s.row == K.s.row && b.e.row == K.s.row && mirrorChecks ls stk

def mirrorChecksFile (f : List Char) : Bool :=
  let x := lexPreLE f
  mirrorChecks (tokLines (x.1.length + 1) x.1).1 []

/-! ## SPEC: the error-collecting sibling of `cspecRun` (line-by-line stack machine over the RAW lines)

  Written independently of the recovery mirror above: every line is classified on its own (`classify`); a malformed
  directive line is reported and skipped; a closer without opener (`#elif`/`#else`/`#endif` at top level, `#elif`/`#else`
  after `#else`) is reported and skipped; a line with a LEXICAL error is reported and ends the run; an unclosed opener is
  reported once at the end — on the row of the last directive line if only blank lines follow it, else on the last row
  of the file. -/

/-- does the directive line have a lexical error (taken alone) -/
def lexicallyBad (line : List Char) : Bool :=
  match lexPre line with
  | .error _ => true
  | .ok _ => false

structure ErrRows where
  /-- rows of the recoverable errors (bad directive lines), in order -/
  rows : List Nat
  /-- row of the unrecoverable error that ended the run: a lexical error or the end of input inside a conditional -/
  stop : Option Nat
  /-- the stop is a lexical error -/
  lexical : Bool
  deriving Repr, DecidableEq

/-- `lastTok` = row of the last line that gave a token, and whether it was a source line -/
def cerrRun : List (List Char) → Nat → List Bool → Nat × Bool → ErrRows
  | [], row, stk, (lr, src) =>
    if stk.isEmpty then ⟨[], none, false⟩ else ⟨[], some (if src then row - 1 else lr), false⟩
  | line :: rest, row, stk, lastTok =>
    match classify line with
    | .blank => cerrRun rest (row + 1) stk lastTok
    | .source => cerrRun rest (row + 1) stk (row, true)
    | .malformed =>
      if lexicallyBad line then ⟨[], some row, true⟩
      else
        let r := cerrRun rest (row + 1) stk (row, false)
        { r with rows := row :: r.rows }
    | .dir l =>
      match frameStep stk l with
      | some stk' => cerrRun rest (row + 1) stk' (row, false)
      | none =>
        let r := cerrRun rest (row + 1) stk (row, false)
        { r with rows := row :: r.rows }

/-- SPEC: the rows of the bad directive lines of a file and the row where the run ended early -/
def cerrFile (f : List Char) : ErrRows := cerrRun (splitLines f) 1 [] (1, false)

/-- the same two things read off the mirror -/
def mirrorRows (f : List Char) : ErrRows :=
  let r := reportedFull f
  let rows := r.1.map (·.1.row)
  if r.2 then ⟨rows.dropLast, rows.getLast?, (lexPreLE f).2.isSome⟩ else ⟨rows, none, false⟩

end Slicec.Pp
