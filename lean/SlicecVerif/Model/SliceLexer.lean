/-
  Executable model of the Slice lexer (slicec/src/parsers/slice/lexer.rs, token kinds of tokens.rs), C02.
  One source block, characters as `List Char`; positions are not modelled (C09 owns them).

  `lexNext attr c cs` mirrors `lex_next_slice_token(c)` with `c` the peeked character and `cs` the rest of the
  buffer: the arms are tried in the order of the Rust `match` (literal characters, then `is_ascii_alphabetic`,
  `is_ascii_digit`, `is_whitespace`, anything else).  It returns what the call produced (`Some(Ok)`, `None`,
  `Some(Err)`), the unread rest of the buffer and the new value of `attribute_mode`.
  `lexRun` iterates it the way `Iterator::next` is called until the block is exhausted; like the Rust iterator it
  keeps going after an error (the LALRPOP parser stops at the first one: `lexSlice`).
  The keyword table is the extracted `Gen.sliceKeywords` (`check_if_keyword`).

  `tokensWith` / `tokensOf` give the token sequence that a printer item list (Model/Print.lean) denotes; the
  theorems relating them to `lexRun (render …)` are in Props/C02.lean.
-/
import SlicecVerif.Model.Print
import SlicecVerif.Gen.Keywords

namespace Slicec.SLex

open Slicec

/-! ## tokens and errors (tokens.rs) -/

/-- `TokenKind`; texts are the `&str` payloads, keywords carry the name of their kind (`Gen.sliceKeywords`) -/
inductive SliceTok where
  | ident (s : List Char)
  | strLit (s : List Char)
  | intLit (s : List Char)
  | doc (s : List Char)
  | kw (kind : String)
  | lparen | rparen | lbracket | rbracket | dlbracket | drbracket | lbrace | rbrace | lchevron | rchevron
  | comma | colon | dcolon | equals | qmark | arrow | minus
  deriving DecidableEq, Repr, Inhabited

/-- `ErrorKind` -/
inductive LexErr where
  | unknownSymbol (symbol : List Char) (suggestion : Option String)
  | unterminatedString
  | unterminatedBlockComment
  deriving DecidableEq, Repr, Inhabited

/-- one element of the lexer's output stream -/
inductive LexItem where
  | tok (t : SliceTok)
  | err (e : LexErr)
  deriving DecidableEq, Repr, Inhabited

/-! ## character classes -/

/-- `char::is_whitespace`: the 25 code points with the `White_Space` property (DESIGN Appendix E) -/
def isWs (c : Char) : Bool :=
  let n := c.toNat
  (0x09 ≤ n && n ≤ 0x0D) || n == 0x20 || n == 0x85 || n == 0xA0 || n == 0x1680 ||
  (0x2000 ≤ n && n ≤ 0x200A) || n == 0x2028 || n == 0x2029 || n == 0x202F || n == 0x205F || n == 0x3000

/-- `c.is_ascii_alphanumeric() || c == '_'` (`read_alphanumeric`); Lean's `Char.isAlphanum` is ASCII-only -/
def isWordChar (c : Char) : Bool := c.isAlphanum || c == '_'

/-! ## the scanning helpers -/

/-- `read_string_literal` after the opening quote, with the `is_next_char_escaped` flag: the raw content up to the
    first unescaped `"` (which is consumed) and the rest of the buffer; `none` = `UnterminatedStringLiteral`
    (a line break — escaped or not — or the end of the buffer), the cursor then stays in front of the line break. -/
def readString : Bool → List Char → Option (List Char) × List Char
  | _, [] => (none, [])
  | esc, c :: cs =>
    if c == '\n' then (none, c :: cs)
    else if esc then
      let r := readString false cs
      (r.1.map (c :: ·), r.2)
    else if c == '"' then (some [], cs)
    else
      let r := readString (c == '\\') cs
      (r.1.map (c :: ·), r.2)

/-- `consume_block_comment` after the opening `/*`, with the `last_character_was_an_asterisk` flag:
    the rest of the buffer after the closing `*/`, `none` = `UnterminatedBlockComment` -/
def consumeBlock : Bool → List Char → Option (List Char)
  | _, [] => none
  | star, c :: cs => if c == '/' && star then some cs else consumeBlock (c == '*') cs

/-- `check_if_keyword` -/
def checkKeyword (w : List Char) : SliceTok :=
  match Gen.sliceKeywords.lookup (String.ofList w) with
  | some k => .kw k
  | none => .ident w

/-- the arms that consume exactly one character via `return_simple_token` -/
def simpleTok (c : Char) : Option SliceTok :=
  if c == '(' then some .lparen else if c == ')' then some .rparen
  else if c == '{' then some .lbrace else if c == '}' then some .rbrace
  else if c == '<' then some .lchevron else if c == '>' then some .rchevron
  else if c == ',' then some .comma else if c == '=' then some .equals
  else if c == '?' then some .qmark else none

/-! ## one call of `lex_next_slice_token` -/

/-- which `None` arm was taken -/
inductive Skipped where
  | whitespace | lineComment | blockComment
  deriving DecidableEq, Repr, Inhabited

inductive StepRes where
  | tok (t : SliceTok)       -- `Some(Ok(..))`
  | skip (what : Skipped)    -- `None`
  | err (e : LexErr)         -- `Some(Err(..))`
  deriving DecidableEq, Repr, Inhabited

structure Step where
  res : StepRes
  rest : List Char
  attr : Bool
  deriving DecidableEq, Repr, Inhabited

/-- the arms `[`/`[[`, `]`/`]]`, `:`/`::`, `-`/`->`: the first character is consumed, then the next one is peeked -/
def lexPair (second : Char) (single double : SliceTok) (attr : Bool) (cs : List Char) : Step :=
  match cs with
  | d :: rest => if d == second then ⟨.tok double, rest, attr⟩ else ⟨.tok single, cs, attr⟩
  | [] => ⟨.tok single, [], attr⟩

/-- `comment.strip_suffix('\r').unwrap_or(comment)`: with CR LF line ends the CR belongs to the line ending, not to the comment -/
def stripCr (cs : List Char) : List Char :=
  match cs.getLast? with
  | some '\r' => cs.dropLast
  | _ => cs

/-- the `'/'` arm after `//` was consumed: a third slash is consumed and makes it a doc comment, unless a fourth one
    follows (which is left to `read_line_comment`); the comment runs up to, not including, the next `'\n'` -/
def lexLineComment (attr : Bool) (r2 : List Char) : Step :=
  match r2 with
  | '/' :: r3 =>
    match r3 with
    | '/' :: _ => ⟨.skip .lineComment, r3.dropWhile (· != '\n'), attr⟩
    | _ => ⟨.tok (.doc (stripCr (r3.takeWhile (· != '\n')))), r3.dropWhile (· != '\n'), attr⟩
  | _ => ⟨.skip .lineComment, r2.dropWhile (· != '\n'), attr⟩

/-- the `'/'` arm after the first slash was consumed -/
def lexSlash (attr : Bool) (cs : List Char) : Step :=
  match cs with
  | '/' :: r2 => lexLineComment attr r2
  | '*' :: r2 =>
    match consumeBlock false r2 with
    | some rest => ⟨.skip .blockComment, rest, attr⟩
    | none => ⟨.err .unterminatedBlockComment, [], attr⟩
  | _ => ⟨.err (.unknownSymbol ['/'] (some "//")), cs, attr⟩

/-- the `'\\'` arm after the backslash was consumed -/
def lexBackslash (attr : Bool) (cs : List Char) : Step :=
  match cs with
  | d :: _ =>
    if d.isAlpha then ⟨.tok (.ident (cs.takeWhile isWordChar)), cs.dropWhile isWordChar, attr⟩
    else ⟨.err (.unknownSymbol ['\\'] (some "\\<identifier>")), cs, attr⟩
  | [] => ⟨.err (.unknownSymbol ['\\'] (some "\\<identifier>")), cs, attr⟩

/-- the `'"'` arm -/
def lexString (attr : Bool) (cs : List Char) : Step :=
  match readString false cs with
  | (some s, rest) => ⟨.tok (.strLit s), rest, attr⟩
  | (none, rest) => ⟨.err .unterminatedString, rest, attr⟩

/-- the `is_ascii_alphabetic` arm: in attribute mode the word is an identifier without looking at the keyword table -/
def lexWord (attr : Bool) (c : Char) (cs : List Char) : Step :=
  ⟨.tok (if attr then .ident (c :: cs.takeWhile isWordChar) else checkKeyword (c :: cs.takeWhile isWordChar)),
   cs.dropWhile isWordChar, attr⟩

/-- the `is_ascii_digit` arm -/
def lexInteger (attr : Bool) (c : Char) (cs : List Char) : Step :=
  ⟨.tok (.intLit (c :: cs.takeWhile isWordChar)), cs.dropWhile isWordChar, attr⟩

/-- the `is_whitespace` arm (`skip_whitespace`) -/
def lexWhitespace (attr : Bool) (cs : List Char) : Step := ⟨.skip .whitespace, cs.dropWhile isWs, attr⟩

def lexNext (attr : Bool) (c : Char) (cs : List Char) : Step :=
  match simpleTok c with
  | some t => ⟨.tok t, cs, attr⟩
  | none =>
    if c == '[' then lexPair '[' .lbracket .dlbracket true cs
    else if c == ']' then lexPair ']' .rbracket .drbracket false cs
    else if c == ':' then lexPair ':' .colon .dcolon attr cs
    else if c == '-' then lexPair '>' .minus .arrow attr cs
    else if c == '"' then lexString attr cs
    else if c == '/' then lexSlash attr cs
    else if c == '\\' then lexBackslash attr cs
    else if c.isAlpha then lexWord attr c cs
    else if c.isDigit then lexInteger attr c cs
    else if isWs c then lexWhitespace attr cs
    else ⟨.err (.unknownSymbol [c] none), cs, attr⟩

/-! ## the whole block -/

/-- How the text read so far ended — what the *next* character could still change. Not part of the Rust state:
    it classifies the last call of `lex_next_slice_token` when that call consumed the buffer to its end, and is
    what the separation theorems (Lemmas/SliceLexer.lean) are stated with. -/
inductive EndClass where
  | closed          -- nothing that follows can change what was read (self-delimiting token, whitespace, `*/`)
  | word            -- an identifier / keyword / integer literal ran to the end: a word character would extend it
  | afterLBracket   -- a single `[`: another `[` would make it `[[`
  | afterRBracket   -- a single `]`
  | afterColon      -- a single `:`
  | afterMinus      -- a single `-`: `>` would make it `->`
  | line            -- a `//` or `///` comment ran to the end: everything up to the next line break belongs to it
  | err             -- the last call reported an error
  deriving DecidableEq, Repr, Inhabited

def StepRes.items : StepRes → List LexItem
  | .tok t => [.tok t]
  | .skip _ => []
  | .err e => [.err e]

def StepRes.endClass : StepRes → EndClass
  | .tok (.ident _) | .tok (.kw _) | .tok (.intLit _) => .word
  | .tok .lbracket => .afterLBracket
  | .tok .rbracket => .afterRBracket
  | .tok .colon => .afterColon
  | .tok .minus => .afterMinus
  | .tok (.doc _) => .line
  | .tok _ => .closed
  | .skip .lineComment => .line
  | .skip _ => .closed
  | .err _ => .err

structure LexRun where
  items : List LexItem    -- the iterator's output, in order
  attr : Bool             -- `attribute_mode` at the end of the block
  last : EndClass
  deriving DecidableEq, Repr, Inhabited

/-- the loop of `Iterator::next`, called until it returns `None`; every call consumes at least one character, so
    `fuel = length of the buffer` is enough (`lexRun_cons` in Lemmas/SliceLexer.lean is the fuel-free equation) -/
def lexRunF : Nat → Bool → List Char → LexRun
  | 0, a, _ => ⟨[], a, .closed⟩
  | _ + 1, a, [] => ⟨[], a, .closed⟩
  | n + 1, a, c :: cs =>
    let s := lexNext a c cs
    let r := lexRunF n s.attr s.rest
    ⟨s.res.items ++ r.items, r.attr, if s.rest.isEmpty then s.res.endClass else r.last⟩

def lexRun (attr : Bool) (cs : List Char) : LexRun := lexRunF cs.length attr cs

/-- what the parser sees: the tokens, or the first error (`Result<Vec<Token>, Error>`) -/
inductive LexResult where
  | ok (ts : List SliceTok)
  | error (e : LexErr)
  deriving DecidableEq, Repr, Inhabited

def collect : List LexItem → LexResult
  | [] => .ok []
  | .err e :: _ => .error e
  | .tok t :: r =>
    match collect r with
    | .ok ts => .ok (t :: ts)
    | .error e => .error e

/-- the Slice lexer on one source block (`attribute_mode` starts as `false`) -/
def lexSlice (cs : List Char) : LexResult := collect (lexRun false cs).items

def LexItem.isErr : LexItem → Bool
  | .err _ => true
  | .tok _ => false

/-- the tokens of an output stream (errors dropped) -/
def toksOf : List LexItem → List SliceTok
  | [] => []
  | .tok t :: r => t :: toksOf r
  | .err _ :: r => toksOf r

/-! ## the token sequence an item list denotes

  Every `tok` / `docLine` item stands for the tokens of its own spelling, read on its own in the attribute mode
  reached so far; an `ident` item stands for one identifier token whether or not the printer writes the
  backslash; separators and span markers stand for nothing.  Optional commas are *layout* in the printer model
  (`Item.optComma`: the printer may or may not write it), but the lexer necessarily reports a written comma as a
  `Comma` token; `tokensWith cs` therefore takes the list of choices (one Boolean per `optComma`, in order;
  missing entries = not written) and `tokensOf` is the sequence without any optional comma. -/

def tokensWith : Bool → List Bool → List Item → List SliceTok
  | _, _, [] => []
  | a, cs, .tok s :: r =>
    let R := lexRun a s.toList
    toksOf R.items ++ tokensWith R.attr cs r
  | a, cs, .docLine s :: r =>
    let R := lexRun a ("///" ++ s).toList
    toksOf R.items ++ tokensWith R.attr cs r
  | a, cs, .ident s :: r => .ident s.toList :: tokensWith a cs r
  | a, [], .optComma :: r => tokensWith a [] r
  | a, c :: cs, .optComma :: r => (if c then [SliceTok.comma] else []) ++ tokensWith a cs r
  | a, cs, _ :: r => tokensWith a cs r

def tokensOf (items : List Item) : List SliceTok := tokensWith false [] items

/-- `CommaExt l l'`: `l'` is `l` with extra `Comma` tokens inserted (the written optional commas) -/
inductive CommaExt : List SliceTok → List SliceTok → Prop where
  | nil : CommaExt [] []
  | keep (t : SliceTok) {l l' : List SliceTok} : CommaExt l l' → CommaExt (t :: l) (t :: l')
  | ins {l l' : List SliceTok} : CommaExt l l' → CommaExt l (.comma :: l')

/-- the tokens other than commas -/
def dropCommas (l : List SliceTok) : List SliceTok := l.filter (· != .comma)

/-! ## the separation check

  `ckRun st items` walks an item list with the attribute mode and the end class of the text written so far, assuming
  the *least* separation a layout may choose (a `glue` gap and an `optComma` may be empty), and fails where the next
  spelling could merge with the previous one, where a spelling does not lex cleanly on its own, or where an
  identifier is not an identifier.  `compat e cs` says that text ending in class `e` may be followed directly by `cs`. -/

def compat : EndClass → List Char → Bool
  | .closed, _ => true
  | _, [] => true
  | .word, c :: _ => !isWordChar c
  | .afterLBracket, c :: _ => c != '['
  | .afterRBracket, c :: _ => c != ']'
  | .afterColon, c :: _ => c != ':'
  | .afterMinus, c :: _ => c != '>'
  | .line, c :: _ => c == '\n'
  | .err, _ :: _ => false

structure CkSt where
  attr : Bool
  last : EndClass
  deriving DecidableEq, Repr, Inhabited

/-- `[A-Za-z][A-Za-z0-9_]*` -/
def isIdentText (cs : List Char) : Bool :=
  match cs with
  | [] => false
  | c :: r => c.isAlpha && r.all isWordChar

def noErr (items : List LexItem) : Bool := items.all (fun i => !i.isErr)

/-- a spelling written as is -/
def ckText (st : CkSt) (cs : List Char) (isDoc : Bool) : Option CkSt :=
  let R := lexRun st.attr cs
  if !cs.isEmpty && compat st.last cs && noErr R.items && R.last != .err && (isDoc || R.last != .line)
  then some ⟨R.attr, R.last⟩ else none

def ckItem (st : CkSt) : Item → Option CkSt
  | .tok s => ckText st s.toList false
  | .docLine s => ckText st ("///" ++ s).toList true
  | .ident s =>
    if isIdentText s.toList && compat st.last s.toList && compat st.last ['\\'] then some ⟨st.attr, .word⟩ else none
  | .optComma => if compat st.last [','] then some st else none
  | .nl _ => some ⟨st.attr, .closed⟩
  | .sp => some ⟨st.attr, .closed⟩
  | .glue => some st
  | .op _ => some st
  | .cl _ => some st

def ckRun (st : CkSt) : List Item → Option CkSt
  | [] => some st
  | it :: r =>
    match ckItem st it with
    | some st' => ckRun st' r
    | none => none

/-- the decidable side condition of the layout theorem -/
def itemsOk (items : List Item) : Bool := (ckRun ⟨false, .closed⟩ items).isSome


/-! ## well-formedness of an abstract file for the layout theorem

  Decidable conditions on the *leaves* of the syntax (names, literals, attribute texts, doc lines); the shape of the
  file is arbitrary.  Names and directives are constrained through their printed spelling read on its own (no
  condition on how they are combined or laid out): -/

def isNameItem : LexItem → Bool
  | .tok (.ident _) => true
  | .tok .dcolon => true
  | _ => false

/-- a (possibly scoped) name or an attribute directive, as printed: read on its own in attribute mode `a` it is a
    non-empty sequence of identifier and `::` tokens that ends in an identifier, and it does not start with `[` -/
def nameTextOk (a : Bool) (cs : List Char) : Bool :=
  let R := lexRun a cs
  !cs.isEmpty && R.items.all isNameItem && R.last == .word && R.attr == a && compat .afterLBracket cs

/-- a syntactic criterion that implies `nameTextOk` (Lemmas/SliceLexerNames.lean): the `::`-separated segments are
    identifiers; the first one may be empty (global scope `::A::B`) when more follow -/
def nameSegsOk : List String → Bool
  | [] => false
  | [s] => identOk' s
  | s :: rest => (s.toList.isEmpty || identOk' s) && rest.all identOk'
where identOk' (s : String) : Bool := isIdentText s.toList

/-- an attribute: the directive is a name; arguments contain no line break (the syntax cannot express one) -/
def attrOk (a : Attr) : Bool :=
  nameTextOk true a.directive.toList && a.args.all (fun x => !x.toList.contains '\n')

/-- integer literals are written in base 2, 10 or 16 -/
def intLitOk (l : IntLit) : Bool := l.base == 2 || l.base == 10 || l.base == 16

def tagOk : Option IntLit → Bool
  | none => true
  | some l => intLitOk l

/-- a doc line is one line -/
def docOk (doc : List String) : Bool := doc.all (fun l => !l.toList.contains '\n')

def identOk (name : String) : Bool := isIdentText name.toList

mutual
def tyOk : TyExpr → Bool
  | .prim _ => true
  | .named id => nameTextOk false (escapeScoped id).toList
  | .seq e => trefOk e
  | .dict k v => trefOk k && trefOk v
  | .result s f => trefOk s && trefOk f
def trefOk : TRef → Bool
  | .mk attrs ty _ => attrs.all attrOk && tyOk ty
end

def fieldOk (f : Field) : Bool := docOk f.doc && f.attrs.all attrOk && tagOk f.tag && identOk f.name && trefOk f.ty

def paramOk (p : Param) : Bool := p.attrs.all attrOk && tagOk p.tag && identOk p.name && trefOk p.ty

def retOk : Ret → Bool
  | .none => true
  | .single tag _ ty => tagOk tag && trefOk ty
  | .tuple ps => ps.all paramOk

def opOk (o : Op) : Bool := docOk o.doc && o.attrs.all attrOk && identOk o.name && o.params.all paramOk && retOk o.ret

def enumeratorOk (e : Enumerator) : Bool :=
  docOk e.doc && e.attrs.all attrOk && identOk e.name &&
  (match e.fields with | none => true | some fs => fs.all fieldOk) &&
  (match e.value with | none => true | some l => intLitOk l)

def defOk : Def → Bool
  | .struct doc attrs _ name fields => docOk doc && attrs.all attrOk && identOk name && fields.all fieldOk
  | .iface doc attrs name bases ops => docOk doc && attrs.all attrOk && identOk name && bases.all trefOk && ops.all opOk
  | .enum doc attrs _ _ name underlying es =>
    docOk doc && attrs.all attrOk && identOk name && (match underlying with | none => true | some u => trefOk u) &&
    es.all enumeratorOk
  | .custom doc attrs name => docOk doc && attrs.all attrOk && identOk name
  | .alias doc attrs name ty => docOk doc && attrs.all attrOk && identOk name && trefOk ty

def fileOk (f : SFile) : Bool :=
  f.fileAttrs.all attrOk &&
  (match f.module with
   | none => true
   | some m => m.attrs.all attrOk && nameTextOk false (escapeScoped m.path).toList) &&
  f.defs.all defOk

end Slicec.SLex
