/-
  Cycle detection (C05): mirror of `validators/cycle_detection.rs` (containment cycles through structs and
  enums, E032; the per-root set `types_depending_on_checked_type` and the skip rule of dd206d7; the interface
  inheritance check `check_interface_for_inheritance_cycles` of 0830460; the order of the three gates of
  `detect_cycles`), of the alias walk of `patchers/type_ref_patcher.rs::resolve_type_alias` (E019 / E033; the walk
  itself is `walkAlias` of Model/Resolve.lean) and of `Interface::all_base_interfaces` (`collect` of 323593c).

  The definitions the repairs replaced are kept under the names `dfsUnpruned` / `detectUnpruned` / `allBasesSpec`
  ONLY as specifications to compare with (Props/C05: `prune_preserves_reports`, `allBases_eq_spec`).

  Containment graph: nodes = struct/enum definitions in AST order; each node a list of fields; a field's type a
  wrapper tree over leaves `node j | terminal`.  The detector works on the *edge function*
  `E : Nat → List (field index × target)` (targets in the order `check_field_type_for_cycles` meets them), so
  that the theorems can be stated for arbitrary edge functions and for the ones induced by a graph alike.
-/
import SlicecVerif.Model.Resolve

namespace Slicec.Cyc

/-! ## containment graph -/

/-- the type of a field, as far as containment is concerned -/
inductive CTy where
  | node (j : Nat)          -- a struct or enum (index in AST order)
  | terminal                -- primitive or custom type
  | opt (t : CTy)            -- `T?`
  | seq (t : CTy)            -- `Sequence<T>`
  | dict (k v : CTy)         -- `Dictionary<K, V>`
  | result (s f : CTy)       -- `Result<S, F>`
  deriving Repr, DecidableEq, Inhabited

/-- struct/enum leaves in the order `check_field_type_for_cycles` reaches them
    (success before failure, key before value; `?` is a flag of the reference and changes nothing) -/
def CTy.targets : CTy → List Nat
  | .node j => [j]
  | .terminal => []
  | .opt t => t.targets
  | .seq t => t.targets
  | .dict k v => k.targets ++ v.targets
  | .result s f => s.targets ++ f.targets

/-- `t.Contains j`: the wrapper tree `t` has a leaf `node j` (through any wrapper, key or value, success or failure) -/
inductive CTy.Contains : CTy → Nat → Prop
  | node (j : Nat) : CTy.Contains (.node j) j
  | opt {t j} : CTy.Contains t j → CTy.Contains (.opt t) j
  | seq {t j} : CTy.Contains t j → CTy.Contains (.seq t) j
  | dictKey {k v j} : CTy.Contains k j → CTy.Contains (.dict k v) j
  | dictValue {k v j} : CTy.Contains v j → CTy.Contains (.dict k v) j
  | resultSuccess {s f j} : CTy.Contains s j → CTy.Contains (.result s f) j
  | resultFailure {s f j} : CTy.Contains f j → CTy.Contains (.result s f) j

structure CField where
  name : String
  ty : CTy
  deriving Repr, DecidableEq, Inhabited

structure CNode where
  /-- module-scoped identifier: the detector's notion of identity -/
  name : String
  isEnum : Bool
  /-- struct fields, or the fields of all enumerators in source order -/
  fields : List CField
  deriving Repr, DecidableEq, Inhabited

abbrev Graph := List CNode

/-- an edge function: for every node the list of (field index, target) in detector order -/
abbrev EdgeFn := Nat → List (Nat × Nat)

def fieldEdges (fields : List CField) : List (Nat × Nat) :=
  fields.zipIdx.flatMap fun fk => fk.1.ty.targets.map fun t => (fk.2, t)

/-- outgoing edges of node `i`; leaves that point outside the graph are ignored -/
def edges (g : Graph) : EdgeFn := fun i =>
  match g[i]? with
  | none => []
  | some nd => (fieldEdges nd.fields).filter fun e => e.2 < g.length

/-! ## the detector -/

/-- one element of `dependency_stack`: the type id of the field's type and the field (container, index) it came from -/
structure Entry where
  target : Nat
  container : Nat
  field : Nat
  deriving Repr, DecidableEq, Inhabited

/-- one E032 diagnostic: `type_being_checked` and the stack at the time of the report -/
structure Report where
  root : Nat
  stack : List Entry
  deriving Repr, DecidableEq, Inhabited

def Report.ids (r : Report) : List Nat := r.stack.map (·.target)

structure DState where
  /-- `reported_cycles`: vertex sets already reported (compared as sets) -/
  seen : List (List Nat) := []
  /-- diagnostics in reporting order -/
  reports : List Report := []
  /-- number of calls of `push_to_stack_and_check` so far -/
  steps : Nat := 0
  /-- set when the search ran out of fuel (never: `Props/C05.fuel_suffices`) -/
  exhausted : Bool := false
  deriving Repr, Inhabited

/-- equality of `BTreeSet`s built from two id lists -/
def sameSet (a b : List Nat) : Bool := a.all (fun x => b.contains x) && b.all (fun x => a.contains x)

/-- `report_cycle_error`: drop the report if the same vertex set was reported before -/
def report (root : Nat) (stack : List Entry) (st : DState) : DState :=
  if st.seen.any (sameSet (stack.map (·.target))) then st
  else { st with seen := stack.map (·.target) :: st.seen, reports := st.reports ++ [⟨root, stack⟩] }

def DState.tick (st : DState) : DState := { st with steps := st.steps + 1 }

/-! ### which types depend on the checked type (`dependents` map + worklist of `detect_cycles`) -/

/-- `dependents[t]`: the types that directly depend on `t` — one entry per (field, leaf) edge `c → t`, containers in
    AST order (`for node in ast` … `dependents.entry(dependency).or_default().push(type_id)`) -/
def dependents (E : EdgeFn) (n t : Nat) : List Nat :=
  (List.range n).flatMap fun c => ((E c).filter fun e => e.2 == t).map fun _ => c

/-- body of `for dependent in dependents.get(type_id)`: `if set.insert(dependent) { pending.push(dependent) }`;
    state = (`pending` as a stack, head = top; the set) -/
def depVisit (acc : List Nat × List Nat) (d : Nat) : List Nat × List Nat :=
  if acc.2.contains d then acc else (d :: acc.1, d :: acc.2)

/-- `while let Some(type_id) = pending.pop() { … }`; the fuel bounds the number of pops
    (never exhausted with `n + 1`: `Lemmas/Cycles.depLoop_spec`) -/
def depLoop (D : Nat → List Nat) : Nat → List Nat → List Nat → List Nat
  | 0, _, set => set
  | _ + 1, [], set => set
  | fuel + 1, t :: pending, set =>
    let r := (D t).foldl depVisit (pending, set)
    depLoop D fuel r.1 r.2

/-- `types_depending_on_candidate` for the checked type `root` -/
def dependsOn (E : EdgeFn) (n root : Nat) : List Nat := depLoop (dependents E n) (n + 1) [root] []

/-! ### the search -/

/-- `check_for_cycles` of node `cur` with the current stack: every field, every struct/enum leaf of its type,
    `push_to_stack_and_check` with its four cases in the Rust order: the candidate is the checked type ⇒ report;
    the candidate does not depend on the checked type ⇒ skip (dd206d7); the candidate is on the stack ⇒ cut;
    otherwise push and recurse. `deps` = `types_depending_on_checked_type`. -/
def dfs (E : EdgeFn) (root : Nat) (deps : List Nat) : Nat → List Entry → Nat → DState → DState
  | 0, _, _, st => { st with exhausted := true }
  | fuel + 1, stack, cur, st =>
    (E cur).foldl (fun st e =>
      let st := st.tick
      if e.2 == root then report root (stack ++ [⟨e.2, cur, e.1⟩]) st          -- back at the type being checked
      else if !deps.contains e.2 then st                                         -- cannot lead back to it: skip
      else if stack.any (fun x => x.target == e.2) then st                      -- on the stack: cut
      else dfs E root deps fuel (stack ++ [⟨e.2, cur, e.1⟩]) e.2 st) st          -- recurse

/-- `detect_cycles` (containment part): every struct/enum in AST order is the root of one search, with its own
    `dependsOn` set; fuel = number of nodes − stack length -/
def detectE (E : EdgeFn) (n : Nat) : DState :=
  (List.range n).foldl (fun st r => dfs E r (dependsOn E n r) n [] r st) {}

def detectCycles (g : Graph) : List Report := (detectE (edges g) g.length).reports

def steps (g : Graph) : Nat := (detectE (edges g) g.length).steps

/-! ### the detector before dd206d7 — SPECIFICATION ONLY (no skip rule: every simple path is walked) -/

def dfsUnpruned (E : EdgeFn) (root : Nat) : Nat → List Entry → Nat → DState → DState
  | 0, _, _, st => { st with exhausted := true }
  | fuel + 1, stack, cur, st =>
    (E cur).foldl (fun st e =>
      let st := st.tick
      if e.2 == root then report root (stack ++ [⟨e.2, cur, e.1⟩]) st
      else if stack.any (fun x => x.target == e.2) then st
      else dfsUnpruned E root fuel (stack ++ [⟨e.2, cur, e.1⟩]) e.2 st) st

def detectUnpruned (E : EdgeFn) (n : Nat) : DState :=
  (List.range n).foldl (fun st r => dfsUnpruned E r n [] r st) {}

/-! ## graph families: the dense DAG of D-05b (fixed) and the complete digraph of D-05d (open) -/

def denseNode (n i : Nat) : CNode :=
  { name := "S" ++ toString i, isEnum := false,
    fields := (List.range' (i + 1) (n - (i + 1))).map fun j => { name := "f" ++ toString j, ty := .node j } }

/-- struct `i` has one field of every struct `j > i` (acyclic) -/
def dense (n : Nat) : Graph := (List.range n).map (denseNode n)

/-- struct `i` has one optional field of every struct `j ≠ i` (an erroneous program: everything is on a cycle) -/
def complete (n : Nat) : Graph :=
  (List.range n).map fun i =>
    { name := "S" ++ toString i, isEnum := false,
      fields := ((List.range n).filter (· != i)).map fun j => { name := "f" ++ toString j, ty := .opt (.node j) } }

/-! ## independent predicates (what the property demands; not the detector) -/

/-- one containment step -/
def EStep (E : EdgeFn) (a b : Nat) : Prop := ∃ f, (f, b) ∈ E a

/-- `a →⁺ b` -/
inductive EReach (E : EdgeFn) : Nat → Nat → Prop
  | single {a b} : EStep E a b → EReach E a b
  | cons {a b c} : EStep E a b → EReach E b c → EReach E a c

def AcyclicE (E : EdgeFn) : Prop := ∀ a, ¬ EReach E a a
def Acyclic (g : Graph) : Prop := AcyclicE (edges g)

/-- executable transitive closure used by the driver's oracle (not by the detector): nodes reachable in ≥ 1 step -/
def succs (E : EdgeFn) (a : Nat) : List Nat := (E a).map (·.2)

def closureStep (E : EdgeFn) (front : List Nat) : List Nat :=
  (front ++ front.flatMap (succs E)).eraseDups

def reachList (E : EdgeFn) (n a : Nat) : List Nat :=
  (List.range n).foldl (fun fr _ => closureStep E fr) (succs E a).eraseDups

/-- nodes lying on a cycle, by reachability (oracle) -/
def onCycle (E : EdgeFn) (n : Nat) : List Nat := (List.range n).filter fun a => (reachList E n a).contains a

/-- a reported chain is a real closed path: entry `k` is a field of the previous target (the root for `k = 0`)
    whose type contains entry `k`'s target, and the last target is the root -/
def chainOk (E : EdgeFn) (root : Nat) : Nat → List Entry → Bool
  | _, [] => false
  | prev, [e] => e.container == prev && (E prev).contains (e.field, e.target) && e.target == root
  | prev, e :: rest => e.container == prev && (E prev).contains (e.field, e.target) && chainOk E root e.target rest

/-! ## interface inheritance -/

/-- bases of interface `i` (indices), in written order -/
abbrev IGraph := List (List Nat)

/-- `base_interfaces()` of interface `i`; references that point outside the graph are ignored (as in `edges`) -/
def ibases (ig : IGraph) (i : Nat) : List Nat := (ig.getD i []).filter (· < ig.length)

/-- the inheritance graph as an edge function (field index 0), so that `EReach` / `AcyclicE` apply to it -/
def igEdges (ig : IGraph) : EdgeFn := fun i => (ibases ig i).map fun b => (0, b)

/-! ### `Interface::all_base_interfaces` after 323593c: `collect` with a `seen` and an `expanded` set -/

structure BState where
  /-- `all_bases` -/
  all : List Nat := []
  /-- `seen_identifiers` -/
  seen : List Nat := []
  /-- `expanded_identifiers` -/
  expanded : List Nat := []
  /-- set when the recursion ran out of fuel (never: `Props/C05.allBases_total`) -/
  exhausted : Bool := false
  deriving Repr, Inhabited

/-- `if seen_identifiers.insert(id) { all_bases.push(base) }` -/
def BState.push (st : BState) (b : Nat) : BState :=
  if st.seen.contains b then st else { st with seen := b :: st.seen, all := st.all ++ [b] }

/-- `collect(interface, …)`: first every direct base is pushed (when new), then every direct base is expanded (when
    not expanded before); the fuel bounds the nesting depth -/
def collect (ig : IGraph) : Nat → Nat → BState → BState
  | 0, _, st => { st with exhausted := true }
  | fuel + 1, i, st =>
    (ibases ig i).foldl (fun st b =>
      if st.expanded.contains b then st
      else collect ig fuel b { st with expanded := b :: st.expanded }) ((ibases ig i).foldl BState.push st)

/-- `Interface::all_base_interfaces`; `none` = the recursion did not finish within `fuel` nested frames -/
def allBases (ig : IGraph) (fuel i : Nat) : Option (List Nat) :=
  let st := collect ig fuel i {}
  if st.exhausted then none else some st.all

/-! ### the definition before 323593c — SPECIFICATION ONLY: bases, then the bases of each base, first occurrences -/

/-- `retain(|b| seen.insert(id))`: keep first occurrences -/
def dedupKeep : List Nat → List Nat
  | [] => []
  | x :: xs => x :: (dedupKeep xs).filter (· != x)

/-- `extend`: appending the bases of a base; `none` (no result) is contagious -/
def joinBases (acc r : Option (List Nat)) : Option (List Nat) :=
  match acc, r with
  | some a, some r => some (a ++ r)
  | _, _ => none

/-- `bases ++ flat_map(all_base_interfaces)`, then first occurrences; `none` = did not return within `fuel` frames
    (every graph with a loop below `i`, whatever the fuel) -/
def allBasesSpec (ig : IGraph) : Nat → Nat → Option (List Nat)
  | 0, _ => none
  | fuel + 1, i =>
    ((ibases ig i).foldl (fun acc b => joinBases acc (allBasesSpec ig fuel b)) (some (ibases ig i))).map dedupKeep

/-! ### `check_interface_for_inheritance_cycles` (0830460) -/

structure FState where
  /-- `seen` -/
  seen : List Nat := []
  /-- `path` -/
  path : List Nat := []
  /-- `find_path` returned `true` (every enclosing loop is left at once) -/
  found : Bool := false
  exhausted : Bool := false
  deriving Repr, Inhabited

/-- `find_path(current, target, path, seen)`: the loop over the bases of `cur`; the fuel bounds the nesting depth -/
def findPath (ig : IGraph) (target : Nat) : Nat → Nat → FState → FState
  | 0, _, st => { st with exhausted := true }
  | fuel + 1, cur, st =>
    (ibases ig cur).foldl (fun st b =>
      if st.found then st                                                           -- `return true` happened
      else if b == target then { st with path := st.path ++ [b], found := true }    -- `id == target`
      else if st.seen.contains b then st                                           -- `seen.insert` is false
      else
        let st1 := findPath ig target fuel b { st with seen := b :: st.seen, path := st.path ++ [b] }
        if st1.found then st1 else { st1 with path := st1.path.dropLast }) st        -- `path.pop()`

def findPathFrom (ig : IGraph) (i : Nat) : FState := findPath ig i (ig.length + 1) i { path := [i] }

/-- the inheritance chain reported for interface `i` (`some [i, …, i]`), or `none` when it is not reported -/
def checkInterface (ig : IGraph) (i : Nat) : Option (List Nat) :=
  let st := findPathFrom ig i
  if st.found then some st.path else none

/-- the E032 diagnostics of the interface gate: (interface, chain) in AST order -/
def ifaceLoopErrors (ig : IGraph) : List (Nat × List Nat) :=
  (List.range ig.length).filterMap fun i => (checkInterface ig i).map fun p => (i, p)

/-! ## the three gates of `detect_cycles`, in order -/

structure GateOutcome where
  /-- E019 of the alias gate (aliases that contain themselves through an anonymous type) -/
  aliasErrors : List String := []
  /-- E032 of the interface gate -/
  ifaceErrors : List (Nat × List Nat) := []
  /-- E032 of the containment detector -/
  reports : List Report := []
  deriving Repr, Inhabited

def GateOutcome.rejected (o : GateOutcome) : Bool := !o.aliasErrors.isEmpty || !o.ifaceErrors.isEmpty || !o.reports.isEmpty

/-- `detect_cycles`: the alias gate returns when it reported anything (`if diagnostics.has_errors() { return; }`: the
    validators run only on programs without earlier errors); the interface gate does NOT return, the containment
    detector runs in any case after it -/
def cycleGate (anonAliases : List String) (ig : IGraph) (g : Graph) : GateOutcome :=
  if !anonAliases.isEmpty then { aliasErrors := anonAliases }
  else { ifaceErrors := ifaceLoopErrors ig, reports := detectCycles g }

/-! ## from the abstract syntax -/

/-- struct and enum definitions of a program in AST order: (key, module scope, definition) -/
def typeDefs (p : Program) : List (String × String × Def) :=
  p.flatMap fun f =>
    let ms := match f.module with | some m => m.path | none => ""
    f.defs.filterMap fun d =>
      match d with
      | .struct .. => some (scopedId d.name ms, ms, d)
      | .enum .. => some (scopedId d.name ms, ms, d)
      | _ => none

mutual
/-- containment view of a written type reference; aliases are looked through (`concrete_type`), `fuel` bounds the
    descent through aliases of anonymous types -/
def tyOfTRef (t : Table) (names : List String) : Nat → String → TRef → CTy
  | 0, _, _ => .terminal
  | fuel + 1, scope, .mk _ ty opt =>
    let inner : CTy :=
      match ty with
      | .named id =>
        match resolveNamed t .type id scope with
        | .ok (.node n, _) =>
          if n.kind == .struct || n.kind == .enum then
            (if names.contains n.key then .node (names.idxOf n.key) else .terminal)
          else .terminal
        | .ok (.expr e s, _) => tyOfExpr t names fuel s e
        | .error _ => .terminal
      | e => tyOfExpr t names fuel scope e
    if opt then .opt inner else inner
def tyOfExpr (t : Table) (names : List String) : Nat → String → TyExpr → CTy
  | 0, _, _ => .terminal
  | _ + 1, _, .prim _ => .terminal
  | fuel + 1, scope, .named id => tyOfTRef t names fuel scope (.mk [] (.named id) false)
  | fuel + 1, scope, .seq e => .seq (tyOfTRef t names fuel scope e)
  | fuel + 1, scope, .dict k v => .dict (tyOfTRef t names fuel scope k) (tyOfTRef t names fuel scope v)
  | fuel + 1, scope, .result s f => .result (tyOfTRef t names fuel scope s) (tyOfTRef t names fuel scope f)
end

def cycleFuel : Nat := 64

def defFields : Def → List Field
  | .struct _ _ _ _ fs => fs
  | .enum _ _ _ _ _ _ es => es.flatMap fun e => e.fields.getD []
  | _ => []

/-- the containment graph of a program (field types bound with Model/Resolve.lean) -/
def graphOfProgram (p : Program) : Graph :=
  let t := buildTable p
  let tds := typeDefs p
  let names := tds.map (·.1)
  tds.map fun (key, ms, d) =>
    { name := key
      isEnum := (match d with | .enum .. => true | _ => false)
      fields := (defFields d).map fun f => { name := f.name, ty := tyOfTRef t names cycleFuel ms f.ty } }

/-! ## alias walk: which diagnostics the type-reference patcher emits -/

mutual
def namedRefsT (w : Want) : TRef → List (String × Want)
  | .mk _ ty _ => namedRefsE w ty
def namedRefsE (w : Want) : TyExpr → List (String × Want)
  | .prim _ => []
  | .named id => [(id, w)]
  | .seq e => namedRefsT .type e
  | .dict k v => namedRefsT .type k ++ namedRefsT .type v
  | .result s f => namedRefsT .type s ++ namedRefsT .type f
end

def defRefs : Def → List (String × Want)
  | .struct _ _ _ _ fs => fs.flatMap fun f => namedRefsT .type f.ty
  | .iface _ _ _ bases ops =>
    bases.flatMap (namedRefsT .interface) ++
    ops.flatMap fun o => o.params.flatMap (fun p => namedRefsT .type p.ty) ++ (retParams o.ret).flatMap (fun p => namedRefsT .type p.ty)
  | .enum _ _ _ _ _ u es =>
    (match u with | some r => namedRefsT .primitive r | none => []) ++
    es.flatMap fun e => (e.fields.getD []).flatMap fun f => namedRefsT .type f.ty
  | .custom .. => []
  | .alias _ _ _ ty => namedRefsT .type ty

/-- every written reference by name that `TypeRefPatcher::compute_patches` resolves: (identifier, module scope, position) -/
def programRefs (p : Program) : List (String × String × Want) :=
  p.flatMap fun f =>
    let ms := match f.module with | some m => m.path | none => ""
    f.defs.flatMap fun d => (defRefs d).map fun (id, w) => (id, ms, w)

/-- E019 diagnostics (one per reference whose walk comes back to the alias it started at): the alias ids -/
def e019s (p : Program) : List String :=
  let t := buildTable p
  (programRefs p).filterMap fun (id, ms, w) =>
    match resolveNamed t w id ms with
    | .error (.aliasCycle true k) => some k
    | _ => none

/-- number of E033 diagnostics: references that do not exist or whose alias walk reaches a loop -/
def e033Count (p : Program) : Nat :=
  let t := buildTable p
  ((programRefs p).filter fun (id, ms, w) =>
    match resolveNamed t w id ms with
    | .error (.aliasCycle _ _) => true
    | .error (.doesNotExist _) => true
    | _ => false).length

/-! ## aliases that loop through an anonymous type (D-05c)

  `resolve_type_alias` stops at an alias whose underlying type is anonymous (already patched), so
  `typealias A = Sequence<A>` is not an alias cycle for the patcher: the element reference `A` is bound to the very
  sequence that contains it. The struct/enum detector ignores anonymous types, and every recursive descent through the
  patched structure (`TypeRef::visit_with`, `check_field_type_for_cycles`, `type_string`) then never ends. -/

mutual
/-- number of type references `TypeRef::visit_with` presents below (and including) a reference, following the
    *patched* structure; `none` = the descent does not end within `fuel` nested calls -/
def descendT (t : Table) : Nat → String → TRef → Option Nat
  | 0, _, _ => none
  | fuel + 1, scope, .mk _ ty _ =>
    match ty with
    | .named id =>
      match resolveNamed t .type id scope with
      | .ok (.expr e s, _) => (descendE t fuel s e).map (· + 1)
      | _ => some 1
    | e => (descendE t fuel scope e).map (· + 1)
def descendE (t : Table) : Nat → String → TyExpr → Option Nat
  | 0, _, _ => none
  | _ + 1, _, .prim _ => some 0
  | _ + 1, _, .named _ => some 0
  | fuel + 1, scope, .seq e => descendT t fuel scope e
  | fuel + 1, scope, .dict k v =>
    match descendT t fuel scope k, descendT t fuel scope v with
    | some a, some b => some (a + b)
    | _, _ => none
  | fuel + 1, scope, .result s f =>
    match descendT t fuel scope s, descendT t fuel scope f with
    | some a, some b => some (a + b)
    | _, _ => none
end

/-- alias definitions of a program: (key, module scope, underlying) -/
def aliasDefs (p : Program) : List (String × String × TRef) :=
  p.flatMap fun f =>
    let ms := match f.module with | some m => m.path | none => ""
    f.defs.filterMap fun d =>
      match d with
      | .alias _ _ name ty => some (scopedId name ms, ms, ty)
      | _ => none

def aliasIndexOf (t : Table) (keys : List String) (id ms : String) : Option Nat :=
  match findNodeWithScope t id ms with
  | some n => if n.kind == .alias && keys.contains n.key then some (keys.idxOf n.key) else none
  | none => none

/-- aliases an alias refers to: directly (`false`) or from inside its anonymous underlying type (`true`) -/
def aliasSuccs (t : Table) (keys : List String) (a : String × String × TRef) : List (Nat × Bool) :=
  match a.2.2.ty with
  | .named id => (match aliasIndexOf t keys id a.2.1 with | some j => [(j, false)] | none => [])
  | e => (namedRefsE .type e).filterMap fun r => (aliasIndexOf t keys r.1 a.2.1).map fun j => (j, true)

/-- some alias loop runs through at least one anonymous type: the patcher reports nothing for it -/
def anonLoop (p : Program) : Bool :=
  let t := buildTable p
  let ads := aliasDefs p
  let keys := ads.map (·.1)
  let succ := ads.map (aliasSuccs t keys)
  let E : EdgeFn := fun i => (succ.getD i []).map fun jb => (0, jb.1)
  let n := ads.length
  (List.range n).any fun u => (succ.getD u []).any fun vb => vb.2 && (vb.1 == u || (reachList E n vb.1).contains u)


/-- the alias gate added to `detect_cycles` (repair of D-05c), DECLARATIVELY (closure over the alias graph; used by the
    driver as an oracle for `aliasGateErrors`, which mirrors the code): an alias is reported with E019 when, descending from its
    underlying type through anonymous types (aliases being transparent), an anonymous type is met twice on the current
    path — i.e. when an alias lying on a loop is reachable from it (the alias itself included). In a program the patcher
    accepted, every alias loop runs through an anonymous type. -/
def anonLoopAliases (p : Program) : List String :=
  let t := buildTable p
  let ads := aliasDefs p
  let keys := ads.map (·.1)
  let succ := ads.map (aliasSuccs t keys)
  let E : EdgeFn := fun i => (succ.getD i []).map fun jb => (0, jb.1)
  let n := ads.length
  let cyc := onCycle E n
  ((List.range n).filter fun a => cyc.contains a || (reachList E n a).any cyc.contains).map fun a => keys.getD a ""

/-! ## the alias gate: `revisits_anonymous_type` (f7e7e5f), first loop of `detect_cycles`

  The graph it walks: one node per anonymous type (sequence, dictionary, result) written in the underlying type of an
  alias; the children of a node are the anonymous types its element / key, value / success, failure references are bound
  to (a written anonymous type, or — through a chain of aliases — the anonymous underlying type of an alias); structs,
  enums, primitives and custom types are leaves. The descent keeps the CURRENT PATH (`path.push` … `path.pop`), not a set
  of everything visited: a node met twice on different branches (a diamond, `Result<Names, Names>`) is not a revisit. -/

/-- `revisits_anonymous_type(node, path)` on the graph of anonymous types (`IGraph`: children of node `x`);
    the fuel bounds the nesting depth (never exhausted with `#nodes + 1`: `Props/C05.alias_gate_reports_iff`) -/
def revisits (ag : IGraph) : Nat → Nat → List Nat → Bool
  | 0, _, _ => false
  | fuel + 1, x, path =>
    if path.contains x then true                                                     -- `path.contains(&node)`
    else (ibases ag x).any fun c => revisits ag fuel c (path ++ [x])                  -- push, `any` over the children, pop

/-- the aliases (indices) reported by the alias gate; `starts[a]` = the anonymous type alias `a`'s underlying reference
    is bound to, if it is one -/
def aliasGate (ag : IGraph) (starts : List (Option Nat)) : List Nat :=
  (List.range starts.length).filter fun a =>
    match starts.getD a none with
    | some x => revisits ag (ag.length + 1) x []
    | none => false

/-- a type reference inside an anonymous type, before binding: a written anonymous type (global index), a name, or a
    primitive -/
inductive AChild where
  | node (k : Nat)
  | named (id : String)
  | leaf
  deriving Repr, DecidableEq, Inhabited

structure ANode where
  /-- module scope the expression was written in -/
  scope : String
  children : List AChild
  deriving Repr, Inhabited

mutual
/-- number the anonymous types written below a reference in pre-order, starting at `next` -/
def allocT (scope : String) : TRef → Nat → AChild × List ANode
  | .mk _ ty _, next => allocE scope ty next
def allocE (scope : String) : TyExpr → Nat → AChild × List ANode
  | .prim _, _ => (.leaf, [])
  | .named id, _ => (.named id, [])
  | .seq e, next =>
    let r := allocT scope e (next + 1)
    (.node next, ⟨scope, [r.1]⟩ :: r.2)
  | .dict k v, next =>
    let rk := allocT scope k (next + 1)
    let rv := allocT scope v (next + 1 + rk.2.length)
    (.node next, ⟨scope, [rk.1, rv.1]⟩ :: (rk.2 ++ rv.2))
  | .result su f, next =>
    let rs := allocT scope su (next + 1)
    let rf := allocT scope f (next + 1 + rs.2.length)
    (.node next, ⟨scope, [rs.1, rf.1]⟩ :: (rs.2 ++ rf.2))
end

/-- all anonymous types written in alias definitions, and for every alias (AST order) its scope and what its underlying
    reference is -/
def anonAlloc (p : Program) : List ANode × List (String × AChild) :=
  (aliasDefs p).foldl (fun acc a =>
    let r := allocT a.2.1 a.2.2 acc.1.length
    (acc.1 ++ r.2, acc.2 ++ [(a.2.1, r.1)])) ([], [])

/-- what a reference is bound to after patching: named references follow the alias chain to its end -/
def bindChild (t : Table) (keys : List String) (starts : List (String × AChild)) : Nat → String → AChild → Option Nat
  | _, _, .node k => some k
  | _, _, .leaf => none
  | 0, _, .named _ => none
  | fuel + 1, scope, .named id =>
    match aliasIndexOf t keys id scope with
    | some j => match starts.getD j ("", .leaf) with | (sj, cj) => bindChild t keys starts fuel sj cj
    | none => none

/-- the graph of anonymous types of a program and the start node of every alias -/
def anonGraph (p : Program) : IGraph × List (Option Nat) :=
  let t := buildTable p
  let keys := (aliasDefs p).map (·.1)
  let (nodes, starts) := anonAlloc p
  let fuel := starts.length + 1
  (nodes.map fun nd => nd.children.filterMap (bindChild t keys starts fuel nd.scope),
   starts.map fun sc => bindChild t keys starts fuel sc.1 sc.2)

/-- the E019 diagnostics of the alias gate, by `revisits_anonymous_type` -/
def aliasGateErrors (p : Program) : List String :=
  let keys := (aliasDefs p).map (·.1)
  let (ag, starts) := anonGraph p
  (aliasGate ag starts).map fun a => keys.getD a ""

/-! ## the gate on a program -/

/-- interface definitions of a program in AST order: (key, module scope, written bases) -/
def ifaceDefs (p : Program) : List (String × String × List TRef) :=
  p.flatMap fun f =>
    let ms := match f.module with | some m => m.path | none => ""
    f.defs.filterMap fun d =>
      match d with
      | .iface _ _ name bases _ => some (scopedId name ms, ms, bases)
      | _ => none

/-- the inheritance graph of a program (bases bound with Model/Resolve.lean; aliases are looked through) -/
def igraphOfProgram (p : Program) : IGraph :=
  let t := buildTable p
  let ids := ifaceDefs p
  let keys := ids.map (·.1)
  ids.map fun (_, ms, bases) =>
    bases.filterMap fun b =>
      match b.ty with
      | .named id =>
        match resolveNamed t .interface id ms with
        | .ok (.node n, _) => if keys.contains n.key then some (keys.idxOf n.key) else none
        | _ => none
      | _ => none

/-- `detect_cycles` on a program the patchers accepted -/
def gateOfProgram (p : Program) : GateOutcome :=
  cycleGate (aliasGateErrors p) (igraphOfProgram p) (graphOfProgram p)

end Slicec.Cyc
