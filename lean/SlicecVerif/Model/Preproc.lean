/-
  Model of the slicec preprocessor (slicec/src/parsers/preprocessor/{lexer.rs,grammar.lalrpop,grammar.rs,parser.rs}
  and `parse_files` in parsers/mod.rs), character level.

  Locations are rows/columns counted in CHARACTERS from 1; '\n' starts a new row, every other character
  (including '\r' and '\t') advances the column by one.  Offsets are character offsets into the file.
  Core Lean only.
-/
import SlicecVerif.Model.Basic
import SlicecVerif.Gen.Preproc

namespace Slicec.Pp

/-! ## locations -/

structure Loc where
  row : Nat
  col : Nat
  deriving DecidableEq, Repr, Inhabited

/-- `Location::default()` -/
def Loc.init : Loc := ⟨1, 1⟩

/-- `advance_buffer`: what consuming one character does to the cursor -/
def advance (l : Loc) (c : Char) : Loc :=
  if c = '\n' then ⟨l.row + 1, 1⟩ else ⟨l.row, l.col + 1⟩

/-- the location of offset `i` of file `f` (the specification of "original row and column") -/
def locAt (f : List Char) (i : Nat) : Loc := (f.take i).foldl advance Loc.init

/-! ## character classes -/

/-- the 25 code points for which Rust's `char::is_whitespace` holds (DESIGN Appendix E) -/
def wsCodePoints : List Nat :=
  [0x9, 0xA, 0xB, 0xC, 0xD, 0x20, 0x85, 0xA0, 0x1680, 0x2000, 0x2001, 0x2002, 0x2003, 0x2004, 0x2005, 0x2006,
   0x2007, 0x2008, 0x2009, 0x200A, 0x2028, 0x2029, 0x202F, 0x205F, 0x3000]

def isWs (c : Char) : Bool := wsCodePoints.contains c.toNat

/-- whitespace other than '\n' (`skip_inline_whitespace`) -/
def isInlineWs (c : Char) : Bool := isWs c && c != '\n'

def isAsciiAlpha (c : Char) : Bool := ('a' ≤ c && c ≤ 'z') || ('A' ≤ c && c ≤ 'Z')
def isAsciiDigit (c : Char) : Bool := '0' ≤ c && c ≤ '9'
/-- `c.is_ascii_alphanumeric() || c == '_'` (`read_identifier`) -/
def isIdentChar (c : Char) : Bool := isAsciiAlpha c || isAsciiDigit c || c == '_'
def notNewline (c : Char) : Bool := c != '\n'

/-! ## tokens -/

/-- `SourceBlock` (common.rs) with the character offset of its first character in the file; `stop` is the
    unused `end` field -/
structure Block where
  start : Loc
  off : Nat
  content : List Char
  deriving DecidableEq, Repr, Inhabited

inductive PKw where
  | define | undef | if_ | elif | else_ | endif
  deriving DecidableEq, Repr, Inhabited

/-- `TokenKind` (tokens.rs) -/
inductive PTok where
  | block (b : Block)
  | ident (s : String)
  | kw (k : PKw)
  | dend
  | not | and | or | lpar | rpar
  deriving DecidableEq, Repr, Inhabited

/-- `ErrorKind` (tokens.rs); `panicWs` is the `panic!` arm of `lex_next_preprocessor_token`, `panicUnwrap`
    the `unwrap()` of the block start (both unreachable, see `Lemmas/Preproc.lean`) -/
inductive LexErrKind where
  | unknownSymbol (s : String)
  | unknownDirective (k : String)
  | missingDirective
  | panicWs
  | panicUnwrap
  deriving DecidableEq, Repr, Inhabited

structure LexErr where
  s : Loc
  kind : LexErrKind
  e : Loc
  deriving DecidableEq, Repr, Inhabited

/-- a token with its start and end locations: `(Location, TokenKind, Location)` -/
structure LTok where
  s : Loc
  tok : PTok
  e : Loc
  deriving DecidableEq, Repr, Inhabited

/-! ## the cursor (`buffer`, `position`, `cursor` of the Rust lexer) -/

structure Cur where
  rest : List Char
  off : Nat
  loc : Loc
  deriving Repr

def Cur.peek (c : Cur) : Option Char := c.rest.head?

/-- `advance_buffer` -/
def Cur.adv (c : Cur) : Cur :=
  match c.rest with
  | [] => c
  | ch :: r => ⟨r, c.off + 1, advance c.loc ch⟩

def skipWhileAux (p : Char → Bool) : List Char → Nat → Loc → Cur
  | [], o, l => ⟨[], o, l⟩
  | ch :: r, o, l => if p ch then skipWhileAux p r (o + 1) (advance l ch) else ⟨ch :: r, o, l⟩

/-- `while matches!(peek, Some(c) if p c) { advance_buffer() }` -/
def Cur.skipWhile (p : Char → Bool) (c : Cur) : Cur := skipWhileAux p c.rest c.off c.loc

/-- `skip_inline_whitespace` -/
def Cur.skipWs (c : Cur) : Cur := c.skipWhile isInlineWs
/-- `advance_to_end_of_line` -/
def Cur.toEol (c : Cur) : Cur := c.skipWhile notNewline

inductive Mode where
  | unknown | sourceBlock | directive
  deriving DecidableEq, Repr

structure LexSt where
  cur : Cur
  mode : Mode
  deriving Repr

/-! ## directive tokens (`lex_next_preprocessor_token`) -/

inductive DirStep where
  | tok (t : LTok)
  | err (e : LexErr)
  /-- `None`: a `//` comment was consumed -/
  | skip
  deriving Repr

def kwOfName : String → Option PKw
  | "DefineKeyword" => some .define
  | "UndefineKeyword" => some .undef
  | "IfKeyword" => some .if_
  | "ElifKeyword" => some .elif
  | "ElseKeyword" => some .else_
  | "EndifKeyword" => some .endif
  | _ => none

/-- the `match identifier { … }` after `#`, driven by the extracted table -/
def directiveOf (ident : String) : Except LexErrKind PKw :=
  match Gen.directiveKeywords.lookup ident with
  | some name =>
    match kwOfName name with
    | some k => .ok k
    | none => if name == "MissingDirective" then .error .missingDirective else .error (.unknownDirective ident)
  | none => .error (.unknownDirective ident)

/-- the `'#'` arm: consume `#`, inline whitespace, `[A-Za-z0-9_]*`; `cur` is at the `#` -/
def lexKeyword (cur : Cur) : DirStep × Cur :=
  let start := cur.loc
  let cur := cur.adv
  let cur := cur.skipWs
  let ident := cur.rest.takeWhile isIdentChar
  let cur := cur.skipWhile isIdentChar
  match directiveOf (String.ofList ident) with
  | .ok k => (.tok ⟨start, .kw k, cur.loc⟩, cur)
  | .error e => (.err ⟨start, e, cur.loc⟩, cur)

def simpleTok (t : PTok) (cur : Cur) : DirStep × Cur :=
  let c := cur.adv
  (.tok ⟨cur.loc, t, c.loc⟩, c)

/-- one call of `lex_next_preprocessor_token(c)` with `c` the peeked character -/
def lexDirTok (c : Char) (st : LexSt) : DirStep × LexSt :=
  let cur := st.cur
  let start := cur.loc
  let ret (r : DirStep × Cur) : DirStep × LexSt := (r.1, { st with cur := r.2 })
  if c = '(' then ret (simpleTok .lpar cur)
  else if c = ')' then ret (simpleTok .rpar cur)
  else if c = '!' then ret (simpleTok .not cur)
  else if c = '&' then
    let c1 := cur.adv
    if c1.peek = some '&' then
      let c2 := c1.adv
      ret (.tok ⟨start, .and, c2.loc⟩, c2)
    else ret (.err ⟨start, .unknownSymbol "&", c1.loc⟩, c1)
  else if c = '|' then
    let c1 := cur.adv
    if c1.peek = some '|' then
      let c2 := c1.adv
      ret (.tok ⟨start, .or, c2.loc⟩, c2)
    else ret (.err ⟨start, .unknownSymbol "|", c1.loc⟩, c1)
  else if c = '#' then ret (lexKeyword cur)
  else if c = '/' then
    let c1 := cur.adv
    if c1.peek = some '/' then ret (.skip, c1.toEol)
    else ret (.err ⟨start, .unknownSymbol "/", c1.loc⟩, c1)
  else if isAsciiAlpha c then
    let ident := cur.rest.takeWhile isIdentChar
    let c1 := cur.skipWhile isIdentChar
    ret (.tok ⟨start, .ident (String.ofList ident), c1.loc⟩, c1)
  else if !isWs c then
    let c1 := cur.adv
    ret (.err ⟨start, .unknownSymbol (String.singleton c), c1.loc⟩, c1)
  else if c = '\n' then
    (.tok ⟨start, .dend, start⟩, { st with mode := .unknown })
  else (.err ⟨start, .panicWs, start⟩, st)

/-! ## `Iterator::next` -/

def mkBlock (input : List Char) (start : Option (Loc × Nat)) (endPos : Nat) (cursor : Loc) : Except LexErr LTok :=
  match start with
  | some (l, p) => .ok ⟨l, .block ⟨l, p, (input.drop p).take (endPos - p)⟩, cursor⟩
  | none => .error ⟨cursor, .panicUnwrap, cursor⟩

/-- the `while let Some(c) = peek` loop of `next` followed by the end-of-input match; `start` is the pair
    `(start_location, start_position)`; the fuel bounds the number of iterations (each consumes a character) -/
def nextLoop (input : List Char) : Nat → LexSt → Option (Loc × Nat) → Option (Except LexErr LTok) × LexSt
  | 0, st, _ => (none, st)
  | fuel + 1, st, start =>
    match st.cur.rest with
    | [] =>
      match st.mode with
      | .sourceBlock => (some (mkBlock input start input.length st.cur.loc), { st with mode := .unknown })
      | .directive => (some (.ok ⟨st.cur.loc, .dend, st.cur.loc⟩), { st with mode := .unknown })
      | .unknown => (none, st)
    | c :: _ =>
      if st.mode = .directive then
        match lexDirTok c st with
        | (.tok t, st') => (some (.ok t), st')
        | (.err e, st') => (some (.error e), st')
        | (.skip, st') => nextLoop input fuel { st' with cur := st'.cur.skipWs } start
      else if c = '\n' then
        nextLoop input fuel { st with cur := st.cur.adv.skipWs } start
      else if c = '#' then
        match st.mode with
        | .sourceBlock => (some (mkBlock input start st.cur.off st.cur.loc), { st with mode := .directive })
        | _ =>
          match lexKeyword st.cur with
          | (.tok t, cur') => (some (.ok t), { cur := cur', mode := .directive })
          | (.err e, cur') => (some (.error e), { cur := cur', mode := .directive })
          | (.skip, cur') => (none, { cur := cur', mode := .directive })
      else
        let start' := if st.mode = .unknown then some (st.cur.loc, st.cur.off) else start
        nextLoop input fuel { cur := st.cur.toEol.skipWs, mode := .sourceBlock } start'

/-- `Lexer::next` -/
def lexNext (input : List Char) (st : LexSt) : Option (Except LexErr LTok) × LexSt :=
  nextLoop input (st.cur.rest.length + 1) { st with cur := st.cur.skipWs } none

/-- drain the iterator; the first lexical error aborts (LALRPOP returns `ParseError::User` at once) -/
def lexAll (input : List Char) : Nat → LexSt → Except LexErr (List LTok)
  | 0, _ => .ok []
  | fuel + 1, st =>
    match lexNext input st with
    | (none, _) => .ok []
    | (some (.error e), _) => .error e
    | (some (.ok t), st') =>
      match lexAll input fuel st' with
      | .ok ts => .ok (t :: ts)
      | .error e => .error e

def lexInit (input : List Char) : LexSt := ⟨⟨input, 0, Loc.init⟩, .unknown⟩

/-- the located token stream of a file -/
def lexPreL (input : List Char) : Except LexErr (List LTok) :=
  lexAll input (2 * input.length + 3) (lexInit input)

def lexPre (input : List Char) : Except LexErr (List PTok) :=
  (lexPreL input).map (·.map (·.tok))

/-! ## the preprocessor AST (grammar.rs) -/

mutual
  /-- `Expression` -/
  inductive PExpr where
    | term (t : PTerm)
    | not (t : PTerm)
    | and (e : PExpr) (t : PTerm)
    | or (e : PExpr) (t : PTerm)
    deriving Repr
  /-- `Term` -/
  inductive PTerm where
    | sym (s : String)
    | paren (e : PExpr)
    deriving Repr
end

mutual
  /-- `Node`; a `Conditional` is its `#if` section followed by the chain of `#elif` sections, the optional
      `#else` section and `#endif` (`CondRest` = `elif_sections` + `else_section`) -/
  inductive Node where
    | block (b : Block)
    | define (s : String)
    | undef (s : String)
    | cond (e : PExpr) (body : Nodes) (rest : CondRest)
  /-- `Vec<Node>` -/
  inductive Nodes where
    | nil
    | cons (n : Node) (ns : Nodes)
  inductive CondRest where
    | endif
    | els (body : Nodes)
    | elif (e : PExpr) (body : Nodes) (rest : CondRest)
end

/-! ## recursive-descent parser for grammar.lalrpop

  `Expression = Term | "!" Term | Expression "&&" Term | Expression "||" Term`, `Term = identifier | "(" Expression ")"`:
  `&&` and `||` have the SAME precedence and associate to the left; `!` is only possible in front of the
  first term of an expression.  Every function consumes one unit of fuel per call. -/

mutual
  def parseTerm : Nat → List PTok → Option (PTerm × List PTok)
    | 0, _ => none
    | fuel + 1, toks =>
      match toks with
      | .ident s :: r => some (.sym s, r)
      | .lpar :: r =>
        match parseExpr fuel r with
        | some (e, .rpar :: r') => some (.paren e, r')
        | _ => none
      | _ => none
  def parseExpr : Nat → List PTok → Option (PExpr × List PTok)
    | 0, _ => none
    | fuel + 1, toks =>
      match toks with
      | .not :: r =>
        match parseTerm fuel r with
        | some (t, r') => exprLoop fuel (.not t) r'
        | none => none
      | _ =>
        match parseTerm fuel toks with
        | some (t, r') => exprLoop fuel (.term t) r'
        | none => none
  /-- after an `Expression`: shift `&&`/`||` and a `Term`, or stop -/
  def exprLoop : Nat → PExpr → List PTok → Option (PExpr × List PTok)
    | 0, _, _ => none
    | fuel + 1, acc, toks =>
      match toks with
      | .and :: r =>
        match parseTerm fuel r with
        | some (t, r') => exprLoop fuel (.and acc t) r'
        | none => none
      | .or :: r =>
        match parseTerm fuel r with
        | some (t, r') => exprLoop fuel (.or acc t) r'
        | none => none
      | _ => some (acc, toks)
end

mutual
  /-- `Node*`: stops in front of `#elif`/`#else`/`#endif` or at the end of the tokens -/
  def parseNodes : Nat → List PTok → Option (Nodes × List PTok)
    | 0, _ => none
    | fuel + 1, toks =>
      match toks with
      | [] => some (.nil, [])
      | .kw .elif :: _ => some (.nil, toks)
      | .kw .else_ :: _ => some (.nil, toks)
      | .kw .endif :: _ => some (.nil, toks)
      | _ =>
        match parseNode fuel toks with
        | some (n, r) =>
          match parseNodes fuel r with
          | some (ns, r') => some (.cons n ns, r')
          | none => none
        | none => none
  def parseNode : Nat → List PTok → Option (Node × List PTok)
    | 0, _ => none
    | fuel + 1, toks =>
      match toks with
      | .block b :: r => some (.block b, r)
      | .kw .define :: .ident s :: .dend :: r => some (.define s, r)
      | .kw .undef :: .ident s :: .dend :: r => some (.undef s, r)
      | .kw .if_ :: r =>
        match parseExpr fuel r with
        | some (e, .dend :: r1) =>
          match parseNodes fuel r1 with
          | some (body, r2) =>
            match parseRest fuel r2 with
            | some (rest, r3) => some (.cond e body rest, r3)
            | none => none
          | none => none
        | _ => none
      | _ => none
  /-- `(ElifDirective BlockContent)* (ElseDirective BlockContent)? EndifDirective` -/
  def parseRest : Nat → List PTok → Option (CondRest × List PTok)
    | 0, _ => none
    | fuel + 1, toks =>
      match toks with
      | .kw .endif :: .dend :: r => some (.endif, r)
      | .kw .else_ :: .dend :: r =>
        match parseNodes fuel r with
        | some (body, .kw .endif :: .dend :: r') => some (.els body, r')
        | _ => none
      | .kw .elif :: r =>
        match parseExpr fuel r with
        | some (e, .dend :: r1) =>
          match parseNodes fuel r1 with
          | some (body, r2) =>
            match parseRest fuel r2 with
            | some (rest, r3) => some (.elif e body rest, r3)
            | none => none
          | none => none
        | _ => none
      | _ => none
end

/-- fuel that always suffices for a token list (see `Lemmas/Preproc.lean`) -/
def parseFuel (toks : List PTok) : Nat := 4 * toks.length + 8

/-- `SliceFile = BlockContent`: the whole token stream must be consumed; any syntax error (recovered by
    `<!> directive_end` or not) makes `parse_slice_file` return `Err` -/
def parsePre (toks : List PTok) : Option Nodes :=
  match parseNodes (parseFuel toks) toks with
  | some (ns, []) => some ns
  | _ => none

/-! ## evaluation (`Expression::evaluate`, `Conditional::evaluate`, `process_nodes`) -/

abbrev Syms := List String

def Syms.insert (D : Syms) (s : String) : Syms := if D.contains s then D else D ++ [s]
def Syms.remove (D : Syms) (s : String) : Syms := D.filter (· != s)

mutual
  def PExpr.eval : PExpr → Syms → Bool
    | .term t, D => t.eval D
    | .not t, D => !t.eval D
    | .and e t, D => e.eval D && t.eval D
    | .or e t, D => e.eval D || t.eval D
  def PTerm.eval : PTerm → Syms → Bool
    | .sym s, D => D.contains s
    | .paren e, D => e.eval D
end

/-- `source_blocks` (in emission order) and `preprocessor.defined_symbols` -/
structure PState where
  blocks : List Block
  syms : Syms
  deriving Repr

mutual
  def evalNode : Node → PState → PState
    | .block b, st => { st with blocks := st.blocks ++ [b] }
    | .define s, st => { st with syms := st.syms.insert s }
    | .undef s, st => { st with syms := st.syms.remove s }
    | .cond e body rest, st => if e.eval st.syms then evalNodes body st else evalRest rest st
  /-- `process_nodes` -/
  def evalNodes : Nodes → PState → PState
    | .nil, st => st
    | .cons n ns, st => evalNodes ns (evalNode n st)
  /-- the rest of `Conditional::evaluate`: first `#elif` whose condition holds, else the `#else` block, else nothing -/
  def evalRest : CondRest → PState → PState
    | .endif, st => st
    | .els body, st => evalNodes body st
    | .elif e body rest, st => if e.eval st.syms then evalNodes body st else evalRest rest st
end

/-! ## the preprocessor as a whole -/

inductive Rejected where
  | lexical (e : LexErr)
  | syntax
  deriving Repr, DecidableEq

/-- `Preprocessor::parse_slice_file` on a fresh symbol set: the surviving blocks and the symbols defined afterwards -/
def preprocess (f : List Char) (D : Syms) : Except Rejected (List Block × Syms) :=
  match lexPre f with
  | .error e => .error (.lexical e)
  | .ok toks =>
    match parsePre toks with
    | none => .error .syntax
    | some ns =>
      let st := evalNodes ns ⟨[], D⟩
      .ok (st.blocks, st.syms)

/-- `parse_files`: every file is preprocessed with its own clone of the command-line symbols -/
def preprocessFiles (D : Syms) : List (List Char) → List (Except Rejected (List Block × Syms))
  | [] => []
  | f :: fs => preprocess f D :: preprocessFiles D fs

/-! ## SPEC: the textbook line-by-line stack machine -/

/-- an abstract line: a run of source text or one well-formed directive -/
inductive ALine where
  | src (b : Block)
  | if_ (e : PExpr)
  | elif (e : PExpr)
  | else_
  | endif
  | define (s : String)
  | undef (s : String)

/-- one open conditional: was a branch taken already, is the current branch selected, has `#else` been seen -/
structure Frame where
  taken : Bool
  active : Bool
  seenElse : Bool
  deriving Repr, DecidableEq

structure SpecSt where
  stack : List Frame
  out : PState

def allActive (stk : List Frame) : Bool := stk.all (·.active)

/-- one line; `none` = unbalanced (`#elif`/`#else`/`#endif` without an open `#if`, or after `#else`) -/
def specStep (st : SpecSt) : ALine → Option SpecSt
  | .src b => some (if allActive st.stack then { st with out := { st.out with blocks := st.out.blocks ++ [b] } } else st)
  | .define s => some (if allActive st.stack then { st with out := { st.out with syms := st.out.syms.insert s } } else st)
  | .undef s => some (if allActive st.stack then { st with out := { st.out with syms := st.out.syms.remove s } } else st)
  | .if_ e =>
    let v := e.eval st.out.syms
    some { st with stack := ⟨v, v, false⟩ :: st.stack }
  | .elif e =>
    match st.stack with
    | [] => none
    | fr :: stk =>
      if fr.seenElse then none
      else
        let v := !fr.taken && e.eval st.out.syms
        some { st with stack := ⟨fr.taken || v, v, false⟩ :: stk }
  | .else_ =>
    match st.stack with
    | [] => none
    | fr :: stk => if fr.seenElse then none else some { st with stack := ⟨true, !fr.taken, true⟩ :: stk }
  | .endif =>
    match st.stack with
    | [] => none
    | _ :: stk => some { st with stack := stk }

def specRun (st : SpecSt) : List ALine → Option SpecSt
  | [] => some st
  | l :: ls =>
    match specStep st l with
    | some st' => specRun st' ls
    | none => none

/-- the spec's verdict on a whole file given as abstract lines: `none` = unbalanced -/
def specFile (ls : List ALine) (D : Syms) : Option PState :=
  match specRun ⟨[], ⟨[], D⟩⟩ ls with
  | some ⟨[], out⟩ => some out
  | _ => none

/-! ### printing trees as lines / tokens (the inverse of the parser) -/

mutual
  def PExpr.toks : PExpr → List PTok
    | .term t => t.toks
    | .not t => .not :: t.toks
    | .and e t => e.toks ++ .and :: t.toks
    | .or e t => e.toks ++ .or :: t.toks
  def PTerm.toks : PTerm → List PTok
    | .sym s => [.ident s]
    | .paren e => .lpar :: (e.toks ++ [.rpar])
end

def ALine.toks : ALine → List PTok
  | .src b => [.block b]
  | .if_ e => .kw .if_ :: (e.toks ++ [.dend])
  | .elif e => .kw .elif :: (e.toks ++ [.dend])
  | .else_ => [.kw .else_, .dend]
  | .endif => [.kw .endif, .dend]
  | .define s => [.kw .define, .ident s, .dend]
  | .undef s => [.kw .undef, .ident s, .dend]

mutual
  def Node.lines : Node → List ALine
    | .block b => [.src b]
    | .define s => [.define s]
    | .undef s => [.undef s]
    | .cond e body rest => .if_ e :: (body.lines ++ rest.lines)
  def Nodes.lines : Nodes → List ALine
    | .nil => []
    | .cons n ns => n.lines ++ ns.lines
  def CondRest.lines : CondRest → List ALine
    | .endif => [.endif]
    | .els body => .else_ :: (body.lines ++ [.endif])
    | .elif e body rest => .elif e :: (body.lines ++ rest.lines)
end

def linesToks (ls : List ALine) : List PTok := ls.flatMap ALine.toks

/-! ### the character-level spec (executable, used by the driver to cross-check the model on every generated file) -/

/-- split at '\n' (the only row separator of the lexers); the pieces do not contain '\n' -/
def splitLines : List Char → List (List Char)
  | [] => [[]]
  | c :: cs =>
    match splitLines cs with
    | [] => [[c]]
    | l :: ls => if c = '\n' then [] :: l :: ls else (c :: l) :: ls

inductive LineKind where
  | source
  | blank
  | dir (l : ALine)
  | malformed

/-- classify one line (no '\n' inside): blank, source, a well-formed directive, or a malformed directive -/
def classify (line : List Char) : LineKind :=
  match line.dropWhile isInlineWs with
  | [] => .blank
  | c :: _ =>
    if c ≠ '#' then .source
    else
      match lexPre line with
      | .error _ => .malformed
      | .ok toks =>
        match toks with
        | [.kw .define, .ident s, .dend] => .dir (.define s)
        | [.kw .undef, .ident s, .dend] => .dir (.undef s)
        | [.kw .else_, .dend] => .dir .else_
        | [.kw .endif, .dend] => .dir .endif
        | .kw .if_ :: r =>
          match parseExpr (parseFuel r) r with
          | some (e, [.dend]) => .dir (.if_ e)
          | _ => .malformed
        | .kw .elif :: r =>
          match parseExpr (parseFuel r) r with
          | some (e, [.dend]) => .dir (.elif e)
          | _ => .malformed
        | _ => .malformed

/-- a located character -/
abbrev LChar := Nat × Nat × Char

/-- the non-whitespace characters of row `row` with their columns -/
def locatedLine (row : Nat) (line : List Char) : List LChar :=
  let rec go : List Char → Nat → List LChar
    | [], _ => []
    | c :: cs, col => if isWs c then go cs (col + 1) else (row, col, c) :: go cs (col + 1)
  go line 1

/-- the non-whitespace characters of a block with their locations (what the Slice lexer will see) -/
def locatedBlock (b : Block) : List LChar :=
  let rec go : List Char → Loc → List LChar
    | [], _ => []
    | c :: cs, l => if isWs c then go cs (advance l c) else (l.row, l.col, c) :: go cs (advance l c)
  go b.content b.start

structure CSpecSt where
  stack : List Frame
  syms : Syms
  out : List LChar

/-- the stack machine over the raw lines of a file; `none` = rejected (malformed directive or unbalanced) -/
def cspecRun : List (List Char) → Nat → CSpecSt → Option CSpecSt
  | [], _, st => if st.stack.isEmpty then some st else none
  | line :: rest, row, st =>
    match classify line with
    | .blank => cspecRun rest (row + 1) st
    | .source => cspecRun rest (row + 1) (if allActive st.stack then { st with out := st.out ++ locatedLine row line } else st)
    | .malformed => none
    | .dir l =>
      match specStep ⟨st.stack, ⟨[], st.syms⟩⟩ l with
      | some st' => cspecRun rest (row + 1) { st with stack := st'.stack, syms := st'.out.syms }
      | none => none

/-- SPEC of a whole file: the located non-whitespace characters of the selected source lines and the final symbols -/
def cspecFile (f : List Char) (D : Syms) : Option (List LChar × Syms) :=
  match cspecRun (splitLines f) 1 ⟨[], D, []⟩ with
  | some st => some (st.out, st.syms)
  | none => none

end Slicec.Pp
