/-
  Model of the `slicec` binary's driver (C07, C18):
    lib.rs `compile_from_options` / `compile_files`, compilation_state.rs `apply`,
    patchers/mod.rs `patch_ast`, validators/mod.rs `validate_ast`          → `compilePhases`
    main.rs `main`, `spawn_plugin_process`, `collect_plugin_output`,
    `handle_generator_response`, `write_generated_file`,
    `convert_generator_error_to_diagnostic`                                 → `mainFlow`
    diagnostics/diagnostic.rs `has_errors`, `into_updated`, `get_totals`    → `hasErrors`, `Diag.level`, `countErrors`

  What is abstract: the diagnostics each compilation phase emits when it runs (`PhaseOutcomes`), the
  encoded request (`Option Bytes`: `None` = `encode_generate_code_request` failed), what every generator
  process does (`Behaviour`) and the file system (`FileSystem`). Everything else — which phase runs, the
  guard in front of the generator block, spawn-all-then-collect, stderr/status/signal classification,
  reply decoding before the first write, compare-before-write, one E001 per failed generator,
  `into_updated`, totals, exit status — is the Rust control flow, guard by guard.

  Read from the source on every run (`Gen.DriverShape`, translator/extract.py): the conjuncts of the guard
  (`guardOpen` interprets them), the phase calls in order with their gates (`phaseRows`, `allPhases`), the
  arms of `match output.status.code()` and the stderr check in front of it (`collect`).
-/
import SlicecVerif.Model.Reply
import SlicecVerif.Gen.DriverShape

namespace Slicec.Driver

/-- paths travel as UTF-8 bytes (the Rust side uses `String`s) -/
abbrev Path := Bytes

/-- the `action` of `Error::IO` ("unable to <action> '<path>': <error>") -/
inductive IoAction where
  | read            -- "read"                 (file_util.rs)
  | runGenerator    -- "run code-generator"   (main.rs convert_generator_error_to_diagnostic)
  | writeGenerated  -- "write generated file" (main.rs handle_generator_response)
  deriving DecidableEq, Repr

/-- a diagnostic, as far as the driver looks at it: `DiagnosticKind::Error` (E001 with its action and
    path, or any other error by code) or `DiagnosticKind::Lint` (with whether an `allow` attribute of
    its file or scope covers it — that is all `into_updated` asks the AST). -/
inductive Diag where
  | io (action : IoAction) (path : Path)
  | error (code : String)
  | lint (code : String) (allowedByAttribute : Bool)
  deriving DecidableEq, Repr

/-- `matches!(diagnostic.kind, DiagnosticKind::Error(_))` -/
def Diag.isError : Diag → Bool
  | .io _ _ => true
  | .error _ => true
  | .lint _ _ => false

def Diag.code : Diag → String
  | .io _ _ => "E001"
  | .error c => c
  | .lint c _ => c

/-- `Diagnostics::has_errors` -/
def hasErrors (ds : List Diag) : Bool := ds.any Diag.isError

inductive DLevel where
  | error | warning | allowed
  deriving DecidableEq, Repr

/-- `is_lint_allowed_by(options.allowed_lints.iter(), lint)`: compared with `==`, case-sensitively -/
def allowedByCli (allowed : List String) (code : String) : Bool :=
  allowed.any (fun a => a == "All" || a == code)

/-- level after `into_updated`: errors keep `Error`; every lint starts as `Warning`
    (`get_default_level`) and becomes `Allowed` by the command line or by an attribute. -/
def Diag.level (allowed : List String) : Diag → DLevel
  | .io _ _ => .error
  | .error _ => .error
  | .lint c attr => if allowedByCli allowed c || attr then .allowed else .warning

/-! ## compilation phases -/

inductive Phase where
  | resolve | parse | attributes | typeRefs | links | cycles | redefinitions | visitor
  deriving DecidableEq, Repr

def phaseOfName : String → Option Phase
  | "resolve" => some .resolve
  | "parse" => some .parse
  | "attributes" => some .attributes
  | "typeRefs" => some .typeRefs
  | "links" => some .links
  | "cycles" => some .cycles
  | "redefinitions" => some .redefinitions
  | "visitor" => some .visitor
  | _ => none

/-- the phase calls of lib.rs / patchers / validators in source order (`Gen.driverPhases`), with whether
    the source lets the phase run only if no error was reported so far -/
def phaseRows : List (Phase × Bool) :=
  Gen.driverPhases.filterMap fun r => (phaseOfName r.1).map fun p => (p, r.2 == "if-clean")

def allPhases : List Phase := phaseRows.map (·.1)

def Phase.idx : Phase → Nat
  | .resolve => 0 | .parse => 1 | .attributes => 2 | .typeRefs => 3 | .links => 4
  | .cycles => 5 | .redefinitions => 6 | .visitor => 7

/-- what each phase emits when it runs (`parse`: one list per file, every file is parsed) -/
structure PhaseOutcomes where
  resolve : List Diag
  parse : List (List Diag)
  attributes : List Diag
  typeRefs : List Diag
  links : List Diag
  cycles : List Diag
  redefinitions : List Diag
  visitor : List Diag

def PhaseOutcomes.out (o : PhaseOutcomes) : Phase → List Diag
  | .resolve => o.resolve
  | .parse => o.parse.flatten
  | .attributes => o.attributes
  | .typeRefs => o.typeRefs
  | .links => o.links
  | .cycles => o.cycles
  | .redefinitions => o.redefinitions
  | .visitor => o.visitor

/-- `CompilationState.diagnostics` plus a ghost log of the phases that ran -/
structure CompileState where
  diags : List Diag
  ran : List Phase
  deriving DecidableEq, Repr

def runPhase (o : PhaseOutcomes) (p : Phase) (s : CompileState) : CompileState :=
  ⟨s.diags ++ o.out p, s.ran ++ [p]⟩

/-- `CompilationState::apply` / `apply_unsafe` -/
def applyFn (f : CompileState → CompileState) (s : CompileState) : CompileState :=
  if !hasErrors s.diags then f s else s

/-- `patchers::patch_ast`: three gated sub-phases -/
def patchAst (o : PhaseOutcomes) (s : CompileState) : CompileState :=
  let s := applyFn (runPhase o .attributes) s
  let s := applyFn (runPhase o .typeRefs) s
  applyFn (runPhase o .links) s

/-- `validators::validate_ast`: cycle gate, redefinition gate, visitor -/
def validateAst (o : PhaseOutcomes) (s : CompileState) : CompileState :=
  let s := runPhase o .cycles s
  if hasErrors s.diags then s
  else
    let s := runPhase o .redefinitions s
    if hasErrors s.diags then s
    else runPhase o .visitor s

/-- `compile_files`: parse every file, then `apply_unsafe(patch_ast)`, then `apply(validate_ast)` -/
def compileFiles (o : PhaseOutcomes) (s : CompileState) : CompileState :=
  let s := runPhase o .parse s
  let s := applyFn (patchAst o) s
  applyFn (validateAst o) s

/-- `compile_from_options` -/
def compilePhases (o : PhaseOutcomes) : CompileState :=
  let s := runPhase o .resolve ⟨[], []⟩
  if !hasErrors s.diags then compileFiles o s else s

/-! ## generators -/

/-- `Plugin` -/
structure Generator where
  path : Path
  args : List (Bytes × Bytes)
  deriving DecidableEq, Repr

/-- everything the environment can answer for one generator process -/
inductive Behaviour where
  | spawnError                                       -- `Command::spawn` failed (ENOENT, EACCES, …): no process
  | stdinError                                       -- a `write_all` to the child's stdin failed (EPIPE)
  | waitError                                        -- `wait_with_output` failed
  | exited (code : Nat) (stderr stdout : Bytes)      -- `status.code() == Some(code)`
  | signalled (stderr stdout : Bytes)                -- `status.code() == None`
  deriving DecidableEq, Repr

inductive GenFailure where
  | spawn | stdin | argsEncoding | wait
  | stderrOutput            -- "errors reported on 'stderr'"
  | status (code : Nat)     -- "failed with status code 'N'"
  | interrupted             -- ErrorKind::Interrupted
  | undecodable (e : DErr)  -- the reply did not decode
  deriving DecidableEq, Repr

/-- `definition_types::Arguments::encode_into`: `encode_size(len)` then key, value strings per pair -/
def encArguments (args : List (Bytes × Bytes)) : Option Bytes :=
  encode (.dictH .str .str) args

structure GenRun where
  gen : Generator
  beh : Behaviour
  deriving DecidableEq, Repr

/-- what `spawn_plugin_process` leaves behind for one generator -/
structure Spawned where
  gen : Generator
  /-- `Some(bytes)` when a process exists: the bytes offered on its stdin, in write order -/
  stdin : Option Bytes
  /-- `Ok(child)` (here: the behaviour the child will show) or the `Err` returned -/
  proc : Except GenFailure Behaviour

/-- `spawn_plugin_process`: spawn, write the payload, encode and write the arguments -/
def spawnGen (payload : Bytes) (g : GenRun) : Spawned :=
  match g.beh with
  | .spawnError => ⟨g.gen, none, .error .spawn⟩
  | b =>
    match encArguments g.gen.args with
    | none => ⟨g.gen, some payload, .error .argsEncoding⟩
    | some a =>
      match b with
      | .stdinError => ⟨g.gen, some (payload ++ a), .error .stdin⟩
      | b => ⟨g.gen, some (payload ++ a), .ok b⟩

def statusPatMatches (p : Gen.StatusPat) (st : Option Nat) : Bool :=
  match p, st with
  | .code n, some m => n == m
  | .anyCode, some _ => true
  | .noCode, none => true
  | .any, _ => true
  | _, _ => false

/-- `match output.status.code()`: is the first arm that matches `Ok(output.stdout)`? (`Gen.collectArms`) -/
def statusAccepted (st : Option Nat) : Bool :=
  match Gen.collectArms.find? (fun r => r.1.any (statusPatMatches · st)) with
  | some r => r.2
  | none => false

/-- `collect_plugin_output`: non-empty stderr first (`Gen.collectStderrCheck`), then the status arms -/
def collect : Behaviour → Except GenFailure Bytes
  | .spawnError => .error .spawn      -- not reachable through `spawnGen`
  | .stdinError => .error .stdin      -- not reachable through `spawnGen`
  | .waitError => .error .wait
  | .exited code stderr stdout =>
    if Gen.collectStderrCheck && !stderr.isEmpty then .error .stderrOutput
    else if statusAccepted (some code) then .ok stdout
    else .error (.status code)
  | .signalled stderr stdout =>
    if Gen.collectStderrCheck && !stderr.isEmpty then .error .stderrOutput
    else if statusAccepted none then .ok stdout
    else .error .interrupted

/-! ## file system -/

/-- regular files by path string, and the paths on which `File::create` fails (parent missing, parent
    not a directory, path is a directory, …). Generators' files never create directories, so the second
    component does not change during a run. Distinct path strings are taken to be distinct files. -/
structure FileSystem where
  files : Path → Option Bytes
  unwritable : Path → Bool

def FileSystem.write (fs : FileSystem) (p : Path) (c : Bytes) : FileSystem :=
  { fs with files := fun q => if q = p then some c else fs.files q }

def slash : UInt8 := 0x2F

def isAbsolute (p : Path) : Bool := p.head? == some slash

/-- `PathBuf::from(dir).join(p)` on Unix: an absolute `p` replaces `dir`; otherwise a separator is
    inserted unless `dir` is empty or already ends with one. -/
def joinPath (dir p : Path) : Path :=
  if isAbsolute p then p
  else if dir.isEmpty || dir.getLast? == some slash then dir ++ p
  else dir ++ [slash] ++ p

def targetPath (outDir : Option Path) (p : Path) : Path :=
  match outDir with
  | some d => joinPath d p
  | none => p

/-- the observable world the generator block acts on; `writes` logs every `File::create` + `write_all`
    that was carried out, `printed` the generator diagnostics that were `println!`ed -/
structure World where
  fs : FileSystem
  writes : List (Path × Bytes)
  printed : List Bytes

inductive WriteResult where
  | untouched | written | failed
  deriving DecidableEq, Repr

/-- `write_generated_file` -/
def writeGenerated (outDir : Option Path) (w : World) (f : GenFile) : World × WriteResult :=
  let p := targetPath outDir f.path
  if w.fs.files p = some f.contents then (w, .untouched)
  else if w.fs.unwritable p then (w, .failed)
  else ({ w with fs := w.fs.write p f.contents, writes := w.writes ++ [(p, f.contents)] }, .written)

/-- the `for generated_file in &generated_files` loop of `handle_generator_response`: a failed write
    becomes an E001 "write generated file" naming the file's path as the generator spelled it; the loop
    goes on with the next file. -/
def writeFiles (outDir : Option Path) : List GenFile → World → World × List Diag
  | [], w => (w, [])
  | f :: rest, w =>
    let r1 := writeGenerated outDir w f
    let r2 := writeFiles outDir rest r1.1
    (r2.1, (if r1.2 = .failed then [Diag.io .writeGenerated f.path] else []) ++ r2.2)

/-- `handle_generator_response`: BOTH sequences are decoded before anything else happens (trailing
    bytes are ignored); generator diagnostics are only printed. -/
def handleReply (outDir : Option Path) (w : World) (stdout : Bytes) : Except GenFailure (World × List Diag) :=
  match decReply stdout with
  | .error e => .error (.undecodable e)
  | .ok ((files, gdiags), _) =>
    .ok (writeFiles outDir files { w with printed := w.printed ++ gdiags.map (·.message) })

/-- one iteration of the collection loop:
    `process.and_then(collect).and_then(handle).unwrap_or_else(convert_generator_error_to_diagnostic)` -/
def collectOne (outDir : Option Path) (w : World) (s : Spawned) : World × List Diag :=
  match s.proc with
  | .error _ => (w, [Diag.io .runGenerator s.gen.path])
  | .ok b =>
    match collect b with
    | .error _ => (w, [Diag.io .runGenerator s.gen.path])
    | .ok stdout =>
      match handleReply outDir w stdout with
      | .error _ => (w, [Diag.io .runGenerator s.gen.path])
      | .ok r => r

/-- `for (generator, generator_process) in generator_processes { …; diagnostics.extend(…) }` -/
def collectAll (outDir : Option Path) : List Spawned → World → World × List Diag
  | [], w => (w, [])
  | s :: rest, w =>
    let r1 := collectOne outDir w s
    let r2 := collectAll outDir rest r1.1
    (r2.1, r1.2 ++ r2.2)

/-! ## main -/

structure Options where
  dryRun : Bool
  outputDir : Option Path
  allowedLints : List String

structure Result where
  status : Nat
  /-- the diagnostics handed to the emitter, with their level after `into_updated`
      (`Allowed` ones are not printed); empty on the exit-79 path, which returns before emitting -/
  diags : List (Diag × DLevel)
  /-- generators for which `Command::spawn` was called, in order -/
  attempted : List Generator
  /-- generators for which a process existed, with the bytes offered on its stdin -/
  requests : List (Generator × Bytes)
  world : World

/-- `get_totals(..).1` -/
def countErrors (ds : List (Diag × DLevel)) : Nat := (ds.filter (fun d => d.2 = .error)).length

/-- `into_updated` → `get_totals` → emit → exit status -/
def finish (opts : Options) (diags : List Diag) (attempted : List Generator)
    (requests : List (Generator × Bytes)) (w : World) : Result :=
  let updated := diags.map (fun d => (d, d.level opts.allowedLints))
  { status := if countErrors updated = 0 then 0 else 1, diags := updated,
    attempted := attempted, requests := requests, world := w }

def requestsOf (procs : List Spawned) : List (Generator × Bytes) :=
  procs.filterMap (fun s => s.stdin.map (fun b => (s.gen, b)))

/-- one conjunct of the condition in front of the generator block, as spelled in main.rs -/
def evalGuardAtom (opts : Options) (compiled : List Diag) : String → Option Bool
  | "!diagnostics.has_errors()" => some (!hasErrors compiled)
  | "!slice_options.dry_run" => some (!opts.dryRun)
  | _ => none   -- a conjunct this model does not know: the guard is then taken to be closed

/-- the condition in front of the generator block: the conjunction read from main.rs (`Gen.driverGuard`) -/
def guardOpen (opts : Options) (compiled : List Diag) : Bool :=
  Gen.driverGuard.all fun a => evalGuardAtom opts compiled a == some true

/-- `main` after option parsing. `compiled` = `compilation_state.diagnostics`, `request` = the result of
    `encode_generate_code_request`, `gens` = `slice_options.generators` with what each will do. -/
def mainFlow (opts : Options) (compiled : List Diag) (request : Option Bytes) (gens : List GenRun)
    (fs : FileSystem) : Result :=
  let w0 : World := ⟨fs, [], []⟩
  if guardOpen opts compiled then
    match request with
    | none => { status := 79, diags := [], attempted := [], requests := [], world := w0 }
    | some payload =>
      let procs := gens.map (spawnGen payload)            -- all spawned first …
      let r := collectAll opts.outputDir procs w0            -- … then collected in order
      finish opts (compiled ++ r.2) (gens.map (·.gen)) (requestsOf procs) r.1
  else finish opts compiled [] [] w0

/-- the whole program: compilation phases, then `main` -/
def runDriver (opts : Options) (o : PhaseOutcomes) (request : Option Bytes) (gens : List GenRun)
    (fs : FileSystem) : Result :=
  mainFlow opts (compilePhases o).diags request gens fs

/-! ## per-generator view used by the C18 statements -/

/-- the reply of a generator, if the driver gets to trust it: process started, arguments encoded, stdin
    written, exit status 0, empty stderr, reply decodes -/
def genReply (g : GenRun) : Except GenFailure (List GenFile × List GDiag) :=
  match g.beh with
  | .spawnError => .error .spawn
  | b =>
    match encArguments g.gen.args with
    | none => .error .argsEncoding
    | some _ =>
      match b with
      | .stdinError => .error .stdin
      | b =>
        match collect b with
        | .error e => .error e
        | .ok stdout =>
          match decReply stdout with
          | .error e => .error (.undecodable e)
          | .ok (r, _) => .ok r

def GenRun.failed (g : GenRun) : Bool :=
  match genReply g with
  | .ok _ => false
  | .error _ => true

def GenRun.files (g : GenRun) : List GenFile :=
  match genReply g with
  | .ok (fs, _) => fs
  | .error _ => []

def GenRun.messages (g : GenRun) : List Bytes :=
  match genReply g with
  | .ok (_, ds) => ds.map (·.message)
  | .error _ => []

end Slicec.Driver
