/-
  Locations of the Slice lexer's tokens (slicec/src/parsers/slice/lexer.rs), C09.

  `Model/SliceLexer.lean` models WHAT the lexer returns; this file adds WHERE: the lexer's `cursor`, moved by
  `advance_buffer` for every consumed character (`'\n'`: next row, column 1; any other character — tab, CR,
  multi-byte — one column: `Slicec.advance`, the same rule the printer uses), and the two locations every token /
  error is returned with (`Some(Ok((start, token, end)))`).  All definitions here are new; none of the definitions of
  `Model/SliceLexer.lean` is changed, and dropping the locations gives them back (`lexNextLoc_step`,
  `lexRunLoc_erase`, `lexSliceLoc_erase` in Lemmas/SliceLexerLoc.lean).

  What the Rust code does, arm by arm (`let start_location = self.cursor;` is taken before anything is consumed):
  * every token and every error is returned with `end = self.cursor` at the time of the `return`;
  * `start = start_location` for every token and error, so an escaped identifier starts AT its backslash, a string
    literal at its opening quote (and ends after the closing one), two-character tokens at their first character,
  * except `DocComment`: `content_start_loc` is the cursor AFTER the three slashes, and the end is the cursor at the end of
    the line (in front of the `'\n'`; a `'\r'` before it is stripped from the text but has been walked over);
  * an unterminated string ends in front of the line break (or at the end of the block), an unterminated block comment at
    the end of the block, a lone `/` or `\` after that character.
  One source block; its start location is a parameter (`lexSliceLoc` = a block starting at 1:1, the hook's case).

  Second part: `trace`, the printer's (`Model/Print.lean` `render`) own bookkeeping read as a located token list —
  what the theorems of Props/C09.lean compare the lexer with.
-/
import SlicecVerif.Model.SliceLexer

namespace Slicec.SLex

open Slicec

/-! ## the cursor in the scanning helpers -/

/-- the loops `while matches!(self.buffer.peek(), Some((_, c)) if p(c)) { self.advance_buffer() }`
    (`skip_whitespace`, `read_alphanumeric`, `advance_to_end_of_line`): the cursor when the loop ends -/
def advWhile (p : Char → Bool) : Loc → List Char → Loc
  | cur, [] => cur
  | cur, c :: cs => if p c then advWhile p (advance cur c) cs else cur

/-- `read_string_literal` after the opening quote (see `readString`), with the cursor: every character walked over
    is consumed with `advance_buffer`; on `'\n'` the function returns without consuming it -/
def readStringLoc : Bool → Loc → List Char → Option (List Char) × List Char × Loc
  | _, cur, [] => (none, [], cur)
  | esc, cur, c :: cs =>
    if c == '\n' then (none, c :: cs, cur)
    else if esc then
      let r := readStringLoc false (advance cur c) cs
      (r.1.map (c :: ·), r.2.1, r.2.2)
    else if c == '"' then (some [], cs, advance cur c)
    else
      let r := readStringLoc (c == '\\') (advance cur c) cs
      (r.1.map (c :: ·), r.2.1, r.2.2)

/-- `consume_block_comment` after the opening `/*` (see `consumeBlock`), with the cursor -/
def consumeBlockLoc : Bool → Loc → List Char → Option (List Char) × Loc
  | _, cur, [] => (none, cur)
  | star, cur, c :: cs =>
    if c == '/' && star then (some cs, advance cur c) else consumeBlockLoc (c == '*') (advance cur c) cs

/-! ## one call of `lex_next_slice_token` -/

/-- one call, located: what the call returned and left (`step`, as in the unlocated model), the start location the
    token / error is tagged with, and `self.cursor` after the call — which is also the END location of the token /
    error (every arm returns `self.cursor`) -/
structure LStep where
  step : Step
  start : Loc
  cur : Loc
  deriving DecidableEq, Repr, Inhabited

/-- `return_simple_token` -/
def simpleLoc (t : SliceTok) (attr : Bool) (cur : Loc) (c : Char) (cs : List Char) : LStep :=
  ⟨⟨.tok t, cs, attr⟩, cur, advance cur c⟩

/-- the arms `[`/`[[`, `]`/`]]`, `:`/`::`, `-`/`->` (`c` is the first character) -/
def lexPairLoc (second : Char) (single double : SliceTok) (attr : Bool) (cur : Loc) (c : Char) (cs : List Char) : LStep :=
  let cur1 := advance cur c
  match cs with
  | d :: rest => if d == second then ⟨⟨.tok double, rest, attr⟩, cur, advance cur1 d⟩ else ⟨⟨.tok single, cs, attr⟩, cur, cur1⟩
  | [] => ⟨⟨.tok single, [], attr⟩, cur, cur1⟩

/-- the `'"'` arm: the token runs from the opening quote to after the closing one; the error ends where the scan stopped -/
def lexStringLoc (attr : Bool) (cur : Loc) (cs : List Char) : LStep :=
  match readStringLoc false (advance cur '"') cs with
  | (some s, rest, cur') => ⟨⟨.tok (.strLit s), rest, attr⟩, cur, cur'⟩
  | (none, rest, cur') => ⟨⟨.err .unterminatedString, rest, attr⟩, cur, cur'⟩

/-- the `'/'` arm after `//` was consumed (`cur2` = the cursor there, `start` = `start_location`): a doc comment is
    returned with `content_start_loc`, the cursor after the third slash -/
def lexLineCommentLoc (attr : Bool) (start cur2 : Loc) (r2 : List Char) : LStep :=
  match r2 with
  | '/' :: r3 =>
    let cur3 := advance cur2 '/'
    match r3 with
    | '/' :: _ => ⟨⟨.skip .lineComment, r3.dropWhile (· != '\n'), attr⟩, start, advWhile (· != '\n') cur3 r3⟩
    | _ => ⟨⟨.tok (.doc (stripCr (r3.takeWhile (· != '\n')))), r3.dropWhile (· != '\n'), attr⟩, cur3,
            advWhile (· != '\n') cur3 r3⟩
  | _ => ⟨⟨.skip .lineComment, r2.dropWhile (· != '\n'), attr⟩, start, advWhile (· != '\n') cur2 r2⟩

/-- the `'/'` arm -/
def lexSlashLoc (attr : Bool) (cur : Loc) (cs : List Char) : LStep :=
  let cur1 := advance cur '/'
  match cs with
  | '/' :: r2 => lexLineCommentLoc attr cur (advance cur1 '/') r2
  | '*' :: r2 =>
    match consumeBlockLoc false (advance cur1 '*') r2 with
    | (some rest, cur') => ⟨⟨.skip .blockComment, rest, attr⟩, cur, cur'⟩
    | (none, cur') => ⟨⟨.err .unterminatedBlockComment, [], attr⟩, cur, cur'⟩
  | _ => ⟨⟨.err (.unknownSymbol ['/'] (some "//")), cs, attr⟩, cur, cur1⟩

/-- the `'\\'` arm: the identifier token starts at the backslash -/
def lexBackslashLoc (attr : Bool) (cur : Loc) (cs : List Char) : LStep :=
  let cur1 := advance cur '\\'
  match cs with
  | d :: _ =>
    if d.isAlpha then ⟨⟨.tok (.ident (cs.takeWhile isWordChar)), cs.dropWhile isWordChar, attr⟩, cur, advWhile isWordChar cur1 cs⟩
    else ⟨⟨.err (.unknownSymbol ['\\'] (some "\\<identifier>")), cs, attr⟩, cur, cur1⟩
  | [] => ⟨⟨.err (.unknownSymbol ['\\'] (some "\\<identifier>")), cs, attr⟩, cur, cur1⟩

/-- the `is_ascii_alphabetic` arm (`read_alphanumeric` starts at the peeked character `c`) -/
def lexWordLoc (attr : Bool) (cur : Loc) (c : Char) (cs : List Char) : LStep :=
  ⟨⟨.tok (if attr then .ident (c :: cs.takeWhile isWordChar) else checkKeyword (c :: cs.takeWhile isWordChar)),
    cs.dropWhile isWordChar, attr⟩, cur, advWhile isWordChar (advance cur c) cs⟩

/-- the `is_ascii_digit` arm -/
def lexIntegerLoc (attr : Bool) (cur : Loc) (c : Char) (cs : List Char) : LStep :=
  ⟨⟨.tok (.intLit (c :: cs.takeWhile isWordChar)), cs.dropWhile isWordChar, attr⟩, cur, advWhile isWordChar (advance cur c) cs⟩

/-- the `is_whitespace` arm -/
def lexWhitespaceLoc (attr : Bool) (cur : Loc) (c : Char) (cs : List Char) : LStep :=
  ⟨⟨.skip .whitespace, cs.dropWhile isWs, attr⟩, cur, advWhile isWs (advance cur c) cs⟩

/-- `lex_next_slice_token(c)` with `self.cursor = cur` on entry -/
def lexNextLoc (attr : Bool) (cur : Loc) (c : Char) (cs : List Char) : LStep :=
  match simpleTok c with
  | some t => simpleLoc t attr cur c cs
  | none =>
    if c == '[' then lexPairLoc '[' .lbracket .dlbracket true cur c cs
    else if c == ']' then lexPairLoc ']' .rbracket .drbracket false cur c cs
    else if c == ':' then lexPairLoc ':' .colon .dcolon attr cur c cs
    else if c == '-' then lexPairLoc '>' .minus .arrow attr cur c cs
    else if c == '"' then lexStringLoc attr cur cs
    else if c == '/' then lexSlashLoc attr cur cs
    else if c == '\\' then lexBackslashLoc attr cur cs
    else if c.isAlpha then lexWordLoc attr cur c cs
    else if c.isDigit then lexIntegerLoc attr cur c cs
    else if isWs c then lexWhitespaceLoc attr cur c cs
    else ⟨⟨.err (.unknownSymbol [c] none), cs, attr⟩, cur, advance cur c⟩

/-! ## the whole block -/

/-- one element of the lexer's output stream with the locations it is returned with -/
structure LLexItem where
  item : LexItem
  start : Loc
  stop : Loc
  deriving DecidableEq, Repr, Inhabited

/-- what the call hands to the parser: nothing for skipped text, otherwise `(start, token | error, self.cursor)` -/
def LStep.items (s : LStep) : List LLexItem := s.step.res.items.map fun i => ⟨i, s.start, s.cur⟩

structure LexRunLoc where
  items : List LLexItem
  attr : Bool
  last : EndClass
  cur : Loc              -- `self.cursor` when the block is exhausted
  deriving DecidableEq, Repr, Inhabited

/-- the loop of `Iterator::next` over one block whose start location is `cur` (see `lexRunF`) -/
def lexRunLocF : Nat → Bool → Loc → List Char → LexRunLoc
  | 0, a, cur, _ => ⟨[], a, .closed, cur⟩
  | _ + 1, a, cur, [] => ⟨[], a, .closed, cur⟩
  | n + 1, a, cur, c :: cs =>
    let s := lexNextLoc a cur c cs
    let r := lexRunLocF n s.step.attr s.cur s.step.rest
    ⟨s.items ++ r.items, r.attr, if s.step.rest.isEmpty then s.step.res.endClass else r.last, r.cur⟩

def lexRunLoc (attr : Bool) (cur : Loc) (cs : List Char) : LexRunLoc := lexRunLocF cs.length attr cur cs

/-- forgetting the locations -/
def LexRunLoc.erase (R : LexRunLoc) : LexRun := ⟨R.items.map (·.item), R.attr, R.last⟩

/-- a token with the locations it is returned with -/
structure LTok where
  tok : SliceTok
  start : Loc
  stop : Loc
  deriving DecidableEq, Repr, Inhabited

def LTok.toItem (t : LTok) : LLexItem := ⟨.tok t.tok, t.start, t.stop⟩

/-- where the token's SPELLING starts: a doc comment is returned without its `///` (`create_doc_comment` moves the
    start back by these three columns), every other token starts where its spelling starts -/
def LTok.spellStart (t : LTok) : Loc :=
  match t.tok with
  | .doc _ => ⟨t.start.row, t.start.col - 3⟩
  | _ => t.start

/-- the start location a token is returned with when the call that produced it was entered with the cursor `cur`:
    `start_location`, except for a doc comment (`content_start_loc`, after the three slashes) -/
def SliceTok.startAt (t : SliceTok) (cur : Loc) : Loc :=
  match t with
  | .doc _ => ⟨cur.row, cur.col + 3⟩
  | _ => cur

/-- what the parser sees: the located tokens, or the first error with its locations -/
inductive LexResultLoc where
  | ok (ts : List LTok)
  | error (e : LexErr) (start stop : Loc)
  deriving DecidableEq, Repr, Inhabited

def collectLoc : List LLexItem → LexResultLoc
  | [] => .ok []
  | ⟨.err e, a, b⟩ :: _ => .error e a b
  | ⟨.tok t, a, b⟩ :: r =>
    match collectLoc r with
    | .ok ts => .ok (⟨t, a, b⟩ :: ts)
    | .error e x y => .error e x y

def LexResultLoc.erase : LexResultLoc → LexResult
  | .ok ts => .ok (ts.map (·.tok))
  | .error e _ _ => .error e

/-- the Slice lexer on one source block that starts at `cur` -/
def lexSliceLocAt (cur : Loc) (cs : List Char) : LexResultLoc := collectLoc (lexRunLoc false cur cs).items

/-- the Slice lexer on a file that is one source block (start 1:1) -/
def lexSliceLoc (cs : List Char) : LexResultLoc := lexSliceLocAt ⟨1, 1⟩ cs

/-- the located tokens of an output stream (errors dropped) -/
def toksLocOf : List LLexItem → List LTok
  | [] => []
  | ⟨.tok t, a, b⟩ :: r => ⟨t, a, b⟩ :: toksLocOf r
  | ⟨.err _, _, _⟩ :: r => toksLocOf r


/-- the source characters a token is spelled with: what must stand between its start and end locations.
    A doc comment's extent starts after its `///`; the text of the token is the rest of the line without a final CR. -/
def spells (t : SliceTok) (mid : List Char) : Prop :=
  match t with
  | .ident w => mid = w ∨ mid = '\\' :: w
  | .strLit s => mid = '"' :: (s ++ ['"'])
  | .intLit w => mid = w
  | .doc d => ∃ x, mid = '/' :: '/' :: '/' :: x ∧ stripCr x = d
  | .kw k => Gen.sliceKeywords.lookup (String.ofList mid) = some k
  | .lparen => mid = ['('] | .rparen => mid = [')'] | .lbracket => mid = ['['] | .rbracket => mid = [']']
  | .dlbracket => mid = ['[', '['] | .drbracket => mid = [']', ']'] | .lbrace => mid = ['{'] | .rbrace => mid = ['}']
  | .lchevron => mid = ['<'] | .rchevron => mid = ['>'] | .comma => mid = [','] | .colon => mid = [':']
  | .dcolon => mid = [':', ':'] | .equals => mid = ['='] | .qmark => mid = ['?'] | .arrow => mid = ['-', '>']
  | .minus => mid = ['-']


/-! ## the printer's bookkeeping, read as a located token list

  `trace` runs `render`'s fold (`renderItem`, unchanged) and notes next to it, for every item that writes text, the
  located tokens that text stands for, using only what the printer itself recorded:
  * the location `emitTok` notes as `start` (`st.loc` before the item) and the one it notes as `stop` (`lastEnd` after);
  * an `ident` item is ONE identifier token from `start` to `stop` — backslash included when the layout wrote one;
  * a written optional comma is one `Comma` token from `start` to `stop`; an unwritten one is nothing;
  * a `tok s` / `docLine s` item is its own spelling read on its own from `start` in the attribute mode reached so far
    (`lexRunLoc attr start s`): for every spelling consumed by one call of the lexer that is the single token
    `(start, stop)` — for a doc line `(start + 3 columns, stop)` — see `one_call_extent`; a scoped name `A::\B::C` is one
    item but several tokens, the first of which starts at `start` and the last of which ends at `stop`;
  and it redoes the span bookkeeping of `render` on token INDICES: `op p` waits for the next token and remembers
  its index, `cl p` closes with the index of the last token so far.  `spanTokens` therefore names, for every reported
  span, the first token after its `op` marker and the last token before its `cl` marker. -/

structure Trace where
  st : LState                          -- the printer's state
  attr : Bool                          -- `attribute_mode` after the text written so far
  toks : List LTok                     -- located tokens of the text written so far
  opened : List (String × Nat)         -- open elements with the index of their first own token
  spans : List (String × Nat × Nat)    -- closed elements: (path, first own token, last own token), reversed

/-- an item wrote text that stands for the tokens `new`: they are appended; the elements waiting for their first
    token get the index of the first of them -/
def Trace.emit (T : Trace) (st' : LState) (attr' : Bool) (new : List LTok) : Trace :=
  { st := st', attr := attr', toks := T.toks ++ new,
    opened := T.st.pendingOpen.map (fun p => (p, T.toks.length)) ++ T.opened, spans := T.spans }

def traceStep (style : Nat) (T : Trace) (it : Item) : Trace :=
  let st' := renderItem style T.st it
  match it with
  | .tok s =>
    let R := lexRunLoc T.attr T.st.loc s.toList
    T.emit st' R.attr (toksLocOf R.items)
  | .docLine s =>
    let R := lexRunLoc T.attr T.st.loc ("///" ++ s).toList
    T.emit st' R.attr (toksLocOf R.items)
  | .ident s => T.emit st' T.attr [⟨.ident s.toList, T.st.loc, st'.lastEnd⟩]
  | .optComma =>
    -- the layout wrote the comma iff the cursor moved
    if st'.loc == T.st.loc then { T with st := st' } else T.emit st' T.attr [⟨.comma, T.st.loc, st'.lastEnd⟩]
  | .cl p =>
    match T.opened.find? (fun x => x.1 == p) with
    | some (_, i) => { T with st := st', spans := (p, i, T.toks.length - 1) :: T.spans,
                              opened := T.opened.filter (fun x => x.1 != p) }
    | none => { T with st := st' }
  | _ => { T with st := st' }

/-- the state `render` starts from -/
def renderInit (seed : Nat) : LState :=
  { out := [], loc := ⟨1, 1⟩, lastEnd := ⟨1, 1⟩, pendingOpen := [], opened := [], spans := [], rng := Rng.mk' seed, afterDoc := false }

def trace (style seed : Nat) (items : List Item) : Trace :=
  items.foldl (traceStep style) ⟨renderInit seed, false, [], [], []⟩

/-- the located token list the printer's bookkeeping assigns to `render style seed items` -/
def tokenLocs (style seed : Nat) (items : List Item) : List LTok := (trace style seed items).toks

/-- for every span `render` reports, in the same order: (path, index of the first token written after its `op` marker,
    index of the last token written before its `cl` marker) — indices into `tokenLocs` -/
def spanTokens (style seed : Nat) (items : List Item) : List (String × Nat × Nat) := (trace style seed items).spans.reverse

/-- the span with the locations of the tokens `e` names -/
def spanOfTokens (toks : List LTok) (e : String × Nat × Nat) : SpanRec :=
  ⟨e.1, (toks.getD e.2.1 default).spellStart, (toks.getD e.2.2 default).stop⟩

/-! ## tight spellings

  The printer records the location where an item's TEXT starts and ends.  For the recorded span to start and end at
  token boundaries the text itself must start and end with a token: its first and last characters are neither white
  space nor a slash (no leading / trailing blank or comment), and a doc line really is a doc comment (no fourth
  slash) on one line.  Everything `fileItems` writes is of this kind, except that `fileOk` (C02) allows attribute
  directives / scoped names with blanks or comments around them (`" a"`, `"a::b/**/"` would not pass `tightText`). -/

def tightText (cs : List Char) : Bool :=
  match cs.head?, cs.getLast? with
  | some c, some d => !isWs c && c != '/' && !isWs d && d != '/'
  | _, _ => false

def itemTight : Item → Bool
  | .tok s => tightText s.toList
  | .docLine s => s.toList.head? != some '/' && !s.toList.contains '\n'
  | _ => true

def itemsTight (items : List Item) : Bool := items.all itemTight


/-! ## tight files

  The leaf conditions under which everything `fileItems f` writes is tight, in addition to `fileOk f` (C02): every
  attribute directive, scoped type name and module path — as printed — starts and ends with a character that is neither
  white space nor a slash (implied by "its `::`-separated segments are identifiers"), and no doc line starts with a slash
  (a fourth slash makes the line an ordinary comment).  The shape of the file is unconstrained. -/

def attrTight (a : Attr) : Bool := tightText a.directive.toList

def docTight (doc : List String) : Bool := doc.all (fun l => l.toList.head? != some '/')

mutual
def tyTight : TyExpr → Bool
  | .prim _ => true
  | .named id => tightText (escapeScoped id).toList
  | .seq e => trefTight e
  | .dict k v => trefTight k && trefTight v
  | .result s f => trefTight s && trefTight f
def trefTight : TRef → Bool
  | .mk attrs ty _ => attrs.all attrTight && tyTight ty
end

def fieldTight (f : Field) : Bool := docTight f.doc && f.attrs.all attrTight && trefTight f.ty

def paramTight (p : Param) : Bool := p.attrs.all attrTight && trefTight p.ty

def retTight : Ret → Bool
  | .none => true
  | .single _ _ ty => trefTight ty
  | .tuple ps => ps.all paramTight

def opTight (o : Op) : Bool := docTight o.doc && o.attrs.all attrTight && o.params.all paramTight && retTight o.ret

def enumeratorTight (e : Enumerator) : Bool :=
  docTight e.doc && e.attrs.all attrTight && (match e.fields with | none => true | some fs => fs.all fieldTight)

def defTight : Def → Bool
  | .struct doc attrs _ _ fields => docTight doc && attrs.all attrTight && fields.all fieldTight
  | .iface doc attrs _ bases ops => docTight doc && attrs.all attrTight && bases.all trefTight && ops.all opTight
  | .enum doc attrs _ _ _ underlying es =>
    docTight doc && attrs.all attrTight && (match underlying with | none => true | some u => trefTight u) && es.all enumeratorTight
  | .custom doc attrs _ => docTight doc && attrs.all attrTight
  | .alias doc attrs _ ty => docTight doc && attrs.all attrTight && trefTight ty

def fileTight (f : SFile) : Bool :=
  f.fileAttrs.all attrTight &&
  (match f.module with
   | none => true
   | some m => m.attrs.all attrTight && tightText (escapeScoped m.path).toList) &&
  f.defs.all defTight

end Slicec.SLex
