/-
  Elaboration of an abstract program into the canonical dump of the compiled AST (projection `ast`
  of the `compile` engine, harness/src/compile.rs) and into the expected span list (projection `spans`).
  This is what C02 compares: "the AST says exactly what the source says".
-/
import SlicecVerif.Model.Print
import SlicecVerif.Model.Resolve

namespace Slicec

def hs (s : String) : String := hexOfString s

/-- attributes as the compiler stores them after `patch_attributes`: the five built-in directives are parsed
    into their own kinds (argument *order* of compress/slicedFormat is not kept), everything else verbatim -/
def canonAttr (a : Attr) : String × List String :=
  if a.directive == "compress" || a.directive == "slicedFormat" then
    (a.directive, (if a.args.contains "Args" then ["Args"] else []) ++ (if a.args.contains "Return" then ["Return"] else []))
  else if a.directive == "deprecated" then (a.directive, a.args.take 1)
  else if a.directive == "oneway" then (a.directive, [])
  else (a.directive, a.args)

def attrsS (as : List Attr) : String :=
  "[" ++ ",".intercalate (as.map fun a => let (d, args) := canonAttr a; hs d ++ "(" ++ ",".intercalate (args.map hs) ++ ")") ++ "]"

def b01 (b : Bool) : String := if b then "1" else "0"

mutual
/-- `tref(opt;attrs;bound)`; `fuel` bounds the descent through aliases of anonymous types -/
def trefS (t : Table) (scope : String) : Nat → TRef → String
  | 0, _ => "fuel"
  | fuel + 1, .mk attrs ty opt =>
    match ty with
    | .named id =>
      match resolveNamed t .type id scope with
      | .ok (.node n, extra) =>
        let b := if n.kind == .primitive then "prim(" ++ n.ident ++ ")" else "def(" ++ n.kind.str ++ "," ++ hs n.key ++ ")"
        "tref(" ++ b01 opt ++ ";" ++ attrsS (attrs ++ extra) ++ ";" ++ b ++ ")"
      | .ok (.expr e s, extra) => "tref(" ++ b01 opt ++ ";" ++ attrsS (attrs ++ extra) ++ ";" ++ tyS t s fuel e ++ ")"
      | .error _ => "tref(" ++ b01 opt ++ ";" ++ attrsS attrs ++ ";unpatched(" ++ hs id ++ "))"
    | e => "tref(" ++ b01 opt ++ ";" ++ attrsS attrs ++ ";" ++ tyS t scope fuel e ++ ")"
def tyS (t : Table) (scope : String) : Nat → TyExpr → String
  | 0, _ => "fuel"
  | _ + 1, .prim p => "prim(" ++ p.kw ++ ")"
  | _ + 1, .named id => "named(" ++ hs id ++ ")"
  | fuel + 1, .seq e => "seq(" ++ trefS t scope fuel e ++ ")"
  | fuel + 1, .dict k v => "dict(" ++ trefS t scope fuel k ++ "," ++ trefS t scope fuel v ++ ")"
  | fuel + 1, .result s f => "result(" ++ trefS t scope fuel s ++ "," ++ trefS t scope fuel f ++ ")"
end

def elabFuel : Nat := 64

def tagS (tag : Option IntLit) : String :=
  match tag with
  | none => "-"
  | some l => toString (l.value % 2 ^ 32).toNat   -- `as u32`

def fieldS (t : Table) (scope : String) (f : Field) : String :=
  "field(" ++ hs f.name ++ ";" ++ tagS f.tag ++ ";" ++ trefS t scope elabFuel f.ty ++ ";" ++ attrsS f.attrs ++ ";" ++ b01 (!f.doc.isEmpty) ++ ")"

def paramS (t : Table) (scope : String) (p : Param) : String :=
  "param(" ++ hs p.name ++ ";" ++ tagS p.tag ++ ";" ++ b01 p.stream ++ ";" ++ trefS t scope elabFuel p.ty ++ ";" ++ attrsS p.attrs ++ ")"

/-- i128 wrapping increment -/
def wrapI128 (v : Int) : Int := if v + 1 ≥ 2 ^ 127 then v + 1 - 2 ^ 128 else v + 1

/-- explicit literal, else previous value + 1 (wrapping), starting from 0 -/
def enumValues : Option Int → List Enumerator → List Int
  | _, [] => []
  | prev, e :: es =>
    let v := match e.value with
      | some l => l.value
      | none => match prev with | some p => wrapI128 p | none => 0
    v :: enumValues (some v) es

def defS (t : Table) (scope : String) : Def → String
  | .struct doc attrs compact name fields =>
    "struct(" ++ hs name ++ ";" ++ b01 compact ++ ";" ++ attrsS attrs ++ ";" ++ b01 (!doc.isEmpty) ++ ";[" ++
      ",".intercalate (fields.map (fieldS t scope)) ++ "])"
  | .iface doc attrs name bases ops =>
    let bs := bases.map fun b =>
      match b.ty with
      | .named id =>
        match resolveNamed t .interface id scope with
        | .ok (.node n, _) => "base(" ++ hs n.key ++ ")"
        | _ => "unpatched(" ++ hs id ++ ")"
      | _ => "unpatched(-)"
    let os := ops.map fun o =>
      "op(" ++ hs o.name ++ ";" ++ b01 o.idempotent ++ ";" ++ attrsS o.attrs ++ ";" ++ b01 (!o.doc.isEmpty) ++ ";[" ++
        ",".intercalate (o.params.map (paramS t scope)) ++ "];[" ++ ",".intercalate ((retParams o.ret).map (paramS t scope)) ++ "])"
    "iface(" ++ hs name ++ ";" ++ attrsS attrs ++ ";" ++ b01 (!doc.isEmpty) ++ ";[" ++ ",".intercalate bs ++ "];[" ++ ",".intercalate os ++ "])"
  | .enum doc attrs compact unchecked name underlying es =>
    let u := match underlying with
      | none => "-"
      | some (.mk uattrs ty opt) =>
        match ty with
        | .prim p => "u(" ++ b01 opt ++ ";" ++ attrsS uattrs ++ ";" ++ p.kw ++ ")"
        | .named id =>
          match resolveNamed t .primitive id scope with
          | .ok (.node n, extra) => "u(" ++ b01 opt ++ ";" ++ attrsS (uattrs ++ extra) ++ ";" ++ n.ident ++ ")"
          | .ok (.expr (.prim p) _, extra) => "u(" ++ b01 opt ++ ";" ++ attrsS (uattrs ++ extra) ++ ";" ++ p.kw ++ ")"
          | _ => "unpatched(" ++ hs id ++ ")"
        | _ => "unpatched(-)"
    let vals := enumValues none es
    let ess := (es.zip vals).map fun (e, v) =>
      "enumerator(" ++ hs e.name ++ ";" ++ toString v ++ ";" ++ b01 e.value.isSome ++ ";" ++
        (match e.fields with | none => "-" | some fs => "[" ++ ",".intercalate (fs.map (fieldS t scope)) ++ "]") ++ ";" ++
        attrsS e.attrs ++ ";" ++ b01 (!e.doc.isEmpty) ++ ")"
    "enum(" ++ hs name ++ ";" ++ b01 compact ++ ";" ++ b01 unchecked ++ ";" ++ attrsS attrs ++ ";" ++ b01 (!doc.isEmpty) ++ ";" ++ u ++ ";[" ++
      ",".intercalate ess ++ "])"
  | .custom doc attrs name => "custom(" ++ hs name ++ ";" ++ attrsS attrs ++ ";" ++ b01 (!doc.isEmpty) ++ ")"
  | .alias doc attrs name ty =>
    "alias(" ++ hs name ++ ";" ++ attrsS attrs ++ ";" ++ b01 (!doc.isEmpty) ++ ";" ++ trefS t scope elabFuel ty ++ ")"

def fileS (t : Table) (f : SFile) : String :=
  let scope := match f.module with | some m => m.path | none => ""
  "file(" ++ attrsS f.fileAttrs ++ ";" ++
    (match f.module with | some m => "module(" ++ hs m.path ++ ";" ++ attrsS m.attrs ++ ")" | none => "nomodule") ++ ";[" ++
    ",".intercalate (f.defs.map (defS t scope)) ++ "])"

/-- projection `ast` for a program that compiles without diagnostics -/
def astDump (p : Program) : String :=
  let t := buildTable p
  "|".intercalate (p.map (fileS t)) ++ " diags=-"

/-! ### spans -/

def insertSortedS (x : String) : List String → List String
  | [] => [x]
  | y :: ys => if x ≤ y then x :: y :: ys else y :: insertSortedS x ys

def sortStrings (xs : List String) : List String := xs.foldl (fun acc x => insertSortedS x acc) []

def spanS (s : SpanRec) : String :=
  s.path ++ "=" ++ toString s.start.row ++ ":" ++ toString s.start.col ++ ":" ++ toString s.stop.row ++ ":" ++ toString s.stop.col

def isTrefAttrPath (p : String) : Bool := p.contains '@'

def spansDump (recs : List SpanRec) : String :=
  ";".intercalate (sortStrings ((recs.filter fun r => !isTrefAttrPath r.path).map spanS))

end Slicec
