/-
  Model of slice-codec's encoding.rs / decoding.rs (C10, C11, and the primitives used by C08/C18).
  The variable-width arms come from `Gen.VarintArms`, regenerated from the Rust source on every run.
-/
import SlicecVerif.Model.Basic
import SlicecVerif.Gen.VarintArms

namespace Slicec

/-! ## little-endian fixed-width numbers -/

/-- `k` little-endian bytes of `x mod 256^k` (`to_le_bytes`). -/
def toLE : Nat → Nat → Bytes
  | 0, _ => []
  | k + 1, x => UInt8.ofNat (x % 256) :: toLE k (x / 256)

/-- `from_le_bytes` -/
def fromLE : Bytes → Nat
  | [] => 0
  | b :: bs => b.toNat + 256 * fromLE bs

/-- two's complement reading of an unsigned `bits`-bit number (`as iN`) -/
def toSigned (bits : Nat) (x : Nat) : Int :=
  if x < 2 ^ (bits - 1) then (x : Int) else (x : Int) - 2 ^ bits

/-- two's complement representation (`as uN`) -/
def ofSigned (bits : Nat) (v : Int) : Nat := (v % 2 ^ bits).toNat

/-! ## decoding errors -/

inductive DErr where
  | eob (requested remaining : Nat)
  | illegalBool (v : Nat)
  | outOfRange
  | invalidString
  | dupKey
  | illegalLevel
  deriving Repr, DecidableEq

abbrev Dec (α : Type) := Except DErr (α × Bytes)

/-- `read_byte_slice_exact` / `read_bytes_exact::<N>` on a source whose unread part is `bs`. -/
def readN (n : Nat) (bs : Bytes) : Dec Bytes :=
  if bs.length < n then .error (.eob n bs.length) else .ok (bs.take n, bs.drop n)

/-! ## variable-width integers -/

/-- `u64::BITS - value.leading_zeros()` -/
def reqBitsU (v : BitVec 64) : Nat := 64 - v.clz.toNat

/-- `i64::BITS - (if negative then leading_ones else leading_zeros) + 1` -/
def reqBitsS (v : BitVec 64) : Nat := 64 - (if v.msb then (~~~v).clz.toNat else v.clz.toNat) + 1

def findArm (arms : List Gen.Arm) (rb : Nat) : Option Gen.Arm :=
  arms.find? (fun a => a.lo ≤ rb && rb ≤ a.hi)

/-- `encode_varuint`: `(value << 2) as uW | tag`, written little-endian. `none` = `Err(OutOfRange)`. -/
def encVaruint (v : BitVec 64) : Option Bytes :=
  match findArm Gen.varuintArms (reqBitsU v) with
  | some a => some (toLE a.width (((v <<< Gen.encodeShift).toNat % 256 ^ a.width) ||| a.tag))
  | none => none

/-- `encode_varint` on the two's complement bits of the `i64`. -/
def encVarint (v : BitVec 64) : Option Bytes :=
  match findArm Gen.varintArms (reqBitsS v) with
  | some a => some (toLE a.width (((v <<< Gen.encodeShift).toNat % 256 ^ a.width) ||| a.tag))
  | none => none

def lookupWidth (tbl : List (Nat × Nat × Bool)) (code : Nat) : Option (Nat × Bool) :=
  (tbl.find? (fun r => r.1 == code)).map (·.2)

/-- `decode_varuint::<u64>` before the `try_from`. -/
def decVaruintRaw (bs : Bytes) : Dec Nat :=
  match bs with
  | [] => .error (.eob 1 0)
  | b :: _ =>
    match lookupWidth Gen.varuintDecode (b.toNat % (Gen.decodeMask + 1)) with
    | none => .error .outOfRange   -- unreachable_unchecked in Rust; the table covers 0..3 (proved)
    | some (w, _) =>
      match readN w bs with
      | .error e => .error e
      | .ok (raw, rest) => .ok (fromLE raw / 2 ^ Gen.decodeShift, rest)

/-- `decode_varint::<i64>` before the `try_from` (arithmetic shift). -/
def decVarintRaw (bs : Bytes) : Dec Int :=
  match bs with
  | [] => .error (.eob 1 0)
  | b :: _ =>
    match lookupWidth Gen.varintDecode (b.toNat % (Gen.decodeMask + 1)) with
    | none => .error .outOfRange
    | some (w, _) =>
      match readN w bs with
      | .error e => .error e
      | .ok (raw, rest) => .ok (toSigned (8 * w) (fromLE raw) / 2 ^ Gen.decodeShift, rest)

/-- `T::try_from(value)` for a target with range `[lo, hi]`. -/
def narrow (lo hi : Int) (r : Dec Int) : Dec Int :=
  match r with
  | .error e => .error e
  | .ok (v, rest) => if lo ≤ v ∧ v ≤ hi then .ok (v, rest) else .error .outOfRange

def decVaruintRawI (bs : Bytes) : Dec Int :=
  match decVaruintRaw bs with
  | .error e => .error e
  | .ok (v, rest) => .ok ((v : Int), rest)

/-! ## the universe of encodable types -/

inductive Width where
  | w1 | w2 | w4 | w8
  deriving Repr, DecidableEq, Inhabited

/-- number of bytes -/
def Width.n : Width → Nat
  | .w1 => 1 | .w2 => 2 | .w4 => 4 | .w8 => 8

inductive Ty where
  | bool
  | uint (w : Width)    -- u8/u16/u32/u64
  | sint (w : Width)    -- i8/i16/i32/i64
  | f32 | f64           -- carried as bit patterns
  | varint32 | varuint32 | varint62 | varuint62 | size
  | str                 -- carried as UTF-8 bytes
  | seq (t : Ty)
  | dictB (k v : Ty)    -- BTreeMap: entries in key order
  | dictH (k v : Ty)    -- HashMap: entries in iteration order (any)
  deriving Repr, DecidableEq, Inhabited

/-- values: integers as `Int`, floats as bit patterns, strings as bytes, dictionaries as entry lists -/
def Val : Ty → Type
  | .bool => Bool
  | .uint _ | .sint _ | .varint32 | .varuint32 | .varint62 | .varuint62 | .size => Int
  | .f32 | .f64 => Nat
  | .str => Bytes
  | .seq t => List (Val t)
  | .dictB k v | .dictH k v => List (Val k × Val v)

def Val.decEq : (t : Ty) → DecidableEq (Val t)
  | .bool => inferInstanceAs (DecidableEq Bool)
  | .uint _ | .sint _ | .varint32 | .varuint32 | .varint62 | .varuint62 | .size =>
    inferInstanceAs (DecidableEq Int)
  | .f32 | .f64 => inferInstanceAs (DecidableEq Nat)
  | .str => inferInstanceAs (DecidableEq (List UInt8))
  | .seq t => @List.hasDecEq _ (Val.decEq t)
  | .dictB k v | .dictH k v => @List.hasDecEq _ (@instDecidableEqProd _ _ (Val.decEq k) (Val.decEq v))

instance (t : Ty) : DecidableEq (Val t) := Val.decEq t

def validUTF8 (bs : Bytes) : Bool := ByteArray.validateUTF8 ⟨bs.toArray⟩

/-- sequential combinator: encode every element, concatenate (`for element in self`). -/
def encList {α} (enc : α → Option Bytes) : List α → Option Bytes
  | [] => some []
  | x :: xs =>
    match enc x, encList enc xs with
    | some a, some b => some (a ++ b)
    | _, _ => none

/-- `for _ in 0..n { decode()? ; push }` -/
def decList {α} (dec : Bytes → Dec α) : Nat → Bytes → Dec (List α)
  | 0, bs => .ok ([], bs)
  | n + 1, bs =>
    match dec bs with
    | .error e => .error e
    | .ok (x, rest) =>
      match decList dec n rest with
      | .error e => .error e
      | .ok (xs, rest') => .ok (x :: xs, rest')

def encPair {α β} (ek : α → Option Bytes) (ev : β → Option Bytes) (p : α × β) : Option Bytes :=
  match ek p.1, ev p.2 with
  | some a, some b => some (a ++ b)
  | _, _ => none

def decPair {α β} (dk : Bytes → Dec α) (dv : Bytes → Dec β) (bs : Bytes) : Dec (α × β) :=
  match dk bs with
  | .error e => .error e
  | .ok (k, rest) =>
    match dv rest with
    | .error e => .error e
    | .ok (v, rest') => .ok ((k, v), rest')

/-- dictionary entry loop: decode key, value, insert; a repeated key is an error (`IllegalValue`). -/
def decEntries {α β} [DecidableEq α] (dk : Bytes → Dec α) (dv : Bytes → Dec β) :
    Nat → List α → Bytes → Dec (List (α × β))
  | 0, _, bs => .ok ([], bs)
  | n + 1, seen, bs =>
    match decPair dk dv bs with
    | .error e => .error e
    | .ok ((k, v), rest) =>
      if k ∈ seen then .error .dupKey
      else
        match decEntries dk dv n (k :: seen) rest with
        | .error e => .error e
        | .ok (es, rest') => .ok ((k, v) :: es, rest')

def encSize (n : Nat) : Option Bytes :=
  if n < 2 ^ 64 then encVaruint (BitVec.ofNat 64 n) else none

def withSize (n : Nat) (body : Option Bytes) : Option Bytes :=
  match encSize n, body with
  | some a, some b => some (a ++ b)
  | _, _ => none

def encBool (b : Bool) : Option Bytes := some [if b then 1 else 0]
def encFixedU (w : Nat) (v : Int) : Option Bytes :=
  if 0 ≤ v ∧ v < 2 ^ (8 * w) then some (toLE w v.toNat) else none
def encFixedS (w : Nat) (v : Int) : Option Bytes :=
  if -(2 ^ (8 * w - 1)) ≤ v ∧ v < 2 ^ (8 * w - 1) then some (toLE w (ofSigned (8 * w) v)) else none
def encBits (w : Nat) (b : Nat) : Option Bytes := if b < 2 ^ (8 * w) then some (toLE w b) else none
/-- `encode_varint(value: impl Into<i64>)` for a source type with range `[lo, hi)` -/
def encVarintI (lo hi : Int) (v : Int) : Option Bytes :=
  if lo ≤ v ∧ v < hi then encVarint (BitVec.ofInt 64 v) else none
def encVaruintI (hi : Int) (v : Int) : Option Bytes :=
  if 0 ≤ v ∧ v < hi then encVaruint (BitVec.ofInt 64 v) else none
def encStr (s : Bytes) : Option Bytes := if validUTF8 s then withSize s.length (some s) else none

/-- `Encoder::encode` / `encode_varint` / `encode_varuint` / `encode_size`; `none` = refused (`Err`)
    or the value is not a value of the Rust type at all. -/
def encode : (t : Ty) → Val t → Option Bytes
  | .bool, b => encBool b
  | .uint w, v => encFixedU w.n v
  | .sint w, v => encFixedS w.n v
  | .f32, b => encBits 4 b
  | .f64, b => encBits 8 b
  | .varint32, v => encVarintI (-(2 ^ 31)) (2 ^ 31) v
  | .varuint32, v => encVaruintI (2 ^ 32) v
  | .varint62, v => encVarintI (-(2 ^ 63)) (2 ^ 63) v
  | .varuint62, v => encVaruintI (2 ^ 64) v
  | .size, v => encVaruintI (2 ^ 64) v
  | .str, s => encStr s
  | .seq t, vs => withSize (List.length (α := Val t) vs) (encList (encode t) vs)
  | .dictB k v, es => withSize (List.length (α := Val k × Val v) es) (encList (encPair (encode k) (encode v)) es)
  | .dictH k v, es => withSize (List.length (α := Val k × Val v) es) (encList (encPair (encode k) (encode v)) es)

def decFixedU (w : Nat) (bs : Bytes) : Dec Int :=
  match readN w bs with
  | .error e => .error e
  | .ok (raw, rest) => .ok ((fromLE raw : Int), rest)

def decFixedS (w : Nat) (bs : Bytes) : Dec Int :=
  match readN w bs with
  | .error e => .error e
  | .ok (raw, rest) => .ok (toSigned (8 * w) (fromLE raw), rest)

def decBits (w : Nat) (bs : Bytes) : Dec Nat :=
  match readN w bs with
  | .error e => .error e
  | .ok (raw, rest) => .ok (fromLE raw, rest)

def decBool (bs : Bytes) : Dec Bool :=
  match bs with
  | [] => .error (.eob 1 0)
  | b :: rest => if b = 0 then .ok (false, rest) else if b = 1 then .ok (true, rest) else .error (.illegalBool b.toNat)

def decStr (bs : Bytes) : Dec Bytes :=
  match decVaruintRaw bs with
  | .error e => .error e
  | .ok (n, rest) =>
    match readN n rest with
    | .error e => .error e
    | .ok (raw, rest') => if validUTF8 raw then .ok (raw, rest') else .error .invalidString

/-- `Decoder::decode::<T>` / `decode_varint::<T>` / `decode_varuint::<T>` / `decode_size`. -/
def decode : (t : Ty) → Bytes → Dec (Val t)
  | .bool, bs => decBool bs
  | .uint w, bs => decFixedU w.n bs
  | .sint w, bs => decFixedS w.n bs
  | .f32, bs => decBits 4 bs
  | .f64, bs => decBits 8 bs
  | .varint32, bs => narrow (-(2 ^ 31)) (2 ^ 31 - 1) (decVarintRaw bs)
  | .varuint32, bs => narrow 0 (2 ^ 32 - 1) (decVaruintRawI bs)
  | .varint62, bs => decVarintRaw bs
  | .varuint62, bs => decVaruintRawI bs
  | .size, bs => decVaruintRawI bs
  | .str, bs => decStr bs
  | .seq t, bs =>
    match decVaruintRaw bs with
    | .error e => .error e
    | .ok (n, rest) => decList (decode t) n rest
  | .dictB k v, bs =>
    match decVaruintRaw bs with
    | .error e => .error e
    | .ok (n, rest) => decEntries (decode k) (decode v) n [] rest
  | .dictH k v, bs =>
    match decVaruintRaw bs with
    | .error e => .error e
    | .ok (n, rest) => decEntries (decode k) (decode v) n [] rest

def WFList {α} (p : α → Prop) (xs : List α) : Prop := ∀ x ∈ xs, p x
def WFEntries {α β} (pk : α → Prop) (pv : β → Prop) (es : List (α × β)) : Prop :=
  (es.map Prod.fst).Nodup ∧ ∀ p ∈ es, pk p.1 ∧ pv p.2

/-- hereditary key distinctness: what a `HashMap` / `BTreeMap` value satisfies by construction -/
def WF : (t : Ty) → Val t → Prop
  | .seq t, vs => WFList (WF t) vs
  | .dictB k v, es => WFEntries (WF k) (WF v) es
  | .dictH k v, es => WFEntries (WF k) (WF v) es
  | _, _ => True

/-- `skip_tagged_fields`, fuelled by the number of unread bytes (every round consumes ≥ 2 bytes). -/
def skipTagged : Nat → Bytes → Dec Unit
  | 0, _ => .error (.eob 1 0)   -- unreachable: fuel = length + 1 suffices (proved)
  | fuel + 1, bs =>
    match narrow (-(2 ^ 31)) (2 ^ 31 - 1) (decVarintRaw bs) with
    | .error e => .error e
    | .ok (tag, rest) =>
      if tag = Gen.tagEndMarker then .ok ((), rest)
      else
        match decVaruintRaw rest with
        | .error e => .error e
        | .ok (n, rest') =>
          match readN n rest' with
          | .error e => .error e
          | .ok (_, rest'') => skipTagged fuel rest''

def skipTaggedFields (bs : Bytes) : Dec Unit := skipTagged (bs.length + 1) bs

/-! ## the wire-format specification the property states (independent of the arm tables) -/

/-- least of 1, 2, 4, 8 bytes that holds `payloadBits` value bits plus the 2 code bits -/
def specWidthU (v : Nat) : Option Nat :=
  if v < 2 ^ 6 then some 1 else if v < 2 ^ 14 then some 2 else if v < 2 ^ 30 then some 4
  else if v < 2 ^ 62 then some 8 else none

def specWidthS (v : Int) : Option Nat :=
  if -(2 ^ 5) ≤ v ∧ v < 2 ^ 5 then some 1 else if -(2 ^ 13) ≤ v ∧ v < 2 ^ 13 then some 2
  else if -(2 ^ 29) ≤ v ∧ v < 2 ^ 29 then some 4 else if -(2 ^ 61) ≤ v ∧ v < 2 ^ 61 then some 8 else none

def widthCode : Nat → Nat
  | 1 => 0 | 2 => 1 | 4 => 2 | _ => 3

/-- value shifted left by two with the length code in the two low bits, little-endian -/
def specVaruint (v : Nat) : Option Bytes :=
  (specWidthU v).map fun w => toLE w (4 * v + widthCode w)

def specVarint (v : Int) : Option Bytes :=
  (specWidthS v).map fun w => toLE w (ofSigned (8 * w) (4 * v + widthCode w))

end Slicec
