/-
  Abstract syntax of Slice programs: what a source file *says*, independent of layout.
  Used by the program generator / printer (Print.lean), the elaboration to the canonical dump that is
  compared with the real AST (C02), and as the input of the semantic models (C03 C04 C05 C20 …).
-/
import SlicecVerif.Model.Basic

namespace Slicec

inductive Prim where
  | bool | int8 | uint8 | int16 | uint16 | int32 | uint32 | varint32 | varuint32
  | int64 | uint64 | varint62 | varuint62 | float32 | float64 | string
  deriving Repr, DecidableEq, Inhabited

def Prim.all : List Prim :=
  [.bool, .int8, .uint8, .int16, .uint16, .int32, .uint32, .varint32, .varuint32,
   .int64, .uint64, .varint62, .varuint62, .float32, .float64, .string]

def Prim.kw : Prim → String
  | .bool => "bool" | .int8 => "int8" | .uint8 => "uint8" | .int16 => "int16" | .uint16 => "uint16"
  | .int32 => "int32" | .uint32 => "uint32" | .varint32 => "varint32" | .varuint32 => "varuint32"
  | .int64 => "int64" | .uint64 => "uint64" | .varint62 => "varint62" | .varuint62 => "varuint62"
  | .float32 => "float32" | .float64 => "float64" | .string => "string"

/-- an attribute as written: directive (`a` or `cs::b`) and unescaped arguments -/
structure Attr where
  directive : String
  args : List String
  deriving Repr, DecidableEq, Inhabited

mutual
/-- a type expression as written -/
inductive TyExpr where
  | prim (p : Prim)
  | named (id : String)            -- `A`, `A::B`, `::A::B`
  | seq (e : TRef)
  | dict (k v : TRef)
  | result (s f : TRef)
/-- a type reference: local attributes, the type expression, `?` -/
inductive TRef where
  | mk (attrs : List Attr) (ty : TyExpr) (opt : Bool)
end

instance : Inhabited TyExpr := ⟨.prim .bool⟩
instance : Inhabited TRef := ⟨.mk [] (.prim .bool) false⟩

def TRef.attrs : TRef → List Attr | .mk a _ _ => a
def TRef.ty : TRef → TyExpr | .mk _ t _ => t
def TRef.opt : TRef → Bool | .mk _ _ o => o

/-- an integer literal as written: sign, base, value (digits are printed from the value) -/
structure IntLit where
  neg : Bool
  base : Nat          -- 2, 10 or 16
  mag : Nat
  underscores : Bool  -- print with `_` separators
  deriving Repr, DecidableEq, Inhabited

def IntLit.value (l : IntLit) : Int := if l.neg then -(l.mag : Int) else l.mag

structure Field where
  doc : List String
  attrs : List Attr
  tag : Option IntLit
  name : String
  ty : TRef
  deriving Inhabited

structure Param where
  attrs : List Attr
  tag : Option IntLit
  name : String
  stream : Bool
  ty : TRef
  deriving Inhabited

inductive Ret where
  | none
  | single (tag : Option IntLit) (stream : Bool) (ty : TRef)
  | tuple (ps : List Param)
  deriving Inhabited

structure Op where
  doc : List String
  attrs : List Attr
  idempotent : Bool
  name : String
  params : List Param
  ret : Ret
  deriving Inhabited

structure Enumerator where
  doc : List String
  attrs : List Attr
  name : String
  fields : Option (List Field)
  value : Option IntLit
  deriving Inhabited

inductive Def where
  | struct (doc : List String) (attrs : List Attr) (compact : Bool) (name : String) (fields : List Field)
  | iface (doc : List String) (attrs : List Attr) (name : String) (bases : List TRef) (ops : List Op)
  | enum (doc : List String) (attrs : List Attr) (compact unchecked : Bool) (name : String)
      (underlying : Option TRef) (enumerators : List Enumerator)
  | custom (doc : List String) (attrs : List Attr) (name : String)
  | alias (doc : List String) (attrs : List Attr) (name : String) (ty : TRef)
  deriving Inhabited

def Def.name : Def → String
  | .struct _ _ _ n _ => n | .iface _ _ n _ _ => n | .enum _ _ _ _ n _ _ => n
  | .custom _ _ n => n | .alias _ _ n _ => n

def Def.kind : Def → String
  | .struct .. => "struct" | .iface .. => "interface" | .enum .. => "enum"
  | .custom .. => "custom" | .alias .. => "typealias"

structure ModDecl where
  attrs : List Attr
  path : String      -- `A` or `A::B`
  deriving Inhabited

structure SFile where
  fileAttrs : List Attr
  module : Option ModDecl
  defs : List Def
  deriving Inhabited

abbrev Program := List SFile

end Slicec
