/-
  C20 — the visitor traversal (`/repo/slicec/src/visitor.rs`).

  Every `visit_with` is mirrored by a function that builds the *forest of callbacks* it causes: one node per
  callback (`visit_file`, `visit_struct`, `visit_field`, `visit_type_ref` …), children = the recursive
  `visit_with` calls, in call order. `flat` is the pre-order walk of that forest = the order in which the callbacks
  happen. An event is identified by its PATH from the file root — a list of positions (`Seg`), rendered in the
  naming of Model/Print.lean (`file`, `mod`, `d0`, `d0.f1`, `d0.f1.t.e`, `d1.o0.p0`, `d1.o0.r0`, `d2.e0.f1`, `d3.t`).

  `TypeRef::visit_with` descends only into a *patched* reference, through `concrete_type()`: a reference that names an
  alias of `Sequence<…>`/`Dictionary<…>`/`Result<…>` was patched to that anonymous type (aliases are flattened by
  `TypeRefPatcher`), so the walk continues into the element / key, value / success, failure references written under
  the alias — possibly in another file. Their paths continue under the *using* reference (`d0.f0.t.e`); `foreign`
  records that the `TypeRef` object was written in another file. A reference that does not resolve stays unpatched
  and is not descended. `resolveNamed` (Model/Resolve.lean) is the mirror of the patcher.

  Core Lean only (the driver links this file).
-/
import SlicecVerif.Model.Resolve

namespace Slicec.Visit

open Slicec

/-- one step of a path: a position in the syntax of the file -/
inductive Seg where
  | file | mod
  | d (i : Nat)      -- i-th definition of the file
  | f (i : Nat)      -- i-th field of a struct / of an enumerator
  | o (i : Nat)      -- i-th operation
  | p (i : Nat)      -- i-th parameter
  | r (i : Nat)      -- i-th return member
  | e (i : Nat)      -- i-th enumerator
  | t                -- the type reference of a field / parameter / return member / alias
  | te | tk | tv | ts | tf   -- element, key, value, success, failure reference nested in a type reference
  deriving DecidableEq, Repr, Inhabited

abbrev Path := List Seg

def Seg.str : Seg → String
  | .file => "file" | .mod => "mod"
  | .d i => "d" ++ toString i | .f i => "f" ++ toString i | .o i => "o" ++ toString i
  | .p i => "p" ++ toString i | .r i => "r" ++ toString i | .e i => "e" ++ toString i
  | .t => "t" | .te => "e" | .tk => "k" | .tv => "v" | .ts => "s" | .tf => "f"

def pathStr (p : Path) : String := ".".intercalate (p.map Seg.str)

/-- declaration order of siblings: `(class, index)` compared lexicographically. Siblings of one container either
    share a class and differ by index (`f0 < f1`), or are ordered by class: `file < mod < d·`, parameters before
    return members, key before value, success before failure. -/
def Seg.cls : Seg → Nat
  | .file => 0 | .mod => 1 | .d _ => 2 | .f _ => 3 | .o _ => 4 | .p _ => 5 | .r _ => 6 | .e _ => 7
  | .t => 8 | .te => 9 | .tk => 10 | .tv => 11 | .ts => 12 | .tf => 13

def Seg.idx : Seg → Nat
  | .d i | .f i | .o i | .p i | .r i | .e i => i
  | _ => 0

def Seg.lt (a b : Seg) : Prop := a.cls < b.cls ∨ (a.cls = b.cls ∧ a.idx < b.idx)

instance : DecidableRel Seg.lt := fun a b => by unfold Seg.lt; exact inferInstance

/-- document order on paths: lexicographic; a proper prefix (the container) is smaller -/
abbrev Path.lt (a b : Path) : Prop := List.Lex Seg.lt a b

/-- a callback, identified by the position of its element; `foreign` = the presented object was written in another file -/
structure PEvent where
  kind : String
  path : Path
  foreign : Bool := false
  deriving DecidableEq, Repr, Inhabited

/-- the event as it travels to the harness -/
structure Event where
  kind : String
  path : String
  foreign : Bool := false
  deriving DecidableEq, Repr, Inhabited

def PEvent.render (e : PEvent) : Event := ⟨e.kind, pathStr e.path, e.foreign⟩

/-- forest of callbacks in first-child / next-sibling form: `cons seg kind foreign children rest` -/
inductive Forest where
  | nil
  | cons (seg : Seg) (kind : String) (foreign : Bool) (children : Forest) (rest : Forest)
  deriving Inhabited

def Forest.append : Forest → Forest → Forest
  | .nil, g => g
  | .cons s k fr ch rest, g => .cons s k fr ch (rest.append g)

/-- pre-order walk: a node, then everything below it, then its later siblings -/
def flat (path : Path) : Forest → List PEvent
  | .nil => []
  | .cons s k fr ch rest => ⟨k, path ++ [s], fr⟩ :: flat (path ++ [s]) ch ++ flat path rest

/-- one node per list element, in list order, numbered from `i` -/
def idxF {α} (seg : Nat → Seg) (kind : α → String) (ch : α → Forest) : Nat → List α → Forest
  | _, [] => .nil
  | i, x :: xs => .cons (seg i) (kind x) false (ch x) (idxF seg kind ch (i + 1) xs)

/-! ## type references -/

/-- file in which the type expression an alias chain ends in was written (same walk as `walkAlias`) -/
def walkAliasFile (t : Table) : Nat → List String → NodeInfo → Nat
  | 0, _, cur => cur.file
  | fuel + 1, chain, cur =>
    if chain.contains cur.key then cur.file
    else
      match cur.aliasOf with
      | none => cur.file
      | some u =>
        match u.ty with
        | .named id =>
          match findNodeWithScope t id cur.modScope with
          | none => cur.file
          | some n => if n.kind == .alias then walkAliasFile t fuel (chain ++ [cur.key]) n else cur.file
        | _ => cur.file

def exprFile (t : Table) (id scope : String) : Nat :=
  match findNodeWithScope t id scope with
  | some n => walkAliasFile t (numAliases t + 1) [] n
  | none => 0

/-- `TypeRef::visit_with` below the callback for the reference itself: the nested `visit_with` calls for a reference
    whose written type is `ty`, written in module scope `scope` of file `self` (`fr` = that is another file).
    `fuel` is spent only when the walk passes through a named alias into the anonymous type written there. -/
def tyF (t : Table) (self : Nat) : Nat → String → Bool → TyExpr → Forest
  | _, _, _, .prim _ => .nil
  | fuel, sc, fr, .seq (.mk _ e _) => .cons .te "typeref" fr (tyF t self fuel sc fr e) .nil
  | fuel, sc, fr, .dict (.mk _ k _) (.mk _ v _) =>
    .cons .tk "typeref" fr (tyF t self fuel sc fr k) (.cons .tv "typeref" fr (tyF t self fuel sc fr v) .nil)
  | fuel, sc, fr, .result (.mk _ s _) (.mk _ f _) =>
    .cons .ts "typeref" fr (tyF t self fuel sc fr s) (.cons .tf "typeref" fr (tyF t self fuel sc fr f) .nil)
  | 0, _, _, .named _ => .nil
  | fuel + 1, sc, _, .named id =>
    match resolveNamed t .type id sc with
    | .ok (.expr e s, _) => tyF t self fuel s (exprFile t id sc != self) e   -- patched to the alias's anonymous type
    | .ok (.node _, _) => .nil                                              -- struct / enum / custom / primitive
    | .error _ => .nil                                                      -- unpatched: not descended
termination_by fuel _ _ ty => (fuel, sizeOf ty)

/-- `data_type.visit_with` / `underlying.visit_with`: the reference of an owner written in this file -/
def trefF (t : Table) (self fuel : Nat) (scope : String) (r : TRef) : Forest :=
  .cons .t "typeref" false (tyF t self fuel scope false r.ty) .nil

/-! ## elements -/

/-- everything the visitor needs to know about the program around the file being walked -/
structure Ctx where
  table : Table
  self : Nat          -- index of the walked file
  fuel : Nat
  scope : String      -- module scope of the walked file

def Ctx.tref (c : Ctx) (r : TRef) : Forest := trefF c.table c.self c.fuel c.scope r

/-- `Struct::visit_with` / `Enumerator::visit_with`: the fields in order; `Field::visit_with`: callback, then the type -/
def fieldsF (c : Ctx) (fs : List Field) : Forest := idxF .f (fun _ => "field") (fun fl => c.tref fl.ty) 0 fs

def paramsF (c : Ctx) (seg : Nat → Seg) (ps : List Param) : Forest := idxF seg (fun _ => "parameter") (fun pa => c.tref pa.ty) 0 ps

/-- `Operation::visit_with`: the parameters, then the return members -/
def opF (c : Ctx) (o : Op) : Forest := (paramsF c .p o.params).append (paramsF c .r (retParams o.ret))

/-- `Enumerator::visit_with`: the fields if there is a field list -/
def enumeratorF (c : Ctx) (en : Enumerator) : Forest :=
  match en.fields with
  | some fs => fieldsF c fs
  | none => .nil

def defKind : Def → String
  | .struct .. => "struct" | .iface .. => "interface" | .enum .. => "enum" | .custom .. => "custom" | .alias .. => "alias"

/-- what is visited below a definition. Bases of an interface and the underlying type of an enum are not visited. -/
def defF (c : Ctx) : Def → Forest
  | .struct _ _ _ _ fields => fieldsF c fields
  | .iface _ _ _ _ ops => idxF .o (fun _ => "operation") (opF c) 0 ops
  | .enum _ _ _ _ _ _ es => idxF .e (fun _ => "enumerator") (enumeratorF c) 0 es
  | .custom .. => .nil
  | .alias _ _ _ ty => c.tref ty

/-- `SliceFile::visit_with`: the file, its module if any, the definitions in order -/
def fileF (c : Ctx) (f : SFile) : Forest :=
  .cons .file "file" false .nil
    ((match f.module with
      | some _ => Forest.cons .mod "module" false .nil .nil
      | none => .nil).append (idxF .d defKind (defF c) 0 f.defs))

def fileScope (f : SFile) : String := match f.module with | some m => m.path | none => ""

/-- fuel for the descent through aliases of anonymous types. Every unit is spent entering the type expression of
    an alias that is not yet on the current descent path (acyclic aliases: `walkAlias` succeeded, and containment of
    anonymous types through aliases is acyclic in a valid program), so `numAliases t + 1` is never exhausted. -/
def visitFuel (t : Table) : Nat := numAliases t + 1

def ctxOf (t : Table) (self : Nat) (f : SFile) : Ctx := ⟨t, self, visitFuel t, fileScope f⟩

/-- the callbacks of walking file number `self` of the program whose table is `t`, in order, with structured paths -/
def visitP (t : Table) (self : Nat) (f : SFile) : List PEvent := flat [] (fileF (ctxOf t self f) f)

/-- the same, paths rendered as in Model/Print.lean -/
def visit (t : Table) (self : Nat) (f : SFile) : List Event := (visitP t self f).map PEvent.render

/-- the walk that never passes through an alias (fuel 0): the *written* part of the file -/
def visitWritten (f : SFile) : List PEvent := flat [] (fileF ⟨[], 0, 0, fileScope f⟩ f)

/-! ## the specification: which paths are declared in a file (lookup by position; not a traversal) -/

/-- `DeclaredTy ty p`: following `p` from a written reference of type `ty` stays inside what is written there -/
def DeclaredTy : TyExpr → Path → Prop
  | _, [] => True
  | .seq (.mk _ e _), .te :: p => DeclaredTy e p
  | .dict (.mk _ k _) _, .tk :: p => DeclaredTy k p
  | .dict _ (.mk _ v _), .tv :: p => DeclaredTy v p
  | .result (.mk _ s _) _, .ts :: p => DeclaredTy s p
  | .result _ (.mk _ f _), .tf :: p => DeclaredTy f p
  | _, _ => False

/-- below an owner of a type reference: nothing, or `.t` and what is written in the type -/
def DeclaredOwner (ty : TRef) : Path → Prop
  | [] => True
  | .t :: p => DeclaredTy ty.ty p
  | _ => False

def DeclaredFields (fs : List Field) : Path → Prop
  | .f k :: p => match fs[k]? with | some fl => DeclaredOwner fl.ty p | none => False
  | _ => False

def DeclaredParams (ps : List Param) (k : Nat) (p : Path) : Prop :=
  match ps[k]? with | some pa => DeclaredOwner pa.ty p | none => False

def DeclaredOp (o : Op) : Path → Prop
  | [] => True
  | .p k :: p => DeclaredParams o.params k p
  | .r k :: p => DeclaredParams (retParams o.ret) k p
  | _ => False

def DeclaredEnumerator (en : Enumerator) : Path → Prop
  | [] => True
  | p => match en.fields with | some fs => DeclaredFields fs p | none => False

def DeclaredIn : Def → Path → Prop
  | _, [] => True
  | .struct _ _ _ _ fs, p => DeclaredFields fs p
  | .iface _ _ _ _ ops, .o k :: p => match ops[k]? with | some o => DeclaredOp o p | none => False
  | .enum _ _ _ _ _ _ es, .e k :: p => match es[k]? with | some en => DeclaredEnumerator en p | none => False
  | .alias _ _ _ ty, .t :: p => DeclaredTy ty.ty p
  | _, _ => False

/-- `Declared f p`: `p` is the position of an element written in file `f` that the visitor has a callback for -/
def Declared (f : SFile) : Path → Prop
  | [.file] => True
  | [.mod] => f.module.isSome
  | .d j :: p => match f.defs[j]? with | some d => DeclaredIn d p | none => False
  | _ => False

/-! ## wire format -/

def Event.str (e : Event) : String :=
  e.kind ++ ":" ++ e.path ++ (if e.kind == "typeref" then (if e.foreign then "@other" else "@own") else "")

def eventsStr (es : List Event) : String := ",".intercalate (es.map Event.str)

/-- the observation of projection `c20:events` for a valid program -/
def visitDump (p : Program) : String :=
  let t := buildTable p
  "|".intercalate (p.zipIdx.map fun (f, i) => eventsStr (visit t i f)) ++ " diags=- oracle=ok"

end Slicec.Visit
