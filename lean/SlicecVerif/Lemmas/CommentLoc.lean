/-
  Lemmas about the located model of the comment lexer (Model/CommentLoc.lean), C09:
  §1 the cursor in the scanning loops; §2 erasure (forgetting locations gives the C16 lexer model);
  §3 one step: what was consumed, where the token lies, what it spells; §4 one line: the tokens tile the line
  (`Tiled`), the line ends in the zero-width `Newline` at its end; §5 the whole comment.
-/
import SlicecVerif.Model.CommentLoc
import SlicecVerif.Lemmas.Layout

namespace Slicec.CLoc

open Slicec

/-! ## §1 the cursor -/

/-- `n` times `advance_buffer` -/
def cadvN (l : Loc) (n : Nat) : Loc := ⟨l.row, l.col + n⟩

theorem cadvN_zero (l : Loc) : cadvN l 0 = l := rfl

theorem cadv_eq (l : Loc) : cadv l = cadvN l 1 := rfl

theorem cadvN_cadvN (l : Loc) (a b : Nat) : cadvN (cadvN l a) b = cadvN l (a + b) := by
  simp [cadvN, Nat.add_assoc]

theorem cadvWhile_eq (p : Char → Bool) (cur : Loc) (cs : Str) :
    cadvWhile p cur cs = cadvN cur (cs.takeWhile p).length := by
  induction cs generalizing cur with
  | nil => rfl
  | cons c cs ih =>
    simp only [cadvWhile, List.takeWhile_cons]
    split
    · rw [ih, cadv_eq, cadvN_cadvN]; simp [Nat.add_comm]
    · rfl

theorem CLine.at_eq (l : CLine) (k : Nat) : l.at k = cadvN l.start k := rfl

theorem all_takeWhile (p : Char → Bool) (cs : Str) : (cs.takeWhile p).all p = true := by
  induction cs with
  | nil => rfl
  | cons c cs ih =>
    simp only [List.takeWhile_cons]
    split
    · simp_all
    · rfl

theorem dropWhile_nil_all (p : Char → Bool) (cs : Str) (h : cs.dropWhile p = []) : cs.all p = true ∧ cs.takeWhile p = cs := by
  induction cs with
  | nil => exact ⟨rfl, rfl⟩
  | cons c cs ih =>
    simp only [List.dropWhile_cons] at h
    split at h
    · rename_i hc
      have := ih h
      simp [hc, this.1, this.2]
    · cases h

/-! ## §2 erasure -/

theorem lexMessageLoc_erase (cur : Loc) (cs : Str) :
    (lexMessageLoc cur cs).1.tok = (lexMessage cs).1 ∧ (lexMessageLoc cur cs).2.1 = (lexMessage cs).2.1 ∧
    (lexMessageLoc cur cs).2.2.1 = (lexMessage cs).2.2 := by
  unfold lexMessageLoc lexMessage
  split
  · simp only
    generalize List.dropWhile isWsC _ = r
    split
    · exact ⟨rfl, rfl, rfl⟩
    · split
      · rename_i h; exact (h _ rfl).elim
      · exact ⟨rfl, rfl, rfl⟩
  · split
    · rename_i h; exact (h _ rfl).elim
    · exact ⟨rfl, rfl, rfl⟩

theorem lexTagComponentLoc_erase (mode : LMode) (cur : Loc) (cs : Str) :
    (lexTagComponentLoc mode cur cs).erase = lexTagComponent mode cs := by
  unfold lexTagComponentLoc lexTagComponent
  simp only
  generalize cadvWhile isWsC cur cs = cur0
  generalize List.dropWhile isWsC cs = r
  split
  · rfl
  · rename_i rest
    simp only
    unfold readTagKeywordLoc
    simp only
    cases hU : readTagKeyword mode rest with
    | mk a' r' => cases a' <;> rfl
  all_goals
    repeat' split
    all_goals first | rfl | grind [LTagStep.erase]

theorem erase_cons (t : LCTok) (o : LLexOut) : (o.cons t).erase = (o.erase).cons t.tok := rfl

theorem lexLineLoc_erase (fuel : Nat) (mode : LMode) (cur : Loc) (cs : Str) :
    (lexLineLoc fuel mode cur cs).erase = lexLine fuel mode cs := by
  induction fuel generalizing mode cur cs with
  | zero => rfl
  | succ fuel ih =>
    unfold lexLineLoc lexLine
    cases cs with
    | nil => cases mode <;> rfl
    | cons c cs =>
      cases mode with
      | message =>
        simp only
        have h := lexMessageLoc_erase cur (c :: cs)
        cases hL : lexMessageLoc cur (c :: cs) with
        | mk t x => cases x with
          | mk m y => cases y with
            | mk rest cur' =>
              cases hU : lexMessage (c :: cs) with
              | mk t' x' => cases x' with
                | mk m' rest' =>
                  rw [hL, hU] at h
                  simp only at h
                  obtain ⟨h1, h2, h3⟩ := h
                  subst h1 h2 h3
                  simp only [erase_cons, ih]
      | blockTag =>
        simp only
        have h := lexTagComponentLoc_erase .blockTag cur (c :: cs)
        cases hL : lexTagComponentLoc .blockTag cur (c :: cs) with
        | eol cur' => rw [hL] at h; simp only [LTagStep.erase] at h; rw [← h]; simp only [ih]
        | tok t m rest cur' => rw [hL] at h; simp only [LTagStep.erase] at h; rw [← h]; simp only [erase_cons, ih]
        | err e => rw [hL] at h; simp only [LTagStep.erase] at h; rw [← h]; rfl
      | inlineTag =>
        simp only
        have h := lexTagComponentLoc_erase .inlineTag cur (c :: cs)
        cases hL : lexTagComponentLoc .inlineTag cur (c :: cs) with
        | eol cur' => rw [hL] at h; simp only [LTagStep.erase] at h; rw [← h]; simp only [ih]
        | tok t m rest cur' => rw [hL] at h; simp only [LTagStep.erase] at h; rw [← h]; simp only [erase_cons, ih]
        | err e => rw [hL] at h; simp only [LTagStep.erase] at h; rw [← h]; rfl

theorem lexOneLineLoc_erase (l : CLine) : (lexOneLineLoc l).erase = lexOneLine l.text := lexLineLoc_erase _ _ _ _

theorem lexCommentLoc_erase (ls : List CLine) : (lexCommentLoc ls).erase = lexComment (ls.map (·.text)) := by
  induction ls with
  | nil => rfl
  | cons l ls ih =>
    simp only [lexCommentLoc, lexComment, List.map_cons]
    have h := lexOneLineLoc_erase l
    cases he : (lexOneLineLoc l).err with
    | some e =>
      have : (lexOneLine l.text).err = some e.err := by rw [← h]; simp [LLexOut.erase, he]
      simp only [this, h]
    | none =>
      have : (lexOneLine l.text).err = none := by rw [← h]; simp [LLexOut.erase, he]
      simp only [this]
      rw [← ih, ← h]
      simp [LLexOut.erase]

/-! ## §3 one step -/

theorem isAlpha_isIdChar (c : Char) (h : c.isAlpha = true) : isIdCharC c = true := by
  simp [isIdCharC, Char.isAlphanum, h]

/-- `read_tag_keyword`: the identifier is the alphanumeric run behind the `@`; a keyword is a row of the table -/
theorem readTagKeyword_spec (mode : LMode) (a : Str) :
    (readTagKeyword mode a).2 = a.dropWhile isIdCharC ∧
    (match (readTagKeyword mode a).1 with
     | .ok t => ∃ k inl, t = .kw k ∧ (a.takeWhile isIdCharC, k, inl) ∈ Gen.commentTagKeywords
     | .error e => cerrSpells e ('@' :: a.takeWhile isIdCharC) (a.dropWhile isIdCharC)) := by
  unfold readTagKeyword
  simp only
  cases hf : List.find? (fun r => r.1 == List.takeWhile isIdCharC a) Gen.commentTagKeywords with
  | some x =>
    obtain ⟨name, k, inl⟩ := x
    have hm := List.mem_of_find?_eq_some hf
    have hp := List.find?_some hf
    simp only [beq_iff_eq] at hp
    subst hp
    simp only
    split
    · exact ⟨rfl, k, inl, rfl, hm⟩
    · exact ⟨rfl, rfl⟩
  | none =>
    simp only
    split
    · rename_i h
      refine ⟨rfl, ?_⟩
      simp only [cerrSpells]
      simp only [List.isEmpty_iff] at h
      rw [h]
    · exact ⟨rfl, rfl⟩

theorem takeWhile_ne_nil_of_head (p : Char → Bool) (c : Char) (cs : Str) (h : p c = true) : (c :: cs).takeWhile p ≠ [] := by
  simp [h]

/-- `lex_message` on a non-empty buffer: the token starts at the cursor, covers exactly the consumed characters `mid`,
    the cursor afterwards is the token's end -/
theorem lexMessageLoc_spec (cur : Loc) (c : Char) (cs : Str) :
    ∃ mid, c :: cs = mid ++ (lexMessageLoc cur (c :: cs)).2.2.1 ∧
      (lexMessageLoc cur (c :: cs)).1.start = cur ∧
      (lexMessageLoc cur (c :: cs)).1.stop = cadvN cur mid.length ∧
      (lexMessageLoc cur (c :: cs)).2.2.2 = cadvN cur mid.length ∧
      cspells (lexMessageLoc cur (c :: cs)).1.tok mid (lexMessageLoc cur (c :: cs)).2.2.1 ∧
      (lexMessageLoc cur (c :: cs)).1.tok ≠ .newline ∧ mid ≠ [] := by
  unfold lexMessageLoc
  split
  · rename_i rest heq
    simp only [List.cons.injEq] at heq
    obtain ⟨hc, hr⟩ := heq
    subst hc hr
    simp only
    have hsplit : cs = cs.takeWhile isWsC ++ cs.dropWhile isWsC := (List.takeWhile_append_dropWhile).symm
    split
    · rename_i tail hd
      refine ⟨'{' :: cs.takeWhile isWsC, ?_, rfl, ?_, ?_, ?_, by simp, by simp⟩
      · simp [List.takeWhile_append_dropWhile]
      · simp only [cadvWhile_eq, cadv_eq, cadvN_cadvN, List.length_cons]; congr 1; omega
      · simp only [cadvWhile_eq, cadv_eq, cadvN_cadvN, List.length_cons]; congr 1; omega
      · exact ⟨cs.takeWhile isWsC, rfl, all_takeWhile _ _, by rw [hd]; rfl⟩
    · refine ⟨'{' :: cs.takeWhile isWsC ++ (cs.dropWhile isWsC).takeWhile (· != '{'), ?_, rfl, ?_, ?_, ?_, by simp, by simp⟩
      · simp [List.append_assoc, List.takeWhile_append_dropWhile]
      · simp only [cadvWhile_eq, cadv_eq, cadvN_cadvN, List.length_cons, List.length_append]; congr 1; omega
      · simp only [cadvWhile_eq, cadv_eq, cadvN_cadvN, List.length_cons, List.length_append]; congr 1; omega
      · exact ⟨rfl, by simp⟩
  · rename_i hne
    have hc : c ≠ '{' := fun e => hne cs (by rw [e])
    have hne' : (c :: cs).takeWhile (· != '{') ≠ [] := takeWhile_ne_nil_of_head _ c cs (by simp [hc])
    refine ⟨(c :: cs).takeWhile (· != '{'), ?_, rfl, ?_, ?_, ?_, by simp, hne'⟩
    · simp [List.takeWhile_append_dropWhile]
    · simp only [cadvWhile_eq]
    · simp only [cadvWhile_eq]
    · exact ⟨rfl, hne'⟩

/-- what one call of `lex_tag_component` says about locations -/
def TagStepOk (cur : Loc) (cs : Str) : LTagStep → Prop
  | .eol cur' => cs.all isWsC = true ∧ cur' = cadvN cur cs.length
  | .tok t _ rest cur' => ∃ ws mid, cs = ws ++ (mid ++ rest) ∧ ws.all isWsC = true ∧ t.start = cadvN cur ws.length ∧
      t.stop = cadvN cur (ws.length + mid.length) ∧ cur' = t.stop ∧ cspells t.tok mid rest ∧ t.tok ≠ .newline ∧ mid ≠ []
  | .err e => ∃ ws mid post, cs = ws ++ (mid ++ post) ∧ ws.all isWsC = true ∧ e.start = cadvN cur ws.length ∧
      e.stop = cadvN cur (ws.length + mid.length) ∧ cerrSpells e.err mid post

theorem lexTagComponentLoc_spec (mode : LMode) (cur : Loc) (cs : Str) : TagStepOk cur cs (lexTagComponentLoc mode cur cs) := by
  unfold lexTagComponentLoc
  simp only
  have hsplit : cs = cs.takeWhile isWsC ++ cs.dropWhile isWsC := (List.takeWhile_append_dropWhile).symm
  have hws := all_takeWhile isWsC cs
  rw [cadvWhile_eq]
  generalize hw : cs.takeWhile isWsC = ws at hsplit hws
  generalize hr : cs.dropWhile isWsC = r at hsplit
  subst hsplit
  split
  · -- end of line
    simp only [TagStepOk, List.append_nil]
    exact ⟨hws, by first | rfl | trivial⟩
  · -- `@`
    rename_i rest
    have hk := readTagKeyword_spec mode rest
    unfold readTagKeywordLoc
    simp only
    cases hU : readTagKeyword mode rest with
    | mk a' r' =>
      rw [hU] at hk
      obtain ⟨hk1, hk2⟩ := hk
      simp only at hk1 hk2
      subst hk1
      have hrest : rest = rest.takeWhile isIdCharC ++ rest.dropWhile isIdCharC := (List.takeWhile_append_dropWhile).symm
      cases a' with
      | ok t =>
        simp only [TagStepOk]
        obtain ⟨k, inl, ht, hm⟩ := hk2
        subst ht
        refine ⟨ws, '@' :: rest.takeWhile isIdCharC, ?_, hws, (by first | rfl | trivial), ?_, (by first | rfl | trivial), ⟨_, inl, hm, (by first | rfl | trivial)⟩, by simp, by simp⟩
        · simp [List.takeWhile_append_dropWhile]
        · simp only [cadvWhile_eq, cadv_eq, cadvN_cadvN, List.length_cons]; congr 1; omega
      | error e =>
        simp only [TagStepOk]
        refine ⟨ws, '@' :: rest.takeWhile isIdCharC, rest.dropWhile isIdCharC, ?_, hws, (by first | rfl | trivial), ?_, hk2⟩
        · simp [List.takeWhile_append_dropWhile]
        · simp only [cadvWhile_eq, cadv_eq, cadvN_cadvN, List.length_cons]; congr 1; omega
  · -- `::`
    rename_i rest
    simp only [TagStepOk]
    exact ⟨ws, [':', ':'], (by first | rfl | trivial), hws, (by first | rfl | trivial), by simp [cadv_eq, cadvN_cadvN], (by first | rfl | trivial), rfl, by simp, by simp⟩
  · -- `:`
    rename_i rest _
    simp only [TagStepOk]
    exact ⟨ws, [':'], (by first | rfl | trivial), hws, (by first | rfl | trivial), by simp [cadv_eq, cadvN_cadvN], (by first | rfl | trivial), rfl, by simp, by simp⟩
  · -- `}`
    rename_i rest
    simp only [TagStepOk]
    exact ⟨ws, ['}'], (by first | rfl | trivial), hws, (by first | rfl | trivial), by simp [cadv_eq, cadvN_cadvN], (by first | rfl | trivial), rfl, by simp, by simp⟩
  · rename_i c rest _ _ _ _
    split
    · rename_i ha
      simp only [TagStepOk]
      have hne : (c :: rest).takeWhile isIdCharC ≠ [] := takeWhile_ne_nil_of_head _ c rest (isAlpha_isIdChar c ha)
      refine ⟨ws, (c :: rest).takeWhile isIdCharC, ?_, hws, (by first | rfl | trivial), ?_, (by first | rfl | trivial), ⟨rfl, hne⟩, by simp, hne⟩
      · simp [List.takeWhile_append_dropWhile]
      · simp only [cadvWhile_eq, cadvN_cadvN]
    · simp only [TagStepOk]
      exact ⟨ws, [c], rest, (by first | rfl | trivial), hws, (by first | rfl | trivial), by simp [cadv_eq, cadvN_cadvN], (by first | rfl | trivial)⟩

/-! ## §4 one line -/

/-- the tokens (and the final error, if any) of a line tile the text `cs` that starts at cursor `cur`: every element
    begins after a run of whitespace `ws` behind its predecessor, covers exactly the characters `mid` it spells
    (one column per character), and the next element is sought from its end on in what is left (`post`) -/
def Tiled : Loc → Str → List LCTok → Option LCErr → Prop
  | _, _, [], none => True
  | cur, cs, [], some e => ∃ ws mid post, cs = ws ++ (mid ++ post) ∧ ws.all isWsC = true ∧
      e.start = cadvN cur ws.length ∧ e.stop = cadvN cur (ws.length + mid.length) ∧ cerrSpells e.err mid post
  | cur, cs, t :: ts, e => ∃ ws mid post, cs = ws ++ (mid ++ post) ∧ ws.all isWsC = true ∧
      t.start = cadvN cur ws.length ∧ t.stop = cadvN cur (ws.length + mid.length) ∧ cspells t.tok mid post ∧
      Tiled t.stop post ts e

theorem tiled_newline (cur : Loc) (ws : Str) (h : ws.all isWsC = true) :
    Tiled cur ws [⟨cadvN cur ws.length, .newline, cadvN cur ws.length⟩] none :=
  ⟨ws, [], [], by simp, h, rfl, by simp, ⟨rfl, rfl⟩, trivial⟩

theorem tiled_unterminated (cur : Loc) (ws : Str) (h : ws.all isWsC = true) :
    Tiled cur ws [] (some ⟨cadvN cur ws.length, .unterminatedInlineTag, cadvN cur ws.length⟩) :=
  ⟨ws, [], [], by simp, h, rfl, by simp, ⟨rfl, rfl⟩⟩

theorem lexLineLoc_nil (fuel : Nat) (mode : LMode) (cur : Loc) :
    lexLineLoc (fuel + 1) mode cur [] =
      (if mode = .inlineTag then ⟨[], some ⟨cur, .unterminatedInlineTag, cur⟩⟩ else ⟨[⟨cur, .newline, cur⟩], none⟩) := by
  cases mode <;> rfl

/-- every line, every mode, every cursor, every fuel: the output tiles the line -/
theorem lexLineLoc_tiled (fuel : Nat) (mode : LMode) (cur : Loc) (cs : Str) :
    Tiled cur cs (lexLineLoc fuel mode cur cs).toks (lexLineLoc fuel mode cur cs).err := by
  induction fuel generalizing mode cur cs with
  | zero => exact trivial
  | succ fuel ih =>
    cases cs with
    | nil =>
      rw [lexLineLoc_nil]
      split
      · exact tiled_unterminated cur [] rfl
      · exact tiled_newline cur [] rfl
    | cons c cs =>
      have tagCase : ∀ m : LMode, m ≠ .message →
          lexLineLoc (fuel + 1) m cur (c :: cs) =
            (match lexTagComponentLoc m cur (c :: cs) with
             | .eol cur' => lexLineLoc fuel m cur' []
             | .tok t m' rest cur' => (lexLineLoc fuel m' cur' rest).cons t
             | .err e => ⟨[], some e⟩) := by
        intro m hm; cases m <;> first | rfl | exact absurd rfl hm
      by_cases hm : mode = .message
      · subst hm
        have hdef : lexLineLoc (fuel + 1) .message cur (c :: cs) =
            (lexLineLoc fuel (lexMessageLoc cur (c :: cs)).2.1 (lexMessageLoc cur (c :: cs)).2.2.2 (lexMessageLoc cur (c :: cs)).2.2.1).cons
              (lexMessageLoc cur (c :: cs)).1 := rfl
        rw [hdef]
        obtain ⟨mid, h1, h2, h3, h4, h5, _, _⟩ := lexMessageLoc_spec cur c cs
        refine ⟨[], mid, _, by simpa using h1, rfl, by rw [h2]; rfl, by rw [h3]; simp, h5, ?_⟩
        rw [h3, ← h4]
        exact ih _ _ _
      · rw [tagCase mode hm]
        have hs := lexTagComponentLoc_spec mode cur (c :: cs)
        cases hL : lexTagComponentLoc mode cur (c :: cs) with
        | eol cur' =>
          rw [hL] at hs
          obtain ⟨ha, hc⟩ := hs
          simp only
          cases fuel with
          | zero => exact trivial
          | succ f =>
            rw [lexLineLoc_nil, hc]
            split
            · exact tiled_unterminated cur _ ha
            · exact tiled_newline cur _ ha
        | tok t m rest cur' =>
          rw [hL] at hs
          obtain ⟨ws, mid, h1, h2, h3, h4, h5, h6, _, _⟩ := hs
          simp only
          refine ⟨ws, mid, rest, h1, h2, h3, h4, h6, ?_⟩
          rw [← h5]
          exact ih _ _ _
        | err e =>
          rw [hL] at hs
          exact hs

/-- the `Newline` at the end of a line: zero-width, behind the last character -/
def nlAt (l : Loc) : LCTok := ⟨l, .newline, l⟩

/-- shape of a line's output: without error it is tokens that are not `Newline` followed by exactly one `Newline` located
    behind the line's last character; with an error there is no `Newline` at all -/
def LineShape (endLoc : Loc) (o : LLexOut) : Prop :=
  match o.err with
  | none => ∃ init, o.toks = init ++ [nlAt endLoc] ∧ ∀ t ∈ init, t.tok ≠ .newline
  | some _ => ∀ t ∈ o.toks, t.tok ≠ .newline

theorem LineShape.cons {endLoc : Loc} {o : LLexOut} (t : LCTok) (ht : t.tok ≠ .newline) (h : LineShape endLoc o) :
    LineShape endLoc (o.cons t) := by
  unfold LineShape at *
  simp only [LLexOut.cons]
  cases he : o.err with
  | none =>
    rw [he] at h
    obtain ⟨init, h1, h2⟩ := h
    refine ⟨t :: init, by simp [h1], ?_⟩
    intro x hx
    cases hx with
    | head => exact ht
    | tail _ hx => exact h2 x hx
  | some e =>
    rw [he] at h
    intro x hx
    cases hx with
    | head => exact ht
    | tail _ hx => exact h x hx

theorem lineShape_nil (fuel : Nat) (mode : LMode) (cur : Loc) : LineShape cur (lexLineLoc (fuel + 1) mode cur []) := by
  rw [lexLineLoc_nil]
  split
  · intro t ht; cases ht
  · exact ⟨[], rfl, by simp⟩

/-- with the fuel `lexOneLineLoc` provides (more than one unit per character) the counter is never the reason for a result -/
theorem lexLineLoc_shape (fuel : Nat) (mode : LMode) (cur : Loc) (cs : Str) (hf : cs.length < fuel) :
    LineShape (cadvN cur cs.length) (lexLineLoc fuel mode cur cs) := by
  induction fuel generalizing mode cur cs with
  | zero => omega
  | succ fuel ih =>
    cases cs with
    | nil => exact lineShape_nil fuel mode cur
    | cons c cs =>
      have tagCase : ∀ m : LMode, m ≠ .message →
          lexLineLoc (fuel + 1) m cur (c :: cs) =
            (match lexTagComponentLoc m cur (c :: cs) with
             | .eol cur' => lexLineLoc fuel m cur' []
             | .tok t m' rest cur' => (lexLineLoc fuel m' cur' rest).cons t
             | .err e => ⟨[], some e⟩) := by
        intro m hm; cases m <;> first | rfl | exact absurd rfl hm
      by_cases hm : mode = .message
      · subst hm
        have hdef : lexLineLoc (fuel + 1) .message cur (c :: cs) =
            (lexLineLoc fuel (lexMessageLoc cur (c :: cs)).2.1 (lexMessageLoc cur (c :: cs)).2.2.2 (lexMessageLoc cur (c :: cs)).2.2.1).cons
              (lexMessageLoc cur (c :: cs)).1 := rfl
        rw [hdef]
        obtain ⟨mid, h1, _, _, h4, _, h6, h7⟩ := lexMessageLoc_spec cur c cs
        have hlen : (c :: cs).length = mid.length + (lexMessageLoc cur (c :: cs)).2.2.1.length := by
          conv => lhs; rw [h1]
          simp
        have hmid : 0 < mid.length := List.length_pos_iff.mpr h7
        have := ih (lexMessageLoc cur (c :: cs)).2.1 (lexMessageLoc cur (c :: cs)).2.2.2 (lexMessageLoc cur (c :: cs)).2.2.1 (by omega)
        rw [h4, cadvN_cadvN, ← hlen] at this
        rw [h4]
        exact LineShape.cons _ h6 this
      · rw [tagCase mode hm]
        have hs := lexTagComponentLoc_spec mode cur (c :: cs)
        cases hL : lexTagComponentLoc mode cur (c :: cs) with
        | eol cur' =>
          rw [hL] at hs
          obtain ⟨_, hc⟩ := hs
          simp only
          cases fuel with
          | zero => simp at hf
          | succ f => rw [hc]; exact lineShape_nil f mode _
        | tok t m rest cur' =>
          rw [hL] at hs
          obtain ⟨ws, mid, h1, _, _, h4, h5, _, h7, h8⟩ := hs
          simp only
          have hlen : (c :: cs).length = ws.length + mid.length + rest.length := by
            conv => lhs; rw [h1]
            simp; omega
          have hmid : 0 < mid.length := List.length_pos_iff.mpr h8
          have := ih m cur' rest (by omega)
          have hc : cur' = cadvN cur (ws.length + mid.length) := by rw [h5, h4]
          rw [hc, cadvN_cadvN, ← hlen] at this
          rw [hc]
          exact LineShape.cons _ h7 this
        | err e =>
          simp only
          intro t ht; cases ht

/-! ### flat consequences of the tiling -/

/-- a token of a tiled line lies over `mid`, the characters it spells, behind a prefix `pre` of the line -/
theorem Tiled.mem {cur : Loc} {cs : Str} {toks : List LCTok} {e : Option LCErr} (h : Tiled cur cs toks e) {t : LCTok} (ht : t ∈ toks) :
    ∃ pre mid post, cs = pre ++ (mid ++ post) ∧ t.start = cadvN cur pre.length ∧
      t.stop = cadvN cur (pre.length + mid.length) ∧ cspells t.tok mid post := by
  induction toks generalizing cur cs with
  | nil => cases ht
  | cons t0 ts ih =>
    obtain ⟨ws, mid, post, h1, _, h3, h4, h5, h6⟩ := h
    cases ht with
    | head => exact ⟨ws, mid, post, h1, h3, h4, h5⟩
    | tail _ ht =>
      obtain ⟨pre', mid', post', g1, g2, g3, g4⟩ := ih h6 ht
      refine ⟨ws ++ mid ++ pre', mid', post', ?_, ?_, ?_, g4⟩
      · rw [h1, g1]; simp [List.append_assoc]
      · rw [g2, h4, cadvN_cadvN]; simp [Nat.add_assoc]
      · rw [g3, h4, cadvN_cadvN]; simp [Nat.add_assoc]

/-- the error of a tiled line lies over the characters it is about -/
theorem Tiled.err_mem {cur : Loc} {cs : Str} {toks : List LCTok} {e : LCErr} (h : Tiled cur cs toks (some e)) :
    ∃ pre mid post, cs = pre ++ (mid ++ post) ∧ e.start = cadvN cur pre.length ∧
      e.stop = cadvN cur (pre.length + mid.length) ∧ cerrSpells e.err mid post := by
  induction toks generalizing cur cs with
  | nil =>
    obtain ⟨ws, mid, post, h1, _, h3, h4, h5⟩ := h
    exact ⟨ws, mid, post, h1, h3, h4, h5⟩
  | cons t0 ts ih =>
    obtain ⟨ws, mid, post, h1, _, _, h4, _, h6⟩ := h
    obtain ⟨pre', mid', post', g1, g2, g3, g4⟩ := ih h6
    refine ⟨ws ++ mid ++ pre', mid', post', ?_, ?_, ?_, g4⟩
    · rw [h1, g1]; simp [List.append_assoc]
    · rw [g2, h4, cadvN_cadvN]; simp [Nat.add_assoc]
    · rw [g3, h4, cadvN_cadvN]; simp [Nat.add_assoc]

/-- on one row, in order, without overlap: every token starts at or behind the cursor, ends at or behind its start, and
    every later token (and the error) starts at or behind its end -/
def OrderedFrom (cur : Loc) : List LCTok → Option LCErr → Prop
  | [], none => True
  | [], some e => e.start.row = cur.row ∧ e.stop.row = cur.row ∧ cur.col ≤ e.start.col ∧ e.start.col ≤ e.stop.col
  | t :: ts, e => t.start.row = cur.row ∧ t.stop.row = cur.row ∧ cur.col ≤ t.start.col ∧ t.start.col ≤ t.stop.col ∧
      OrderedFrom t.stop ts e

theorem Tiled.ordered {cur : Loc} {cs : Str} {toks : List LCTok} {e : Option LCErr} (h : Tiled cur cs toks e) :
    OrderedFrom cur toks e := by
  induction toks generalizing cur cs with
  | nil =>
    cases e with
    | none => exact trivial
    | some e =>
      obtain ⟨ws, mid, post, _, _, h3, h4, _⟩ := h
      refine ⟨by rw [h3]; rfl, by rw [h4]; rfl, by rw [h3]; simp [cadvN], by rw [h3, h4]; simp [cadvN]⟩
  | cons t ts ih =>
    obtain ⟨ws, mid, post, _, _, h3, h4, _, h6⟩ := h
    refine ⟨by rw [h3]; rfl, by rw [h4]; rfl, by rw [h3]; simp [cadvN], by rw [h3, h4]; simp [cadvN], ih h6⟩

theorem OrderedFrom.mono {cur cur' : Loc} {toks : List LCTok} {e : Option LCErr} (h : OrderedFrom cur toks e)
    (hr : cur'.row = cur.row) (hc : cur'.col ≤ cur.col) : OrderedFrom cur' toks e := by
  cases toks with
  | nil =>
    cases e with
    | none => exact trivial
    | some e => obtain ⟨a, b, c, d⟩ := h; exact ⟨by omega, by omega, by omega, d⟩
  | cons t ts => obtain ⟨a, b, c, d, f⟩ := h; exact ⟨by omega, by omega, by omega, d, f⟩

/-- every token behind the cursor of an ordered list starts at or behind the cursor, on its row -/
theorem OrderedFrom.all {cur : Loc} {toks : List LCTok} {e : Option LCErr} (h : OrderedFrom cur toks e) :
    ∀ t ∈ toks, t.start.row = cur.row ∧ t.stop.row = cur.row ∧ cur.col ≤ t.start.col ∧ t.start.col ≤ t.stop.col := by
  induction toks generalizing cur with
  | nil => intro t ht; cases ht
  | cons t0 ts ih =>
    obtain ⟨a, b, c, d, f⟩ := h
    intro t ht
    cases ht with
    | head => exact ⟨a, b, c, d⟩
    | tail _ ht =>
      obtain ⟨a', b', c', d'⟩ := ih f t ht
      exact ⟨by omega, by omega, by omega, d'⟩

theorem OrderedFrom.pairwise {cur : Loc} {toks : List LCTok} {e : Option LCErr} (h : OrderedFrom cur toks e) :
    toks.Pairwise (fun a b => a.stop.row = b.start.row ∧ a.stop.col ≤ b.start.col) := by
  induction toks generalizing cur with
  | nil => exact List.Pairwise.nil
  | cons t0 ts ih =>
    obtain ⟨_, _, _, _, f⟩ := h
    refine List.Pairwise.cons ?_ (ih f)
    intro b hb
    obtain ⟨a', _, c', _⟩ := f.all b hb
    exact ⟨a'.symm, c'⟩

/-! ## §5 the whole comment -/

theorem lexOneLineLoc_tiled (l : CLine) : Tiled l.start l.text (lexOneLineLoc l).toks (lexOneLineLoc l).err :=
  lexLineLoc_tiled _ _ _ _

theorem lexOneLineLoc_shape (l : CLine) : LineShape l.endLoc (lexOneLineLoc l) :=
  lexLineLoc_shape _ _ _ _ (by omega)

theorem lexCommentLoc_tok_line (ls : List CLine) (t : LCTok) (ht : t ∈ (lexCommentLoc ls).toks) :
    ∃ l ∈ ls, t ∈ (lexOneLineLoc l).toks := by
  induction ls with
  | nil => cases ht
  | cons l ls ih =>
    simp only [lexCommentLoc] at ht
    cases he : (lexOneLineLoc l).err with
    | some e => rw [he] at ht; exact ⟨l, by simp, ht⟩
    | none =>
      rw [he] at ht
      simp only [List.mem_append] at ht
      cases ht with
      | inl h => exact ⟨l, by simp, h⟩
      | inr h => obtain ⟨l', h1, h2⟩ := ih h; exact ⟨l', by simp [h1], h2⟩

theorem lexCommentLoc_err_line (ls : List CLine) (e : LCErr) (he : (lexCommentLoc ls).err = some e) :
    ∃ l ∈ ls, (lexOneLineLoc l).err = some e := by
  induction ls with
  | nil => cases he
  | cons l ls ih =>
    simp only [lexCommentLoc] at he
    cases h : (lexOneLineLoc l).err with
    | some e' => rw [h] at he; simp only at he; exact ⟨l, by simp, by rw [← he]⟩
    | none => rw [h] at he; obtain ⟨l', h1, h2⟩ := ih he; exact ⟨l', by simp [h1], h2⟩

def isNl (t : LCTok) : Bool := t.tok == .newline

/-- number of leading lines that lex without error -/
def cleanLines : List CLine → Nat
  | [] => 0
  | l :: ls => match (lexOneLineLoc l).err with | some _ => 0 | none => cleanLines ls + 1

theorem filter_isNl_of_shape {endLoc : Loc} {o : LLexOut} (h : LineShape endLoc o) :
    o.toks.filter isNl = (match o.err with | none => [nlAt endLoc] | some _ => []) := by
  unfold LineShape at h
  cases he : o.err with
  | none =>
    rw [he] at h
    obtain ⟨init, h1, h2⟩ := h
    rw [h1, List.filter_append]
    have : init.filter isNl = [] := by
      rw [List.filter_eq_nil_iff]
      intro t ht
      simp [isNl, h2 t ht]
    rw [this]
    rfl
  | some e =>
    rw [he] at h
    rw [List.filter_eq_nil_iff]
    intro t ht
    simp [isNl, h t ht]

/-- the `Newline` tokens of a comment are, in order, the zero-width positions at the ends of its lines (of those that were
    lexed: up to the first line with a lexer error) -/
theorem lexCommentLoc_newlines (ls : List CLine) :
    (lexCommentLoc ls).toks.filter isNl = (ls.take (cleanLines ls)).map (fun l => nlAt l.endLoc) := by
  induction ls with
  | nil => rfl
  | cons l ls ih =>
    have hs := filter_isNl_of_shape (lexOneLineLoc_shape l)
    simp only [lexCommentLoc, cleanLines]
    cases he : (lexOneLineLoc l).err with
    | some e => rw [he] at hs; simp only at hs ⊢; rw [hs]; rfl
    | none =>
      rw [he] at hs
      simp only [List.filter_append, hs, ih, List.take_succ_cons, List.map_cons]
      rfl

theorem lexCommentLoc_err_none_iff (ls : List CLine) : (lexCommentLoc ls).err = none ↔ cleanLines ls = ls.length := by
  induction ls with
  | nil => simp [lexCommentLoc, cleanLines]
  | cons l ls ih =>
    simp only [lexCommentLoc, cleanLines]
    cases he : (lexOneLineLoc l).err with
    | some e => simp [he]
    | none => simp [ih]

/-- the error of an ordered line starts on the cursor's row, at or behind the cursor -/
theorem OrderedFrom.err_from {cur : Loc} {toks : List LCTok} {e : LCErr} (h : OrderedFrom cur toks (some e)) :
    e.start.row = cur.row ∧ cur.col ≤ e.start.col := by
  induction toks generalizing cur with
  | nil => exact ⟨h.1, h.2.2.1⟩
  | cons x xs ih =>
    obtain ⟨_, b, c, d, f⟩ := h
    obtain ⟨r1, r2⟩ := ih f
    exact ⟨by omega, by omega⟩

/-- and behind every token of the line -/
theorem OrderedFrom.err_after {cur : Loc} {toks : List LCTok} {e : LCErr} (h : OrderedFrom cur toks (some e)) :
    ∀ t ∈ toks, t.stop.row = e.start.row ∧ t.stop.col ≤ e.start.col := by
  induction toks generalizing cur with
  | nil => intro t ht; cases ht
  | cons x xs ih =>
    obtain ⟨_, _, _, _, f⟩ := h
    intro t ht
    cases ht with
    | head => obtain ⟨r1, r2⟩ := f.err_from; exact ⟨r1.symm, r2⟩
    | tail _ ht => exact ih f t ht

/-- tokens of different lines: when the rows of the lines increase, the whole stream is in order, and the error (if any)
    lies behind every token -/
theorem lexCommentLoc_ordered (ls : List CLine) (hrows : ls.Pairwise (fun a b => a.start.row < b.start.row)) :
    (lexCommentLoc ls).toks.Pairwise (fun a b => a.stop.le b.start) ∧
    ∀ e, (lexCommentLoc ls).err = some e → ∀ t ∈ (lexCommentLoc ls).toks, t.stop.le e.start := by
  induction ls with
  | nil => exact ⟨List.Pairwise.nil, fun e he => by cases he⟩
  | cons l ls ih =>
    obtain ⟨hl, hrest⟩ := List.pairwise_cons.mp hrows
    obtain ⟨ih1, ih2⟩ := ih hrest
    have hord := (lexOneLineLoc_tiled l).ordered
    have hpw : (lexOneLineLoc l).toks.Pairwise (fun a b => a.stop.le b.start) :=
      hord.pairwise.imp (fun h => Or.inr h)
    simp only [lexCommentLoc]
    cases he : (lexOneLineLoc l).err with
    | some e =>
      simp only
      refine ⟨hpw, ?_⟩
      intro e' he' t ht
      rw [he] at he'
      simp only [Option.some.injEq] at he'
      subst he'
      rw [he] at hord
      exact Or.inr (hord.err_after t ht)
    | none =>
      simp only
      have hcross : ∀ a ∈ (lexOneLineLoc l).toks, ∀ b ∈ (lexCommentLoc ls).toks, a.stop.le b.start := by
        intro a ha b hb
        obtain ⟨l', hl', hb'⟩ := lexCommentLoc_tok_line ls b hb
        have h1 := (hord.all a ha).2.1
        have h2 := ((lexOneLineLoc_tiled l').ordered.all b hb').1
        exact Or.inl (by rw [h1, h2]; exact hl l' hl')
      refine ⟨List.pairwise_append.mpr ⟨hpw, ih1, hcross⟩, ?_⟩
      intro e he' t ht
      simp only [List.mem_append] at ht
      cases ht with
      | inl h =>
        obtain ⟨l', hl', he''⟩ := lexCommentLoc_err_line ls e he'
        have h1 := (hord.all t h).2.1
        have ho := (lexOneLineLoc_tiled l').ordered
        rw [he''] at ho
        exact Or.inl (by rw [h1, ho.err_from.1]; exact hl l' hl')
      | inr h => exact ih2 e he' t h

end Slicec.CLoc
