import SlicecVerif.Model.Print
namespace Slicec

theorem advanceStr_append (l : Loc) (a b : String) : advanceStr l (a ++ b) = advanceStr (advanceStr l a) b := by
  simp [advanceStr, String.toList_append, List.foldl_append]

theorem join_snoc (xs : List String) (x : String) : String.join (xs ++ [x]) = String.join xs ++ x := by
  simp [String.join, List.foldl_append]

/-- lexicographic order on locations -/
def Loc.le (a b : Loc) : Prop := a.row < b.row ∨ (a.row = b.row ∧ a.col ≤ b.col)

theorem Loc.le_refl (a : Loc) : a.le a := Or.inr ⟨rfl, Nat.le_refl _⟩
theorem Loc.le_trans {a b c : Loc} (h1 : a.le b) (h2 : b.le c) : a.le c := by
  unfold Loc.le at *; omega

theorem advance_le (l : Loc) (c : Char) : l.le (advance l c) := by
  unfold advance Loc.le; split <;> simp

theorem advance_pos (l : Loc) (c : Char) (h : 1 ≤ l.row ∧ 1 ≤ l.col) : 1 ≤ (advance l c).row ∧ 1 ≤ (advance l c).col := by
  unfold advance; split <;> simp <;> omega

theorem foldl_advance_le (cs : List Char) (l : Loc) : l.le (cs.foldl advance l) := by
  induction cs generalizing l with
  | nil => exact Loc.le_refl l
  | cons c cs ih => exact Loc.le_trans (advance_le l c) (ih _)

theorem foldl_advance_pos (cs : List Char) (l : Loc) (h : 1 ≤ l.row ∧ 1 ≤ l.col) :
    1 ≤ (cs.foldl advance l).row ∧ 1 ≤ (cs.foldl advance l).col := by
  induction cs generalizing l with
  | nil => exact h
  | cons c cs ih => exact ih _ (advance_pos l c h)

theorem advanceStr_le (l : Loc) (s : String) : l.le (advanceStr l s) := foldl_advance_le _ l
theorem advanceStr_pos (l : Loc) (s : String) (h : 1 ≤ l.row ∧ 1 ≤ l.col) :
    1 ≤ (advanceStr l s).row ∧ 1 ≤ (advanceStr l s).col := foldl_advance_pos _ l h


def textOf (st : LState) : String := String.join st.out.reverse

def Loc.pos (l : Loc) : Prop := 1 ≤ l.row ∧ 1 ≤ l.col

structure LInv (st : LState) : Prop where
  loc : st.loc = advanceStr ⟨1, 1⟩ (textOf st)
  lastEnd_le : st.lastEnd.le st.loc
  lastEnd_pos : st.lastEnd.pos
  opened_ok : ∀ e ∈ st.opened, e.2.le st.lastEnd ∧ e.2.pos
  spans_ok : ∀ s ∈ st.spans, s.start.le s.stop ∧ s.start.pos ∧ s.stop.le st.lastEnd

theorem textOf_push (st : LState) (txt : String) (st' : LState) (h : st'.out = txt :: st.out) :
    textOf st' = textOf st ++ txt := by
  simp [textOf, h, join_snoc]

theorem loc_pos_of_inv {st : LState} (h : LInv st) : st.loc.pos := by
  rw [h.loc]; exact advanceStr_pos _ _ ⟨Nat.le_refl _, Nat.le_refl _⟩

/-- emitting separator text moves the cursor over exactly that text and records nothing -/
theorem gap_inv (st : LState) (txt : String) (rng : Rng) (h : LInv st) :
    LInv { st with out := txt :: st.out, loc := advanceStr st.loc txt, rng := rng } := by
  refine ⟨?_, ?_, h.lastEnd_pos, h.opened_ok, h.spans_ok⟩
  · simp only [textOf, List.reverse_cons, join_snoc]
    rw [advanceStr_append]; congr 1; exact h.loc
  · exact Loc.le_trans h.lastEnd_le (advanceStr_le _ _)

theorem emitGap_inv (style : Nat) (st : LState) (canon : String) (m : Bool) (h : LInv st) :
    LInv (emitGap style st canon m) := by
  unfold emitGap
  exact gap_inv st _ _ h

theorem emitTok_inv (st : LState) (s : String) (d : Bool) (h : LInv st) : LInv (emitTok st s d) := by
  unfold emitTok
  have hp := loc_pos_of_inv h
  refine ⟨?_, Loc.le_refl _, advanceStr_pos _ _ hp, ?_, ?_⟩
  · simp only [textOf, List.reverse_cons, join_snoc]
    rw [advanceStr_append]; congr 1; exact h.loc
  · intro e he
    simp only [List.mem_append, List.mem_map] at he
    rcases he with ⟨p, _, rfl⟩ | he
    · exact ⟨advanceStr_le _ _, hp⟩
    · exact ⟨Loc.le_trans (h.opened_ok e he).1 (Loc.le_trans h.lastEnd_le (advanceStr_le _ _)), (h.opened_ok e he).2⟩
  · intro sp hsp
    obtain ⟨a, b, c⟩ := h.spans_ok sp hsp
    exact ⟨a, b, Loc.le_trans c (Loc.le_trans h.lastEnd_le (advanceStr_le _ _))⟩

theorem closeSpan_inv (st : LState) (p : String) (h : LInv st) : LInv (closeSpan st p) := by
  unfold closeSpan
  split
  · rename_i q s hf
    have hm := List.mem_of_find?_eq_some hf
    refine ⟨h.loc, h.lastEnd_le, h.lastEnd_pos, ?_, ?_⟩
    · intro e he
      exact h.opened_ok e (List.mem_filter.mp he).1
    · intro sp hsp
      simp only [List.mem_cons] at hsp
      rcases hsp with rfl | hsp
      · exact ⟨(h.opened_ok _ hm).1, (h.opened_ok _ hm).2, Loc.le_refl _⟩
      · exact h.spans_ok sp hsp
  · exact h

theorem renderItem_inv (style : Nat) (st : LState) (it : Item) (h : LInv st) : LInv (renderItem style st it) := by
  cases it with
  | tok s => exact emitTok_inv st s false h
  | ident s =>
    simp only [renderItem]
    split
    · exact emitTok_inv _ _ _ h
    · split
      · exact emitTok_inv _ _ _ h
      · exact emitTok_inv _ _ _ ⟨h.loc, h.lastEnd_le, h.lastEnd_pos, h.opened_ok, h.spans_ok⟩
  | optComma =>
    simp only [renderItem]
    split
    · exact h
    · split
      · exact ⟨h.loc, h.lastEnd_le, h.lastEnd_pos, h.opened_ok, h.spans_ok⟩
      · exact emitTok_inv _ _ _ ⟨h.loc, h.lastEnd_le, h.lastEnd_pos, h.opened_ok, h.spans_ok⟩
  | nl n => exact emitGap_inv _ _ _ _ h
  | sp => exact emitGap_inv _ _ _ _ h
  | glue => exact emitGap_inv _ _ _ _ h
  | docLine s => exact emitTok_inv st _ true h
  | op p => exact ⟨h.loc, h.lastEnd_le, h.lastEnd_pos, h.opened_ok, h.spans_ok⟩
  | cl p => exact closeSpan_inv st p h

theorem foldl_renderItem_inv (style : Nat) (items : List Item) (st : LState) (h : LInv st) :
    LInv (items.foldl (renderItem style) st) := by
  induction items generalizing st with
  | nil => exact h
  | cons it items ih => exact ih _ (renderItem_inv style st it h)

end Slicec
