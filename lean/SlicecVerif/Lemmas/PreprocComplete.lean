/-
  C06, completeness of the preprocessor parser at the token level.

  * `shapeRun`: the stack machine with everything but the `seenElse` flags forgotten; `specRun` fails exactly when
    `shapeRun` fails (`specRun_shape`), so failure of the stack machine does not depend on the symbols.
  * `lines_tree`: every line list on which `shapeRun` ends with an empty stack is `ns.lines` for a tree `ns`.
  * `parseNodes_complete`: the recursive-descent parser accepts the printed form of every tree (with the fuel the model uses).
-/
import SlicecVerif.Lemmas.Preproc

namespace Slicec.Pp

/-! ## the shape of the stack machine: one `seenElse` flag per open conditional -/

def shapeStep (s : List Bool) : ALine → Option (List Bool)
  | .src _ => some s
  | .define _ => some s
  | .undef _ => some s
  | .if_ _ => some (false :: s)
  | .elif _ =>
    match s with
    | [] => none
    | b :: r => if b then none else some (false :: r)
  | .else_ =>
    match s with
    | [] => none
    | b :: r => if b then none else some (true :: r)
  | .endif =>
    match s with
    | [] => none
    | _ :: r => some r

def shapeRun (s : List Bool) : List ALine → Option (List Bool)
  | [] => some s
  | l :: ls =>
    match shapeStep s l with
    | some s' => shapeRun s' ls
    | none => none

def shapeOf (stk : List Frame) : List Bool := stk.map (·.seenElse)

theorem specStep_shape (st : SpecSt) (l : ALine) :
    (specStep st l).map (fun st' => shapeOf st'.stack) = shapeStep (shapeOf st.stack) l := by
  obtain ⟨stk, out⟩ := st
  cases l with
  | src b => simp only [specStep, shapeStep]; split <;> rfl
  | define s => simp only [specStep, shapeStep]; split <;> rfl
  | undef s => simp only [specStep, shapeStep]; split <;> rfl
  | if_ e => simp [specStep, shapeStep, shapeOf]
  | elif e =>
    cases stk with
    | nil => simp [specStep, shapeStep, shapeOf]
    | cons fr stk =>
      simp only [specStep, shapeStep, shapeOf, List.map_cons]
      cases fr.seenElse <;> simp
  | else_ =>
    cases stk with
    | nil => simp [specStep, shapeStep, shapeOf]
    | cons fr stk =>
      simp only [specStep, shapeStep, shapeOf, List.map_cons]
      cases fr.seenElse <;> simp
  | endif =>
    cases stk with
    | nil => simp [specStep, shapeStep, shapeOf]
    | cons fr stk => simp [specStep, shapeStep, shapeOf]

/-- the stack machine and its shape fail together, and their stacks keep the same `seenElse` flags -/
theorem specRun_shape (ls : List ALine) : ∀ st : SpecSt,
    (specRun st ls).map (fun st' => shapeOf st'.stack) = shapeRun (shapeOf st.stack) ls := by
  induction ls with
  | nil => intro st; rfl
  | cons l ls ih =>
    intro st
    have h := specStep_shape st l
    simp only [specRun, shapeRun]
    cases hs : specStep st l with
    | none => rw [hs] at h; simp only [Option.map] at h; rw [← h]; rfl
    | some st' =>
      rw [hs] at h; simp only [Option.map] at h; rw [← h]
      exact ih st'

/-- the stack machine accepts a whole file (as lines) iff the shape machine ends with an empty stack -/
theorem specFile_ne_none_iff (ls : List ALine) (D : Syms) : specFile ls D ≠ none ↔ shapeRun [] ls = some [] := by
  have h := specRun_shape ls ⟨[], ⟨[], D⟩⟩
  simp only [shapeOf, List.map_nil] at h
  unfold specFile
  cases hs : specRun ⟨[], ⟨[], D⟩⟩ ls with
  | none => rw [hs] at h; simp only [Option.map] at h; rw [← h]; simp
  | some st' =>
    rw [hs] at h; simp only [Option.map] at h; rw [← h]
    obtain ⟨stk, out⟩ := st'
    cases stk with
    | nil => simp
    | cons fr stk => simp

/-- whether the stack machine fails on a line list does not depend on the symbol set -/
theorem specFile_ne_none_indep (ls : List ALine) (D D' : Syms) : specFile ls D ≠ none ↔ specFile ls D' ≠ none := by
  rw [specFile_ne_none_iff, specFile_ne_none_iff]

/-! ## the shape machine on the lines of a tree -/

theorem shapeRun_append (s : List Bool) (a b : List ALine) :
    shapeRun s (a ++ b) = (shapeRun s a).bind (fun s' => shapeRun s' b) := by
  induction a generalizing s with
  | nil => rfl
  | cons l a ih =>
    simp only [List.cons_append, shapeRun]
    split
    · exact ih _
    · rfl

/-- running over the lines of a tree leaves the stack as it was -/
theorem shapeRun_nodes (ns : Nodes) (s : List Bool) : shapeRun s ns.lines = some s := by
  have h := specRun_shape ns.lines ⟨s.map (fun b => ⟨false, false, b⟩), ⟨[], []⟩⟩
  rw [spec_nodes] at h
  simpa [shapeOf, Function.comp_def] using h.symm

/-! ## from balanced lines to a tree -/

/-- `#elif`, `#else`, `#endif`: the lines that end a `BlockContent` -/
def ALine.closer : ALine → Bool
  | .elif _ => true
  | .else_ => true
  | .endif => true
  | _ => false

/-- the first line is a closer -/
def startsCloser : List ALine → Prop
  | l :: _ => l.closer = true
  | [] => False

/-- Decomposition: a line list on which the shape machine does not fail and does not end deeper than it started
    is the lines of a `Nodes` followed by nothing (stack unchanged) or by a closer; and a line list starting with a
    closer that acts on the frame `b` is the lines of a `CondRest` followed by a run from the popped stack. -/
theorem lines_decomp : ∀ (n : Nat),
    (∀ (ls : List ALine) (s s' : List Bool), ls.length ≤ n → shapeRun s ls = some s' → s'.length ≤ s.length →
      ∃ (ns : Nodes) (rest : List ALine), ls = ns.lines ++ rest ∧ ((rest = [] ∧ s' = s) ∨ (startsCloser rest ∧ shapeRun s rest = some s'))) ∧
    (∀ (ls : List ALine) (b : Bool) (s s' : List Bool), ls.length ≤ n → startsCloser ls →
      shapeRun (b :: s) ls = some s' → s'.length ≤ s.length →
      ∃ (c : CondRest) (rest : List ALine), ls = c.lines ++ rest ∧ rest.length < ls.length ∧ shapeRun s rest = some s') := by
  intro n
  induction n with
  | zero =>
    refine ⟨?_, ?_⟩
    · intro ls s s' hl h _
      cases ls with
      | nil =>
        simp only [shapeRun, Option.some.injEq] at h
        exact ⟨Nodes.nil, [], rfl, Or.inl ⟨rfl, h.symm⟩⟩
      | cons l ls => simp at hl
    · intro ls b s s' hl hc _ _
      cases ls with
      | nil => exact absurd hc (by simp [startsCloser])
      | cons l ls => simp at hl
  | succ n ih =>
    obtain ⟨ihP, ihQ⟩ := ih
    refine ⟨?_, ?_⟩
    · intro ls s s' hl h hlen
      cases ls with
      | nil =>
        simp only [shapeRun, Option.some.injEq] at h
        exact ⟨Nodes.nil, [], rfl, Or.inl ⟨rfl, h.symm⟩⟩
      | cons l ls =>
        simp only [List.length_cons, Nat.add_le_add_iff_right] at hl
        -- a plain line (source / define / undef): one leaf node, then the rest
        have plain : ∀ nd : Node, nd.lines = [l] → shapeStep s l = some s →
            ∃ (ns : Nodes) (rest : List ALine), l :: ls = ns.lines ++ rest ∧
              ((rest = [] ∧ s' = s) ∨ (startsCloser rest ∧ shapeRun s rest = some s')) := by
          intro nd hnd hst
          simp only [shapeRun, hst] at h
          obtain ⟨ns, rest, e1, e2⟩ := ihP ls s s' hl h hlen
          exact ⟨Nodes.cons nd ns, rest, by simp [Nodes.lines, hnd, e1], e2⟩
        -- a closer: the empty `Nodes`
        have closer : l.closer = true → ∃ (ns : Nodes) (rest : List ALine), l :: ls = ns.lines ++ rest ∧
              ((rest = [] ∧ s' = s) ∨ (startsCloser rest ∧ shapeRun s rest = some s')) := by
          intro hc
          exact ⟨Nodes.nil, l :: ls, by simp [Nodes.lines], Or.inr ⟨hc, h⟩⟩
        cases l with
        | src b => exact plain (.block b) rfl rfl
        | define x => exact plain (.define x) rfl rfl
        | undef x => exact plain (.undef x) rfl rfl
        | elif e => exact closer rfl
        | else_ => exact closer rfl
        | endif => exact closer rfl
        | if_ e =>
          simp only [shapeRun, shapeStep] at h
          obtain ⟨body, r1, e1, h1⟩ := ihP ls (false :: s) s' hl h (by simp only [List.length_cons]; omega)
          rcases h1 with ⟨_, hs⟩ | ⟨hc1, hr1⟩
          · subst hs; simp only [List.length_cons] at hlen; omega
          · have hl1 : r1.length ≤ n := by
              have : ls.length = body.lines.length + r1.length := by rw [e1, List.length_append]
              omega
            obtain ⟨c, r2, e2, hlt, hr2⟩ := ihQ r1 false s s' hl1 hc1 hr1 hlen
            obtain ⟨ns, rest, e3, h3⟩ := ihP r2 s s' (by omega) hr2 hlen
            refine ⟨Nodes.cons (.cond e body c) ns, rest, ?_, h3⟩
            simp only [Nodes.lines, Node.lines, List.cons_append, List.append_assoc]
            rw [e1, e2, e3]
    · intro ls b s s' hl hc h hlen
      cases ls with
      | nil => exact absurd hc (by simp [startsCloser])
      | cons l ls =>
        simp only [List.length_cons, Nat.add_le_add_iff_right] at hl
        cases l with
        | src _ => exact absurd hc (by simp [startsCloser, ALine.closer])
        | define _ => exact absurd hc (by simp [startsCloser, ALine.closer])
        | undef _ => exact absurd hc (by simp [startsCloser, ALine.closer])
        | if_ _ => exact absurd hc (by simp [startsCloser, ALine.closer])
        | endif =>
          simp only [shapeRun, shapeStep] at h
          exact ⟨CondRest.endif, ls, rfl, by simp, h⟩
        | else_ =>
          cases b with
          | true => simp [shapeRun, shapeStep] at h
          | false =>
            simp only [shapeRun, shapeStep, Bool.false_eq_true, ↓reduceIte] at h
            obtain ⟨body, r1, e1, h1⟩ := ihP ls (true :: s) s' hl h (by simp only [List.length_cons]; omega)
            rcases h1 with ⟨_, hs⟩ | ⟨hc1, hr1⟩
            · subst hs; simp only [List.length_cons] at hlen; omega
            · -- after `#else` only `#endif` can act on the frame
              cases r1 with
              | nil => exact absurd hc1 (by simp [startsCloser])
              | cons l1 r1 =>
                cases l1 with
                | src _ => exact absurd hc1 (by simp [startsCloser, ALine.closer])
                | define _ => exact absurd hc1 (by simp [startsCloser, ALine.closer])
                | undef _ => exact absurd hc1 (by simp [startsCloser, ALine.closer])
                | if_ _ => exact absurd hc1 (by simp [startsCloser, ALine.closer])
                | elif _ => simp [shapeRun, shapeStep] at hr1
                | else_ => simp [shapeRun, shapeStep] at hr1
                | endif =>
                  simp only [shapeRun, shapeStep] at hr1
                  refine ⟨CondRest.els body, r1, ?_, ?_, hr1⟩
                  · simp only [CondRest.lines, List.cons_append, List.append_assoc]
                    rw [e1]; rfl
                  · rw [e1]; simp only [List.length_cons, List.length_append]; omega
        | elif e =>
          cases b with
          | true => simp [shapeRun, shapeStep] at h
          | false =>
            simp only [shapeRun, shapeStep, Bool.false_eq_true, ↓reduceIte] at h
            obtain ⟨body, r1, e1, h1⟩ := ihP ls (false :: s) s' hl h (by simp only [List.length_cons]; omega)
            rcases h1 with ⟨_, hs⟩ | ⟨hc1, hr1⟩
            · subst hs; simp only [List.length_cons] at hlen; omega
            · have hl1 : r1.length ≤ n := by
                have : ls.length = body.lines.length + r1.length := by rw [e1, List.length_append]
                omega
              obtain ⟨c, r2, e2, hlt, hr2⟩ := ihQ r1 false s s' hl1 hc1 hr1 hlen
              refine ⟨CondRest.elif e body c, r2, ?_, ?_, hr2⟩
              · simp only [CondRest.lines, List.cons_append, List.append_assoc]
                rw [e1, e2]
              · rw [e1]; simp only [List.length_cons, List.length_append]; omega

/-- every balanced line list is the list of lines of a tree -/
theorem lines_tree (ls : List ALine) (h : shapeRun [] ls = some []) : ∃ ns : Nodes, ns.lines = ls := by
  obtain ⟨ns, rest, e, h1⟩ := (lines_decomp ls.length).1 ls [] [] (Nat.le_refl _) h (Nat.le_refl _)
  rcases h1 with ⟨hr, _⟩ | ⟨hc, hr⟩
  · subst hr; exact ⟨ns, by simpa using e.symm⟩
  · cases rest with
    | nil => exact absurd hc (by simp [startsCloser])
    | cons l rest =>
      cases l <;> first
        | (simp [shapeRun, shapeStep] at hr; done)
        | (simp [startsCloser, ALine.closer] at hc; done)

/-! ## the parser accepts the printed form of every tree -/

/-- what may follow a `BlockContent`: the end of the tokens or `#elif` / `#else` / `#endif` -/
def stopTok : List PTok → Prop
  | [] => True
  | .kw .elif :: _ => True
  | .kw .else_ :: _ => True
  | .kw .endif :: _ => True
  | _ => False

theorem parseNodes_stop (n : Nat) (r : List PTok) (h : stopTok r) : parseNodes (n + 1) r = some (.nil, r) := by
  unfold parseNodes
  split
  · rfl
  · rfl
  · rfl
  · rfl
  · rename_i h1 h2 h3 h4
    match r, h with
    | [], _ => exact absurd rfl h1
    | .kw .elif :: r', _ => exact absurd rfl (h2 r')
    | .kw .else_ :: r', _ => exact absurd rfl (h3 r')
    | .kw .endif :: r', _ => exact absurd rfl (h4 r')

theorem CondRest.toks_stop (c : CondRest) (r : List PTok) : stopTok (c.toks ++ r) := by
  cases c <;> simp [CondRest.toks, CondRest.lines, linesToks_cons, ALine.toks, stopTok]

theorem Node.toks_pos (nd : Node) : 1 ≤ nd.toks.length := by
  cases nd <;> simp [Node.toks, Node.lines, linesToks_cons, ALine.toks]

theorem PExpr.toks_pos (e : PExpr) : 1 ≤ e.toks.length := by
  have := PExpr.size_pos e; have := PExpr.size_le_toks e; omega

/-- the first token of a node is not one that stops `parseNodes` -/
theorem parseNodes_cons_step (n : Nat) (nd : Node) (r : List PTok) :
    parseNodes (n + 1) (nd.toks ++ r) =
      match parseNode n (nd.toks ++ r) with
      | some (x, r1) =>
        match parseNodes n r1 with
        | some (ns, r') => some (.cons x ns, r')
        | none => none
      | none => none := by
  cases nd <;> simp [Node.toks, Node.lines, linesToks_cons, ALine.toks, parseNodes] <;> rfl

theorem Node.toks_cond_eq (e : PExpr) (body : Nodes) (rest : CondRest) (r : List PTok) :
    (Node.cond e body rest).toks ++ r = .kw .if_ :: (e.toks ++ .dend :: (body.toks ++ (rest.toks ++ r))) := by
  simp [Node.toks, Nodes.toks, CondRest.toks, Node.lines, linesToks_cons, linesToks_append, ALine.toks]

theorem CondRest.toks_elif_eq (e : PExpr) (body : Nodes) (rest : CondRest) (r : List PTok) :
    (CondRest.elif e body rest).toks ++ r = .kw .elif :: (e.toks ++ .dend :: (body.toks ++ (rest.toks ++ r))) := by
  simp [Nodes.toks, CondRest.toks, CondRest.lines, linesToks_cons, linesToks_append, ALine.toks]

theorem CondRest.toks_els_eq (body : Nodes) (r : List PTok) :
    (CondRest.els body).toks ++ r = .kw .else_ :: .dend :: (body.toks ++ .kw .endif :: .dend :: r) := by
  simp [Nodes.toks, CondRest.toks, CondRest.lines, ALine.toks, linesToks]

theorem Nodes.toks_cons_eq (nd : Node) (ns : Nodes) (r : List PTok) :
    (Nodes.cons nd ns).toks ++ r = nd.toks ++ (ns.toks ++ r) := by
  simp [Nodes.toks, Node.toks, Nodes.lines, linesToks_append]

theorem Node.toks_cond_len (e : PExpr) (body : Nodes) (rest : CondRest) :
    (Node.cond e body rest).toks.length = e.toks.length + body.toks.length + rest.toks.length + 2 := by
  have := Node.toks_cond_eq e body rest []
  simp only [List.append_nil] at this
  rw [this]; simp only [List.length_cons, List.length_append]; omega

theorem CondRest.toks_elif_len (e : PExpr) (body : Nodes) (rest : CondRest) :
    (CondRest.elif e body rest).toks.length = e.toks.length + body.toks.length + rest.toks.length + 2 := by
  have := CondRest.toks_elif_eq e body rest []
  simp only [List.append_nil] at this
  rw [this]; simp only [List.length_cons, List.length_append]; omega

theorem CondRest.toks_els_len (body : Nodes) : (CondRest.els body).toks.length = body.toks.length + 4 := by
  have := CondRest.toks_els_eq body []
  rw [List.append_nil] at this
  rw [this]; simp only [List.length_cons, List.length_append, List.length_nil]

theorem Nodes.toks_cons_len (nd : Node) (ns : Nodes) : (Nodes.cons nd ns).toks.length = nd.toks.length + ns.toks.length := by
  have := Nodes.toks_cons_eq nd ns []
  simp only [List.append_nil] at this
  rw [this, List.length_append]

mutual
  theorem parseNodes_complete : ∀ (ns : Nodes) (n : Nat) (r : List PTok), 2 * ns.toks.length + 2 ≤ n → stopTok r →
      parseNodes n (ns.toks ++ r) = some (ns, r)
    | .nil, n, r, h, hr => by
      obtain ⟨m, rfl⟩ : ∃ m, n = m + 1 := ⟨n - 1, by omega⟩
      simpa [Nodes.toks, Nodes.lines, linesToks] using parseNodes_stop m r hr
    | .cons nd ns, n, r, h, hr => by
      rw [Nodes.toks_cons_len] at h
      have hp := Node.toks_pos nd
      obtain ⟨m, rfl⟩ : ∃ m, n = m + 1 := ⟨n - 1, by omega⟩
      rw [Nodes.toks_cons_eq, parseNodes_cons_step,
        parseNode_complete nd m (ns.toks ++ r) (by omega)]
      simp only
      rw [parseNodes_complete ns m r (by omega) hr]
  theorem parseNode_complete : ∀ (nd : Node) (n : Nat) (r : List PTok), 2 * nd.toks.length + 1 ≤ n →
      parseNode n (nd.toks ++ r) = some (nd, r)
    | .block b, n, r, h => by
      obtain ⟨m, rfl⟩ : ∃ m, n = m + 1 := ⟨n - 1, by omega⟩
      simp [Node.toks, Node.lines, ALine.toks, parseNode, linesToks]
    | .define s, n, r, h => by
      obtain ⟨m, rfl⟩ : ∃ m, n = m + 1 := ⟨n - 1, by omega⟩
      simp [Node.toks, Node.lines, ALine.toks, parseNode, linesToks]
    | .undef s, n, r, h => by
      obtain ⟨m, rfl⟩ : ∃ m, n = m + 1 := ⟨n - 1, by omega⟩
      simp [Node.toks, Node.lines, ALine.toks, parseNode, linesToks]
    | .cond e body rest, n, r, h => by
      rw [Node.toks_cond_len] at h
      obtain ⟨m, rfl⟩ : ∃ m, n = m + 1 := ⟨n - 1, by omega⟩
      have he := PExpr.size_le_toks e
      rw [Node.toks_cond_eq]
      simp only [parseNode]
      rw [parseExpr_print e m _ (by omega) (by simp [noOp])]
      simp only
      rw [parseNodes_complete body m _ (by omega) (CondRest.toks_stop rest r)]
      simp only
      rw [parseRest_complete rest m r (by omega)]
  theorem parseRest_complete : ∀ (c : CondRest) (n : Nat) (r : List PTok), 2 * c.toks.length + 1 ≤ n →
      parseRest n (c.toks ++ r) = some (c, r)
    | .endif, n, r, h => by
      obtain ⟨m, rfl⟩ : ∃ m, n = m + 1 := ⟨n - 1, by omega⟩
      simp [CondRest.toks, CondRest.lines, ALine.toks, parseRest, linesToks]
    | .els body, n, r, h => by
      rw [CondRest.toks_els_len] at h
      obtain ⟨m, rfl⟩ : ∃ m, n = m + 1 := ⟨n - 1, by omega⟩
      rw [CondRest.toks_els_eq]
      simp only [parseRest]
      rw [parseNodes_complete body m _ (by omega) (by simp [stopTok])]
    | .elif e body rest, n, r, h => by
      rw [CondRest.toks_elif_len] at h
      obtain ⟨m, rfl⟩ : ∃ m, n = m + 1 := ⟨n - 1, by omega⟩
      have he := PExpr.size_le_toks e
      rw [CondRest.toks_elif_eq]
      simp only [parseRest]
      rw [parseExpr_print e m _ (by omega) (by simp [noOp])]
      simp only
      rw [parseNodes_complete body m _ (by omega) (CondRest.toks_stop rest r)]
      simp only
      rw [parseRest_complete rest m r (by omega)]
end

/-- the printed form of every tree is accepted, with that tree -/
theorem parsePre_complete (ns : Nodes) : parsePre ns.toks = some ns := by
  unfold parsePre
  have := parseNodes_complete ns (parseFuel ns.toks) [] (by unfold parseFuel; omega) trivial
  rw [List.append_nil] at this
  rw [this]

/-- COMPLETENESS: every line list on which the stack machine does not fail is accepted, with a tree whose lines are
    the given ones -/
theorem parsePre_of_lines (ls : List ALine) (D : Syms) (h : specFile ls D ≠ none) :
    ∃ ns, parsePre (linesToks ls) = some ns ∧ ns.lines = ls := by
  obtain ⟨ns, hns⟩ := lines_tree ls ((specFile_ne_none_iff ls D).mp h)
  refine ⟨ns, ?_, hns⟩
  have := parsePre_complete ns
  rwa [Nodes.toks, hns] at this

end Slicec.Pp
