/-
  Lemmas about `Model/PreprocErrors.lean`: the recovery mirror `reportedErrors` reports nothing exactly when the
  token stream is a balanced run of well-formed lines (= when the model's parser accepts), every reported span is the
  span of a token of the located lexer model (or of its lexical error), and token locations are `locAt` of offsets.
-/
import SlicecVerif.Model.PreprocErrors
import SlicecVerif.Lemmas.PreprocSpec
import SlicecVerif.Lemmas.PreprocComplete

namespace Slicec.Pp

/-! ## the copies in the model file are the definitions the lemmas are about -/

theorem dirOf_eq (toks : List PTok) : dirOf toks = alineOf toks := by
  unfold dirOf alineOf
  split <;> first | rfl | (split <;> simp_all)

theorem frameStep_eq (s : List Bool) (a : ALine) : frameStep s a = shapeStep s a := by
  cases a <;> rfl

/-! ## `lexPreLE` is `lexPreL` with the tokens in front of the error kept -/

theorem lexAll_of_E (f : List Char) : ∀ (n : Nat) (st : LexSt),
    lexAll f n st = (match (lexAllE f n st).2 with
      | none => .ok (lexAllE f n st).1
      | some e => .error e) := by
  intro n
  induction n with
  | zero => intro st; rfl
  | succ n ih =>
    intro st
    unfold lexAll lexAllE
    rcases h : lexNext f st with ⟨_ | r, st'⟩
    · rfl
    · cases r with
      | error e => rfl
      | ok t =>
        simp only []
        rw [ih st']
        cases (lexAllE f n st').2 <;> rfl

theorem lexPreL_of_E (f : List Char) :
    lexPreL f = (match (lexPreLE f).2 with
      | none => .ok (lexPreLE f).1
      | some e => .error e) :=
  lexAll_of_E f _ _

theorem lexPre_of_E (f : List Char) :
    lexPre f = (match (lexPreLE f).2 with
      | none => .ok ((lexPreLE f).1.map (·.tok))
      | some e => .error e) := by
  unfold lexPre
  rw [lexPreL_of_E]
  cases (lexPreLE f).2 <;> rfl

/-! ## lines of a token list -/

theorem takeLine_some : ∀ (r ts : List LTok) (d : LTok) (rest : List LTok), takeLine r = (ts, some d, rest) →
    r = ts ++ d :: rest ∧ d.tok = .dend ∧ ∀ t ∈ ts, t.tok ≠ .dend := by
  intro r
  induction r with
  | nil => intro ts d rest h; simp [takeLine] at h
  | cons t r ih =>
    intro ts d rest h
    unfold takeLine at h
    by_cases ht : t.tok = .dend
    · rw [if_pos ht] at h
      simp only [Prod.mk.injEq, Option.some.injEq] at h
      obtain ⟨rfl, rfl, rfl⟩ := h
      exact ⟨rfl, ht, by simp⟩
    · rw [if_neg ht] at h
      simp only [Prod.mk.injEq] at h
      obtain ⟨rfl, h2, h3⟩ := h
      obtain ⟨e1, e2, e3⟩ := ih (takeLine r).1 d rest (by rw [← h2, ← h3])
      refine ⟨by rw [List.cons_append, ← e1], e2, ?_⟩
      intro x hx
      cases hx with
      | head => exact ht
      | tail _ hx => exact e3 x hx

theorem takeLine_append : ∀ (ts : List LTok) (d : LTok) (rest : List LTok), (∀ t ∈ ts, t.tok ≠ .dend) → d.tok = .dend →
    takeLine (ts ++ d :: rest) = (ts, some d, rest) := by
  intro ts
  induction ts with
  | nil => intro d rest _ hd; simp [takeLine, hd]
  | cons t ts ih =>
    intro d rest h hd
    have ht : t.tok ≠ .dend := h t (by simp)
    rw [List.cons_append, takeLine, if_neg ht, ih d rest (fun x hx => h x (by simp [hx])) hd]

/-! ## no report ⟺ balanced run of well-formed lines -/

/-- what the mirror reports for the token list `ts` read with fuel `n` when lexing succeeded -/
def repOf (n : Nat) (ts : List LTok) (stk : List Bool) (pend : Option Span) (last : Loc) : List Span :=
  (runLines (tokLines n ts).1 stk pend last (tokLines n ts).2 none).1

theorem runLines_pend_ne (ls : List TLine) (stk : List Bool) (p : Span) (last : Loc) (left : List LTok) :
    (runLines ls stk (some p) last left none).1 ≠ [] := by
  cases ls with
  | nil =>
    unfold runLines
    simp only []
    cases left.getLast? <;> simp [commit]
  | cons l ls =>
    cases l <;> (unfold runLines; simp [commit])

theorem runLines_lex_ne (e : LexErr) : ∀ (ls : List TLine) (stk : List Bool) (p : Option Span) (last : Loc) (left : List LTok),
    (runLines ls stk p last left (some e)).1 ≠ [] := by
  intro ls
  induction ls with
  | nil => intro stk p last left; unfold runLines; simp
  | cons l ls ih =>
    intro stk p last left
    cases l with
    | block t =>
      unfold runLines
      simp only [commit]
      intro h
      exact ih _ _ _ _ (List.append_eq_nil_iff.mp h).2
    | dir K ts d =>
      unfold runLines
      simp only [commit]
      intro h
      have h2 := (List.append_eq_nil_iff.mp h).2
      split at h2
      · exact ih _ _ _ _ h2
      · exact ih _ _ _ _ h2

theorem lineStep_some (stk stk' : List Bool) (K : LTok) (ts : List LTok) (h : lineStep stk K ts = some stk') :
    ∃ a : ALine, a.toks = K.tok :: ts.map (·.tok) ++ [.dend] ∧ a.isSrc = false ∧ shapeStep stk a = some stk' := by
  unfold lineStep at h
  rw [dirOf_eq] at h
  cases ha : alineOf (K.tok :: ts.map (·.tok) ++ [.dend]) with
  | none => rw [ha] at h; cases h
  | some a =>
    rw [ha] at h
    simp only [Option.bind] at h
    rw [frameStep_eq] at h
    obtain ⟨h1, h2⟩ := alineOf_sound _ a ha
    exact ⟨a, h1.symm, h2, h⟩

/-- nothing reported ⇒ the tokens are the lines of a balanced run -/
theorem rep_nil_lines : ∀ (n : Nat) (ts : List LTok) (stk : List Bool) (last : Loc), repOf n ts stk none last = [] →
    ∃ als : List ALine, linesToks als = ts.map (·.tok) ∧ shapeRun stk als = some [] := by
  intro n
  induction n with
  | zero =>
    intro ts stk last h
    unfold repOf tokLines runLines at h
    simp only [] at h
    cases hl : ts.getLast? with
    | some t => rw [hl] at h; simp [commit] at h
    | none =>
      rw [hl] at h
      have hts : ts = [] := List.getLast?_eq_none_iff.mp hl
      subst hts
      cases stk with
      | nil => exact ⟨[], rfl, rfl⟩
      | cons b s => simp [commit] at h
  | succ n ih =>
    intro ts stk last h
    cases ts with
    | nil =>
      unfold repOf tokLines runLines at h
      simp only [List.getLast?_nil] at h
      cases stk with
      | nil => exact ⟨[], rfl, rfl⟩
      | cons b s => simp [commit] at h
    | cons t r =>
      unfold repOf at h
      unfold tokLines at h
      split at h
      · -- a block
        rename_i b hb
        simp only [] at h
        unfold runLines at h
        simp only [commit, Option.toList, List.nil_append] at h
        obtain ⟨als, h1, h2⟩ := ih r stk t.e h
        refine ⟨.src b :: als, ?_, ?_⟩
        · rw [linesToks_cons, h1]; simp [ALine.toks, hb]
        · simp only [shapeRun, shapeStep]; exact h2
      · -- a `DirectiveEnd` where a line starts
        rename_i hb
        simp only [] at h
        unfold runLines at h
        have hl : lineStep stk t [] = none := by
          unfold lineStep
          simp only [List.map_nil, hb]
          rfl
        rw [hl] at h
        simp only [commit, Option.toList, List.nil_append] at h
        exact absurd h (runLines_pend_ne _ _ _ _ _)
      · -- a directive line
        rename_i hnb hnd
        rcases htl : takeLine r with ⟨tl, _ | d, rest⟩
        · rw [htl] at h
          simp only [] at h
          unfold runLines at h
          cases hgl : (t :: r).getLast? with
          | none => simp at hgl
          | some x => rw [hgl] at h; simp [commit] at h
        · rw [htl] at h
          simp only [] at h
          unfold runLines at h
          simp only [commit, Option.toList, List.nil_append] at h
          obtain ⟨e1, e2, _⟩ := takeLine_some r tl d rest htl
          cases hs : lineStep stk t tl with
          | none =>
            rw [hs] at h
            exact absurd h (runLines_pend_ne _ _ _ _ _)
          | some stk' =>
            rw [hs] at h
            obtain ⟨a, ha1, _, ha3⟩ := lineStep_some stk stk' t tl hs
            obtain ⟨als, h1, h2⟩ := ih rest stk' d.e h
            refine ⟨a :: als, ?_, ?_⟩
            · rw [linesToks_cons, h1, ha1, e1]; simp [e2]
            · simp only [shapeRun, ha3]; exact h2

/-- the lines of a balanced run ⇒ nothing reported (any sufficient fuel) -/
theorem lines_rep_nil : ∀ (als : List ALine) (ts : List LTok) (stk : List Bool) (last : Loc) (n : Nat), ts.length < n →
    linesToks als = ts.map (·.tok) → shapeRun stk als = some [] → repOf n ts stk none last = [] := by
  intro als
  induction als with
  | nil =>
    intro ts stk last n hn h1 h2
    have hts : ts = [] := by
      cases ts with
      | nil => rfl
      | cons t r => simp [linesToks] at h1
    subst hts
    simp only [shapeRun, Option.some.injEq] at h2
    subst h2
    cases n with
    | zero => simp at hn
    | succ n => unfold repOf tokLines runLines; simp [commit]
  | cons a als ih =>
    intro ts stk last n hn h1 h2
    rw [linesToks_cons] at h1
    simp only [shapeRun] at h2
    cases hst : shapeStep stk a with
    | none => rw [hst] at h2; cases h2
    | some stk' =>
      rw [hst] at h2
      cases hsrc : a.isSrc with
      | true =>
        cases a with
        | src b =>
          simp only [ALine.toks, List.cons_append, List.nil_append] at h1
          cases ts with
          | nil => simp at h1
          | cons t r =>
            simp only [List.map_cons, List.cons.injEq] at h1
            obtain ⟨hb, hr⟩ := h1
            cases n with
            | zero => simp at hn
            | succ n =>
              simp only [shapeStep, Option.some.injEq] at hst
              subst hst
              have := ih r stk t.e n (by simp at hn; omega) hr h2
              unfold repOf at this ⊢
              unfold tokLines
              split
              · simp only []
                unfold runLines
                simp only [commit, Option.toList, List.nil_append]
                exact this
              · rename_i hd; rw [hd] at hb; cases hb
              · rename_i hnb _; exact absurd hb.symm (hnb b)
        | _ => simp [ALine.isSrc] at hsrc
      | false =>
        obtain ⟨k, mid, hk, hnd⟩ := ALine.toks_dir a hsrc
        -- split the located tokens along `a.toks ++ rest`
        rw [hk] at h1
        cases ts with
        | nil => simp at h1
        | cons K r =>
          simp only [List.cons_append, List.map_cons, List.cons.injEq] at h1
          obtain ⟨hK, hr⟩ := h1
          rw [List.append_assoc] at hr
          obtain ⟨tl, r2, hr2, htl, hr3⟩ := List.map_eq_append_iff.mp hr.symm
          cases r2 with
          | nil => simp at hr3
          | cons d rest =>
            simp only [List.singleton_append, List.map_cons, List.cons.injEq] at hr3
            obtain ⟨hd, hrest⟩ := hr3
            have hnd' : ∀ x ∈ tl, x.tok ≠ .dend := by
              intro x hx hx'
              apply hnd
              rw [← htl]
              exact List.mem_cons_of_mem _ (List.mem_map.mpr ⟨x, hx, hx'⟩)
            have htake := takeLine_append tl d rest hnd' hd
            cases n with
            | zero => simp at hn
            | succ n =>
              have hlen : rest.length < n := by
                subst hr2
                simp only [List.length_cons, List.length_append] at hn
                omega
              have hstep : lineStep stk K tl = some stk' := by
                unfold lineStep
                rw [dirOf_eq, ← hK, htl, ← hk, alineOf_toks a hsrc]
                simp only [Option.bind]
                rw [frameStep_eq, hst]
              have := ih rest stk' d.e n hlen hrest.symm h2
              unfold repOf at this ⊢
              unfold tokLines
              subst hr2
              split
              · rename_i b hb; rw [← hK] at hb; cases hb
              · rename_i hb
                exfalso; apply hnd; rw [hK, hb]; exact List.mem_cons_self
              · rw [htake]
                simp only []
                unfold runLines
                rw [hstep]
                simp only [commit, Option.toList, List.nil_append]
                exact this

/-- the recovery mirror reports nothing on a successfully lexed file iff its tokens are a balanced run of lines -/
theorem reported_nil_iff (f : List Char) (h : (lexPreLE f).2 = none) :
    reportedErrors f = [] ↔ ∃ als : List ALine, linesToks als = (lexPreLE f).1.map (·.tok) ∧ shapeRun [] als = some [] := by
  unfold reportedErrors reportedFull
  simp only [h]
  constructor
  · intro hr
    exact rep_nil_lines _ _ _ _ hr
  · rintro ⟨als, h1, h2⟩
    exact lines_rep_nil als _ _ _ _ (Nat.lt_succ_self _) h1 h2

theorem reported_lex_ne (f : List Char) (e : LexErr) (h : (lexPreLE f).2 = some e) : reportedErrors f ≠ [] := by
  unfold reportedErrors reportedFull
  simp only [h]
  exact runLines_lex_ne e _ _ _ _ _

end Slicec.Pp

namespace Slicec.Pp

/-! ## every token of the located lexer model sits at offsets of the file -/

/-- `l` is the location (rows and columns counted in characters by `advance`) of an offset of `f` -/
def LocIn (f : List Char) (l : Loc) : Prop := ∃ i, i ≤ f.length ∧ l = locAt f i

theorem CurInv.locIn {f : List Char} {c : Cur} (h : CurInv f c) : LocIn f c.loc := ⟨c.off, h.le, h.loc⟩

def DirStep.locIn (f : List Char) : DirStep → Prop
  | .tok t => LocIn f t.s ∧ LocIn f t.e
  | .err e => LocIn f e.s ∧ LocIn f e.e
  | .skip => True

theorem lexKeyword_loc (f : List Char) (cur : Cur) (h : CurInv f cur) : (lexKeyword cur).1.locIn f := by
  unfold lexKeyword
  have hr := (((reach_adv f cur).trans (reach_skipWs f _)).trans (reach_skipWhile f isIdentChar _)) h
  simp only
  split <;> exact ⟨h.locIn, hr.1.locIn⟩

theorem lexDirTok_loc (f : List Char) (c : Char) (st : LexSt) (h : CurInv f st.cur) : (lexDirTok c st).1.locIn f := by
  have h0 := h.locIn
  have h1 := ((reach_adv f st.cur) h).1.locIn
  have h2 := (((reach_adv f st.cur).trans (reach_adv f st.cur.adv)) h).1.locIn
  unfold lexDirTok simpleTok
  simp only
  split
  · exact ⟨h0, h1⟩
  split
  · exact ⟨h0, h1⟩
  split
  · exact ⟨h0, h1⟩
  split
  · split
    · exact ⟨h0, h2⟩
    · exact ⟨h0, h1⟩
  split
  · split
    · exact ⟨h0, h2⟩
    · exact ⟨h0, h1⟩
  split
  · exact lexKeyword_loc f st.cur h
  split
  · split
    · trivial
    · exact ⟨h0, h1⟩
  split
  · exact ⟨h0, ((reach_skipWhile f isIdentChar st.cur) h).1.locIn⟩
  split
  · exact ⟨h0, h1⟩
  split
  · exact ⟨h0, h0⟩
  · exact ⟨h0, h0⟩

def ResLoc (f : List Char) : Option (Except LexErr LTok) → Prop
  | some (.ok t) => LocIn f t.s ∧ LocIn f t.e
  | some (.error e) => LocIn f e.s ∧ LocIn f e.e
  | none => True

theorem mkBlock_loc (f : List Char) (start : Option (Loc × Nat)) (endPos : Nat) (cursor : Loc)
    (hs : ∀ l p, start = some (l, p) → LocIn f l) (hc : LocIn f cursor) : ResLoc f (some (mkBlock f start endPos cursor)) := by
  unfold mkBlock
  split
  · rename_i l p; exact ⟨hs l p rfl, hc⟩
  · exact ⟨hc, hc⟩

theorem nextLoop_loc (f : List Char) : ∀ (fuel : Nat) (st : LexSt) (start : Option (Loc × Nat)),
    CurInv f st.cur → (∀ l p, start = some (l, p) → LocIn f l) → ResLoc f (nextLoop f fuel st start).1 := by
  intro fuel
  induction fuel with
  | zero => intro st start _ _; trivial
  | succ fuel ih =>
    intro st start hinv hstart
    unfold nextLoop
    split
    · split
      · exact mkBlock_loc f start _ _ hstart hinv.locIn
      · exact ⟨hinv.locIn, hinv.locIn⟩
      · trivial
    · rename_i c crest hrest
      split
      · have hf := lexDirTok_facts f c st
        have hl := lexDirTok_loc f c st hinv
        split
        · rename_i t st' heq; rw [heq] at hl; exact hl
        · rename_i e st' heq; rw [heq] at hl; exact hl
        · rename_i st' heq
          rw [heq] at hf
          obtain ⟨hi', _⟩ := hf.1 hinv
          obtain ⟨hi2, _⟩ := reach_skipWs f st'.cur hi'
          exact ih { st' with cur := st'.cur.skipWs } start hi2 hstart
      · split
        · obtain ⟨hi2, _⟩ := ((reach_adv f st.cur).trans (reach_skipWs f _)) hinv
          exact ih { st with cur := st.cur.adv.skipWs } start hi2 hstart
        · split
          · split
            · exact mkBlock_loc f start _ _ hstart hinv.locIn
            · have hl := lexKeyword_loc f st.cur hinv
              split
              · rename_i t cur' heq; rw [heq] at hl; exact hl
              · rename_i e cur' heq; rw [heq] at hl; exact hl
              · trivial
          · obtain ⟨hi2, _⟩ := ((reach_toEol f st.cur).trans (reach_skipWs f _)) hinv
            exact ih { cur := st.cur.toEol.skipWs, mode := .sourceBlock } _ hi2 (fun l p h => by
              split at h
              · simp only [Option.some.injEq, Prod.mk.injEq] at h
                obtain ⟨rfl, rfl⟩ := h
                exact hinv.locIn
              · exact hstart l p h)

theorem lexNext_loc (f : List Char) (st : LexSt) (h : CurInv f st.cur) : ResLoc f (lexNext f st).1 := by
  unfold lexNext
  obtain ⟨h2, _⟩ := reach_skipWs f st.cur h
  exact nextLoop_loc f _ { st with cur := st.cur.skipWs } none h2 (fun l p hs => by cases hs)

theorem lexAllE_loc (f : List Char) : ∀ (n : Nat) (st : LexSt), CurInv f st.cur →
    (∀ t ∈ (lexAllE f n st).1, LocIn f t.s ∧ LocIn f t.e) ∧ (∀ e, (lexAllE f n st).2 = some e → LocIn f e.s ∧ LocIn f e.e) := by
  intro n
  induction n with
  | zero => intro st _; simp [lexAllE]
  | succ n ih =>
    intro st hinv
    have hf := lexNext_facts f st hinv
    have hl := lexNext_loc f st hinv
    unfold lexAllE
    rcases h : lexNext f st with ⟨_ | r, st'⟩
    · simp
    · rw [h] at hf hl
      cases r with
      | error e =>
        refine ⟨by simp, ?_⟩
        intro e' he'
        simp only [Option.some.injEq] at he'
        subst he'
        exact hl
      | ok t =>
        obtain ⟨h1, h2⟩ := ih st' hf.1
        refine ⟨?_, h2⟩
        intro x hx
        simp only [List.mem_cons] at hx
        rcases hx with rfl | hx
        · exact hl
        · exact h1 x hx

theorem lexPreLE_loc (f : List Char) :
    (∀ t ∈ (lexPreLE f).1, LocIn f t.s ∧ LocIn f t.e) ∧ (∀ e, (lexPreLE f).2 = some e → LocIn f e.s ∧ LocIn f e.e) :=
  lexAllE_loc f _ (lexInit f) ⟨Nat.zero_le _, rfl, rfl⟩

/-! ## every reported span is made of locations of tokens -/

def TLine.all (Q : LTok → Prop) : TLine → Prop
  | .block t => Q t
  | .dir K ts d => Q K ∧ (∀ t ∈ ts, Q t) ∧ Q d

theorem tokLines_all (Q : LTok → Prop) : ∀ (n : Nat) (ts : List LTok), (∀ t ∈ ts, Q t) →
    (∀ l ∈ (tokLines n ts).1, l.all Q) ∧ (∀ t ∈ (tokLines n ts).2, Q t) := by
  intro n
  induction n with
  | zero => intro ts h; exact ⟨by simp [tokLines], by simpa [tokLines] using h⟩
  | succ n ih =>
    intro ts h
    cases ts with
    | nil => simp [tokLines]
    | cons t r =>
      have ht : Q t := h t (by simp)
      have hr : ∀ x ∈ r, Q x := fun x hx => h x (by simp [hx])
      unfold tokLines
      split
      · obtain ⟨h1, h2⟩ := ih r hr
        refine ⟨?_, h2⟩
        intro l hl
        simp only [List.mem_cons] at hl
        rcases hl with rfl | hl
        · exact ht
        · exact h1 l hl
      · obtain ⟨h1, h2⟩ := ih r hr
        refine ⟨?_, h2⟩
        intro l hl
        simp only [List.mem_cons] at hl
        rcases hl with rfl | hl
        · exact ⟨ht, by simp, ht⟩
        · exact h1 l hl
      · rcases htl : takeLine r with ⟨tl, _ | d, rest⟩
        · simp only []
          exact ⟨by simp, h⟩
        · simp only []
          obtain ⟨e1, _, _⟩ := takeLine_some r tl d rest htl
          have hrest : ∀ x ∈ rest, Q x := fun x hx => hr x (by rw [e1]; simp [hx])
          obtain ⟨h1, h2⟩ := ih rest hrest
          refine ⟨?_, h2⟩
          intro l hl
          simp only [List.mem_cons] at hl
          rcases hl with rfl | hl
          · exact ⟨ht, fun x hx => hr x (by rw [e1]; simp [hx]), hr d (by rw [e1]; simp)⟩
          · exact h1 l hl

theorem badTokG_mem (top : Option Bool) (K : LTok) (ts : List LTok) (d : LTok) : badTokG top K ts d ∈ K :: ts ++ [d] := by
  unfold badTokG
  simp only
  split
  · assumption
  · simp

theorem runLines_spans (P : Loc → Prop) : ∀ (ls : List TLine) (stk : List Bool) (pend : Option Span) (last : Loc)
    (left : List LTok) (le : Option LexErr),
    (∀ l ∈ ls, l.all (fun t => P t.s ∧ P t.e)) → (∀ sp, pend = some sp → P sp.1 ∧ P sp.2) → P last →
    (∀ t ∈ left, P t.s ∧ P t.e) → (∀ e, le = some e → P e.s ∧ P e.e) →
    ∀ sp ∈ (runLines ls stk pend last left le).1, P sp.1 ∧ P sp.2 := by
  intro ls
  induction ls with
  | nil =>
    intro stk pend last left le _ hp hlast hleft hle sp hsp
    unfold runLines at hsp
    cases le with
    | some e =>
      simp only [List.mem_append, List.mem_singleton] at hsp
      rcases hsp with hsp | rfl
      · split at hsp
        · cases hsp
        · cases pend with
          | none => cases hsp
          | some p => simp only [Option.toList, List.mem_singleton] at hsp; subst hsp; exact hp _ rfl
      · exact hle e rfl
    | none =>
      simp only [] at hsp
      have hpend : ∀ x ∈ pend.toList, P x.1 ∧ P x.2 := by
        intro x hx
        cases pend with
        | none => cases hx
        | some p => simp only [Option.toList, List.mem_singleton] at hx; subst hx; exact hp _ rfl
      cases hgl : left.getLast? with
      | none =>
        rw [hgl] at hsp
        simp only [commit, List.mem_append] at hsp
        rcases hsp with hsp | hsp
        · exact hpend sp hsp
        · split at hsp
          · cases hsp
          · simp only [List.mem_singleton] at hsp; subst hsp; exact ⟨hlast, hlast⟩
      | some t =>
        rw [hgl] at hsp
        simp only [commit, List.mem_append, List.mem_singleton] at hsp
        rcases hsp with hsp | rfl
        · exact hpend sp hsp
        · have := hleft t (List.mem_of_getLast? hgl)
          exact ⟨this.2, this.2⟩
  | cons l ls ih =>
    intro stk pend last left le hls hp hlast hleft hle sp hsp
    have hpend : ∀ x ∈ pend.toList, P x.1 ∧ P x.2 := by
      intro x hx
      cases pend with
      | none => cases hx
      | some p => simp only [Option.toList, List.mem_singleton] at hx; subst hx; exact hp _ rfl
    have hl := hls l (by simp)
    have hls' : ∀ x ∈ ls, x.all (fun t => P t.s ∧ P t.e) := fun x hx => hls x (by simp [hx])
    cases l with
    | block t =>
      unfold runLines at hsp
      simp only [commit, List.mem_append] at hsp
      rcases hsp with hsp | hsp
      · exact hpend sp hsp
      · exact ih stk none t.e left le hls' (fun _ h => by cases h) hl.2 hleft hle sp hsp
    | dir K ts d =>
      obtain ⟨hK, hts, hd⟩ := hl
      unfold runLines at hsp
      simp only [commit, List.mem_append] at hsp
      rcases hsp with hsp | hsp
      · exact hpend sp hsp
      · split at hsp
        · exact ih _ none d.e left le hls' (fun _ h => by cases h) hd.2 hleft hle sp hsp
        · refine ih _ _ d.e left le hls' ?_ hd.2 hleft hle sp hsp
          intro sp' hsp'
          simp only [Option.some.injEq] at hsp'
          subst hsp'
          have hm := badTokG_mem stk.head? K ts d
          simp only [List.cons_append, List.mem_cons, List.mem_append, List.not_mem_nil, or_false] at hm
          rcases hm with hm | hm | hm
          · rw [hm]; exact hK
          · exact hts _ hm
          · rw [hm]; exact hd

/-- every reported location is the location of an offset of the file -/
theorem reported_locIn (f : List Char) : ∀ sp ∈ reportedErrors f, LocIn f sp.1 ∧ LocIn f sp.2 := by
  unfold reportedErrors reportedFull
  obtain ⟨h1, h2⟩ := lexPreLE_loc f
  obtain ⟨h3, h4⟩ := tokLines_all (fun t => LocIn f t.s ∧ LocIn f t.e) ((lexPreLE f).1.length + 1) (lexPreLE f).1 h1
  exact runLines_spans (LocIn f) _ _ _ _ _ _ h3 (fun _ h => by cases h) ⟨0, Nat.zero_le _, rfl⟩ h4 h2

end Slicec.Pp

namespace Slicec.Pp

/-- `l` is the initial location, or the start or end of a token of the located lexer model, or of its lexical error -/
def TokEnd (f : List Char) (l : Loc) : Prop :=
  l = Loc.init ∨ (∃ t ∈ (lexPreLE f).1, l = t.s ∨ l = t.e) ∨ (∃ e, (lexPreLE f).2 = some e ∧ (l = e.s ∨ l = e.e))

/-- both ends of every reported span are token boundaries of the located lexer model -/
theorem reported_tokEnd (f : List Char) : ∀ sp ∈ reportedErrors f, TokEnd f sp.1 ∧ TokEnd f sp.2 := by
  unfold reportedErrors reportedFull
  have h1 : ∀ t ∈ (lexPreLE f).1, TokEnd f t.s ∧ TokEnd f t.e :=
    fun t ht => ⟨Or.inr (Or.inl ⟨t, ht, Or.inl rfl⟩), Or.inr (Or.inl ⟨t, ht, Or.inr rfl⟩)⟩
  have h2 : ∀ e, (lexPreLE f).2 = some e → TokEnd f e.s ∧ TokEnd f e.e :=
    fun e he => ⟨Or.inr (Or.inr ⟨e, he, Or.inl rfl⟩), Or.inr (Or.inr ⟨e, he, Or.inr rfl⟩)⟩
  obtain ⟨h3, h4⟩ := tokLines_all (fun t => TokEnd f t.s ∧ TokEnd f t.e) ((lexPreLE f).1.length + 1) (lexPreLE f).1 h1
  exact runLines_spans (TokEnd f) _ _ _ _ _ _ h3 (fun _ h => by cases h) (Or.inl rfl) h4 h2

end Slicec.Pp

/-! ## the error-collecting line-by-line machine vs the stop-at-first-bad-line machine -/

namespace Slicec.Pp

/-- the error-collecting machine reports nothing and does not stop -/
def ErrRows.clean (r : ErrRows) : Prop := r.rows = [] ∧ r.stop = none

/-- the error-collecting line-by-line machine is clean exactly when the stop-at-first-bad-line machine accepts -/
theorem cerrRun_clean_iff : ∀ (ls : List (List Char)) (row : Nat) (st : CSpecSt) (lt : Nat × Bool),
    (cerrRun ls row (shapeOf st.stack) lt).clean ↔ (cspecRun ls row st).isSome = true := by
  intro ls
  induction ls with
  | nil =>
    intro row st lt
    obtain ⟨lr, src⟩ := lt
    unfold cerrRun cspecRun ErrRows.clean
    cases hs : st.stack with
    | nil => simp [shapeOf]
    | cons fr stk => simp [shapeOf]
  | cons l ls ih =>
    intro row st lt
    rw [cspecRun_cons]
    unfold cerrRun
    cases hc : classify l with
    | blank => simp only []; exact ih _ _ _
    | source =>
      simp only []
      have := ih (row + 1) (if allActive st.stack then { st with out := st.out ++ locatedLine row l } else st) (row, true)
      have hstk : (if allActive st.stack then { st with out := st.out ++ locatedLine row l } else st).stack = st.stack := by
        split <;> rfl
      rw [hstk] at this
      exact this
    | malformed =>
      simp only []
      split
      · simp [ErrRows.clean]
      · simp [ErrRows.clean]
    | dir a =>
      simp only []
      have hsh := specStep_shape ⟨st.stack, ⟨[], st.syms⟩⟩ a
      rw [frameStep_eq]
      cases hst : specStep ⟨st.stack, ⟨[], st.syms⟩⟩ a with
      | none =>
        rw [hst] at hsh
        simp only [Option.map] at hsh
        rw [← hsh]
        simp [ErrRows.clean]
      | some st' =>
        rw [hst] at hsh
        simp only [Option.map] at hsh
        rw [← hsh]
        simp only []
        exact ih (row + 1) { st with stack := st'.stack, syms := st'.out.syms } (row, false)

theorem cerrFile_clean_iff (f : List Char) (D : Syms) : (cerrFile f).clean ↔ cspecFile f D ≠ none := by
  unfold cerrFile cspecFile
  have := cerrRun_clean_iff (splitLines f) 1 ⟨[], D, []⟩ (1, false)
  simp only [shapeOf, List.map_nil] at this
  rw [this]
  cases cspecRun (splitLines f) 1 ⟨[], D, []⟩ <;> simp

end Slicec.Pp
