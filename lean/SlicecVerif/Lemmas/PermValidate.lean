/-
  C15 — the validators (the model `validate` of C04) do not depend on the order of the input files.

  For `P.Perm P'` and `UniqueKeys P`:
  * every function of the pipeline that consults the name table or the definitions by key is the same function for `P`
    and `P'` (`siteCodes_fun`, `resolveTy_fun`, `depsT_fun`, `underlyingPrim_fun`, `findDef_perm`, `directBases_fun`,
    `baseClosure_fun`, `kenv_perm`);
  * the contexts of every visitor rule of `P'` are a permutation of those of `P` (`visitor_ctxs_perm`);
  * the codes of every phase of `P'` are a permutation of those of `P`, hence so is `validate` (`validate_perm`).
-/
import SlicecVerif.Lemmas.PermTable
import SlicecVerif.Lemmas.Validate

namespace Slicec.Validate

open Slicec

/-! ## consumers of the table -/

theorem siteCodes_sim (t1 t2 : Table) (h : TableSim t1 t2) (s : RefSite) : siteCodes t1 s = siteCodes t2 s := by
  unfold siteCodes
  rcases sim_cases (resolveNamed_sim t1 t2 h s.want s.id s.scope) with
    ⟨e, r1, r2⟩ | ⟨m1, m2, a, r1, r2, _⟩ | ⟨e, sc, a, r1, r2⟩ <;> rw [r1, r2]

theorem siteCodes_fun (t1 t2 : Table) (h : TableSim t1 t2) : siteCodes t1 = siteCodes t2 :=
  funext (siteCodes_sim t1 t2 h)

theorem basesCodes_fun (t1 t2 : Table) (h : TableSim t1 t2) : basesCodes t1 = basesCodes t2 := by
  funext ss
  induction ss with
  | nil => rfl
  | cons s rest ih => unfold basesCodes; rw [siteCodes_sim t1 t2 h, ih]

theorem defResolveCodes_fun (t1 t2 : Table) (h : TableSim t1 t2) : defResolveCodes t1 = defResolveCodes t2 := by
  funext scope d
  unfold defResolveCodes
  rw [siteCodes_fun t1 t2 h, basesCodes_fun t1 t2 h]

theorem resolveTy_fun (t1 t2 : Table) (h : TableSim t1 t2) : resolveTy t1 = resolveTy t2 := by
  funext scope ty
  cases ty with
  | named id =>
    simp only [resolveTy]
    rcases sim_cases (resolveNamed_sim t1 t2 h .type id scope) with
      ⟨e, r1, r2⟩ | ⟨m1, m2, a, r1, r2, hm⟩ | ⟨e, sc, a, r1, r2⟩
    · rw [r1, r2]
    · rw [r1, r2]
      obtain ⟨hk, hkey, _, _, _, hp, _⟩ := NodeInfo.norm_fields hm
      simp only [hk, hkey, hp]
    · rw [r1, r2]
  | prim p => rfl
  | seq e => rfl
  | dict k v => rfl
  | result s f => rfl

theorem kref_fun (t1 t2 : Table) (h : TableSim t1 t2) : kref t1 = kref t2 := by
  funext scope r
  unfold kref
  rw [resolveTy_fun t1 t2 h]

theorem deps_sim (t1 t2 : Table) (h : TableSim t1 t2) : ∀ fuel : Nat,
    (∀ scope r, depsT t1 scope fuel r = depsT t2 scope fuel r) ∧ (∀ scope e, depsE t1 scope fuel e = depsE t2 scope fuel e) := by
  intro fuel
  induction fuel with
  | zero => exact ⟨fun scope r => by cases r; simp [depsT], fun scope e => by simp [depsE]⟩
  | succ n ih =>
    refine ⟨fun scope r => ?_, fun scope e => ?_⟩
    · cases r with
      | mk a ty o => simp only [depsT]; exact ih.2 scope ty
    · cases e with
      | prim p => simp [depsE]
      | seq e => simp only [depsE]; exact ih.1 scope e
      | dict k v => simp only [depsE]; rw [ih.1 scope k, ih.1 scope v]
      | result s f => simp only [depsE]; rw [ih.1 scope s, ih.1 scope f]
      | named id =>
        simp only [depsE]
        rcases sim_cases (resolveNamed_sim t1 t2 h .type id scope) with
          ⟨e, r1, r2⟩ | ⟨m1, m2, a, r1, r2, hm⟩ | ⟨e, sc, a, r1, r2⟩
        · rw [r1, r2]
        · rw [r1, r2]
          obtain ⟨hk, hkey, _⟩ := NodeInfo.norm_fields hm
          simp only [hk, hkey]
        · rw [r1, r2]
          exact ih.2 sc e

theorem depsT_fun (t1 t2 : Table) (h : TableSim t1 t2) : depsT t1 = depsT t2 := by
  funext scope fuel r
  exact (deps_sim t1 t2 h fuel).1 scope r

theorem defDeps_fun (t1 t2 : Table) (h : TableSim t1 t2) : defDeps t1 = defDeps t2 := by
  funext sd
  unfold defDeps
  rw [depsT_fun t1 t2 h]

theorem underlyingPrim_fun (t1 t2 : Table) (h : TableSim t1 t2) : underlyingPrim t1 = underlyingPrim t2 := by
  funext scope u
  unfold underlyingPrim
  cases u.ty with
  | named id =>
    simp only
    rcases sim_cases (resolveNamed_sim t1 t2 h .primitive id scope) with
      ⟨e, r1, r2⟩ | ⟨m1, m2, a, r1, r2, hm⟩ | ⟨e, sc, a, r1, r2⟩
    · rw [r1, r2]
    · rw [r1, r2]
      simp only [(NodeInfo.norm_fields hm).2.2.2.2.2.1]
    · rw [r1, r2]
  | prim p => rfl
  | seq e => rfl
  | dict k v => rfl
  | result s f => rfl

/-! ## definitions by key -/

theorem fileScope_eq_modPath (f : SFile) : fileScope f = f.modPath := by
  unfold fileScope SFile.modPath
  cases f.module <;> rfl

/-- the definitions of one file, with the file's module scope -/
def fileDefs (f : SFile) : List (String × Def) := f.defs.map fun d => (fileScope f, d)

theorem allDefs_eq (P : Program) : allDefs P = P.flatMap fileDefs := rfl

theorem allDefs_perm {P P' : Program} (hp : P.Perm P') : (allDefs P).Perm (allDefs P') := hp.flatMap_right _

theorem defKey_mem_of_fileDefs (f : SFile) (sd : String × Def) (h : sd ∈ fileDefs f) : defKey sd ∈ f.declKeys := by
  obtain ⟨d, hd, rfl⟩ := List.mem_map.mp h
  unfold defKey
  simp only
  rw [fileScope_eq_modPath]
  exact defKey_mem_declKeys f d hd

/-- **under `UniqueKeys` the definition a key denotes does not depend on the order of the files** -/
theorem findDef_perm (P P' : Program) (hp : P.Perm P') (hu : UniqueKeys P) (key : String) : findDef P key = findDef P' key := by
  unfold findDef
  rw [allDefs_eq, allDefs_eq]
  refine lastWins_perm (fun l => l.reverse.find? (fun sd => defKey sd == key)) rfl ?_ fileDefs P P' hp ?_
  · intro a b
    simp only [List.reverse_append, List.find?_append]
  · intro f hf g hg x y hx hy
    rcases pairwise_mem_cases FilesDisjoint.symm hu f hf g hg with rfl | hd
    · rw [hx] at hy; exact Option.some.inj hy
    · exfalso
      have kx : defKey x = key := by simpa using List.find?_some hx
      have ky : defKey y = key := by simpa using List.find?_some hy
      have mx := defKey_mem_of_fileDefs f x (List.mem_reverse.mp (List.mem_of_find?_eq_some hx))
      have my := defKey_mem_of_fileDefs g y (List.mem_reverse.mp (List.mem_of_find?_eq_some hy))
      rw [kx] at mx; rw [ky] at my
      exact hd.1 key mx (declKeys_sub_allKeys g key my)

theorem findDef_fun (P P' : Program) (hp : P.Perm P') (hu : UniqueKeys P) : findDef P = findDef P' :=
  funext (findDef_perm P P' hp hu)

/-! ## phases 1–3 -/

theorem parseCodes_perm {P P' : Program} (hp : P.Perm P') : (parseCodes P).Perm (parseCodes P') := hp.flatMap_right _

theorem attrPatch_codes_perm {P P' : Program} (hp : P.Perm P') : (attrPatchRule.codes P).Perm (attrPatchRule.codes P') :=
  (hp.flatMap_right fileAllAttrs).flatMap_right _

theorem resolveCodes_perm (P P' : Program) (hp : P.Perm P') (hu : UniqueKeys P) : (resolveCodes P).Perm (resolveCodes P') := by
  unfold resolveCodes
  simp only
  rw [defResolveCodes_fun _ _ (buildTable_sim P P' hp hu)]
  exact (allDefs_perm hp).flatMap_right _

theorem resolve_codes_perm (P P' : Program) (hp : P.Perm P') (hu : UniqueKeys P) : (resolveRule.codes P).Perm (resolveRule.codes P') := by
  show ([P].flatMap resolveCodes).Perm ([P'].flatMap resolveCodes)
  simp only [List.flatMap_cons, List.flatMap_nil, List.append_nil]
  exact resolveCodes_perm P P' hp hu

/-! ## phase 4a: the cycle gate -/

theorem any_reach_perm {nodes nodes' : List (String × Def)} (hn : nodes.Perm nodes') (dd : String × Def → List String)
    (depsOf : String → List String) :
    (nodes.any fun sd =>
      (reachLoop depsOf (2 * ((nodes.map fun sd => (dd sd).length).sum + nodes.length) + 2) (dd sd) []).contains (defKey sd)) =
    (nodes'.any fun sd =>
      (reachLoop depsOf (2 * ((nodes'.map fun sd => (dd sd).length).sum + nodes'.length) + 2) (dd sd) []).contains (defKey sd)) := by
  rw [(hn.map _).sum_nat, hn.length_eq]
  exact hn.any_eq

/-- **the cycle gate does not depend on the order of the files** -/
theorem hasCycle_perm (P P' : Program) (hp : P.Perm P') (hu : UniqueKeys P) : hasCycle P = hasCycle P' := by
  unfold hasCycle
  simp only
  rw [defDeps_fun _ _ (buildTable_sim P P' hp hu), findDef_fun P P' hp hu]
  exact any_reach_perm ((allDefs_perm hp).filter _) _ _

theorem cycle_codes_perm (P P' : Program) (hp : P.Perm P') (hu : UniqueKeys P) : (cycleRule.codes P).Perm (cycleRule.codes P') := by
  show ([P].flatMap fun P => if hasCycle P then [code "InfiniteSizeCycle"] else []).Perm
    ([P'].flatMap fun P => if hasCycle P then [code "InfiniteSizeCycle"] else [])
  simp only [List.flatMap_cons, List.flatMap_nil, List.append_nil]
  rw [hasCycle_perm P P' hp hu]

/-! ## phase 4b: the redefinition scan -/

theorem repeats_congr_seen {α} [BEq α] : ∀ (xs : List α) (s1 s2 : List α), (∀ a, s1.contains a = s2.contains a) →
    repeats s1 xs = repeats s2 xs := by
  intro xs
  induction xs with
  | nil => intro s1 s2 _; rfl
  | cons x xs ih =>
    intro s1 s2 h
    unfold repeats
    rw [h x]
    split
    · rw [ih s1 s2 h]
    · exact ih _ _ (fun a => by rw [List.contains_cons, List.contains_cons, h a])

/-- the hash-map scan reports the same multiset of repeated elements for every order of the scanned list -/
theorem repeats_perm {α} [BEq α] [LawfulBEq α] {xs ys : List α} (hp : xs.Perm ys) :
    ∀ s : List α, (repeats s xs).Perm (repeats s ys) := by
  induction hp with
  | nil => intro s; exact List.Perm.refl _
  | cons x _ ih =>
    intro s
    unfold repeats
    split
    · exact (ih s).cons x
    · exact ih _
  | swap x y l =>
    intro s
    simp only [repeats, List.contains_cons]
    cases hx : s.contains x <;> cases hy : s.contains y <;> simp only [Bool.or_false, Bool.or_true, if_true, if_false,
      Bool.false_eq_true]
    · by_cases hxy : x = y
      · subst hxy; simp
      · have h1 : (x == y) = false := by simpa using hxy
        have h2 : (y == x) = false := by simpa using fun e : y = x => hxy e.symm
        simp only [h1, h2, Bool.false_eq_true, if_false]
        rw [repeats_congr_seen l (x :: y :: s) (y :: x :: s) (fun a => by
          simp only [List.contains_cons]; rw [Bool.or_left_comm])]
    · exact List.Perm.refl _
    · exact List.Perm.refl _
    · exact List.Perm.swap _ _ _
  | trans _ _ ih1 ih2 => intro s; exact (ih1 s).trans (ih2 s)

theorem modulePrefixes_perm {P P' : Program} (hp : P.Perm P') : (modulePrefixes P).Perm (modulePrefixes P') := hp.flatMap_right _

theorem names_codes_perm (P P' : Program) (hp : P.Perm P') : (namesRule.codes P).Perm (namesRule.codes P') := by
  show ((nameScopes P).flatMap fun c => (repeats c.1 c.2).map fun _ => code "Redefinition").Perm
    ((nameScopes P').flatMap fun c => (repeats c.1 c.2).map fun _ => code "Redefinition")
  unfold nameScopes
  rw [List.flatMap_append, List.flatMap_append]
  refine List.Perm.append ?_ (((allDefs_perm hp).flatMap_right _).map _ |>.flatMap_right _)
  simp only [List.flatMap_cons, List.flatMap_nil, List.append_nil]
  refine List.Perm.map _ ?_
  rw [repeats_congr_seen _ (modulePrefixes P) (modulePrefixes P') (fun a => (modulePrefixes_perm hp).contains_eq)]
  exact repeats_perm ((allDefs_perm hp).map _) _

/-! ## phase 4c: the contexts of the visitor rules -/

theorem attrSites_perm (b : Bool) (P P' : Program) (hp : P.Perm P') (hu : UniqueKeys P) : (attrSites b P).Perm (attrSites b P') := by
  unfold attrSites
  simp only
  rw [resolveTy_fun _ _ (buildTable_sim P P' hp hu)]
  exact hp.flatMap_right _

theorem enumCtxs_perm (P P' : Program) (hp : P.Perm P') (hu : UniqueKeys P) : (enumCtxs P).Perm (enumCtxs P') := by
  unfold enumCtxs
  simp only
  rw [underlyingPrim_fun _ _ (buildTable_sim P P' hp hu)]
  exact (allDefs_perm hp).filterMap _

theorem structCtxs_perm {P P' : Program} (hp : P.Perm P') : (structCtxs P).Perm (structCtxs P') := (allDefs_perm hp).filterMap _

theorem compactTagCtxs_perm (P P' : Program) (hp : P.Perm P') (hu : UniqueKeys P) : (compactTagCtxs P).Perm (compactTagCtxs P') :=
  ((structCtxs_perm hp).map _).append ((enumCtxs_perm P P' hp hu).map _)

theorem memberLists_perm {P P' : Program} (hp : P.Perm P') : (memberLists P).Perm (memberLists P') := (allDefs_perm hp).flatMap_right _

theorem streamLists_perm {P P' : Program} (hp : P.Perm P') : (streamLists P).Perm (streamLists P') := (allDefs_perm hp).flatMap_right _

theorem aliasOpts_perm {P P' : Program} (hp : P.Perm P') : (aliasOpts P).Perm (aliasOpts P') := (allDefs_perm hp).filterMap _

theorem filterMap_congr_mem {α β} (l : List α) (f g : α → Option β) (h : ∀ a ∈ l, f a = g a) : l.filterMap f = l.filterMap g := by
  induction l with
  | nil => rfl
  | cons a l ih =>
    rw [List.filterMap_cons, List.filterMap_cons, h a (by simp), ih fun b hb => h b (List.mem_cons_of_mem _ hb)]

theorem baseKey_sim (t1 t2 : Table) (h : TableSim t1 t2) (scope : String) (b : TRef) :
    (match b.ty with
      | .named id => (match resolveNamed t1 .interface id scope with | .ok (.node n, _) => some n.key | _ => none)
      | _ => none) =
    (match b.ty with
      | .named id => (match resolveNamed t2 .interface id scope with | .ok (.node n, _) => some n.key | _ => none)
      | _ => none) := by
  cases b.ty with
  | named id =>
    simp only
    rcases sim_cases (resolveNamed_sim t1 t2 h .interface id scope) with
      ⟨e, r1, r2⟩ | ⟨m1, m2, a, r1, r2, hm⟩ | ⟨e, sc, a, r1, r2⟩
    · rw [r1, r2]
    · rw [r1, r2]; simp only [(NodeInfo.norm_fields hm).2.1]
    · rw [r1, r2]
  | prim p => rfl
  | seq e => rfl
  | dict k v => rfl
  | result s f => rfl

theorem directBases_fun (P P' : Program) (hp : P.Perm P') (hu : UniqueKeys P) :
    directBases P (buildTable P) = directBases P' (buildTable P') := by
  funext key
  unfold directBases
  rw [findDef_perm P P' hp hu key]
  cases findDef P' key with
  | none => rfl
  | some sd =>
    obtain ⟨scope, d⟩ := sd
    cases d with
    | iface doc attrs name bases ops =>
      exact filterMap_congr_mem _ _ _ fun b _ => baseKey_sim _ _ (buildTable_sim P P' hp hu) scope b
    | struct _ _ _ _ _ => rfl
    | enum _ _ _ _ _ _ _ => rfl
    | custom _ _ _ => rfl
    | alias _ _ _ _ => rfl

theorem baseClosure_fun (P P' : Program) (hp : P.Perm P') (hu : UniqueKeys P) :
    baseClosure P (buildTable P) = baseClosure P' (buildTable P') := by
  funext fuel
  induction fuel with
  | zero => funext q acc; simp [baseClosure]
  | succ n ih =>
    funext q acc
    cases q with
    | nil => simp [baseClosure]
    | cons k rest =>
      simp only [baseClosure]
      rw [ih, directBases_fun P P' hp hu]

theorem opNames_fun (P P' : Program) (hp : P.Perm P') (hu : UniqueKeys P) : opNames P = opNames P' := by
  funext key
  unfold opNames
  rw [findDef_perm P P' hp hu key]

theorem shadowCtxs_perm (P P' : Program) (hp : P.Perm P') (hu : UniqueKeys P) : (shadowCtxs P).Perm (shadowCtxs P') := by
  unfold shadowCtxs
  simp only
  rw [baseClosure_fun P P' hp hu, directBases_fun P P' hp hu, opNames_fun P P' hp hu, ((allDefs_perm hp).map _).sum_nat]
  exact (allDefs_perm hp).filterMap _

theorem kenv_perm (P P' : Program) (hp : P.Perm P') (hu : UniqueKeys P) : kenv P = kenv P' := by
  unfold kenv
  simp only
  rw [findDef_fun P P' hp hu, kref_fun _ _ (buildTable_sim P P' hp hu)]

theorem keyFuel_perm {P P' : Program} (hp : P.Perm P') : keyFuel P = keyFuel P' := by
  unfold keyFuel; rw [(allDefs_perm hp).length_eq]

theorem dictKeys_perm (P P' : Program) (hp : P.Perm P') (hu : UniqueKeys P) : (dictKeys P).Perm (dictKeys P') := by
  unfold dictKeys
  simp only
  rw [kref_fun _ _ (buildTable_sim P P' hp hu)]
  exact (allDefs_perm hp).flatMap_right _

theorem keyCtxs_perm (P P' : Program) (hp : P.Perm P') (hu : UniqueKeys P) : (keyRule.ctxs P).Perm (keyRule.ctxs P') := by
  show ((dictKeys P).map fun k => (⟨kenv P, keyFuel P, k⟩ : KeyCtx)).Perm ((dictKeys P').map fun k => (⟨kenv P', keyFuel P', k⟩ : KeyCtx))
  rw [kenv_perm P P' hp hu, keyFuel_perm hp]
  exact (dictKeys_perm P P' hp hu).map _

/-- **the contexts every visitor rule is applied to are, for a permuted program, a permutation of the original's** —
    including the parts of a context that were computed with the name table (resolved underlying types, attributes
    inherited through aliases, inherited operations, key-type environments) -/
theorem visitor_ctxs_perm (b : Bool) (P P' : Program) (hp : P.Perm P') (hu : UniqueKeys P) :
    ∀ r ∈ visitorRules b, (r.ctxs P).Perm (r.ctxs P') := by
  intro r hr
  simp only [visitorRules, List.mem_cons, List.not_mem_nil, or_false] at hr
  rcases hr with rfl | rfl | rfl | rfl | rfl | rfl | rfl | rfl | rfl | rfl | rfl | rfl | rfl | rfl | rfl | rfl | rfl
  · exact attrSites_perm b P P' hp hu
  · exact attrSites_perm b P P' hp hu
  · exact enumCtxs_perm P P' hp hu
  · exact enumCtxs_perm P P' hp hu
  · exact enumCtxs_perm P P' hp hu
  · exact enumCtxs_perm P P' hp hu
  · exact enumCtxs_perm P P' hp hu
  · exact enumCtxs_perm P P' hp hu
  · exact compactTagCtxs_perm P P' hp hu
  · exact enumCtxs_perm P P' hp hu
  · exact structCtxs_perm hp
  · exact memberLists_perm hp
  · exact memberLists_perm hp
  · exact streamLists_perm hp
  · exact shadowCtxs_perm P P' hp hu
  · exact aliasOpts_perm hp
  · exact keyCtxs_perm P P' hp hu

theorem rule_codes_perm_of_ctxs (r : Rule) (P P' : Program) (h : (r.ctxs P).Perm (r.ctxs P')) : (r.codes P).Perm (r.codes P') :=
  h.flatMap_right _

theorem visitor_codes_perm (b : Bool) (P P' : Program) (hp : P.Perm P') (hu : UniqueKeys P) :
    ((visitorRules b).flatMap (·.codes P)).Perm ((visitorRules b).flatMap (·.codes P')) :=
  perm_flatMap_congr _ _ _ fun r hr => rule_codes_perm_of_ctxs r P P' (visitor_ctxs_perm b P P' hp hu r hr)

/-! ## the pipeline -/

theorem firstNonEmpty_cons_perm {a a' : List String} {r r' : List (List String)} (h : a.Perm a')
    (ht : (firstNonEmpty r).Perm (firstNonEmpty r')) : (firstNonEmpty (a :: r)).Perm (firstNonEmpty (a' :: r')) := by
  unfold firstNonEmpty
  rw [h.isEmpty_eq]
  split
  · exact ht
  · exact h

/-- **the codes of a permuted program are a permutation of the codes of the original**: the same phase is the first one
    to report, and it reports the same multiset of codes -/
theorem validate_perm (P P' : Program) (hp : P.Perm P') (hu : UniqueKeys P) : (validate P).Perm (validate P') := by
  unfold validate phases
  refine firstNonEmpty_cons_perm (parseCodes_perm hp) ?_
  refine firstNonEmpty_cons_perm (attrPatch_codes_perm hp) ?_
  refine firstNonEmpty_cons_perm (resolve_codes_perm P P' hp hu) ?_
  refine firstNonEmpty_cons_perm (cycle_codes_perm P P' hp hu) ?_
  refine firstNonEmpty_cons_perm (names_codes_perm P P' hp) ?_
  refine firstNonEmpty_cons_perm (visitor_codes_perm _ P P' hp hu) ?_
  exact List.Perm.refl _

/-- without any side condition: a program rejected by the parse-time checks or by attribute patching is rejected with the
    same codes in every order (these phases do not consult the name table) -/
theorem validate_perm_early (P P' : Program) (hp : P.Perm P') (h : parseCodes P ≠ [] ∨ attrPatchRule.codes P ≠ []) :
    (validate P).Perm (validate P') := by
  have h1 := parseCodes_perm hp
  have h2 := attrPatch_codes_perm hp
  unfold validate phases
  by_cases e1 : parseCodes P = []
  · have e1' : parseCodes P' = [] := by rw [e1] at h1; exact (List.Perm.nil_eq h1).symm
    have e2 : attrPatchRule.codes P ≠ [] := by
      rcases h with h | h
      · exact absurd e1 h
      · exact h
    have e2' : attrPatchRule.codes P' ≠ [] := fun e => e2 (by rw [e] at h2; exact h2.eq_nil)
    have i2 : (attrPatchRule.codes P).isEmpty = false := by simpa using e2
    have i2' : (attrPatchRule.codes P').isEmpty = false := by simpa using e2'
    simp only [firstNonEmpty, e1, e1', List.isEmpty_nil, if_true, i2, i2', Bool.false_eq_true, if_false]
    exact h2
  · have e1' : parseCodes P' ≠ [] := fun e => e1 (by rw [e] at h1; exact h1.eq_nil)
    have i1 : (parseCodes P).isEmpty = false := by simpa using e1
    have i1' : (parseCodes P').isEmpty = false := by simpa using e1'
    simp only [firstNonEmpty, i1, i1', Bool.false_eq_true, if_false]
    exact h1

end Slicec.Validate

/-! ## the `codes` projection (sorted set of codes) -/

namespace Slicec

theorem insertSortedS_perm (x : String) (l : List String) : (insertSortedS x l).Perm (x :: l) := by
  induction l with
  | nil => exact List.Perm.refl _
  | cons y ys ih =>
    unfold insertSortedS
    split
    · exact List.Perm.refl _
    · exact (ih.cons y).trans (List.Perm.swap x y ys)

theorem insertSortedS_sorted (x : String) (l : List String) (h : l.Pairwise (· ≤ ·)) : (insertSortedS x l).Pairwise (· ≤ ·) := by
  induction l with
  | nil => simp [insertSortedS]
  | cons y ys ih =>
    unfold insertSortedS
    rw [List.pairwise_cons] at h
    split
    · rename_i hxy
      refine List.pairwise_cons.mpr ⟨fun z hz => ?_, List.pairwise_cons.mpr h⟩
      rcases List.mem_cons.mp hz with rfl | hz'
      · exact hxy
      · exact String.le_trans hxy (h.1 z hz')
    · rename_i hxy
      have hyx : y ≤ x := by
        rcases String.le_total x y with h1 | h1
        · exact absurd h1 hxy
        · exact h1
      refine List.pairwise_cons.mpr ⟨fun z hz => ?_, ih h.2⟩
      rcases List.mem_cons.mp ((insertSortedS_perm x ys).mem_iff.mp hz) with rfl | hz'
      · exact hyx
      · exact h.1 z hz'

theorem foldl_insertSortedS (xs : List String) : ∀ acc : List String, acc.Pairwise (· ≤ ·) →
    (xs.foldl (fun acc x => insertSortedS x acc) acc).Pairwise (· ≤ ·) ∧
    (xs.foldl (fun acc x => insertSortedS x acc) acc).Perm (xs ++ acc) := by
  induction xs with
  | nil => intro acc h; exact ⟨h, List.Perm.refl _⟩
  | cons x xs ih =>
    intro acc h
    simp only [List.foldl_cons]
    obtain ⟨h1, h2⟩ := ih (insertSortedS x acc) (insertSortedS_sorted x acc h)
    refine ⟨h1, h2.trans ?_⟩
    exact ((insertSortedS_perm x acc).append_left xs).trans (List.perm_middle)

/-- sorting forgets the order of its input -/
theorem sortStrings_perm_eq {xs ys : List String} (h : xs.Perm ys) : sortStrings xs = sortStrings ys := by
  unfold sortStrings
  obtain ⟨s1, p1⟩ := foldl_insertSortedS xs [] List.Pairwise.nil
  obtain ⟨s2, p2⟩ := foldl_insertSortedS ys [] List.Pairwise.nil
  rw [List.append_nil] at p1 p2
  exact List.Perm.eq_of_pairwise (fun a b _ _ hab hba => String.le_antisymm hab hba) s1 s2 ((p1.trans h).trans p2.symm)

theorem codesProjection_perm_eq {xs ys : List String} (h : xs.Perm ys) : codesProjection xs = codesProjection ys := by
  unfold codesProjection
  rw [sortStrings_perm_eq h]

end Slicec
