/-
  C19, second layer: what an ACCEPTED specification looks like (normal form), that writing a parsed
  specification back and parsing it again is a fixed point, and that the writer is injective on normal
  forms. All statements are over arbitrary character lists.
-/
import SlicecVerif.Lemmas.PluginSpec

namespace Slicec.PluginSpec

/-! ## `str::trim` is idempotent -/

theorem dropWhile_idem (p : Char → Bool) : ∀ l : List Char, (l.dropWhile p).dropWhile p = l.dropWhile p
  | [] => by simp
  | c :: cs => by
    by_cases h : p c = true
    · simp only [List.dropWhile_cons, h, if_true]; exact dropWhile_idem p cs
    · have h' : p c = false := by simpa using h
      simp [h']

theorem dropWhile_append_single (p : Char → Bool) (c : Char) (hc : p c = false) :
    ∀ l : List Char, (l ++ [c]).dropWhile p = l.dropWhile p ++ [c]
  | [] => by simp [hc]
  | d :: ds => by
    by_cases h : p d = true
    · simp only [List.cons_append, List.dropWhile_cons, h, if_true]; exact dropWhile_append_single p c hc ds
    · have h' : p d = false := by simpa using h
      simp [h']

theorem dropWhile_head_not (p : Char → Bool) : ∀ (l : List Char) (c : Char) (cs : List Char),
    l.dropWhile p = c :: cs → p c = false
  | [], _, _, h => by simp at h
  | d :: ds, c, cs, h => by
    by_cases hd : p d = true
    · simp only [List.dropWhile_cons, hd, if_true] at h; exact dropWhile_head_not p ds c cs h
    · have hd' : p d = false := by simpa using hd
      simp only [List.dropWhile_cons, hd', Bool.false_eq_true, if_false] at h
      injection h with h1 _
      rw [← h1]; exact hd'

theorem trimStart_idem (l : List Char) : trimStart (trimStart l) = trimStart l := dropWhile_idem _ l

theorem trimEnd_idem (l : List Char) : trimEnd (trimEnd l) = trimEnd l := by
  simp [trimEnd, dropWhile_idem]

/-- `trim_end` keeps a first character that is not white space -/
theorem trimEnd_cons_of_not_ws (c : Char) (cs : List Char) (hc : isWs c = false) :
    trimEnd (c :: cs) = c :: trimEnd cs := by
  simp [trimEnd, dropWhile_append_single isWs c hc]

/-- after `trim_start`, `trim_end` leaves nothing for a second `trim_start` to remove -/
theorem trimStart_trimEnd_trimStart (l : List Char) : trimStart (trimEnd (trimStart l)) = trimEnd (trimStart l) := by
  cases h : trimStart l with
  | nil => simp [trimEnd, trimStart]
  | cons c cs =>
    have hc : isWs c = false := dropWhile_head_not isWs l c cs h
    rw [trimEnd_cons_of_not_ws c cs hc]
    simp [trimStart, hc]

theorem trim_idem (l : List Char) : trim (trim l) = trim l := by
  unfold trim
  rw [trimStart_trimEnd_trimStart, trimEnd_idem]

theorem trimArg_idem (a : Arg) : trimArg (trimArg a) = trimArg a := by
  simp [trimArg, trim_idem]

/-! ## normal form of an accepted specification -/

/-- what `plugin_parser` hands on: a non-empty path with no surrounding white space, and arguments whose
    keys are non-empty and whose keys and values have no surrounding white space -/
def Normal (r : List Char × List Arg) : Prop :=
  r.1 ≠ [] ∧ trim r.1 = r.1 ∧ ∀ a ∈ r.2, a.1 ≠ [] ∧ trimArg a = a

theorem finish_ok_normal (raw r : List Char × List Arg) (h : finish raw = .ok r) : Normal r := by
  rw [finish_eq] at h
  by_cases h1 : trim raw.1 = []
  · rw [if_pos h1] at h; cases h
  · rw [if_neg h1] at h
    by_cases h2 : ∃ a ∈ raw.2.map trimArg, a.1 = []
    · rw [if_pos h2] at h; cases h
    · rw [if_neg h2] at h
      injection h with h
      subst h
      refine ⟨h1, trim_idem _, ?_⟩
      intro a ha
      refine ⟨fun he => h2 ⟨a, ha, he⟩, ?_⟩
      obtain ⟨b, _, rfl⟩ := List.mem_map.1 ha
      exact trimArg_idem b

theorem pluginParser_ok_normal (s : List Char) (r : List Char × List Arg) (h : pluginParser s = .ok r) :
    Normal r := by
  unfold pluginParser at h
  cases hs : scan (.path []) s with
  | error e => rw [hs] at h; cases h
  | ok st => rw [hs] at h; exact finish_ok_normal _ _ h

theorem map_trimArg_of_normal (as : List Arg) (h : ∀ a ∈ as, a.1 ≠ [] ∧ trimArg a = a) : as.map trimArg = as := by
  induction as with
  | nil => rfl
  | cons a as ih =>
    simp only [List.map_cons]
    rw [(h a (by simp)).2, ih (fun b hb => h b (by simp [hb]))]

theorem trim_key_of_normal (as : List Arg) (h : ∀ a ∈ as, a.1 ≠ [] ∧ trimArg a = a) : ∀ a ∈ as, trim a.1 ≠ [] := by
  intro a ha
  obtain ⟨hne, ht⟩ := h a ha
  have : trim a.1 = a.1 := by
    have := congrArg Prod.fst ht
    simpa [trimArg] using this
  rw [this]; exact hne

end Slicec.PluginSpec

namespace Slicec.PluginSpec

/-! ## a comma appended behind a text that does not end in a backslash is read as a separator -/

theorem endsBs_nil : endsBs [] = false := by simp [endsBs]

theorem tokenize_snoc_comma_aux (n : Nat) : ∀ s : List Char, s.length ≤ n → endsBs s = false →
    tokenize (s ++ [',']) = tokenize s ++ [.comma] := by
  induction n with
  | zero =>
    intro s hl _
    have : s = [] := List.length_eq_zero_iff.1 (by omega)
    subst this
    simp [tokenize_cons, tokenize]
  | succ n ih =>
    intro s hl hb
    match s, hl, hb with
    | [], _, _ => simp [tokenize_cons, tokenize]
    | [c], _, hb =>
      have hc : c ≠ '\\' := by simpa [endsBs_single] using hb
      have e : tokenize [','] = [.comma] := by simp [tokenize_cons, tokenize]
      show tokenize (c :: [',']) = tokenize [c] ++ [.comma]
      rw [tokenize_cons c [','], tokenize_cons c [], e]
      simp only [hc, if_false, tokenize]
      by_cases h1 : c = ','
      · simp [h1]
      · by_cases h2 : c = '='
        · simp [h2]
        · simp [h1, h2]
    | c :: d :: rest, hl, hb =>
      have hb' : endsBs (d :: rest) = false := by rwa [endsBs_cons_cons] at hb
      have ihd := ih (d :: rest) (by simp at hl ⊢; omega) hb'
      have hrest : endsBs rest = false := by
        cases rest with
        | nil => exact endsBs_nil
        | cons r rs => rwa [endsBs_cons_cons] at hb'
      have ihr := ih rest (by simp at hl ⊢; omega) hrest
      show tokenize (c :: (d :: rest ++ [','])) = tokenize (c :: d :: rest) ++ [.comma]
      rw [tokenize_cons c (d :: rest ++ [',']), tokenize_cons c (d :: rest)]
      simp only [List.cons_append] at ihd ⊢
      by_cases hc : c = '\\'
      · simp only [hc, if_true]
        by_cases hd : d = ',' ∨ d = '='
        · simp only [hd, if_true, ihr, List.cons_append]
        · simp only [hd, if_false, ihd, List.cons_append]
      · simp only [hc, if_false]
        by_cases h1 : c = ','
        · simp only [h1, if_true, ihd, List.cons_append]
        · simp only [h1, if_false]
          by_cases h2 : c = '='
          · simp only [h2, if_true, ihd, List.cons_append]
          · simp only [h2, if_false, ihd, List.cons_append]

theorem tokenize_snoc_comma (s : List Char) (h : endsBs s = false) :
    tokenize (s ++ [',']) = tokenize s ++ [.comma] :=
  tokenize_snoc_comma_aux s.length s (Nat.le_refl _) h

end Slicec.PluginSpec
