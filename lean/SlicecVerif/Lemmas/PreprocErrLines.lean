/-
  C06, the LOCATED line-by-line reading of the lexer model, with the tokens in front of a lexical error kept:
  * every token / lexical error met in directive mode lies on the row of the cursor (`nextLoop_dir_row`),
  * the fuel-free located stream `lexES` (`lexPreLE_eq_S`), one located directive line (`lexES_dir`, `hash_line`).
  Used by `Lemmas/PreprocErrSim.lean` for the row-by-row agreement of `cerrFile` with the recovery mirror.
-/
import SlicecVerif.Lemmas.PreprocErrors

namespace Slicec.Pp

/-! ## rows of the cursor operations -/

theorem advance_row_ne (l : Loc) (c : Char) (h : c ≠ '\n') : (advance l c).row = l.row := by
  simp [advance, h]

theorem Cur.adv_row (c : Cur) (h : c.peek ≠ some '\n') : c.adv.loc.row = c.loc.row := by
  obtain ⟨rest, o, l⟩ := c
  cases rest with
  | nil => rfl
  | cons ch r =>
    have hc : ch ≠ '\n' := fun e => h (by simp [Cur.peek, e])
    exact advance_row_ne l ch hc

theorem skipWhileAux_row (p : Char → Bool) (hp : p '\n' = false) : ∀ (rest : List Char) (o : Nat) (l : Loc),
    (skipWhileAux p rest o l).loc.row = l.row := by
  intro rest
  induction rest with
  | nil => intro o l; rfl
  | cons ch r ih =>
    intro o l
    unfold skipWhileAux
    split
    · rename_i hch
      have hc : ch ≠ '\n' := fun e => by rw [e, hp] at hch; cases hch
      rw [ih, advance_row_ne l ch hc]
    · rfl

theorem Cur.skipWhile_row (p : Char → Bool) (hp : p '\n' = false) (c : Cur) : (c.skipWhile p).loc.row = c.loc.row :=
  skipWhileAux_row p hp _ _ _

theorem Cur.skipWs_row (c : Cur) : c.skipWs.loc.row = c.loc.row := Cur.skipWhile_row _ isInlineWs_nl c
theorem Cur.toEol_row (c : Cur) : c.toEol.loc.row = c.loc.row := Cur.skipWhile_row _ notNewline_nl c

theorem Cur.skipWhile_stop (p : Char → Bool) (c : Cur) (ch : Char) (r : List Char) (h : c.rest = ch :: r)
    (hp : p ch = false) : c.skipWhile p = c := by
  obtain ⟨rest, o, l⟩ := c
  simp only at h
  subst h
  simp [Cur.skipWhile, skipWhileAux, hp]

/-! ## tokens met in directive mode lie on the row of the cursor -/

def DirStep.onRow (R : Nat) : DirStep → Prop
  | .tok t => t.s.row = R ∧ t.e.row = R
  | .err e => e.s.row = R ∧ e.e.row = R
  | .skip => True

theorem lexKeyword_row (cur : Cur) (h : cur.peek ≠ some '\n') :
    (lexKeyword cur).1.onRow cur.loc.row ∧ (lexKeyword cur).2.loc.row = cur.loc.row := by
  have hr : ((cur.adv.skipWs).skipWhile isIdentChar).loc.row = cur.loc.row := by
    rw [Cur.skipWhile_row _ isIdentChar_nl, Cur.skipWs_row, Cur.adv_row cur h]
  unfold lexKeyword
  simp only
  split <;> exact ⟨⟨rfl, hr⟩, hr⟩

theorem lexDirTok_row (c : Char) (st : LexSt) (hp : st.cur.peek = some c) :
    (lexDirTok c st).1.onRow st.cur.loc.row ∧ (lexDirTok c st).2.cur.loc.row = st.cur.loc.row := by
  have adv1 : c ≠ '\n' → st.cur.adv.loc.row = st.cur.loc.row := fun hc =>
    Cur.adv_row st.cur (by rw [hp]; simpa using hc)
  unfold lexDirTok simpleTok
  simp only
  split
  · rename_i h; have hc : c ≠ '\n' := by rw [h]; decide
    exact ⟨⟨rfl, adv1 hc⟩, adv1 hc⟩
  split
  · rename_i h; have hc : c ≠ '\n' := by rw [h]; decide
    exact ⟨⟨rfl, adv1 hc⟩, adv1 hc⟩
  split
  · rename_i h; have hc : c ≠ '\n' := by rw [h]; decide
    exact ⟨⟨rfl, adv1 hc⟩, adv1 hc⟩
  split
  · rename_i h; have hc : c ≠ '\n' := by rw [h]; decide
    split
    · rename_i h2
      have : st.cur.adv.adv.loc.row = st.cur.loc.row := by
        rw [Cur.adv_row _ (by rw [h2]; decide), adv1 hc]
      exact ⟨⟨rfl, this⟩, this⟩
    · exact ⟨⟨rfl, adv1 hc⟩, adv1 hc⟩
  split
  · rename_i h; have hc : c ≠ '\n' := by rw [h]; decide
    split
    · rename_i h2
      have : st.cur.adv.adv.loc.row = st.cur.loc.row := by
        rw [Cur.adv_row _ (by rw [h2]; decide), adv1 hc]
      exact ⟨⟨rfl, this⟩, this⟩
    · exact ⟨⟨rfl, adv1 hc⟩, adv1 hc⟩
  split
  · rename_i h; have hc : c ≠ '\n' := by rw [h]; decide
    exact lexKeyword_row st.cur (by rw [hp]; simpa using hc)
  split
  · rename_i h; have hc : c ≠ '\n' := by rw [h]; decide
    split
    · refine ⟨trivial, ?_⟩
      show st.cur.adv.toEol.loc.row = _
      rw [Cur.toEol_row, adv1 hc]
    · exact ⟨⟨rfl, adv1 hc⟩, adv1 hc⟩
  split
  · have : (st.cur.skipWhile isIdentChar).loc.row = st.cur.loc.row := Cur.skipWhile_row _ isIdentChar_nl _
    exact ⟨⟨rfl, this⟩, this⟩
  split
  · rename_i h
    have hc : c ≠ '\n' := by
      intro e; rw [e, isWs_nl] at h; cases h
    exact ⟨⟨rfl, adv1 hc⟩, adv1 hc⟩
  split
  · exact ⟨⟨rfl, rfl⟩, rfl⟩
  · exact ⟨⟨rfl, rfl⟩, rfl⟩

/-- the result of one `next()` lies on row `R` and is not a source block -/
def ResRow (R : Nat) : Option (Except LexErr LTok) → Prop
  | some (.ok t) => t.s.row = R ∧ t.e.row = R ∧ t.tok.notBlock
  | some (.error e) => e.s.row = R ∧ e.e.row = R
  | none => True

theorem nextLoop_dir_row (f : List Char) : ∀ (fuel : Nat) (st : LexSt) (start : Option (Loc × Nat)), st.mode = .directive →
    ResRow st.cur.loc.row (nextLoop f fuel st start).1 ∧ (nextLoop f fuel st start).2.cur.loc.row = st.cur.loc.row := by
  intro fuel
  induction fuel with
  | zero => intro st start _; exact ⟨trivial, rfl⟩
  | succ fuel ih =>
    intro st start hm
    cases hrest : st.cur.rest with
    | nil =>
      rw [nextLoop_nil f fuel st start hrest]
      simp only [hm]
      exact ⟨⟨rfl, rfl, trivial⟩, trivial⟩
    | cons c r =>
      rw [nextLoop_cons f fuel st start c r hrest, if_pos hm]
      have hp : st.cur.peek = some c := by simp [Cur.peek, hrest]
      have hrow := lexDirTok_row c st hp
      have hf := lexDirTok_facts f c st
      have hk := lexDirTok_kind' c st r hrest
      cases hd : lexDirTok c st with
      | mk ds st1 =>
        rw [hd] at hrow hf hk
        cases ds with
        | tok t => exact ⟨⟨hrow.1.1, hrow.1.2, hf.2⟩, hrow.2⟩
        | err e => exact ⟨hrow.1, hrow.2⟩
        | skip =>
          simp only [DirStep.kind] at hk
          have hne : (dirTokK c r).1 ≠ .tok .dend := by rw [← hk.1]; simp
          have hm1 : st1.mode = .directive := by rw [hk.2.2, if_neg hne, hm]
          have := ih { st1 with cur := st1.cur.skipWs } start hm1
          simp only at this ⊢
          rw [Cur.skipWs_row, hrow.2] at this
          exact this

theorem lexNext_dir_row (f : List Char) (st : LexSt) (hm : st.mode = .directive) :
    ResRow st.cur.loc.row (lexNext f st).1 ∧ (lexNext f st).2.cur.loc.row = st.cur.loc.row := by
  unfold lexNext
  have := nextLoop_dir_row f (st.cur.rest.length + 1) { st with cur := st.cur.skipWs } none hm
  simp only at this
  rw [Cur.skipWs_row] at this
  exact this

/-! ## the located token stream, fuel-free -/

theorem lexAllE_fuel_succ (f : List Char) : ∀ (n : Nat) (st : LexSt), st.meas + 1 ≤ n →
    lexAllE f (n + 1) st = lexAllE f n st := by
  intro n
  induction n with
  | zero => intro st h; omega
  | succ n ih =>
    intro st h
    rw [lexAllE, lexAllE]
    cases hn : lexNext f st with
    | mk res st1 =>
      cases res with
      | none => rfl
      | some r =>
        cases r with
        | error e => rfl
        | ok t =>
          have := lexNext_meas f st t st1 hn
          simp only
          rw [ih st1 (by omega)]

theorem lexAllE_fuel (f : List Char) (st : LexSt) : ∀ (k : Nat), lexAllE f (st.meas + 1 + k) st = lexAllE f (st.meas + 1) st := by
  intro k
  induction k with
  | zero => rfl
  | succ k ih => rw [← Nat.add_assoc, lexAllE_fuel_succ f _ st (by omega), ih]

/-- `lexAllE` with sufficient fuel -/
def lexES (f : List Char) (st : LexSt) : List LTok × Option LexErr := lexAllE f (st.meas + 1) st

theorem lexAllE_eq_S (f : List Char) (st : LexSt) (n : Nat) (h : st.meas + 1 ≤ n) : lexAllE f n st = lexES f st := by
  obtain ⟨k, rfl⟩ : ∃ k, n = st.meas + 1 + k := ⟨n - (st.meas + 1), by omega⟩
  exact lexAllE_fuel f st k

/-- what one `next()` contributes to the located stream -/
def contE (f : List Char) : Option (Except LexErr LTok) × LexSt → List LTok × Option LexErr
  | (none, _) => ([], none)
  | (some (.error e), _) => ([], some e)
  | (some (.ok t), st') => (t :: (lexES f st').1, (lexES f st').2)

theorem lexES_unfold (f : List Char) (st : LexSt) : lexES f st = contE f (lexNext f st) := by
  unfold lexES
  rw [lexAllE]
  cases hn : lexNext f st with
  | mk res st1 =>
    cases res with
    | none => rfl
    | some r =>
      cases r with
      | error e => rfl
      | ok t =>
        have := lexNext_meas f st t st1 hn
        simp only [contE]
        rw [lexAllE_eq_S f st1 st.meas (by omega)]

theorem lexPreLE_eq_S (f : List Char) : lexPreLE f = lexES f (lexInit f) := by
  unfold lexPreLE
  exact lexAllE_eq_S f _ _ (by simp [LexSt.meas, lexInit, Mode.rank])

/-! ## one located directive line -/

/-- the located stream `S` of a directive line on row `R` followed by the input `tl`, against the position-free
    token kinds `ks` of the line (`none` = lexical error in the line) -/
def LineSpec (f tl : List Char) (R : Nat) (S : List LTok × Option LexErr) : Option (List PTok) → Prop
  | some ks => ∃ ts d, S = (ts ++ d :: (lexES f (stAt f tl .unknown)).1, (lexES f (stAt f tl .unknown)).2) ∧
      ts.map (·.tok) = ks ∧ d.tok = .dend ∧ (∀ t ∈ ts ++ [d], t.s.row = R ∧ t.e.row = R) ∧
      CurInv f (curOf f tl) ∧ (curOf f tl).loc.row = R
  | none => ∃ ts e, S = (ts, some e) ∧ (∀ t ∈ ts, t.tok ≠ .dend ∧ t.tok.notBlock) ∧ e.s.row = R ∧ e.e.row = R

theorem LineSpec.cons {f tl : List Char} {R : Nat} {S : List LTok × Option LexErr} {o : Option (List PTok)} (K : LTok)
    (h : LineSpec f tl R S o) (h1 : K.tok ≠ .dend) (h2 : K.tok.notBlock) (h3 : K.s.row = R ∧ K.e.row = R) :
    LineSpec f tl R (K :: S.1, S.2) (o.map (K.tok :: ·)) := by
  cases o with
  | some ks =>
    obtain ⟨ts, d, hS, hk, hd, hrows, hci, hcr⟩ := h
    refine ⟨K :: ts, d, ?_, ?_, hd, ?_, hci, hcr⟩
    · rw [hS]; rfl
    · simp [hk]
    · intro t ht
      simp only [List.cons_append, List.mem_cons] at ht
      rcases ht with rfl | ht
      · exact h3
      · exact hrows t ht
  | none =>
    obtain ⟨ts, e, hS, hts, he⟩ := h
    refine ⟨K :: ts, e, ?_, ?_, he⟩
    · rw [hS]
    · intro t ht
      simp only [List.mem_cons] at ht
      rcases ht with rfl | ht
      · exact ⟨h1, h2⟩
      · exact hts t ht

/-- the rest of a directive line in directive mode -/
theorem lexES_dir (f tl : List Char) (htl : stopNl tl) : ∀ (n : Nat) (r : List Char) (st : LexSt), st.mode = .directive →
    CurInv f st.cur → st.cur.rest = r ++ tl → noNl r → r.length < n →
    LineSpec f tl st.cur.loc.row (lexES f st) ((dirLexR n r).map (·.1)) := by
  intro n
  induction n with
  | zero => intro r st _ _ _ _ h; omega
  | succ n ih =>
    intro r st hm hinv hrest hr hlen
    have hd := lexNext_dir f st hm
    have hrow := lexNext_dir_row f st hm
    have hf := lexNext_facts f st hinv
    have ha := dirNextK_append r tl hr htl
    have hs := dirNextK_suffix r
    rw [hrest, ha.1] at hd
    rw [lexES_unfold]
    unfold dirLexR
    cases hK : dirNextK r with
    | mk k r1 =>
      rw [hK] at hd ha hs
      cases k with
      | none =>
        obtain ⟨e, st1, hn⟩ := hd
        rw [hn] at hrow
        simp only at hn ⊢
        rw [hn]
        exact ⟨[], e, rfl, by simp, hrow.1.1, hrow.1.2⟩
      | some t =>
        obtain ⟨lt, st1, hn, ht, hr1, hm1⟩ := hd
        rw [hn] at hf hrow
        have hinv1 : CurInv f st1.cur := hf.1
        simp only at hr1 hrow ⊢
        rw [hn]
        simp only [contE]
        by_cases hdd : t = .dend
        · have hnil := ha.2 (by rw [hdd])
          simp only at hnil
          subst hnil
          simp only [hdd, ↓reduceIte, List.nil_append] at hm1 hr1 ⊢
          have hst1 := LexSt.eq_stAt hinv1
          rw [hr1, hm1] at hst1
          have hcur : st1.cur = curOf f tl := by rw [hst1]; rfl
          refine ⟨[], lt, ?_, rfl, by rw [ht, hdd], ?_, ?_, ?_⟩
          · rw [← hst1]; rfl
          · intro x hx
            simp only [List.nil_append, List.mem_singleton] at hx
            subst hx
            exact ⟨hrow.1.1, hrow.1.2.1⟩
          · rw [← hcur]; exact hinv1
          · rw [← hcur]; exact hrow.2
        · simp only [hdd, ↓reduceIte] at hm1 ⊢
          have hl := dirNextK_len r t (by rw [hK]) hdd
          rw [hK] at hl
          simp only at hl
          have := ih r1 st1 hm1 hinv1 hr1 (noNl_of_suffix hs hr) (by omega)
          rw [hrow.2] at this
          have h2 := LineSpec.cons lt this (by rw [ht]; exact hdd) hrow.1.2.2 ⟨hrow.1.1, hrow.1.2.1⟩
          rw [ht] at h2
          cases hrec : dirLexR n r1 with
          | none => rw [hrec] at h2; exact h2
          | some y => rw [hrec] at h2; exact h2

end Slicec.Pp
