/-
  C15 — what a permutation of the input files does to the name table, and why no consumer of the table can see it.

  * `NodeInfo.norm`: what the consumers of the table read of a node (everything but the index of the declaring file and
    the attributes of a module declaration).
  * `FilesDisjoint` / `UniqueKeys`: the side condition — a scoped name declared by a definition of one file (the
    definition itself or one of its members) is declared nowhere in another file; two files may re-open the same module.
  * `lastWins_perm`: a "last writer wins" lookup over the concatenation of per-file lists does not depend on the order of
    the files when the per-file lookups never contradict each other.
  * `buildTable_sim`: under `UniqueKeys` the tables of a program and of a permutation of it answer every lookup alike
    (up to `norm`), and hold the same number of aliases (`TableSim`).
  * `findNodeWithScope_sim`, `walkAlias_sim`, `resolveNamed_sim`: scope search, alias walk and reference resolution give
    the same answer (up to `norm`) on two tables related by `TableSim`.
-/
import SlicecVerif.Lemmas.Perm

namespace Slicec

/-! ## generic list facts -/

theorem perm_flatMap_congr {α β} (l : List α) (f g : α → List β) (h : ∀ a ∈ l, (f a).Perm (g a)) :
    (l.flatMap f).Perm (l.flatMap g) := by
  induction l with
  | nil => exact List.Perm.refl _
  | cons a l ih =>
    rw [List.flatMap_cons, List.flatMap_cons]
    exact (h a (by simp)).append (ih fun b hb => h b (List.mem_cons_of_mem _ hb))

theorem flatMap_congr_mem {α β} (l : List α) (f g : α → List β) (h : ∀ a ∈ l, f a = g a) : l.flatMap f = l.flatMap g := by
  induction l with
  | nil => rfl
  | cons a l ih =>
    rw [List.flatMap_cons, List.flatMap_cons, h a (by simp), ih fun b hb => h b (List.mem_cons_of_mem _ hb)]

theorem pairwise_mem_cases {α} {R : α → α → Prop} (hs : ∀ {x y}, R x y → R y x) {l : List α} (h : l.Pairwise R) :
    ∀ x ∈ l, ∀ y ∈ l, x = y ∨ R x y := by
  induction l with
  | nil => intro x hx; cases hx
  | cons a l ih =>
    rw [List.pairwise_cons] at h
    intro x hx y hy
    rcases List.mem_cons.mp hx with rfl | hx' <;> rcases List.mem_cons.mp hy with rfl | hy'
    · exact Or.inl rfl
    · exact Or.inr (h.1 y hy')
    · exact Or.inr (hs (h.1 x hx'))
    · exact ih h.2 x hx' y hy'

theorem optmap_cases {α β} {f : α → β} {o1 o2 : Option α} (h : o1.map f = o2.map f) :
    (o1 = none ∧ o2 = none) ∨ ∃ a b, o1 = some a ∧ o2 = some b ∧ f a = f b := by
  cases o1 <;> cases o2 <;> simp at h
  · exact Or.inl ⟨rfl, rfl⟩
  · exact Or.inr ⟨_, _, rfl, rfl, h⟩

/-! ## "last writer wins" over per-file lists -/

/-- a lookup `L` in which later elements win (`L (a ++ b)` asks `b` first) finds `x` in the concatenation of per-file lists
    exactly when some file's own lookup finds `x` — provided two files never give different answers -/
theorem lastWins_some_iff {α β γ} (L : List α → Option β) (hnil : L [] = none)
    (happ : ∀ a b, L (a ++ b) = (L b).or (L a)) (F : γ → List α) (fs : List γ)
    (hag : ∀ f ∈ fs, ∀ g ∈ fs, ∀ x y, L (F f) = some x → L (F g) = some y → x = y) :
    ∀ x, L (fs.flatMap F) = some x ↔ ∃ f ∈ fs, L (F f) = some x := by
  induction fs with
  | nil => intro x; simp [hnil]
  | cons f0 rest ih =>
    have ih' := ih (fun f hf g hg => hag f (List.mem_cons_of_mem _ hf) g (List.mem_cons_of_mem _ hg))
    intro x
    rw [List.flatMap_cons, happ, Option.or_eq_some_iff]
    constructor
    · rintro (h | ⟨_, h⟩)
      · obtain ⟨g, hg, hgx⟩ := (ih' x).mp h
        exact ⟨g, List.mem_cons_of_mem _ hg, hgx⟩
      · exact ⟨f0, by simp, h⟩
    · rintro ⟨f, hf, hfx⟩
      rcases List.mem_cons.mp hf with rfl | hf'
      · cases hr : L (rest.flatMap F) with
        | none => exact Or.inr ⟨rfl, hfx⟩
        | some w =>
          obtain ⟨g, hg, hgw⟩ := (ih' w).mp hr
          have := hag f (by simp) g (List.mem_cons_of_mem _ hg) x w hfx hgw
          exact Or.inl (by rw [this])
      · exact Or.inl ((ih' x).mpr ⟨f, hf', hfx⟩)

/-- … hence the lookup does not depend on the order of the files -/
theorem lastWins_perm {α β γ} (L : List α → Option β) (hnil : L [] = none)
    (happ : ∀ a b, L (a ++ b) = (L b).or (L a)) (F : γ → List α) (fs fs' : List γ) (hp : fs.Perm fs')
    (hag : ∀ f ∈ fs, ∀ g ∈ fs, ∀ x y, L (F f) = some x → L (F g) = some y → x = y) :
    L (fs.flatMap F) = L (fs'.flatMap F) := by
  apply Option.ext
  intro x
  rw [lastWins_some_iff L hnil happ F fs hag x,
    lastWins_some_iff L hnil happ F fs' (fun f hf g hg => hag f (hp.mem_iff.mpr hf) g (hp.mem_iff.mpr hg)) x]
  constructor
  · rintro ⟨f, hf, h⟩; exact ⟨f, hp.mem_iff.mp hf, h⟩
  · rintro ⟨f, hf, h⟩; exact ⟨f, hp.mem_iff.mpr hf, h⟩

theorem Table.find_append (a b : Table) (k : String) : Table.find (a ++ b) k = (b.find k).or (a.find k) := by
  induction a with
  | nil => simp [Table.find]
  | cons e a ih =>
    rw [List.cons_append, Table.find, ih, Table.find]
    cases b.find k with
    | some x => simp
    | none => simp only [Option.none_or]

theorem Table.mem_keys_of_find {t : Table} {k : String} {n : NodeInfo} (h : t.find k = some n) : k ∈ t.keys :=
  List.mem_map.mpr ⟨(k, n), Table.find_mem h, rfl⟩

/-! ## normalisation: what consumers read of a node -/

/-- what the consumers of the table read of a node: everything except the index of the file that declared it, and —
    for a module — its attributes (the same module may be re-opened by several files with different attributes) -/
def NodeInfo.norm (n : NodeInfo) : NodeInfo :=
  { n with file := 0, attrs := if n.kind = .module then [] else n.attrs }

def normE (e : String × NodeInfo) : String × NodeInfo := (e.1, e.2.norm)

theorem NodeInfo.norm_fields {n1 n2 : NodeInfo} (h : n1.norm = n2.norm) :
    n1.kind = n2.kind ∧ n1.key = n2.key ∧ n1.modScope = n2.modScope ∧ n1.ident = n2.ident ∧ n1.aliasOf = n2.aliasOf ∧
    n1.prim = n2.prim ∧ (n1.kind ≠ .module → n1.attrs = n2.attrs) := by
  have hk : n1.norm.kind = n2.norm.kind := congrArg _ h
  have h2 : n1.norm.key = n2.norm.key := congrArg _ h
  have h3 : n1.norm.modScope = n2.norm.modScope := congrArg _ h
  have h4 : n1.norm.ident = n2.norm.ident := congrArg _ h
  have h5 : n1.norm.aliasOf = n2.norm.aliasOf := congrArg _ h
  have h6 : n1.norm.prim = n2.norm.prim := congrArg _ h
  have ha : n1.norm.attrs = n2.norm.attrs := congrArg _ h
  refine ⟨hk, h2, h3, h4, h5, h6, fun hne => ?_⟩
  have hk : n1.kind = n2.kind := hk
  simp only [NodeInfo.norm] at ha
  rw [if_neg hne, if_neg (hk ▸ hne)] at ha
  exact ha

theorem NodeInfo.norm_isAlias {n1 n2 : NodeInfo} (h : n1.norm = n2.norm) : n1.isAlias = n2.isAlias := by
  unfold NodeInfo.isAlias; rw [(NodeInfo.norm_fields h).2.2.2.2.1]

theorem Table.find_map_norm (t : Table) (k : String) : Table.find (t.map normE) k = (t.find k).map NodeInfo.norm := by
  induction t with
  | nil => rfl
  | cons e t ih =>
    rw [List.map_cons, Table.find, ih, Table.find]
    cases Table.find t k with
    | some x => rfl
    | none =>
      simp only [Option.map_none, normE]
      by_cases h : (e.1 == k) = true
      · simp [h]
      · simp [h]

theorem Table.keys_map_norm (t : Table) : Table.keys (t.map normE) = Table.keys t := by
  unfold Table.keys
  rw [List.map_map]
  rfl

theorem numAliases_map_norm (t : Table) : numAliases (t.map normE) = numAliases t := by
  unfold numAliases aliasKeys
  simp only [List.length_map]
  rw [← List.countP_eq_length_filter, ← List.countP_eq_length_filter, List.countP_map]
  rfl

/-! ## the entries of one file -/

/-- the entry of the module declaration of a file -/
def modEntries (i : Nat) (f : SFile) : Table :=
  match f.module with
  | some m => [(m.path, { kind := .module, key := m.path, modScope := m.path, ident := m.path, attrs := m.attrs, file := i })]
  | none => []

theorem fileEntries_eq (i : Nat) (f : SFile) : fileEntries i f = f.defs.flatMap (defEntries i f.modPath) ++ modEntries i f := rfl

/-- the entries of the definitions of a file and of their members -/
def declTable (f : SFile) : Table := f.defs.flatMap (defEntries 0 f.modPath)

/-- scoped names a file declares by its definitions: the definitions themselves and their members -/
def SFile.declKeys (f : SFile) : List String := (declTable f).keys

/-- every scoped name a file declares: `declKeys` and the path of its module declaration -/
def SFile.allKeys (f : SFile) : List String := (fileEntries 0 f).keys

/-- two files do not declare the same scoped name — except that both may declare (re-open) the same module: a name declared
    by a definition of one file is declared nowhere in the other, neither by a definition nor as its module -/
def FilesDisjoint (f g : SFile) : Prop :=
  (∀ k ∈ f.declKeys, k ∉ g.allKeys) ∧ (∀ k ∈ g.declKeys, k ∉ f.allKeys)

instance (f g : SFile) : Decidable (FilesDisjoint f g) := by unfold FilesDisjoint; infer_instance

theorem FilesDisjoint.symm {f g : SFile} (h : FilesDisjoint f g) : FilesDisjoint g f := ⟨h.2, h.1⟩

/-- **the side condition of order independence**: different files of the program never declare the same scoped name
    (other than re-opening the same module) -/
def UniqueKeys (P : Program) : Prop := P.Pairwise FilesDisjoint

instance (P : Program) : Decidable (UniqueKeys P) := by unfold UniqueKeys; infer_instance

theorem UniqueKeys.perm {P P' : Program} (hp : P.Perm P') (h : UniqueKeys P) : UniqueKeys P' :=
  (hp.pairwise_iff FilesDisjoint.symm).mp h

/-- the normalised entries of a file; they do not depend on the position of the file -/
def fileTable (f : SFile) : Table := (fileEntries 0 f).map normE

theorem defEntries_norm (i : Nat) (ms : String) (d : Def) :
    (defEntries i ms d).map normE = (defEntries 0 ms d).map normE := by
  cases d <;>
    simp [defEntries, fieldEntries, opEntries, paramEntries, enumeratorEntries, normE, NodeInfo.norm, List.map_flatMap,
      Function.comp_def]

theorem fileEntries_norm (i : Nat) (f : SFile) : (fileEntries i f).map normE = fileTable f := by
  unfold fileTable
  rw [fileEntries_eq, fileEntries_eq, List.map_append, List.map_append, List.map_flatMap, List.map_flatMap]
  congr 1
  · exact flatMap_congr_mem _ _ _ fun d _ => defEntries_norm i _ d
  · unfold modEntries
    cases f.module <;> simp [normE, NodeInfo.norm]

theorem zipIdx_flatMap_norm (P : Program) (k : Nat) :
    ((P.zipIdx k).flatMap fun (f, i) => fileEntries i f).map normE = P.flatMap fileTable := by
  induction P generalizing k with
  | nil => rfl
  | cons f P ih =>
    rw [List.zipIdx_cons, List.flatMap_cons, List.flatMap_cons, List.map_append, ih, fileEntries_norm]

theorem primTable_norm : primTable.map normE = primTable := by
  unfold primTable
  rw [List.map_map]
  apply List.map_congr_left
  intro p _
  simp [normE, NodeInfo.norm]

/-- the normalised table of a program: the primitives, then the normalised entries of the files in order -/
theorem buildTable_norm (P : Program) : (buildTable P).map normE = primTable ++ P.flatMap fileTable := by
  unfold buildTable
  rw [List.map_append, primTable_norm, zipIdx_flatMap_norm]

theorem defEntries_self_mem (i : Nat) (ms : String) (d : Def) : scopedId d.name ms ∈ (defEntries i ms d).keys := by
  cases d <;> simp [defEntries, Table.keys, Def.name]

theorem declKeys_sub_allKeys (f : SFile) (k : String) (h : k ∈ f.declKeys) : k ∈ f.allKeys := by
  unfold SFile.allKeys
  rw [fileEntries_eq]
  simp only [Table.keys, List.map_append, List.mem_append]
  exact Or.inl h

theorem defKey_mem_declKeys (f : SFile) (d : Def) (hd : d ∈ f.defs) : scopedId d.name f.modPath ∈ f.declKeys := by
  unfold SFile.declKeys declTable
  obtain ⟨e, he, hk⟩ := List.mem_map.mp (defEntries_self_mem 0 f.modPath d)
  exact List.mem_map.mpr ⟨e, List.mem_flatMap.mpr ⟨d, hd, he⟩, hk⟩

/-- the canonical node of a module declaration -/
def modNode (k : String) : NodeInfo := { kind := .module, key := k, modScope := k, ident := k }

theorem modEntries_find (f : SFile) (k : String) (n : NodeInfo) (h : (modEntries 0 f).find k = some n) : n.norm = modNode k := by
  unfold modEntries at h
  cases hm : f.module with
  | none => rw [hm] at h; simp [Table.find] at h
  | some m =>
    rw [hm] at h
    simp only [Table.find] at h
    split at h
    · rename_i hk
      have hk' : m.path = k := by simpa using hk
      cases h
      subst hk'
      simp [NodeInfo.norm, modNode]
    · cases h

/-- two files that satisfy `FilesDisjoint` never answer a lookup differently -/
theorem fileTable_agree (f g : SFile) (h : FilesDisjoint f g) (k : String) (x y : NodeInfo)
    (hf : (fileTable f).find k = some x) (hg : (fileTable g).find k = some y) : x = y := by
  have kf : k ∈ f.allKeys := by
    have := Table.mem_keys_of_find hf; unfold fileTable at this; rwa [Table.keys_map_norm] at this
  have kg : k ∈ g.allKeys := by
    have := Table.mem_keys_of_find hg; unfold fileTable at this; rwa [Table.keys_map_norm] at this
  have nf : k ∉ f.declKeys := fun hk => h.1 k hk kg
  have ng : k ∉ g.declKeys := fun hk => h.2 k hk kf
  have key : ∀ (f : SFile) (x : NodeInfo), k ∉ f.declKeys → (fileTable f).find k = some x → x = modNode k := by
    intro f x nf hf
    unfold fileTable at hf
    rw [Table.find_map_norm, fileEntries_eq, Table.find_append] at hf
    have hnone : Table.find (f.defs.flatMap (defEntries 0 f.modPath)) k = none := Table.find_none_of_not_mem _ _ nf
    rw [hnone, Option.or_none] at hf
    cases hm : (modEntries 0 f).find k with
    | none => rw [hm] at hf; cases hf
    | some n =>
      rw [hm] at hf
      simp only [Option.map_some, Option.some.injEq] at hf
      rw [← hf]
      exact modEntries_find f k n hm
  rw [key f x nf hf, key g y ng hg]

/-! ## the tables of a program and of a permutation of it -/

/-- two tables that answer every lookup alike as far as a consumer can see, and hold the same number of aliases
    (the bound of the alias walk) -/
def TableSim (t1 t2 : Table) : Prop :=
  (∀ k, (t1.find k).map NodeInfo.norm = (t2.find k).map NodeInfo.norm) ∧ numAliases t1 = numAliases t2

theorem TableSim.refl (t : Table) : TableSim t t := ⟨fun _ => rfl, rfl⟩

theorem fileTables_agree (P : Program) (hu : UniqueKeys P) (k : String) :
    ∀ f ∈ P, ∀ g ∈ P, ∀ x y, (fileTable f).find k = some x → (fileTable g).find k = some y → x = y := by
  intro f hf g hg x y hx hy
  rcases pairwise_mem_cases FilesDisjoint.symm hu f hf g hg with rfl | hd
  · rw [hx] at hy; exact Option.some.inj hy
  · exact fileTable_agree f g hd k x y hx hy

/-- **under `UniqueKeys`, permuting the files changes nothing a consumer of the name table can see** -/
theorem buildTable_sim (P P' : Program) (hp : P.Perm P') (hu : UniqueKeys P) : TableSim (buildTable P) (buildTable P') := by
  constructor
  · intro k
    rw [← Table.find_map_norm, ← Table.find_map_norm, buildTable_norm, buildTable_norm, Table.find_append, Table.find_append]
    rw [lastWins_perm (fun t => Table.find t k) rfl (fun a b => Table.find_append a b k) fileTable P P' hp
      (fileTables_agree P hu k)]
  · rw [← numAliases_map_norm, ← numAliases_map_norm (buildTable P'), buildTable_norm, buildTable_norm]
    exact numAliases_perm _ _ (List.Perm.append_left _ (hp.flatMap_right _))

/-! ## scope search, alias walk and resolution on similar tables -/

def Target.norm : Target → Target
  | .node n => .node n.norm
  | .expr e s => .expr e s

/-- a resolution result as a consumer sees it -/
def normR (r : Target × List Attr) : Target × List Attr := (r.1.norm, r.2)

theorem scopeLoop_sim (t1 t2 : Table) (h : TableSim t1 t2) (id : String) (m : List String) :
    (scopeLoop t1 id m).map NodeInfo.norm = (scopeLoop t2 id m).map NodeInfo.norm := by
  induction m using scopesOutward.induct with
  | case1 => simp [scopeLoop]
  | case2 a m ih =>
    rw [scopeLoop, scopeLoop]
    rcases optmap_cases (h.1 (joinSegs (a :: m) ++ "::" ++ id)) with ⟨h1, h2⟩ | ⟨n1, n2, h1, h2, hn⟩
    · rw [h1, h2]; exact ih
    · rw [h1, h2]; simpa using hn

theorem findNodeWithScope_sim (t1 t2 : Table) (h : TableSim t1 t2) (id scope : String) :
    (findNodeWithScope t1 id scope).map NodeInfo.norm = (findNodeWithScope t2 id scope).map NodeInfo.norm := by
  unfold findNodeWithScope
  cases stripGlobal id with
  | some rest => exact h.1 rest
  | none =>
    simp only
    rcases optmap_cases (scopeLoop_sim t1 t2 h id (splitSegs scope)) with ⟨h1, h2⟩ | ⟨n1, n2, h1, h2, hn⟩
    · rw [h1, h2]; exact h.1 id
    · rw [h1, h2]; simpa using hn

theorem walkAlias_sim (t1 t2 : Table) (h : TableSim t1 t2) (fuel : Nat) :
    ∀ chain attrs (c1 c2 : NodeInfo), c1.norm = c2.norm →
      (walkAlias t1 fuel chain attrs c1).map normR = (walkAlias t2 fuel chain attrs c2).map normR := by
  induction fuel with
  | zero => intro chain attrs c1 c2 _; rfl
  | succ f ih =>
    intro chain attrs c1 c2 hc
    obtain ⟨_, hkey, hms, _, hal, _, _⟩ := NodeInfo.norm_fields hc
    unfold walkAlias
    rw [hkey]
    split
    · rfl
    · rw [hal]
      cases c2.aliasOf with
      | none => simp only [Except.map, normR, Target.norm, hc]
      | some u =>
        simp only
        cases u.ty with
        | named id =>
          simp only
          rw [hms]
          rcases optmap_cases (findNodeWithScope_sim t1 t2 h id c2.modScope) with ⟨h1, h2⟩ | ⟨n1, n2, h1, h2, hn⟩
          · rw [h1, h2]
          · rw [h1, h2]
            simp only
            rw [NodeInfo.norm_isAlias hn]
            split
            · exact ih _ _ n1 n2 hn
            · simp only [Except.map, normR, Target.norm, hn]
        | prim p => simp only [Except.map, normR, Target.norm, hms]
        | seq e => simp only [Except.map, normR, Target.norm, hms]
        | dict k v => simp only [Except.map, normR, Target.norm, hms]
        | result s f => simp only [Except.map, normR, Target.norm, hms]

/-- the shapes of two resolution results that agree up to `norm` -/
theorem sim_cases {r1 r2 : Except ResErr (Target × List Attr)} (h : r1.map normR = r2.map normR) :
    (∃ e, r1 = .error e ∧ r2 = .error e) ∨
    (∃ n1 n2 a, r1 = .ok (.node n1, a) ∧ r2 = .ok (.node n2, a) ∧ n1.norm = n2.norm) ∨
    (∃ e s a, r1 = .ok (.expr e s, a) ∧ r2 = .ok (.expr e s, a)) := by
  cases r1 <;> cases r2 <;> simp only [Except.map, Except.error.injEq, Except.ok.injEq, reduceCtorEq] at h
  · rename_i e1 e2; exact Or.inl ⟨e1, rfl, by rw [h]⟩
  · rename_i a1 a2
    obtain ⟨tg1, at1⟩ := a1
    obtain ⟨tg2, at2⟩ := a2
    simp only [normR, Prod.mk.injEq] at h
    obtain ⟨htg, rfl⟩ := h
    cases tg1 <;> cases tg2 <;> simp only [Target.norm, Target.node.injEq, Target.expr.injEq, reduceCtorEq] at htg
    · rename_i n1 n2; exact Or.inr (Or.inl ⟨n1, n2, at1, rfl, rfl, htg⟩)
    · obtain ⟨rfl, rfl⟩ := htg
      rename_i e s
      exact Or.inr (Or.inr ⟨e, s, at1, rfl, rfl⟩)

/-- **reference resolution gives the same answer on similar tables**, as far as any consumer can see -/
theorem resolveNamed_sim (t1 t2 : Table) (h : TableSim t1 t2) (w : Want) (id scope : String) :
    (resolveNamed t1 w id scope).map normR = (resolveNamed t2 w id scope).map normR := by
  unfold resolveNamed
  rcases optmap_cases (findNodeWithScope_sim t1 t2 h id scope) with ⟨h1, h2⟩ | ⟨n1, n2, h1, h2, hn⟩
  · rw [h1, h2]
  · rw [h1, h2]
    simp only
    rw [NodeInfo.norm_isAlias hn, h.2]
    split
    · rcases sim_cases (walkAlias_sim t1 t2 h (numAliases t2 + 1) [] [] n1 n2 hn) with
        ⟨e, r1, r2⟩ | ⟨m1, m2, a, r1, r2, hm⟩ | ⟨e, s, a, r1, r2⟩
      · rw [r1, r2]
      · rw [r1, r2]
        simp only
        rw [(NodeInfo.norm_fields hm).1]
        split
        · simp only [Except.map, normR, Target.norm, hm]
        · rfl
      · rw [r1, r2]
    · rw [(NodeInfo.norm_fields hn).1]
      split
      · simp only [Except.map, normR, Target.norm, hn]
      · rfl

end Slicec
