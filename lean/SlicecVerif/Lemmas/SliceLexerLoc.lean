/-
  Lemmas about the located model of the Slice lexer (Model/SliceLexerLoc.lean), C09:
  §1 the cursor in the scanning helpers; §2 one call: erasure and the cursor rule (`lexNextLoc_good`);
  §3 the run: fuel, erasure, final cursor; §4 reading is local, with locations (`lexRunLoc_append`);
  §5 spellings read by one call, first / last token of a tight spelling.
-/
import SlicecVerif.Model.SliceLexerLoc
import SlicecVerif.Lemmas.SliceLexer

namespace Slicec.SLex

open Slicec

/-! ## §1 the cursor in the scanning helpers -/

theorem advWhile_eq (p : Char → Bool) (cur : Loc) (cs : List Char) :
    advWhile p cur cs = (cs.takeWhile p).foldl advance cur := by
  induction cs generalizing cur with
  | nil => rfl
  | cons c cs ih =>
    simp only [advWhile, List.takeWhile_cons]
    split
    · simp [ih]
    · rfl

theorem readStringLoc_erase (e : Bool) (cur : Loc) (cs : List Char) :
    (readStringLoc e cur cs).1 = (readString e cs).1 ∧ (readStringLoc e cur cs).2.1 = (readString e cs).2 := by
  induction cs generalizing e cur with
  | nil => exact ⟨rfl, rfl⟩
  | cons c cs ih =>
    simp only [readStringLoc, readString]
    split
    · exact ⟨rfl, rfl⟩
    · split
      · have := ih false (advance cur c)
        exact ⟨by rw [this.1], this.2⟩
      · split
        · exact ⟨rfl, rfl⟩
        · have := ih (c == '\\') (advance cur c)
          exact ⟨by rw [this.1], this.2⟩

/-- the cursor after `read_string_literal` is the cursor before it advanced over what was consumed -/
theorem readStringLoc_cur (e : Bool) (cur : Loc) (cs : List Char) :
    ∃ pre, cs = pre ++ (readStringLoc e cur cs).2.1 ∧ (readStringLoc e cur cs).2.2 = pre.foldl advance cur := by
  induction cs generalizing e cur with
  | nil => exact ⟨[], rfl, rfl⟩
  | cons c cs ih =>
    simp only [readStringLoc]
    split
    · exact ⟨[], rfl, rfl⟩
    · split
      · obtain ⟨pre, h1, h2⟩ := ih false (advance cur c)
        exact ⟨c :: pre, by simp only [List.cons_append]; rw [← h1], by simp only [List.foldl_cons]; exact h2⟩
      · split
        · exact ⟨[c], rfl, rfl⟩
        · obtain ⟨pre, h1, h2⟩ := ih (c == '\\') (advance cur c)
          exact ⟨c :: pre, by simp only [List.cons_append]; rw [← h1], by simp only [List.foldl_cons]; exact h2⟩

theorem consumeBlockLoc_erase (s : Bool) (cur : Loc) (cs : List Char) :
    (consumeBlockLoc s cur cs).1 = consumeBlock s cs := by
  induction cs generalizing s cur with
  | nil => rfl
  | cons c cs ih =>
    simp only [consumeBlockLoc, consumeBlock]
    split
    · rfl
    · exact ih _ _

theorem consumeBlockLoc_cur (s : Bool) (cur : Loc) (cs : List Char) :
    ∃ pre, cs = pre ++ ((consumeBlockLoc s cur cs).1.getD []) ∧ (consumeBlockLoc s cur cs).2 = pre.foldl advance cur := by
  induction cs generalizing s cur with
  | nil => exact ⟨[], rfl, rfl⟩
  | cons c cs ih =>
    simp only [consumeBlockLoc]
    split
    · exact ⟨[c], rfl, rfl⟩
    · obtain ⟨pre, h1, h2⟩ := ih (c == '*') (advance cur c)
      exact ⟨c :: pre, by simp only [List.cons_append]; rw [← h1], by simp only [List.foldl_cons]; exact h2⟩

/-- a scanning loop: what it walked over, then what it left -/
theorem scan_split (p : Char → Bool) (cur : Loc) (cs : List Char) :
    cs = cs.takeWhile p ++ cs.dropWhile p ∧ advWhile p cur cs = (cs.takeWhile p).foldl advance cur :=
  ⟨(List.takeWhile_append_dropWhile).symm, advWhile_eq p cur cs⟩


/-! ## §2 one call: erasure and the cursor rule -/

/-- the start location a call tags its result with: the cursor on entry, except that a doc comment starts after `///` -/
def tokStart (res : StepRes) (cur : Loc) : Loc :=
  match res with
  | .tok (.doc _) => advance (advance (advance cur '/') '/') '/'
  | _ => cur

/-- `S` is the located version of the unlocated call result `U` on the buffer `inp` entered with the cursor `cur`:
    same result; the cursor moved over exactly the consumed prefix; the start location is the cursor on entry
    (after the three slashes for a doc comment) -/
def LStep.Good (S : LStep) (U : Step) (cur : Loc) (inp : List Char) : Prop :=
  S.step = U ∧ (∃ pre, inp = pre ++ U.rest ∧ S.cur = pre.foldl advance cur) ∧ S.start = tokStart U.res cur

theorem lexPairLoc_good (d : Char) (s t : SliceTok) (a : Bool) (cur : Loc) (c : Char) (cs : List Char)
    (hs : tokStart (.tok s) cur = cur) (ht : tokStart (.tok t) cur = cur) :
    (lexPairLoc d s t a cur c cs).Good (lexPair d s t a cs) cur (c :: cs) := by
  unfold lexPairLoc lexPair LStep.Good
  cases cs with
  | nil => exact ⟨rfl, ⟨[c], rfl, rfl⟩, hs.symm⟩
  | cons e r =>
    simp only []
    split
    · exact ⟨rfl, ⟨[c, e], rfl, rfl⟩, ht.symm⟩
    · exact ⟨rfl, ⟨[c], rfl, rfl⟩, hs.symm⟩

theorem lexStringLoc_good (a : Bool) (cur : Loc) (cs : List Char) :
    (lexStringLoc a cur cs).Good (lexString a cs) cur ('"' :: cs) := by
  have he := readStringLoc_erase false (advance cur '"') cs
  obtain ⟨pre, h1, h2⟩ := readStringLoc_cur false (advance cur '"') cs
  unfold lexStringLoc lexString LStep.Good
  cases hq : readStringLoc false (advance cur '"') cs with
  | mk o r =>
    obtain ⟨rest, cur'⟩ := r
    rw [hq] at he h1 h2
    simp only at he h1 h2
    cases hu : readString false cs with
    | mk o' rest' =>
      rw [hu] at he
      simp only at he
      obtain ⟨rfl, rfl⟩ := he
      cases o with
      | some s => exact ⟨rfl, ⟨'"' :: pre, by simp only [List.cons_append]; rw [← h1], by simp only [List.foldl_cons]; exact h2⟩, rfl⟩
      | none => exact ⟨rfl, ⟨'"' :: pre, by simp only [List.cons_append]; rw [← h1], by simp only [List.foldl_cons]; exact h2⟩, rfl⟩

theorem lexLineCommentLoc_good (a : Bool) (cur : Loc) (r2 : List Char) :
    (lexLineCommentLoc a cur (advance (advance cur '/') '/') r2).Good (lexLineComment a r2) cur ('/' :: '/' :: r2) := by
  unfold LStep.Good
  cases r2 with
  | nil => exact ⟨rfl, ⟨['/', '/'], rfl, rfl⟩, rfl⟩
  | cons c cs =>
    by_cases hc : c = '/'
    · subst hc
      cases cs with
      | nil => exact ⟨rfl, ⟨['/', '/', '/'], rfl, rfl⟩, rfl⟩
      | cons c2 cs =>
        by_cases hc2 : c2 = '/'
        · subst hc2
          refine ⟨rfl, ⟨'/' :: '/' :: '/' :: ('/' :: cs).takeWhile (· != '\n'), ?_, ?_⟩, rfl⟩
          · simp only [lexLineComment, List.cons_append, List.takeWhile_append_dropWhile]
          · simp only [lexLineCommentLoc, advWhile_eq, List.foldl_cons]
        · have e1 : lexLineCommentLoc a cur (advance (advance cur '/') '/') ('/' :: c2 :: cs) =
              ⟨⟨.tok (.doc (stripCr ((c2 :: cs).takeWhile (· != '\n')))), (c2 :: cs).dropWhile (· != '\n'), a⟩,
               advance (advance (advance cur '/') '/') '/',
               advWhile (· != '\n') (advance (advance (advance cur '/') '/') '/') (c2 :: cs)⟩ := by
            simp only [lexLineCommentLoc]; split
            · rename_i heq; cases heq; exact absurd rfl hc2
            · rfl
          have e2 : lexLineComment a ('/' :: c2 :: cs) =
              ⟨.tok (.doc (stripCr ((c2 :: cs).takeWhile (· != '\n')))), (c2 :: cs).dropWhile (· != '\n'), a⟩ := by
            simp only [lexLineComment]; split
            · rename_i heq; cases heq; exact absurd rfl hc2
            · rfl
          rw [e1, e2]
          refine ⟨rfl, ⟨'/' :: '/' :: '/' :: (c2 :: cs).takeWhile (· != '\n'), ?_, ?_⟩, rfl⟩
          · simp only [List.cons_append, List.takeWhile_append_dropWhile]
          · simp only [advWhile_eq, List.foldl_cons]
    · have e1 : lexLineCommentLoc a cur (advance (advance cur '/') '/') (c :: cs) =
          ⟨⟨.skip .lineComment, (c :: cs).dropWhile (· != '\n'), a⟩, cur,
           advWhile (· != '\n') (advance (advance cur '/') '/') (c :: cs)⟩ := by
        unfold lexLineCommentLoc; split
        · rename_i heq; cases heq; exact absurd rfl hc
        · rfl
      have e2 : lexLineComment a (c :: cs) = ⟨.skip .lineComment, (c :: cs).dropWhile (· != '\n'), a⟩ := by
        unfold lexLineComment; split
        · rename_i heq; cases heq; exact absurd rfl hc
        · rfl
      rw [e1, e2]
      refine ⟨rfl, ⟨'/' :: '/' :: (c :: cs).takeWhile (· != '\n'), ?_, ?_⟩, rfl⟩
      · simp only [List.cons_append, List.takeWhile_append_dropWhile]
      · simp only [advWhile_eq, List.foldl_cons]

theorem lexSlashLoc_good (a : Bool) (cur : Loc) (cs : List Char) :
    (lexSlashLoc a cur cs).Good (lexSlash a cs) cur ('/' :: cs) := by
  cases cs with
  | nil => exact ⟨rfl, ⟨['/'], rfl, rfl⟩, rfl⟩
  | cons c cs =>
    by_cases hc : c = '/'
    · subst hc
      simp only [lexSlashLoc, lexSlash]
      exact lexLineCommentLoc_good a cur cs
    · by_cases hs : c = '*'
      · subst hs
        have he := consumeBlockLoc_erase false (advance (advance cur '/') '*') cs
        obtain ⟨pre, h1, h2⟩ := consumeBlockLoc_cur false (advance (advance cur '/') '*') cs
        simp only [lexSlashLoc, lexSlash, LStep.Good]
        cases hq : consumeBlockLoc false (advance (advance cur '/') '*') cs with
        | mk o cur' =>
          rw [hq] at he h1 h2
          simp only at he h1 h2
          rw [← he]
          cases o with
          | some rest =>
            simp only [Option.getD_some] at h1
            exact ⟨rfl, ⟨'/' :: '*' :: pre, by simp only [List.cons_append]; rw [← h1], by simp only [List.foldl_cons]; exact h2⟩, rfl⟩
          | none =>
            simp only [Option.getD_none, List.append_nil] at h1
            exact ⟨rfl, ⟨'/' :: '*' :: pre, by simp only [List.append_nil]; rw [← h1], by simp only [List.foldl_cons]; exact h2⟩, rfl⟩
      · have e1 : lexSlashLoc a cur (c :: cs) = ⟨⟨.err (.unknownSymbol ['/'] (some "//")), c :: cs, a⟩, cur, advance cur '/'⟩ := by
          unfold lexSlashLoc; split
          · rename_i heq; cases heq; exact absurd rfl hc
          · rename_i heq; cases heq; exact absurd rfl hs
          · rfl
        have e2 : lexSlash a (c :: cs) = ⟨.err (.unknownSymbol ['/'] (some "//")), c :: cs, a⟩ := by
          unfold lexSlash; split
          · rename_i heq; cases heq; exact absurd rfl hc
          · rename_i heq; cases heq; exact absurd rfl hs
          · rfl
        rw [e1, e2]
        exact ⟨rfl, ⟨['/'], rfl, rfl⟩, rfl⟩

theorem lexBackslashLoc_good (a : Bool) (cur : Loc) (cs : List Char) :
    (lexBackslashLoc a cur cs).Good (lexBackslash a cs) cur ('\\' :: cs) := by
  cases cs with
  | nil => exact ⟨rfl, ⟨['\\'], rfl, rfl⟩, rfl⟩
  | cons d r =>
    by_cases hd : d.isAlpha = true
    · have e1 : lexBackslashLoc a cur (d :: r) =
          ⟨⟨.tok (.ident ((d :: r).takeWhile isWordChar)), (d :: r).dropWhile isWordChar, a⟩, cur,
           advWhile isWordChar (advance cur '\\') (d :: r)⟩ := by simp only [lexBackslashLoc, hd, if_true]
      have e2 : lexBackslash a (d :: r) = ⟨.tok (.ident ((d :: r).takeWhile isWordChar)), (d :: r).dropWhile isWordChar, a⟩ := by
        simp only [lexBackslash, hd, if_true]
      rw [e1, e2]
      refine ⟨rfl, ⟨'\\' :: (d :: r).takeWhile isWordChar, ?_, ?_⟩, rfl⟩
      · simp only [List.cons_append, List.takeWhile_append_dropWhile]
      · simp only [advWhile_eq, List.foldl_cons]
    · have e1 : lexBackslashLoc a cur (d :: r) =
          ⟨⟨.err (.unknownSymbol ['\\'] (some "\\<identifier>")), d :: r, a⟩, cur, advance cur '\\'⟩ := by
        simp only [lexBackslashLoc, hd, Bool.false_eq_true, if_false]
      have e2 : lexBackslash a (d :: r) = ⟨.err (.unknownSymbol ['\\'] (some "\\<identifier>")), d :: r, a⟩ := by
        simp only [lexBackslash, hd, Bool.false_eq_true, if_false]
      rw [e1, e2]
      exact ⟨rfl, ⟨['\\'], rfl, rfl⟩, rfl⟩

theorem tokStart_simple (c : Char) (t : SliceTok) (cur : Loc) (h : simpleTok c = some t) : tokStart (.tok t) cur = cur := by
  unfold simpleTok at h
  repeat' split at h
  all_goals first
    | (cases h; rfl)
    | cases h

theorem tokStart_wordTok (a : Bool) (w : List Char) (cur : Loc) :
    tokStart (.tok (if a = true then SliceTok.ident w else checkKeyword w)) cur = cur := by
  cases a with
  | true => rfl
  | false =>
    simp only [Bool.false_eq_true, if_false, checkKeyword]
    split <;> rfl

theorem lexWordLoc_good (a : Bool) (cur : Loc) (c : Char) (cs : List Char) :
    (lexWordLoc a cur c cs).Good (lexWord a c cs) cur (c :: cs) := by
  unfold lexWordLoc lexWord LStep.Good
  refine ⟨rfl, ⟨c :: cs.takeWhile isWordChar, ?_, ?_⟩, ?_⟩
  · simp only [List.cons_append, List.takeWhile_append_dropWhile]
  · simp only [advWhile_eq, List.foldl_cons]
  · exact (tokStart_wordTok a _ cur).symm

theorem lexIntegerLoc_good (a : Bool) (cur : Loc) (c : Char) (cs : List Char) :
    (lexIntegerLoc a cur c cs).Good (lexInteger a c cs) cur (c :: cs) := by
  unfold lexIntegerLoc lexInteger LStep.Good
  refine ⟨rfl, ⟨c :: cs.takeWhile isWordChar, ?_, ?_⟩, rfl⟩
  · simp only [List.cons_append, List.takeWhile_append_dropWhile]
  · simp only [advWhile_eq, List.foldl_cons]

theorem lexWhitespaceLoc_good (a : Bool) (cur : Loc) (c : Char) (cs : List Char) :
    (lexWhitespaceLoc a cur c cs).Good (lexWhitespace a cs) cur (c :: cs) := by
  unfold lexWhitespaceLoc lexWhitespace LStep.Good
  refine ⟨rfl, ⟨c :: cs.takeWhile isWs, ?_, ?_⟩, rfl⟩
  · simp only [List.cons_append, List.takeWhile_append_dropWhile]
  · simp only [advWhile_eq, List.foldl_cons]

/-- **One call, located.** Dropping the locations of `lexNextLoc` gives `lexNext`; the cursor after the call is the
    cursor before it advanced over exactly the characters the call consumed; the result is tagged with the cursor on
    entry as its start (a doc comment: the cursor after `///`) and — by definition of `LStep.items` — with the cursor
    after the call as its end. -/
theorem lexNextLoc_good (a : Bool) (cur : Loc) (c : Char) (cs : List Char) :
    (lexNextLoc a cur c cs).Good (lexNext a c cs) cur (c :: cs) := by
  unfold lexNextLoc lexNext
  cases hsimple : simpleTok c with
  | some t => exact ⟨rfl, ⟨[c], rfl, rfl⟩, (tokStart_simple c t cur hsimple).symm⟩
  | none =>
    simp only []
    by_cases h1 : (c == '[') = true
    · simp only [h1, if_true]; exact lexPairLoc_good _ _ _ _ _ _ _ rfl rfl
    simp only [h1, Bool.false_eq_true, if_false]
    by_cases h2 : (c == ']') = true
    · simp only [h2, if_true]; exact lexPairLoc_good _ _ _ _ _ _ _ rfl rfl
    simp only [h2, Bool.false_eq_true, if_false]
    by_cases h3 : (c == ':') = true
    · simp only [h3, if_true]; exact lexPairLoc_good _ _ _ _ _ _ _ rfl rfl
    simp only [h3, Bool.false_eq_true, if_false]
    by_cases h4 : (c == '-') = true
    · simp only [h4, if_true]; exact lexPairLoc_good _ _ _ _ _ _ _ rfl rfl
    simp only [h4, Bool.false_eq_true, if_false]
    by_cases h5 : (c == '"') = true
    · simp only [h5, if_true]
      have : c = '"' := by simpa using h5
      subst this; exact lexStringLoc_good _ _ _
    simp only [h5, Bool.false_eq_true, if_false]
    by_cases h6 : (c == '/') = true
    · simp only [h6, if_true]
      have : c = '/' := by simpa using h6
      subst this; exact lexSlashLoc_good _ _ _
    simp only [h6, Bool.false_eq_true, if_false]
    by_cases h7 : (c == '\\') = true
    · simp only [h7, if_true]
      have : c = '\\' := by simpa using h7
      subst this; exact lexBackslashLoc_good _ _ _
    simp only [h7, Bool.false_eq_true, if_false]
    by_cases h8 : c.isAlpha = true
    · simp only [h8, if_true]; exact lexWordLoc_good _ _ _ _
    simp only [h8, Bool.false_eq_true, if_false]
    by_cases h9 : c.isDigit = true
    · simp only [h9, if_true]; exact lexIntegerLoc_good _ _ _ _
    simp only [h9, Bool.false_eq_true, if_false]
    by_cases h10 : isWs c = true
    · simp only [h10, if_true]; exact lexWhitespaceLoc_good _ _ _ _
    simp only [h10, Bool.false_eq_true, if_false]
    exact ⟨rfl, ⟨[c], rfl, rfl⟩, rfl⟩

/-- erasure, one call -/
theorem lexNextLoc_step (a : Bool) (cur : Loc) (c : Char) (cs : List Char) :
    (lexNextLoc a cur c cs).step = lexNext a c cs := (lexNextLoc_good a cur c cs).1

theorem lexNextLoc_start (a : Bool) (cur : Loc) (c : Char) (cs : List Char) :
    (lexNextLoc a cur c cs).start = tokStart (lexNext a c cs).res cur := (lexNextLoc_good a cur c cs).2.2

theorem lexNextLoc_cur (a : Bool) (cur : Loc) (c : Char) (cs : List Char) :
    ∃ pre, c :: cs = pre ++ (lexNext a c cs).rest ∧ (lexNextLoc a cur c cs).cur = pre.foldl advance cur :=
  (lexNextLoc_good a cur c cs).2.1

/-- the located output of one call, through the unlocated call -/
theorem lexNextLoc_items (a : Bool) (cur : Loc) (c : Char) (cs : List Char) :
    (lexNextLoc a cur c cs).items =
      (lexNext a c cs).res.items.map fun i => ⟨i, tokStart (lexNext a c cs).res cur, (lexNextLoc a cur c cs).cur⟩ := by
  simp only [LStep.items, lexNextLoc_step, lexNextLoc_start]


/-! ## §3 the run: fuel, erasure, the cursor at the end -/

theorem lexNextLoc_rest_le (a : Bool) (cur : Loc) (c : Char) (cs : List Char) :
    (lexNextLoc a cur c cs).step.rest.length ≤ cs.length := by
  rw [lexNextLoc_step]; exact lexNext_rest_le a c cs

theorem lexRunLocF_fuel (n m : Nat) (a : Bool) (cur : Loc) (cs : List Char) (hn : cs.length ≤ n) (hm : cs.length ≤ m) :
    lexRunLocF n a cur cs = lexRunLocF m a cur cs := by
  induction n generalizing m a cur cs with
  | zero =>
    have : cs = [] := List.length_eq_zero_iff.mp (by omega)
    subst this
    cases m <;> rfl
  | succ n ih =>
    cases cs with
    | nil => cases m <;> rfl
    | cons c cs =>
      cases m with
      | zero => simp at hm
      | succ m =>
        simp only [lexRunLocF]
        have hr := lexNextLoc_rest_le a cur c cs
        simp only [List.length_cons] at hn hm
        rw [ih m _ _ _ (by omega) (by omega)]

@[simp] theorem lexRunLoc_nil (a : Bool) (cur : Loc) : lexRunLoc a cur [] = ⟨[], a, .closed, cur⟩ := rfl

/-- the loop of `Iterator::next` with the cursor, without fuel -/
theorem lexRunLoc_cons (a : Bool) (cur : Loc) (c : Char) (cs : List Char) :
    lexRunLoc a cur (c :: cs) =
      ⟨(lexNextLoc a cur c cs).items ++ (lexRunLoc (lexNext a c cs).attr (lexNextLoc a cur c cs).cur (lexNext a c cs).rest).items,
       (lexRunLoc (lexNext a c cs).attr (lexNextLoc a cur c cs).cur (lexNext a c cs).rest).attr,
       if (lexNext a c cs).rest.isEmpty then (lexNext a c cs).res.endClass
       else (lexRunLoc (lexNext a c cs).attr (lexNextLoc a cur c cs).cur (lexNext a c cs).rest).last,
       (lexRunLoc (lexNext a c cs).attr (lexNextLoc a cur c cs).cur (lexNext a c cs).rest).cur⟩ := by
  have hr := lexNextLoc_rest_le a cur c cs
  simp only [lexRunLoc, List.length_cons, lexRunLocF]
  rw [lexRunLocF_fuel cs.length (lexNextLoc a cur c cs).step.rest.length _ _ _ hr (Nat.le_refl _)]
  simp only [lexNextLoc_step]

theorem lexRunLocF_erase (n : Nat) (a : Bool) (cur : Loc) (cs : List Char) :
    (lexRunLocF n a cur cs).erase = lexRunF n a cs := by
  induction n generalizing a cur cs with
  | zero => rfl
  | succ n ih =>
    cases cs with
    | nil => rfl
    | cons c cs =>
      have := ih (lexNextLoc a cur c cs).step.attr (lexNextLoc a cur c cs).cur (lexNextLoc a cur c cs).step.rest
      simp only [lexRunLocF, lexRunF, LexRunLoc.erase, lexNextLoc_step, LStep.items, List.map_append, List.map_map] at this ⊢
      rw [← this]
      simp [Function.comp_def]

/-- **Erasure.** Dropping the locations from the located run gives the run of Model/SliceLexer.lean. -/
theorem lexRunLoc_erase (a : Bool) (cur : Loc) (cs : List Char) : (lexRunLoc a cur cs).erase = lexRun a cs :=
  lexRunLocF_erase _ a cur cs

theorem lexRunLoc_items_erase (a : Bool) (cur : Loc) (cs : List Char) :
    (lexRunLoc a cur cs).items.map (·.item) = (lexRun a cs).items := congrArg LexRun.items (lexRunLoc_erase a cur cs)

theorem lexRunLoc_attr (a : Bool) (cur : Loc) (cs : List Char) : (lexRunLoc a cur cs).attr = (lexRun a cs).attr :=
  congrArg LexRun.attr (lexRunLoc_erase a cur cs)

theorem lexRunLoc_last (a : Bool) (cur : Loc) (cs : List Char) : (lexRunLoc a cur cs).last = (lexRun a cs).last :=
  congrArg LexRun.last (lexRunLoc_erase a cur cs)

theorem collectLoc_erase (items : List LLexItem) : (collectLoc items).erase = collect (items.map (·.item)) := by
  induction items with
  | nil => rfl
  | cons i r ih =>
    obtain ⟨it, x, y⟩ := i
    cases it with
    | err e => rfl
    | tok t =>
      simp only [collectLoc, List.map_cons, collect]
      rw [← ih]
      cases collectLoc r <;> rfl

/-- **Erasure**, parser view: dropping the locations from `lexSliceLocAt` (any block start) gives `lexSlice`. -/
theorem lexSliceLocAt_erase (cur : Loc) (cs : List Char) : (lexSliceLocAt cur cs).erase = lexSlice cs := by
  unfold lexSliceLocAt lexSlice
  rw [collectLoc_erase, lexRunLoc_items_erase]

theorem lexSliceLoc_erase (cs : List Char) : (lexSliceLoc cs).erase = lexSlice cs := lexSliceLocAt_erase _ cs

/-- the cursor after a call, advanced over what the call left, is the cursor before it advanced over the whole buffer -/
theorem lexNextLoc_cur_rest (a : Bool) (cur : Loc) (c : Char) (cs : List Char) :
    (lexNext a c cs).rest.foldl advance (lexNextLoc a cur c cs).cur = (c :: cs).foldl advance cur := by
  obtain ⟨pre, h1, h2⟩ := lexNextLoc_cur a cur c cs
  rw [h2, ← List.foldl_append, ← h1]

/-- when the block is exhausted the cursor has been advanced over every character of it -/
theorem lexRunLoc_cur (a : Bool) (cur : Loc) (cs : List Char) : (lexRunLoc a cur cs).cur = cs.foldl advance cur := by
  induction hn : cs.length using Nat.strongRecOn generalizing a cur cs with
  | _ n ih =>
    cases cs with
    | nil => rfl
    | cons c cs =>
      subst hn
      have hle := lexNext_rest_le a c cs
      rw [lexRunLoc_cons]
      simp only []
      rw [ih (lexNext a c cs).rest.length (by simp only [List.length_cons]; omega) _ _ _ rfl]
      exact lexNextLoc_cur_rest a cur c cs

theorem items_nil_of_erase {items : List LLexItem} (h : items.map (·.item) = []) : items = [] := by
  cases items with
  | nil => rfl
  | cons i r => simp at h

/-- text that reads as nothing reads as nothing with locations -/
theorem lexRunLoc_items_nil (a : Bool) (cur : Loc) (cs : List Char) (h : (lexRun a cs).items = []) :
    (lexRunLoc a cur cs).items = [] :=
  items_nil_of_erase (by rw [lexRunLoc_items_erase, h])


/-! ## §4 reading is local, with locations -/

/-- if appending `r` to the buffer only extends what the call left, the cursor after the call is the same -/
theorem lexNextLoc_cur_extends (a : Bool) (cur : Loc) (c : Char) (cs r : List Char)
    (h : (lexNext a c (cs ++ r)).rest = (lexNext a c cs).rest ++ r) :
    (lexNextLoc a cur c (cs ++ r)).cur = (lexNextLoc a cur c cs).cur := by
  obtain ⟨pre, h1, h2⟩ := lexNextLoc_cur a cur c cs
  obtain ⟨pre', h1', h2'⟩ := lexNextLoc_cur a cur c (cs ++ r)
  rw [h] at h1'
  have : pre' = pre := by
    have e : pre' ++ ((lexNext a c cs).rest ++ r) = pre ++ ((lexNext a c cs).rest ++ r) := by
      rw [← h1', ← List.append_assoc pre, ← h1]; rfl
    exact List.append_cancel_right e
  rw [h2, h2', this]

/-- **Separation lemma with locations.** If the text `s` ends in a way that `r` cannot change (`compat`, the condition
    of C02's `lex_is_local`), the located output on `s ++ r` (block starting at `cur`) is the located output on `s`
    followed by the located output on `r` read as a block that starts where `s` ends, in the mode reached after `s`. -/
theorem lexRunLoc_append (a : Bool) (cur : Loc) (s r : List Char) (h : compat (lexRun a s).last r = true) :
    (lexRunLoc a cur (s ++ r)).items =
      (lexRunLoc a cur s).items ++ (lexRunLoc (lexRun a s).attr (s.foldl advance cur) r).items := by
  cases r with
  | nil => simp
  | cons x r =>
  induction hn : s.length using Nat.strongRecOn generalizing a cur s with
  | _ n ih =>
    cases s with
    | nil => simp
    | cons c cs =>
      subst hn
      have hle := lexNext_rest_le a c cs
      have hS := lexRun_cons a c cs
      by_cases hB : (lexNext a c cs).rest = [] ∧ (lexNext a c cs).res = .skip .whitespace ∧ isWs x = true
      · -- the text ends in whitespace and more whitespace follows: the same call skips both
        obtain ⟨hrest, hres, hx⟩ := hB
        have hc := isWs_of_skip a c cs hres
        have hd : cs.dropWhile isWs = [] := by rw [lexNext_ws a c cs hc] at hrest; exact hrest
        have hall : ∀ d ∈ cs, isWs d = true := all_of_dropWhile_nil isWs cs hd
        have hS' : lexRun a (c :: cs) = ⟨[], a, .closed⟩ := by
          rw [hS, lexNext_ws a c cs hc]
          simp [lexWhitespace, hd, StepRes.items, StepRes.endClass]
        have hL : (lexRunLoc a cur (c :: cs)).items = [] := lexRunLoc_items_nil a cur _ (by rw [hS'])
        rw [hL, hS']
        simp only [List.cons_append, List.nil_append]
        have e1 : lexNext a c (cs ++ x :: r) = ⟨.skip .whitespace, r.dropWhile isWs, a⟩ := by
          rw [lexNext_ws a c _ hc]
          simp [lexWhitespace, List.dropWhile_append_of_pos hall, hx]
        have e2 : lexNext a x r = ⟨.skip .whitespace, r.dropWhile isWs, a⟩ := by
          rw [lexNext_ws a x r hx]; rfl
        have hcur : (lexNextLoc a cur c (cs ++ x :: r)).cur = (lexNextLoc a ((c :: cs).foldl advance cur) x r).cur := by
          obtain ⟨p1, h1, h2⟩ := lexNextLoc_cur a cur c (cs ++ x :: r)
          obtain ⟨p2, h1', h2'⟩ := lexNextLoc_cur a ((c :: cs).foldl advance cur) x r
          rw [e1] at h1
          rw [e2] at h1'
          simp only at h1 h1'
          have : p1 = (c :: cs) ++ p2 := by
            have e : p1 ++ r.dropWhile isWs = ((c :: cs) ++ p2) ++ r.dropWhile isWs := by
              rw [← h1, List.append_assoc, ← h1']; rfl
            exact List.append_cancel_right e
          rw [h2, h2', this, List.foldl_append]
        rw [lexRunLoc_cons a cur c (cs ++ x :: r), lexRunLoc_cons a _ x r]
        simp only [lexNextLoc_items, e1, e2, StepRes.items, List.map_nil, List.nil_append, hcur]
      · have hstep : (lexNext a c cs).extends (lexNext a c (cs ++ x :: r)) (x :: r) := by
          apply lexNext_append
          by_cases hrest : (lexNext a c cs).rest = []
          · refine Or.inr ?_
            have hlast : (lexRun a (c :: cs)).last = (lexNext a c cs).res.endClass := by rw [hS]; simp [hrest]
            rw [hlast] at h
            unfold stepCompat
            split
            · rename_i heq
              simp only [stops]
              cases hx : isWs x with
              | true => exact absurd ⟨hrest, heq, hx⟩ hB
              | false => rfl
            · exact h
          · exact Or.inl hrest
        unfold Step.extends at hstep
        have hcur := lexNextLoc_cur_extends a cur c cs (x :: r) (by rw [hstep])
        have hcompat : compat (lexRun (lexNext a c cs).attr (lexNext a c cs).rest).last (x :: r) = true := by
          by_cases hrest : (lexNext a c cs).rest = []
          · rw [hrest]; rfl
          · rw [hS] at h; simpa [hrest] using h
        have := ih (lexNext a c cs).rest.length (by simp only [List.length_cons]; omega) (lexNext a c cs).attr
          (lexNextLoc a cur c cs).cur (lexNext a c cs).rest hcompat rfl
        simp only [List.cons_append]
        rw [lexRunLoc_cons a cur c (cs ++ x :: r), lexRunLoc_cons a cur c cs]
        simp only [lexNextLoc_items, hstep, hcur]
        rw [this, hS, lexNextLoc_cur_rest]
        simp [List.append_assoc]


/-! ## §5 spellings: one call; the first and the last token of a tight spelling -/

/-- a spelling consumed by ONE call of the lexer: its located output is that call's result from the cursor on entry
    (a doc comment: after `///`) to the cursor advanced over the whole spelling -/
theorem lexRunLoc_oneCall (a : Bool) (cur : Loc) (c : Char) (cs : List Char) (h : (lexNext a c cs).rest = []) :
    (lexRunLoc a cur (c :: cs)).items =
      (lexNext a c cs).res.items.map fun i => ⟨i, tokStart (lexNext a c cs).res cur, (c :: cs).foldl advance cur⟩ := by
  have hc := lexNextLoc_cur_rest a cur c cs
  rw [h] at hc
  simp only [List.foldl_nil] at hc
  rw [lexRunLoc_cons]
  simp only [h, lexRunLoc_nil, List.append_nil, lexNextLoc_items, hc]

/-- a token or an error that is returned with the cursor on entry as its start (everything but a doc comment) -/
def StepRes.plain : StepRes → Bool
  | .tok (.doc _) => false
  | .tok _ => true
  | .err _ => true
  | .skip _ => false

theorem plain_items (res : StepRes) (cur : Loc) (h : res.plain = true) :
    ∃ i, res.items = [i] ∧ tokStart res cur = cur ∧ ∀ d, i ≠ .tok (.doc d) := by
  cases res with
  | skip w => cases h
  | err e => exact ⟨_, rfl, rfl, fun d e => by cases e⟩
  | tok t => cases t <;> first | exact ⟨_, rfl, rfl, fun d e => by cases e⟩ | cases h

theorem plain_simple (c : Char) (t : SliceTok) (h : simpleTok c = some t) : (StepRes.tok t).plain = true := by
  unfold simpleTok at h
  repeat' split at h
  all_goals first
    | (cases h; rfl)
    | cases h

theorem lexPair_res (d : Char) (s t : SliceTok) (a : Bool) (cs : List Char) :
    (lexPair d s t a cs).res = .tok s ∨ (lexPair d s t a cs).res = .tok t := by
  unfold lexPair
  split
  · split
    · exact Or.inr rfl
    · exact Or.inl rfl
  · exact Or.inl rfl

theorem lexPair_plain (d : Char) (s t : SliceTok) (a : Bool) (cs : List Char)
    (hs : (StepRes.tok s).plain = true) (ht : (StepRes.tok t).plain = true) : (lexPair d s t a cs).res.plain = true := by
  rcases lexPair_res d s t a cs with h | h <;> rw [h] <;> assumption

theorem lexString_plain (a : Bool) (cs : List Char) : (lexString a cs).res.plain = true := by
  unfold lexString
  split <;> rfl

theorem lexBackslash_plain (a : Bool) (cs : List Char) : (lexBackslash a cs).res.plain = true := by
  unfold lexBackslash
  split
  · split <;> rfl
  · rfl

theorem lexWord_plain (a : Bool) (c : Char) (cs : List Char) : (lexWord a c cs).res.plain = true := by
  unfold lexWord
  cases a with
  | true => rfl
  | false =>
    simp only [Bool.false_eq_true, if_false, checkKeyword]
    split <;> rfl

/-- a call that starts at a character that is neither white space nor a slash returns a token or an error, tagged with
    the cursor on entry -/
theorem plain_of_first (a : Bool) (c : Char) (cs : List Char) (hw : isWs c = false) (hs : c ≠ '/') :
    (lexNext a c cs).res.plain = true := by
  unfold lexNext
  cases hsimple : simpleTok c with
  | some t => exact plain_simple c t hsimple
  | none =>
    simp only []
    by_cases h1 : (c == '[') = true
    · simp only [h1, if_true]; exact lexPair_plain _ _ _ _ _ rfl rfl
    simp only [h1, Bool.false_eq_true, if_false]
    by_cases h2 : (c == ']') = true
    · simp only [h2, if_true]; exact lexPair_plain _ _ _ _ _ rfl rfl
    simp only [h2, Bool.false_eq_true, if_false]
    by_cases h3 : (c == ':') = true
    · simp only [h3, if_true]; exact lexPair_plain _ _ _ _ _ rfl rfl
    simp only [h3, Bool.false_eq_true, if_false]
    by_cases h4 : (c == '-') = true
    · simp only [h4, if_true]; exact lexPair_plain _ _ _ _ _ rfl rfl
    simp only [h4, Bool.false_eq_true, if_false]
    by_cases h5 : (c == '"') = true
    · simp only [h5, if_true]; exact lexString_plain _ _
    simp only [h5, Bool.false_eq_true, if_false]
    have h6 : (c == '/') = false := by simpa using hs
    simp only [h6, Bool.false_eq_true, if_false]
    by_cases h7 : (c == '\\') = true
    · simp only [h7, if_true]; exact lexBackslash_plain _ _
    simp only [h7, Bool.false_eq_true, if_false]
    by_cases h8 : c.isAlpha = true
    · simp only [h8, if_true]; exact lexWord_plain _ _ _
    simp only [h8, Bool.false_eq_true, if_false]
    by_cases h9 : c.isDigit = true
    · simp only [h9, if_true]; rfl
    simp only [h9, hw, Bool.false_eq_true, if_false]
    rfl

/-- the first element of the located output of a text whose first character is neither white space nor a slash starts
    at the start of the text (and is not a doc comment) -/
theorem lexRunLoc_head (a : Bool) (cur : Loc) (c : Char) (cs : List Char) (hw : isWs c = false) (hs : c ≠ '/') :
    ∃ i tl, (lexRunLoc a cur (c :: cs)).items = i :: tl ∧ i.start = cur ∧ ∀ d, i.item ≠ .tok (.doc d) := by
  obtain ⟨i, hi, hst, hnd⟩ := plain_items _ cur (plain_of_first a c cs hw hs)
  rw [lexRunLoc_cons]
  simp only [lexNextLoc_items, hi, hst, List.map_cons, List.map_nil, List.cons_append, List.nil_append]
  exact ⟨_, _, rfl, rfl, hnd⟩

theorem lexLineComment_res (a : Bool) (cs : List Char) :
    (lexLineComment a cs).res = .skip .lineComment ∨ ∃ d, (lexLineComment a cs).res = .tok (.doc d) := by
  unfold lexLineComment
  split
  · split
    · exact Or.inl rfl
    · exact Or.inr ⟨_, rfl⟩
  · exact Or.inl rfl

theorem consumeBlock_last (s : Bool) (cs : List Char) (h : consumeBlock s cs = some []) : cs.getLast? = some '/' := by
  induction cs generalizing s with
  | nil => simp [consumeBlock] at h
  | cons c cs ih =>
    simp only [consumeBlock] at h
    split at h
    · rename_i hc
      simp only [Option.some.injEq] at h
      subst h
      have : c = '/' := by simp only [Bool.and_eq_true, beq_iff_eq] at hc; exact hc.1
      subst this; rfl
    · have := ih _ h
      cases cs with
      | nil => simp at this
      | cons d r => simpa [List.getLast?_cons_cons] using this

/-- a block comment that ran to the end of the buffer ends in a slash -/
theorem lexSlash_block_last (a : Bool) (cs : List Char) (hres : (lexSlash a cs).res = .skip .blockComment)
    (hrest : (lexSlash a cs).rest = []) : ('/' :: cs).getLast? = some '/' := by
  cases cs with
  | nil => simp [lexSlash] at hres
  | cons c cs =>
    by_cases hc : c = '/'
    · subst hc
      simp only [lexSlash] at hres
      rcases lexLineComment_res a cs with h | ⟨d, h⟩ <;> rw [h] at hres <;> cases hres
    · by_cases hs : c = '*'
      · subst hs
        simp only [lexSlash] at hres hrest
        cases hb : consumeBlock false cs with
        | none => rw [hb] at hres; cases hres
        | some rest =>
          rw [hb] at hrest
          simp only at hrest
          subst hrest
          have := consumeBlock_last false cs hb
          cases cs with
          | nil => simp at this
          | cons d r => simpa [List.getLast?_cons_cons] using this
      · have e : lexSlash a (c :: cs) = ⟨.err (.unknownSymbol ['/'] (some "//")), c :: cs, a⟩ := by
          unfold lexSlash; split
          · rename_i heq; cases heq; exact absurd rfl hc
          · rename_i heq; cases heq; exact absurd rfl hs
          · rfl
        rw [e] at hres; cases hres

theorem plain_ne_skip {res : StepRes} {w : Skipped} (h : res.plain = true) : res ≠ .skip w := by
  intro e; rw [e] at h; cases h

/-- only the `'/'` arm skips a block comment -/
theorem slash_of_skip_block (a : Bool) (c : Char) (cs : List Char) (h : (lexNext a c cs).res = .skip .blockComment) : c = '/' := by
  by_cases hs : c = '/'
  · exact hs
  · exfalso
    cases hw : isWs c with
    | false => exact plain_ne_skip (plain_of_first a c cs hw hs) h
    | true =>
      rw [lexNext_ws a c cs hw] at h
      cases h

/-- a call that skipped text up to the end of the buffer: either a line comment, or the buffer ends in white space
    (`skip_whitespace`) or in a slash (`*/`) -/
theorem skip_last (a : Bool) (c : Char) (cs : List Char) (w : Skipped) (hres : (lexNext a c cs).res = .skip w)
    (hrest : (lexNext a c cs).rest = []) :
    w = .lineComment ∨ ∃ d, (c :: cs).getLast? = some d ∧ (isWs d = true ∨ d = '/') := by
  cases w with
  | lineComment => exact Or.inl rfl
  | whitespace =>
    refine Or.inr ?_
    have hc := isWs_of_skip a c cs hres
    rw [lexNext_ws a c cs hc] at hrest
    have hall := all_of_dropWhile_nil isWs cs hrest
    cases hq : cs.getLast? with
    | none =>
      have : cs = [] := List.getLast?_eq_none_iff.mp hq
      subst this
      exact ⟨c, rfl, Or.inl hc⟩
    | some d =>
      refine ⟨d, ?_, Or.inl (hall d (List.mem_of_getLast? hq))⟩
      cases cs with
      | nil => simp at hq
      | cons e r => rw [List.getLast?_cons_cons]; exact hq
  | blockComment =>
    refine Or.inr ?_
    have hc := slash_of_skip_block a c cs hres
    subst hc
    rw [lexNext_slash] at hres hrest
    exact ⟨'/', lexSlash_block_last a cs hres hrest, Or.inr rfl⟩

theorem getLast?_append_of_ne_nil {α : Type} (l1 l2 : List α) (h : l2 ≠ []) : (l1 ++ l2).getLast? = l2.getLast? := by
  rw [List.getLast?_append]
  cases hq : l2.getLast? with
  | none => exact absurd (List.getLast?_eq_none_iff.mp hq) h
  | some x => rfl

/-- the last element of the located output of a text whose last character is neither white space nor a slash, and that
    does not end inside a line comment, ends at the end of the text -/
theorem lexRunLoc_getLast (a : Bool) (cur : Loc) (cs : List Char) (d : Char) (hd : cs.getLast? = some d)
    (hw : isWs d = false) (hs : d ≠ '/') (hline : (lexRun a cs).last ≠ .line) :
    ∃ it, (lexRunLoc a cur cs).items.getLast? = some it ∧ it.stop = cs.foldl advance cur := by
  induction hn : cs.length using Nat.strongRecOn generalizing a cur cs with
  | _ n ih =>
    cases cs with
    | nil => simp at hd
    | cons c r =>
      subst hn
      have hle := lexNext_rest_le a c r
      have hS := lexRun_cons a c r
      by_cases hrest : (lexNext a c r).rest = []
      · -- the last call
        have hlast : (lexRun a (c :: r)).last = (lexNext a c r).res.endClass := by rw [hS]; simp [hrest]
        rw [lexRunLoc_oneCall a cur c r hrest]
        cases hres : (lexNext a c r).res with
        | skip w =>
          exfalso
          rcases skip_last a c r w hres hrest with rfl | ⟨d', hd', h'⟩
          · rw [hlast, hres] at hline; exact hline rfl
          · rw [hd] at hd'
            simp only [Option.some.injEq] at hd'
            subst hd'
            rcases h' with h' | h'
            · rw [hw] at h'; cases h'
            · exact hs h'
        | tok t => exact ⟨⟨.tok t, tokStart (.tok t) cur, (c :: r).foldl advance cur⟩, by simp only [StepRes.items, List.map_cons, List.map_nil, List.getLast?_singleton], rfl⟩
        | err e => exact ⟨⟨.err e, tokStart (.err e) cur, (c :: r).foldl advance cur⟩, by simp only [StepRes.items, List.map_cons, List.map_nil, List.getLast?_singleton], rfl⟩
      · obtain ⟨pre, h1, _⟩ := lexNextLoc_cur a cur c r
        have hd' : (lexNext a c r).rest.getLast? = some d := by
          rw [h1, getLast?_append_of_ne_nil _ _ hrest] at hd; exact hd
        have hline' : (lexRun (lexNext a c r).attr (lexNext a c r).rest).last ≠ .line := by
          rw [hS] at hline; simpa [hrest] using hline
        obtain ⟨it, hit, hstop⟩ := ih (lexNext a c r).rest.length (by simp only [List.length_cons]; omega)
          (lexNext a c r).attr (lexNextLoc a cur c r).cur (lexNext a c r).rest hd' hline' rfl
        refine ⟨it, ?_, ?_⟩
        · rw [lexRunLoc_cons]
          simp only []
          rw [getLast?_append_of_ne_nil _ _ (by intro e; rw [e] at hit; cases hit)]
          exact hit
        · rw [hstop, lexNextLoc_cur_rest]


/-! ## §6 every token lies exactly over its spelling, for every text -/

theorem spells_simple (c : Char) (t : SliceTok) (h : simpleTok c = some t) : spells t [c] := by
  unfold simpleTok at h
  repeat' split at h
  all_goals first
    | (cases h; rename_i hc; have := eq_of_beq hc; subst this; rfl)
    | cases h

theorem lexPair_spells (c d : Char) (s t : SliceTok) (a : Bool) (cs : List Char) (hs : spells s [c]) (ht : spells t [c, d])
    (u : SliceTok) (h : (lexPair d s t a cs).res = .tok u) : ∃ mid, c :: cs = mid ++ (lexPair d s t a cs).rest ∧ spells u mid := by
  unfold lexPair at h ⊢
  cases cs with
  | nil => simp only at h ⊢; cases h; exact ⟨[c], rfl, hs⟩
  | cons e r =>
    simp only at h ⊢
    split at h
    · rename_i he
      have := eq_of_beq he
      subst this
      cases h
      simp only [he, if_true]
      exact ⟨[c, e], rfl, ht⟩
    · rename_i he
      cases h
      simp only [he]
      exact ⟨[c], rfl, hs⟩

theorem readString_some (e : Bool) (cs s rest : List Char) (h : readString e cs = (some s, rest)) : cs = s ++ '"' :: rest := by
  induction cs generalizing e s with
  | nil => simp [readString] at h
  | cons c cs ih =>
    simp only [readString] at h
    split at h
    · cases h
    · split at h
      · cases hq : readString false cs with
        | mk o r =>
          rw [hq] at h
          cases o with
          | none => cases h
          | some s' =>
            simp only [Option.map_some, Prod.mk.injEq, Option.some.injEq] at h
            obtain ⟨rfl, rfl⟩ := h
            rw [ih false s' hq]; rfl
      · split at h
        · rename_i hc
          have := eq_of_beq hc
          subst this
          simp only [Prod.mk.injEq, Option.some.injEq] at h
          obtain ⟨rfl, rfl⟩ := h
          rfl
        · cases hq : readString (c == '\\') cs with
          | mk o r =>
            rw [hq] at h
            cases o with
            | none => cases h
            | some s' =>
              simp only [Option.map_some, Prod.mk.injEq, Option.some.injEq] at h
              obtain ⟨rfl, rfl⟩ := h
              rw [ih _ s' hq]; rfl

theorem lexString_spells (a : Bool) (cs : List Char) (u : SliceTok) (h : (lexString a cs).res = .tok u) :
    ∃ mid, '"' :: cs = mid ++ (lexString a cs).rest ∧ spells u mid := by
  unfold lexString at h ⊢
  cases hq : readString false cs with
  | mk o rest =>
    rw [hq] at h
    cases o with
    | none => cases h
    | some s =>
      simp only at h ⊢
      cases h
      refine ⟨'"' :: (s ++ ['"']), ?_, rfl⟩
      rw [readString_some false cs s rest hq]
      simp

theorem lexLineComment_spells (a : Bool) (cs : List Char) (u : SliceTok) (h : (lexLineComment a cs).res = .tok u) :
    ∃ mid, '/' :: '/' :: cs = mid ++ (lexLineComment a cs).rest ∧ spells u mid := by
  cases cs with
  | nil => simp [lexLineComment] at h
  | cons c cs =>
    by_cases hc : c = '/'
    · subst hc
      cases cs with
      | nil =>
        simp only [lexLineComment] at h ⊢
        cases h
        exact ⟨['/', '/', '/'], rfl, [], rfl, rfl⟩
      | cons c2 cs =>
        by_cases hc2 : c2 = '/'
        · subst hc2; simp [lexLineComment] at h
        · have e2 : lexLineComment a ('/' :: c2 :: cs) =
              ⟨.tok (.doc (stripCr ((c2 :: cs).takeWhile (· != '\n')))), (c2 :: cs).dropWhile (· != '\n'), a⟩ := by
            simp only [lexLineComment]; split
            · rename_i heq; cases heq; exact absurd rfl hc2
            · rfl
          rw [e2] at h ⊢
          cases h
          refine ⟨'/' :: '/' :: '/' :: (c2 :: cs).takeWhile (· != '\n'), ?_, _, rfl, rfl⟩
          simp only [List.cons_append, List.takeWhile_append_dropWhile]
    · have e2 : lexLineComment a (c :: cs) = ⟨.skip .lineComment, (c :: cs).dropWhile (· != '\n'), a⟩ := by
        unfold lexLineComment; split
        · rename_i heq; cases heq; exact absurd rfl hc
        · rfl
      rw [e2] at h; cases h

theorem lexSlash_spells (a : Bool) (cs : List Char) (u : SliceTok) (h : (lexSlash a cs).res = .tok u) :
    ∃ mid, '/' :: cs = mid ++ (lexSlash a cs).rest ∧ spells u mid := by
  cases cs with
  | nil => simp [lexSlash] at h
  | cons c cs =>
    by_cases hc : c = '/'
    · subst hc
      simp only [lexSlash] at h ⊢
      exact lexLineComment_spells a cs u h
    · by_cases hs : c = '*'
      · subst hs
        simp only [lexSlash] at h
        cases hb : consumeBlock false cs with
        | none => rw [hb] at h; cases h
        | some rest => rw [hb] at h; cases h
      · have e : lexSlash a (c :: cs) = ⟨.err (.unknownSymbol ['/'] (some "//")), c :: cs, a⟩ := by
          unfold lexSlash; split
          · rename_i heq; cases heq; exact absurd rfl hc
          · rename_i heq; cases heq; exact absurd rfl hs
          · rfl
        rw [e] at h; cases h

theorem lexBackslash_spells (a : Bool) (cs : List Char) (u : SliceTok) (h : (lexBackslash a cs).res = .tok u) :
    ∃ mid, '\\' :: cs = mid ++ (lexBackslash a cs).rest ∧ spells u mid := by
  cases cs with
  | nil => simp [lexBackslash] at h
  | cons d r =>
    by_cases hd : d.isAlpha = true
    · simp only [lexBackslash, hd, if_true] at h ⊢
      cases h
      exact ⟨'\\' :: (d :: r).takeWhile isWordChar, by simp only [List.cons_append, List.takeWhile_append_dropWhile], Or.inr rfl⟩
    · simp only [lexBackslash, hd, Bool.false_eq_true, if_false] at h
      cases h

theorem lexWord_spells (a : Bool) (c : Char) (cs : List Char) (u : SliceTok) (h : (lexWord a c cs).res = .tok u) :
    ∃ mid, c :: cs = mid ++ (lexWord a c cs).rest ∧ spells u mid := by
  refine ⟨c :: cs.takeWhile isWordChar, by simp only [lexWord, List.cons_append, List.takeWhile_append_dropWhile], ?_⟩
  simp only [lexWord, StepRes.tok.injEq] at h
  subst h
  cases a with
  | true => exact Or.inl rfl
  | false =>
    simp only [Bool.false_eq_true, if_false, checkKeyword]
    split
    · rename_i k hk; exact hk
    · exact Or.inl rfl

/-- one call: the characters it consumed are the spelling of the token it returns -/
theorem lexNext_spells (a : Bool) (c : Char) (cs : List Char) (u : SliceTok) (h : (lexNext a c cs).res = .tok u) :
    ∃ mid, c :: cs = mid ++ (lexNext a c cs).rest ∧ spells u mid := by
  unfold lexNext at h ⊢
  cases hsimple : simpleTok c with
  | some t =>
    rw [hsimple] at h
    simp only at h ⊢
    cases h
    exact ⟨[c], rfl, spells_simple c _ hsimple⟩
  | none =>
    rw [hsimple] at h
    simp only at h ⊢
    by_cases h1 : (c == '[') = true
    · have := eq_of_beq h1; subst this
      simp only [h1, if_true] at h ⊢; exact lexPair_spells '[' '[' .lbracket .dlbracket true cs rfl rfl u h
    simp only [h1, Bool.false_eq_true, if_false] at h ⊢
    by_cases h2 : (c == ']') = true
    · have := eq_of_beq h2; subst this
      simp only [h2, if_true] at h ⊢; exact lexPair_spells ']' ']' .rbracket .drbracket false cs rfl rfl u h
    simp only [h2, Bool.false_eq_true, if_false] at h ⊢
    by_cases h3 : (c == ':') = true
    · have := eq_of_beq h3; subst this
      simp only [h3, if_true] at h ⊢; exact lexPair_spells ':' ':' .colon .dcolon a cs rfl rfl u h
    simp only [h3, Bool.false_eq_true, if_false] at h ⊢
    by_cases h4 : (c == '-') = true
    · have := eq_of_beq h4; subst this
      simp only [h4, if_true] at h ⊢; exact lexPair_spells '-' '>' .minus .arrow a cs rfl rfl u h
    simp only [h4, Bool.false_eq_true, if_false] at h ⊢
    by_cases h5 : (c == '"') = true
    · have := eq_of_beq h5; subst this
      simp only [h5, if_true] at h ⊢; exact lexString_spells _ _ u h
    simp only [h5, Bool.false_eq_true, if_false] at h ⊢
    by_cases h6 : (c == '/') = true
    · have := eq_of_beq h6; subst this
      simp only [h6, if_true] at h ⊢; exact lexSlash_spells _ _ u h
    simp only [h6, Bool.false_eq_true, if_false] at h ⊢
    by_cases h7 : (c == '\\') = true
    · have := eq_of_beq h7; subst this
      simp only [h7, if_true] at h ⊢; exact lexBackslash_spells _ _ u h
    simp only [h7, Bool.false_eq_true, if_false] at h ⊢
    by_cases h8 : c.isAlpha = true
    · simp only [h8, if_true] at h ⊢; exact lexWord_spells _ _ _ u h
    simp only [h8, Bool.false_eq_true, if_false] at h ⊢
    by_cases h9 : c.isDigit = true
    · simp only [h9, if_true] at h ⊢
      simp only [lexInteger, StepRes.tok.injEq] at h
      subst h
      exact ⟨c :: cs.takeWhile isWordChar, by simp only [lexInteger, List.cons_append, List.takeWhile_append_dropWhile], rfl⟩
    simp only [h9, Bool.false_eq_true, if_false] at h ⊢
    by_cases h10 : isWs c = true
    · simp only [h10, if_true, lexWhitespace] at h; cases h
    simp only [h10, Bool.false_eq_true, if_false] at h
    cases h

theorem advance_slash (l : Loc) : advance l '/' = ⟨l.row, l.col + 1⟩ := by simp [advance]

theorem tokStart_tok (t : SliceTok) (cur : Loc) : tokStart (.tok t) cur = t.startAt cur := by
  cases t <;> simp [tokStart, SliceTok.startAt, advance_slash]

/-- **Every token lies exactly over its spelling — for every text.**  Each element of the located output of any text `cs`
    (block starting at `cur`, any attribute mode) cuts the text as `pre ++ mid ++ post` such that its end is the location
    after `pre ++ mid`, its start is the location after `pre` (a doc comment: three columns later, after `///`), and for a
    token `mid` is the token's spelling (`spells`). -/
theorem lexRunLoc_extent (a : Bool) (cur : Loc) (cs : List Char) :
    ∀ it ∈ (lexRunLoc a cur cs).items, ∃ pre mid post, cs = pre ++ mid ++ post ∧
      it.stop = (pre ++ mid).foldl advance cur ∧
      (match it.item with
       | .tok t => spells t mid ∧ it.start = t.startAt (pre.foldl advance cur)
       | .err _ => it.start = pre.foldl advance cur) := by
  induction hn : cs.length using Nat.strongRecOn generalizing a cur cs with
  | _ n ih =>
    cases cs with
    | nil => intro it hit; simp at hit
    | cons c r =>
      subst hn
      intro it hit
      have hle := lexNext_rest_le a c r
      obtain ⟨p, hp1, hp2⟩ := lexNextLoc_cur a cur c r
      rw [lexRunLoc_cons] at hit
      simp only [List.mem_append] at hit
      rcases hit with hit | hit
      · rw [lexNextLoc_items] at hit
        obtain ⟨i, hi, rfl⟩ := List.mem_map.mp hit
        refine ⟨[], p, (lexNext a c r).rest, by simpa using hp1, by simpa using hp2, ?_⟩
        cases hres : (lexNext a c r).res with
        | skip w => rw [hres] at hi; simp [StepRes.items] at hi
        | err e =>
          rw [hres] at hi
          simp only [StepRes.items, List.mem_cons, List.mem_nil_iff, or_false] at hi
          subst hi
          rfl
        | tok t =>
          rw [hres] at hi
          simp only [StepRes.items, List.mem_cons, List.mem_nil_iff, or_false] at hi
          subst hi
          obtain ⟨mid, hm1, hm2⟩ := lexNext_spells a c r t hres
          have : mid = p := List.append_cancel_right (hm1.symm.trans hp1)
          subst this
          exact ⟨hm2, tokStart_tok t cur⟩
      · obtain ⟨pre, mid, post, h1, h2, h3⟩ := ih (lexNext a c r).rest.length (by simp only [List.length_cons]; omega)
          (lexNext a c r).attr (lexNextLoc a cur c r).cur (lexNext a c r).rest rfl it hit
        refine ⟨p ++ pre, mid, post, ?_, ?_, ?_⟩
        · rw [hp1, h1]; simp [List.append_assoc]
        · rw [h2, hp2]; simp [List.foldl_append]
        · rw [hp2, ← List.foldl_append] at h3
          exact h3

end Slicec.SLex
