/-
  C15 — for programs whose names are identifiers (everything a source text can produce) the side condition `UniqueKeys`
  follows from acceptance: a key shared by two different files is either a definition declared twice or a definition that
  shares its scoped name with a (declared or enclosing) module, and both are rejected by the redefinition rule.

  `IdentNames P`: every declared name is a non-empty string without `:`, every module path is a `::`-separated list of such.
  `uniqueKeys_of_names`: `IdentNames P`, `ParseOK P`, `namesRule.Holds P` ⟹ `UniqueKeys P`.
-/
import SlicecVerif.Lemmas.PermValidate

namespace Slicec.Validate

open Slicec

/-! ## names -/

/-- every name a definition declares: its own, its members', their members' -/
def defNames : Def → List String
  | .struct _ _ _ name fields => name :: fields.map (·.name)
  | .iface _ _ name _ ops => name :: ops.flatMap fun o => o.name :: (o.params.map (·.name) ++ (retParams o.ret).map (·.name))
  | .enum _ _ _ _ name _ es => name :: es.flatMap fun e => e.name :: (e.fields.getD []).map (·.name)
  | .custom _ _ name => [name]
  | .alias _ _ name _ => [name]

/-- a module path is a `::`-separated non-empty list of identifiers -/
def PathIdent (p : String) : Prop := PathOK (splitSegs p) ∧ joinSegs (splitSegs p) = p

instance (s : String) : Decidable (SegOK s) := by unfold SegOK; infer_instance
instance (l : List String) : Decidable (PathOK l) := by unfold PathOK; infer_instance
instance (p : String) : Decidable (PathIdent p) := by unfold PathIdent; infer_instance

def FileIdents (f : SFile) : Prop :=
  (match f.module with | some m => PathIdent m.path | none => True) ∧ ∀ d ∈ f.defs, ∀ n ∈ defNames d, SegOK n

instance (f : SFile) : Decidable (FileIdents f) := by unfold FileIdents; split <;> infer_instance

/-- **every name of the program is an identifier** (no `:` inside, not empty), every module path a `::`-separated list of
    identifiers — true of every program the parser produces -/
def IdentNames (P : Program) : Prop := ∀ f ∈ P, FileIdents f

instance (P : Program) : Decidable (IdentNames P) := by unfold IdentNames; infer_instance

theorem IdentNames.perm {P P' : Program} (hp : P.Perm P') (h : IdentNames P) : IdentNames P' :=
  fun f hf => h f (hp.mem_iff.mpr hf)

/-! ## the keys of a definition's entries as segment lists -/

theorem sid (segs : List String) (hs : ∀ s ∈ segs, SegOK s) (n : String) : scopedId n (joinSegs segs) = joinSegs (segs ++ [n]) :=
  scopedId_join segs n hs

theorem segs_snoc {segs : List String} (hs : ∀ s ∈ segs, SegOK s) {n : String} (hn : SegOK n) : ∀ s ∈ segs ++ [n], SegOK s := by
  intro s h
  rcases List.mem_append.mp h with h | h
  · exact hs s h
  · rw [List.mem_singleton.mp h]; exact hn

theorem fieldEntries_key_form (i : Nat) (ms : String) (segs : List String) (hs : ∀ s ∈ segs, SegOK s) (fs : List Field)
    (hf : ∀ f ∈ fs, SegOK f.name) :
    ∀ e ∈ fieldEntries i ms (joinSegs segs) fs, ∃ n, SegOK n ∧ e.1 = joinSegs (segs ++ [n]) := by
  intro e he
  obtain ⟨f, hfm, rfl⟩ := List.mem_map.mp he
  exact ⟨f.name, hf f hfm, sid segs hs f.name⟩

theorem paramEntries_key_form (i : Nat) (ms : String) (segs : List String) (hs : ∀ s ∈ segs, SegOK s) (ps : List Param)
    (hp : ∀ p ∈ ps, SegOK p.name) :
    ∀ e ∈ paramEntries i ms (joinSegs segs) ps, ∃ n, SegOK n ∧ e.1 = joinSegs (segs ++ [n]) := by
  intro e he
  obtain ⟨p, hpm, rfl⟩ := List.mem_map.mp he
  exact ⟨p.name, hp p hpm, sid segs hs p.name⟩

/-- under a module path `joinSegs msegs`, every key a definition enters into the table is `msegs ++ name :: l` joined, with
    `l` a (possibly empty) list of identifiers -/
theorem defEntries_key_form (i : Nat) (msegs : List String) (hms : ∀ s ∈ msegs, SegOK s) (d : Def)
    (hd : ∀ n ∈ defNames d, SegOK n) :
    ∀ e ∈ defEntries i (joinSegs msegs) d, ∃ l, (∀ s ∈ l, SegOK s) ∧ e.1 = joinSegs (msegs ++ d.name :: l) := by
  have hname : SegOK d.name := hd _ (by cases d <;> simp [defNames, Def.name])
  have hk : scopedId d.name (joinSegs msegs) = joinSegs (msegs ++ [d.name]) := sid msegs hms d.name
  have hks := segs_snoc hms hname
  intro e he
  cases d with
  | struct doc attrs compact name fields =>
    simp only [defEntries, List.mem_append, List.mem_singleton] at he
    simp only [Def.name] at hk hks ⊢
    rcases he with he | rfl
    · rw [hk] at he
      obtain ⟨n, hn, hen⟩ := fieldEntries_key_form i _ _ hks fields
        (fun f hf => hd _ (by simp only [defNames, List.mem_cons, List.mem_map]; exact Or.inr ⟨f, hf, rfl⟩)) e he
      exact ⟨[n], by simpa using hn, by rw [hen, List.append_assoc]; rfl⟩
    · exact ⟨[], by simp, hk⟩
  | iface doc attrs name bases ops =>
    simp only [defEntries, List.mem_append, List.mem_singleton, List.mem_flatMap] at he
    simp only [Def.name] at hk hks ⊢
    rcases he with ⟨o, ho, he⟩ | rfl
    · have hon : SegOK o.name := hd _ (by
        simp only [defNames, List.mem_cons, List.mem_flatMap]; exact Or.inr ⟨o, ho, Or.inl rfl⟩)
      have hok : scopedId o.name (joinSegs (msegs ++ [name])) = joinSegs (msegs ++ [name] ++ [o.name]) := sid _ hks o.name
      have hoks := segs_snoc hks hon
      simp only [opEntries, hk, hok, List.mem_append, List.mem_singleton] at he
      rcases he with (he | he) | rfl
      · obtain ⟨n, hn, hen⟩ := paramEntries_key_form i _ _ hoks o.params
          (fun p hp => hd _ (by
            simp only [defNames, List.mem_cons, List.mem_flatMap, List.mem_append, List.mem_map]
            exact Or.inr ⟨o, ho, Or.inr (Or.inl ⟨p, hp, rfl⟩)⟩)) e he
        refine ⟨[o.name, n], ?_, by rw [hen]; simp⟩
        intro s hs'; simp only [List.mem_cons, List.not_mem_nil, or_false] at hs'
        rcases hs' with rfl | rfl
        · exact hon
        · exact hn
      · obtain ⟨n, hn, hen⟩ := paramEntries_key_form i _ _ hoks (retParams o.ret)
          (fun p hp => hd _ (by
            simp only [defNames, List.mem_cons, List.mem_flatMap, List.mem_append, List.mem_map]
            exact Or.inr ⟨o, ho, Or.inr (Or.inr ⟨p, hp, rfl⟩)⟩)) e he
        refine ⟨[o.name, n], ?_, by rw [hen]; simp⟩
        intro s hs'; simp only [List.mem_cons, List.not_mem_nil, or_false] at hs'
        rcases hs' with rfl | rfl
        · exact hon
        · exact hn
      · exact ⟨[o.name], by simpa using hon, by simp⟩
    · exact ⟨[], by simp, hk⟩
  | enum doc attrs compact unchecked name underlying es =>
    simp only [defEntries, List.mem_append, List.mem_singleton, List.mem_flatMap] at he
    simp only [Def.name] at hk hks ⊢
    rcases he with ⟨en, hen, he⟩ | rfl
    · have hon : SegOK en.name := hd _ (by
        simp only [defNames, List.mem_cons, List.mem_flatMap]; exact Or.inr ⟨en, hen, Or.inl rfl⟩)
      have hok : scopedId en.name (joinSegs (msegs ++ [name])) = joinSegs (msegs ++ [name] ++ [en.name]) := sid _ hks en.name
      have hoks := segs_snoc hks hon
      simp only [enumeratorEntries, hk, hok, List.mem_append, List.mem_singleton] at he
      rcases he with he | rfl
      · obtain ⟨n, hn, hen'⟩ := fieldEntries_key_form i _ _ hoks (en.fields.getD [])
          (fun f hf => hd _ (by
            simp only [defNames, List.mem_cons, List.mem_flatMap, List.mem_map]
            exact Or.inr ⟨en, hen, Or.inr ⟨f, hf, rfl⟩⟩)) e he
        refine ⟨[en.name, n], ?_, by rw [hen']; simp⟩
        intro s hs'; simp only [List.mem_cons, List.not_mem_nil, or_false] at hs'
        rcases hs' with rfl | rfl
        · exact hon
        · exact hn
      · exact ⟨[en.name], by simpa using hon, by simp⟩
    · exact ⟨[], by simp, hk⟩
  | custom doc attrs name =>
    simp only [defEntries, List.mem_singleton] at he
    subst he
    exact ⟨[], by simp, hk⟩
  | alias doc attrs name ty =>
    simp only [defEntries, List.mem_singleton] at he
    subst he
    exact ⟨[], by simp, hk⟩

/-! ## module prefixes -/

theorem pathPrefixes_seg_end (a : List Char) (ha : ':' ∉ a) : ∀ acc : List Char, pathPrefixes acc a = [acc.reverse ++ a] := by
  induction a with
  | nil => intro acc; simp [pathPrefixes]
  | cons c a ih =>
    intro acc
    have hc : c ≠ ':' := fun h => ha (by rw [h]; simp)
    rw [pathPrefixes.eq_3 _ _ _ (fun _ h _ => hc h), ih (fun h => ha (List.mem_cons_of_mem _ h))]
    simp

theorem pathPrefixes_seg_sep (a : List Char) (ha : ':' ∉ a) (rest : List Char) : ∀ acc : List Char,
    pathPrefixes acc (a ++ ':' :: ':' :: rest) = (acc.reverse ++ a) :: pathPrefixes (':' :: ':' :: (a.reverse ++ acc)) rest := by
  induction a with
  | nil => intro acc; simp [pathPrefixes]
  | cons c a ih =>
    intro acc
    have hc : c ≠ ':' := fun h => ha (by rw [h]; simp)
    rw [List.cons_append, pathPrefixes.eq_3 _ _ _ (fun _ h _ => hc h), ih (fun h => ha (List.mem_cons_of_mem _ h))]
    simp

/-- the scan of a path made of identifiers yields the joined form of every non-empty prefix of its segment list -/
theorem pathPrefixes_mem : ∀ (segs : List String), (∀ s ∈ segs, ':' ∉ s.toList) → ∀ (acc : List Char) (pre rest : List String),
    segs = pre ++ rest → pre ≠ [] → acc.reverse ++ (joinSegs pre).toList ∈ pathPrefixes acc (joinSegs segs).toList := by
  intro segs
  induction segs with
  | nil => intro _ acc pre rest h hne; cases pre with | nil => exact absurd rfl hne | cons _ _ => cases h
  | cons a r ih =>
    intro hs acc pre rest h hne
    have ha : ':' ∉ a.toList := hs a (by simp)
    cases pre with
    | nil => exact absurd rfl hne
    | cons a' pre' =>
      simp only [List.cons_append, List.cons.injEq] at h
      obtain ⟨rfl, hr⟩ := h
      cases r with
      | nil =>
        have : pre' = [] := by cases pre' with | nil => rfl | cons _ _ => cases hr
        subst this
        simp only [joinSegs]
        rw [pathPrefixes_seg_end _ ha]
        simp
      | cons b r' =>
        rw [joinSegs_cons2, String.toList_append, String.toList_append, toList_colons, List.append_assoc]
        simp only [List.cons_append, List.nil_append]
        rw [pathPrefixes_seg_sep _ ha]
        cases pre' with
        | nil => simp [joinSegs]
        | cons b' pre'' =>
          refine List.mem_cons_of_mem _ ?_
          have := ih (fun s h' => hs s (List.mem_cons_of_mem _ h')) (':' :: ':' :: (a.toList.reverse ++ acc)) (b' :: pre'') rest hr (by simp)
          rw [joinSegs_cons2, String.toList_append, String.toList_append, toList_colons]
          simpa using this

theorem modulePrefixes_mem (P : Program) (g : SFile) (hg : g ∈ P) (m : ModDecl) (hm : g.module = some m)
    (pre rest : List String) (hp : m.path = joinSegs (pre ++ rest)) (hok : ∀ s ∈ pre ++ rest, SegOK s) (hne : pre ≠ []) :
    joinSegs pre ∈ modulePrefixes P := by
  unfold modulePrefixes
  refine List.mem_flatMap.mpr ⟨g, hg, ?_⟩
  rw [hm]
  simp only
  refine List.mem_map.mpr ⟨(joinSegs pre).toList, ?_, String.ofList_toList⟩
  rw [hp]
  have := pathPrefixes_mem (pre ++ rest) (fun s h => (hok s h).2) [] pre rest rfl hne
  simpa using this

/-! ## a key declared in two files -/

theorem fileScope_of_module (f : SFile) (m : ModDecl) (h : f.module = some m) : fileScope f = m.path := by
  unfold fileScope; rw [h]

theorem modPath_of_module (f : SFile) (m : ModDecl) (h : f.module = some m) : f.modPath = m.path := by
  unfold SFile.modPath; rw [h]

/-- the facts about one file the argument uses: its module path is a list of identifiers `msegs`, its names are identifiers -/
structure FileSegs (f : SFile) (msegs : List String) : Prop where
  path : f.modPath = joinSegs msegs
  segs : ∀ s ∈ msegs, SegOK s
  names : ∀ d ∈ f.defs, ∀ n ∈ defNames d, SegOK n

theorem declKeys_form (f : SFile) (msegs : List String) (h : FileSegs f msegs) (k : String) (hk : k ∈ f.declKeys) :
    ∃ d ∈ f.defs, ∃ l, (∀ s ∈ l, SegOK s) ∧ k = joinSegs (msegs ++ d.name :: l) := by
  unfold SFile.declKeys declTable at hk
  obtain ⟨e, he, rfl⟩ := List.mem_map.mp hk
  obtain ⟨d, hd, hed⟩ := List.mem_flatMap.mp he
  rw [h.path] at hed
  obtain ⟨l, hl, hkl⟩ := defEntries_key_form 0 msegs h.segs d (h.names d hd) e hed
  exact ⟨d, hd, l, hl, hkl⟩

theorem defKey_segs (f : SFile) (msegs : List String) (h : FileSegs f msegs) (d : Def) :
    defKey (fileScope f, d) = joinSegs (msegs ++ [d.name]) := by
  unfold defKey
  simp only
  rw [fileScope_eq_modPath, h.path]
  exact sid msegs h.segs d.name

theorem pathOK_of {l : List String} (hne : l ≠ []) (h : ∀ s ∈ l, SegOK s) : PathOK l := ⟨hne, h⟩

theorem segs_all {msegs : List String} (hm : ∀ s ∈ msegs, SegOK s) {n : String} (hn : SegOK n) {l : List String}
    (hl : ∀ s ∈ l, SegOK s) : ∀ s ∈ msegs ++ n :: l, SegOK s := by
  intro s h
  rcases List.mem_append.mp h with h | h
  · exact hm s h
  · rcases List.mem_cons.mp h with rfl | h
    · exact hn
    · exact hl s h

/-- **a scoped name declared by a definition of `f` and also declared in `g`**: then a definition of one of the two files
    shares its scoped name with a module the other declares (or encloses), or the two files define the same scoped name -/
theorem key_clash_cases (P : Program) (f g : SFile) (hf : f ∈ P) (hg : g ∈ P) (mf mg : List String)
    (hfs : FileSegs f mf) (hgs : FileSegs g mg) (hfm : f.defs ≠ [] → f.module.isSome = true) (hgm : g.defs ≠ [] → g.module.isSome = true)
    (hgmod : ∀ m, g.module = some m → mg ≠ [])
    (hfmod : ∀ m, f.module = some m → mf ≠ [])
    (k : String) (hkf : k ∈ f.declKeys) (hkg : k ∈ g.allKeys) :
    (∃ d ∈ f.defs, defKey (fileScope f, d) ∈ modulePrefixes P) ∨
    (∃ d ∈ g.defs, defKey (fileScope g, d) ∈ modulePrefixes P) ∨
    (∃ d ∈ f.defs, ∃ d' ∈ g.defs, defKey (fileScope f, d) = defKey (fileScope g, d')) := by
  obtain ⟨d, hd, l, hl, hk⟩ := declKeys_form f mf hfs k hkf
  have hdn : SegOK d.name := hfs.names d hd _ (by cases d <;> simp [defNames, Def.name])
  have hfne : f.defs ≠ [] := fun h => by rw [h] at hd; cases hd
  obtain ⟨mdf, hmdf⟩ := Option.isSome_iff_exists.mp (hfm hfne)
  have hmfne : mf ≠ [] := hfmod mdf hmdf
  have hfpath : mdf.path = joinSegs mf := by rw [← modPath_of_module f mdf hmdf]; exact hfs.path
  have okf : PathOK (mf ++ d.name :: l) := pathOK_of (by simp) (segs_all hfs.segs hdn hl)
  -- where does `g` declare `k`?
  unfold SFile.allKeys at hkg
  rw [fileEntries_eq] at hkg
  simp only [Table.keys, List.map_append, List.mem_append] at hkg
  rcases hkg with hkg | hkg
  · -- by a definition of `g`
    obtain ⟨d', hd', l', hl', hk'⟩ := declKeys_form g mg hgs k hkg
    have hdn' : SegOK d'.name := hgs.names d' hd' _ (by cases d' <;> simp [defNames, Def.name])
    have hgne : g.defs ≠ [] := fun h => by rw [h] at hd'; cases hd'
    obtain ⟨mdg, hmdg⟩ := Option.isSome_iff_exists.mp (hgm hgne)
    have hmgne : mg ≠ [] := hgmod mdg hmdg
    have hgpath : mdg.path = joinSegs mg := by rw [← modPath_of_module g mdg hmdg]; exact hgs.path
    have okg : PathOK (mg ++ d'.name :: l') := pathOK_of (by simp) (segs_all hgs.segs hdn' hl')
    have heq : mf ++ d.name :: l = mg ++ d'.name :: l' := joinSegs_inj _ _ okf okg (by rw [← hk, ← hk'])
    rcases List.append_eq_append_iff.mp heq with ⟨as, h1, h2⟩ | ⟨bs, h1, h2⟩
    · cases as with
      | nil =>
        simp only [List.append_nil, List.nil_append, List.cons.injEq] at h1 h2
        refine Or.inr (Or.inr ⟨d, hd, d', hd', ?_⟩)
        rw [defKey_segs f mf hfs, defKey_segs g mg hgs, h1, h2.1]
      | cons x as' =>
        simp only [List.cons_append, List.cons.injEq] at h2
        -- mg = mf ++ d.name :: as'
        refine Or.inl ⟨d, hd, ?_⟩
        rw [defKey_segs f mf hfs]
        have hmg : mg = (mf ++ [d.name]) ++ as' := by rw [h1, h2.1]; simp
        exact modulePrefixes_mem P g hg mdg hmdg (mf ++ [d.name]) as' (by rw [hgpath, hmg]) (by rw [← hmg]; exact hgs.segs) (by simp)
    · cases bs with
      | nil =>
        simp only [List.append_nil, List.nil_append, List.cons.injEq] at h1 h2
        refine Or.inr (Or.inr ⟨d, hd, d', hd', ?_⟩)
        rw [defKey_segs f mf hfs, defKey_segs g mg hgs, h1, h2.1]
      | cons x bs' =>
        simp only [List.cons_append, List.cons.injEq] at h2
        -- mf = mg ++ d'.name :: bs'
        refine Or.inr (Or.inl ⟨d', hd', ?_⟩)
        rw [defKey_segs g mg hgs]
        have hmf : mf = (mg ++ [d'.name]) ++ bs' := by rw [h1, h2.1]; simp
        exact modulePrefixes_mem P f hf mdf hmdf (mg ++ [d'.name]) bs' (by rw [hfpath, hmf]) (by rw [← hmf]; exact hfs.segs) (by simp)
  · -- as the module of `g`
    unfold modEntries at hkg
    cases hmg : g.module with
    | none => rw [hmg] at hkg; cases hkg
    | some mdg =>
      rw [hmg] at hkg
      simp only [List.map_cons, List.map_nil, List.mem_singleton] at hkg
      have hmgne : mg ≠ [] := hgmod mdg hmg
      have hgpath : mdg.path = joinSegs mg := by rw [← modPath_of_module g mdg hmg]; exact hgs.path
      have heq : mf ++ d.name :: l = mg := joinSegs_inj _ _ okf (pathOK_of hmgne hgs.segs) (by rw [← hk, hkg, hgpath])
      refine Or.inl ⟨d, hd, ?_⟩
      rw [defKey_segs f mf hfs]
      have hmg' : mg = (mf ++ [d.name]) ++ l := by rw [← heq]; simp
      exact modulePrefixes_mem P g hg mdg hmg (mf ++ [d.name]) l (by rw [hgpath, hmg']) (by rw [← hmg']; exact hgs.segs) (by simp)

/-! ## from the rules to `UniqueKeys` -/

theorem fileSegs_of_idents (f : SFile) (h : FileIdents f) :
    ∃ msegs, FileSegs f msegs ∧ (∀ m, f.module = some m → msegs ≠ []) := by
  cases hm : f.module with
  | none =>
    refine ⟨[], ⟨?_, by simp, h.2⟩, fun m hm' => by cases hm'⟩
    unfold SFile.modPath; rw [hm]; rfl
  | some m =>
    have h1 := h.1
    rw [hm] at h1
    simp only at h1
    exact ⟨splitSegs m.path, ⟨by rw [modPath_of_module f m hm]; exact h1.2.symm, h1.1.2, h.2⟩, fun _ _ => h1.1.1⟩

theorem modulePrefixes_cons_sub (f : SFile) (P : Program) (k : String) (h : k ∈ modulePrefixes P) : k ∈ modulePrefixes (f :: P) := by
  unfold modulePrefixes at h ⊢
  rw [List.flatMap_cons]
  exact List.mem_append_right _ h

/-- **for programs whose names are identifiers, the parse-time rules and the redefinition rule imply `UniqueKeys`** -/
theorem uniqueKeys_of_names : ∀ (P : Program), IdentNames P → (∀ f ∈ P, f.defs ≠ [] → f.module.isSome = true) →
    ((allDefs P).map defKey).Nodup → (∀ x ∈ (allDefs P).map defKey, x ∉ modulePrefixes P) → UniqueKeys P := by
  intro P
  induction P with
  | nil => intro _ _ _ _; exact List.Pairwise.nil
  | cons f rest ih =>
    intro hid hmod hnd hnm
    have hrest_keys : ∀ x, x ∈ (allDefs rest).map defKey → x ∈ (allDefs (f :: rest)).map defKey := by
      intro x hx
      rw [allDefs_eq, List.flatMap_cons, List.map_append]
      exact List.mem_append_right _ hx
    have hsplit : (allDefs (f :: rest)).map defKey = (fileDefs f).map defKey ++ (allDefs rest).map defKey := by
      rw [allDefs_eq, List.flatMap_cons, List.map_append]; rfl
    rw [hsplit] at hnd
    obtain ⟨_, hnd2, hdisj⟩ := List.nodup_append.mp hnd
    refine List.pairwise_cons.mpr ⟨?_, ih (fun g hg => hid g (List.mem_cons_of_mem _ hg))
      (fun g hg => hmod g (List.mem_cons_of_mem _ hg)) hnd2
      (fun x hx hp => hnm x (hrest_keys x hx) (modulePrefixes_cons_sub f rest x hp))⟩
    intro g hg
    obtain ⟨mf, hfs, hfne⟩ := fileSegs_of_idents f (hid f (by simp))
    obtain ⟨mg, hgs, hgne⟩ := fileSegs_of_idents g (hid g (List.mem_cons_of_mem _ hg))
    have hfP : f ∈ f :: rest := by simp
    have hgP : g ∈ f :: rest := List.mem_cons_of_mem _ hg
    have fkey : ∀ d ∈ f.defs, defKey (fileScope f, d) ∈ (allDefs (f :: rest)).map defKey := by
      intro d hd
      rw [hsplit]
      exact List.mem_append_left _ (List.mem_map.mpr ⟨(fileScope f, d), List.mem_map.mpr ⟨d, hd, rfl⟩, rfl⟩)
    have gkey : ∀ d ∈ g.defs, defKey (fileScope g, d) ∈ (allDefs rest).map defKey := by
      intro d hd
      refine List.mem_map.mpr ⟨(fileScope g, d), ?_, rfl⟩
      rw [allDefs_eq]
      exact List.mem_flatMap.mpr ⟨g, hg, List.mem_map.mpr ⟨d, hd, rfl⟩⟩
    have contra : ∀ k, (k ∈ f.declKeys ∧ k ∈ g.allKeys) ∨ (k ∈ g.declKeys ∧ k ∈ f.allKeys) → False := by
      intro k hk
      have cases3 :
          (∃ d ∈ f.defs, defKey (fileScope f, d) ∈ modulePrefixes (f :: rest)) ∨
          (∃ d ∈ g.defs, defKey (fileScope g, d) ∈ modulePrefixes (f :: rest)) ∨
          (∃ d ∈ f.defs, ∃ d' ∈ g.defs, defKey (fileScope f, d) = defKey (fileScope g, d')) := by
        rcases hk with ⟨h1, h2⟩ | ⟨h1, h2⟩
        · exact key_clash_cases (f :: rest) f g hfP hgP mf mg hfs hgs (hmod f hfP) (hmod g hgP) hgne hfne k h1 h2
        · rcases key_clash_cases (f :: rest) g f hgP hfP mg mf hgs hfs (hmod g hgP) (hmod f hfP) hfne hgne k h1 h2 with
            h | h | ⟨d, hd, d', hd', he⟩
          · exact Or.inr (Or.inl h)
          · exact Or.inl h
          · exact Or.inr (Or.inr ⟨d', hd', d, hd, he.symm⟩)
      rcases cases3 with ⟨d, hd, hp⟩ | ⟨d, hd, hp⟩ | ⟨d, hd, d', hd', he⟩
      · exact hnm _ (fkey d hd) hp
      · exact hnm _ (hrest_keys _ (gkey d hd)) hp
      · exact hdisj _ (List.mem_map.mpr ⟨(fileScope f, d), List.mem_map.mpr ⟨d, hd, rfl⟩, rfl⟩) _ (gkey d' hd') he
    exact ⟨fun k h1 h2 => contra k (Or.inl ⟨h1, h2⟩), fun k h1 h2 => contra k (Or.inr ⟨h1, h2⟩)⟩

/-- … so a program that satisfies the parse-time rules and the redefinition rule — in particular every accepted program —
    whose names are identifiers satisfies `UniqueKeys` -/
theorem uniqueKeys_of_rules (P : Program) (hid : IdentNames P) (hpo : ParseOK P) (hn : namesRule.Holds P) : UniqueKeys P := by
  have h := hn (modulePrefixes P, (allDefs P).map defKey) (by
    show _ ∈ nameScopes P
    unfold nameScopes
    simp)
  exact uniqueKeys_of_names P hid (fun f hf => (hpo f hf).2.2.2) h.1 h.2

end Slicec.Validate
