/-
  Lemmas for C20: generic facts about the pre-order walk `flat` of a callback forest, and the facts about the
  forests built by Model/Visit.lean (sibling order, owner/type adjacency, membership by position).
-/
import SlicecVerif.Model.Visit

namespace Slicec.Visit

open Slicec

/-! ## the document order on paths -/

theorem Seg.lt_irrefl (a : Seg) : ¬ Seg.lt a a := by
  unfold Seg.lt; omega

theorem Seg.lt_asymm {a b : Seg} : Seg.lt a b → Seg.lt b a → False := by
  unfold Seg.lt; omega

theorem lex_irrefl : ∀ (a : Path), ¬ Path.lt a a
  | [], h => by cases h
  | x :: xs, h => by
    cases h with
    | rel h => exact Seg.lt_irrefl _ h
    | cons h => exact lex_irrefl xs h

theorem lex_asymm : ∀ {a b : Path}, Path.lt a b → Path.lt b a → False
  | [], _, h, h' => by cases h'
  | x :: xs, [], h, _ => by cases h
  | x :: xs, y :: ys, h, h' => by
    cases h with
    | rel h =>
      cases h' with
      | rel h' => exact Seg.lt_asymm h h'
      | cons _ => exact Seg.lt_irrefl _ h
    | cons h =>
      cases h' with
      | rel h' => exact Seg.lt_irrefl _ h'
      | cons h' => exact lex_asymm h h'

theorem lex_append_left (q : Path) {a b : Path} (h : Path.lt a b) : Path.lt (q ++ a) (q ++ b) := by
  induction q with
  | nil => exact h
  | cons x xs ih => exact List.Lex.cons ih

/-- a container precedes everything below it -/
theorem lex_prefix (q : Path) (s : Seg) (tl : Path) : Path.lt q (q ++ s :: tl) := by
  have : Path.lt (q ++ []) (q ++ s :: tl) := lex_append_left q List.Lex.nil
  simpa using this

/-- siblings (and everything below them) are ordered by their segment -/
theorem lex_sibling (q : Path) {a b : Seg} (h : Seg.lt a b) (x y : Path) : Path.lt (q ++ a :: x) (q ++ b :: y) :=
  lex_append_left q (List.Lex.rel h)

/-! ## forests -/

def Forest.segs : Forest → List Seg
  | .nil => []
  | .cons s _ _ _ rest => s :: rest.segs

/-- siblings are in strictly increasing (declaration) order, at every level -/
def Forest.Sorted : Forest → Prop
  | .nil => True
  | .cons s _ _ ch rest => (∀ s' ∈ rest.segs, Seg.lt s s') ∧ ch.Sorted ∧ rest.Sorted

/-- `F.has r`: the forest has a node at relative path `r` -/
def Forest.has : Forest → Path → Prop
  | .nil, _ => False
  | .cons s _ _ ch rest, p => p = [s] ∨ (∃ tl, p = s :: tl ∧ ch.has tl) ∨ rest.has p

theorem segs_append (A B : Forest) : (A.append B).segs = A.segs ++ B.segs := by
  induction A with
  | nil => rfl
  | cons s k fr ch rest _ ih => simp [Forest.append, Forest.segs, ih]

theorem sorted_append {A B : Forest} (hA : A.Sorted) (hB : B.Sorted) (h : ∀ a ∈ A.segs, ∀ b ∈ B.segs, Seg.lt a b) :
    (A.append B).Sorted := by
  induction A with
  | nil => exact hB
  | cons s k fr ch rest _ ih =>
    simp only [Forest.append, Forest.Sorted, segs_append, List.mem_append] at *
    refine ⟨?_, hA.2.1, ih hA.2.2 (fun a ha b hb => h a (by simp [Forest.segs, ha]) b hb)⟩
    intro s' hs'
    rcases hs' with hs' | hs'
    · exact hA.1 s' hs'
    · exact h s (by simp [Forest.segs]) s' hs'

theorem has_append (A B : Forest) (p : Path) : (A.append B).has p ↔ A.has p ∨ B.has p := by
  induction A with
  | nil => simp [Forest.append, Forest.has]
  | cons s k fr ch rest _ ih => simp [Forest.append, Forest.has, ih, or_assoc]

theorem flat_append (q : Path) (A B : Forest) : flat q (A.append B) = flat q A ++ flat q B := by
  induction A with
  | nil => rfl
  | cons s k fr ch rest _ ih => simp [Forest.append, flat, ih]

/-- every event of a walk lies below one of the top-level nodes -/
theorem flat_shape : ∀ (F : Forest) (q : Path) (e : PEvent), e ∈ flat q F → ∃ s tl, s ∈ F.segs ∧ e.path = q ++ s :: tl
  | .nil, _, _, h => by simp [flat] at h
  | .cons s k fr ch rest, q, e, h => by
    simp only [flat, List.cons_append, List.mem_cons, List.mem_append] at h
    rcases h with h | h | h
    · exact ⟨s, [], by simp [Forest.segs], by simp [h]⟩
    · obtain ⟨s', tl, _, hp⟩ := flat_shape ch (q ++ [s]) e h
      exact ⟨s, s' :: tl, by simp [Forest.segs], by simp [hp]⟩
    · obtain ⟨s', tl, hs, hp⟩ := flat_shape rest q e h
      exact ⟨s', tl, by simp [Forest.segs, hs], hp⟩

/-- the walk of a forest with ordered siblings is strictly increasing in the document order -/
theorem flat_sorted : ∀ (F : Forest) (q : Path), F.Sorted → (flat q F).Pairwise (fun a b => Path.lt a.path b.path)
  | .nil, _, _ => by simp [flat]
  | .cons s k fr ch rest, q, h => by
    obtain ⟨h1, h2, h3⟩ := h
    simp only [flat, List.cons_append, List.pairwise_cons, List.pairwise_append, List.mem_append]
    refine ⟨?_, flat_sorted ch _ h2, flat_sorted rest _ h3, ?_⟩
    · intro b hb
      rcases hb with hb | hb
      · obtain ⟨s', tl, _, hp⟩ := flat_shape ch _ b hb
        rw [hp]; exact lex_prefix _ _ _
      · obtain ⟨s', tl, hs, hp⟩ := flat_shape rest _ b hb
        rw [hp]; exact lex_sibling q (h1 s' hs) [] tl
    · intro a ha b hb
      obtain ⟨s', tl, _, hp⟩ := flat_shape ch _ a ha
      obtain ⟨s'', tl', hs, hp'⟩ := flat_shape rest _ b hb
      rw [hp, hp', List.append_assoc]
      exact lex_sibling q (h1 s'' hs) _ _

theorem mem_flat_iff : ∀ (F : Forest) (q p : Path), p ∈ (flat q F).map PEvent.path ↔ ∃ r, F.has r ∧ p = q ++ r
  | .nil, q, p => by simp [flat, Forest.has]
  | .cons s k fr ch rest, q, p => by
    simp only [flat, List.cons_append, List.map_cons, List.map_append, List.mem_cons, List.mem_append, mem_flat_iff ch, mem_flat_iff rest,
      Forest.has]
    constructor
    · rintro (h | ⟨r, hr, rfl⟩ | ⟨r, hr, rfl⟩)
      · exact ⟨[s], Or.inl rfl, h⟩
      · exact ⟨s :: r, Or.inr (Or.inl ⟨r, rfl, hr⟩), by simp⟩
      · exact ⟨r, Or.inr (Or.inr hr), rfl⟩
    · rintro ⟨r, (rfl | ⟨tl, rfl, htl⟩ | hr), rfl⟩
      · exact Or.inl rfl
      · exact Or.inr (Or.inl ⟨tl, htl, by simp⟩)
      · exact Or.inr (Or.inr ⟨r, hr, rfl⟩)

/-! ## owners and their type references -/

def isOwner (k : String) : Prop := k = "field" ∨ k = "parameter" ∨ k = "alias"

instance (k : String) : Decidable (isOwner k) := by unfold isOwner; exact inferInstance

/-- every owner node has exactly one child: its `.t` reference, written in this file -/
def Forest.OwnerOK : Forest → Prop
  | .nil => True
  | .cons _ k _ ch rest => (isOwner k → ∃ g, ch = .cons .t "typeref" false g .nil) ∧ ch.OwnerOK ∧ rest.OwnerOK

/-- in a list of events, every owner is directly followed by its `.t` -/
def OwnerNext : List PEvent → Prop
  | [] => True
  | e :: rest => (isOwner e.kind → ∃ r', rest = ⟨"typeref", e.path ++ [.t], false⟩ :: r') ∧ OwnerNext rest

theorem ownerNext_append : ∀ {A B : List PEvent}, OwnerNext A → OwnerNext B → OwnerNext (A ++ B)
  | [], _, _, hB => hB
  | e :: A, B, hA, hB => by
    refine ⟨fun ho => ?_, ownerNext_append hA.2 hB⟩
    obtain ⟨r', hr⟩ := hA.1 ho
    exact ⟨r' ++ B, by simp [hr]⟩

theorem ownerOK_append {A B : Forest} (hA : A.OwnerOK) (hB : B.OwnerOK) : (A.append B).OwnerOK := by
  induction A with
  | nil => exact hB
  | cons s k fr ch rest _ ih => exact ⟨hA.1, hA.2.1, ih hA.2.2⟩

theorem flat_ownerNext : ∀ (F : Forest) (q : Path), F.OwnerOK → OwnerNext (flat q F)
  | .nil, _, _ => trivial
  | .cons s k fr ch rest, q, h => by
    obtain ⟨h1, h2, h3⟩ := h
    refine ⟨fun ho => ?_, ownerNext_append (flat_ownerNext ch _ h2) (flat_ownerNext rest _ h3)⟩
    obtain ⟨g, hg⟩ := h1 ho
    subst hg
    exact ⟨flat (q ++ [s] ++ [.t]) g ++ flat q rest, by simp [flat]⟩

theorem ownerNext_getElem : ∀ (L : List PEvent) (i : Nat) (h : i < L.length), OwnerNext L → isOwner L[i].kind →
    L[i + 1]? = some ⟨"typeref", L[i].path ++ [.t], false⟩
  | e :: rest, 0, _, hN, ho => by
    obtain ⟨r', hr⟩ := hN.1 ho
    simp [hr]
  | e :: rest, i + 1, h, hN, ho => by
    have := ownerNext_getElem rest i (by simpa using h) hN.2 (by simpa using ho)
    simpa using this

/-! ## indexed siblings -/

theorem idxF_segs {α} (seg : Nat → Seg) (kind : α → String) (ch : α → Forest) :
    ∀ (xs : List α) (i : Nat) (s : Seg), s ∈ (idxF seg kind ch i xs).segs → ∃ j, i ≤ j ∧ s = seg j
  | [], _, _, h => by simp [idxF, Forest.segs] at h
  | x :: xs, i, s, h => by
    simp only [idxF, Forest.segs, List.mem_cons] at h
    rcases h with h | h
    · exact ⟨i, Nat.le_refl _, h⟩
    · obtain ⟨j, hj, hs⟩ := idxF_segs seg kind ch xs (i + 1) s h
      exact ⟨j, by omega, hs⟩

theorem idxF_sorted {α} (seg : Nat → Seg) (kind : α → String) (ch : α → Forest)
    (hmono : ∀ i j, i < j → Seg.lt (seg i) (seg j)) (hch : ∀ x, (ch x).Sorted) :
    ∀ (xs : List α) (i : Nat), (idxF seg kind ch i xs).Sorted
  | [], _ => trivial
  | x :: xs, i => by
    refine ⟨fun s' hs' => ?_, hch x, idxF_sorted seg kind ch hmono hch xs (i + 1)⟩
    obtain ⟨j, hj, rfl⟩ := idxF_segs seg kind ch xs (i + 1) s' hs'
    exact hmono i j (by omega)

theorem idxF_ownerOK {α} (seg : Nat → Seg) (kind : α → String) (ch : α → Forest)
    (h : ∀ x, (isOwner (kind x) → ∃ g, ch x = .cons .t "typeref" false g .nil) ∧ (ch x).OwnerOK) :
    ∀ (xs : List α) (i : Nat), (idxF seg kind ch i xs).OwnerOK
  | [], _ => trivial
  | x :: xs, i => ⟨(h x).1, (h x).2, idxF_ownerOK seg kind ch h xs (i + 1)⟩

/-- membership by position in a row of indexed siblings -/
theorem idxF_has {α} (seg : Nat → Seg) (kind : α → String) (ch : α → Forest) (hinj : ∀ a b, seg a = seg b → a = b) :
    ∀ (xs : List α) (i : Nat) (p : Path),
      (idxF seg kind ch i xs).has p ↔ ∃ k x r, p = seg (i + k) :: r ∧ xs[k]? = some x ∧ (r = [] ∨ (ch x).has r)
  | [], i, p => by simp [idxF, Forest.has]
  | x :: xs, i, p => by
    simp only [idxF, Forest.has, idxF_has seg kind ch hinj xs (i + 1) p]
    constructor
    · rintro (rfl | ⟨tl, rfl, htl⟩ | ⟨k, y, r, rfl, hk, hr⟩)
      · exact ⟨0, x, [], by simp, by simp, Or.inl rfl⟩
      · exact ⟨0, x, tl, by simp, by simp, Or.inr htl⟩
      · exact ⟨k + 1, y, r, by simp [Nat.add_assoc, Nat.add_comm 1 k], by simpa using hk, hr⟩
    · rintro ⟨k, y, r, rfl, hk, hr⟩
      cases k with
      | zero =>
        simp at hk; subst hk
        rcases hr with rfl | hr
        · exact Or.inl (by simp)
        · exact Or.inr (Or.inl ⟨r, by simp, hr⟩)
      | succ k =>
        exact Or.inr (Or.inr ⟨k, y, r, by simp [Nat.add_assoc, Nat.add_comm 1 k], by simpa using hk, hr⟩)

/-! ## the forests built by the model -/

theorem notOwner_typeref : ¬ isOwner "typeref" := by decide

theorem tyF_sorted (t : Table) (self fuel : Nat) (sc : String) (fr : Bool) (ty : TyExpr) :
    (tyF t self fuel sc fr ty).Sorted := by
  fun_induction tyF t self fuel sc fr ty <;> simp_all [Forest.Sorted, Forest.segs, Seg.lt, Seg.cls]

theorem tyF_ownerOK (t : Table) (self fuel : Nat) (sc : String) (fr : Bool) (ty : TyExpr) :
    (tyF t self fuel sc fr ty).OwnerOK := by
  fun_induction tyF t self fuel sc fr ty <;> simp_all [Forest.OwnerOK, notOwner_typeref]

theorem tref_sorted (c : Ctx) (r : TRef) : (c.tref r).Sorted :=
  ⟨by simp [Forest.segs], tyF_sorted _ _ _ _ _ _, trivial⟩

theorem tref_ownerOK (c : Ctx) (r : TRef) : (c.tref r).OwnerOK :=
  ⟨fun h => absurd h notOwner_typeref, tyF_ownerOK _ _ _ _ _ _, trivial⟩

theorem tref_shape (c : Ctx) (r : TRef) : ∃ g, c.tref r = .cons .t "typeref" false g .nil := ⟨_, rfl⟩

theorem fieldsF_sorted (c : Ctx) (fs : List Field) : (fieldsF c fs).Sorted :=
  idxF_sorted _ _ _ (fun i j h => by unfold Seg.lt; simp [Seg.cls, Seg.idx]; omega) (fun _ => tref_sorted c _) fs 0

theorem paramsP_sorted (c : Ctx) (ps : List Param) : (paramsF c .p ps).Sorted :=
  idxF_sorted _ _ _ (fun i j h => by unfold Seg.lt; simp [Seg.cls, Seg.idx]; omega) (fun _ => tref_sorted c _) ps 0

theorem paramsR_sorted (c : Ctx) (ps : List Param) : (paramsF c .r ps).Sorted :=
  idxF_sorted _ _ _ (fun i j h => by unfold Seg.lt; simp [Seg.cls, Seg.idx]; omega) (fun _ => tref_sorted c _) ps 0

theorem opF_sorted (c : Ctx) (o : Op) : (opF c o).Sorted := by
  refine sorted_append (paramsP_sorted c _) (paramsR_sorted c _) ?_
  intro a ha b hb
  obtain ⟨i, _, rfl⟩ := idxF_segs _ _ _ _ _ _ ha
  obtain ⟨j, _, rfl⟩ := idxF_segs _ _ _ _ _ _ hb
  unfold Seg.lt; simp [Seg.cls]

theorem enumeratorF_sorted (c : Ctx) (en : Enumerator) : (enumeratorF c en).Sorted := by
  unfold enumeratorF; split
  · exact fieldsF_sorted c _
  · trivial

theorem defF_sorted (c : Ctx) (d : Def) : (defF c d).Sorted := by
  cases d with
  | struct _ _ _ _ fs => exact fieldsF_sorted c fs
  | iface _ _ _ _ ops =>
    exact idxF_sorted _ _ _ (fun i j h => by unfold Seg.lt; simp [Seg.cls, Seg.idx]; omega) (opF_sorted c) ops 0
  | «enum» _ _ _ _ _ _ es =>
    exact idxF_sorted _ _ _ (fun i j h => by unfold Seg.lt; simp [Seg.cls, Seg.idx]; omega) (enumeratorF_sorted c) es 0
  | custom _ _ _ => trivial
  | «alias» _ _ _ ty => exact tref_sorted c ty

theorem modF_segs (m : Option ModDecl) (s : Seg) :
    s ∈ (match m with | some _ => Forest.cons .mod "module" false .nil .nil | none => Forest.nil).segs → s = .mod := by
  cases m <;> simp [Forest.segs]

theorem fileF_sorted (c : Ctx) (f : SFile) : (fileF c f).Sorted := by
  have hd : (idxF .d defKind (defF c) 0 f.defs).Sorted :=
    idxF_sorted _ _ _ (fun i j h => by unfold Seg.lt; simp [Seg.cls, Seg.idx]; omega) (defF_sorted c) f.defs 0
  have hm : (match f.module with | some _ => Forest.cons .mod "module" false .nil .nil | none => Forest.nil).Sorted := by
    cases f.module <;> simp [Forest.Sorted, Forest.segs]
  refine ⟨?_, trivial, sorted_append hm hd ?_⟩
  · intro s' hs'
    rw [segs_append, List.mem_append] at hs'
    rcases hs' with hs' | hs'
    · rw [modF_segs _ _ hs']; unfold Seg.lt; simp [Seg.cls]
    · obtain ⟨j, _, rfl⟩ := idxF_segs _ _ _ _ _ _ hs'
      unfold Seg.lt; simp [Seg.cls]
  · intro a ha b hb
    rw [modF_segs _ _ ha]
    obtain ⟨j, _, rfl⟩ := idxF_segs _ _ _ _ _ _ hb
    unfold Seg.lt; simp [Seg.cls]

theorem fieldsF_ownerOK (c : Ctx) (fs : List Field) : (fieldsF c fs).OwnerOK :=
  idxF_ownerOK _ _ _ (fun _ => ⟨fun _ => tref_shape c _, tref_ownerOK c _⟩) fs 0

theorem paramsF_ownerOK (c : Ctx) (seg : Nat → Seg) (ps : List Param) : (paramsF c seg ps).OwnerOK :=
  idxF_ownerOK _ _ _ (fun _ => ⟨fun _ => tref_shape c _, tref_ownerOK c _⟩) ps 0

theorem opF_ownerOK (c : Ctx) (o : Op) : (opF c o).OwnerOK :=
  ownerOK_append (paramsF_ownerOK c _ _) (paramsF_ownerOK c _ _)

theorem enumeratorF_ownerOK (c : Ctx) (en : Enumerator) : (enumeratorF c en).OwnerOK := by
  unfold enumeratorF; split
  · exact fieldsF_ownerOK c _
  · trivial

theorem defF_ownerOK (c : Ctx) (d : Def) :
    (isOwner (defKind d) → ∃ g, defF c d = .cons .t "typeref" false g .nil) ∧ (defF c d).OwnerOK := by
  cases d with
  | struct _ _ _ _ fs => exact ⟨fun h => absurd h (by show ¬ isOwner "struct"; decide), fieldsF_ownerOK c fs⟩
  | iface _ _ _ _ ops =>
    exact ⟨fun h => absurd h (by show ¬ isOwner "interface"; decide), idxF_ownerOK _ _ _ (fun o => ⟨fun h => absurd h (by decide), opF_ownerOK c o⟩) ops 0⟩
  | «enum» _ _ _ _ _ _ es =>
    exact ⟨fun h => absurd h (by show ¬ isOwner "enum"; decide), idxF_ownerOK _ _ _ (fun e => ⟨fun h => absurd h (by decide), enumeratorF_ownerOK c e⟩) es 0⟩
  | custom _ _ _ => exact ⟨fun h => absurd h (by show ¬ isOwner "custom"; decide), trivial⟩
  | «alias» _ _ _ ty => exact ⟨fun _ => tref_shape c ty, tref_ownerOK c ty⟩

theorem fileF_ownerOK (c : Ctx) (f : SFile) : (fileF c f).OwnerOK := by
  refine ⟨fun h => absurd h (by decide), trivial, ownerOK_append ?_ (idxF_ownerOK _ _ _ (defF_ownerOK c) f.defs 0)⟩
  cases f.module
  · trivial
  · exact ⟨fun h => absurd h (by decide), trivial, trivial⟩

theorem idxF_segs_lt {α} (seg : Nat → Seg) (kind : α → String) (ch : α → Forest) :
    ∀ (xs : List α) (i : Nat) (s : Seg), s ∈ (idxF seg kind ch i xs).segs → ∃ j, i ≤ j ∧ j < i + xs.length ∧ s = seg j
  | [], _, _, h => by simp [idxF, Forest.segs] at h
  | x :: xs, i, s, h => by
    simp only [idxF, Forest.segs, List.mem_cons] at h
    rcases h with h | h
    · exact ⟨i, Nat.le_refl _, by simp, h⟩
    · obtain ⟨j, hj, hj', hs⟩ := idxF_segs_lt seg kind ch xs (i + 1) s h
      exact ⟨j, by omega, by simp; omega, hs⟩

/-- every callback of a walk is located at the file itself, at its module, or below a definition of this file -/
theorem fileF_roots (c : Ctx) (f : SFile) (e : PEvent) (h : e ∈ flat [] (fileF c f)) :
    ∃ s tl, e.path = s :: tl ∧ (s = .file ∨ (s = .mod ∧ f.module.isSome) ∨ ∃ j, j < f.defs.length ∧ s = .d j) := by
  obtain ⟨s, tl, hs, hp⟩ := flat_shape _ _ _ h
  refine ⟨s, tl, by simpa using hp, ?_⟩
  simp only [fileF, Forest.segs, segs_append, List.mem_cons, List.mem_append] at hs
  rcases hs with hs | hs | hs
  · exact Or.inl hs
  · cases hm : f.module with
    | none => simp [hm, Forest.segs] at hs
    | some m => simp [hm, Forest.segs] at hs; exact Or.inr (Or.inl ⟨hs, rfl⟩)
  · obtain ⟨j, _, hj, rfl⟩ := idxF_segs_lt _ _ _ _ _ _ hs
    exact Or.inr (Or.inr ⟨j, by simpa using hj, rfl⟩)

/-! ## membership by position -/

theorem tyF_has_of_declared (t : Table) (self fuel : Nat) (sc : String) (fr : Bool) (ty : TyExpr) :
    ∀ p, DeclaredTy ty p → p = [] ∨ (tyF t self fuel sc fr ty).has p := by
  fun_induction tyF t self fuel sc fr ty <;> intro p h <;>
    (cases p with
     | nil => exact Or.inl rfl
     | cons s tl => cases s <;> simp_all [DeclaredTy, Forest.has])

theorem declaredTy_nil (ty : TyExpr) : DeclaredTy ty [] := by
  unfold DeclaredTy; simp

/-- without alias descent (fuel 0) the nested references presented are exactly the written ones -/
theorem tyF_declared_of_has (t : Table) (self fuel : Nat) (sc : String) (fr : Bool) (ty : TyExpr) (h0 : fuel = 0) :
    ∀ p, (tyF t self fuel sc fr ty).has p → DeclaredTy ty p := by
  fun_induction tyF t self fuel sc fr ty <;> intro p h <;>
    (cases p with
     | nil => exact declaredTy_nil _
     | cons s tl => cases s <;> simp_all [DeclaredTy, Forest.has] <;> (rcases h with rfl | h <;> simp_all [declaredTy_nil]))

theorem owner_has (c : Ctx) (ty : TRef) : ∀ p, DeclaredOwner ty p → p = [] ∨ (c.tref ty).has p
  | [], _ => Or.inl rfl
  | s :: tl, h => by
    cases s <;> simp [DeclaredOwner] at h
    right
    have := tyF_has_of_declared c.table c.self c.fuel c.scope false ty.ty tl h
    simp only [Ctx.tref, trefF, Forest.has]
    rcases this with rfl | h'
    · exact Or.inl rfl
    · exact Or.inr (Or.inl ⟨tl, rfl, h'⟩)

theorem fields_has (c : Ctx) (fs : List Field) : ∀ p, DeclaredFields fs p → (fieldsF c fs).has p
  | [], h => by simp [DeclaredFields] at h
  | s :: tl, h => by
    cases s <;> simp [DeclaredFields] at h
    rename_i k
    cases hk : fs[k]? with
    | none => simp [hk] at h
    | some fl =>
      simp [hk] at h
      exact (idxF_has .f _ _ (by intro a b h; cases h; rfl) fs 0 _).mpr ⟨k, fl, tl, by simp, hk, owner_has c fl.ty tl h⟩

theorem params_has (c : Ctx) (seg : Nat → Seg) (hinj : ∀ a b, seg a = seg b → a = b) (ps : List Param) (k : Nat) (tl : Path)
    (h : DeclaredParams ps k tl) : (paramsF c seg ps).has (seg k :: tl) := by
  unfold DeclaredParams at h
  cases hk : ps[k]? with
  | none => simp [hk] at h
  | some pa =>
    simp [hk] at h
    exact (idxF_has seg _ _ hinj ps 0 _).mpr ⟨k, pa, tl, by simp, hk, owner_has c pa.ty tl h⟩

theorem op_has (c : Ctx) (o : Op) : ∀ p, DeclaredOp o p → p = [] ∨ (opF c o).has p
  | [], _ => Or.inl rfl
  | s :: tl, h => by
    right
    unfold opF
    rw [has_append]
    cases s <;> simp [DeclaredOp] at h
    · exact Or.inl (params_has c .p (by intro a b h; cases h; rfl) _ _ _ h)
    · exact Or.inr (params_has c .r (by intro a b h; cases h; rfl) _ _ _ h)

theorem enumerator_has (c : Ctx) (en : Enumerator) : ∀ p, DeclaredEnumerator en p → p = [] ∨ (enumeratorF c en).has p
  | [], _ => Or.inl rfl
  | s :: tl, h => by
    right
    unfold enumeratorF
    simp only [DeclaredEnumerator] at h
    cases hf : en.fields with
    | none => simp [hf] at h
    | some fs => simp only [hf] at h ⊢; exact fields_has c fs _ h

theorem def_has (c : Ctx) (d : Def) : ∀ p, DeclaredIn d p → p = [] ∨ (defF c d).has p
  | [], _ => Or.inl rfl
  | s :: tl, h => by
    right
    cases d with
    | struct _ _ _ _ fs => simp only [DeclaredIn] at h; exact fields_has c fs _ h
    | iface _ _ _ _ ops =>
      cases s <;> simp [DeclaredIn] at h
      rename_i k
      cases hk : ops[k]? with
      | none => simp [hk] at h
      | some o =>
        simp [hk] at h
        exact (idxF_has .o _ _ (by intro a b h; cases h; rfl) ops 0 _).mpr ⟨k, o, tl, by simp, hk, op_has c o tl h⟩
    | «enum» _ _ _ _ _ _ es =>
      cases s <;> simp [DeclaredIn] at h
      rename_i k
      cases hk : es[k]? with
      | none => simp [hk] at h
      | some en =>
        simp [hk] at h
        exact (idxF_has .e _ _ (by intro a b h; cases h; rfl) es 0 _).mpr ⟨k, en, tl, by simp, hk, enumerator_has c en tl h⟩
    | custom _ _ _ => simp [DeclaredIn] at h
    | «alias» _ _ _ ty =>
      cases s <;> simp [DeclaredIn] at h
      have := owner_has c ty (.t :: tl) (by simpa [DeclaredOwner] using h)
      simpa [defF] using this

theorem file_has (c : Ctx) (f : SFile) (p : Path) (h : Declared f p) : (fileF c f).has p := by
  unfold fileF
  simp only [Forest.has, has_append]
  match p, h with
  | [.file], _ => exact Or.inl rfl
  | [.mod], h =>
    simp [Declared] at h
    cases hm : f.module with
    | none => simp [hm] at h
    | some m => exact Or.inr (Or.inr (Or.inl (by simp [Forest.has])))
  | .d j :: tl, h =>
    simp only [Declared] at h
    cases hj : f.defs[j]? with
    | none => simp [hj] at h
    | some d =>
      simp only [hj] at h
      exact Or.inr (Or.inr (Or.inr ((idxF_has .d _ _ (by intro a b h; cases h; rfl) f.defs 0 _).mpr
        ⟨j, d, tl, by simp, hj, def_has c d tl h⟩)))

end Slicec.Visit
