/-
  Helper lemmas for C07 / C18 over `Model/Driver.lean`.
-/
import SlicecVerif.Model.Driver

namespace Slicec.Driver

/-! ## diagnostics -/

theorem hasErrors_nil : hasErrors [] = false := rfl

theorem hasErrors_append (a b : List Diag) : hasErrors (a ++ b) = (hasErrors a || hasErrors b) := by
  simp [hasErrors, List.any_append]

theorem hasErrors_iff (ds : List Diag) : hasErrors ds = true ↔ ∃ d ∈ ds, d.isError = true := by
  simp [hasErrors, List.any_eq_true]

theorem hasErrors_false_iff (ds : List Diag) : hasErrors ds = false ↔ ∀ d ∈ ds, d.isError = false := by
  simp [hasErrors, List.any_eq_false]

/-- errors are never downgraded, lints are never errors -/
theorem level_error_iff (a : List String) (d : Diag) : d.level a = .error ↔ d.isError = true := by
  cases d <;> simp [Diag.level, Diag.isError]
  split <;> simp

theorem countErrors_zero_iff (a : List String) (ds : List Diag) :
    countErrors (ds.map fun d => (d, d.level a)) = 0 ↔ hasErrors ds = false := by
  induction ds with
  | nil => simp [countErrors, hasErrors]
  | cons d rest ih =>
    simp only [countErrors, hasErrors, List.map_cons, List.any_cons] at ih ⊢
    by_cases h : d.isError = true
    · have : d.level a = .error := (level_error_iff a d).2 h
      simp [this, h]
    · have hl : ¬ d.level a = .error := fun hh => h ((level_error_iff a d).1 hh)
      simp only [Bool.not_eq_true] at h
      simp [hl, h]
      simpa using ih

/-! ## phases -/

/-- the table read from the source is the one the model mirrors by hand: eight phases in this order, the
    first unconditional, every other one gated on "no error so far" -/
theorem phaseRows_eq : phaseRows =
    [(.resolve, false), (.parse, true), (.attributes, true), (.typeRefs, true), (.links, true),
     (.cycles, true), (.redefinitions, true), (.visitor, true)] := by decide

theorem allPhases_eq : allPhases =
    [.resolve, .parse, .attributes, .typeRefs, .links, .cycles, .redefinitions, .visitor] := by
  simp [allPhases, phaseRows_eq]

/-- the phases that run, from a state without errors, when the phases `ps` are still to come -/
def ranFrom (o : PhaseOutcomes) : List Phase → List Phase
  | [] => []
  | p :: ps => p :: (if hasErrors (o.out p) then [] else ranFrom o ps)

/-- one uniformly gated step: the phase runs iff no error has been reported so far -/
def gstep (o : PhaseOutcomes) (s : CompileState) (p : Phase) : CompileState :=
  if hasErrors s.diags then s else runPhase o p s

theorem applyFn_runPhase (o : PhaseOutcomes) (p : Phase) (s : CompileState) :
    applyFn (runPhase o p) s = gstep o s p := by
  unfold applyFn gstep
  cases hasErrors s.diags <;> simp

theorem gstep_err (o : PhaseOutcomes) (p : Phase) (s : CompileState) (h : hasErrors s.diags = true) :
    gstep o s p = s := by simp [gstep, h]

theorem gstep_ok (o : PhaseOutcomes) (p : Phase) (s : CompileState) (h : hasErrors s.diags = false) :
    gstep o s p = runPhase o p s := by simp [gstep, h]

theorem foldl_gstep_err (o : PhaseOutcomes) (ps : List Phase) (s : CompileState) (h : hasErrors s.diags = true) :
    ps.foldl (gstep o) s = s := by
  induction ps with
  | nil => rfl
  | cons a t ih => simp [List.foldl_cons, gstep_err o a s h, ih]

theorem patchAst_eq (o : PhaseOutcomes) (s : CompileState) :
    patchAst o s = [Phase.attributes, .typeRefs, .links].foldl (gstep o) s := by
  simp [patchAst, applyFn_runPhase]

theorem applyFn_patchAst (o : PhaseOutcomes) (s : CompileState) :
    applyFn (patchAst o) s = [Phase.attributes, .typeRefs, .links].foldl (gstep o) s := by
  unfold applyFn
  cases h : hasErrors s.diags
  · simp [patchAst_eq]
  · simp only [Bool.not_true, Bool.false_eq_true, if_false]
    exact (foldl_gstep_err o _ s h).symm

theorem applyFn_validateAst (o : PhaseOutcomes) (s : CompileState) :
    applyFn (validateAst o) s = [Phase.cycles, .redefinitions, .visitor].foldl (gstep o) s := by
  unfold applyFn
  cases h : hasErrors s.diags
  · simp only [Bool.not_false, if_true, validateAst, List.foldl_cons, List.foldl_nil]
    rw [gstep_ok o .cycles s h]
    cases h1 : hasErrors (runPhase o .cycles s).diags
    · simp only [Bool.false_eq_true, if_false]
      rw [gstep_ok o .redefinitions _ h1]
      cases h2 : hasErrors (runPhase o .redefinitions (runPhase o .cycles s)).diags
      · simp only [Bool.false_eq_true, if_false]
        rw [gstep_ok o .visitor _ h2]
      · simp only [if_true]
        rw [gstep_err o .visitor _ h2]
    · simp only [if_true]
      rw [gstep_err o .redefinitions _ h1, gstep_err o .visitor _ h1]
  · simp only [Bool.not_true, Bool.false_eq_true, if_false]
    exact (foldl_gstep_err o _ s h).symm

/-- `compile_from_options` is a uniformly gated fold over the eight phases -/
theorem compilePhases_eq_fold (o : PhaseOutcomes) : compilePhases o = allPhases.foldl (gstep o) ⟨[], []⟩ := by
  have h0 : gstep o ⟨[], []⟩ .resolve = runPhase o .resolve ⟨[], []⟩ := gstep_ok o _ _ rfl
  unfold compilePhases
  rw [allPhases_eq]
  simp only [List.foldl_cons, h0]
  cases h : hasErrors (runPhase o .resolve ⟨[], []⟩).diags
  · simp only [Bool.not_false, if_true, compileFiles, applyFn_validateAst, applyFn_patchAst, List.foldl_cons,
      List.foldl_nil]
    rw [gstep_ok o .parse _ h]
  · simp only [Bool.not_true, Bool.false_eq_true, if_false, List.foldl_nil]
    simp only [gstep_err o _ _ h]

theorem foldl_gstep_spec (o : PhaseOutcomes) (ps : List Phase) (s : CompileState) (h : hasErrors s.diags = false) :
    ps.foldl (gstep o) s = ⟨s.diags ++ (ranFrom o ps).flatMap o.out, s.ran ++ ranFrom o ps⟩ := by
  induction ps generalizing s with
  | nil => simp [ranFrom]
  | cons a t ih =>
    simp only [List.foldl_cons, gstep_ok o a s h, ranFrom]
    cases ha : hasErrors (o.out a)
    · have : hasErrors (runPhase o a s).diags = false := by simp [runPhase, hasErrors_append, h, ha]
      rw [ih _ this]
      simp [runPhase, List.flatMap_cons]
    · have : hasErrors (runPhase o a s).diags = true := by simp [runPhase, hasErrors_append, ha]
      rw [foldl_gstep_err o t _ this]
      simp [runPhase]

theorem compilePhases_spec (o : PhaseOutcomes) :
    compilePhases o = ⟨(ranFrom o allPhases).flatMap o.out, ranFrom o allPhases⟩ := by
  rw [compilePhases_eq_fold, foldl_gstep_spec o allPhases ⟨[], []⟩ rfl]
  simp

theorem ranFrom_subset (o : PhaseOutcomes) (ps : List Phase) : ∀ p ∈ ranFrom o ps, p ∈ ps := by
  induction ps with
  | nil => simp [ranFrom]
  | cons a t ih =>
    intro p hp
    simp only [ranFrom, List.mem_cons] at hp
    rcases hp with rfl | hp
    · simp
    · split at hp
      · simp at hp
      · exact List.mem_cons_of_mem _ (ih p hp)

theorem hasErrors_flatMap (o : PhaseOutcomes) (ps : List Phase) :
    hasErrors (ps.flatMap o.out) = ps.any (fun p => hasErrors (o.out p)) := by
  induction ps with
  | nil => rfl
  | cons a t ih => simp [List.flatMap_cons, hasErrors_append, ih]

/-- no error at the end ⇒ every phase ran and none reported an error -/
theorem ranFrom_clean (o : PhaseOutcomes) (ps : List Phase)
    (h : hasErrors ((ranFrom o ps).flatMap o.out) = false) :
    ranFrom o ps = ps ∧ ∀ p ∈ ps, hasErrors (o.out p) = false := by
  induction ps with
  | nil => simp [ranFrom]
  | cons a t ih =>
    simp only [ranFrom, List.flatMap_cons, hasErrors_append, Bool.or_eq_false_iff] at h
    obtain ⟨ha, ht⟩ := h
    simp only [ha, Bool.false_eq_true, if_false] at ht
    obtain ⟨e, hall⟩ := ih ht
    refine ⟨by simp [ranFrom, ha, e], ?_⟩
    intro p hp
    rcases List.mem_cons.1 hp with rfl | hp
    · exact ha
    · exact hall p hp

/-- every phase clean ⇒ every phase runs -/
theorem ranFrom_of_clean (o : PhaseOutcomes) (ps : List Phase) (h : ∀ p ∈ ps, hasErrors (o.out p) = false) :
    ranFrom o ps = ps := by
  induction ps with
  | nil => rfl
  | cons a t ih =>
    have ha := h a (by simp)
    simp [ranFrom, ha, ih (fun p hp => h p (List.mem_cons_of_mem _ hp))]

theorem ranFrom_gating (o : PhaseOutcomes) (ps : List Phase) (hs : ps.Pairwise (fun a c => a.idx < c.idx))
    (p : Phase) (hp : p ∈ ranFrom o ps) (he : hasErrors (o.out p) = true) :
    ∀ q ∈ ranFrom o ps, q.idx ≤ p.idx := by
  induction ps with
  | nil => simp [ranFrom] at hp
  | cons a t ih =>
    obtain ⟨hat, ht⟩ := List.pairwise_cons.1 hs
    simp only [ranFrom, List.mem_cons] at hp ⊢
    by_cases ha : hasErrors (o.out a) = true
    · simp only [ha, if_true, List.not_mem_nil, or_false] at hp ⊢
      intro q hq
      subst hp; subst hq
      exact Nat.le_refl _
    · simp only [ha, Bool.false_eq_true, if_false] at hp ⊢
      have hpt : p ∈ ranFrom o t := by
        rcases hp with rfl | hp
        · exact absurd he ha
        · exact hp
      intro q hq
      rcases hq with rfl | hq
      · exact Nat.le_of_lt (hat p (ranFrom_subset o t p hpt))
      · exact ih ht hpt q hq

theorem ranFrom_earlier_clean (o : PhaseOutcomes) (ps : List Phase) (hs : ps.Pairwise (fun a c => a.idx < c.idx))
    (q : Phase) (hq : q ∈ ranFrom o ps) (p : Phase) (hp : p ∈ ps) (hlt : p.idx < q.idx) :
    hasErrors (o.out p) = false := by
  induction ps with
  | nil => simp at hp
  | cons a t ih =>
    obtain ⟨hat, ht⟩ := List.pairwise_cons.1 hs
    simp only [ranFrom, List.mem_cons] at hq
    by_cases ha : hasErrors (o.out a) = true
    · simp only [ha, if_true, List.not_mem_nil, or_false] at hq
      subst hq
      rcases List.mem_cons.1 hp with rfl | hp
      · exact absurd hlt (Nat.lt_irrefl _)
      · exact absurd (hat p hp) (Nat.lt_asymm hlt)
    · simp only [Bool.not_eq_true] at ha
      simp only [ha, Bool.false_eq_true, if_false] at hq
      rcases hq with rfl | hq
      · rcases List.mem_cons.1 hp with rfl | hp
        · exact ha
        · exact absurd (hat p hp) (Nat.lt_asymm hlt)
      · rcases List.mem_cons.1 hp with rfl | hp
        · exact ha
        · exact ih ht hq hp

theorem allPhases_sorted : allPhases.Pairwise (fun a c => a.idx < c.idx) := by
  rw [allPhases_eq]
  simp [Phase.idx]

theorem mem_allPhases (p : Phase) : p ∈ allPhases := by
  rw [allPhases_eq]
  cases p <;> simp

/-- one step of the fold over the source's rows: a gated phase runs iff no error so far -/
def gstepRow (o : PhaseOutcomes) (s : CompileState) (r : Phase × Bool) : CompileState :=
  if r.2 && hasErrors s.diags then s else runPhase o r.1 s

/-- `compile_from_options`, written call by call in the model, is the fold of the source's phase table -/
theorem compilePhases_eq_rows (o : PhaseOutcomes) : compilePhases o = phaseRows.foldl (gstepRow o) ⟨[], []⟩ := by
  have h : ∀ (s : CompileState) (p : Phase), gstepRow o s (p, true) = gstep o s p := by
    intro s p; simp [gstepRow, gstep]
  rw [compilePhases_eq_fold, allPhases_eq, phaseRows_eq]
  simp only [List.foldl_cons, List.foldl_nil, h]
  simp [gstepRow, gstep, hasErrors_nil]

/-! ## status classification (over the arms read from the source) -/

theorem statusAccepted_some (code : Nat) : statusAccepted (some code) = (code == 0) := by
  unfold statusAccepted
  simp only [Gen.collectArms]
  by_cases h : code = 0
  · subst h; simp [statusPatMatches]
  · have h' : (0 == code) = false := by simp; omega
    simp [List.find?, statusPatMatches, h', h]

theorem statusAccepted_none : statusAccepted none = false := by
  simp [statusAccepted, Gen.collectArms, List.find?, statusPatMatches]

theorem collect_exited (code : Nat) (err out : Bytes) :
    collect (.exited code err out) =
      if !err.isEmpty then .error .stderrOutput else if code = 0 then .ok out else .error (.status code) := by
  simp only [collect, Gen.collectStderrCheck, statusAccepted_some, Bool.true_and]
  by_cases h : code = 0 <;> simp [h]

theorem collect_signalled (err out : Bytes) :
    collect (.signalled err out) = if !err.isEmpty then .error .stderrOutput else .error .interrupted := by
  simp [collect, Gen.collectStderrCheck, statusAccepted_none]

/-! ## one generator -/

/-- what one round of the collection loop does to the world, in terms of the per-generator view -/
def applyGen (outDir : Option Path) (w : World) (g : GenRun) : World × List Diag :=
  match genReply g with
  | .error _ => (w, [Diag.io .runGenerator g.gen.path])
  | .ok (files, ds) => writeFiles outDir files { w with printed := w.printed ++ ds.map (·.message) }

theorem collectOne_spawnGen (outDir : Option Path) (payload : Bytes) (w : World) (g : GenRun) :
    collectOne outDir w (spawnGen payload g) = applyGen outDir w g := by
  obtain ⟨gen, beh⟩ := g
  unfold applyGen genReply spawnGen
  cases beh with
  | spawnError => simp [collectOne]
  | stdinError =>
    simp only
    cases encArguments gen.args <;> simp [collectOne]
  | waitError =>
    simp only
    cases encArguments gen.args <;> simp [collectOne, collect]
  | exited code err out =>
    simp only
    cases encArguments gen.args with
    | none => simp [collectOne]
    | some a =>
      simp only [collectOne]
      cases hc : collect (.exited code err out) with
      | error e => simp
      | ok stdout =>
        simp only [handleReply]
        cases hd : decReply stdout with
        | error e => simp
        | ok r => obtain ⟨⟨fs, ds⟩, rest⟩ := r; simp
  | signalled err out =>
    simp only
    cases encArguments gen.args with
    | none => simp [collectOne]
    | some a =>
      simp only [collectOne]
      cases hc : collect (.signalled err out) with
      | error e => simp
      | ok stdout =>
        simp only [handleReply]
        cases hd : decReply stdout with
        | error e => simp
        | ok r => obtain ⟨⟨fs, ds⟩, rest⟩ := r; simp

theorem applyGen_failed (outDir : Option Path) (w : World) (g : GenRun) (h : g.failed = true) :
    applyGen outDir w g = (w, [Diag.io .runGenerator g.gen.path]) := by
  unfold applyGen
  unfold GenRun.failed at h
  cases hr : genReply g with
  | error e => rfl
  | ok r => simp [hr] at h

theorem applyGen_ok (outDir : Option Path) (w : World) (g : GenRun) (h : g.failed = false) :
    applyGen outDir w g = writeFiles outDir g.files { w with printed := w.printed ++ g.messages } := by
  unfold applyGen GenRun.files GenRun.messages
  unfold GenRun.failed at h
  cases hr : genReply g with
  | error e => simp [hr] at h
  | ok r => obtain ⟨fs, ds⟩ := r; rfl

/-! ## writing files -/

def isRunGen : Diag → Bool
  | .io .runGenerator _ => true
  | _ => false

theorem writeFiles_diags (outDir : Option Path) (files : List GenFile) (w : World) :
    ∀ d ∈ (writeFiles outDir files w).2, ∃ f ∈ files, d = Diag.io .writeGenerated f.path := by
  induction files generalizing w with
  | nil => simp [writeFiles]
  | cons f rest ih =>
    intro d hd
    simp only [writeFiles, List.mem_append] at hd
    rcases hd with hd | hd
    · split at hd
      · simp at hd; exact ⟨f, by simp, hd⟩
      · simp at hd
    · obtain ⟨f', hf', e⟩ := ih _ d hd
      exact ⟨f', List.mem_cons_of_mem _ hf', e⟩

theorem writeFiles_no_runGen (outDir : Option Path) (files : List GenFile) (w : World) :
    (writeFiles outDir files w).2.filter isRunGen = [] := by
  rw [List.filter_eq_nil_iff]
  intro d hd
  obtain ⟨f, _, rfl⟩ := writeFiles_diags outDir files w d hd
  simp [isRunGen]

theorem writeGenerated_writes (outDir : Option Path) (w : World) (f : GenFile) :
    ∀ pc ∈ (writeGenerated outDir w f).1.writes,
      pc ∈ w.writes ∨ (pc = (targetPath outDir f.path, f.contents) ∧ w.fs.files pc.1 ≠ some pc.2) := by
  intro pc hpc
  unfold writeGenerated at hpc
  simp only at hpc
  split at hpc
  · exact Or.inl hpc
  · split at hpc
    · exact Or.inl hpc
    · simp only [List.mem_append, List.mem_singleton] at hpc
      rcases hpc with h | h
      · exact Or.inl h
      · subst h; exact Or.inr ⟨rfl, by assumption⟩

theorem writeFiles_writes (outDir : Option Path) (files : List GenFile) (w : World) :
    ∀ pc ∈ (writeFiles outDir files w).1.writes,
      pc ∈ w.writes ∨ ∃ f ∈ files, pc = (targetPath outDir f.path, f.contents) := by
  induction files generalizing w with
  | nil => intro pc h; exact Or.inl h
  | cons f rest ih =>
    intro pc hpc
    simp only [writeFiles] at hpc
    rcases ih _ pc hpc with h | ⟨f', hf', e⟩
    · rcases writeGenerated_writes outDir w f pc h with h | ⟨e, _⟩
      · exact Or.inl h
      · exact Or.inr ⟨f, by simp, e⟩
    · exact Or.inr ⟨f', List.mem_cons_of_mem _ hf', e⟩

/-- `writes` only grows -/
theorem writeGenerated_writes_mono (outDir : Option Path) (w : World) (f : GenFile) :
    ∀ pc ∈ w.writes, pc ∈ (writeGenerated outDir w f).1.writes := by
  intro pc h
  unfold writeGenerated
  simp only
  split
  · exact h
  · split
    · exact h
    · simp [h]

/-- a path whose content is already what every file aimed at it carries: content and write log untouched -/
theorem writeGenerated_stable (outDir : Option Path) (w : World) (f : GenFile) (p : Path) (c : Bytes)
    (hp : w.fs.files p = some c) (hf : targetPath outDir f.path = p → f.contents = c) :
    (writeGenerated outDir w f).1.fs.files p = some c ∧
    ∀ pc ∈ (writeGenerated outDir w f).1.writes, pc ∈ w.writes ∨ pc.1 ≠ p := by
  unfold writeGenerated
  simp only
  split
  · exact ⟨hp, fun pc h => Or.inl h⟩
  · split
    · exact ⟨hp, fun pc h => Or.inl h⟩
    · rename_i hne _
      have hne' : targetPath outDir f.path ≠ p := by
        intro e
        apply hne
        rw [e, hp, hf e]
      refine ⟨?_, ?_⟩
      · simp only [FileSystem.write]
        rw [if_neg (fun e => hne' e.symm)]
        exact hp
      · intro pc h
        simp only [List.mem_append, List.mem_singleton] at h
        rcases h with h | h
        · exact Or.inl h
        · subst h; exact Or.inr hne'

theorem writeFiles_stable (outDir : Option Path) (files : List GenFile) (w : World) (p : Path) (c : Bytes)
    (hp : w.fs.files p = some c) (hf : ∀ f ∈ files, targetPath outDir f.path = p → f.contents = c) :
    (writeFiles outDir files w).1.fs.files p = some c ∧
    ∀ pc ∈ (writeFiles outDir files w).1.writes, pc ∈ w.writes ∨ pc.1 ≠ p := by
  induction files generalizing w with
  | nil => exact ⟨hp, fun pc h => Or.inl h⟩
  | cons f rest ih =>
    simp only [writeFiles]
    obtain ⟨h1, h2⟩ := writeGenerated_stable outDir w f p c hp (hf f (by simp))
    obtain ⟨h3, h4⟩ := ih (writeGenerated outDir w f).1 h1 (fun f' hf' => hf f' (List.mem_cons_of_mem _ hf'))
    refine ⟨h3, ?_⟩
    intro pc hpc
    rcases h4 pc hpc with h | h
    · exact h2 pc h
    · exact Or.inr h

/-! ## the collection loop -/

theorem collectAll_map (outDir : Option Path) (payload : Bytes) (gens : List GenRun) (w : World) :
    collectAll outDir (gens.map (spawnGen payload)) w =
      match gens with
      | [] => (w, [])
      | g :: rest =>
        ((collectAll outDir (rest.map (spawnGen payload)) (applyGen outDir w g).1).1,
         (applyGen outDir w g).2 ++ (collectAll outDir (rest.map (spawnGen payload)) (applyGen outDir w g).1).2) := by
  cases gens with
  | nil => rfl
  | cons g rest => simp [collectAll, collectOne_spawnGen]

/-- the loop as a fold over the per-generator view -/
def foldGens (outDir : Option Path) : List GenRun → World → World × List Diag
  | [], w => (w, [])
  | g :: rest, w =>
    ((foldGens outDir rest (applyGen outDir w g).1).1,
     (applyGen outDir w g).2 ++ (foldGens outDir rest (applyGen outDir w g).1).2)

theorem collectAll_eq_fold (outDir : Option Path) (payload : Bytes) (gens : List GenRun) (w : World) :
    collectAll outDir (gens.map (spawnGen payload)) w = foldGens outDir gens w := by
  induction gens generalizing w with
  | nil => rfl
  | cons g rest ih =>
    rw [collectAll_map]
    simp only [foldGens, ih]

/-! ## main -/

theorem mainFlow_closed (opts : Options) (c : List Diag) (req : Option Bytes) (gens : List GenRun) (fs : FileSystem)
    (h : guardOpen opts c = false) : mainFlow opts c req gens fs = finish opts c [] [] ⟨fs, [], []⟩ := by
  simp [mainFlow, h]

theorem mainFlow_open_none (opts : Options) (c : List Diag) (gens : List GenRun) (fs : FileSystem)
    (h : guardOpen opts c = true) :
    mainFlow opts c none gens fs = { status := 79, diags := [], attempted := [], requests := [], world := ⟨fs, [], []⟩ } := by
  simp [mainFlow, h]

theorem mainFlow_open_some (opts : Options) (c : List Diag) (payload : Bytes) (gens : List GenRun) (fs : FileSystem)
    (h : guardOpen opts c = true) :
    mainFlow opts c (some payload) gens fs =
      finish opts (c ++ (foldGens opts.outputDir gens ⟨fs, [], []⟩).2) (gens.map (·.gen))
        (requestsOf (gens.map (spawnGen payload))) (foldGens opts.outputDir gens ⟨fs, [], []⟩).1 := by
  simp [mainFlow, h, collectAll_eq_fold]

theorem guardOpen_iff (opts : Options) (c : List Diag) :
    guardOpen opts c = true ↔ hasErrors c = false ∧ opts.dryRun = false := by
  simp [guardOpen, Gen.driverGuard, evalGuardAtom]

theorem guardOpen_false_of_errors (opts : Options) (c : List Diag) (h : hasErrors c = true) :
    guardOpen opts c = false := by
  cases hg : guardOpen opts c
  · rfl
  · rw [((guardOpen_iff opts c).1 hg).1] at h
    exact Bool.noConfusion h

theorem finish_status (opts : Options) (ds : List Diag) (a : List Generator) (r : List (Generator × Bytes)) (w : World) :
    (finish opts ds a r w).status = if hasErrors ds then 1 else 0 := by
  unfold finish
  simp only
  cases h : hasErrors ds
  · rw [if_pos ((countErrors_zero_iff opts.allowedLints ds).2 h)]; simp
  · rw [if_neg]
    · simp
    · intro hc
      rw [(countErrors_zero_iff opts.allowedLints ds).1 hc] at h
      exact Bool.noConfusion h

/-- a generator that did not fail had a process, and its stdin was the payload followed by its arguments -/
theorem spawnGen_of_ok (payload : Bytes) (g : GenRun) (h : g.failed = false) :
    ∃ a, encArguments g.gen.args = some a ∧ (spawnGen payload g).stdin = some (payload ++ a) ∧
      (spawnGen payload g).gen = g.gen := by
  obtain ⟨gen, beh⟩ := g
  unfold GenRun.failed genReply at h
  unfold spawnGen
  cases beh with
  | spawnError => simp at h
  | stdinError => cases he : encArguments gen.args <;> simp [he] at h
  | waitError =>
    cases he : encArguments gen.args with
    | none => simp [he] at h
    | some a => exact ⟨a, rfl, by simp, by simp⟩
  | exited c e o =>
    cases he : encArguments gen.args with
    | none => simp [he] at h
    | some a => exact ⟨a, rfl, by simp, by simp⟩
  | signalled e o =>
    cases he : encArguments gen.args with
    | none => simp [he] at h
    | some a => exact ⟨a, rfl, by simp, by simp⟩

theorem foldGens_writes (outDir : Option Path) (gens : List GenRun) (w : World) :
    ∀ pc ∈ (foldGens outDir gens w).1.writes,
      pc ∈ w.writes ∨ ∃ g ∈ gens, g.failed = false ∧ ∃ f ∈ g.files, pc = (targetPath outDir f.path, f.contents) := by
  induction gens generalizing w with
  | nil => intro pc h; exact Or.inl h
  | cons g rest ih =>
    intro pc hpc
    simp only [foldGens] at hpc
    rcases ih _ pc hpc with h | ⟨g', hg', hok, f, hf, e⟩
    · cases hfail : g.failed
      · rw [applyGen_ok outDir w g hfail] at h
        rcases writeFiles_writes outDir g.files _ pc h with h | ⟨f, hf, e⟩
        · exact Or.inl h
        · exact Or.inr ⟨g, by simp, hfail, f, hf, e⟩
      · rw [applyGen_failed outDir w g hfail] at h
        exact Or.inl h
    · exact Or.inr ⟨g', List.mem_cons_of_mem _ hg', hok, f, hf, e⟩

end Slicec.Driver
