import SlicecVerif.Model.Codec

namespace Slicec

theorem toLE_length (k x : Nat) : (toLE k x).length = k := by
  induction k generalizing x with
  | zero => rfl
  | succ k ih => simp [toLE, ih]

theorem u8_ofNat_toNat (n : Nat) : (UInt8.ofNat n).toNat = n % 256 := by
  simp [UInt8.toNat_ofNat']

theorem fromLE_toLE (k x : Nat) : fromLE (toLE k x) = x % 256 ^ k := by
  induction k generalizing x with
  | zero => simp [toLE, fromLE, Nat.mod_one]
  | succ k ih =>
    simp only [toLE, fromLE, ih, u8_ofNat_toNat]
    rw [Nat.pow_succ, Nat.mul_comm (256 ^ k) 256, Nat.mod_mul]
    omega

theorem fromLE_lt (bs : Bytes) : fromLE bs < 256 ^ bs.length := by
  induction bs with
  | nil => simp [fromLE]
  | cons b bs ih =>
    simp only [fromLE, List.length_cons, Nat.pow_succ]
    have := b.toNat_lt
    omega

theorem toLE_fromLE (bs : Bytes) : toLE bs.length (fromLE bs) = bs := by
  induction bs with
  | nil => rfl
  | cons b bs ih =>
    simp only [List.length_cons, toLE, fromLE]
    have hb := b.toNat_lt
    have h1 : (b.toNat + 256 * fromLE bs) % 256 = b.toNat := by omega
    have h2 : (b.toNat + 256 * fromLE bs) / 256 = fromLE bs := by omega
    rw [h1, h2, ih]
    simp

theorem readN_append (bs rest : Bytes) : readN bs.length (bs ++ rest) = .ok (bs, rest) := by
  simp [readN]

theorem readN_toLE (k x : Nat) (rest : Bytes) : readN k (toLE k x ++ rest) = .ok (toLE k x, rest) := by
  have := readN_append (toLE k x) rest
  rwa [toLE_length] at this


theorem reqBitsU_le_iff (v : BitVec 64) (k : Nat) : reqBitsU v ≤ k ↔ v.toNat < 2 ^ k := by
  unfold reqBitsU
  by_cases hz : v = 0#64
  · subst hz
    have : (0#64).clz.toNat = 64 := by decide
    simp [this, Nat.two_pow_pos]
  · have h1 := @BitVec.toNat_lt_two_pow_sub_clz 64 v
    have h2 := @BitVec.two_pow_sub_clz_le_toNat_of_ne_zero 64 v (by decide) hz
    have h3 : v.clz.toNat < 64 := by
      have := (@BitVec.clz_lt_iff_ne_zero 64 v).mpr hz
      simpa [BitVec.lt_def] using this
    constructor
    · intro h
      exact Nat.lt_of_lt_of_le h1 (Nat.pow_le_pow_right (by decide) h)
    · intro h
      have : 2 ^ (64 - 1 - v.clz.toNat) < 2 ^ k := Nat.lt_of_le_of_lt h2 h
      have := (Nat.pow_lt_pow_iff_right (by decide : 1 < 2)).mp this
      omega
theorem reqBitsS_eq (v : BitVec 64) :
    reqBitsS v = reqBitsU (if v.msb then ~~~v else v) + 1 := by
  unfold reqBitsS reqBitsU
  split <;> simp_all

theorem reqBitsS_le_iff (v : BitVec 64) (k : Nat) (hk : 0 < k) :
    reqBitsS v ≤ k ↔ -(2 ^ (k - 1) : Int) ≤ v.toInt ∧ v.toInt < 2 ^ (k - 1) := by
  rw [reqBitsS_eq]
  have hkk : reqBitsU (if v.msb then ~~~v else v) + 1 ≤ k ↔ reqBitsU (if v.msb then ~~~v else v) ≤ k - 1 := by omega
  rw [hkk, reqBitsU_le_iff]
  have hlt := v.isLt
  have hP : ((2 : Int) ^ (k - 1)) = ((2 ^ (k - 1) : Nat) : Int) := by push_cast; rfl
  rw [hP]
  generalize 2 ^ (k - 1) = P
  rw [BitVec.toInt_eq_msb_cond]
  cases hm : v.msb
  · simp only [Bool.false_eq_true, if_false]
    omega
  · simp only [if_true, BitVec.toNat_not]
    have hm' := hm
    rw [BitVec.msb_eq_decide] at hm'
    simp at hm'
    omega

theorem four_mul_or (n t : Nat) (ht : t < 4) : (4 * n) ||| t = 4 * n + t := by
  have := Nat.two_pow_add_eq_or_of_lt (i := 2) (b := t) (by omega) n
  simpa using this.symm

theorem shl2_toNat (v : BitVec 64) (h : v.toNat < 2 ^ 62) : (v <<< 2).toNat = 4 * v.toNat := by
  rw [BitVec.toNat_shiftLeft, Nat.shiftLeft_eq]
  omega

theorem encVaruint_eq_spec (v : BitVec 64) : encVaruint v = specVaruint v.toNat := by
  have h6 := reqBitsU_le_iff v 6
  have h14 := reqBitsU_le_iff v 14
  have h30 := reqBitsU_le_iff v 30
  have h62 := reqBitsU_le_iff v 62
  unfold encVaruint specVaruint specWidthU findArm
  simp only [Gen.varuintArms, Gen.encodeShift]
  by_cases c6 : v.toNat < 2 ^ 6
  · have : reqBitsU v ≤ 6 := h6.mpr c6
    have hs := shl2_toNat v (by omega)
    simp [List.find?_cons, this, c6, hs, widthCode]
    congr 1; omega
  · have n6 : ¬ reqBitsU v ≤ 6 := fun h => c6 (h6.mp h)
    by_cases c14 : v.toNat < 2 ^ 14
    · have : reqBitsU v ≤ 14 := h14.mpr c14
      have hs := shl2_toNat v (by omega)
      have g : 7 ≤ reqBitsU v := by omega
      simp [List.find?_cons, this, c6, c14, n6, g, hs, widthCode]
      rw [Nat.mod_eq_of_lt (by omega), four_mul_or _ _ (by decide)]
    · have n14 : ¬ reqBitsU v ≤ 14 := fun h => c14 (h14.mp h)
      by_cases c30 : v.toNat < 2 ^ 30
      · have : reqBitsU v ≤ 30 := h30.mpr c30
        have hs := shl2_toNat v (by omega)
        have g : 15 ≤ reqBitsU v := by omega
        have g7 : 7 ≤ reqBitsU v := by omega
        simp [List.find?_cons, this, c6, c14, c30, n6, n14, g, g7, hs, widthCode]
        rw [Nat.mod_eq_of_lt (by omega), four_mul_or _ _ (by decide)]
      · have n30 : ¬ reqBitsU v ≤ 30 := fun h => c30 (h30.mp h)
        by_cases c62 : v.toNat < 2 ^ 62
        · have : reqBitsU v ≤ 62 := h62.mpr c62
          have hs := shl2_toNat v (by omega)
          have g : 31 ≤ reqBitsU v := by omega
          have g7 : 7 ≤ reqBitsU v := by omega
          have g15 : 15 ≤ reqBitsU v := by omega
          simp [List.find?_cons, this, c6, c14, c30, c62, n6, n14, n30, g, g7, g15, hs, widthCode]
          rw [Nat.mod_eq_of_lt (by omega), four_mul_or _ _ (by decide)]
        · have n62 : ¬ reqBitsU v ≤ 62 := fun h => c62 (h62.mp h)
          simp [List.find?_cons, c6, c14, c30, c62, n6, n14, n30, n62]

theorem or_tag (X t : Nat) (h : X % 4 = 0) (ht : t < 4) : X ||| t = X + t := by
  have : X = 4 * (X / 4) := by omega
  rw [this, four_mul_or _ _ ht]

theorem toInt_cases (v : BitVec 64) :
    (v.toInt = v.toNat ∧ v.toNat < 2 ^ 63) ∨ (v.toInt = (v.toNat : Int) - 2 ^ 64 ∧ 2 ^ 63 ≤ v.toNat) := by
  rw [BitVec.toInt_eq_msb_cond, BitVec.msb_eq_decide]
  by_cases h : 2 ^ 63 ≤ v.toNat
  · right; simp [h]
  · left; simp [h]; omega

theorem findArm_std (rb : Nat) :
    findArm [⟨0, 6, 1, 0⟩, ⟨7, 14, 2, 1⟩, ⟨15, 30, 4, 2⟩, ⟨31, 62, 8, 3⟩] rb =
      if rb ≤ 6 then some ⟨0, 6, 1, 0⟩ else if rb ≤ 14 then some ⟨7, 14, 2, 1⟩
      else if rb ≤ 30 then some ⟨15, 30, 4, 2⟩ else if rb ≤ 62 then some ⟨31, 62, 8, 3⟩ else none := by
  unfold findArm
  simp only [List.find?_cons, List.find?_nil]
  by_cases c6 : rb ≤ 6
  · simp [c6]
  · by_cases c14 : rb ≤ 14
    · have : 7 ≤ rb := by omega
      simp [c6, c14, this]
    · by_cases c30 : rb ≤ 30
      · have : 15 ≤ rb := by omega
        have : 7 ≤ rb := by omega
        simp [c6, c14, c30, *]
      · by_cases c62 : rb ≤ 62
        · have : 15 ≤ rb := by omega
          have : 7 ≤ rb := by omega
          have : 31 ≤ rb := by omega
          simp [c6, c14, c30, c62, *]
        · have : ¬ rb ≤ 6 := by omega
          simp [c6, c14, c30, c62]

theorem encVarint_eq_spec (v : BitVec 64) : encVarint v = specVarint v.toInt := by
  have h6 := reqBitsS_le_iff v 6 (by decide)
  have h14 := reqBitsS_le_iff v 14 (by decide)
  have h30 := reqBitsS_le_iff v 30 (by decide)
  have h62 := reqBitsS_le_iff v 62 (by decide)
  have hsl : (v <<< 2).toNat = v.toNat * 4 % 2 ^ 64 := by
    rw [BitVec.toNat_shiftLeft, Nat.shiftLeft_eq]
  have hlt := v.isLt
  unfold encVarint specVarint specWidthS
  simp only [Gen.varintArms, Gen.encodeShift, hsl, findArm_std, h6, h14, h30, h62]
  simp only [Nat.sub_self, Nat.reduceSub, Nat.reducePow, Int.reducePow, Int.reduceNeg]
  rcases toInt_cases v with ⟨hi, hr⟩ | ⟨hi, hr⟩ <;>
  · generalize v.toInt = vi at *
    generalize v.toNat = n at *
    clear h6 h14 h30 h62 hsl
    by_cases c1 : (-32 ≤ vi ∧ vi < 32)
    · simp only [c1, and_self, if_true, Option.map_some, ofSigned, widthCode]
      congr 2
      rw [or_tag _ _ (by omega) (by decide)]
      omega
    · by_cases c2 : (-8192 ≤ vi ∧ vi < 8192)
      · simp only [c1, c2, and_self, if_true, if_false, Option.map_some, ofSigned, widthCode]
        congr 2
        rw [or_tag _ _ (by omega) (by decide)]
        omega
      · by_cases c3 : (-536870912 ≤ vi ∧ vi < 536870912)
        · simp only [c1, c2, c3, and_self, if_true, if_false, Option.map_some, ofSigned, widthCode]
          congr 2
          rw [or_tag _ _ (by omega) (by decide)]
          omega
        · by_cases c4 : (-2305843009213693952 ≤ vi ∧ vi < 2305843009213693952)
          · simp only [c1, c2, c3, c4, and_self, if_true, if_false, Option.map_some, ofSigned, widthCode]
            congr 2
            rw [or_tag _ _ (by omega) (by decide)]
            omega
          · simp only [c1, c2, c3, c4, if_false, Option.map_none]

theorem decVaruintRaw_toLE (w c v : Nat) (rest : Bytes) (hw : 0 < w) (hc : c < 4)
    (hl : lookupWidth Gen.varuintDecode c = some (w, false)) (hlt : 4 * v + c < 256 ^ w) :
    decVaruintRaw (toLE w (4 * v + c) ++ rest) = .ok (v, rest) := by
  obtain ⟨k, rfl⟩ : ∃ k, w = k + 1 := ⟨w - 1, by omega⟩
  have hb : (UInt8.ofNat ((4 * v + c) % 256)).toNat % 4 = c := by
    rw [u8_ofNat_toNat]; omega
  have hr := readN_toLE (k + 1) (4 * v + c) rest
  have hf := fromLE_toLE (k + 1) (4 * v + c)
  rw [Nat.mod_eq_of_lt hlt] at hf
  unfold decVaruintRaw
  simp only [toLE, List.cons_append] at hr hf ⊢
  simp only [Gen.decodeMask, hb, hl, hr, hf, Gen.decodeShift]
  congr 2; omega


theorem ofSigned_lt (bits : Nat) (x : Int) : ofSigned bits x < 2 ^ bits := by
  unfold ofSigned
  have hp : (0 : Int) < 2 ^ bits := Int.pow_pos (by decide)
  have h1 := Int.emod_lt_of_pos x hp
  have h0 := Int.emod_nonneg x (Int.ne_of_gt hp)
  have : ((x % 2 ^ bits).toNat : Int) < ((2 ^ bits : Nat) : Int) := by
    rw [Int.toNat_of_nonneg h0]; push_cast; exact h1
  exact_mod_cast this

theorem toSigned_ofSigned (bits : Nat) (x : Int) (hb : 0 < bits)
    (hlo : -(2 ^ (bits - 1) : Int) ≤ x) (hhi : x < (2 ^ (bits - 1) : Int)) :
    toSigned bits (ofSigned bits x) = x := by
  obtain ⟨k, rfl⟩ : ∃ k, bits = k + 1 := ⟨bits - 1, by omega⟩
  simp only [Nat.add_sub_cancel] at hlo hhi
  unfold toSigned ofSigned
  simp only [Nat.add_sub_cancel]
  have hP : ((2 : Int) ^ (k + 1)) = 2 * 2 ^ k := by rw [Int.pow_succ]; omega
  have hPn : ((2 : Nat) ^ (k + 1)) = 2 * 2 ^ k := by rw [Nat.pow_succ]; omega
  have hc : ((2 ^ k : Nat) : Int) = (2 : Int) ^ k := by push_cast; rfl
  rw [hP]
  generalize hQ : (2 : Int) ^ k = Q at *
  have hQpos : 0 < Q := by rw [← hQ]; exact Int.pow_pos (by decide)
  by_cases hx : 0 ≤ x
  · have : x % (2 * Q) = x := Int.emod_eq_of_lt hx (by omega)
    rw [this]
    have : (x.toNat : Int) = x := Int.toNat_of_nonneg hx
    have hlt : x.toNat < 2 ^ k := by
      have : (x.toNat : Int) < ((2 ^ k : Nat) : Int) := by rw [hc]; omega
      exact_mod_cast this
    simp [hlt, this]
  · have h2 : x % (2 * Q) = x + 2 * Q := by
      have : (x + 2 * Q) % (2 * Q) = x % (2 * Q) := by
        rw [Int.add_emod_right]
      rw [← this]; exact Int.emod_eq_of_lt (by omega) (by omega)
    rw [h2]
    have hnn : 0 ≤ x + 2 * Q := by omega
    have h3 : ((x + 2 * Q).toNat : Int) = x + 2 * Q := Int.toNat_of_nonneg hnn
    have hge : ¬ (x + 2 * Q).toNat < 2 ^ k := by
      intro h
      have : ((x + 2 * Q).toNat : Int) < ((2 ^ k : Nat) : Int) := by exact_mod_cast h
      rw [hc] at this; omega
    simp only [hge, if_false, h3]
    omega


theorem ofSigned_mod4 (k : Nat) (y : Int) : ofSigned (8 * (k + 1)) y % 4 = (y % 4).toNat := by
  unfold ofSigned
  have hd : (4 : Int) ∣ 2 ^ (8 * (k + 1)) := by
    have : 8 * (k + 1) = 2 + (8 * k + 6) := by omega
    rw [this, Int.pow_add]; exact Int.dvd_mul_right _ _
  have hp : (0 : Int) < 2 ^ (8 * (k + 1)) := Int.pow_pos (by decide)
  have h0 := Int.emod_nonneg y (Int.ne_of_gt hp)
  have h1 : (y % 2 ^ (8 * (k + 1))) % 4 = y % 4 := Int.emod_emod_of_dvd y hd
  generalize y % 2 ^ (8 * (k + 1)) = z at *
  omega

theorem pow256 (w : Nat) : 256 ^ w = 2 ^ (8 * w) := by
  rw [Nat.pow_mul]

theorem decVarintRaw_toLE (w c : Nat) (v : Int) (rest : Bytes) (hw : 0 < w) (hc : c < 4)
    (hl : lookupWidth Gen.varintDecode c = some (w, true))
    (hlo : -(2 ^ (8 * w - 1) : Int) ≤ 4 * v + c) (hhi : 4 * v + c < (2 ^ (8 * w - 1) : Int)) :
    decVarintRaw (toLE w (ofSigned (8 * w) (4 * v + c)) ++ rest) = .ok (v, rest) := by
  obtain ⟨k, rfl⟩ : ∃ k, w = k + 1 := ⟨w - 1, by omega⟩
  have hts := toSigned_ofSigned (8 * (k + 1)) (4 * v + c) (by omega) hlo hhi
  have hm4 := ofSigned_mod4 k (4 * v + c)
  have hltX := ofSigned_lt (8 * (k + 1)) (4 * v + c)
  generalize ofSigned (8 * (k + 1)) (4 * v + c) = X at *
  have hb : (UInt8.ofNat (X % 256)).toNat % 4 = c := by
    rw [u8_ofNat_toNat]; omega
  have hr := readN_toLE (k + 1) X rest
  have hf := fromLE_toLE (k + 1) X
  rw [pow256, Nat.mod_eq_of_lt hltX] at hf
  unfold decVarintRaw
  simp only [toLE, List.cons_append] at hr hf ⊢
  simp only [Gen.decodeMask, hb, hl, hr, hf, Gen.decodeShift, hts]
  congr 2; omega



theorem specVaruint_dec (v : Nat) (bs rest : Bytes) (h : specVaruint v = some bs) :
    decVaruintRaw (bs ++ rest) = .ok (v, rest) := by
  unfold specVaruint specWidthU at h
  split at h
  · simp only [Option.map_some, widthCode, Option.some.injEq] at h; subst h
    exact decVaruintRaw_toLE 1 0 v rest (by decide) (by decide) (by decide) (by omega)
  · split at h
    · simp only [Option.map_some, widthCode, Option.some.injEq] at h; subst h
      exact decVaruintRaw_toLE 2 1 v rest (by decide) (by decide) (by decide) (by omega)
    · split at h
      · simp only [Option.map_some, widthCode, Option.some.injEq] at h; subst h
        exact decVaruintRaw_toLE 4 2 v rest (by decide) (by decide) (by decide) (by omega)
      · split at h
        · simp only [Option.map_some, widthCode, Option.some.injEq] at h; subst h
          exact decVaruintRaw_toLE 8 3 v rest (by decide) (by decide) (by decide) (by omega)
        · simp at h

theorem specVarint_dec (v : Int) (bs rest : Bytes) (h : specVarint v = some bs) :
    decVarintRaw (bs ++ rest) = .ok (v, rest) := by
  unfold specVarint specWidthS at h
  split at h
  · simp only [Option.map_some, widthCode, Option.some.injEq] at h; subst h
    exact decVarintRaw_toLE 1 0 v rest (by decide) (by decide) (by decide) (by omega) (by omega)
  · split at h
    · simp only [Option.map_some, widthCode, Option.some.injEq] at h; subst h
      exact decVarintRaw_toLE 2 1 v rest (by decide) (by decide) (by decide) (by omega) (by omega)
    · split at h
      · simp only [Option.map_some, widthCode, Option.some.injEq] at h; subst h
        exact decVarintRaw_toLE 4 2 v rest (by decide) (by decide) (by decide) (by omega) (by omega)
      · split at h
        · simp only [Option.map_some, widthCode, Option.some.injEq] at h; subst h
          exact decVarintRaw_toLE 8 3 v rest (by decide) (by decide) (by decide) (by omega) (by omega)
        · simp at h


theorem ofInt_toNat_nonneg (v : Int) (h0 : 0 ≤ v) (h1 : v < 2 ^ 64) :
    (BitVec.ofInt 64 v).toNat = v.toNat := by
  rw [BitVec.toNat_ofInt]
  have : v % ((2 ^ 64 : Nat) : Int) = v := Int.emod_eq_of_lt h0 (by omega)
  rw [this]

theorem ofInt_toInt (v : Int) (hlo : -(2 ^ 63) ≤ v) (hhi : v < 2 ^ 63) :
    (BitVec.ofInt 64 v).toInt = v := by
  rw [BitVec.toInt_ofInt]
  unfold Int.bmod
  simp only [Nat.reducePow, Nat.reduceAdd, Nat.reduceDiv]
  omega

theorem encVaruintI_dec (hi v : Int) (bs rest : Bytes) (hhi : hi ≤ 2 ^ 64)
    (h : encVaruintI hi v = some bs) : decVaruintRawI (bs ++ rest) = .ok (v, rest) := by
  unfold encVaruintI at h
  split at h
  · rename_i hr
    rw [encVaruint_eq_spec, ofInt_toNat_nonneg v hr.1 (by omega)] at h
    unfold decVaruintRawI
    rw [specVaruint_dec _ _ _ h]
    simp [Int.toNat_of_nonneg hr.1]
  · simp at h

theorem encVarintI_dec (lo hi v : Int) (bs rest : Bytes) (hlo : -(2 ^ 63) ≤ lo) (hhi : hi ≤ 2 ^ 63)
    (h : encVarintI lo hi v = some bs) : decVarintRaw (bs ++ rest) = .ok (v, rest) := by
  unfold encVarintI at h
  split at h
  · rename_i hr
    rw [encVarint_eq_spec, ofInt_toInt v (by omega) (by omega)] at h
    exact specVarint_dec _ _ _ h
  · simp at h

theorem encSize_dec (n : Nat) (a rest : Bytes) (h : encSize n = some a) :
    decVaruintRaw (a ++ rest) = .ok (n, rest) := by
  unfold encSize at h
  split at h
  · rename_i hr
    rw [encVaruint_eq_spec] at h
    have : (BitVec.ofNat 64 n).toNat = n := by simp [BitVec.toNat_ofNat]; omega
    rw [this] at h
    exact specVaruint_dec _ _ _ h
  · simp at h

theorem withSize_some (n : Nat) (body : Option Bytes) (bs : Bytes) (h : withSize n body = some bs) :
    ∃ a b, encSize n = some a ∧ body = some b ∧ bs = a ++ b := by
  unfold withSize at h
  cases ha : encSize n with
  | none => simp [ha] at h
  | some a =>
    cases hb : body with
    | none => simp [ha, hb] at h
    | some b => simp [ha, hb] at h; exact ⟨a, b, rfl, rfl, h.symm⟩

theorem encList_dec {α} (enc : α → Option Bytes) (dec : Bytes → Dec α) (xs : List α)
    (hrt : ∀ x ∈ xs, ∀ bs rest, enc x = some bs → dec (bs ++ rest) = .ok (x, rest))
    (bs rest : Bytes) (h : encList enc xs = some bs) :
    decList dec xs.length (bs ++ rest) = .ok (xs, rest) := by
  induction xs generalizing bs with
  | nil => simp [encList] at h; subst h; simp [decList]
  | cons x xs ih =>
    unfold encList at h
    split at h
    · rename_i a b ha hb
      simp at h; subst h
      simp only [List.length_cons, decList, List.append_assoc]
      rw [hrt x (by simp) a (b ++ rest) ha]
      simp only
      rw [ih (fun y hy => hrt y (by simp [hy])) b hb]
    · simp at h

theorem encPair_dec {α β} (ek : α → Option Bytes) (ev : β → Option Bytes)
    (dk : Bytes → Dec α) (dv : Bytes → Dec β) (p : α × β)
    (hk : ∀ bs rest, ek p.1 = some bs → dk (bs ++ rest) = .ok (p.1, rest))
    (hv : ∀ bs rest, ev p.2 = some bs → dv (bs ++ rest) = .ok (p.2, rest))
    (bs rest : Bytes) (h : encPair ek ev p = some bs) :
    decPair dk dv (bs ++ rest) = .ok (p, rest) := by
  unfold encPair at h
  split at h
  · rename_i a b ha hb
    simp at h; subst h
    simp only [decPair, List.append_assoc]
    rw [hk a (b ++ rest) ha]
    simp only
    rw [hv b rest hb]
  · simp at h

theorem encEntries_dec {α β} [DecidableEq α] (ek : α → Option Bytes) (ev : β → Option Bytes)
    (dk : Bytes → Dec α) (dv : Bytes → Dec β) (es : List (α × β))
    (hrt : ∀ p ∈ es, ∀ bs rest, encPair ek ev p = some bs → decPair dk dv (bs ++ rest) = .ok (p, rest))
    (seen : List α) (hnd : (es.map Prod.fst).Nodup) (hdis : ∀ p ∈ es, p.1 ∉ seen)
    (bs rest : Bytes) (h : encList (encPair ek ev) es = some bs) :
    decEntries dk dv es.length seen (bs ++ rest) = .ok (es, rest) := by
  induction es generalizing bs seen with
  | nil => simp [encList] at h; subst h; simp [decEntries]
  | cons p es ih =>
    unfold encList at h
    split at h
    · rename_i a b ha hb
      simp at h; subst h
      simp only [List.length_cons, decEntries, List.append_assoc]
      rw [hrt p (by simp) a (b ++ rest) ha]
      have hp : p.1 ∉ seen := hdis p (by simp)
      simp only [hp, if_false]
      simp only [List.map_cons, List.nodup_cons] at hnd
      rw [ih (fun q hq => hrt q (by simp [hq])) (p.1 :: seen) hnd.2
        (fun q hq => by
          simp only [List.mem_cons, not_or]
          refine ⟨?_, hdis q (by simp [hq])⟩
          intro heq
          exact hnd.1 (by rw [← heq]; exact List.mem_map_of_mem hq)) b hb]
    · simp at h


theorem bool_rt (v : Bool) (bs rest : Bytes) (h : encBool v = some bs) :
    decBool (bs ++ rest) = .ok (v, rest) := by
  cases v <;> simp [encBool] at h <;> subst h <;> simp [decBool]

theorem fixedU_rt (w : Width) (v : Int) (bs rest : Bytes) (h : encFixedU w.n v = some bs) :
    decFixedU w.n (bs ++ rest) = .ok (v, rest) := by
  simp only [encFixedU] at h
  split at h
  · rename_i hr
    simp at h; subst h
    simp only [decFixedU, readN_toLE, fromLE_toLE]
    have hlt : v.toNat < 256 ^ w.n := by
      rw [pow256]
      have : ((v.toNat : Nat) : Int) < ((2 ^ (8 * w.n) : Nat) : Int) := by
        rw [Int.toNat_of_nonneg hr.1]; push_cast; exact hr.2
      exact_mod_cast this
    rw [Nat.mod_eq_of_lt hlt, Int.toNat_of_nonneg hr.1]
  · simp at h

theorem fixedS_rt (w : Width) (v : Int) (bs rest : Bytes) (h : encFixedS w.n v = some bs) :
    decFixedS w.n (bs ++ rest) = .ok (v, rest) := by
  simp only [encFixedS] at h
  split at h
  · rename_i hr
    simp at h; subst h
    simp only [decFixedS, readN_toLE, fromLE_toLE]
    rw [pow256, Nat.mod_eq_of_lt (ofSigned_lt _ _)]
    rw [toSigned_ofSigned _ _ (by cases w <;> simp [Width.n]) hr.1 hr.2]
  · simp at h

theorem bits_rt (w : Nat) (v : Nat) (bs rest : Bytes) (h : encBits w v = some bs) :
    decBits w (bs ++ rest) = .ok (v, rest) := by
  simp only [encBits] at h
  split at h
  · rename_i hr
    simp at h; subst h
    simp only [decBits, readN_toLE, fromLE_toLE]
    rw [Nat.mod_eq_of_lt (by rw [pow256]; exact hr)]
  · simp at h

theorem varint32_rt (v : Int) (bs rest : Bytes) (h : encVarintI (-(2 ^ 31)) (2 ^ 31) v = some bs) :
    narrow (-(2 ^ 31)) (2 ^ 31 - 1) (decVarintRaw (bs ++ rest)) = .ok (v, rest) := by
  have hr : -(2 ^ 31) ≤ v ∧ v < 2 ^ 31 := by
    unfold encVarintI at h; split at h
    · assumption
    · simp at h
  simp only [encVarintI_dec _ _ _ _ _ (by omega) (by omega) h, narrow]
  simp only [Int.reducePow, Int.reduceNeg, Int.reduceSub]
  rw [if_pos (by omega)]

theorem varuint32_rt (v : Int) (bs rest : Bytes) (h : encVaruintI (2 ^ 32) v = some bs) :
    narrow 0 (2 ^ 32 - 1) (decVaruintRawI (bs ++ rest)) = .ok (v, rest) := by
  have hr : 0 ≤ v ∧ v < 2 ^ 32 := by
    unfold encVaruintI at h; split at h
    · assumption
    · simp at h
  simp only [encVaruintI_dec _ _ _ _ (by omega) h, narrow]
  simp only [Int.reducePow, Int.reduceNeg, Int.reduceSub]
  rw [if_pos (by omega)]

theorem str_rt (v : Bytes) (bs rest : Bytes) (h : encStr v = some bs) :
    decStr (bs ++ rest) = .ok (v, rest) := by
  simp only [encStr] at h
  split at h
  · rename_i hv
    obtain ⟨a, b, ha, hb, rfl⟩ := withSize_some _ _ _ h
    simp at hb; subst hb
    simp only [decStr, List.append_assoc, encSize_dec _ _ _ ha, readN_append, hv, if_true]
  · simp at h

theorem seq_rt {α} (enc : α → Option Bytes) (dec : Bytes → Dec α) (xs : List α)
    (hrt : ∀ x ∈ xs, ∀ bs rest, enc x = some bs → dec (bs ++ rest) = .ok (x, rest))
    (bs rest : Bytes) (h : withSize xs.length (encList enc xs) = some bs) :
    (match decVaruintRaw (bs ++ rest) with
      | .error e => (.error e : Dec (List α))
      | .ok (n, rest) => decList dec n rest) = .ok (xs, rest) := by
  obtain ⟨a, b, ha, hb, rfl⟩ := withSize_some _ _ _ h
  simp only [List.append_assoc, encSize_dec _ _ _ ha]
  exact encList_dec _ _ _ hrt b rest hb

theorem dict_rt {α β} [DecidableEq α] (ek : α → Option Bytes) (ev : β → Option Bytes)
    (dk : Bytes → Dec α) (dv : Bytes → Dec β) (es : List (α × β))
    (hk : ∀ p ∈ es, ∀ bs rest, ek p.1 = some bs → dk (bs ++ rest) = .ok (p.1, rest))
    (hv : ∀ p ∈ es, ∀ bs rest, ev p.2 = some bs → dv (bs ++ rest) = .ok (p.2, rest))
    (hnd : (es.map Prod.fst).Nodup)
    (bs rest : Bytes) (h : withSize es.length (encList (encPair ek ev) es) = some bs) :
    (match decVaruintRaw (bs ++ rest) with
      | .error e => (.error e : Dec (List (α × β)))
      | .ok (n, rest) => decEntries dk dv n [] rest) = .ok (es, rest) := by
  obtain ⟨a, b, ha, hb, rfl⟩ := withSize_some _ _ _ h
  simp only [List.append_assoc, encSize_dec _ _ _ ha]
  exact encEntries_dec _ _ _ _ _
    (fun p hp bs' rest' hp' => encPair_dec _ _ _ _ p (hk p hp) (hv p hp) bs' rest' hp')
    [] hnd (fun _ _ => by simp) b rest hb

theorem decode_encode (t : Ty) : ∀ (v : Val t) (bs rest : Bytes), WF t v → encode t v = some bs →
    decode t (bs ++ rest) = .ok (v, rest) := by
  induction t with
  | bool => intro v bs rest _ h; exact bool_rt v bs rest h
  | uint w => intro v bs rest _ h; exact fixedU_rt w v bs rest h
  | sint w => intro v bs rest _ h; exact fixedS_rt w v bs rest h
  | f32 => intro v bs rest _ h; exact bits_rt 4 v bs rest h
  | f64 => intro v bs rest _ h; exact bits_rt 8 v bs rest h
  | varint32 => intro v bs rest _ h; exact varint32_rt v bs rest h
  | varuint32 => intro v bs rest _ h; exact varuint32_rt v bs rest h
  | varint62 => intro v bs rest _ h; exact encVarintI_dec _ _ v bs rest (by omega) (by omega) h
  | varuint62 => intro v bs rest _ h; exact encVaruintI_dec _ v bs rest (by omega) h
  | size => intro v bs rest _ h; exact encVaruintI_dec _ v bs rest (by omega) h
  | str => intro v bs rest _ h; exact str_rt v bs rest h
  | seq t ih =>
    intro v bs rest hwf h
    exact seq_rt (encode t) (decode t) v (fun x hx bs' rest' hx' => ih x bs' rest' (hwf x hx) hx') bs rest h
  | dictB k v ihk ihv =>
    intro es bs rest hwf h
    exact dict_rt (encode k) (encode v) (decode k) (decode v) es
      (fun p hp b1 r1 h1 => ihk p.1 b1 r1 (hwf.2 p hp).1 h1)
      (fun p hp b1 r1 h1 => ihv p.2 b1 r1 (hwf.2 p hp).2 h1) hwf.1 bs rest h
  | dictH k v ihk ihv =>
    intro es bs rest hwf h
    exact dict_rt (encode k) (encode v) (decode k) (decode v) es
      (fun p hp b1 r1 h1 => ihk p.1 b1 r1 (hwf.2 p hp).1 h1)
      (fun p hp b1 r1 h1 => ihv p.2 b1 r1 (hwf.2 p hp).2 h1) hwf.1 bs rest h


end Slicec
