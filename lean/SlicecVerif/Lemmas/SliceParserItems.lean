/-
  The token sequence of a printed file has the shape the parser inverts (C02, parser half), stage 1:
  for every printer function of Model/Print.lean, `tokensWith` of its items is the structural token list of
  Model/SliceParser.lean (`EmitsL`: exact tokens, the comma choices are not touched) or a sequence of the element's
  shape (`EmitsR`: optional commas written or not, as the choice list says).
-/
import SlicecVerif.Lemmas.SliceLexerItems
import SlicecVerif.Lemmas.SliceParserDefs

namespace Slicec.SPar

open Slicec Slicec.SLex

/-- the items denote exactly `ts` and leave the attribute mode `a'`; the comma choices are not consumed -/
def EmitsL (a : Bool) (items : List Item) (ts : Toks) (a' : Bool) : Prop :=
  ∀ cs R, tokensWith a cs (items ++ R) = ts ++ tokensWith a' cs R

/-- the items denote a sequence of shape `S`, whatever the comma choices are -/
def EmitsR (a : Bool) (items : List Item) (S : Shape) (a' : Bool) : Prop :=
  ∀ cs R, ∃ T cs', S T ∧ tokensWith a cs (items ++ R) = T ++ tokensWith a' cs' R

theorem EmitsL.nil (a : Bool) : EmitsL a [] [] a := fun _ _ => rfl

theorem EmitsL.append {a b c : Bool} {i1 i2 : List Item} {t1 t2 : Toks} (h1 : EmitsL a i1 t1 b) (h2 : EmitsL b i2 t2 c) :
    EmitsL a (i1 ++ i2) (t1 ++ t2) c := by
  intro cs R
  rw [List.append_assoc, h1, h2, List.append_assoc]

theorem EmitsL.toR {a b : Bool} {i : List Item} {t : Toks} (h : EmitsL a i t b) : EmitsR a i (fun T => T = t) b :=
  fun cs R => ⟨t, cs, rfl, h cs R⟩

/-! ## single items -/

theorem tw_tok (a : Bool) (cs : List Bool) (s : String) (r : List Item) :
    tokensWith a cs (.tok s :: r) = toksOf (lexRun a s.toList).items ++ tokensWith (lexRun a s.toList).attr cs r := rfl

theorem tw_ident (a : Bool) (cs : List Bool) (s : String) (r : List Item) :
    tokensWith a cs (.ident s :: r) = .ident s.toList :: tokensWith a cs r := rfl

theorem tw_glue (a : Bool) (cs : List Bool) (r : List Item) : tokensWith a cs (.glue :: r) = tokensWith a cs r := by
  cases cs <;> rfl
theorem tw_sp (a : Bool) (cs : List Bool) (r : List Item) : tokensWith a cs (.sp :: r) = tokensWith a cs r := by
  cases cs <;> rfl
theorem tw_nl (a : Bool) (cs : List Bool) (n : Nat) (r : List Item) : tokensWith a cs (.nl n :: r) = tokensWith a cs r := by
  cases cs <;> rfl
theorem tw_op (a : Bool) (cs : List Bool) (p : String) (r : List Item) : tokensWith a cs (.op p :: r) = tokensWith a cs r := by
  cases cs <;> rfl
theorem tw_cl (a : Bool) (cs : List Bool) (p : String) (r : List Item) : tokensWith a cs (.cl p :: r) = tokensWith a cs r := by
  cases cs <;> rfl

/-- a constant spelling: the table is evaluated -/
theorem tw_const (a a' : Bool) (s : String) (ts : Toks)
    (h : toksOf (lexRun a s.toList).items = ts ∧ (lexRun a s.toList).attr = a') (cs : List Bool) (r : List Item) :
    tokensWith a cs (.tok s :: r) = ts ++ tokensWith a' cs r := by
  rw [tw_tok, h.1, h.2]

theorem tw_kw (s k : String) (h : toksOf (lexRun false s.toList).items = [.kw k] ∧ (lexRun false s.toList).attr = false)
    (cs : List Bool) (r : List Item) : tokensWith false cs (.tok s :: r) = .kw k :: tokensWith false cs r :=
  tw_const false false s [.kw k] h cs r

theorem tw_struct (cs : List Bool) (r : List Item) : tokensWith false cs (.tok "struct" :: r) = .kw "StructKeyword" :: tokensWith false cs r :=
  tw_kw "struct" "StructKeyword" (by decide) cs r
theorem tw_compact (cs : List Bool) (r : List Item) : tokensWith false cs (.tok "compact" :: r) = .kw "CompactKeyword" :: tokensWith false cs r :=
  tw_kw "compact" "CompactKeyword" (by decide) cs r
theorem tw_enum (cs : List Bool) (r : List Item) : tokensWith false cs (.tok "enum" :: r) = .kw "EnumKeyword" :: tokensWith false cs r :=
  tw_kw "enum" "EnumKeyword" (by decide) cs r
theorem tw_unchecked (cs : List Bool) (r : List Item) : tokensWith false cs (.tok "unchecked" :: r) = .kw "UncheckedKeyword" :: tokensWith false cs r :=
  tw_kw "unchecked" "UncheckedKeyword" (by decide) cs r
theorem tw_interface (cs : List Bool) (r : List Item) : tokensWith false cs (.tok "interface" :: r) = .kw "InterfaceKeyword" :: tokensWith false cs r :=
  tw_kw "interface" "InterfaceKeyword" (by decide) cs r
theorem tw_custom (cs : List Bool) (r : List Item) : tokensWith false cs (.tok "custom" :: r) = .kw "CustomKeyword" :: tokensWith false cs r :=
  tw_kw "custom" "CustomKeyword" (by decide) cs r
theorem tw_typealias (cs : List Bool) (r : List Item) : tokensWith false cs (.tok "typealias" :: r) = .kw "TypeAliasKeyword" :: tokensWith false cs r :=
  tw_kw "typealias" "TypeAliasKeyword" (by decide) cs r
theorem tw_module (cs : List Bool) (r : List Item) : tokensWith false cs (.tok "module" :: r) = .kw "ModuleKeyword" :: tokensWith false cs r :=
  tw_kw "module" "ModuleKeyword" (by decide) cs r
theorem tw_tag (cs : List Bool) (r : List Item) : tokensWith false cs (.tok "tag" :: r) = .kw "TagKeyword" :: tokensWith false cs r :=
  tw_kw "tag" "TagKeyword" (by decide) cs r
theorem tw_stream (cs : List Bool) (r : List Item) : tokensWith false cs (.tok "stream" :: r) = .kw "StreamKeyword" :: tokensWith false cs r :=
  tw_kw "stream" "StreamKeyword" (by decide) cs r
theorem tw_idempotent (cs : List Bool) (r : List Item) : tokensWith false cs (.tok "idempotent" :: r) = .kw "IdempotentKeyword" :: tokensWith false cs r :=
  tw_kw "idempotent" "IdempotentKeyword" (by decide) cs r
theorem tw_sequence (cs : List Bool) (r : List Item) : tokensWith false cs (.tok "Sequence" :: r) = .kw "SequenceKeyword" :: tokensWith false cs r :=
  tw_kw "Sequence" "SequenceKeyword" (by decide) cs r
theorem tw_dictionary (cs : List Bool) (r : List Item) : tokensWith false cs (.tok "Dictionary" :: r) = .kw "DictionaryKeyword" :: tokensWith false cs r :=
  tw_kw "Dictionary" "DictionaryKeyword" (by decide) cs r
theorem tw_result (cs : List Bool) (r : List Item) : tokensWith false cs (.tok "Result" :: r) = .kw "ResultKeyword" :: tokensWith false cs r :=
  tw_kw "Result" "ResultKeyword" (by decide) cs r

theorem tw_punct (a : Bool) (s : String) (t : SliceTok)
    (h : ∀ a, toksOf (lexRun a s.toList).items = [t] ∧ (lexRun a s.toList).attr = a)
    (cs : List Bool) (r : List Item) : tokensWith a cs (.tok s :: r) = t :: tokensWith a cs r :=
  tw_const a a s [t] (h a) cs r

theorem tw_lparen (a : Bool) (cs : List Bool) (r : List Item) : tokensWith a cs (.tok "(" :: r) = .lparen :: tokensWith a cs r :=
  tw_punct a "(" .lparen (by decide) cs r
theorem tw_rparen (a : Bool) (cs : List Bool) (r : List Item) : tokensWith a cs (.tok ")" :: r) = .rparen :: tokensWith a cs r :=
  tw_punct a ")" .rparen (by decide) cs r
theorem tw_lbrace (a : Bool) (cs : List Bool) (r : List Item) : tokensWith a cs (.tok "{" :: r) = .lbrace :: tokensWith a cs r :=
  tw_punct a "{" .lbrace (by decide) cs r
theorem tw_rbrace (a : Bool) (cs : List Bool) (r : List Item) : tokensWith a cs (.tok "}" :: r) = .rbrace :: tokensWith a cs r :=
  tw_punct a "}" .rbrace (by decide) cs r
theorem tw_lchevron (a : Bool) (cs : List Bool) (r : List Item) : tokensWith a cs (.tok "<" :: r) = .lchevron :: tokensWith a cs r :=
  tw_punct a "<" .lchevron (by decide) cs r
theorem tw_rchevron (a : Bool) (cs : List Bool) (r : List Item) : tokensWith a cs (.tok ">" :: r) = .rchevron :: tokensWith a cs r :=
  tw_punct a ">" .rchevron (by decide) cs r
theorem tw_comma (a : Bool) (cs : List Bool) (r : List Item) : tokensWith a cs (.tok "," :: r) = .comma :: tokensWith a cs r :=
  tw_punct a "," .comma (by decide) cs r
theorem tw_equals (a : Bool) (cs : List Bool) (r : List Item) : tokensWith a cs (.tok "=" :: r) = .equals :: tokensWith a cs r :=
  tw_punct a "=" .equals (by decide) cs r
theorem tw_qmark (a : Bool) (cs : List Bool) (r : List Item) : tokensWith a cs (.tok "?" :: r) = .qmark :: tokensWith a cs r :=
  tw_punct a "?" .qmark (by decide) cs r
theorem tw_arrow (a : Bool) (cs : List Bool) (r : List Item) : tokensWith a cs (.tok "->" :: r) = .arrow :: tokensWith a cs r :=
  tw_punct a "->" .arrow (by decide) cs r
theorem tw_colon (a : Bool) (cs : List Bool) (r : List Item) : tokensWith a cs (.tok ":" :: r) = .colon :: tokensWith a cs r :=
  tw_punct a ":" .colon (by decide) cs r
theorem tw_minus (a : Bool) (cs : List Bool) (r : List Item) : tokensWith a cs (.tok "-" :: r) = .minus :: tokensWith a cs r :=
  tw_punct a "-" .minus (by decide) cs r

theorem tw_lbracket (a : Bool) (cs : List Bool) (r : List Item) :
    tokensWith a cs (.tok "[" :: r) = .lbracket :: tokensWith true cs r :=
  tw_const a true "[" [.lbracket] (by cases a <;> decide) cs r
theorem tw_rbracket (a : Bool) (cs : List Bool) (r : List Item) :
    tokensWith a cs (.tok "]" :: r) = .rbracket :: tokensWith false cs r :=
  tw_const a false "]" [.rbracket] (by cases a <;> decide) cs r
theorem tw_dlbracket (a : Bool) (cs : List Bool) (r : List Item) :
    tokensWith a cs (.tok "[[" :: r) = .dlbracket :: tokensWith true cs r :=
  tw_const a true "[[" [.dlbracket] (by cases a <;> decide) cs r
theorem tw_drbracket (a : Bool) (cs : List Bool) (r : List Item) :
    tokensWith a cs (.tok "]]" :: r) = .drbracket :: tokensWith false cs r :=
  tw_const a false "]]" [.drbracket] (by cases a <;> decide) cs r

/-! ## attributes -/

theorem escArg_eq (x : List Char) : escArg x = escL x := rfl

/-- one attribute argument -/
theorem tw_arg (x : String) (hx : x.toList.contains '\n' = false) (cs : List Bool) (r : List Item) :
    tokensWith true cs ((if isIdentLike x && !(keywords.contains x) then Item.tok x else Item.tok ("\"" ++ escapeStrLit x ++ "\"")) :: r) =
      argTok x :: tokensWith true cs r := by
  unfold argTok
  split
  · rename_i hc
    simp only [Bool.and_eq_true] at hc
    have hid : isIdentText x.toList = true := by rw [← isIdentLike_eq]; exact hc.1
    rw [tw_tok, lexRun_word true _ hid]
    rfl
  · rw [tw_tok, quoted_toList, lexRun_quoted true _ (not_contains_all _ _ hx), escArg_eq]
    rfl

/-- an indexed list whose elements all denote their tokens in the same mode -/
theorem emitsL_flatMap_zipIdx {α : Type} (f : α × Nat → List Item) (g : α → Toks) (a : Bool) (xs : List α) (k : Nat)
    (h : ∀ x ∈ xs, ∀ i, k ≤ i → EmitsL a (f (x, i)) (g x) a) : EmitsL a ((xs.zipIdx k).flatMap f) (xs.flatMap g) a := by
  induction xs generalizing k with
  | nil => exact EmitsL.nil a
  | cons x xs ih =>
    rw [List.zipIdx_cons, List.flatMap_cons, List.flatMap_cons]
    exact EmitsL.append (h x (by simp) k (Nat.le_refl k)) (ih (k + 1) (fun y hy i hi => h y (by simp [hy]) i (by omega)))

theorem emits_attr (path : String) (a : Attr) (h : attrOk a = true) : EmitsL true (attrItems path a) (attrToks a) true := by
  intro cs R
  have hdir := attrOk_dir a h
  simp only [nameTextOk, Bool.and_eq_true, beq_iff_eq] at hdir
  have hattr : (lexRun true a.directive.toList).attr = true := hdir.1.2
  have hargs := attrOk_args a h
  unfold attrItems attrToks
  simp only [List.append_assoc, List.cons_append, List.nil_append, tw_op, tw_tok, hattr]
  cases hq : a.args with
  | nil => simp only [List.isEmpty_nil, if_true, List.nil_append, tw_cl, dirToks, List.append_nil]
  | cons x xs =>
    rw [hq] at hargs
    simp only [List.isEmpty_cons, Bool.false_eq_true, if_false, List.append_assoc, List.cons_append, List.nil_append,
      tw_glue, tw_lparen, List.zipIdx_cons, List.flatMap_cons, beq_self_eq_true, if_true, tw_arg x (hargs x (by simp))]
    have htail := emitsL_flatMap_zipIdx (fun (p : String × Nat) =>
        (if p.2 == 0 then [Item.glue] else [.glue, .tok ",", .sp]) ++
        [if isIdentLike p.1 && !(keywords.contains p.1) then Item.tok p.1 else Item.tok ("\"" ++ escapeStrLit p.1 ++ "\"")])
      (fun y => [.comma, argTok y]) true xs (0 + 1) (by
        intro y hy i hi cs' R'
        have hi0 : (i == 0) = false := by cases i with | zero => omega | succ n => rfl
        simp only [hi0, Bool.false_eq_true, if_false, List.cons_append, List.nil_append, tw_glue, tw_comma, tw_sp,
          tw_arg y (hargs y (by simp [hy]))])
    rw [htail cs (.glue :: .tok ")" :: .cl path :: R)]
    simp only [tw_glue, tw_rparen, tw_cl, dirToks, argsToks_cons, List.append_assoc, List.cons_append, List.nil_append]

theorem tw_sep (sep : Item) (hsep : sep = .sp ∨ ∃ n, sep = .nl n) (a : Bool) (cs : List Bool) (r : List Item) :
    tokensWith a cs (sep :: r) = tokensWith a cs r := by
  rcases hsep with rfl | ⟨n, rfl⟩
  · exact tw_sp a cs r
  · exact tw_nl a cs n r

theorem emits_localAttrsWith (sfx path : String) (as : List Attr) (sep : Item) (h : as.all attrOk = true)
    (hsep : sep = .sp ∨ ∃ n, sep = .nl n) : EmitsL false (localAttrsWith sfx path as sep) (localAttrsToks as) false := by
  unfold localAttrsWith localAttrsToks
  refine emitsL_flatMap_zipIdx _ _ false as 0 ?_
  intro a ha i _ cs R
  rw [List.all_eq_true] at h
  simp only [List.append_assoc, List.cons_append, List.nil_append, tw_lbracket, tw_glue]
  rw [emits_attr _ a (h a ha) cs]
  simp only [tw_glue, tw_rbracket, tw_sep sep hsep, List.append_assoc, List.cons_append, List.nil_append]

theorem emits_localAttrs (path : String) (as : List Attr) (sep : Item) (h : as.all attrOk = true)
    (hsep : sep = .sp ∨ ∃ n, sep = .nl n) : EmitsL false (localAttrs path as sep) (localAttrsToks as) false :=
  emits_localAttrsWith ".a" path as sep h hsep

/-! ## type references -/

theorem tw_name (a : Bool) (s : String) (h : nameTextOk a s.toList = true) (cs : List Bool) (r : List Item) :
    tokensWith a cs (.tok s :: r) = toksOf (lexRun a s.toList).items ++ tokensWith a cs r := by
  simp only [nameTextOk, Bool.and_eq_true, beq_iff_eq] at h
  rw [tw_tok, h.1.2]

theorem tw_prim (p : Prim) (cs : List Bool) (r : List Item) :
    tokensWith false cs (.tok p.kw :: r) = checkKeyword p.kw.toList :: tokensWith false cs r := by
  rw [tw_tok, lexRun_word false _ (prim_kw_ident p)]
  rfl

mutual
theorem emits_ty : ∀ (path : String) (t : TyExpr), tyOk t = true → EmitsL false (tyItems path t) (tyToks t) false
  | path, .prim p, _ => by
    intro cs R
    simp only [tyItems, tyToks, List.cons_append, List.nil_append, tw_prim]
  | path, .named id, h => by
    intro cs R
    simp only [tyOk] at h
    simp only [tyItems, tyToks, List.cons_append, List.nil_append, tw_name false _ h, nameToks]
  | path, .seq e, h => by
    intro cs R
    simp only [tyOk] at h
    simp only [tyItems, tyToks, List.cons_append, List.nil_append, List.append_assoc, tw_sequence, tw_glue, tw_lchevron]
    rw [emits_tref _ e h cs]
    simp only [tw_glue, tw_rchevron]
  | path, .dict k v, h => by
    intro cs R
    simp only [tyOk, Bool.and_eq_true] at h
    simp only [tyItems, tyToks, List.cons_append, List.nil_append, List.append_assoc, tw_dictionary, tw_glue, tw_lchevron]
    rw [emits_tref _ k h.1 cs]
    simp only [tw_glue, tw_comma, tw_sp]
    rw [emits_tref _ v h.2 cs]
    simp only [tw_glue, tw_rchevron]
  | path, .result s f, h => by
    intro cs R
    simp only [tyOk, Bool.and_eq_true] at h
    simp only [tyItems, tyToks, List.cons_append, List.nil_append, List.append_assoc, tw_result, tw_glue, tw_lchevron]
    rw [emits_tref _ s h.1 cs]
    simp only [tw_glue, tw_comma, tw_sp]
    rw [emits_tref _ f h.2 cs]
    simp only [tw_glue, tw_rchevron]
theorem emits_tref : ∀ (path : String) (t : TRef), trefOk t = true → EmitsL false (trefItems path t) (trefToks t) false
  | path, .mk attrs ty opt, h => by
    intro cs R
    simp only [trefOk, Bool.and_eq_true] at h
    simp only [trefItems, trefToks, List.cons_append, List.nil_append, List.append_assoc, tw_op]
    rw [emits_localAttrsWith ".@a" path attrs .sp h.1 (Or.inl rfl) cs, emits_ty path ty h.2 cs]
    cases opt <;> simp [tw_glue, tw_qmark, tw_cl]
end

/-! ## tags, doc comments, names -/

theorem tw_int (l : IntLit) (h : intLitOk l = true) (cs : List Bool) (r : List Item) :
    tokensWith false cs (.tok l.magText :: r) = .intLit l.magText.toList :: tokensWith false cs r := by
  rw [tw_tok, lexRun_int false _ (magText_int l h)]
  rfl

theorem emits_minus_int (l : IntLit) (h : intLitOk l = true) (cs : List Bool) (r : List Item) :
    tokensWith false cs ((if l.neg then [Item.tok "-", .glue] else []) ++ (.tok l.magText :: r)) =
      intToks l ++ tokensWith false cs r := by
  cases hn : l.neg <;> simp [intToks, hn, tw_minus, tw_glue, tw_int l h]

theorem emits_tag (path : String) (t : Option IntLit) (h : tagOk t = true) : EmitsL false (tagItems path t) (tagToks t) false := by
  intro cs R
  cases t with
  | none => rfl
  | some l =>
    simp only [tagOk] at h
    simp only [tagItems, tagToks, List.cons_append, List.nil_append, List.append_assoc, tw_tag, tw_glue, tw_lparen, tw_op]
    rw [emits_minus_int l h]
    simp only [tw_cl, tw_glue, tw_rparen, tw_sp, List.append_assoc, List.cons_append, List.nil_append]

theorem stripCr_id (s : List Char) (h : s.getLast? ≠ some '\r') : stripCr s = s := by
  unfold stripCr
  split
  · rename_i heq; exact absurd heq h
  · rfl

theorem lexRun_docLine_exact (a : Bool) (s : List Char) (h : s.all (· != '\n') = true) (h2 : s.head? ≠ some '/')
    (h3 : s.getLast? ≠ some '\r') : lexRun a ('/' :: '/' :: '/' :: s) = ⟨[.tok (.doc s)], a, .line⟩ := by
  rw [lexRun_cons, lexNext_slash]
  simp only [lexSlash, lexLineComment]
  split
  · simp at h2
  · rw [dropWhile_all _ _ h, takeWhile_all _ _ h, stripCr_id _ h3]
    simp [StepRes.items, StepRes.endClass]

theorem tw_docLine (a : Bool) (l : String) (h1 : l.toList.contains '\n' = false) (h2 : docLineRT l = true)
    (cs : List Bool) (r : List Item) : tokensWith a cs (.docLine l :: r) = .doc l.toList :: tokensWith a cs r := by
  simp only [docLineRT, Bool.and_eq_true, bne_iff_ne, ne_eq] at h2
  have e : ("///" ++ l).toList = '/' :: '/' :: '/' :: l.toList := by
    have : ("///" : String).toList = ['/', '/', '/'] := by decide
    simp [String.toList_append, this]
  show toksOf (lexRun a ("///" ++ l).toList).items ++ tokensWith (lexRun a ("///" ++ l).toList).attr cs r = _
  rw [e, lexRun_docLine_exact a _ (not_contains_all _ _ h1) h2.1 h2.2]
  rfl

theorem emits_doc (doc : List String) (indent : Nat) (h : docOk doc = true) (h2 : docRT doc = true) (a : Bool) :
    EmitsL a (docItems doc indent) (docToks doc) a := by
  unfold docItems docToks
  induction doc with
  | nil => exact EmitsL.nil a
  | cons l d ih =>
    simp only [docOk, docRT, List.all_cons, Bool.and_eq_true, Bool.not_eq_true'] at h h2
    intro cs R
    simp only [List.flatMap_cons, List.map_cons, List.cons_append, List.nil_append, List.append_assoc,
      tw_docLine a l h.1 h2.1, tw_nl]
    have := ih (by simpa [docOk] using h.2) (by simpa [docRT] using h2.2) cs R
    rw [this]

theorem emits_ident (path name : String) (a : Bool) : EmitsL a (identItems path name) [.ident name.toList] a := by
  intro cs R
  simp only [identItems, List.cons_append, List.nil_append, tw_op, tw_ident, tw_cl]

/-! ## members -/

theorem emits_field (path : String) (indent : Nat) (inl : Bool) (f : Field) (h : fieldOk f = true) (h2 : docRT f.doc = true) :
    EmitsL false (fieldItems path indent inl f) (fieldToks f) false := by
  intro cs R
  simp only [fieldOk, Bool.and_eq_true] at h
  obtain ⟨⟨⟨⟨hdoc, hattrs⟩, htag⟩, _⟩, hty⟩ := h
  simp only [fieldItems, fieldToks, List.append_assoc]
  rw [emits_doc f.doc indent hdoc h2 false cs, emits_localAttrs path f.attrs _ hattrs (sep_inl inl indent) cs]
  simp only [List.cons_append, List.nil_append, tw_op]
  rw [emits_tag path f.tag htag cs, emits_ident path f.name false cs]
  simp only [List.cons_append, List.nil_append, tw_glue, tw_colon, tw_sp]
  rw [emits_tref _ f.ty hty cs]
  simp only [tw_cl, List.append_assoc, List.cons_append, List.nil_append]

theorem emits_stream (b : Bool) (cs : List Bool) (r : List Item) :
    tokensWith false cs ((if b then [Item.tok "stream", .sp] else []) ++ r) = streamToks b ++ tokensWith false cs r := by
  cases b <;> simp [streamToks, tw_stream, tw_sp]

theorem emits_param (path : String) (p : Param) (h : paramOk p = true) : EmitsL false (paramItems path p) (paramToks p) false := by
  intro cs R
  simp only [paramOk, Bool.and_eq_true] at h
  obtain ⟨⟨⟨hattrs, htag⟩, _⟩, hty⟩ := h
  simp only [paramItems, paramToks, List.append_assoc]
  rw [emits_localAttrs path p.attrs _ hattrs (Or.inl rfl) cs]
  simp only [List.cons_append, List.nil_append, tw_op]
  rw [emits_tag path p.tag htag cs, emits_ident path p.name false cs]
  simp only [List.cons_append, List.nil_append, tw_glue, tw_colon, tw_sp]
  rw [emits_stream, emits_tref _ p.ty hty cs]
  simp only [tw_cl, List.append_assoc, List.cons_append, List.nil_append]


/-! ## optional commas -/

theorem tw_optComma (a : Bool) (cs : List Bool) (r : List Item) :
    ∃ c cs', OptComma c ∧ tokensWith a cs (.optComma :: r) = c ++ tokensWith a cs' r := by
  cases cs with
  | nil => exact ⟨[], [], Or.inl rfl, rfl⟩
  | cons b cs =>
    cases b with
    | false => exact ⟨[], cs, Or.inl rfl, rfl⟩
    | true => exact ⟨[.comma], cs, Or.inr rfl, rfl⟩

/-- elements, each *preceded* by an optional comma -/
def PreSepShape : List Toks → Shape
  | [], T => T = []
  | t :: ts, T => ∃ c T2, OptComma c ∧ PreSepShape ts T2 ∧ T = c ++ (t ++ T2)

theorem sepShape_of_pre (ts : List Toks) : ∀ (t0 T : Toks), PreSepShape ts T →
    SepShape ((t0 :: ts).map fun t => (fun T => T = t)) (t0 ++ T) := by
  induction ts with
  | nil =>
    intro t0 T h
    simp only [PreSepShape] at h
    subst h
    exact ⟨t0, [], [], rfl, Or.inl rfl, rfl, by simp⟩
  | cons t ts ih =>
    intro t0 T h
    obtain ⟨c, T2, hc, h2, rfl⟩ := h
    exact ⟨t0, c, t ++ T2, rfl, hc, ih t T2 h2, rfl⟩

/-- the tail of a comma-separated list: every element after the first -/
theorem emits_commaSep_tail (l : List (List Item × Toks)) (h : ∀ q ∈ l, EmitsL false q.1 q.2 false) (k : Nat) :
    EmitsR false (((l.map (·.1)).zipIdx (k + 1)).flatMap fun (x, i) => (if i == 0 then [] else [Item.glue, .optComma, .sp]) ++ x)
      (PreSepShape (l.map (·.2))) false := by
  induction l generalizing k with
  | nil => intro cs R; exact ⟨[], cs, rfl, rfl⟩
  | cons q l ih =>
    intro cs R
    simp only [List.map_cons, List.zipIdx_cons, List.flatMap_cons, List.append_assoc]
    have hk : (k + 1 == 0) = false := rfl
    simp only [hk, Bool.false_eq_true, if_false, List.cons_append, List.nil_append, tw_glue]
    obtain ⟨c, cs1, hc, e1⟩ := tw_optComma false cs (.sp :: (q.1 ++ ((((l.map (·.1)).zipIdx (k + 1 + 1)).flatMap
      fun (x, i) => (if i == 0 then [] else [Item.glue, .optComma, .sp]) ++ x) ++ R)))
    obtain ⟨T2, cs2, hT2, e2⟩ := ih (fun q' hq' => h q' (by simp [hq'])) (k + 1) cs1 R
    refine ⟨c ++ (q.2 ++ T2), cs2, ⟨c, T2, hc, hT2, rfl⟩, ?_⟩
    rw [e1, tw_sp, h q (by simp) cs1, e2]
    simp only [List.append_assoc]

theorem emits_commaSep (l : List (List Item × Toks)) (h : ∀ q ∈ l, EmitsL false q.1 q.2 false) :
    EmitsR false (commaSep (l.map (·.1))) (SepShape (l.map fun q => (fun T => T = q.2))) false := by
  unfold commaSep
  cases l with
  | nil => intro cs R; exact ⟨[], cs, rfl, rfl⟩
  | cons q l =>
    intro cs R
    simp only [List.map_cons, List.zipIdx_cons, List.flatMap_cons, List.append_assoc, beq_self_eq_true, if_true, List.nil_append]
    obtain ⟨T2, cs2, hT2, e2⟩ := emits_commaSep_tail l (fun q' hq' => h q' (by simp [hq'])) 0 (cs) R
    refine ⟨q.2 ++ T2, cs2, ?_, ?_⟩
    · have := sepShape_of_pre (l.map (·.2)) q.2 T2 hT2
      simpa [List.map_map, Function.comp_def] using this
    · rw [h q (by simp) cs, e2, List.append_assoc]

theorem zipIdx_map_fst {α β : Type} (g : α → β) (xs : List α) (k : Nat) :
    (xs.zipIdx k).map (fun p => g p.1) = xs.map g := by
  induction xs generalizing k with
  | nil => rfl
  | cons x xs ih => simp only [List.zipIdx_cons, List.map_cons, ih]

/-- a comma-separated list of printed elements `F (x, i)` whose tokens are `g x` -/
theorem emits_commaSep_map {α : Type} (xs : List α) (F : α × Nat → List Item) (g : α → Toks)
    (h : ∀ x ∈ xs, ∀ i, EmitsL false (F (x, i)) (g x) false) :
    EmitsR false (commaSep (xs.zipIdx.map F)) (SepShape (xs.map fun x => (fun T => T = g x))) false := by
  have := emits_commaSep (xs.zipIdx.map fun p => (F p, g p.1)) (by
    intro q hq
    obtain ⟨p, hp, rfl⟩ := List.mem_map.mp hq
    obtain ⟨x, i⟩ := p
    exact h x (List.fst_mem_of_mem_zipIdx hp) i)
  simp only [List.map_map, Function.comp_def] at this
  rw [zipIdx_map_fst (fun x => (fun T => T = g x)) xs 0] at this
  exact this

/-- `{ member ","? member ","? … }` -/
theorem emits_membersBlock (l : List (List Item × Shape)) (h : ∀ q ∈ l, EmitsR false q.1 q.2 false) :
    EmitsR false (membersBlock (l.map (·.1)))
      (fun T => ∃ T', SepShape (l.map (·.2)) T' ∧ T = .lbrace :: (T' ++ [.rbrace])) false := by
  unfold membersBlock
  have hbody : EmitsR false ((l.map (·.1)).flatMap fun m => [Item.nl 1] ++ m ++ [.glue, .optComma]) (SepShape (l.map (·.2))) false := by
    induction l with
    | nil => intro cs R; exact ⟨[], cs, rfl, rfl⟩
    | cons q l ih =>
      intro cs R
      simp only [List.map_cons, List.flatMap_cons, List.append_assoc, List.cons_append, List.nil_append, tw_nl]
      obtain ⟨T1, cs1, hT1, e1⟩ := h q (by simp) cs (.glue :: .optComma :: (((l.map (·.1)).flatMap fun m => [Item.nl 1] ++ m ++ [.glue, .optComma]) ++ R))
      obtain ⟨c, cs2, hc, e2⟩ := tw_optComma false cs1 ((((l.map (·.1)).flatMap fun m => [Item.nl 1] ++ m ++ [.glue, .optComma]) ++ R))
      obtain ⟨T2, cs3, hT2, e3⟩ := ih (fun q' hq' => h q' (by simp [hq'])) cs2 R
      refine ⟨T1 ++ (c ++ T2), cs3, ⟨T1, c, T2, hT1, hc, hT2, rfl⟩, ?_⟩
      simp only [List.cons_append, List.nil_append, List.append_assoc] at e1 e2 e3 ⊢
      rw [e1, tw_glue, e2, e3]
  intro cs R
  simp only [List.append_assoc, List.cons_append, List.nil_append, tw_sp, tw_lbrace]
  obtain ⟨T', cs', hT', e⟩ := hbody cs (.nl 0 :: .tok "}" :: R)
  refine ⟨.lbrace :: (T' ++ [.rbrace]), cs', ⟨T', hT', rfl⟩, ?_⟩
  simp only [List.cons_append, List.nil_append, List.append_assoc] at e ⊢
  rw [e, tw_nl, tw_rbrace]

theorem emits_membersBlock_map {α : Type} (xs : List α) (F : α × Nat → List Item) (S : α → Shape)
    (h : ∀ x ∈ xs, ∀ i, EmitsR false (F (x, i)) (S x) false) :
    EmitsR false (membersBlock (xs.zipIdx.map F))
      (fun T => ∃ T', SepShape (xs.map S) T' ∧ T = .lbrace :: (T' ++ [.rbrace])) false := by
  have := emits_membersBlock (xs.zipIdx.map fun p => (F p, S p.1)) (by
    intro q hq
    obtain ⟨p, hp, rfl⟩ := List.mem_map.mp hq
    obtain ⟨x, i⟩ := p
    exact h x (List.fst_mem_of_mem_zipIdx hp) i)
  simp only [List.map_map, Function.comp_def] at this
  rw [zipIdx_map_fst S xs 0] at this
  exact this


/-! ## operations -/

theorem emits_ret (path : String) (r : Ret) (h : retOk r = true) : EmitsR false (retItems path r) (RetSh r) false := by
  cases r with
  | none => intro cs R; exact ⟨[], cs, rfl, rfl⟩
  | single tag stream ty =>
    simp only [retOk, Bool.and_eq_true] at h
    refine (?_ : EmitsL false _ (.arrow :: (tagToks tag ++ (streamToks stream ++ trefToks ty))) false).toR
    intro cs R
    simp only [retItems, List.append_assoc, List.cons_append, List.nil_append, tw_sp, tw_arrow, tw_op]
    rw [emits_tag _ tag h.1 cs, emits_stream, emits_tref _ ty h.2 cs]
    simp only [tw_cl, List.append_assoc, List.cons_append, List.nil_append]
  | tuple ps =>
    simp only [retOk] at h
    rw [List.all_eq_true] at h
    intro cs R
    simp only [retItems, List.append_assoc, List.cons_append, List.nil_append, tw_sp, tw_arrow, tw_lparen, tw_glue]
    obtain ⟨Tp, cs', hTp, e⟩ := emits_commaSep_map ps (fun (p, i) => paramItems (path ++ ".r" ++ toString i) p) paramToks
      (fun p hp i => emits_param _ p (h p hp)) cs (.glue :: .tok ")" :: R)
    refine ⟨.arrow :: .lparen :: (Tp ++ [.rparen]), cs', ⟨Tp, hTp, rfl⟩, ?_⟩
    rw [e, tw_glue, tw_rparen]
    simp only [List.append_assoc, List.cons_append, List.nil_append]

theorem emits_flag (b : Bool) (kw kind : String)
    (h : toksOf (lexRun false kw.toList).items = [.kw kind] ∧ (lexRun false kw.toList).attr = false)
    (cs : List Bool) (r : List Item) :
    tokensWith false cs ((if b then [Item.tok kw, .sp] else []) ++ r) = flagToks b kind ++ tokensWith false cs r := by
  cases b <;> simp [flagToks, tw_kw kw kind h, tw_sp]

theorem emits_op (path : String) (o : Op) (h : opOk o = true) (h2 : docRT o.doc = true) :
    EmitsR false (opItems path o) (OpSh o) false := by
  simp only [opOk, Bool.and_eq_true] at h
  obtain ⟨⟨⟨⟨hdoc, hattrs⟩, _⟩, hparams⟩, hret⟩ := h
  rw [List.all_eq_true] at hparams
  intro cs R
  simp only [opItems, List.append_assoc]
  rw [emits_doc o.doc 1 hdoc h2 false cs, emits_localAttrs path o.attrs _ hattrs (Or.inr ⟨1, rfl⟩) cs]
  simp only [List.cons_append, List.nil_append, tw_op]
  rw [emits_flag o.idempotent "idempotent" "IdempotentKeyword" (by decide), emits_ident path o.name false cs]
  simp only [List.cons_append, List.nil_append, tw_glue, tw_lparen]
  obtain ⟨Tp, cs1, hTp, e1⟩ := emits_commaSep_map o.params (fun (p, i) => paramItems (path ++ ".p" ++ toString i) p) paramToks
    (fun p hp i => emits_param _ p (hparams p hp)) cs (.glue :: .tok ")" :: (retItems path o.ret ++ .cl path :: R))
  obtain ⟨Tr, cs2, hTr, e2⟩ := emits_ret path o.ret hret cs1 (.cl path :: R)
  refine ⟨_, cs2, ⟨Tp, Tr, hTp, hTr, rfl⟩, ?_⟩
  rw [e1, tw_glue, tw_rparen, e2, tw_cl]
  simp only [List.append_assoc, List.cons_append, List.nil_append, idemToks, flagToks]

/-! ## enumerators -/

/-- the items of `= value` -/
def valueItems (path : String) : Option IntLit → List Item
  | none => []
  | some l => [Item.sp, .tok "=", .sp, .op (path ++ ".val")] ++ (if l.neg then [.tok "-", .glue] else []) ++
      [.tok l.magText, .cl (path ++ ".val")]

theorem emits_value (path : String) (v : Option IntLit)
    (hval : (match (generalizing := false) v with | none => true | some l => intLitOk l) = true) :
    EmitsL false (valueItems path v) (valueToks v) false := by
  intro cs R
  cases v with
  | none => rfl
  | some l =>
    simp only [] at hval
    simp only [valueItems, valueToks, List.append_assoc, List.cons_append, List.nil_append, tw_sp, tw_equals, tw_op]
    rw [emits_minus_int l hval]
    simp only [tw_cl]

/-- the items of `( fields )` -/
def enumFieldsItems (path : String) : Option (List Field) → List Item
  | none => []
  | some fs => [Item.glue, .tok "(", .glue] ++
      commaSep (fs.zipIdx.map fun (f, i) => fieldItems (path ++ ".f" ++ toString i) 1 true f) ++ [.glue, .tok ")"]

theorem enumeratorItems_eq (path : String) (e : Enumerator) :
    enumeratorItems path e = docItems e.doc 1 ++ localAttrs path e.attrs (.nl 1) ++ [.op path] ++ identItems path e.name ++
      enumFieldsItems path e.fields ++ valueItems path e.value ++ [.cl path] := by
  obtain ⟨doc, attrs, name, fields, value⟩ := e
  cases fields <;> cases value <;> rfl

theorem emits_enumFields (path : String) (fields : Option (List Field))
    (h : (match (generalizing := false) fields with | none => true | some fs => fs.all fieldOk) = true)
    (h2 : (match (generalizing := false) fields with | none => true | some fs => fs.all fieldRT) = true) :
    EmitsR false (enumFieldsItems path fields) (EnumFieldsSh fields) false := by
  cases fields with
  | none => intro cs R; exact ⟨[], cs, rfl, rfl⟩
  | some fs =>
    simp only [] at h h2
    rw [List.all_eq_true] at h h2
    intro cs R
    obtain ⟨Tf, cs1, hTf, e1⟩ := emits_commaSep_map fs (fun (f, i) => fieldItems (path ++ ".f" ++ toString i) 1 true f) fieldToks
      (fun f hf' i => emits_field _ 1 true f (h f hf') (by
        have := h2 f hf'
        simp only [fieldRT, Bool.and_eq_true] at this
        exact this.1.1.1)) cs (.glue :: .tok ")" :: R)
    refine ⟨.lparen :: (Tf ++ [.rparen]), cs1, ⟨Tf, hTf, rfl⟩, ?_⟩
    simp only [enumFieldsItems, List.append_assoc, List.cons_append, List.nil_append, tw_glue, tw_lparen] at e1 ⊢
    rw [e1, tw_rparen]

theorem emits_enumerator (path : String) (e : Enumerator) (h : enumeratorOk e = true) (h2 : enumeratorRT e = true) :
    EmitsR false (enumeratorItems path e) (EnumeratorSh e) false := by
  simp only [enumeratorOk, Bool.and_eq_true] at h
  obtain ⟨⟨⟨⟨hdoc, hattrs⟩, _⟩, hfields⟩, hval⟩ := h
  simp only [enumeratorRT, Bool.and_eq_true] at h2
  obtain ⟨⟨⟨h2doc, _⟩, h2fields⟩, _⟩ := h2
  intro cs R
  rw [enumeratorItems_eq]
  simp only [List.append_assoc]
  rw [emits_doc e.doc 1 hdoc h2doc false cs, emits_localAttrs path e.attrs _ hattrs (Or.inr ⟨1, rfl⟩) cs]
  simp only [List.cons_append, List.nil_append, tw_op]
  rw [emits_ident path e.name false cs]
  obtain ⟨Tf, cs1, hTf, e1⟩ := emits_enumFields path e.fields hfields h2fields cs (valueItems path e.value ++ (.cl path :: R))
  refine ⟨_, cs1, ⟨Tf, hTf, rfl⟩, ?_⟩
  rw [e1, emits_value path e.value hval cs1, tw_cl]
  simp only [List.append_assoc, List.cons_append, List.nil_append]

/-! ## definitions -/

theorem emitsR_flatMap_zipIdx {α : Type} (f : α × Nat → List Item) (S : α → Shape) (xs : List α) (k : Nat)
    (h : ∀ x ∈ xs, ∀ i, EmitsR false (f (x, i)) (S x) false) :
    EmitsR false ((xs.zipIdx k).flatMap f) (CatShape (xs.map S)) false := by
  induction xs generalizing k with
  | nil => intro cs R; exact ⟨[], cs, rfl, rfl⟩
  | cons x xs ih =>
    intro cs R
    rw [List.zipIdx_cons, List.flatMap_cons, List.append_assoc]
    obtain ⟨T1, cs1, hT1, e1⟩ := h x (by simp) k cs (((xs.zipIdx (k + 1)).flatMap f) ++ R)
    obtain ⟨T2, cs2, hT2, e2⟩ := ih (k + 1) (fun y hy => h y (by simp [hy])) cs1 R
    exact ⟨T1 ++ T2, cs2, ⟨T1, T2, hT1, hT2, rfl⟩, by rw [e1, e2, List.append_assoc]⟩

/-- the items of `: base, base` -/
def basesItems (path : String) (bases : List TRef) : List Item :=
  if bases.isEmpty then [] else [Item.sp, .tok ":", .sp] ++
    (bases.zipIdx.flatMap fun (b, i) => (if i == 0 then [] else [Item.glue, .tok ",", .sp]) ++ trefItems (path ++ ".b" ++ toString i) b)

theorem emits_bases (path : String) (bases : List TRef) (h : bases.all trefOk = true) :
    EmitsL false (basesItems path bases) (basesToks bases) false := by
  cases bases with
  | nil => exact EmitsL.nil false
  | cons b bs =>
    simp only [List.all_cons, Bool.and_eq_true] at h
    have hbs := h.2
    rw [List.all_eq_true] at hbs
    intro cs R
    simp only [basesItems, basesToks, List.isEmpty_cons, Bool.false_eq_true, if_false, List.zipIdx_cons, List.flatMap_cons,
      beq_self_eq_true, if_true, List.nil_append, List.cons_append, List.append_assoc, tw_sp, tw_colon]
    rw [emits_tref _ b h.1 cs]
    have htail := emitsL_flatMap_zipIdx (fun (p : TRef × Nat) =>
        (if p.2 == 0 then [] else [Item.glue, .tok ",", .sp]) ++ trefItems (path ++ ".b" ++ toString p.2) p.1)
      (fun t => .comma :: trefToks t) false bs (0 + 1) (by
        intro t ht i hi cs' R'
        have hi0 : (i == 0) = false := by cases i with | zero => omega | succ n => rfl
        simp only [hi0, Bool.false_eq_true, if_false, List.cons_append, List.nil_append, List.append_assoc, tw_glue, tw_comma, tw_sp]
        rw [emits_tref _ t (hbs t ht) cs'])
    rw [htail cs R]

/-- the items of `: underlying` -/
def underlyingItems (path : String) : Option TRef → List Item
  | none => []
  | some u => [Item.sp, .tok ":", .sp] ++ trefItems (path ++ ".u") u

theorem emits_underlying (path : String) (u : Option TRef)
    (h : (match (generalizing := false) u with | none => true | some t => trefOk t) = true) :
    EmitsL false (underlyingItems path u) (underlyingToks u) false := by
  cases u with
  | none => exact EmitsL.nil false
  | some t =>
    simp only [] at h
    intro cs R
    simp only [underlyingItems, underlyingToks, List.cons_append, List.nil_append, List.append_assoc, tw_sp, tw_colon]
    rw [emits_tref _ t h cs]

theorem defItems_eq (path : String) (d : Def) : defItems path d =
    match d with
    | .struct doc attrs compact name fields =>
      docItems doc 0 ++ localAttrs path attrs (.nl 0) ++
      [.op path] ++ (if compact then [.tok "compact", .sp] else []) ++ [.tok "struct", .sp] ++ identItems path name ++ [.cl path] ++
      membersBlock (fields.zipIdx.map fun (f, i) => fieldItems (path ++ ".f" ++ toString i) 1 false f)
    | .iface doc attrs name bases ops =>
      docItems doc 0 ++ localAttrs path attrs (.nl 0) ++
      [.op path, .tok "interface", .sp] ++ identItems path name ++ [.cl path] ++ basesItems path bases ++
      [.sp, .tok "{"] ++ (ops.zipIdx.flatMap fun (o, i) => [.nl 1] ++ opItems (path ++ ".o" ++ toString i) o) ++ [.nl 0, .tok "}"]
    | .enum doc attrs compact unchecked name underlying es =>
      docItems doc 0 ++ localAttrs path attrs (.nl 0) ++
      [.op path] ++ (if compact then [.tok "compact", .sp] else []) ++ (if unchecked then [.tok "unchecked", .sp] else []) ++
      [.tok "enum", .sp] ++ identItems path name ++ [.cl path] ++ underlyingItems path underlying ++
      membersBlock (es.zipIdx.map fun (e, i) => enumeratorItems (path ++ ".e" ++ toString i) e)
    | .custom doc attrs name =>
      docItems doc 0 ++ localAttrs path attrs (.nl 0) ++ [.op path, .tok "custom", .sp] ++ identItems path name ++ [.cl path]
    | .alias doc attrs name ty =>
      docItems doc 0 ++ localAttrs path attrs (.nl 0) ++ [.op path, .tok "typealias", .sp] ++ identItems path name ++ [.cl path] ++
      [.sp, .tok "=", .sp] ++ trefItems (path ++ ".t") ty := by
  cases d with
  | enum doc attrs compact unchecked name underlying es => cases underlying <;> rfl
  | _ => rfl

theorem emits_def (path : String) (d : Def) (h : defOk d = true) (h2 : defRT d = true) :
    EmitsR false (defItems path d) (DefSh d) false := by
  rw [defItems_eq]
  cases d with
  | struct doc attrs compact name fields =>
    simp only [defOk, Bool.and_eq_true] at h
    obtain ⟨⟨⟨hdoc, hattrs⟩, _⟩, hfields⟩ := h
    simp only [defRT, Bool.and_eq_true] at h2
    rw [List.all_eq_true] at hfields
    have h2f := h2.2
    rw [List.all_eq_true] at h2f
    intro cs R
    simp only [List.append_assoc]
    rw [emits_doc doc 0 hdoc h2.1.1 false cs, emits_localAttrs path attrs _ hattrs (Or.inr ⟨0, rfl⟩) cs]
    simp only [List.cons_append, List.nil_append, tw_op]
    rw [emits_flag compact "compact" "CompactKeyword" (by decide)]
    simp only [tw_struct, tw_sp]
    rw [emits_ident path name false cs]
    simp only [List.cons_append, List.nil_append, tw_cl]
    obtain ⟨T, cs1, ⟨Tf, hTf, rfl⟩, e1⟩ := emits_membersBlock_map fields
      (fun (f, i) => fieldItems (path ++ ".f" ++ toString i) 1 false f) (fun f => (fun T => T = fieldToks f))
      (fun f hf i => (emits_field _ 1 false f (hfields f hf) (by
        have := h2f f hf
        simp only [fieldRT, Bool.and_eq_true] at this
        exact this.1.1.1)).toR) cs R
    refine ⟨_, cs1, ⟨Tf, hTf, rfl⟩, ?_⟩
    rw [e1]
    simp only [List.append_assoc, List.cons_append, List.nil_append]
  | iface doc attrs name bases ops =>
    simp only [defOk, Bool.and_eq_true] at h
    obtain ⟨⟨⟨⟨hdoc, hattrs⟩, _⟩, hbases⟩, hops⟩ := h
    simp only [defRT, Bool.and_eq_true] at h2
    rw [List.all_eq_true] at hops
    have h2o := h2.2
    rw [List.all_eq_true] at h2o
    intro cs R
    simp only [List.append_assoc]
    rw [emits_doc doc 0 hdoc h2.1.1.1 false cs, emits_localAttrs path attrs _ hattrs (Or.inr ⟨0, rfl⟩) cs]
    simp only [List.cons_append, List.nil_append, tw_op, tw_interface, tw_sp]
    rw [emits_ident path name false cs]
    simp only [List.cons_append, List.nil_append, tw_cl]
    rw [emits_bases path bases hbases cs]
    simp only [tw_sp, tw_lbrace]
    obtain ⟨To, cs1, hTo, e1⟩ := emitsR_flatMap_zipIdx (fun (o, i) => [Item.nl 1] ++ opItems (path ++ ".o" ++ toString i) o) OpSh ops 0
      (fun o ho i cs' R' => by
        obtain ⟨T, cs2, hT, e⟩ := emits_op (path ++ ".o" ++ toString i) o (hops o ho) (by
          have := h2o o ho
          simp only [opRT, Bool.and_eq_true] at this
          exact this.1.1.1) cs' R'
        exact ⟨T, cs2, hT, by simp only [List.cons_append, List.nil_append, tw_nl]; exact e⟩) cs (.nl 0 :: .tok "}" :: R)
    refine ⟨_, cs1, ⟨To, hTo, rfl⟩, ?_⟩
    simp only [List.cons_append, List.nil_append, List.append_assoc] at e1
    rw [e1, tw_nl, tw_rbrace]
    simp only [List.append_assoc, List.cons_append, List.nil_append]
  | enum doc attrs compact unchecked name underlying es =>
    simp only [defOk, Bool.and_eq_true] at h
    obtain ⟨⟨⟨⟨hdoc, hattrs⟩, _⟩, hund⟩, hes⟩ := h
    simp only [defRT, Bool.and_eq_true] at h2
    rw [List.all_eq_true] at hes
    have h2e := h2.2
    rw [List.all_eq_true] at h2e
    intro cs R
    simp only [List.append_assoc]
    rw [emits_doc doc 0 hdoc h2.1.1.1 false cs, emits_localAttrs path attrs _ hattrs (Or.inr ⟨0, rfl⟩) cs]
    simp only [List.cons_append, List.nil_append, tw_op]
    rw [emits_flag compact "compact" "CompactKeyword" (by decide), emits_flag unchecked "unchecked" "UncheckedKeyword" (by decide)]
    simp only [tw_enum, tw_sp]
    rw [emits_ident path name false cs]
    simp only [List.cons_append, List.nil_append, tw_cl]
    rw [emits_underlying path underlying hund cs]
    obtain ⟨T, cs1, ⟨Te, hTe, rfl⟩, e1⟩ := emits_membersBlock_map es
      (fun (e, i) => enumeratorItems (path ++ ".e" ++ toString i) e) EnumeratorSh
      (fun e he i => emits_enumerator _ e (hes e he) (h2e e he)) cs R
    refine ⟨_, cs1, ⟨Te, hTe, rfl⟩, ?_⟩
    rw [e1]
    simp only [List.append_assoc, List.cons_append, List.nil_append]
  | custom doc attrs name =>
    simp only [defOk, Bool.and_eq_true] at h
    obtain ⟨⟨hdoc, hattrs⟩, _⟩ := h
    simp only [defRT, Bool.and_eq_true] at h2
    refine (?_ : EmitsL false _ (docToks doc ++ localAttrsToks attrs ++ [.kw "CustomKeyword", .ident name.toList]) false).toR
    intro cs R
    simp only [List.append_assoc]
    rw [emits_doc doc 0 hdoc h2.1 false cs, emits_localAttrs path attrs _ hattrs (Or.inr ⟨0, rfl⟩) cs]
    simp only [List.cons_append, List.nil_append, tw_op, tw_custom, tw_sp]
    rw [emits_ident path name false cs]
    simp only [List.cons_append, List.nil_append, tw_cl]
  | alias doc attrs name ty =>
    simp only [defOk, Bool.and_eq_true] at h
    obtain ⟨⟨⟨hdoc, hattrs⟩, _⟩, hty⟩ := h
    simp only [defRT, Bool.and_eq_true] at h2
    refine (?_ : EmitsL false _ (docToks doc ++ localAttrsToks attrs ++
      (.kw "TypeAliasKeyword" :: .ident name.toList :: .equals :: trefToks ty)) false).toR
    intro cs R
    simp only [List.append_assoc]
    rw [emits_doc doc 0 hdoc h2.1.1 false cs, emits_localAttrs path attrs _ hattrs (Or.inr ⟨0, rfl⟩) cs]
    simp only [List.cons_append, List.nil_append, tw_op, tw_typealias, tw_sp]
    rw [emits_ident path name false cs]
    simp only [List.cons_append, List.nil_append, tw_cl, tw_sp, tw_equals]
    rw [emits_tref _ ty hty cs]

/-! ## the file -/

/-- the items of the module declaration -/
def moduleItems : Option ModDecl → List Item
  | none => []
  | some m => localAttrs "mod" m.attrs (.nl 0) ++
      [.op "mod", .tok "module", .sp, .op "mod.id", .tok (escapeScoped m.path), .cl "mod.id", .cl "mod", .nl 0]

theorem fileItems_eq (f : SFile) : fileItems f =
    (f.fileAttrs.zipIdx.flatMap fun (a, i) => [.tok "[[", .glue] ++ attrItems ("fa" ++ toString i) a ++ [.glue, .tok "]]", .nl 0]) ++
    moduleItems f.module ++
    (f.defs.zipIdx.flatMap fun (d, i) => [.nl 0] ++ defItems ("d" ++ toString i) d ++ [.nl 0]) := by
  obtain ⟨fa, m, ds⟩ := f
  cases m <;> rfl

theorem emits_module (m : Option ModDecl)
    (h : (match (generalizing := false) m with
      | none => true
      | some m => m.attrs.all attrOk && nameTextOk false (escapeScoped m.path).toList) = true) :
    EmitsL false (moduleItems m) (moduleToks m) false := by
  cases m with
  | none => exact EmitsL.nil false
  | some md =>
    simp only [Bool.and_eq_true] at h
    intro cs R
    simp only [moduleItems, moduleToks, List.append_assoc]
    rw [emits_localAttrs "mod" md.attrs _ h.1 (Or.inr ⟨0, rfl⟩) cs]
    simp only [List.cons_append, List.nil_append, tw_op, tw_module, tw_sp, tw_name false _ h.2, tw_cl, tw_nl, nameToks,
      List.append_assoc]

/-- **Stage 1: the token sequence of a printed file has the file's shape**, for every choice of the optional commas. -/
theorem fileSh_tokensWith (f : SFile) (h : fileOk f = true) (h2 : fileRT f = true) (cs : List Bool) :
    FileSh f (tokensWith false cs (fileItems f)) := by
  simp only [fileOk, Bool.and_eq_true] at h
  obtain ⟨⟨hfa, hmod⟩, hdefs⟩ := h
  simp only [fileRT, Bool.and_eq_true] at h2
  rw [List.all_eq_true] at hfa hdefs
  have h2d := h2.2
  rw [List.all_eq_true] at h2d
  have hfaE : EmitsL false (f.fileAttrs.zipIdx.flatMap fun (a, i) =>
      [Item.tok "[[", .glue] ++ attrItems ("fa" ++ toString i) a ++ [.glue, .tok "]]", .nl 0]) (fileAttrsToks f.fileAttrs) false := by
    unfold fileAttrsToks
    refine emitsL_flatMap_zipIdx _ _ false f.fileAttrs 0 ?_
    intro a ha i _ cs' R'
    simp only [List.append_assoc, List.cons_append, List.nil_append, tw_dlbracket, tw_glue]
    rw [emits_attr _ a (hfa a ha) cs']
    simp only [tw_glue, tw_drbracket, tw_nl, List.append_assoc, List.cons_append, List.nil_append]
  obtain ⟨Td, cs1, hTd, e1⟩ := emitsR_flatMap_zipIdx (fun (d, i) => [Item.nl 0] ++ defItems ("d" ++ toString i) d ++ [.nl 0]) DefSh f.defs 0
    (fun d hd i cs' R' => by
      obtain ⟨T, cs2, hT, e⟩ := emits_def ("d" ++ toString i) d (hdefs d hd) (h2d d hd) cs' (.nl 0 :: R')
      exact ⟨T, cs2, hT, by simp only [List.cons_append, List.nil_append, List.append_assoc, tw_nl] at e ⊢; exact e⟩) cs []
  refine ⟨Td, hTd, ?_⟩
  rw [fileItems_eq]
  have := hfaE cs (moduleItems f.module ++ (f.defs.zipIdx.flatMap fun (d, i) => [Item.nl 0] ++ defItems ("d" ++ toString i) d ++ [.nl 0]))
  rw [List.append_assoc, this, emits_module f.module hmod cs]
  rw [List.append_nil] at e1
  rw [e1]
  cases cs1 <;> simp [tokensWith]


end Slicec.SPar
