/-
  C16 — the doc-comment round trip: lexer lemmas per kind of rendered line, grammar lemmas for the token stream of a
  rendered comment, the sanitizer on rendered lines, and the assembled statement `parseCommentG_render`.
  (`Props/C16.comment_roundtrip*` are its instances for the code's sanitizer.)
-/
import SlicecVerif.Lemmas.Comment

namespace Slicec
open Gen (TagKw)

/-! ## the line lexer does not depend on its fuel -/

theorem length_dropWhile_le' (p : Char → Bool) (l : Str) : (l.dropWhile p).length ≤ l.length :=
  (List.dropWhile_suffix p).length_le

theorem lexMessage_rest_length (x : Char) (xs : Str) : (lexMessage (x :: xs)).2.2.length ≤ xs.length := by
  unfold lexMessage
  split
  · rename_i rest heq
    simp only [List.cons.injEq] at heq
    obtain ⟨_, rfl⟩ := heq
    have h1 := length_dropWhile_le' isWsC xs
    have h2 := length_dropWhile_le' (· != '{') (xs.dropWhile isWsC)
    simp only []
    split
    · simpa using h1
    · simp only
      omega
  · rename_i hne
    have hx : (x != '{') = true := by
      cases hx : x == '{' with
      | false => simp [bne, hx]
      | true => exact absurd (by rw [eq_of_beq hx]) (hne xs)
    simp only [List.dropWhile_cons, hx, if_true]
    exact length_dropWhile_le' _ xs

theorem isAlpha_isIdChar {c : Char} (h : c.isAlpha = true) : isIdCharC c = true := by
  simp [isIdCharC, Char.isAlphanum, h]

theorem lexTagComponent_rest_length (mode : LMode) (x : Char) (xs : Str) (t : CTok) (m : LMode) (rest : Str)
    (h : lexTagComponent mode (x :: xs) = .tok t m rest) : rest.length ≤ xs.length := by
  unfold lexTagComponent at h
  have hlen := length_dropWhile_le' isWsC (x :: xs)
  split at h
  · simp at h
  · rename_i r hd
    rw [hd] at hlen
    have h2 := length_dropWhile_le' isIdCharC r
    unfold readTagKeyword at h
    simp only at h
    split at h
    · rename_i heq
      split at heq <;> (split at heq <;> simp at heq) <;> (simp at h; obtain ⟨_, _, rfl⟩ := h; obtain ⟨_, rfl⟩ := heq; simp at hlen; omega)
    · simp at h
  · rename_i r hd
    rw [hd] at hlen
    simp at h; obtain ⟨_, _, rfl⟩ := h
    simp at hlen; omega
  · rename_i r _ hd
    rw [hd] at hlen
    simp at h; obtain ⟨_, _, rfl⟩ := h
    simp at hlen; omega
  · rename_i r hd
    rw [hd] at hlen
    simp at h; obtain ⟨_, _, rfl⟩ := h
    simp at hlen; omega
  · rename_i c r _ _ _ _ hd
    rw [hd] at hlen
    split at h
    · rename_i hc
      simp at h; obtain ⟨_, _, rfl⟩ := h
      have h2 := length_dropWhile_le' isIdCharC r
      simp only [List.dropWhile_cons, isAlpha_isIdChar hc, if_true]
      simp at hlen; omega
    · simp at h

theorem lexLine_message_step (f : Nat) (x : Char) (xs : Str) (t : CTok) (m : LMode) (rest : Str)
    (h : lexMessage (x :: xs) = (t, m, rest)) : lexLine (f + 1) .message (x :: xs) = (lexLine f m rest).cons t := by
  rw [lexLine]; simp only [h]

theorem lexLine_tag_step (f : Nat) (mode : LMode) (hm : mode ≠ .message) (x : Char) (xs : Str) :
    lexLine (f + 1) mode (x :: xs) =
      match lexTagComponent mode (x :: xs) with
      | .eol => lexLine f mode []
      | .tok t m rest => (lexLine f m rest).cons t
      | .err e => ⟨[], some e⟩ := by
  cases mode with
  | message => exact absurd rfl hm
  | blockTag => rw [lexLine]; all_goals first | rfl | (intro h; cases h)
  | inlineTag => rw [lexLine]; all_goals first | rfl | (intro h; cases h)

theorem lexLine_fuel (n : Nat) : ∀ (cs : Str) (m : LMode) (f1 f2 : Nat), cs.length ≤ n → cs.length + 2 ≤ f1 → cs.length + 2 ≤ f2 →
    lexLine f1 m cs = lexLine f2 m cs := by
  induction n with
  | zero =>
    intro cs m f1 f2 hn h1 h2
    have : cs = [] := List.eq_nil_of_length_eq_zero (by omega)
    subst this
    obtain ⟨a, rfl⟩ : ∃ a, f1 = a + 1 := ⟨f1 - 1, by omega⟩
    obtain ⟨b, rfl⟩ : ∃ b, f2 = b + 1 := ⟨f2 - 1, by omega⟩
    simp [lexLine]
  | succ n ih =>
    intro cs m f1 f2 hn h1 h2
    obtain ⟨a, rfl⟩ : ∃ a, f1 = a + 1 := ⟨f1 - 1, by omega⟩
    obtain ⟨b, rfl⟩ : ∃ b, f2 = b + 1 := ⟨f2 - 1, by omega⟩
    cases cs with
    | nil => simp [lexLine]
    | cons x xs =>
      simp only [List.length_cons] at hn h1 h2
      by_cases hm : m = .message
      · subst hm
        have hl := lexMessage_rest_length x xs
        obtain ⟨t, m', rest, hlm⟩ : ∃ t m' rest, lexMessage (x :: xs) = (t, m', rest) := ⟨_, _, _, rfl⟩
        rw [hlm] at hl
        simp only at hl
        rw [lexLine_message_step _ _ _ _ _ _ hlm, lexLine_message_step _ _ _ _ _ _ hlm,
          ih _ _ a b (by omega) (by omega) (by omega)]
      · rw [lexLine_tag_step _ _ hm, lexLine_tag_step _ _ hm]
        cases hc : lexTagComponent m (x :: xs) with
        | eol => simp only []; exact ih _ _ a b (by simp) (by simp; omega) (by simp; omega)
        | err e => rfl
        | tok t m' rest =>
          have hl := lexTagComponent_rest_length _ _ _ _ _ _ hc
          simp only []
          rw [ih _ _ a b (by omega) (by omega) (by omega)]

/-- the line lexer with the fuel it needs -/
def lexL (m : LMode) (cs : Str) : LexOut := lexLine (cs.length + 2) m cs

theorem lexLine_eq_lexL (f : Nat) (m : LMode) (cs : Str) (h : cs.length + 2 ≤ f) : lexLine f m cs = lexL m cs :=
  lexLine_fuel cs.length cs m f _ (Nat.le_refl _) h (Nat.le_refl _)

theorem lexOneLine_eq (l : Str) : lexOneLine l = lexL (startMode l) l := rfl

theorem lexL_nil_message : lexL .message [] = ⟨[.newline], none⟩ := rfl
theorem lexL_nil_blockTag : lexL .blockTag [] = ⟨[.newline], none⟩ := rfl

theorem lexL_message_cons (x : Char) (xs : Str) (t : CTok) (m : LMode) (rest : Str) (h : lexMessage (x :: xs) = (t, m, rest)) :
    lexL .message (x :: xs) = (lexL m rest).cons t := by
  have hl := lexMessage_rest_length x xs
  rw [h] at hl
  simp only at hl
  unfold lexL
  rw [List.length_cons, lexLine_message_step _ _ _ _ _ _ h, lexLine_eq_lexL _ _ _ (by omega)]
  rfl

theorem lexL_tag_tok (mode : LMode) (hm : mode ≠ .message) (cs : Str) (t : CTok) (m : LMode) (rest : Str)
    (h : lexTagComponent mode cs = .tok t m rest) : lexL mode cs = (lexL m rest).cons t := by
  cases cs with
  | nil => simp [lexTagComponent] at h
  | cons x xs =>
    have hl := lexTagComponent_rest_length _ _ _ _ _ _ h
    unfold lexL
    rw [List.length_cons, lexLine_tag_step _ _ hm, h]
    simp only []
    rw [lexLine_eq_lexL _ _ _ (by omega)]
    rfl

/-- tokens put in front of a lexer result -/
def LexOut.pre (ts : List CTok) (o : LexOut) : LexOut := ⟨ts ++ o.toks, o.err⟩

theorem LexOut.cons_eq_pre (t : CTok) (o : LexOut) : o.cons t = o.pre [t] := rfl
theorem LexOut.pre_pre (a b : List CTok) (o : LexOut) : (o.pre b).pre a = o.pre (a ++ b) := by simp [LexOut.pre]
theorem LexOut.pre_nil (o : LexOut) : o.pre [] = o := rfl

/-! ## character classes -/

theorem isAlpha_range {c : Char} (h : c.isAlpha = true) : 65 ≤ c.toNat ∧ c.toNat ≤ 122 := by
  simp only [Char.isAlpha, Char.isUpper, Char.isLower, Bool.or_eq_true, Bool.and_eq_true, decide_eq_true_eq, ge_iff_le] at h
  simp only [UInt32.le_iff_toNat_le] at h
  have e1 : 'A'.val.toNat = 65 := by decide
  have e2 : 'Z'.val.toNat = 90 := by decide
  have e3 : 'a'.val.toNat = 97 := by decide
  have e4 : 'z'.val.toNat = 122 := by decide
  rw [e1, e2, e3, e4] at h
  show 65 ≤ c.val.toNat ∧ c.val.toNat ≤ 122
  omega

theorem isAlpha_not_ws {c : Char} (h : c.isAlpha = true) : isWsC c = false := by
  have hr := isAlpha_range h
  cases hw : isWsC c with
  | false => rfl
  | true =>
    simp [isWsC, wsCodes] at hw
    omega

theorem isAlpha_ne {c : Char} (h : c.isAlpha = true) : c ≠ '@' ∧ c ≠ ':' ∧ c ≠ '}' ∧ c ≠ '{' := by
  refine ⟨?_, ?_, ?_, ?_⟩ <;> (intro e; subst e; revert h; decide)

/-- `p` holds on all of `a` and fails on the first character of `tail` (if there is one) -/
theorem takeWhile_append_stop (p : Char → Bool) (a tail : Str) (ha : ∀ y ∈ a, p y = true)
    (ht : ∀ c r, tail = c :: r → p c = false) : (a ++ tail).takeWhile p = a ∧ (a ++ tail).dropWhile p = tail := by
  induction a with
  | nil =>
    cases tail with
    | nil => simp
    | cons c r => simp [ht c r rfl]
  | cons x a ih =>
    have := ih (fun y hy => ha y (by simp [hy]))
    simp [ha x (by simp), this.1, this.2]

/-! ## identifiers and scoped identifiers -/

/-- an identifier the lexer reads back as one `Identifier` token: a letter, then letters, digits, `_` -/
def idOK (s : Str) : Bool :=
  match s with
  | c :: r => c.isAlpha && r.all isIdCharC
  | [] => false

/-- the pieces of `s` between its `:` characters -/
def splitColon : Str → List Str
  | [] => [[]]
  | c :: r =>
    if c == ':' then [] :: splitColon r
    else match splitColon r with
      | h :: t => (c :: h) :: t
      | [] => [[c]]

/-- candidate decomposition of a scoped identifier: leading `::`?, first identifier, further identifiers -/
def scopedParts (s : Str) : Option (Bool × Str × List Str) :=
  match (splitColon s).filter (fun p => !p.isEmpty) with
  | f :: o => some (s.head? == some ':', f, o)
  | [] => none

/-- a scoped identifier as the grammar prints it (`get_scoped_identifier_string`): `::`? identifier (`::` identifier)*,
    without blanks: the candidate decomposition consists of identifiers and joins back to `s` -/
def scopedOK (s : Str) : Bool :=
  match scopedParts s with
  | some (g, f, o) => idOK f && o.all idOK && joinScoped g f o == s
  | none => false

def scopedToks (g : Bool) (f : Str) (o : List Str) : List CTok :=
  (if g then [.dcolon] else []) ++ .ident f :: o.flatMap fun x => [.dcolon, .ident x]

/-- the tokens of a scoped identifier -/
def idToks (id : Str) : List CTok :=
  match scopedParts id with
  | some (g, f, o) => scopedToks g f o
  | none => []

theorem scopedOK_parts (s : Str) (h : scopedOK s = true) :
    ∃ g f o, idOK f = true ∧ (∀ x ∈ o, idOK x = true) ∧ joinScoped g f o = s ∧ idToks s = scopedToks g f o := by
  unfold scopedOK at h
  cases hp : scopedParts s with
  | none => simp [hp] at h
  | some v =>
    obtain ⟨g, f, o⟩ := v
    simp only [hp, Bool.and_eq_true, List.all_eq_true, beq_iff_eq] at h
    exact ⟨g, f, o, h.1.1, h.1.2, h.2, by simp [idToks, hp]⟩

theorem idOK_cons (id : Str) (h : idOK id = true) : ∃ c r, id = c :: r ∧ c.isAlpha = true ∧ ∀ y ∈ r, isIdCharC y = true := by
  cases id with
  | nil => simp [idOK] at h
  | cons c r =>
    simp only [idOK, Bool.and_eq_true, List.all_eq_true] at h
    exact ⟨c, r, rfl, h.1, h.2⟩

theorem idOK_all (id : Str) (h : idOK id = true) : ∀ y ∈ id, isIdCharC y = true := by
  obtain ⟨c, r, rfl, hc, hr⟩ := idOK_cons id h
  intro y hy
  rcases List.mem_cons.mp hy with rfl | hy
  · exact isAlpha_isIdChar hc
  · exact hr y hy

/-! ## lexer: single steps in tag modes -/

theorem lexTagComponent_ident (mode : LMode) (ws : Str) (hws : ws.all isWsC = true) (id : Str) (hid : idOK id = true) (tail : Str)
    (ht : ∀ c r, tail = c :: r → isIdCharC c = false) :
    lexTagComponent mode (ws ++ (id ++ tail)) = .tok (.ident id) mode tail := by
  obtain ⟨c, r, rfl, hc, hr⟩ := idOK_cons id hid
  have hall := idOK_all _ hid
  obtain ⟨h1, h2, h3, h4⟩ := isAlpha_ne hc
  have hd : (ws ++ (c :: r ++ tail)).dropWhile isWsC = c :: (r ++ tail) :=
    dropWhile_ws_append ws _ hws ⟨c, r ++ tail, rfl, isAlpha_not_ws hc⟩
  have htd := takeWhile_append_stop isIdCharC (c :: r) tail hall ht
  unfold lexTagComponent
  rw [hd]
  split
  · rename_i heq; simp at heq
  · rename_i heq; simp at heq; exact absurd heq.1 h1
  · rename_i heq; simp at heq; exact absurd heq.1 h2
  · rename_i heq; simp at heq; exact absurd heq.1 h2
  · rename_i heq; simp at heq; exact absurd heq.1 h3
  · rename_i c' rest _ _ _ _ heq
    simp only [List.cons.injEq] at heq
    obtain ⟨rfl, rfl⟩ := heq
    rw [if_pos hc]
    rw [← List.cons_append, htd.1, htd.2]

theorem isWsC_at : isWsC '@' = false := by decide
theorem isWsC_colon : isWsC ':' = false := by decide
theorem isWsC_rbrace : isWsC '}' = false := by decide
theorem isWsC_lbrace : isWsC '{' = false := by decide

theorem lexTagComponent_dcolon (mode : LMode) (ws : Str) (hws : ws.all isWsC = true) (rest : Str) :
    lexTagComponent mode (ws ++ ':' :: ':' :: rest) = .tok .dcolon mode rest := by
  have hd : (ws ++ ':' :: ':' :: rest).dropWhile isWsC = ':' :: ':' :: rest :=
    dropWhile_ws_append ws _ hws ⟨':', _, rfl, isWsC_colon⟩
  unfold lexTagComponent
  rw [hd]
  rfl

theorem lexTagComponent_rbrace (rest : Str) : lexTagComponent .inlineTag ('}' :: rest) = .tok .rbrace .message rest := by
  simp [lexTagComponent, isWsC_rbrace]

/-- the `:` that ends a block tag's header: the message follows in `Message` mode (it must not begin with another `:`) -/
theorem lexTagComponent_colon (rest : Str) (h : ∀ r, rest ≠ ':' :: r) :
    lexTagComponent .blockTag (':' :: rest) = .tok .colon .message rest := by
  have hd : (':' :: rest).dropWhile isWsC = ':' :: rest := by simp [isWsC_colon]
  unfold lexTagComponent
  rw [hd]
  split
  · rename_i heq; simp at heq
  · rename_i heq; simp at heq
  · rename_i r heq; simp at heq; exact absurd heq (h r)
  · rename_i r _ heq; simp at heq; subst heq; simp
  · rename_i heq; simp at heq
  · rename_i c' rest' _ _ h3 _ heq
    simp only [List.cons.injEq] at heq
    exact absurd heq.1.symm h3

/-- `@name` followed by something that does not continue the name -/
theorem lexTagComponent_kw (mode : LMode) (name : Str) (k : TagKw) (b : Bool)
    (hfind : Gen.commentTagKeywords.find? (fun r => r.1 == name) = some (name, k, b)) (hb : b = (mode == .inlineTag))
    (hname : ∀ y ∈ name, isIdCharC y = true) (tail : Str) (ht : ∀ c r, tail = c :: r → isIdCharC c = false) :
    lexTagComponent mode ('@' :: (name ++ tail)) = .tok (.kw k) mode tail := by
  have hd : ('@' :: (name ++ tail)).dropWhile isWsC = '@' :: (name ++ tail) := by simp [isWsC_at]
  have htd := takeWhile_append_stop isIdCharC name tail hname ht
  unfold lexTagComponent
  rw [hd]
  simp only [readTagKeyword, htd.1, htd.2, hfind, hb, beq_self_eq_true, if_true]

/-! ## lexer: a scoped identifier in a tag mode -/

/-- what may follow a scoped identifier: the end of the line (`@see`) or the `}` of an inline link -/
def ScopedStop (tail : Str) : Prop := tail = [] ∨ ∃ r, tail = '}' :: r

theorem idTail_stop (o : List Str) (tail : Str) (ht : ScopedStop tail) :
    ∀ c r, o.flatMap (fun x => sepChars ++ x) ++ tail = c :: r → isIdCharC c = false := by
  intro c r h
  cases o with
  | nil =>
    rcases ht with rfl | ⟨r', rfl⟩
    · simp at h
    · simp at h; rw [← h.1]; decide
  | cons x o => simp [sepChars] at h; rw [← h.1]; decide

theorem lexL_idTail (mode : LMode) (hm : mode ≠ .message) (o : List Str) (ho : ∀ x ∈ o, idOK x = true) (tail : Str)
    (ht : ScopedStop tail) :
    lexL mode (o.flatMap (fun x => sepChars ++ x) ++ tail) = (lexL mode tail).pre (o.flatMap fun x => [.dcolon, .ident x]) := by
  induction o with
  | nil => rfl
  | cons x o ih =>
    have h1 := lexTagComponent_dcolon mode [] rfl (x ++ (o.flatMap (fun x => sepChars ++ x) ++ tail))
    have h2 := lexTagComponent_ident mode [] rfl x (ho x (by simp)) _ (idTail_stop o tail ht)
    simp only [List.nil_append] at h1 h2
    have e : (x :: o).flatMap (fun x => sepChars ++ x) ++ tail = ':' :: ':' :: (x ++ (o.flatMap (fun x => sepChars ++ x) ++ tail)) := by
      simp [sepChars]
    rw [e, lexL_tag_tok mode hm _ _ _ _ h1, lexL_tag_tok mode hm _ _ _ _ h2, ih (fun y hy => ho y (by simp [hy]))]
    simp [LexOut.cons_eq_pre, LexOut.pre_pre]

theorem lexL_scoped (mode : LMode) (hm : mode ≠ .message) (ws : Str) (hws : ws.all isWsC = true) (g : Bool) (f : Str) (o : List Str)
    (hf : idOK f = true) (ho : ∀ x ∈ o, idOK x = true) (tail : Str) (ht : ScopedStop tail) :
    lexL mode (ws ++ (joinScoped g f o ++ tail)) = (lexL mode tail).pre (scopedToks g f o) := by
  have hstop := idTail_stop o tail ht
  cases g with
  | false =>
    have h2 := lexTagComponent_ident mode ws hws f hf _ hstop
    have e : ws ++ (joinScoped false f o ++ tail) = ws ++ (f ++ (o.flatMap (fun x => sepChars ++ x) ++ tail)) := by
      simp [joinScoped]
    rw [e, lexL_tag_tok mode hm _ _ _ _ h2, lexL_idTail mode hm o ho tail ht]
    simp [LexOut.cons_eq_pre, LexOut.pre_pre, scopedToks]
  | true =>
    have h1 := lexTagComponent_dcolon mode ws hws (f ++ (o.flatMap (fun x => sepChars ++ x) ++ tail))
    have h2 := lexTagComponent_ident mode [] rfl f hf _ hstop
    simp only [List.nil_append] at h2
    have e : ws ++ (joinScoped true f o ++ tail) = ws ++ ':' :: ':' :: (f ++ (o.flatMap (fun x => sepChars ++ x) ++ tail)) := by
      simp [joinScoped, sepChars]
    rw [e, lexL_tag_tok mode hm _ _ _ _ h1, lexL_tag_tok mode hm _ _ _ _ h2, lexL_idTail mode hm o ho tail ht]
    simp [LexOut.cons_eq_pre, LexOut.pre_pre, scopedToks]

/-! ## grammar: a scoped identifier -/

theorem parseIdTail_toks (o : List Str) (rest : List CTok) (hr : ∀ r, rest ≠ .dcolon :: r) :
    parseIdTail (o.flatMap (fun x => [CTok.dcolon, .ident x]) ++ rest) = some (o, rest) := by
  induction o with
  | nil =>
    simp only [List.flatMap_nil, List.nil_append]
    unfold parseIdTail
    split
    · exact absurd rfl (hr _)
    · exact absurd rfl (hr _)
    · rfl
  | cons x o ih =>
    simp only [List.flatMap_cons, List.cons_append, List.nil_append]
    rw [parseIdTail, ih]

theorem parseScopedId_toks (g : Bool) (f : Str) (o : List Str) (rest : List CTok) (hr : ∀ r, rest ≠ .dcolon :: r) :
    parseScopedId (scopedToks g f o ++ rest) = some (joinScoped g f o, rest) := by
  cases g with
  | false => simp [scopedToks, parseScopedId, parseIdTail_toks o rest hr]
  | true => simp [scopedToks, parseScopedId, parseIdTail_toks o rest hr]

/-! ## lexer: a message line (texts and inline links) -/

def compToks : Comp → List CTok
  | .text s => [.text s]
  | .link id => .lbrace :: .kw .LinkKeyword :: idToks id ++ [.rbrace]

/-- components the lexer gives back one for one: a text is not empty, has no `{` and is not followed by another text (the
    two would be one token); a link's target is a scoped identifier -/
def lexOK : List Comp → Bool
  | [] => true
  | .link id :: r => scopedOK id && lexOK r
  | .text s :: r => !s.isEmpty && s.all (· != '{') && (match r with | .text _ :: _ => false | _ => true) && lexOK r

theorem src_not_text (r : List Comp) (h : (match r with | .text _ :: _ => false | _ => true) = true) :
    r.flatMap compSrc = [] ∨ ∃ t, r.flatMap compSrc = '{' :: t := by
  match r, h with
  | [], _ => exact Or.inl rfl
  | .link id :: r', _ => exact Or.inr ⟨_, by simp [compSrc, linkOpen]; rfl⟩

theorem lexL_text (s tail : Str) (hs : s ≠ []) (hnb : ∀ y ∈ s, (y != '{') = true) (ht : tail = [] ∨ ∃ r, tail = '{' :: r) :
    lexL .message (s ++ tail) = (lexL .message tail).cons (.text s) := by
  cases s with
  | nil => exact absurd rfl hs
  | cons x xs =>
    have htd := takeWhile_append_stop (· != '{') (x :: xs) tail hnb (by
      intro c r hc
      rcases ht with rfl | ⟨r', rfl⟩
      · simp at hc
      · simp at hc; rw [← hc.1]; rfl)
    rw [List.cons_append] at htd ⊢
    apply lexL_message_cons
    unfold lexMessage
    split
    · rename_i rest heq
      simp only [List.cons.injEq] at heq
      have := hnb x (by simp)
      rw [heq.1] at this
      exact absurd this (by decide)
    · rw [htd.1, htd.2]

theorem find_link : Gen.commentTagKeywords.find? (fun r => r.1 == ['l', 'i', 'n', 'k']) = some (['l', 'i', 'n', 'k'], .LinkKeyword, true) := by
  decide
theorem find_param : Gen.commentTagKeywords.find? (fun r => r.1 == ['p', 'a', 'r', 'a', 'm']) = some (['p', 'a', 'r', 'a', 'm'], .ParamKeyword, false) := by
  decide
theorem find_returns : Gen.commentTagKeywords.find? (fun r => r.1 == ['r', 'e', 't', 'u', 'r', 'n', 's']) =
    some (['r', 'e', 't', 'u', 'r', 'n', 's'], .ReturnsKeyword, false) := by
  decide
theorem find_see : Gen.commentTagKeywords.find? (fun r => r.1 == ['s', 'e', 'e']) = some (['s', 'e', 'e'], .SeeKeyword, false) := by
  decide

theorem lexL_link (id tail : Str) (hid : scopedOK id = true) :
    lexL .message (compSrc (.link id) ++ tail) = (lexL .message tail).pre (compToks (.link id)) := by
  obtain ⟨g, f, o, hf, ho, hj, htk⟩ := scopedOK_parts id hid
  have e : compSrc (.link id) ++ tail = '{' :: '@' :: (['l', 'i', 'n', 'k'] ++ ([' '] ++ (joinScoped g f o ++ '}' :: tail))) := by
    simp [compSrc, linkOpen, hj]
  have h1 : lexMessage ('{' :: '@' :: (['l', 'i', 'n', 'k'] ++ ([' '] ++ (joinScoped g f o ++ '}' :: tail)))) =
      (.lbrace, .inlineTag, '@' :: (['l', 'i', 'n', 'k'] ++ ([' '] ++ (joinScoped g f o ++ '}' :: tail)))) := by
    simp [lexMessage, isWsC_at]
  have h2 := lexTagComponent_kw .inlineTag ['l', 'i', 'n', 'k'] .LinkKeyword true find_link rfl (by decide)
    ([' '] ++ (joinScoped g f o ++ '}' :: tail)) (by intro c r hc; simp at hc; rw [← hc.1]; decide)
  have h3 := lexL_scoped .inlineTag (by decide) [' '] (by decide) g f o hf ho ('}' :: tail) (Or.inr ⟨_, rfl⟩)
  have h4 := lexL_tag_tok .inlineTag (by decide) _ _ _ _ (lexTagComponent_rbrace tail)
  rw [e, lexL_message_cons _ _ _ _ _ h1, lexL_tag_tok .inlineTag (by decide) _ _ _ _ h2, h3, h4]
  simp [LexOut.cons_eq_pre, LexOut.pre_pre, compToks, htk]

theorem lexL_comps (l : List Comp) (h : lexOK l = true) :
    lexL .message (l.flatMap compSrc) = ⟨l.flatMap compToks ++ [.newline], none⟩ := by
  induction l with
  | nil => rfl
  | cons c r ih =>
    match c, h with
    | .link id, h =>
      simp only [lexOK, Bool.and_eq_true] at h
      rw [List.flatMap_cons, lexL_link id _ h.1, ih h.2]
      simp [LexOut.pre]
    | .text s, h =>
      simp only [lexOK, Bool.and_eq_true, Bool.not_eq_true', List.all_eq_true] at h
      obtain ⟨⟨⟨hne, hnb⟩, hnt⟩, hr⟩ := h
      rw [List.flatMap_cons]
      show lexL .message (s ++ r.flatMap compSrc) = _
      rw [lexL_text s _ (by intro e; simp [e] at hne) hnb (src_not_text r hnt), ih hr]
      simp [LexOut.cons, compToks]

/-! ## a message line written after an indentation -/

/-- what the lexer and the grammar make of the line `l` written after the indentation `ind`: the indentation becomes part of
    the first text; in front of a link it is a text of its own -/
def indLine (ind : Str) : List Comp → List Comp
  | [] => []
  | .text s :: r => .text (ind ++ s) :: r
  | .link id :: r => if ind.isEmpty then .link id :: r else .text ind :: .link id :: r

def lineToks (l : List Comp) : List CTok := l.flatMap compToks ++ [.newline]

/-- no text contains a line break (a `///` line cannot) -/
def noBreak (l : List Comp) : Bool := l.all fun c => match c with | .text t => t.all (· != '\n') | .link _ => true

/-- an overview / continuation line that can be written: its components are given back one for one (`lexOK`), and if it
    starts with a text, that text has a first non-blank character, which is not `@` (the line would start a block tag) -/
def lineOK (l : List Comp) : Bool :=
  lexOK l && noBreak l &&
  (match l with
   | .text s :: _ => (match s.dropWhile isWsC with | c :: _ => c != '@' | [] => false)
   | _ => true)

theorem lineSrc_indLine (ind : Str) (l : List Comp) : lineSrc ind l = (indLine ind l).flatMap compSrc := by
  match l with
  | [] => rfl
  | .text s :: r => simp [lineSrc, indLine, compSrc]
  | .link id :: r =>
    cases ind with
    | nil => simp [lineSrc, indLine]
    | cons a b => simp [lineSrc, indLine, compSrc]

theorem ws_all_ne_lbrace (ws : Str) (h : ws.all isWsC = true) : ws.all (· != '{') = true := by
  simp only [List.all_eq_true] at h ⊢
  intro x hx
  simpa using ws_ne_lbrace (h x hx)

theorem lexOK_indLine (ind : Str) (hind : ind.all isWsC = true) (l : List Comp) (h : lexOK l = true) : lexOK (indLine ind l) = true := by
  match l, h with
  | [], _ => rfl
  | .text s :: r, h =>
    simp only [lexOK, Bool.and_eq_true, Bool.not_eq_true'] at h
    obtain ⟨⟨⟨hne, hnb⟩, hnt⟩, hr⟩ := h
    simp only [indLine, lexOK, Bool.and_eq_true, Bool.not_eq_true', List.all_append, ws_all_ne_lbrace ind hind, hnb, hnt, hr, and_true]
    cases s with
    | nil => simp at hne
    | cons a b => simp
  | .link id :: r, h =>
    cases ind with
    | nil => simpa [indLine] using h
    | cons a b =>
      simp only [indLine, List.isEmpty_cons, Bool.false_eq_true, if_false]
      rw [lexOK]
      · simp [ws_all_ne_lbrace _ hind, h]
      · intro s tail he; cases he

theorem dropWhile_ws_prefix (ws rest : Str) (hws : ws.all isWsC = true) : (ws ++ rest).dropWhile isWsC = rest.dropWhile isWsC := by
  induction ws with
  | nil => rfl
  | cons w ws ih =>
    simp only [List.all_cons, Bool.and_eq_true] at hws
    rw [List.cons_append, List.dropWhile_cons, if_pos hws.1, ih hws.2]

theorem dropWhile_append_cons (p : Char → Bool) (a b : Str) (c : Char) (r : Str) (h : a.dropWhile p = c :: r) :
    (a ++ b).dropWhile p = c :: (r ++ b) := by
  rw [List.dropWhile_append, h]; simp

theorem startMode_message (line : Str) (c : Char) (r : Str) (h : trimStart line = c :: r) (hc : c ≠ '@') : startMode line = .message := by
  unfold startMode
  rw [h]
  split
  · rename_i heq; simp at heq; exact absurd heq.1 hc
  · rfl

theorem startMode_blockTag (line r : Str) (h : trimStart line = '@' :: r) : startMode line = .blockTag := by
  unfold startMode
  rw [h]
  rfl

theorem startMode_line (ind : Str) (hind : ind.all isWsC = true) (l : List Comp) (h : lineOK l = true) :
    startMode (lineSrc ind l) = .message := by
  match l, h with
  | [], _ => rfl
  | .text s :: r, h =>
    simp only [lineOK, Bool.and_eq_true] at h
    have h3 := h.2
    cases hd : s.dropWhile isWsC with
    | nil => simp [hd] at h3
    | cons c s' =>
      simp only [hd, bne_iff_ne, ne_eq] at h3
      refine startMode_message _ c (s' ++ r.flatMap compSrc) ?_ h3
      simp only [lineSrc, List.flatMap_cons, compSrc, trimStart]
      rw [dropWhile_ws_prefix ind _ hind, dropWhile_append_cons _ _ _ _ _ hd]
  | .link id :: r, h =>
    refine startMode_message _ '{' (['@', 'l', 'i', 'n', 'k', ' '] ++ id ++ ['}'] ++ r.flatMap compSrc) ?_ (by decide)
    simp only [lineSrc, List.flatMap_cons, compSrc, trimStart, linkOpen]
    rw [dropWhile_ws_prefix ind _ hind]
    simp [isWsC_lbrace]

/-- **lexer, overview / continuation line**: plain text, text with inline links, a line that starts with a link, an empty line -/
theorem lexOneLine_line (ind : Str) (hind : ind.all isWsC = true) (l : List Comp) (h : lineOK l = true) :
    lexOneLine (lineSrc ind l) = ⟨lineToks (indLine ind l), none⟩ := by
  rw [lexOneLine_eq, startMode_line ind hind l h, lineSrc_indLine, lexL_comps]
  · rfl
  · simp only [lineOK, Bool.and_eq_true] at h
    exact lexOK_indLine ind hind l h.1.1

/-! ## the sanitizer on lines written after an indentation -/

/-- what is read back of a line that was written after the indentation `ind`: the line itself, except that a line which
    starts with a link has an empty text in front of the link (the remains of the indentation), unless `ind` is empty -/
def padLine (ind : Str) : List Comp → List Comp
  | .link id :: r => if ind.isEmpty then .link id :: r else .text [] :: .link id :: r
  | l => l

/-- a message from its lines: every line is closed by the `"\n"` text -/
def joinLines (ls : List (List Comp)) : Msg := ls.flatMap (· ++ [nl])

/-- the line has no indentation of its own: it starts with a link or with a non-blank character -/
def startsFlush : List Comp → Bool
  | .link _ :: _ => true
  | .text (c :: _) :: _ => !isWsC c
  | _ => false

/-- lines that are stripped together: unless all of them are empty, one of them has no indentation of its own -/
def zeroIndent (ls : List (List Comp)) : Bool := ls.all List.isEmpty || ls.any startsFlush

theorem leadWs_ws_append (ws s : Str) (hws : ws.all isWsC = true) : leadWs (ws ++ s) = ws.length + leadWs s := by
  unfold leadWs
  induction ws with
  | nil => simp
  | cons w ws ih =>
    simp only [List.all_cons, Bool.and_eq_true] at hws
    simp [hws.1, ih hws.2]; omega

theorem not_all_of_dropWhile (p : Char → Bool) (s : Str) (c : Char) (r : Str) (h : s.dropWhile p = c :: r) : s.all p = false := by
  induction s with
  | nil => simp at h
  | cons a s ih =>
    rw [List.dropWhile_cons] at h
    cases ha : p a with
    | true => simp only [ha, if_true] at h; simp [ha, ih h]
    | false => simp [ha]

theorem lineIndent_indLine (ind : Str) (hind : ind.all isWsC = true) (l : List Comp) (h : lineOK l = true) :
    (l = [] ∧ lineIndent (toMLine (indLine ind l)) = none) ∨
    ∃ k, lineIndent (toMLine (indLine ind l)) = some (ind.length + k) ∧ (startsFlush l = true → k = 0) := by
  match l, h with
  | [], _ => exact Or.inl ⟨rfl, rfl⟩
  | .text s :: r, h =>
    right
    simp only [lineOK, Bool.and_eq_true] at h
    have h3 := h.2
    cases hd : s.dropWhile isWsC with
    | nil => simp [hd] at h3
    | cons c s' =>
      have hna := not_all_of_dropWhile _ _ _ _ hd
      refine ⟨leadWs s, ?_, ?_⟩
      · simp [indLine, toMLine, lineIndent, List.all_append, hna, leadWs_ws_append ind s hind]
      · intro hf
        cases s with
        | nil => simp at hd
        | cons a b =>
          simp only [startsFlush, Bool.not_eq_true'] at hf
          simp [leadWs, hf]
  | .link id :: r, h =>
    right
    refine ⟨0, ?_, fun _ => rfl⟩
    cases ind with
    | nil => simp [indLine, toMLine, lineIndent]
    | cons a b =>
      simp only [indLine, List.isEmpty_cons, Bool.false_eq_true, if_false, toMLine, lineIndent, hind, if_true]
      rfl

theorem lineWithout_indLine (ind : Str) (l : List Comp) :
    lineWithout ind.length (toMLine (indLine ind l)) = padLine ind l ++ [nl] := by
  match l with
  | [] => rfl
  | .text s :: r => simp [indLine, toMLine, lineWithout, padLine]
  | .link id :: r =>
    cases ind with
    | nil => simp [indLine, toMLine, lineWithout, padLine]
    | cons a b => simp [indLine, toMLine, lineWithout, padLine]

theorem minOpt_eq_of (l : List (Option Nat)) (n : Nat) (hle : ∀ k, some k ∈ l → n ≤ k) (hmem : some n ∈ l) : minOpt l = some n := by
  obtain ⟨m, hm, hmn⟩ := minOpt_le l n hmem
  have := hle m (minOpt_mem l m hm)
  rw [hm]; congr 1; omega

/-- **the rendered indentation is stripped back**: lines written after `ind`, one of them flush, lose exactly `ind` -/
theorem sanitizeSpec_indented (ind : Str) (hind : ind.all isWsC = true) (ls : List (List Comp)) (hl : ∀ l ∈ ls, lineOK l = true)
    (hz : zeroIndent ls = true) :
    sanitizeSpec (ls.map fun l => toMLine (indLine ind l)) = joinLines (ls.map (padLine ind)) := by
  unfold sanitizeSpec joinLines
  rw [List.flatMap_map, List.flatMap_map]
  apply flatMap_congr_mem
  intro l hlm
  simp only [zeroIndent, Bool.or_eq_true, List.all_eq_true, List.any_eq_true] at hz
  rcases hz with hall | ⟨l0, hl0, hflush⟩
  · have : l = [] := by simpa using hall l hlm
    subst this
    rfl
  · have hc : commonIndent (ls.map fun l => toMLine (indLine ind l)) = ind.length := by
      unfold commonIndent
      rw [minOpt_eq_of _ ind.length]
      · rfl
      · intro k hk
        simp only [List.map_map, List.mem_map, Function.comp] at hk
        obtain ⟨l', hl', hk⟩ := hk
        rcases lineIndent_indLine ind hind l' (hl l' hl') with ⟨_, hn⟩ | ⟨k', hk', _⟩
        · rw [hn] at hk; cases hk
        · rw [hk'] at hk; simp at hk; omega
      · simp only [List.map_map, List.mem_map, Function.comp]
        refine ⟨l0, hl0, ?_⟩
        rcases lineIndent_indLine ind hind l0 (hl l0 hl0) with ⟨he, _⟩ | ⟨k', hk', hk0⟩
        · subst he; simp [startsFlush] at hflush
        · rw [hk', hk0 hflush]; rfl
    rw [hc, lineWithout_indLine]

/-! ## grammar: message components and message lines -/

def linksOK (l : List Comp) : Bool := l.all fun c => match c with | .link id => scopedOK id | .text _ => true

theorem lexOK_linksOK (l : List Comp) (h : lexOK l = true) : linksOK l = true := by
  induction l with
  | nil => rfl
  | cons c r ih =>
    match c, h with
    | .link id, h => simp only [lexOK, Bool.and_eq_true] at h; simp [linksOK, h.1]; simpa [linksOK] using ih h.2
    | .text s, h => simp only [lexOK, Bool.and_eq_true] at h; simp [linksOK]; simpa [linksOK] using ih h.2

/-- the next token continues a message -/
def compStart : List CTok → Bool
  | .text _ :: _ => true
  | .lbrace :: _ => true
  | _ => false

theorem parseComps_toks (l : List Comp) (hl : linksOK l = true) (rest : List CTok) (hr : compStart rest = false) (fuel : Nat)
    (hf : l.length < fuel) : parseComps fuel (l.flatMap compToks ++ rest) = some (l, rest) := by
  induction l generalizing fuel with
  | nil =>
    obtain ⟨f, rfl⟩ : ∃ f, fuel = f + 1 := ⟨fuel - 1, by omega⟩
    simp only [List.flatMap_nil, List.nil_append]
    unfold parseComps
    split
    · rename_i heq; simp at heq
    · simp [compStart] at hr
    · simp [compStart] at hr
    · simp [compStart] at hr
    · rfl
  | cons c r ih =>
    obtain ⟨f, rfl⟩ : ∃ f, fuel = f + 1 := ⟨fuel - 1, by omega⟩
    simp only [List.length_cons] at hf
    simp only [linksOK, List.all_cons, Bool.and_eq_true] at hl
    have ihr := ih (by simpa [linksOK] using hl.2) f (by omega)
    match c, hl with
    | .text s, _ =>
      simp only [List.flatMap_cons, compToks, List.cons_append, List.nil_append]
      rw [parseComps, ihr]
    | .link id, hl =>
      obtain ⟨g, fi, o, _, _, hj, htk⟩ := scopedOK_parts id hl.1
      have hp := parseScopedId_toks g fi o (.rbrace :: (r.flatMap compToks ++ rest)) (by intro r' he; cases he)
      simp only [List.flatMap_cons, compToks, List.cons_append, List.append_assoc, List.nil_append, htk]
      rw [parseComps]
      simp only [hp, ihr, hj]

theorem startsLine_lineToks (l : List Comp) (rest : List CTok) : startsLine (lineToks l ++ rest) = true := by
  match l with
  | [] => rfl
  | .text s :: r => rfl
  | .link id :: r => rfl

theorem length_le_flatMap_compToks (l : List Comp) : l.length ≤ (l.flatMap compToks).length := by
  induction l with
  | nil => simp
  | cons c r ih =>
    cases c with
    | text s => simp only [List.flatMap_cons, List.length_append, compToks, List.length_cons, List.length_nil]; omega
    | link id => simp only [List.flatMap_cons, List.length_append, compToks, List.length_cons, List.length_nil]; omega

theorem parseLines_toks (ls : List (List Comp)) (hl : ∀ l ∈ ls, linksOK l = true) (rest : List CTok) (hr : startsLine rest = false)
    (fuel : Nat) (hf : ls.length < fuel) : parseLines fuel (ls.flatMap lineToks ++ rest) = some (ls.map toMLine, rest) := by
  induction ls generalizing fuel with
  | nil =>
    obtain ⟨f, rfl⟩ : ∃ f, fuel = f + 1 := ⟨fuel - 1, by omega⟩
    simp [parseLines, hr]
  | cons l ls ih =>
    obtain ⟨f, rfl⟩ : ∃ f, fuel = f + 1 := ⟨fuel - 1, by omega⟩
    simp only [List.length_cons] at hf
    have ihr := ih (fun x hx => hl x (by simp [hx])) f (by omega)
    have hs := startsLine_lineToks l (ls.flatMap lineToks ++ rest)
    have e : (l :: ls).flatMap lineToks ++ rest = lineToks l ++ (ls.flatMap lineToks ++ rest) := by simp
    have e2 : lineToks l ++ (ls.flatMap lineToks ++ rest) = l.flatMap compToks ++ (.newline :: (ls.flatMap lineToks ++ rest)) := by
      simp [lineToks]
    have hc := parseComps_toks l (hl l (by simp)) (.newline :: (ls.flatMap lineToks ++ rest)) rfl
      ((lineToks l ++ (ls.flatMap lineToks ++ rest)).length + 1) (by
        have := length_le_flatMap_compToks l
        simp only [lineToks, List.length_append]; omega)
    rw [e, parseLines, if_pos hs]
    rw [e2] at hc ⊢
    simp only [hc, ihr, List.map_cons]

theorem length_le_flatMap_lineToks (ls : List (List Comp)) : ls.length ≤ (ls.flatMap lineToks).length := by
  induction ls with
  | nil => simp
  | cons l ls ih => simp only [List.flatMap_cons, List.length_append, lineToks, List.length_cons, List.length_nil]; omega

/-! ## block tags: source lines and tokens of a section, in terms of the message's lines -/

/-- the first line of a tag's message, written on the tag's own line right after the `:`: its components are given back
    one for one, and if it starts with a text, that text starts with a non-blank character (`construct_section_message`
    trims the inline message) other than `:` (`@param x::…` would be lexed as `::`) -/
def inlineOK (l : List Comp) : Bool :=
  lexOK l && noBreak l && (match l with | .text (c :: _) :: _ => !isWsC c && c != ':' | _ => true)

/-- rest of a tag's own line after the tag's identifier: nothing, or `:` and the inline message -/
def hdrTail : List (List Comp) → Str
  | (c :: cs) :: _ => ':' :: (c :: cs).flatMap compSrc
  | _ => []

def hdrTailToks : List (List Comp) → List CTok
  | (c :: cs) :: _ => .colon :: lineToks (c :: cs)
  | _ => [.newline]

/-- the lines of a tag's message that are written as continuation lines (all but a non-empty first line) -/
def contLines : List (List Comp) → List (List Comp)
  | (_ :: _) :: ls => ls
  | ls => ls

/-- the non-empty first line, if there is one -/
def inlinePart : List (List Comp) → List (List Comp)
  | (c :: cs) :: _ => [c :: cs]
  | _ => []

theorem inline_cont (ls : List (List Comp)) : inlinePart ls ++ contLines ls = ls := by
  match ls with
  | [] => rfl
  | [] :: _ => rfl
  | (_ :: _) :: _ => rfl

def sectionSrc (ind head : Str) (ls : List (List Comp)) : List Str := (head ++ hdrTail ls) :: (contLines ls).map (lineSrc ind)

theorem renderSection_eq (ind head : Str) (m : Msg) : renderSection ind head m = sectionSrc ind head (splitLines m) := by
  unfold renderSection sectionSrc
  cases splitLines m with
  | nil => simp [hdrTail, contLines]
  | cons l ls =>
    cases l with
    | nil => simp [hdrTail, contLines, lineSrc]
    | cons c cs => simp [hdrTail, contLines]

def sectionToks (ind : Str) (ls : List (List Comp)) : List CTok :=
  hdrTailToks ls ++ (contLines ls).flatMap (fun l => lineToks (indLine ind l))

/-- the lines of a tag's message can be written: the inline line, the continuation lines, one of which is flush -/
def sectionLinesOK (ls : List (List Comp)) : Bool :=
  (inlinePart ls).all inlineOK && (contLines ls).all lineOK && zeroIndent (contLines ls)

theorem inline_src_head (l : List Comp) (hne : l ≠ []) (h : inlineOK l = true) :
    ∃ c r, l.flatMap compSrc = c :: r ∧ c ≠ ':' := by
  simp only [inlineOK, Bool.and_eq_true] at h
  match l, hne, h with
  | .link id :: r, _, _ => exact ⟨'{', _, by simp [compSrc, linkOpen]; rfl, by decide⟩
  | .text [] :: r, _, h => simp [lexOK] at h
  | .text (c :: s) :: r, _, h =>
    refine ⟨c, s ++ r.flatMap compSrc, by simp [compSrc], ?_⟩
    have h2 := h.2
    simp only [Bool.and_eq_true, bne_iff_ne] at h2
    exact h2.2

theorem hdrTail_stop (ls : List (List Comp)) : ∀ c r, hdrTail ls = c :: r → isIdCharC c = false := by
  intro c r h
  match ls with
  | [] => simp [hdrTail] at h
  | [] :: _ => simp [hdrTail] at h
  | (_ :: _) :: _ => simp [hdrTail] at h; rw [← h.1]; decide

/-- **lexer, end of a block tag's own line**: nothing (`Newline`) or `:` and the inline message -/
theorem lexL_hdrTail (ls : List (List Comp)) (h : sectionLinesOK ls = true) : lexL .blockTag (hdrTail ls) = ⟨hdrTailToks ls, none⟩ := by
  match ls, h with
  | [], _ => rfl
  | [] :: _, _ => rfl
  | (c :: cs) :: _, h =>
    simp only [sectionLinesOK, inlinePart, List.all_cons, List.all_nil, Bool.and_true, Bool.and_eq_true] at h
    obtain ⟨c', r', hsrc, hc'⟩ := inline_src_head (c :: cs) (by simp) h.1.1
    have hcol := lexTagComponent_colon ((c :: cs).flatMap compSrc) (by
      intro r he; rw [hsrc] at he; simp at he; exact hc' he.1)
    have hlex : lexOK (c :: cs) = true := by
      have := h.1.1; simp only [inlineOK, Bool.and_eq_true] at this; exact this.1.1
    simp only [hdrTail, hdrTailToks]
    rw [lexL_tag_tok .blockTag (by decide) _ _ _ _ hcol, lexL_comps _ hlex]
    rfl

theorem startMode_at (r : Str) : startMode ('@' :: r) = .blockTag :=
  startMode_blockTag _ r (by simp [trimStart, isWsC_at])

/-- **lexer, `@param id[: message]`** -/
theorem lexOneLine_param (id : Str) (hid : idOK id = true) (ls : List (List Comp)) (h : sectionLinesOK ls = true) :
    lexOneLine (paramHead ++ id ++ hdrTail ls) = ⟨.kw .ParamKeyword :: .ident id :: hdrTailToks ls, none⟩ := by
  have e : paramHead ++ id ++ hdrTail ls = '@' :: (['p', 'a', 'r', 'a', 'm'] ++ ([' '] ++ (id ++ hdrTail ls))) := by simp [paramHead]
  have h1 := lexTagComponent_kw .blockTag ['p', 'a', 'r', 'a', 'm'] .ParamKeyword false find_param rfl (by decide)
    ([' '] ++ (id ++ hdrTail ls)) (by intro c r hc; simp at hc; rw [← hc.1]; decide)
  have h2 := lexTagComponent_ident .blockTag [' '] (by decide) id hid (hdrTail ls) (hdrTail_stop ls)
  rw [e, lexOneLine_eq, startMode_at, lexL_tag_tok .blockTag (by decide) _ _ _ _ h1, lexL_tag_tok .blockTag (by decide) _ _ _ _ h2,
    lexL_hdrTail ls h]
  rfl

/-- **lexer, `@returns[: message]`** -/
theorem lexOneLine_returns_none (ls : List (List Comp)) (h : sectionLinesOK ls = true) :
    lexOneLine (returnsHead ++ [] ++ hdrTail ls) = ⟨.kw .ReturnsKeyword :: hdrTailToks ls, none⟩ := by
  have e : returnsHead ++ [] ++ hdrTail ls = '@' :: (['r', 'e', 't', 'u', 'r', 'n', 's'] ++ hdrTail ls) := by simp [returnsHead]
  have h1 := lexTagComponent_kw .blockTag ['r', 'e', 't', 'u', 'r', 'n', 's'] .ReturnsKeyword false find_returns rfl (by decide)
    (hdrTail ls) (hdrTail_stop ls)
  rw [e, lexOneLine_eq, startMode_at, lexL_tag_tok .blockTag (by decide) _ _ _ _ h1, lexL_hdrTail ls h]
  rfl

/-- **lexer, `@returns id[: message]`** -/
theorem lexOneLine_returns_some (id : Str) (hid : idOK id = true) (ls : List (List Comp)) (h : sectionLinesOK ls = true) :
    lexOneLine (returnsHead ++ (' ' :: id) ++ hdrTail ls) = ⟨.kw .ReturnsKeyword :: .ident id :: hdrTailToks ls, none⟩ := by
  have e : returnsHead ++ (' ' :: id) ++ hdrTail ls = '@' :: (['r', 'e', 't', 'u', 'r', 'n', 's'] ++ ([' '] ++ (id ++ hdrTail ls))) := by
    simp [returnsHead]
  have h1 := lexTagComponent_kw .blockTag ['r', 'e', 't', 'u', 'r', 'n', 's'] .ReturnsKeyword false find_returns rfl (by decide)
    ([' '] ++ (id ++ hdrTail ls)) (by intro c r hc; simp at hc; rw [← hc.1]; decide)
  have h2 := lexTagComponent_ident .blockTag [' '] (by decide) id hid (hdrTail ls) (hdrTail_stop ls)
  rw [e, lexOneLine_eq, startMode_at, lexL_tag_tok .blockTag (by decide) _ _ _ _ h1, lexL_tag_tok .blockTag (by decide) _ _ _ _ h2,
    lexL_hdrTail ls h]
  rfl

/-- **lexer, `@see X`** -/
theorem lexOneLine_see (id : Str) (hid : scopedOK id = true) :
    lexOneLine (seeHead ++ id) = ⟨.kw .SeeKeyword :: idToks id ++ [.newline], none⟩ := by
  obtain ⟨g, f, o, hf, ho, hj, htk⟩ := scopedOK_parts id hid
  have e : seeHead ++ id = '@' :: (['s', 'e', 'e'] ++ ([' '] ++ (joinScoped g f o ++ []))) := by simp [seeHead, hj]
  have h1 := lexTagComponent_kw .blockTag ['s', 'e', 'e'] .SeeKeyword false find_see rfl (by decide)
    ([' '] ++ (joinScoped g f o ++ [])) (by intro c r hc; simp at hc; rw [← hc.1]; decide)
  have h2 := lexL_scoped .blockTag (by decide) [' '] (by decide) g f o hf ho [] (Or.inl rfl)
  rw [e, lexOneLine_eq, startMode_at, lexL_tag_tok .blockTag (by decide) _ _ _ _ h1, h2, htk]
  rfl

/-! ## the lexer on lists of lines -/

theorem lexComment_cons_ok (l : Str) (ls : List Str) (t : List CTok) (h : lexOneLine l = ⟨t, none⟩) :
    lexComment (l :: ls) = (lexComment ls).pre t := by
  simp [lexComment, h, LexOut.pre]

theorem lexComment_cons (l : Str) (ls : List Str) :
    lexComment (l :: ls) =
      match (lexOneLine l).err with
      | some _ => lexOneLine l
      | none => ⟨(lexOneLine l).toks ++ (lexComment ls).toks, (lexComment ls).err⟩ := by
  rw [lexComment]
  rfl

theorem lexComment_append (a b : List Str) (ta : List CTok) (h : lexComment a = ⟨ta, none⟩) :
    lexComment (a ++ b) = (lexComment b).pre ta := by
  induction a generalizing ta with
  | nil => simp [lexComment] at h; subst h; rfl
  | cons l a ih =>
    rw [List.cons_append, lexComment_cons]
    rw [lexComment_cons] at h
    cases he : (lexOneLine l).err with
    | some e => simp only [he] at h; rw [h] at he; cases he
    | none =>
      simp only [he, LexOut.mk.injEq] at h ⊢
      rw [ih (lexComment a).toks (by cases hx : lexComment a; simp_all)]
      simp [LexOut.pre, ← h.1]

theorem lexComment_lines (ind : Str) (hind : ind.all isWsC = true) (ls : List (List Comp)) (h : ∀ l ∈ ls, lineOK l = true) :
    lexComment (ls.map (lineSrc ind)) = ⟨ls.flatMap (fun l => lineToks (indLine ind l)), none⟩ := by
  induction ls with
  | nil => rfl
  | cons l ls ih =>
    rw [List.map_cons, lexComment_cons_ok _ _ _ (lexOneLine_line ind hind l (h l (by simp))), ih (fun x hx => h x (by simp [hx]))]
    rfl

theorem lexComment_flatMap {β} (bs : List β) (src : β → List Str) (tk : β → List CTok)
    (h : ∀ b ∈ bs, lexComment (src b) = ⟨tk b, none⟩) : lexComment (bs.flatMap src) = ⟨bs.flatMap tk, none⟩ := by
  induction bs with
  | nil => rfl
  | cons b bs ih =>
    rw [List.flatMap_cons, lexComment_append _ _ _ (h b (by simp)), ih (fun x hx => h x (by simp [hx]))]
    rfl

/-! ## block tags as written -/

inductive DocBlock where
  | param (id : Str) (ls : List (List Comp))
  | returns (id : Option Str) (ls : List (List Comp))
  | see (id : Str)

def DocBlock.src (ind : Str) : DocBlock → List Str
  | .param id ls => sectionSrc ind (paramHead ++ id) ls
  | .returns id ls => sectionSrc ind (returnsHead ++ (match id with | none => [] | some i => ' ' :: i)) ls
  | .see id => [seeHead ++ id]

def DocBlock.toks (ind : Str) : DocBlock → List CTok
  | .param id ls => .kw .ParamKeyword :: .ident id :: sectionToks ind ls
  | .returns none ls => .kw .ReturnsKeyword :: sectionToks ind ls
  | .returns (some id) ls => .kw .ReturnsKeyword :: .ident id :: sectionToks ind ls
  | .see id => .kw .SeeKeyword :: idToks id ++ [.newline]

def DocBlock.OK : DocBlock → Bool
  | .param id ls => idOK id && sectionLinesOK ls
  | .returns id ls => (match id with | none => true | some i => idOK i) && sectionLinesOK ls
  | .see id => scopedOK id

/-- the message read back for a tag: the inline line as written, the continuation lines as `padLine` says -/
def sectionBack (ind : Str) (ls : List (List Comp)) : Msg := joinLines (inlinePart ls ++ (contLines ls).map (padLine ind))

def DocBlock.apply (ind : Str) (c : DocC) : DocBlock → DocC
  | .param id ls => { c with params := c.params ++ [(id, sectionBack ind ls)] }
  | .returns id ls => { c with returns := c.returns ++ [(id, sectionBack ind ls)] }
  | .see id => { c with see := c.see ++ [id] }

theorem sectionLinesOK_cont (ls : List (List Comp)) (h : sectionLinesOK ls = true) :
    (∀ l ∈ contLines ls, lineOK l = true) ∧ zeroIndent (contLines ls) = true := by
  simp only [sectionLinesOK, Bool.and_eq_true, List.all_eq_true] at h
  exact ⟨h.1.2, h.2⟩

/-- **lexer, a whole block** (the tag's line and its continuation lines) -/
theorem lexComment_block (ind : Str) (hind : ind.all isWsC = true) (b : DocBlock) (h : b.OK = true) :
    lexComment (b.src ind) = ⟨b.toks ind, none⟩ := by
  match b, h with
  | .param id ls, h =>
    simp only [DocBlock.OK, Bool.and_eq_true] at h
    simp only [DocBlock.src, sectionSrc, DocBlock.toks, sectionToks]
    rw [lexComment_cons_ok _ _ _ (lexOneLine_param id h.1 ls h.2), lexComment_lines ind hind _ (sectionLinesOK_cont ls h.2).1]
    simp [LexOut.pre]
  | .returns none ls, h =>
    simp only [DocBlock.OK, Bool.and_eq_true, true_and] at h
    simp only [DocBlock.src, sectionSrc, DocBlock.toks, sectionToks]
    rw [lexComment_cons_ok _ _ _ (lexOneLine_returns_none ls h), lexComment_lines ind hind _ (sectionLinesOK_cont ls h).1]
    simp [LexOut.pre]
  | .returns (some id) ls, h =>
    simp only [DocBlock.OK, Bool.and_eq_true] at h
    simp only [DocBlock.src, sectionSrc, DocBlock.toks, sectionToks]
    rw [lexComment_cons_ok _ _ _ (lexOneLine_returns_some id h.1 ls h.2), lexComment_lines ind hind _ (sectionLinesOK_cont ls h.2).1]
    simp [LexOut.pre]
  | .see id, h =>
    simp only [DocBlock.OK] at h
    simp only [DocBlock.src, DocBlock.toks]
    rw [lexComment_cons_ok _ _ _ (lexOneLine_see id h)]
    simp [LexOut.pre, lexComment]

/-! ## grammar: sections and blocks -/

theorem parseSectionG_newline (san : Sanitizer) (pend : Option CLexErr) (r : List CTok) (lsM : List MLine) (rest : List CTok)
    (hl : parseLines (r.length + 1) r = some (lsM, rest)) :
    parseSectionG san pend (.newline :: r) =
      (reduceLines san pend lsM rest).bind fun ml => .ok (constructSectionMessage none ml, rest) := by
  simp [parseSectionG, hl]

theorem parseSectionG_colon (san : Sanitizer) (pend : Option CLexErr) (toks : List CTok) (c : Comp) (cs : List Comp) (r : List CTok)
    (lsM : List MLine) (rest : List CTok) (hc : parseComps (toks.length + 1) toks = some (c :: cs, .newline :: r))
    (hl : parseLines (r.length + 1) r = some (lsM, rest)) :
    parseSectionG san pend (.colon :: toks) =
      (reduceLines san pend lsM rest).bind fun ml => .ok (constructSectionMessage (some (c :: cs)) ml, rest) := by
  simp [parseSectionG, hc, hl]

/-- what follows a block: the end of the comment or the next block tag -/
def BlockFollow (rest : List CTok) : Prop := rest = [] ∨ isBlockStart rest = true

theorem BlockFollow.valid {rest : List CTok} (h : BlockFollow rest) : validFollower none rest = true := by
  rcases h with rfl | h
  · rfl
  · simp [validFollower, h]

theorem BlockFollow.notLine {rest : List CTok} (h : BlockFollow rest) : startsLine rest = false := by
  rcases h with rfl | h
  · rfl
  · unfold isBlockStart at h
    split at h <;> first | rfl | simp at h

theorem reduceLines_ok (san : Sanitizer) (hsan : ∀ ls, san ls = .ok (sanitizeSpec ls)) (lsM : List MLine) (rest : List CTok)
    (hrest : BlockFollow rest) :
    reduceLines san none lsM rest = .ok (match lsM with | [] => none | _ :: _ => some (sanitizeSpec lsM)) := by
  unfold reduceLines
  rw [if_pos hrest.valid]
  cases lsM with
  | nil => rfl
  | cons a b => simp [hsan, Outcome.bind]

theorem constructSectionMessage_inline (l : List Comp) (h : inlineOK l = true) (lines : Option Msg) :
    constructSectionMessage (some l) lines = l ++ [nl] ++ lines.getD [] := by
  match l, h with
  | [], _ => rfl
  | .link _ :: _, _ => rfl
  | .text [] :: _, _ => rfl
  | .text (c :: s) :: r, h =>
    simp only [inlineOK, Bool.and_eq_true, Bool.not_eq_true'] at h
    simp [constructSectionMessage, trimStart, h.2.1]

theorem joinLines_append (a b : List (List Comp)) : joinLines (a ++ b) = joinLines a ++ joinLines b := by
  simp [joinLines]

/-- **grammar, one section** (`(":" Message?)? newline MessageLines?`): the message is the inline line and the continuation
    lines without the indentation -/
theorem parseSectionG_toks (san : Sanitizer) (hsan : ∀ ls, san ls = .ok (sanitizeSpec ls)) (ind : Str) (hind : ind.all isWsC = true)
    (ls : List (List Comp)) (hok : sectionLinesOK ls = true) (rest : List CTok) (hrest : BlockFollow rest) :
    parseSectionG san none (sectionToks ind ls ++ rest) = .ok (sectionBack ind ls, rest) := by
  obtain ⟨hcl, hcz⟩ := sectionLinesOK_cont ls hok
  have hlinks : ∀ l ∈ (contLines ls).map (indLine ind), linksOK l = true := by
    intro l hl
    obtain ⟨l', hl', rfl⟩ := List.mem_map.mp hl
    have := hcl l' hl'
    simp only [lineOK, Bool.and_eq_true] at this
    exact lexOK_linksOK _ (lexOK_indLine ind hind l' this.1.1)
  have hcont : ∀ fuel, (contLines ls).length < fuel →
      parseLines fuel ((contLines ls).flatMap (fun l => lineToks (indLine ind l)) ++ rest) =
        some ((contLines ls).map (fun l => toMLine (indLine ind l)), rest) := by
    intro fuel hf
    have := parseLines_toks ((contLines ls).map (indLine ind)) hlinks rest hrest.notLine fuel (by simpa using hf)
    simpa [List.flatMap_map, List.map_map, Function.comp_def] using this
  have hlen : (contLines ls).length ≤ ((contLines ls).flatMap (fun l => lineToks (indLine ind l)) ++ rest).length := by
    have := length_le_flatMap_lineToks ((contLines ls).map (indLine ind))
    simp only [List.flatMap_map, List.length_map] at this
    simp only [List.length_append]; omega
  have hred := reduceLines_ok san hsan ((contLines ls).map (fun l => toMLine (indLine ind l))) rest hrest
  have hsp := sanitizeSpec_indented ind hind (contLines ls) hcl hcz
  match ls, hok with
  | [], _ =>
    simp only [sectionToks, hdrTailToks, contLines, List.flatMap_nil, List.nil_append, List.cons_append] at hcont ⊢
    rw [parseSectionG_newline san none _ _ _ (hcont _ (by simp))]
    simp only [contLines, List.map_nil] at hred
    simp [hred, Outcome.bind, constructSectionMessage, sectionBack, joinLines, inlinePart, contLines]
  | [] :: ls', _ =>
    simp only [sectionToks, hdrTailToks, List.cons_append, List.nil_append] at hcont ⊢
    rw [parseSectionG_newline san none _ _ _ (hcont _ (by omega))]
    simp only [contLines, List.map_cons] at hred hsp
    simp [hred, Outcome.bind, constructSectionMessage, sectionBack, inlinePart, contLines, hsp]
  | (c :: cs) :: ls', hok =>
    have hin : inlineOK (c :: cs) = true := by
      simp only [sectionLinesOK, inlinePart, List.all_cons, List.all_nil, Bool.and_true, Bool.and_eq_true] at hok
      exact hok.1.1
    have hlk : linksOK (c :: cs) = true := by
      simp only [inlineOK, Bool.and_eq_true] at hin
      exact lexOK_linksOK _ hin.1.1
    have e : sectionToks ind ((c :: cs) :: ls') ++ rest =
        .colon :: ((c :: cs).flatMap compToks ++ .newline :: (ls'.flatMap (fun l => lineToks (indLine ind l)) ++ rest)) := by
      simp [sectionToks, hdrTailToks, lineToks, contLines]
    have hc := parseComps_toks (c :: cs) hlk (.newline :: (ls'.flatMap (fun l => lineToks (indLine ind l)) ++ rest)) rfl
      (((c :: cs).flatMap compToks ++ .newline :: (ls'.flatMap (fun l => lineToks (indLine ind l)) ++ rest)).length + 1) (by
        have := length_le_flatMap_compToks (c :: cs)
        simp only [List.length_append]; omega)
    simp only [contLines] at hcont hlen hred hsp
    rw [e, parseSectionG_colon san none _ c cs _ _ _ hc (hcont _ (by omega)), hred]
    cases ls' with
    | nil =>
      simp only [List.map_nil, Outcome.bind, constructSectionMessage_inline _ hin, Option.getD]
      simp [sectionBack, inlinePart, contLines, joinLines]
    | cons l1 ls1 =>
      simp only [List.map_cons, Outcome.bind, constructSectionMessage_inline _ hin, Option.getD]
      simp only [List.map_cons] at hsp
      rw [hsp]
      simp [sectionBack, inlinePart, contLines, joinLines]

theorem sectionToks_head (ind : Str) (ls : List (List Comp)) :
    ∃ t r, sectionToks ind ls = t :: r ∧ (t = .newline ∨ t = .colon) := by
  match ls with
  | [] => exact ⟨_, _, rfl, Or.inl rfl⟩
  | [] :: _ => exact ⟨_, _, rfl, Or.inl rfl⟩
  | (_ :: _) :: _ => exact ⟨_, _, rfl, Or.inr rfl⟩

theorem blocks_follow (ind : Str) (bs : List DocBlock) : BlockFollow (bs.flatMap (DocBlock.toks ind)) := by
  match bs with
  | [] => exact Or.inl rfl
  | .param _ _ :: _ => exact Or.inr rfl
  | .returns none _ :: _ => exact Or.inr rfl
  | .returns (some _) _ :: _ => exact Or.inr rfl
  | .see _ :: _ => exact Or.inr rfl

/-- **grammar, the blocks**: every block is parsed back, whatever the order of the kinds -/
theorem parseBlocksG_toks (san : Sanitizer) (hsan : ∀ ls, san ls = .ok (sanitizeSpec ls)) (ind : Str) (hind : ind.all isWsC = true)
    (bs : List DocBlock) (hok : ∀ b ∈ bs, b.OK = true) (c : DocC) (fuel : Nat) (hf : bs.length < fuel) :
    parseBlocksG san none fuel c (bs.flatMap (DocBlock.toks ind)) = .ok (bs.foldl (DocBlock.apply ind) c) := by
  induction bs generalizing c fuel with
  | nil =>
    obtain ⟨f, rfl⟩ : ∃ f, fuel = f + 1 := ⟨fuel - 1, by omega⟩
    simp [parseBlocksG]
  | cons b bs ih =>
    obtain ⟨f, rfl⟩ : ∃ f, fuel = f + 1 := ⟨fuel - 1, by omega⟩
    simp only [List.length_cons] at hf
    have hfol := blocks_follow ind bs
    have ihr := fun c => ih (fun x hx => hok x (by simp [hx])) c f (by omega)
    have hb := hok b (by simp)
    rw [List.flatMap_cons, List.foldl_cons]
    match b, hb with
    | .param id ls, hb =>
      simp only [DocBlock.OK, Bool.and_eq_true] at hb
      simp only [DocBlock.toks, List.cons_append]
      rw [parseBlocksG, parseSectionG_toks san hsan ind hind ls hb.2 _ hfol]
      simp only [Outcome.bind, ihr, DocBlock.apply]
    | .returns (some id) ls, hb =>
      simp only [DocBlock.OK, Bool.and_eq_true] at hb
      simp only [DocBlock.toks, List.cons_append]
      rw [parseBlocksG, parseSectionG_toks san hsan ind hind ls hb.2 _ hfol]
      simp only [Outcome.bind, ihr, DocBlock.apply]
    | .returns none ls, hb =>
      simp only [DocBlock.OK, Bool.and_eq_true, true_and] at hb
      have hsec := parseSectionG_toks san hsan ind hind ls hb _ hfol
      simp only [DocBlock.toks, List.cons_append]
      obtain ⟨t, r, he, ht⟩ := sectionToks_head ind ls
      rw [he] at hsec ⊢
      rw [List.cons_append] at hsec ⊢
      have key : parseBlocksG san none (f + 1) c (.kw .ReturnsKeyword :: t :: (r ++ bs.flatMap (DocBlock.toks ind))) =
          (parseSectionG san none (t :: (r ++ bs.flatMap (DocBlock.toks ind)))).bind fun (m, r') =>
            parseBlocksG san none f { c with returns := c.returns ++ [(none, m)] } r' := by
        rcases ht with rfl | rfl <;> (rw [parseBlocksG]; intro id rest he; cases he)
      rw [key, hsec]
      simp only [Outcome.bind, ihr, DocBlock.apply]
    | .see id, hb =>
      simp only [DocBlock.OK] at hb
      obtain ⟨g, fi, o, _, _, hj, htk⟩ := scopedOK_parts id hb
      have hp := parseScopedId_toks g fi o (.newline :: bs.flatMap (DocBlock.toks ind)) (by intro r' he; cases he)
      simp only [DocBlock.toks, List.cons_append, List.append_assoc, List.nil_append, htk]
      rw [parseBlocksG]
      simp only [hp, hj, hfol.valid, if_true, ihr, DocBlock.apply]

/-! ## the rendered comment and what is read back -/

/-- the message is the concatenation of its lines: it is empty or ends with the `"\n"` text -/
def terminated (m : Msg) : Bool := m.isEmpty || m.getLast? == some nl

theorem joinLines_splitLinesAux (m : Msg) (cur : List Comp) (hne : m ≠ []) (h : m.getLast? = some nl) :
    joinLines (splitLinesAux cur m) = cur.reverse ++ m := by
  induction m generalizing cur with
  | nil => exact absurd rfl hne
  | cons c r ih =>
    rw [splitLinesAux]
    by_cases hc : c = nl
    · rw [if_pos hc]
      cases r with
      | nil => simp [splitLinesAux, joinLines, hc]
      | cons c' r' =>
        have := ih [] (by simp) (by simpa [List.getLast?_cons_cons] using h)
        simp only [joinLines, List.flatMap_cons] at this ⊢
        rw [this]; simp [hc]
    · rw [if_neg hc]
      cases r with
      | nil => simp at h; exact absurd h hc
      | cons c' r' =>
        rw [ih (c :: cur) (by simp) (by simpa [List.getLast?_cons_cons] using h)]
        simp

theorem joinLines_splitLines (m : Msg) (h : terminated m = true) : joinLines (splitLines m) = m := by
  cases m with
  | nil => rfl
  | cons c r =>
    simp only [terminated, List.isEmpty_cons, Bool.false_or, beq_iff_eq] at h
    simpa [splitLines] using joinLines_splitLinesAux (c :: r) [] (by simp) h

theorem splitLines_ne_nil (m : Msg) (h : terminated m = true) (hne : m ≠ []) : splitLines m ≠ [] := by
  intro he
  have := joinLines_splitLines m h
  rw [he] at this
  exact hne this.symm

/-- overview / continuation lines of a message that can be written -/
def groupOK (m : Msg) : Bool := terminated m && (splitLines m).all lineOK && zeroIndent (splitLines m)

/-- a tag's message that can be written -/
def sectionOK (m : Msg) : Bool := terminated m && sectionLinesOK (splitLines m)

/-- **what the renderer can write so that it reads back**:
    * every message (overview, tag messages) is a sequence of lines each closed by the `"\n"` text; an overview is not empty;
    * in every line, a text is not empty, contains no `{` and no line break, and is not followed by another text; a link's
      target is a scoped identifier;
    * an overview or continuation line that starts with a text has a first non-blank character in it, which is not `@`;
    * the first line of a tag's message (written after the `:`) does not start with a blank or with `:`;
    * unless they are all empty, one of the overview lines (of the continuation lines of a tag) has no indentation of its own;
    * `@param` / `@returns` identifiers are identifiers, `@see` targets are scoped identifiers. -/
def Renderable (c : DocC) : Bool :=
  (match c.overview with | none => true | some m => !m.isEmpty && groupOK m) &&
  c.params.all (fun x => idOK x.1 && sectionOK x.2) &&
  c.returns.all (fun x => (match x.1 with | none => true | some i => idOK i) && sectionOK x.2) &&
  c.see.all scopedOK

def readBackMsg (ind : Str) (m : Msg) : Msg := joinLines ((splitLines m).map (padLine ind))
def readBackSection (ind : Str) (m : Msg) : Msg := sectionBack ind (splitLines m)

/-- the comment that is read back after `c` was written with the indentation `ind`: `c` itself, except that every overview
    or continuation line that starts with a link has an empty text in front of the link (nothing when `ind` is empty) -/
def DocC.readBack (c : DocC) (ind : Str) : DocC :=
  { overview := c.overview.map (readBackMsg ind),
    params := c.params.map fun x => (x.1, readBackSection ind x.2),
    returns := c.returns.map fun x => (x.1, readBackSection ind x.2),
    see := c.see }

def ovLines (c : DocC) : List (List Comp) := match c.overview with | none => [] | some m => splitLines m

def blocksOf (c : DocC) : List DocBlock :=
  c.params.map (fun x => DocBlock.param x.1 (splitLines x.2)) ++ c.returns.map (fun x => DocBlock.returns x.1 (splitLines x.2)) ++
  c.see.map DocBlock.see

theorem flatMap_singleton_map {α β} (l : List α) (f : α → β) : l.flatMap (fun a => [f a]) = l.map f := by
  induction l with
  | nil => rfl
  | cons a l ih => simp [ih]

theorem renderComment_eq (c : DocC) (ind : Str) :
    renderComment c ind = (ovLines c).map (lineSrc ind) ++ (blocksOf c).flatMap (DocBlock.src ind) := by
  unfold renderComment ovLines blocksOf
  simp only [List.flatMap_append, List.flatMap_map, DocBlock.src, renderSection_eq, List.append_assoc]
  congr 1
  · cases c.overview <;> simp [renderMsgLines]
  · congr 2
    exact (flatMap_singleton_map _ _).symm

theorem foldl_params (ind : Str) (ps : List (Str × Msg)) (c : DocC) :
    (ps.map (fun x => DocBlock.param x.1 (splitLines x.2))).foldl (DocBlock.apply ind) c =
      { c with params := c.params ++ ps.map fun x => (x.1, readBackSection ind x.2) } := by
  induction ps generalizing c with
  | nil => simp
  | cons p ps ih => simp [ih, DocBlock.apply, readBackSection]

theorem foldl_returns (ind : Str) (ps : List (Option Str × Msg)) (c : DocC) :
    (ps.map (fun x => DocBlock.returns x.1 (splitLines x.2))).foldl (DocBlock.apply ind) c =
      { c with returns := c.returns ++ ps.map fun x => (x.1, readBackSection ind x.2) } := by
  induction ps generalizing c with
  | nil => simp
  | cons p ps ih => simp [ih, DocBlock.apply, readBackSection]

theorem foldl_see (ind : Str) (ps : List Str) (c : DocC) :
    (ps.map DocBlock.see).foldl (DocBlock.apply ind) c = { c with see := c.see ++ ps } := by
  induction ps generalizing c with
  | nil => simp
  | cons p ps ih => simp [ih, DocBlock.apply]

theorem blocksOf_OK (c : DocC) (h : Renderable c = true) : ∀ b ∈ blocksOf c, b.OK = true := by
  simp only [Renderable, Bool.and_eq_true, List.all_eq_true] at h
  obtain ⟨⟨⟨_, hp⟩, hr⟩, hs⟩ := h
  intro b hb
  simp only [blocksOf, List.mem_append, List.mem_map] at hb
  rcases hb with (⟨x, hx, rfl⟩ | ⟨x, hx, rfl⟩) | ⟨x, hx, rfl⟩
  · have := hp x hx
    simp only [sectionOK, Bool.and_eq_true] at this
    simp [DocBlock.OK, this.1, this.2.2]
  · have := hr x hx
    simp only [sectionOK, Bool.and_eq_true] at this
    simp [DocBlock.OK, this.1, this.2.2]
  · exact hs x hx

theorem ovLines_OK (c : DocC) (hr : Renderable c = true) :
    (∀ l ∈ ovLines c, lineOK l = true) ∧ zeroIndent (ovLines c) = true ∧ (c.overview.isSome → ovLines c ≠ []) := by
  simp only [Renderable, Bool.and_eq_true] at hr
  have h1 := hr.1.1.1
  unfold ovLines
  cases ho : c.overview with
  | none => simp [zeroIndent]
  | some m =>
    simp only [ho, groupOK, Bool.and_eq_true, Bool.not_eq_true', List.all_eq_true] at h1
    exact ⟨h1.2.1.2, h1.2.2, fun _ => splitLines_ne_nil m h1.2.1.1 (by intro e; simp [e] at h1)⟩

/-- the token stream of a rendered comment: the overview lines, then the blocks -/
def renderToks (c : DocC) (ind : Str) : List CTok :=
  (ovLines c).flatMap (fun l => lineToks (indLine ind l)) ++ (blocksOf c).flatMap (DocBlock.toks ind)

/-- **lexer, the whole rendered comment**: no lexer error, and the tokens are those of the lines written -/
theorem lexComment_render (c : DocC) (ind : Str) (hind : ind.all isWsC = true) (hr : Renderable c = true) :
    lexComment (renderComment c ind) = ⟨renderToks c ind, none⟩ := by
  rw [renderComment_eq, lexComment_append _ _ _ (lexComment_lines ind hind _ (ovLines_OK c hr).1),
    lexComment_flatMap _ _ _ (fun b hb => lexComment_block ind hind b (blocksOf_OK c hr b hb))]
  rfl

/-- **round trip, assembled** (for any sanitizer that computes the property's rule; `Props/C16.sanitize_eq_spec`: the code's
    does): a renderable comment written after any whitespace indentation is parsed back as `c.readBack ind` -/
theorem parseCommentG_render (san : Sanitizer) (hsan : ∀ ls, san ls = .ok (sanitizeSpec ls)) (c : DocC) (ind : Str)
    (hind : ind.all isWsC = true) (hr : Renderable c = true)
    (hne : c.overview.isSome ∨ c.params ≠ [] ∨ c.returns ≠ [] ∨ c.see ≠ []) :
    parseCommentG san (renderComment c ind) = .ok (c.readBack ind) := by
  have hblocks := blocksOf_OK c hr
  obtain ⟨hovl, hovz, hovne⟩ := ovLines_OK c hr
  have hlex := lexComment_render c ind hind hr
  unfold renderToks at hlex
  have hnonempty : renderComment c ind ≠ [] := by
    rw [renderComment_eq]
    intro he
    simp only [List.append_eq_nil_iff, List.map_eq_nil_iff] at he
    rcases hne with h | h
    · exact hovne h he.1
    · have hb : blocksOf c ≠ [] := by
        unfold blocksOf
        rcases h with h | h | h <;> simp [h]
      cases hbs : blocksOf c with
      | nil => exact hb hbs
      | cons b bs =>
        have := he.2
        rw [hbs] at this
        cases b with
        | param id ls => simp [DocBlock.src, sectionSrc] at this
        | returns id ls => simp [DocBlock.src, sectionSrc] at this
        | see id => simp [DocBlock.src] at this
  have hfol := blocks_follow ind (blocksOf c)
  have hlinks : ∀ l ∈ (ovLines c).map (indLine ind), linksOK l = true := by
    intro l hl
    obtain ⟨l', hl', rfl⟩ := List.mem_map.mp hl
    have := hovl l' hl'
    simp only [lineOK, Bool.and_eq_true] at this
    exact lexOK_linksOK _ (lexOK_indLine ind hind l' this.1.1)
  have hpl : ∀ fuel, (ovLines c).length < fuel →
      parseLines fuel ((ovLines c).flatMap (fun l => lineToks (indLine ind l)) ++ (blocksOf c).flatMap (DocBlock.toks ind)) =
        some ((ovLines c).map (fun l => toMLine (indLine ind l)), (blocksOf c).flatMap (DocBlock.toks ind)) := by
    intro fuel hf
    have := parseLines_toks ((ovLines c).map (indLine ind)) hlinks _ hfol.notLine fuel (by simpa using hf)
    simpa [List.flatMap_map, List.map_map, Function.comp_def] using this
  have hlen : (ovLines c).length ≤
      ((ovLines c).flatMap (fun l => lineToks (indLine ind l)) ++ (blocksOf c).flatMap (DocBlock.toks ind)).length := by
    have := length_le_flatMap_lineToks ((ovLines c).map (indLine ind))
    simp only [List.flatMap_map, List.length_map] at this
    simp only [List.length_append]; omega
  have hblen : (blocksOf c).length ≤ ((blocksOf c).flatMap (DocBlock.toks ind)).length := by
    generalize blocksOf c = bs
    induction bs with
    | nil => simp
    | cons b bs ih =>
      simp only [List.flatMap_cons, List.length_append, List.length_cons]
      have : 1 ≤ (b.toks ind).length := by
        match b with
        | .param _ _ => simp [DocBlock.toks]
        | .returns none ls =>
          obtain ⟨t, r, he, _⟩ := sectionToks_head ind ls
          simp [DocBlock.toks, he]
        | .returns (some _) _ => simp [DocBlock.toks]
        | .see _ => simp [DocBlock.toks]
      omega
  rw [parseCommentG_nonempty san _ hnonempty, hlex]
  simp only
  rw [hpl _ (by omega)]
  simp only
  rw [reduceLines_ok san hsan _ _ hfol]
  simp only [Outcome.bind]
  rw [parseBlocksG_toks san hsan ind hind _ hblocks _ _ (by omega)]
  congr 1
  unfold blocksOf
  rw [List.foldl_append, List.foldl_append, foldl_params, foldl_returns, foldl_see]
  simp only [DocC.readBack, List.nil_append]
  congr 1
  unfold ovLines at hovl hovz hovne ⊢
  cases ho : c.overview with
  | none => rfl
  | some m =>
    simp only [ho] at hovl hovz hovne ⊢
    have hne' := hovne rfl
    have hsp := sanitizeSpec_indented ind hind (splitLines m) hovl hovz
    cases hs : splitLines m with
    | nil => exact absurd hs hne'
    | cons l ls =>
      rw [hs] at hsp
      simp only [List.map_cons] at hsp ⊢
      simp only [Option.map, readBackMsg, hs, List.map_cons, hsp]

/-! ## `readBack` against the rendered comment: equal up to text segmentation, and literally equal without link-led lines -/

def linkLed : List Comp → Bool
  | .link _ :: _ => true
  | _ => false

theorem padLine_eq (ind : Str) (l : List Comp) (h : ind = [] ∨ linkLed l = false) : padLine ind l = l := by
  match l with
  | [] => rfl
  | .text _ :: _ => rfl
  | .link id :: r =>
    rcases h with rfl | h
    · rfl
    · simp [linkLed] at h

/-- no overview line and no continuation line of a tag starts with a link -/
def noLinkLedLine (c : DocC) : Bool :=
  (ovLines c).all (fun l => !linkLed l) &&
  c.params.all (fun x => (contLines (splitLines x.2)).all (fun l => !linkLed l)) &&
  c.returns.all (fun x => (contLines (splitLines x.2)).all (fun l => !linkLed l))

theorem map_padLine_eq (ind : Str) (ls : List (List Comp)) (h : ind = [] ∨ ls.all (fun l => !linkLed l) = true) :
    ls.map (padLine ind) = ls := by
  have : ∀ l ∈ ls, padLine ind l = l := by
    intro l hl
    apply padLine_eq
    rcases h with h | h
    · exact Or.inl h
    · right; simpa using List.all_eq_true.mp h l hl
  rw [List.map_congr_left this, List.map_id']

theorem readBack_eq (c : DocC) (ind : Str) (hr : Renderable c = true) (h : ind = [] ∨ noLinkLedLine c = true) : c.readBack ind = c := by
  simp only [Renderable, Bool.and_eq_true, List.all_eq_true] at hr
  obtain ⟨⟨⟨hov, hp⟩, hrt⟩, _⟩ := hr
  have hsec : ∀ m, sectionOK m = true → (ind = [] ∨ (contLines (splitLines m)).all (fun l => !linkLed l) = true) →
      readBackSection ind m = m := by
    intro m hm hl
    simp only [sectionOK, Bool.and_eq_true] at hm
    rw [readBackSection, sectionBack, map_padLine_eq ind _ hl, inline_cont, joinLines_splitLines m hm.1]
  have hn : ind = [] ∨ ((ovLines c).all (fun l => !linkLed l) = true ∧
      (∀ x ∈ c.params, (contLines (splitLines x.2)).all (fun l => !linkLed l) = true) ∧
      (∀ x ∈ c.returns, (contLines (splitLines x.2)).all (fun l => !linkLed l) = true)) := by
    rcases h with h | h
    · exact Or.inl h
    · right
      simp only [noLinkLedLine, Bool.and_eq_true] at h
      exact ⟨h.1.1, List.all_eq_true.mp h.1.2, List.all_eq_true.mp h.2⟩
  obtain ⟨ov, ps, rs, ss⟩ := c
  simp only [DocC.readBack, DocC.mk.injEq, and_true]
  refine ⟨?_, ?_, ?_⟩
  · cases ov with
    | none => rfl
    | some m =>
      simp only [Bool.and_eq_true, groupOK] at hov
      simp only [Option.map, readBackMsg, Option.some.injEq]
      rw [map_padLine_eq ind _ (hn.imp id (fun h => by simpa [ovLines] using h.1)), joinLines_splitLines m hov.2.1.1]
  · conv => rhs; rw [← List.map_id' ps]
    apply List.map_congr_left
    intro x hx
    have := hp x hx
    rw [hsec x.2 this.2 (hn.imp id (fun h => h.2.1 x hx))]
  · conv => rhs; rw [← List.map_id' rs]
    apply List.map_congr_left
    intro x hx
    have := hrt x hx
    rw [hsec x.2 this.2 (hn.imp id (fun h => h.2.2 x hx))]

theorem mergeMsg_cons_congr (c : Comp) (a b : Msg) (h : mergeMsg a = mergeMsg b) : mergeMsg (c :: a) = mergeMsg (c :: b) := by
  cases c with
  | text s => simp only [mergeMsg, h]
  | link id => simp only [mergeMsg, h]

theorem mergeMsg_append_congr (p a b : Msg) (h : mergeMsg a = mergeMsg b) : mergeMsg (p ++ a) = mergeMsg (p ++ b) := by
  induction p with
  | nil => exact h
  | cons c p ih => exact mergeMsg_cons_congr c _ _ ih

theorem mergeMsg_padLine (ind : Str) (l : List Comp) (rest : Msg) : mergeMsg (padLine ind l ++ rest) = mergeMsg (l ++ rest) := by
  match l with
  | [] => rfl
  | .text _ :: _ => rfl
  | .link id :: r =>
    cases ind with
    | nil => rfl
    | cons a b => simp [padLine, mergeMsg]

theorem mergeMsg_joinLines_pad (ind : Str) (ls : List (List Comp)) (rest : Msg) :
    mergeMsg (joinLines (ls.map (padLine ind)) ++ rest) = mergeMsg (joinLines ls ++ rest) := by
  induction ls with
  | nil => rfl
  | cons l ls ih =>
    simp only [List.map_cons, joinLines, List.flatMap_cons, List.append_assoc] at ih ⊢
    rw [mergeMsg_padLine]
    exact mergeMsg_append_congr l _ _ (mergeMsg_append_congr [nl] _ _ ih)

/-- up to the segmentation of texts (adjacent texts merged, empty ones dropped) what is read back is the rendered comment -/
theorem readBack_merged (c : DocC) (ind : Str) (hr : Renderable c = true) : (c.readBack ind).merged = c.merged := by
  simp only [Renderable, Bool.and_eq_true, List.all_eq_true] at hr
  obtain ⟨⟨⟨hov, hp⟩, hrt⟩, _⟩ := hr
  have hsec : ∀ m, sectionOK m = true → mergeMsg (readBackSection ind m) = mergeMsg m := by
    intro m hm
    simp only [sectionOK, Bool.and_eq_true] at hm
    have := mergeMsg_joinLines_pad ind (contLines (splitLines m)) []
    simp only [List.append_nil] at this
    rw [readBackSection, sectionBack, joinLines_append, mergeMsg_append_congr _ _ _ this, ← joinLines_append, inline_cont,
      joinLines_splitLines m hm.1]
  obtain ⟨ov, ps, rs, ss⟩ := c
  simp only [DocC.readBack, DocC.merged, DocC.mk.injEq, and_true, List.map_map]
  refine ⟨?_, ?_, ?_⟩
  · cases ov with
    | none => rfl
    | some m =>
      simp only [Bool.and_eq_true, groupOK] at hov
      have := mergeMsg_joinLines_pad ind (splitLines m) []
      simp only [List.append_nil] at this
      simp only [Option.map, readBackMsg, this, joinLines_splitLines m hov.2.1.1]
  · apply List.map_congr_left
    intro x hx
    have := hp x hx
    simp [hsec x.2 this.2]
  · apply List.map_congr_left
    intro x hx
    have := hrt x hx
    simp [hsec x.2 this.2]

end Slicec
